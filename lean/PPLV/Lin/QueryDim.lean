import PPLV.Lin.Decide
import PPLV.Lin.Ops

/-!
# K1 theorems: the affine-dimension oracle `RefPoly.affineDim`

`RefPoly.affineDim p` runs Gaussian elimination (`eqFree`) on the implicit equalities of `p`
and counts the non-pivot variables.  The specification `affineDim_spec` is two-sided: the set
contains `d + 1` affinely independent points (so its affine hull has dimension `≥ d`) and these
points affinely span the whole set (so its affine hull has dimension `≤ d`).

Plan of the proof: (1) every point of the set solves the implicit equalities `E`; (2) there is a
point `x*` of the set at which every row outside `E` is strictly positive; (3) the solution set
`L` of `E` has an affine basis of `eqFree + 1` points (`gauss`, by the recursion of `eqFree`);
(4) a homothety of small ratio centred at `x*` moves this basis into the set.
-/
namespace PPLV.Lin
open List

/-- `Σ_k lam_k · xs_k`, coordinatewise (the lists are read up to the length of the shorter) -/
def lcomb : List Rat → List Val → Val
  | l :: ls, x :: xs => fun i => l * x i + lcomb ls xs i
  | _, _ => fun _ => 0

namespace QDim

/-! ### `lcomb` -/

@[simp] theorem lcomb_cons (l : Rat) (ls : List Rat) (x : Val) (xs : List Val) (i : Nat) :
    lcomb (l :: ls) (x :: xs) i = l * x i + lcomb ls xs i := rfl

@[simp] theorem lcomb_nil_left (xs : List Val) (i : Nat) : lcomb [] xs i = 0 := rfl

@[simp] theorem lcomb_nil_right (ls : List Rat) (i : Nat) : lcomb ls [] i = 0 := by
  cases ls <;> rfl

theorem lcomb_map_eq (i : Nat) (f : Val → Val) (hf : ∀ x, f x i = x i) (lam : List Rat)
    (xs : List Val) : lcomb lam (xs.map f) i = lcomb lam xs i := by
  induction lam generalizing xs with
  | nil => simp
  | cons l ls ih =>
    cases xs with
    | nil => simp
    | cons x xs => simp [hf, ih]

theorem lcomb_map_zero (i : Nat) (f : Val → Val) (hf : ∀ x, f x i = 0) (lam : List Rat)
    (xs : List Val) : lcomb lam (xs.map f) i = 0 := by
  induction lam generalizing xs with
  | nil => simp
  | cons l ls ih =>
    cases xs with
    | nil => simp
    | cons x xs => simp [hf, ih]

theorem lcomb_map_affine (i : Nat) (a e : Rat) (f : Val → Val) (hf : ∀ x, f x i = a + e * x i)
    (lam : List Rat) (xs : List Val) (hl : lam.length = xs.length) :
    lcomb lam (xs.map f) i = a * lam.sum + e * lcomb lam xs i := by
  induction lam generalizing xs with
  | nil => simp
  | cons l ls ih =>
    cases xs with
    | nil => simp at hl
    | cons x xs =>
      have hl' : ls.length = xs.length := by simpa using hl
      simp only [List.map_cons, lcomb_cons, hf, ih xs hl', List.sum_cons]
      ring

/-! ### linearity of `dot` and of rows -/

theorem dot_lin2 (as : List Int) (a b : Rat) (u v y : Val)
    (h : ∀ i, y i = a * u i + b * v i) : dot as y = a * dot as u + b * dot as v := by
  induction as generalizing u v y with
  | nil => simp
  | cons c cs ih =>
    simp only [dot_cons]
    rw [h 0, ih u.tail v.tail y.tail (fun i => h (i+1))]
    ring

theorem eval_aff (c : Con) (a : Rat) (u v y : Val) (h : ∀ i, y i = a * u i + (1 - a) * v i) :
    c.eval y = a * c.eval u + (1 - a) * c.eval v := by
  unfold Con.eval
  rw [dot_lin2 c.coeffs a (1 - a) u v y h]; ring

theorem dot_lcomb_const (as : List Int) (r : Rat) (mu : List Rat) (xs : List Val)
    (hl : mu.length = xs.length) (hx : ∀ x ∈ xs, dot as x = r) :
    dot as (lcomb mu xs) = mu.sum * r := by
  induction mu generalizing xs with
  | nil =>
    have : lcomb [] xs = Val.zero := rfl
    rw [this, dot_zero]; simp
  | cons m ms ih =>
    cases xs with
    | nil => simp at hl
    | cons x xs =>
      have hl' : ms.length = xs.length := by simpa using hl
      rw [dot_lin2 as m 1 x (lcomb ms xs) (lcomb (m :: ms) (x :: xs)) (fun i => by simp),
        hx x (by simp), ih xs hl' (fun z hz => hx z (by simp [hz])), List.sum_cons]
      ring

theorem dot_agree_nz (as : List Int) (x y : Val) (h : ∀ i, as.getD i 0 ≠ 0 → x i = y i) :
    dot as x = dot as y := by
  induction as generalizing x y with
  | nil => rfl
  | cons a as ih =>
    simp only [dot_cons]
    rw [ih x.tail y.tail (fun i hi => h (i+1) (by simpa using hi))]
    by_cases ha : a = 0
    · subst ha; simp
    · rw [h 0 (by simpa using ha)]

/-! ### the elimination step on equalities -/

theorem getD_map_mul (a : Int) (l : List Int) (i : Nat) :
    (l.map (a * ·)).getD i 0 = a * l.getD i 0 := by
  induction l generalizing i with
  | nil => simp
  | cons b bs ih =>
    cases i with
    | zero => simp only [List.map_cons, List.getD_cons_zero]
    | succ i => simp only [List.map_cons, List.getD_cons_succ, ih]

theorem getD_lincomb (a b : Int) (xs ys : List Int) (i : Nat) :
    (lincomb a b xs ys).getD i 0 = a * xs.getD i 0 + b * ys.getD i 0 := by
  induction xs generalizing ys i with
  | nil =>
    have : lincomb a b [] ys = ys.map (b * ·) := by cases ys <;> rfl
    rw [this, getD_map_mul]; simp
  | cons x xs ih =>
    cases ys with
    | nil =>
      have : lincomb a b (x :: xs) [] = (x :: xs).map (a * ·) := rfl
      rw [this, getD_map_mul]; simp
    | cons y ys =>
      cases i with
      | zero => simp only [lincomb, List.getD_cons_zero]
      | succ i => simp only [lincomb, List.getD_cons_succ, ih]

theorem at_elimEq (j : Nat) (piv c : Con) (i : Nat) :
    (elimEq j piv c).at i = piv.at j * c.at i - c.at j * piv.at i := by
  unfold elimEq Con.at
  simp only [getD_lincomb]
  ring

theorem eval_elimEq (j : Nat) (piv c : Con) (x : Val) :
    (elimEq j piv c).eval x
      = ((piv.at j : Int) : Rat) * c.eval x - ((c.at j : Int) : Rat) * piv.eval x := by
  simp only [elimEq, Con.eval, dot_lincomb]; push_cast; ring

theorem eqFree_none {j : Nat} {js : List Nat} {E : List Con}
    (h : E.find? (fun c => c.at j != 0) = none) : eqFree (j :: js) E = 1 + eqFree js E := by
  simp [eqFree, h]

theorem eqFree_some {j : Nat} {js : List Nat} {E : List Con} {piv : Con}
    (h : E.find? (fun c => c.at j != 0) = some piv) :
    eqFree (j :: js) E = eqFree js (E.map (elimEq j piv)) := by
  simp [eqFree, h]

/-! ### affine bases -/

/-- `x` solves every row of `E` read as an equality -/
def Sol (E : List Con) (x : Val) : Prop := ∀ c ∈ E, c.eval x = 0

/-- `xs` is an affine basis of `S`, everything read on the coordinates `J` only -/
structure IsAffBasis (J : Nat → Prop) (S : Val → Prop) (xs : List Val) : Prop where
  mem : ∀ x ∈ xs, S x
  indep : ∀ lam : List Rat, lam.length = xs.length → lam.sum = 0 →
    (∀ i, J i → lcomb lam xs i = 0) → ∀ l ∈ lam, l = 0
  span : ∀ y, S y → ∃ mu : List Rat, mu.length = xs.length ∧ mu.sum = 1 ∧
    ∀ i, J i → y i = lcomb mu xs i

theorem sol_lcomb (E : List Con) (mu : List Rat) (xs : List Val) (hl : mu.length = xs.length)
    (hs : mu.sum = 1) (hx : ∀ x ∈ xs, Sol E x) : Sol E (lcomb mu xs) := by
  intro c hc
  unfold Con.eval
  rw [dot_lcomb_const c.coeffs (-(c.k : Rat)) mu xs hl, hs]
  · ring
  · intro x hxm
    have := hx x hxm c hc
    unfold Con.eval at this
    linarith

theorem sol_update (E : List Con) (j : Nat) (hcj : ∀ c ∈ E, c.at j = 0) (b : Val) (v : Rat)
    (hb : Sol E b) : Sol E (b.update j v) := by
  intro c hc
  rw [eval_update, hcj c hc, hb c hc]; simp

/-- **Gaussian elimination** (the recursion of `eqFree`): a solvable system whose rows mention
    only the variables `js` has an affine basis (on the coordinates `js`) of `eqFree js E + 1`
    solutions. -/
theorem gauss (js : List Nat) : ∀ E : List Con, js.Nodup →
    (∀ c ∈ E, ∀ i, i ∉ js → c.at i = 0) → (∃ x, Sol E x) →
    ∃ bs : List Val, bs.length = eqFree js E + 1 ∧ IsAffBasis (fun i => i ∈ js) (Sol E) bs := by
  induction js with
  | nil =>
    rintro E - - ⟨x, hx⟩
    refine ⟨[x], by simp [eqFree], ?_, ?_, ?_⟩
    · intro z hz
      rw [List.mem_singleton.mp hz]; exact hx
    · intro lam hl hs _ l hlm
      obtain ⟨l0, rfl⟩ := List.length_eq_one_iff.mp hl
      have h0 : l0 = 0 := by simpa using hs
      rw [List.mem_singleton.mp hlm, h0]
    · intro y _
      exact ⟨[1], by simp, by simp, fun i hi => by simp at hi⟩
  | cons j js ih =>
    rintro E hnd hz ⟨x, hx⟩
    have hjn : j ∉ js := (List.nodup_cons.mp hnd).1
    have hnd' : js.Nodup := (List.nodup_cons.mp hnd).2
    cases hfind : E.find? (fun c => c.at j != 0) with
    | none =>
      have hcj : ∀ c ∈ E, c.at j = 0 := by
        intro c hc
        have := List.find?_eq_none.mp hfind c hc
        simpa using this
      have hz' : ∀ c ∈ E, ∀ i, i ∉ js → c.at i = 0 := by
        intro c hc i hi
        by_cases hij : i = j
        · subst hij; exact hcj c hc
        · exact hz c hc i (by simp [hij, hi])
      obtain ⟨bs', hlen, hB⟩ := ih E hnd' hz' ⟨x, hx⟩
      cases bs' with
      | nil => simp at hlen
      | cons b0 rest =>
        have hrs_i : ∀ (v : Rat) (b : Val) (i : Nat), i ∈ js → (b.update j v) i = b i := by
          intro v b i hi
          have : i ≠ j := fun h => hjn (h ▸ hi)
          simp [Val.update, this]
        refine ⟨b0.update j 1 :: (b0 :: rest).map (fun b => b.update j 0), ?_, ?_, ?_, ?_⟩
        · rw [eqFree_none hfind]; simp at hlen ⊢; omega
        · intro z hzm
          rcases List.mem_cons.mp hzm with rfl | hzm
          · exact sol_update E j hcj b0 1 (hB.mem b0 (by simp))
          · obtain ⟨b, hb, rfl⟩ := List.mem_map.mp hzm
            exact sol_update E j hcj b 0 (hB.mem b hb)
        · intro lam hl hs h0
          cases lam with
          | nil => intro l hlm; cases hlm
          | cons l0 lam' =>
            have hl' : lam'.length = (b0 :: rest).length := by simpa using hl
            have hj := h0 j (by simp)
            rw [lcomb_cons, lcomb_map_zero j _ (fun b => by simp [Val.update])] at hj
            have hl0 : l0 = 0 := by simpa [Val.update] using hj
            have hs' : lam'.sum = 0 := by simpa [hl0] using hs
            have hrest := hB.indep lam' hl' hs' (fun i hi => by
              have := h0 i (List.mem_cons_of_mem _ hi)
              rw [lcomb_cons, lcomb_map_eq i _ (fun b => hrs_i 0 b i hi), hl0] at this
              simpa using this)
            intro l hlm
            rcases List.mem_cons.mp hlm with rfl | hlm
            · exact hl0
            · exact hrest l hlm
        · intro y hy
          obtain ⟨mu', hml, hms, hmu⟩ := hB.span y hy
          cases mu' with
          | nil => simp at hml
          | cons m0 mrest =>
            refine ⟨y j :: (m0 - y j) :: mrest, by simpa using hml, ?_, ?_⟩
            · simp only [List.sum_cons] at hms ⊢; linarith
            · intro i hi
              rcases List.mem_cons.mp hi with hij | hi
              · subst hij
                simp only [List.map_cons, lcomb_cons]
                rw [lcomb_map_zero i _ (fun b => by simp [Val.update])]
                simp [Val.update]
              · have := hmu i hi
                simp only [List.map_cons, lcomb_cons] at this ⊢
                rw [lcomb_map_eq i _ (fun b => hrs_i 0 b i hi), hrs_i 1 b0 i hi,
                  hrs_i 0 b0 i hi, this]
                ring
    | some piv =>
      have hpivE : piv ∈ E := List.mem_of_find?_eq_some hfind
      have hpivj : piv.at j ≠ 0 := by
        have := List.find?_some hfind
        simpa using this
      have hpq : ((piv.at j : Int) : Rat) ≠ 0 := by exact_mod_cast hpivj
      have hmemE' : ∀ c ∈ E, elimEq j piv c ∈ E.map (elimEq j piv) :=
        fun c hc => List.mem_map.mpr ⟨c, hc, rfl⟩
      have hz' : ∀ c ∈ E.map (elimEq j piv), ∀ i, i ∉ js → c.at i = 0 := by
        intro c' hc' i hi
        obtain ⟨c, hc, rfl⟩ := List.mem_map.mp hc'
        rw [at_elimEq]
        by_cases hij : i = j
        · subst hij; ring
        · have hi' : i ∉ j :: js := by simp [hij, hi]
          rw [hz c hc i hi', hz piv hpivE i hi']; ring
      have hsol' : ∀ y, Sol E y → Sol (E.map (elimEq j piv)) y := by
        intro y hy c' hc'
        obtain ⟨c, hc, rfl⟩ := List.mem_map.mp hc'
        rw [eval_elimEq, hy c hc, hy piv hpivE]; ring
      obtain ⟨bs', hlen, hB⟩ := ih _ hnd' hz' ⟨x, hsol' x hx⟩
      let lift : Val → Val := fun b => b.update j (b j - piv.eval b / ((piv.at j : Int) : Rat))
      have hlift_sol : ∀ b, Sol (E.map (elimEq j piv)) b → Sol E (lift b) := by
        intro b hb
        have hp : piv.eval (lift b) = 0 := by
          show piv.eval (b.update j _) = 0
          rw [eval_update]; field_simp; ring
        intro c hc
        have h1 : (elimEq j piv c).eval (lift b) = 0 := by
          show (elimEq j piv c).eval (b.update j _) = 0
          rw [eval_update, hz' _ (hmemE' c hc) j hjn, hb _ (hmemE' c hc)]; simp
        rw [eval_elimEq, hp] at h1
        simpa [hpq] using h1
      have hlift_i : ∀ b i, i ∈ js → lift b i = b i := by
        intro b i hi
        have : i ≠ j := fun h => hjn (h ▸ hi)
        simp [lift, Val.update, this]
      refine ⟨bs'.map lift, by rw [List.length_map, hlen, eqFree_some hfind], ?_, ?_, ?_⟩
      · intro z hzm
        obtain ⟨b, hb, rfl⟩ := List.mem_map.mp hzm
        exact hlift_sol b (hB.mem b hb)
      · intro lam hl hs h0
        rw [List.length_map] at hl
        apply hB.indep lam hl hs
        intro i hi
        have := h0 i (List.mem_cons_of_mem _ hi)
        rwa [lcomb_map_eq i lift (fun b => hlift_i b i hi)] at this
      · intro y hy
        obtain ⟨mu, hml, hms, hmu⟩ := hB.span y (hsol' y hy)
        refine ⟨mu, by rw [List.length_map]; exact hml, hms, ?_⟩
        have hzsol : Sol E (lcomb mu (bs'.map lift)) :=
          sol_lcomb E mu _ (by rw [List.length_map]; exact hml) hms (fun z hzm => by
            obtain ⟨b, hb, rfl⟩ := List.mem_map.mp hzm
            exact hlift_sol b (hB.mem b hb))
        have hag : ∀ i, i ∈ js → y i = lcomb mu (bs'.map lift) i := fun i hi => by
          rw [lcomb_map_eq i lift (fun b => hlift_i b i hi)]; exact hmu i hi
        intro i hi
        rcases List.mem_cons.mp hi with hij | hi
        · subst hij
          generalize hzdef : lcomb mu (bs'.map lift) = z at hzsol hag ⊢
          have e1 : piv.eval (z.update i (y i)) = piv.eval y := by
            unfold Con.eval
            congr 1
            apply dot_agree_nz
            intro k hk
            by_cases hki : k = i
            · subst hki; simp [Val.update]
            · by_cases hkjs : k ∈ js
              · simp only [Val.update, hki, if_false]; exact (hag k hkjs).symm
              · exact absurd (hz piv hpivE k (by simp [hki, hkjs])) hk
          rw [eval_update, hzsol piv hpivE, hy piv hpivE] at e1
          have : y i - z i = 0 := by simpa [hpq] using e1
          linarith
        · exact hag i hi


/-! ### the implicit equalities and a relative-interior point -/

/-- the row `-c ≥ 0` tested by `RefPoly.implicitEqs` -/
def opp (c : Con) : Con := { c with coeffs := c.coeffs.map (- ·), k := -c.k, strict := false }

theorem eval_opp (c : Con) (x : Val) : (opp c).eval x = - c.eval x := by
  unfold Con.eval opp
  simp only
  have : c.coeffs.map (- ·) = c.coeffs.map ((-1 : Int) * ·) := by
    apply List.map_congr_left; intro a _; ring
  rw [this, dot_map_mul]; push_cast; ring

theorem sat_opp (c : Con) (x : Val) : (opp c).sat x ↔ c.eval x ≤ 0 := by
  have hs : (opp c).strict = false := rfl
  unfold Con.sat
  rw [hs, eval_opp]
  simp

theorem mem_implicitEqs (p : RefPoly) (c : Con) :
    c ∈ p.implicitEqs ↔ c ∈ p.cs ∧ c.strict = false ∧ implies p.n p.cs (opp c) = true := by
  unfold RefPoly.implicitEqs opp
  simp [List.mem_filter]

theorem sat_nonneg' (c : Con) (x : Val) (h : c.sat x) : 0 ≤ c.eval x := by
  unfold Con.sat at h
  split at h
  · exact le_of_lt h
  · exact h

theorem sat_of_pos (c : Con) (x : Val) (h : 0 < c.eval x) : c.sat x := by
  unfold Con.sat
  split
  · exact h
  · exact le_of_lt h

/-- every point of the set solves the implicit equalities -/
theorem implicitEqs_sol (p : RefPoly) (hwf : WF p.n p.cs) (x : Val) (hx : Sat p.cs x) :
    Sol p.implicitEqs x := by
  intro c hc
  obtain ⟨hcs, hstr, himp⟩ := (mem_implicitEqs p c).mp hc
  have hlen : (opp c).coeffs.length ≤ p.n := by
    show (c.coeffs.map (- ·)).length ≤ p.n
    rw [List.length_map]; exact hwf c hcs
  have h1 := (sat_opp c x).mp ((implies_iff p.n p.cs (opp c) hwf hlen).mp himp x hx)
  have h2 := sat_nonneg' c x (hx c hcs)
  linarith

/-- every other row is strictly positive somewhere on the set -/
theorem nonimplicit_witness (p : RefPoly) (hwf : WF p.n p.cs) (x0 : Val) (hx0 : Sat p.cs x0)
    (c : Con) (hc : c ∈ p.cs) (hn : c ∉ p.implicitEqs) : ∃ x, Sat p.cs x ∧ 0 < c.eval x := by
  cases hs : c.strict with
  | true =>
    refine ⟨x0, hx0, ?_⟩
    have := hx0 c hc
    unfold Con.sat at this
    simpa [hs] using this
  | false =>
    have hlen : (opp c).coeffs.length ≤ p.n := by
      show (c.coeffs.map (- ·)).length ≤ p.n
      rw [List.length_map]; exact hwf c hc
    have hni : ¬ (implies p.n p.cs (opp c) = true) := fun h =>
      hn ((mem_implicitEqs p c).mpr ⟨hc, hs, h⟩)
    rw [implies_iff p.n p.cs (opp c) hwf hlen] at hni
    by_contra hcon
    apply hni
    intro x hx
    rw [sat_opp]
    by_contra hlt
    exact hcon ⟨x, hx, not_le.mp hlt⟩

theorem eval_mid (c : Con) (u v : Val) :
    c.eval (fun i => (1/2 : Rat) * u i + (1 - 1/2) * v i)
      = (1/2 : Rat) * c.eval u + (1 - 1/2) * c.eval v :=
  eval_aff c (1/2) u v _ (fun _ => rfl)

theorem sat_mid (c : Con) (u v : Val) (hu : c.sat u) (hv : c.sat v) :
    c.sat (fun i => (1/2 : Rat) * u i + (1 - 1/2) * v i) := by
  unfold Con.sat at hu hv ⊢
  rw [eval_mid]
  split <;> simp_all <;> linarith

/-- a point of the set at which every row of `rows` having a strict witness is strict -/
theorem relint (cs : List Con) (P : Con → Prop) (x0 : Val) (h0 : Sat cs x0) :
    ∀ rows : List Con, (∀ c ∈ rows, c ∈ cs) →
      (∀ c ∈ rows, P c → ∃ x, Sat cs x ∧ 0 < c.eval x) →
      ∃ x, Sat cs x ∧ ∀ c ∈ rows, P c → 0 < c.eval x := by
  intro rows
  induction rows with
  | nil => intro _ _; exact ⟨x0, h0, fun c hc => by cases hc⟩
  | cons c rows ih =>
    intro hsub hw
    obtain ⟨x1, hs1, hp1⟩ := ih (fun d hd => hsub d (List.mem_cons_of_mem _ hd))
      (fun d hd => hw d (List.mem_cons_of_mem _ hd))
    by_cases hP : P c
    · obtain ⟨xc, hsc, hpc⟩ := hw c (by simp) hP
      refine ⟨fun i => (1/2 : Rat) * x1 i + (1 - 1/2) * xc i,
        fun d hd => sat_mid d x1 xc (hs1 d hd) (hsc d hd), ?_⟩
      intro d hd hPd
      rw [eval_mid]
      have hdcs : d ∈ cs := hsub d hd
      have g1 := sat_nonneg' d x1 (hs1 d hdcs)
      have g2 := sat_nonneg' d xc (hsc d hdcs)
      rcases List.mem_cons.mp hd with rfl | hd
      · linarith
      · have h1 := hp1 d hd hPd
        linarith
    · refine ⟨x1, hs1, ?_⟩
      intro d hd hPd
      rcases List.mem_cons.mp hd with rfl | hd
      · exact absurd hPd hP
      · exact hp1 d hd hPd

/-- one ratio works for finitely many strict inequalities -/
theorem exists_eps {α : Type} (f g : α → Rat) : ∀ l : List α, ∃ e0 : Rat, 0 < e0 ∧
    ∀ e, 0 < e → e ≤ e0 → ∀ a ∈ l, 0 < f a → 0 < f a + e * g a := by
  intro l
  induction l with
  | nil => exact ⟨1, by norm_num, fun e _ _ a ha => by cases ha⟩
  | cons a l ih =>
    obtain ⟨e1, he1, h1⟩ := ih
    by_cases hc : 0 < f a ∧ g a < 0
    · obtain ⟨hf, hg⟩ := hc
      have hq : 0 < f a / (2 * (-g a)) := div_pos hf (by linarith)
      refine ⟨min e1 (f a / (2 * (-g a))), lt_min he1 hq, ?_⟩
      intro e he hle b hb hfb
      rcases List.mem_cons.mp hb with rfl | hb
      · have h2 : e ≤ f b / (2 * (-g b)) := le_trans hle (min_le_right _ _)
        rw [le_div_iff₀ (by linarith)] at h2
        nlinarith
      · exact h1 e he (le_trans hle (min_le_left _ _)) b hb hfb
    · refine ⟨e1, he1, ?_⟩
      intro e he hle b hb hfb
      rcases List.mem_cons.mp hb with rfl | hb
      · have hg : 0 ≤ g b := by
          by_contra hn
          exact hc ⟨hfb, not_le.mp hn⟩
        have := mul_nonneg (le_of_lt he) hg
        linarith
      · exact h1 e he hle b hb hfb

end QDim

open QDim

theorem affineDim_empty (p : RefPoly) (hwf : WF p.n p.cs) (h : sem p.cs = ∅) :
    p.affineDim = 0 := by
  have : p.isEmpty = true := (isEmptyB_iff p.n p.cs hwf).mpr h
  simp [RefPoly.affineDim, this]

/-- **Specification of the affine-dimension oracle** (two-sided).  For a non-empty set
    `sem p.cs ⊆ ℚ^n` and `d := p.affineDim` there are `d + 1` points `xs` of the set which are
    (b) *affinely independent*: the only coefficients `lam` with `Σ lam_k = 0` and
    `Σ lam_k · xs_k = 0` (on the coordinates `< n`) are `lam = 0` — hence the affine hull of the
    set has dimension at least `d`; and (c) *affinely spanning*: every point `y` of the set is
    `Σ mu_k · xs_k` (on the coordinates `< n`) for some `mu` with `Σ mu_k = 1` — hence the set
    lies in the `d`-dimensional affine subspace through `xs`, and the affine hull has dimension
    at most `d`.  So `xs` is an affine basis of the affine hull of the set and `d` is exactly
    its dimension.  (`lcomb lam xs = Σ_k lam_k · xs_k`; coordinates `≥ n` are irrelevant since
    the rows only mention variables `< n`.) -/
theorem affineDim_spec (p : RefPoly) (hwf : WF p.n p.cs) (hne : (sem p.cs).Nonempty) :
    ∃ xs : List Val, xs.length = p.affineDim + 1 ∧
      (∀ x ∈ xs, x ∈ sem p.cs) ∧
      (∀ lam : List Rat, lam.length = xs.length → lam.sum = 0 →
        (∀ i < p.n, lcomb lam xs i = 0) → ∀ l ∈ lam, l = 0) ∧
      (∀ y ∈ sem p.cs, ∃ mu : List Rat, mu.length = xs.length ∧ mu.sum = 1 ∧
        ∀ i < p.n, y i = lcomb mu xs i) := by
  obtain ⟨x0, hx0⟩ := hne
  have hx0' : Sat p.cs x0 := hx0
  have hfeas : p.isEmpty = false := by
    have : feasible p.n p.cs = true := (feasible_iff p.n p.cs hwf).mpr ⟨x0, hx0'⟩
    simp [RefPoly.isEmpty, this]
  have hdim : p.affineDim = eqFree (List.range p.n) p.implicitEqs := by
    simp [RefPoly.affineDim, hfeas]
  -- the relative-interior point
  obtain ⟨xs_, hss, hpos⟩ := relint p.cs (fun c => c ∉ p.implicitEqs) x0 hx0' p.cs
    (fun c hc => hc) (fun c hc hn => nonimplicit_witness p hwf x0 hx0' c hc hn)
  have hsolstar : Sol p.implicitEqs xs_ := implicitEqs_sol p hwf xs_ hss
  -- the affine basis of the solution set of the implicit equalities
  have hz : ∀ c ∈ p.implicitEqs, ∀ i, i ∉ List.range p.n → c.at i = 0 := by
    intro c hc i hi
    have hcs := ((mem_implicitEqs p c).mp hc).1
    have hlen := hwf c hcs
    have hi' : p.n ≤ i := by simpa using hi
    unfold Con.at
    simp [List.getD_eq_getElem?_getD, List.getElem?_eq_none (le_trans hlen hi')]
  obtain ⟨bs, hlen, hB⟩ := gauss (List.range p.n) p.implicitEqs List.nodup_range hz
    ⟨x0, implicitEqs_sol p hwf x0 hx0'⟩
  -- the common ratio
  obtain ⟨e, he, heps⟩ := exists_eps (fun a : Con × Val => a.1.eval xs_)
    (fun a : Con × Val => a.1.eval a.2 - a.1.eval xs_)
    (p.cs.flatMap fun c => bs.map fun b => (c, b))
  have hene : e ≠ 0 := ne_of_gt he
  let h : Val → Val := fun b i => e * b i + (1 - e) * xs_ i
  have heval : ∀ (c : Con) (b : Val), c.eval (h b) = e * c.eval b + (1 - e) * c.eval xs_ :=
    fun c b => eval_aff c e b xs_ (h b) (fun _ => rfl)
  refine ⟨bs.map h, by rw [List.length_map, hlen, hdim], ?_, ?_, ?_⟩
  · intro x hx
    obtain ⟨b, hb, rfl⟩ := List.mem_map.mp hx
    intro c hc
    by_cases hcE : c ∈ p.implicitEqs
    · have hstr := ((mem_implicitEqs p c).mp hcE).2.1
      unfold Con.sat
      rw [hstr, heval, hB.mem b hb c hcE, hsolstar c hcE]
      simp
    · apply sat_of_pos
      have hmem : (c, b) ∈ p.cs.flatMap fun c => bs.map fun b => (c, b) :=
        List.mem_flatMap.mpr ⟨c, hc, List.mem_map.mpr ⟨b, hb, rfl⟩⟩
      have := heps e he (le_refl _) (c, b) hmem (hpos c hc hcE)
      rw [heval]
      simp only at this
      linarith
  · intro lam hl hs h0
    rw [List.length_map] at hl
    apply hB.indep lam hl hs
    intro i hi
    have hi' : i < p.n := List.mem_range.mp hi
    have := h0 i hi'
    rw [lcomb_map_affine i ((1 - e) * xs_ i) e h (fun b => by simp only [h]; ring) lam bs hl,
      hs] at this
    have h2 : e * lcomb lam bs i = 0 := by linarith
    rcases mul_eq_zero.mp h2 with h3 | h3
    · exact absurd h3 hene
    · exact h3
  · intro y hy
    have hysol : Sol p.implicitEqs y := implicitEqs_sol p hwf y hy
    let w : Val := fun i => (1 / e) * y i + (1 - 1 / e) * xs_ i
    have hw : Sol p.implicitEqs w := by
      intro c hc
      rw [eval_aff c (1 / e) y xs_ w (fun _ => rfl), hysol c hc, hsolstar c hc]; ring
    obtain ⟨mu, hml, hms, hmu⟩ := hB.span w hw
    refine ⟨mu, by rw [List.length_map]; exact hml, hms, ?_⟩
    intro i hi
    rw [lcomb_map_affine i ((1 - e) * xs_ i) e h (fun b => by simp only [h]; ring) mu bs hml,
      hms, ← hmu i (List.mem_range.mpr hi)]
    simp only [w]
    field_simp
    ring

/-- sanity: the line `x₀ = 0` in the plane has dimension 1 -/
example : RefPoly.affineDim ⟨false, 2, [geRow [1,0] 0, geRow [-1,0] 0]⟩ = 1 := by decide +kernel
/-- sanity: the open half-plane `x₀ > 0` has dimension 2, the point `(1, 2)` dimension 0 -/
example : RefPoly.affineDim ⟨true, 2, [gtRow [1,0] 0]⟩ = 2 := by decide +kernel
example : RefPoly.affineDim
    ⟨false, 2, eqRows [1,0] (-1) ++ eqRows [0,1] (-2)⟩ = 0 := by decide +kernel

end PPLV.Lin
