import PPLV.Lin.Ops
import PPLV.Lin.Project

/-! # K1 theorems: the generic pieces of the reference operations (`PPLV/Lin/Ops.lean`) -/
namespace PPLV.Lin
open List

/-- **Redundancy removal** keeps the solution set: a row is dropped only when the decided
    implication says the remaining rows entail it. -/
theorem dropRedundant_correct (n : Nat) (kept rest : List Con) (hwf : WF n (kept ++ rest)) (x : Val) :
    Sat (dropRedundant n kept rest) x ↔ Sat (kept ++ rest) x := by
  induction rest generalizing kept with
  | nil => simp [dropRedundant]
  | cons c rest ih =>
    have hsplit : Sat (kept ++ c :: rest) x ↔ c.sat x ∧ Sat (kept ++ rest) x := by
      simp only [Sat_append, Sat_cons]; tauto
    have hwf' : WF n (kept ++ rest) := by
      intro d hd
      apply hwf d
      rcases List.mem_append.mp hd with h | h
      · exact List.mem_append_left _ h
      · exact List.mem_append_right _ (List.mem_cons_of_mem _ h)
    have hc : c.coeffs.length ≤ n := hwf c (by simp)
    unfold dropRedundant
    split
    · rename_i himp
      rw [ih kept hwf', hsplit]
      exact ⟨fun h => ⟨(implies_iff n _ c hwf' hc).mp himp x h, h⟩, fun h => h.2⟩
    · have hwf'' : WF n ((kept ++ [c]) ++ rest) := by
        rw [List.append_assoc, List.singleton_append]; exact hwf
      rw [ih (kept ++ [c]) hwf'', List.append_assoc, List.singleton_append]

theorem Sat_map_shift (k : Nat) (cs : List Con) (w : Val) :
    Sat (cs.map (Con.shift k)) w ↔ Sat cs (fun j => w (j + k)) := by
  unfold Sat
  simp only [List.mem_map, forall_exists_index, and_imp, forall_apply_eq_imp_iff₂]
  constructor
  · intro h c hc; exact (sat_shift k c w).mp (h c hc)
  · intro h c hc; exact (sat_shift k c w).mpr (h c hc)

theorem relImage_wf (nOut : Nat) (p : RefPoly) (rel : List Con) :
    WF nOut (relImage nOut p rel).cs := projectTo_wf _ _ _

/-- **Relational image**: `relImage nOut p rel` denotes `{w | ∃ x ∈ p, rel(w, x)}`; in the witness
    `x'` the low `nOut` coordinates are the image point and the high ones the source point. -/
theorem relImage_spec (nOut : Nat) (p : RefPoly) (rel : List Con) (hrel : WF (nOut + p.n) rel)
    (hp : WF p.n p.cs) (w : Val) :
    Sat (relImage nOut p rel).cs w ↔
      ∃ x', (∀ j < nOut, x' j = w j) ∧ Sat rel x' ∧ Sat p.cs (fun j => x' (j + nOut)) := by
  have hwf : WF (nOut + p.n) (rel ++ p.cs.map (Con.shift nOut)) := by
    intro c hc
    rcases List.mem_append.mp hc with h | h
    · exact hrel c h
    · obtain ⟨d, hd, rfl⟩ := List.mem_map.mp h
      have := hp d hd
      simp [Con.shift]; omega
  show Sat (projectTo nOut (nOut + p.n) (rel ++ p.cs.map (Con.shift nOut))) w ↔ _
  rw [projectTo_spec nOut (nOut + p.n) _ hwf (Nat.le_add_right _ _)]
  simp only [Sat_append, Sat_map_shift]

end PPLV.Lin
