import PPLV.Lin.OpSpecs2b
import PPLV.Lin.QueryCong

/-! # K1 theorems: the judge of `refine_with_congruence(s)` and the positive time-elapse of
reference polyhedra (on top of `OpSpecs2`, `OpSpecs2b`, `QueryCong`) -/
namespace PPLV.Lin
open List

theorem WF_congRows (n : Nat) (cgs : List Cong) (h : ∀ c ∈ cgs, c.e.coeffs.length ≤ n) :
    WF n (congRows cgs) := by
  intro row hrow
  unfold congRows at hrow
  obtain ⟨c, hc, hrow⟩ := List.mem_flatMap.mp hrow
  split at hrow
  · exact WF_eqRows n _ _ (h c hc) row hrow
  · split at hrow
    · simp only [List.mem_cons, List.not_mem_nil, or_false] at hrow
      subst hrow; simp [falseRow]
    · cases hrow

/-- **`refine_with_congruence(s)`**: when the judge accepts the result rows `r`, the result lies
    between `P ∩ cgs` and `P` (`Cong.holds`: the equality, resp. `e(x) ∈ mℤ`). -/
theorem refineCongsJudge_sound (p : RefPoly) (cgs : List Cong) (r : List Con)
    (hp : WF p.n p.cs) (hr : WF p.n r)
    (hcg : ∀ c ∈ cgs, 0 ≤ c.m ∧ c.e.coeffs.length ≤ p.n)
    (h : p.refineCongsJudge cgs r = true) :
    sem r ⊆ sem p.cs ∧ ∀ x ∈ sem p.cs, (∀ c ∈ cgs, c.holds x) → x ∈ sem r := by
  unfold RefPoly.refineCongsJudge at h
  simp only [Bool.and_eq_true, List.all_eq_true] at h
  obtain ⟨hsub, hrows⟩ := h
  refine ⟨(subsetB_iff p.n r p.cs hr hp).mp hsub, fun x hx hall => ?_⟩
  have hx' : x ∈ sem (p.addCongs cgs).cs := (addCongs_spec p cgs).1 x hx hall
  have hwf' : WF p.n (p.addCongs cgs).cs :=
    WF_append _ _ _ hp (WF_congRows p.n cgs fun c hc => (hcg c hc).2)
  intro row hrow
  by_contra hns
  -- `x` lies in the piece cut off by `row`
  have hwfP : WF p.n ((p.addCongs cgs).addCons [row.neg]).cs := by
    refine WF_append _ _ _ hwf' ?_
    intro c hc
    simp only [List.mem_cons, List.not_mem_nil, or_false] at hc
    subst hc; rw [neg_length]; exact hr row hrow
  have hxP : x ∈ sem ((p.addCongs cgs).addCons [row.neg]).cs := by
    show Sat ((p.addCongs cgs).cs ++ [row.neg]) x
    rw [Sat_append, Sat_singleton]
    exact ⟨hx', (sat_neg_iff row x).mpr hns⟩
  have hj := hrows row hrow
  rw [Bool.or_eq_true] at hj
  rcases hj with hemp | hany
  · have : sem ((p.addCongs cgs).addCons [row.neg]).cs = ∅ :=
      (isEmptyB_iff p.n _ hwfP).mp hemp
    rw [this] at hxP; exact hxP
  · rw [List.any_eq_true] at hany
    obtain ⟨c, hc, hcc⟩ := hany
    rw [Bool.and_eq_true, Bool.not_eq_true'] at hcc
    obtain ⟨hneq, hdis⟩ := hcc
    have hm0 : c.m ≠ 0 := by
      intro h0; unfold Cong.isEq at hneq; simp [h0] at hneq
    have hmpos : 0 < c.m := lt_of_le_of_ne (hcg c hc).1 (Ne.symm hm0)
    have hspec := (relCongruence_spec ((p.addCongs cgs).addCons [row.neg]) c.e c.m hwfP
      (hcg c hc).2 hmpos).1.mp hdis x hxP
    have hh := hall c hc
    unfold Cong.holds at hh
    rw [if_neg hm0] at hh
    exact hspec hh

/-- `{a + λ·b | a ∈ P, b ∈ Q, λ > 0}` on the first `n` coordinates -/
def PosTE (n : Nat) (P Q : Set Val) : Set Val :=
  {y : Val | ∃ a ∈ P, ∃ b ∈ Q, ∃ lam : Rat, 0 < lam ∧ ∀ i < n, y i = a i + lam * b i}

/-- **`positive_time_elapse_assign`** on reference polyhedra: an NNC receiver gets exactly
    `{a + λ b | a ∈ P, b ∈ Q, λ > 0}`; a C receiver the least closed polyhedron containing it
    (empty when the set is empty). -/
theorem posTimeElapse_refpoly_spec (p q : RefPoly) (hp : WF p.n p.cs) (hq : WF p.n q.cs) :
    (p.nnc = true → sem (p.posTimeElapse q).cs = PosTE p.n (sem p.cs) (sem q.cs)) ∧
    (p.nnc = false →
      (PosTE p.n (sem p.cs) (sem q.cs) = ∅ → sem (p.posTimeElapse q).cs = ∅) ∧
      PosTE p.n (sem p.cs) (sem q.cs) ⊆ sem (p.posTimeElapse q).cs ∧
      ∀ ds : List Con, (∀ c ∈ ds, c.strict = false) →
        PosTE p.n (sem p.cs) (sem q.cs) ⊆ sem ds → sem (p.posTimeElapse q).cs ⊆ sem ds) := by
  have hsem : sem (posTimeElapseCons p.n p.cs q.cs) = PosTE p.n (sem p.cs) (sem q.cs) :=
    sem_posTimeElapseCons p.n p.cs q.cs hp hq
  constructor
  · intro hn
    have hif : p.posTimeElapse q = ({ p with cs := posTimeElapseCons p.n p.cs q.cs } : RefPoly) := by
      unfold RefPoly.posTimeElapse; rw [if_pos hn]
    rw [hif]; exact hsem
  · intro hn
    have hif : p.posTimeElapse q
        = ({ p with cs := posTimeElapseCons p.n p.cs q.cs } : RefPoly).closure := by
      unfold RefPoly.posTimeElapse; rw [if_neg (by rw [hn]; exact Bool.false_ne_true)]
    rw [hif]
    have hwfE : WF p.n (posTimeElapseCons p.n p.cs q.cs) := posTimeElapseCons_wf _ _ _
    have := closure_spec ({ p with cs := posTimeElapseCons p.n p.cs q.cs } : RefPoly) hwfE
    rw [show sem ({ p with cs := posTimeElapseCons p.n p.cs q.cs } : RefPoly).cs
      = PosTE p.n (sem p.cs) (sem q.cs) from hsem] at this
    exact this

end PPLV.Lin
