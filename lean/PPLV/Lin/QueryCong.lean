import PPLV.Lin.OpSpecs
import Mathlib.Data.Rat.Floor

/-! # K1: `RefPoly.relCongruence` is the relation with the proper congruence `e ≡ 0 (mod m)`

`sem cs` is convex, hence the values of a linear expression on it form an interval of `ℚ`
(`sem_convex`, `val_interval`).  `sup_spec` / `inf_spec` give the end points of that interval and
whether they belong to it; the rest is arithmetic about multiples of `m` in an interval. -/
namespace PPLV.Lin

/-! ## convexity -/

theorem val_mix (e : LinExpr) (s : Rat) (x y : Val) :
    e.val (fun i => s * x i + (1 - s) * y i) = s * e.val x + (1 - s) * e.val y := by
  unfold LinExpr.val
  rw [dot_lin e.coeffs s (1 - s) x y _ (fun i _ => rfl)]; ring

theorem eval_mix (c : Con) (s : Rat) (x y : Val) :
    c.eval (fun i => s * x i + (1 - s) * y i) = s * c.eval x + (1 - s) * c.eval y := by
  unfold Con.eval
  rw [dot_lin c.coeffs s (1 - s) x y _ (fun i _ => rfl)]; ring

/-- the point set of a constraint system is convex (strict rows included) -/
theorem sem_convex (cs : List Con) (x y : Val) (hx : x ∈ sem cs) (hy : y ∈ sem cs) (s : Rat)
    (h0 : 0 ≤ s) (h1 : s ≤ 1) : (fun i => s * x i + (1 - s) * y i) ∈ sem cs := by
  intro c hc
  have hx' := hx c hc
  have hy' := hy c hc
  unfold Con.sat at *
  rw [eval_mix]
  have h1' : 0 ≤ 1 - s := by linarith
  cases hstr : c.strict
  · simp only [hstr, Bool.false_eq_true, if_false] at hx' hy' ⊢
    have := mul_nonneg h0 hx'
    have := mul_nonneg h1' hy'
    linarith
  · simp only [hstr, if_true] at hx' hy' ⊢
    rcases eq_or_lt_of_le h0 with hs | hs
    · subst hs; simpa using hy'
    · have := mul_pos hs hx'
      have := mul_nonneg h1' hy'.le
      linarith

/-- the values of a linear expression on `sem cs` form an interval -/
theorem val_interval (cs : List Con) (e : LinExpr) (x1 x2 : Val) (h1 : x1 ∈ sem cs)
    (h2 : x2 ∈ sem cs) (v : Rat) (hl : e.val x1 ≤ v) (hu : v ≤ e.val x2) :
    ∃ x ∈ sem cs, e.val x = v := by
  rcases eq_or_lt_of_le (le_trans hl hu) with heq | hlt
  · exact ⟨x1, h1, le_antisymm hl (by rw [heq]; exact hu)⟩
  · have hpos : 0 < e.val x2 - e.val x1 := by linarith
    refine ⟨_, sem_convex cs x1 x2 h1 h2 ((e.val x2 - v) / (e.val x2 - e.val x1))
      (div_nonneg (by linarith) hpos.le) ((div_le_one hpos).mpr (by linarith)), ?_⟩
    rw [val_mix]
    field_simp
    ring

/-! ## the image of `sem cs` under `e.val` -/

/-- `v` is a value of `e` on `sem cs` -/
def Img (cs : List Con) (e : LinExpr) (v : Rat) : Prop := ∃ x ∈ sem cs, e.val x = v

theorem Img.conv {cs : List Con} {e : LinExpr} {v1 v2 v : Rat} (h1 : Img cs e v1)
    (h2 : Img cs e v2) (hl : v1 ≤ v) (hu : v ≤ v2) : Img cs e v := by
  obtain ⟨x1, hx1, rfl⟩ := h1
  obtain ⟨x2, hx2, rfl⟩ := h2
  exact val_interval cs e x1 x2 hx1 hx2 v hl hu

theorem disj_iff (cs : List Con) (e : LinExpr) (m : Int) :
    (∀ x ∈ sem cs, ¬ ∃ z : Int, e.val x = (m : Rat) * z) ↔ ¬ ∃ z : Int, Img cs e ((m : Rat) * z) := by
  constructor
  · rintro h ⟨z, x, hx, hv⟩; exact h x hx ⟨z, hv⟩
  · rintro h x hx ⟨z, hv⟩; exact h ⟨z, x, hx, hv⟩

theorem incl_iff (cs : List Con) (e : LinExpr) (m : Int) :
    (∀ x ∈ sem cs, ∃ z : Int, e.val x = (m : Rat) * z) ↔
      ∀ v, Img cs e v → ∃ z : Int, v = (m : Rat) * z := by
  constructor
  · rintro h v ⟨x, hx, rfl⟩; exact h x hx
  · intro h x hx; exact h _ ⟨x, hx, rfl⟩

/-! ## multiples of `m` in an interval -/

/-- a number strictly between two consecutive multiples of `m` is not a multiple -/
theorem not_mult_between (m : Int) (hm : 0 < m) (z : Int) (δ : Rat) (h0 : 0 < δ) (h1 : δ < m) :
    ¬ ∃ z' : Int, (m : Rat) * z + δ = (m : Rat) * z' := by
  rintro ⟨z', h⟩
  have hmq : (0 : Rat) < m := by exact_mod_cast hm
  rcases le_or_gt z' z with hle | hgt
  · have : (z' : Rat) ≤ z := by exact_mod_cast hle
    have := mul_le_mul_of_nonneg_left this hmq.le
    linarith
  · have : (z : Rat) + 1 ≤ z' := by exact_mod_cast hgt
    have := mul_le_mul_of_nonneg_left this hmq.le
    linarith

/-- a non-degenerate interval contains a non-multiple of `m` -/
theorem exists_nonmult {cs : List Con} {e : LinExpr} (m : Int) (hm : 0 < m) (v0 v1 : Rat)
    (h0 : Img cs e v0) (h1 : Img cs e v1) (hlt : v0 < v1) :
    ∃ v, Img cs e v ∧ ¬ ∃ z : Int, v = (m : Rat) * z := by
  by_cases hmul : ∃ z : Int, v0 = (m : Rat) * z
  · obtain ⟨z, hz⟩ := hmul
    have hmq : (0 : Rat) < m := by exact_mod_cast hm
    refine ⟨v0 + min ((m : Rat) / 2) (v1 - v0), h0.conv h1 ?_ ?_, ?_⟩
    · have : 0 < min ((m : Rat) / 2) (v1 - v0) := lt_min (by linarith) (by linarith)
      linarith
    · have := min_le_right ((m : Rat) / 2) (v1 - v0); linarith
    · rw [hz]
      exact not_mult_between m hm z _ (lt_min (by linarith) (by linarith))
        (lt_of_le_of_lt (min_le_left _ _) (by linarith))
  · exact ⟨v0, h0, hmul⟩

/-- an interval of length `≥ m` contains a multiple of `m` -/
theorem exists_mult {cs : List Con} {e : LinExpr} (m : Int) (hm : 0 < m) (v0 v1 : Rat)
    (h0 : Img cs e v0) (h1 : Img cs e v1) (hlong : v0 + m ≤ v1) :
    ∃ z : Int, Img cs e ((m : Rat) * z) := by
  have hmq : (0 : Rat) < m := by exact_mod_cast hm
  refine ⟨⌊v0 / m⌋ + 1, h0.conv h1 ?_ ?_⟩
  · have := Int.lt_floor_add_one (v0 / (m : Rat))
    rw [div_lt_iff₀ hmq] at this
    push_cast; linarith
  · have := Int.floor_le (v0 / (m : Rat))
    rw [le_div_iff₀ hmq] at this
    push_cast; linarith

/-! ## end points -/

/-- `hi` is the supremum of the image, `att` says whether it is a maximum (`sup_spec`) -/
structure UpB (cs : List Con) (e : LinExpr) (hi : Rat) (att : Bool) : Prop where
  le : ∀ v, Img cs e v → v ≤ hi
  att_t : att = true → Img cs e hi
  att_f : att = false → (∀ v, Img cs e v → v < hi) ∧ ∀ ε : Rat, 0 < ε → ∃ v, Img cs e v ∧ hi - ε < v

/-- `lo` is the infimum of the image, `att` says whether it is a minimum (`inf_spec`) -/
structure LoB (cs : List Con) (e : LinExpr) (lo : Rat) (att : Bool) : Prop where
  le : ∀ v, Img cs e v → lo ≤ v
  att_t : att = true → Img cs e lo
  att_f : att = false → (∀ v, Img cs e v → lo < v) ∧ ∀ ε : Rat, 0 < ε → ∃ v, Img cs e v ∧ v < lo + ε

theorem UpB.of_spec {cs : List Con} {e : LinExpr} {hi : Rat} {att : Bool}
    (h1 : ∀ x ∈ sem cs, e.val x ≤ hi) (h2 : att = true → ∃ x ∈ sem cs, e.val x = hi)
    (h3 : att = false → (∀ x ∈ sem cs, e.val x < hi) ∧
      ∀ ε : Rat, 0 < ε → ∃ x ∈ sem cs, hi - ε < e.val x) : UpB cs e hi att := by
  refine ⟨?_, h2, fun ha => ⟨?_, fun ε hε => ?_⟩⟩
  · rintro v ⟨x, hx, rfl⟩; exact h1 x hx
  · rintro v ⟨x, hx, rfl⟩; exact (h3 ha).1 x hx
  · obtain ⟨x, hx, h⟩ := (h3 ha).2 ε hε; exact ⟨_, ⟨x, hx, rfl⟩, h⟩

theorem LoB.of_spec {cs : List Con} {e : LinExpr} {lo : Rat} {att : Bool}
    (h1 : ∀ x ∈ sem cs, lo ≤ e.val x) (h2 : att = true → ∃ x ∈ sem cs, e.val x = lo)
    (h3 : att = false → (∀ x ∈ sem cs, lo < e.val x) ∧
      ∀ ε : Rat, 0 < ε → ∃ x ∈ sem cs, e.val x < lo + ε) : LoB cs e lo att := by
  refine ⟨?_, h2, fun ha => ⟨?_, fun ε hε => ?_⟩⟩
  · rintro v ⟨x, hx, rfl⟩; exact h1 x hx
  · rintro v ⟨x, hx, rfl⟩; exact (h3 ha).1 x hx
  · obtain ⟨x, hx, h⟩ := (h3 ha).2 ε hε; exact ⟨_, ⟨x, hx, rfl⟩, h⟩

theorem UpB.nonempty {cs : List Con} {e : LinExpr} {hi : Rat} {att : Bool} (h : UpB cs e hi att) :
    ∃ v, Img cs e v := by
  cases hatt : att
  · obtain ⟨v, hv, _⟩ := (h.att_f hatt).2 1 one_pos; exact ⟨v, hv⟩
  · exact ⟨hi, h.att_t hatt⟩

/-- a value above any `v < hi` -/
theorem UpB.above {cs : List Con} {e : LinExpr} {hi : Rat} {att : Bool} (h : UpB cs e hi att)
    (v : Rat) (hv : v < hi) : ∃ w, Img cs e w ∧ v < w := by
  cases hatt : att
  · obtain ⟨w, hw, hlt⟩ := (h.att_f hatt).2 (hi - v) (by linarith)
    exact ⟨w, hw, by linarith⟩
  · exact ⟨hi, h.att_t hatt, hv⟩

/-- a value below any `v > lo` -/
theorem LoB.below {cs : List Con} {e : LinExpr} {lo : Rat} {att : Bool} (h : LoB cs e lo att)
    (v : Rat) (hv : lo < v) : ∃ w, Img cs e w ∧ w < v := by
  cases hatt : att
  · obtain ⟨w, hw, hlt⟩ := (h.att_f hatt).2 (v - lo) (by linarith)
    exact ⟨w, hw, by linarith⟩
  · exact ⟨lo, h.att_t hatt, hv⟩

/-- **the image is the interval from `lo` to `hi`**, end points included as flagged -/
theorem img_char {cs : List Con} {e : LinExpr} {lo hi : Rat} {attL attU : Bool}
    (hL : LoB cs e lo attL) (hU : UpB cs e hi attU) (v : Rat) :
    Img cs e v ↔ (lo < v ∧ v < hi) ∨ (v = lo ∧ attL = true) ∨ (v = hi ∧ attU = true) := by
  constructor
  · intro hv
    rcases eq_or_lt_of_le (hL.le v hv) with h1 | h1
    · right; left
      refine ⟨h1.symm, ?_⟩
      cases hatt : attL
      · exact absurd ((hL.att_f hatt).1 v hv) (by rw [h1]; exact lt_irrefl _)
      · rfl
    · rcases eq_or_lt_of_le (hU.le v hv) with h2 | h2
      · right; right
        refine ⟨h2, ?_⟩
        cases hatt : attU
        · exact absurd ((hU.att_f hatt).1 v hv) (by rw [h2]; exact lt_irrefl _)
        · rfl
      · exact Or.inl ⟨h1, h2⟩
  · rintro (⟨h1, h2⟩ | ⟨rfl, h⟩ | ⟨rfl, h⟩)
    · obtain ⟨w1, hw1, hlt1⟩ := hL.below v h1
      obtain ⟨w2, hw2, hlt2⟩ := hU.above v h2
      exact hw1.conv hw2 hlt1.le hlt2.le
    · exact hL.att_t h
    · exact hU.att_t h

/-! ## integer arithmetic -/

theorem fdiv_bounds (c D : Int) (hD : 0 < D) :
    Int.fdiv c D * D ≤ c ∧ c < (Int.fdiv c D + 1) * D := by
  rw [Int.fdiv_eq_ediv_of_nonneg c hD.le]
  exact ⟨Int.ediv_mul_le c (by omega), Int.lt_ediv_add_one_mul_self c hD⟩

/-- `a/b` is a multiple of `m` iff `b*m ∣ a` -/
theorem mod_zero_iff (a b m : Int) (hb : 0 < b) :
    a % (b * m) = 0 ↔ ∃ z : Int, (a : Rat) / b = (m : Rat) * z := by
  have hbq : (b : Rat) ≠ 0 := by exact_mod_cast hb.ne'
  rw [← Int.dvd_iff_emod_eq_zero]
  constructor
  · rintro ⟨z, hz⟩
    refine ⟨z, ?_⟩
    rw [div_eq_iff hbq, hz]; push_cast; ring
  · rintro ⟨z, hz⟩
    refine ⟨z, ?_⟩
    rw [div_eq_iff hbq] at hz
    have : (a : Rat) = ((b * m * z : Int) : Rat) := by push_cast; rw [hz]; ring
    exact_mod_cast this

/-! ## the two bounded cases -/

/-- degenerate interval: `e` is constantly `hi` on a non-empty set -/
theorem cong_const {cs : List Con} {e : LinExpr} {lo hi : Rat} {attL attU : Bool}
    (hL : LoB cs e lo attL) (hU : UpB cs e hi attU) (heq : lo = hi) (m : Int) :
    ((¬ ∃ z : Int, Img cs e ((m : Rat) * z)) ↔ ¬ ∃ z : Int, hi = (m : Rat) * z) ∧
    ((∀ v, Img cs e v → ∃ z : Int, v = (m : Rat) * z) ↔ ∃ z : Int, hi = (m : Rat) * z) := by
  have hall : ∀ v, Img cs e v → v = hi := fun v hv =>
    le_antisymm (hU.le v hv) (heq ▸ hL.le v hv)
  have hhi : Img cs e hi := by
    obtain ⟨v, hv⟩ := hU.nonempty
    rw [← hall v hv]; exact hv
  refine ⟨not_congr ⟨?_, ?_⟩, ⟨fun h => h hi hhi, ?_⟩⟩
  · rintro ⟨z, hz⟩; exact ⟨z, (hall _ hz).symm⟩
  · rintro ⟨z, hz⟩; exact ⟨z, hz ▸ hhi⟩
  · rintro ⟨z, hz⟩ v hv; exact ⟨z, by rw [hall v hv, hz]⟩

/-- `m * t0` is the least multiple of `m` that can belong to the image; the image meets the
    multiples of `m` iff `m * t0` is below the upper end -/
theorem cong_inside {cs : List Con} {e : LinExpr} (m a b c d : Int) (attL attU : Bool)
    (hm : 0 < m) (hb : 0 < b) (hd : 0 < d) (hL : LoB cs e ((c : Rat) / d) attL)
    (hU : UpB cs e ((a : Rat) / b) attU) (t0 : Int)
    (ht0 : t0 = if Int.fdiv c (d * m) * (d * m) == c
      then (if attL then Int.fdiv c (d * m) else Int.fdiv c (d * m) + 1)
      else Int.fdiv c (d * m) + 1) :
    (if attU then decide (m * t0 * b ≤ a) else decide (m * t0 * b < a)) = true ↔
      ∃ z : Int, Img cs e ((m : Rat) * z) := by
  have hmq : (0 : Rat) < m := by exact_mod_cast hm
  have hbq : (0 : Rat) < b := by exact_mod_cast hb
  have hdq : (0 : Rat) < d := by exact_mod_cast hd
  obtain ⟨hq1, hq2⟩ := fdiv_bounds c (d * m) (Int.mul_pos hd hm)
  generalize Int.fdiv c (d * m) = q at *
  have hq2' : (c : Rat) / d < (m : Rat) * (q + 1) := by
    rw [div_lt_iff₀ hdq]
    have : (c : Rat) < (((q + 1) * (d * m) : Int) : Rat) := by exact_mod_cast hq2
    push_cast at this; linarith
  have key : (c : Rat) / d ≤ (m : Rat) * t0 ∧ (attL = false → (c : Rat) / d < (m : Rat) * t0) ∧
      ∀ z : Int, Img cs e ((m : Rat) * z) → t0 ≤ z := by
    have hsucc : ∀ z : Int, (m : Rat) * q < (m : Rat) * z → q + 1 ≤ z := by
      intro z hz
      have : (q : Rat) < z := lt_of_mul_lt_mul_left hz hmq.le
      have : q < z := by exact_mod_cast this
      omega
    by_cases hex : q * (d * m) = c
    · have hexq : (m : Rat) * q = (c : Rat) / d := by
        rw [eq_div_iff hdq.ne']
        have : ((q * (d * m) : Int) : Rat) = c := by exact_mod_cast hex
        push_cast at this; linarith
      cases hatt : attL
      · have : t0 = q + 1 := by rw [ht0]; simp [hex, hatt]
        subst this
        refine ⟨by push_cast; linarith, fun _ => by push_cast; linarith, fun z hz => hsucc z ?_⟩
        rw [hexq]; exact (hL.att_f hatt).1 _ hz
      · have : t0 = q := by rw [ht0]; simp [hex, hatt]
        subst this
        refine ⟨hexq.ge, fun h => by simp at h, fun z hz => ?_⟩
        have := hL.le _ hz
        rw [← hexq] at this
        have : (t0 : Rat) ≤ z := le_of_mul_le_mul_left this hmq
        exact_mod_cast this
    · have hlt : (m : Rat) * q < (c : Rat) / d := by
        rw [lt_div_iff₀ hdq]
        have : q * (d * m) < c := lt_of_le_of_ne hq1 hex
        have : ((q * (d * m) : Int) : Rat) < c := by exact_mod_cast this
        push_cast at this; linarith
      have : t0 = q + 1 := by rw [ht0]; simp [hex]
      subst this
      refine ⟨by push_cast; linarith, fun _ => by push_cast; linarith, fun z hz => hsucc z ?_⟩
      exact lt_of_lt_of_le hlt (hL.le _ hz)
  obtain ⟨k1, k2, k3⟩ := key
  have hle : m * t0 * b ≤ a ↔ (m : Rat) * t0 ≤ (a : Rat) / b := by
    rw [le_div_iff₀ hbq]
    constructor <;> intro h <;> exact_mod_cast h
  have hlt : m * t0 * b < a ↔ (m : Rat) * t0 < (a : Rat) / b := by
    rw [lt_div_iff₀ hbq]
    constructor <;> intro h <;> exact_mod_cast h
  have hlow : (c : Rat) / d < (m : Rat) * t0 ∨ ((m : Rat) * t0 = (c : Rat) / d ∧ attL = true) := by
    rcases eq_or_lt_of_le k1 with h1 | h1
    · right
      refine ⟨h1.symm, ?_⟩
      cases hattL : attL
      · exact absurd (k2 hattL) (by rw [h1]; exact lt_irrefl _)
      · rfl
    · exact Or.inl h1
  constructor
  · intro hin
    refine ⟨t0, (img_char hL hU _).mpr ?_⟩
    cases hattU : attU
    · rw [hattU] at hin
      simp only [Bool.false_eq_true, if_false, decide_eq_true_eq] at hin
      have h2 := hlt.mp hin
      rcases hlow with h1 | h1
      · exact Or.inl ⟨h1, h2⟩
      · exact Or.inr (Or.inl h1)
    · rw [hattU] at hin
      simp only [if_true, decide_eq_true_eq] at hin
      rcases hlow with h1 | h1
      · rcases eq_or_lt_of_le (hle.mp hin) with h2 | h2
        · exact Or.inr (Or.inr ⟨h2, rfl⟩)
        · exact Or.inl ⟨h1, h2⟩
      · exact Or.inr (Or.inl h1)
  · rintro ⟨z, hz⟩
    have h3 : (t0 : Rat) ≤ z := by exact_mod_cast k3 z hz
    have hmz : (m : Rat) * t0 ≤ (m : Rat) * z := mul_le_mul_of_nonneg_left h3 hmq.le
    cases hattU : attU
    · simp only [Bool.false_eq_true, if_false, decide_eq_true_eq]
      rw [hlt]; exact lt_of_le_of_lt hmz ((hU.att_f hattU).1 _ hz)
    · simp only [if_true, decide_eq_true_eq]
      rw [hle]; exact le_trans hmz (hU.le _ hz)

/-! ## the specification -/

theorem bnot_iff (X : Bool) (P : Prop) (h : X = true ↔ P) : (!X) = true ↔ ¬ P := by
  rw [← h]; cases X <;> simp

/-- **`relCongruence` is exact**: first component ⇔ no point of the polyhedron satisfies
    `e ≡ 0 (mod m)`, second component ⇔ every point does. -/
theorem relCongruence_spec (p : RefPoly) (e : LinExpr) (m : Int) (hp : WF p.n p.cs)
    (he : e.coeffs.length ≤ p.n) (hm : 0 < m) :
    ((p.relCongruence e m).1 = true ↔ ∀ x ∈ sem p.cs, ¬ ∃ z : Int, e.val x = (m : Rat) * z) ∧
    ((p.relCongruence e m).2 = true ↔ ∀ x ∈ sem p.cs, ∃ z : Int, e.val x = (m : Rat) * z) := by
  rw [disj_iff, incl_iff]
  have hmq : (0 : Rat) < m := by exact_mod_cast hm
  have hS := sup_spec p e hp he
  have hI := inf_spec p e hp he
  -- empty set: disjoint and included
  have hempty : sem p.cs = ∅ →
      ((True ↔ ¬ ∃ z : Int, Img p.cs e ((m : Rat) * z)) ∧
       (True ↔ ∀ v, Img p.cs e v → ∃ z : Int, v = (m : Rat) * z)) := by
    intro h
    have hno : ∀ v, ¬ Img p.cs e v := by
      rintro v ⟨x, hx, _⟩; rw [h] at hx; exact hx
    exact ⟨⟨fun _ ⟨z, hz⟩ => hno _ hz, fun _ => trivial⟩,
      ⟨fun _ v hv => absurd hv (hno v), fun _ => trivial⟩⟩
  -- long interval: neither
  have hlong : ∀ v0 v1, Img p.cs e v0 → Img p.cs e v1 → v0 + m ≤ v1 →
      ((false = true ↔ ¬ ∃ z : Int, Img p.cs e ((m : Rat) * z)) ∧
       (false = true ↔ ∀ v, Img p.cs e v → ∃ z : Int, v = (m : Rat) * z)) := by
    intro v0 v1 h0 h1 hl
    obtain ⟨w, hw, hnw⟩ := exists_nonmult m hm v0 v1 h0 h1 (by linarith)
    have hex := exists_mult m hm v0 v1 h0 h1 hl
    exact ⟨⟨fun h => by simp at h, fun h => absurd hex h⟩,
      ⟨fun h => by simp at h, fun h => absurd (h w hw) hnw⟩⟩
  cases hs : p.sup e with
  | empty =>
    simp only [hs] at hS
    simp only [RefPoly.relCongruence, hs]
    exact hempty hS
  | unbounded =>
    simp only [hs] at hS
    obtain ⟨⟨x0, hx0⟩, hub⟩ := hS
    obtain ⟨x1, hx1, hgt⟩ := hub (e.val x0 + m)
    cases hi : p.inf e with
    | empty =>
      simp only [hi] at hI
      simp only [RefPoly.relCongruence, hs, hi]
      exact hempty hI
    | unbounded =>
      simp only [RefPoly.relCongruence, hs, hi]
      exact hlong _ _ ⟨x0, hx0, rfl⟩ ⟨x1, hx1, rfl⟩ hgt.le
    | val c d attL =>
      simp only [RefPoly.relCongruence, hs, hi]
      exact hlong _ _ ⟨x0, hx0, rfl⟩ ⟨x1, hx1, rfl⟩ hgt.le
  | val a b attU =>
    simp only [hs] at hS
    obtain ⟨hb, hS1, hS2, hS3⟩ := hS
    have hU : UpB p.cs e ((a : Rat) / b) attU := UpB.of_spec hS1 hS2 hS3
    cases hi : p.inf e with
    | empty =>
      simp only [hi] at hI
      simp only [RefPoly.relCongruence, hs, hi]
      exact hempty hI
    | unbounded =>
      simp only [hi] at hI
      obtain ⟨⟨x0, hx0⟩, hlb⟩ := hI
      obtain ⟨x1, hx1, hlt⟩ := hlb (e.val x0 - m)
      simp only [RefPoly.relCongruence, hs, hi]
      exact hlong _ _ ⟨x1, hx1, rfl⟩ ⟨x0, hx0, rfl⟩ (by linarith)
    | val c d attL =>
      simp only [hi] at hI
      obtain ⟨hd, hI1, hI2, hI3⟩ := hI
      have hL : LoB p.cs e ((c : Rat) / d) attL := LoB.of_spec hI1 hI2 hI3
      have hbq : (b : Rat) ≠ 0 := by exact_mod_cast hb.ne'
      have hdq : (d : Rat) ≠ 0 := by exact_mod_cast hd.ne'
      have hdeg : a * d = c * b ↔ (c : Rat) / d = (a : Rat) / b := by
        rw [div_eq_div_iff hdq hbq]
        constructor
        · intro h; have : ((a * d : Int) : Rat) = ((c * b : Int) : Rat) := by rw [h]
          push_cast at this; linarith
        · intro h; have : ((a * d : Int) : Rat) = ((c * b : Int) : Rat) := by push_cast; linarith
          exact_mod_cast this
      simp only [RefPoly.relCongruence, hs, hi]
      by_cases hc : a * d = c * b
      · obtain ⟨h1, h2⟩ := cong_const hL hU (hdeg.mp hc) m
        rw [if_pos (by simpa using hc), h1, h2, ← mod_zero_iff a b m hb]
        exact ⟨bnot_iff _ _ decide_eq_true_iff, decide_eq_true_iff⟩
      · have hin := cong_inside m a b c d attL attU hm hb hd hL hU _ rfl
        have hltq : (c : Rat) / d < (a : Rat) / b := by
          obtain ⟨v, hv⟩ := hU.nonempty
          exact lt_of_le_of_ne (le_trans (hL.le v hv) (hU.le v hv)) (fun h => hc (hdeg.mpr h))
        have hmid : ∀ v, (c : Rat) / d < v → v < (a : Rat) / b → Img p.cs e v :=
          fun v h1 h2 => (img_char hL hU v).mpr (Or.inl ⟨h1, h2⟩)
        obtain ⟨w, hw, hnw⟩ := exists_nonmult m hm
          (((c : Rat) / d + (a : Rat) / b) / 2) (((c : Rat) / d + 3 * ((a : Rat) / b)) / 4)
          (hmid _ (by linarith) (by linarith)) (hmid _ (by linarith) (by linarith)) (by linarith)
        rw [if_neg (by simpa using hc)]
        exact ⟨bnot_iff _ _ hin, ⟨fun h => by simp at h, fun h => absurd (h w hw) hnw⟩⟩

/-! evaluations: `0 ≤ x ≤ 1`, `2x+1 ∈ [1,3]` meets `2ℤ` but is not inside; `0 < x < 1`, `2x ∈ (0,2)`
    misses `2ℤ`; `x = 1`, `2x = 2` is inside `2ℤ`. -/
example : RefPoly.relCongruence ⟨false, 1, [geRow [1] 0, geRow [-1] 1]⟩ ⟨[2], 1⟩ 2 = (false, false) := by
  decide +kernel
example : RefPoly.relCongruence ⟨true, 1, [gtRow [1] 0, gtRow [-1] 1]⟩ ⟨[2], 0⟩ 2 = (true, false) := by
  decide +kernel
example : RefPoly.relCongruence ⟨false, 1, [geRow [1] (-1), geRow [-1] 1]⟩ ⟨[2], 0⟩ 2 = (false, true) := by
  decide +kernel

/-- non-vacuity: the hypotheses hold on the first instance and the theorem decides the relation -/
example : ¬ ∀ x ∈ sem [geRow [1] 0, geRow [-1] 1],
    ¬ ∃ z : Int, (⟨[2], 1⟩ : LinExpr).val x = ((2 : Int) : Rat) * z := by
  have h := (relCongruence_spec ⟨false, 1, [geRow [1] 0, geRow [-1] 1]⟩ ⟨[2], 1⟩ 2
    (by intro c hc; simp [geRow] at hc; rcases hc with rfl | rfl <;> simp) (by simp) (by decide)).1
  rw [← h]; decide +kernel

end PPLV.Lin
