import PPLV.Lin.Project

/-! # K1 theorems, part 4: the documented semantics of a generator system

`doc/definitions.dox`, "Combinations and Hulls" / "Generators Representation": for a generator
system `G = (L, R, P, C)`,  `gen(G) = linear.hull(L) + conic.hull(R) + NNC.hull(P, C)`, i.e. the
set of all `Σ λ_l·l + Σ ρ_r·r + Σ π_p·p + Σ γ_c·c` with `ρ, π, γ ≥ 0`, `Σπ + Σγ = 1` and
`π_p > 0` for some point `p`; line multipliers are free.  `GenSem` below is that definition
with one multiplier vector `lam` indexed by the position in the list; `gensToCons_spec` says
that the executable `gensToCons` (lift with multipliers, Fourier–Motzkin projection) denotes
exactly this set, `checkDD_iff` that `checkDD` decides equality with a constraint system.
-/
namespace PPLV.Lin
open List

/-! ### rows of the lifted system -/

theorem dot_coordRow (n i : Nat) (hi : i < n) (tl : List Int) (w : Val) :
    dot (unitRow i 1 ++ List.replicate (n - 1 - i) 0 ++ tl) w
      = w i + dot tl (fun j => w (j + n)) := by
  have hlen : (unitRow i 1 ++ List.replicate (n - 1 - i) 0).length = n := by
    simp [unitRow]; omega
  rw [dot_append, dot_append, dot_unitRow, dot_replicate_zero, hlen]
  simp

theorem sat_signRow (n j : Nat) (w : Val) :
    (geRow (List.replicate (n + j) 0 ++ [1]) 0).sat w ↔ 0 ≤ w (j + n) := by
  unfold Con.sat geRow Con.eval
  simp only [dot_replicate_zero_append, Bool.false_eq_true, if_false]
  simp [Nat.add_comm]

/-! ### weighted sums over a generator list -/

/-- `Σ_j lam_j · f(g_j)` over the list `gs = [g_0, g_1, …]` -/
def wsum (f : Gen → Rat) : List Gen → Val → Rat
  | [], _ => 0
  | g :: gs, lam => lam 0 * f g + wsum f gs lam.tail

theorem dot_map_gens (f : Gen → Int) (gs : List Gen) (mu : Val) :
    dot (gs.map f) mu = wsum (fun g => ((f g : Int) : Rat)) gs mu := by
  induction gs generalizing mu with
  | nil => rfl
  | cons g gs ih => simp only [List.map_cons, dot_cons, wsum, ih]; ring

theorem wsum_congr (f f' : Gen → Rat) (gs : List Gen) (lam lam' : Val)
    (h : ∀ j < gs.length, lam j * f (gs.getD j default) = lam' j * f' (gs.getD j default)) :
    wsum f gs lam = wsum f' gs lam' := by
  induction gs generalizing lam lam' with
  | nil => rfl
  | cons g gs ih =>
    simp only [wsum]
    have h0 := h 0 (by simp)
    simp only [List.getD_cons_zero] at h0
    rw [h0, ih lam.tail lam'.tail]
    intro j hj
    have := h (j+1) (by simp; omega)
    simpa [Val.tail] using this

theorem wsum_nonneg (f : Gen → Rat) (gs : List Gen) (lam : Val)
    (h : ∀ j < gs.length, 0 ≤ lam j * f (gs.getD j default)) : 0 ≤ wsum f gs lam := by
  induction gs generalizing lam with
  | nil => exact le_refl _
  | cons g gs ih =>
    simp only [wsum]
    have h0 := h 0 (by simp)
    simp only [List.getD_cons_zero] at h0
    have hr : 0 ≤ wsum f gs lam.tail := by
      apply ih
      intro j hj
      have := h (j+1) (by simp; omega)
      simpa [Val.tail] using this
    linarith

theorem wsum_pos_iff (f : Gen → Rat) (gs : List Gen) (lam : Val)
    (h : ∀ j < gs.length, 0 ≤ lam j * f (gs.getD j default)) :
    0 < wsum f gs lam ↔ ∃ j < gs.length, 0 < lam j * f (gs.getD j default) := by
  induction gs generalizing lam with
  | nil => simp [wsum]
  | cons g gs ih =>
    simp only [wsum]
    have h0 := h 0 (by simp)
    simp only [List.getD_cons_zero] at h0
    have hrest : ∀ j < gs.length, 0 ≤ lam.tail j * f (gs.getD j default) := by
      intro j hj
      have := h (j+1) (by simp; omega)
      simpa [Val.tail] using this
    have hr := wsum_nonneg f gs lam.tail hrest
    constructor
    · intro hpos
      by_cases h0' : 0 < lam 0 * f g
      · exact ⟨0, by simp, by simpa using h0'⟩
      · have : 0 < wsum f gs lam.tail := by linarith
        obtain ⟨j, hj, hp⟩ := (ih _ hrest).mp this
        exact ⟨j+1, by simp; omega, by simpa [Val.tail] using hp⟩
    · rintro ⟨j, hj, hp⟩
      cases j with
      | zero => simp only [List.getD_cons_zero] at hp; linarith
      | succ j =>
        have := (ih _ hrest).mpr ⟨j, by simpa using hj, by simpa [Val.tail] using hp⟩
        linarith

/-! ### the documented semantics -/

/-- coordinate `i` of the vector denoted by `g`: `coords[i] / divisor` (divisor 1 for lines, rays) -/
def Gen.coord (g : Gen) (i : Nat) : Rat := ((g.coords.getD i 0 : Int) : Rat) / (g.d : Rat)

/-- `linear.hull(L) + conic.hull(R) + NNC.hull(P, C)` in `ℚ^n` (as a cylinder in `ℕ → ℚ`:
    coordinates `≥ n` are unconstrained).  `lam j` is the multiplier of the `j`-th generator:
    free for lines, non-negative otherwise; the multipliers of points and closure points sum
    to one, and some point has a positive multiplier. -/
def GenSem (n : Nat) (gs : List Gen) : Set Val := {x | ∃ lam : Val,
  (∀ j < gs.length, (gs.getD j default).isLine = false → 0 ≤ lam j) ∧
  wsum (fun g => if g.isPtOrCp then 1 else 0) gs lam = 1 ∧
  (∃ j < gs.length, (gs.getD j default).isPt = true ∧ 0 < lam j) ∧
  ∀ i < n, x i = wsum (fun g => g.coord i) gs lam}

/-- the same set after the change of variable `mu_j = lam_j / d_j` (integral rows) -/
def LiftedSem (n : Nat) (gs : List Gen) : Set Val := {x | ∃ mu : Val,
  (∀ i < n, x i = wsum (fun g => ((g.coords.getD i 0 : Int) : Rat)) gs mu) ∧
  (∀ j < gs.length, (gs.getD j default).isLine = false → 0 ≤ mu j) ∧
  wsum (fun g => ((g.wt : Int) : Rat)) gs mu = 1 ∧
  0 < wsum (fun g => ((g.pwt : Int) : Rat)) gs mu}

theorem GenSem_nil (n : Nat) : GenSem n [] = ∅ := by
  ext x; simp [GenSem, wsum]

theorem GenSem_cylinder (n : Nat) (gs : List Gen) (x y : Val) (hy : y ∈ GenSem n gs)
    (h : ∀ i < n, y i = x i) : x ∈ GenSem n gs := by
  obtain ⟨lam, h1, h2, h3, h4⟩ := hy
  exact ⟨lam, h1, h2, h3, fun i hi => by rw [← h i hi]; exact h4 i hi⟩

/-! ### the lifted system denotes `LiftedSem` -/

theorem liftedGens_wf (n : Nat) (gs : List Gen) : WF (n + gs.length) (liftedGens n gs) := by
  intro c hc
  unfold liftedGens at hc
  simp only [List.mem_append, List.mem_flatMap, List.mem_range, List.mem_filterMap] at hc
  rcases hc with ((⟨i, hi, hc⟩ | ⟨j, hj, hc⟩) | hc) | hc
  · simp only [eqRows, List.mem_cons, List.not_mem_nil, or_false] at hc
    rcases hc with rfl | rfl <;> simp [unitRow] <;> omega
  · split at hc
    · cases hc
    · simp only [Option.some.injEq] at hc; subst hc; simp [geRow]; omega
  · simp only [eqRows, List.mem_cons, List.not_mem_nil, or_false] at hc
    rcases hc with rfl | rfl <;> simp
  · simp only [List.mem_cons, List.not_mem_nil, or_false] at hc
    subst hc; simp [gtRow]

theorem Sat_signRows (n : Nat) (gs : List Gen) (w : Val) :
    Sat ((List.range gs.length).filterMap fun j =>
      if (gs.getD j default).isLine then none
      else some (geRow (List.replicate (n + j) 0 ++ [1]) 0)) w ↔
    ∀ j < gs.length, (gs.getD j default).isLine = false → 0 ≤ w (j + n) := by
  unfold Sat
  simp only [List.mem_filterMap, List.mem_range]
  constructor
  · intro h j hj hl
    have hl' : ¬ (gs.getD j default).isLine = true := by rw [hl]; exact Bool.false_ne_true
    exact (sat_signRow n j w).mp (h _ ⟨j, hj, if_neg hl'⟩)
  · rintro h c ⟨j, hj, hc⟩
    by_cases hl : (gs.getD j default).isLine = true
    · rw [if_pos hl] at hc; cases hc
    · rw [if_neg hl] at hc
      cases hc
      exact (sat_signRow n j w).mpr (h j hj ((Bool.not_eq_true _).mp hl))

theorem liftedGens_sat (n : Nat) (gs : List Gen) (w : Val) :
    Sat (liftedGens n gs) w ↔
      (∀ i < n, w i = wsum (fun g => ((g.coords.getD i 0 : Int) : Rat)) gs (fun j => w (j + n))) ∧
      (∀ j < gs.length, (gs.getD j default).isLine = false → 0 ≤ w (j + n)) ∧
      wsum (fun g => ((g.wt : Int) : Rat)) gs (fun j => w (j + n)) = 1 ∧
      0 < wsum (fun g => ((g.pwt : Int) : Rat)) gs (fun j => w (j + n)) := by
  unfold liftedGens
  simp only [Sat_append, Sat_flatMap, Sat_signRows, Sat_eqRows, List.mem_range, and_assoc]
  refine and_congr ?_ (and_congr Iff.rfl (and_congr ?_ ?_))
  · refine forall_congr' fun i => imp_congr_right fun hi => ?_
    rw [dot_coordRow n i hi, dot_map_gens]
    have : wsum (fun g => (((-g.coords.getD i 0 : Int)) : Rat)) gs (fun j => w (j + n))
        = - wsum (fun g => ((g.coords.getD i 0 : Int) : Rat)) gs (fun j => w (j + n)) := by
      generalize (fun j => w (j + n)) = mu
      induction gs generalizing mu with
      | nil => simp [wsum]
      | cons g gs ih => simp only [wsum, ih]; push_cast; ring
    rw [this]
    constructor <;> intro h <;> push_cast at h ⊢ <;> linarith
  · rw [dot_replicate_zero_append, dot_map_gens]
    constructor <;> intro h <;> push_cast at h ⊢ <;> linarith
  · unfold Sat
    simp only [List.mem_cons, List.not_mem_nil, or_false, forall_eq]
    simp only [Con.sat, gtRow, Con.eval, if_true, dot_replicate_zero_append, dot_map_gens]
    simp

theorem sem_gensToCons_lifted (n : Nat) (gs : List Gen) :
    sem (gensToCons n gs) = LiftedSem n gs := by
  ext x
  show Sat (gensToCons n gs) x ↔ _
  unfold gensToCons
  rw [projectTo_spec n (n + gs.length) _ (liftedGens_wf n gs) (Nat.le_add_right _ _)]
  constructor
  · rintro ⟨w, hag, hs⟩
    obtain ⟨h1, h2, h3, h4⟩ := (liftedGens_sat n gs w).mp hs
    exact ⟨fun j => w (j + n), fun i hi => by rw [← hag i hi]; exact h1 i hi, h2, h3, h4⟩
  · rintro ⟨mu, h1, h2, h3, h4⟩
    let w : Val := fun j => if j < n then x j else mu (j - n)
    have hmu : (fun j => w (j + n)) = mu := by funext j; simp [w]
    have hw : ∀ j, w (j + n) = mu j := fun j => congrFun hmu j
    have hx : ∀ i < n, w i = x i := fun i hi => by simp [w, hi]
    refine ⟨w, hx, ?_⟩
    rw [liftedGens_sat, hmu]
    exact ⟨fun i hi => by rw [hx i hi]; exact h1 i hi,
      fun j hj hl => by rw [hw j]; exact h2 j hj hl, h3, h4⟩

/-! ### change of variable `lam_j = mu_j · d_j` -/

theorem Gen.wt_eq (g : Gen) :
    ((g.wt : Int) : Rat) = (g.d : Rat) * (if g.isPtOrCp then 1 else 0) := by
  unfold Gen.wt Gen.d; split <;> simp

theorem Gen.pwt_eq (g : Gen) :
    ((g.pwt : Int) : Rat) = (g.d : Rat) * (if g.isPt then 1 else 0) := by
  unfold Gen.pwt Gen.d Gen.isPtOrCp Gen.isPt
  cases g.kind <;> simp

theorem Gen.isPt_not_line (g : Gen) (h : g.isPt = true) : g.isLine = false := by
  unfold Gen.isPt at h; unfold Gen.isLine
  cases hk : g.kind <;> simp_all

theorem gensWF_d (n : Nat) (gs : List Gen) (hwf : gensWF n gs = true) (j : Nat) (hj : j < gs.length) :
    (0 : Rat) < ((gs.getD j default).d : Rat) := by
  unfold gensWF at hwf
  simp only [List.all_eq_true, Bool.and_eq_true, decide_eq_true_eq] at hwf
  have hmem : gs.getD j default ∈ gs := by
    have : gs.getD j default = gs[j] := by simp [List.getD_eq_getElem?_getD, hj]
    rw [this]; exact List.getElem_mem hj
  exact_mod_cast (hwf _ hmem).2

theorem ptind_nonneg (gs : List Gen) (lam : Val)
    (h2 : ∀ j < gs.length, (gs.getD j default).isLine = false → 0 ≤ lam j) :
    ∀ j < gs.length,
      0 ≤ lam j * (fun g : Gen => if g.isPt then (1 : Rat) else 0) (gs.getD j default) := by
  intro j hj
  show 0 ≤ lam j * (if (gs.getD j default).isPt then (1 : Rat) else 0)
  by_cases hp : (gs.getD j default).isPt = true
  · rw [if_pos hp, mul_one]; exact h2 j hj (Gen.isPt_not_line _ hp)
  · rw [if_neg hp, mul_zero]

theorem ptind_pos_iff (g : Gen) (l : Rat) :
    0 < l * (fun g : Gen => if g.isPt then (1 : Rat) else 0) g ↔ g.isPt = true ∧ 0 < l := by
  show 0 < l * (if g.isPt then (1 : Rat) else 0) ↔ _
  by_cases hp : g.isPt = true
  · rw [if_pos hp, mul_one]; exact ⟨fun h => ⟨hp, h⟩, fun h => h.2⟩
  · rw [if_neg hp, mul_zero]; exact ⟨fun h => absurd h (lt_irrefl _), fun h => absurd h.1 hp⟩

theorem lifted_iff_gen (n : Nat) (gs : List Gen) (hwf : gensWF n gs = true) (x mu lam : Val)
    (hrel : ∀ j < gs.length, lam j = mu j * ((gs.getD j default).d : Rat)) :
    ((∀ i < n, x i = wsum (fun g => ((g.coords.getD i 0 : Int) : Rat)) gs mu) ∧
      (∀ j < gs.length, (gs.getD j default).isLine = false → 0 ≤ mu j) ∧
      wsum (fun g => ((g.wt : Int) : Rat)) gs mu = 1 ∧
      0 < wsum (fun g => ((g.pwt : Int) : Rat)) gs mu) ↔
    ((∀ j < gs.length, (gs.getD j default).isLine = false → 0 ≤ lam j) ∧
      wsum (fun g => if g.isPtOrCp then 1 else 0) gs lam = 1 ∧
      (∃ j < gs.length, (gs.getD j default).isPt = true ∧ 0 < lam j) ∧
      ∀ i < n, x i = wsum (fun g => g.coord i) gs lam) := by
  have hd := gensWF_d n gs hwf
  have e1 : ∀ i, wsum (fun g => ((g.coords.getD i 0 : Int) : Rat)) gs mu
      = wsum (fun g => g.coord i) gs lam := by
    intro i
    apply wsum_congr
    intro j hj
    have := hd j hj
    rw [hrel j hj]; unfold Gen.coord; field_simp
  have e2 : wsum (fun g => ((g.wt : Int) : Rat)) gs mu
      = wsum (fun g => if g.isPtOrCp then 1 else 0) gs lam := by
    apply wsum_congr
    intro j hj
    rw [hrel j hj, Gen.wt_eq]; ring
  have e3 : wsum (fun g => ((g.pwt : Int) : Rat)) gs mu
      = wsum (fun g => if g.isPt then 1 else 0) gs lam := by
    apply wsum_congr
    intro j hj
    rw [hrel j hj, Gen.pwt_eq]; ring
  have e4 : (∀ j < gs.length, (gs.getD j default).isLine = false → 0 ≤ mu j) ↔
      (∀ j < gs.length, (gs.getD j default).isLine = false → 0 ≤ lam j) := by
    refine forall_congr' fun j => imp_congr_right fun hj => imp_congr_right fun _ => ?_
    have := hd j hj
    rw [hrel j hj]
    exact (mul_nonneg_iff_of_pos_right this).symm
  simp only [e1, e2, e3, e4]
  have hex : (∀ j < gs.length, (gs.getD j default).isLine = false → 0 ≤ lam j) →
      (0 < wsum (fun g => if g.isPt then 1 else 0) gs lam ↔
        ∃ j < gs.length, (gs.getD j default).isPt = true ∧ 0 < lam j) := fun h2 =>
    (wsum_pos_iff _ gs lam (ptind_nonneg gs lam h2)).trans
      (exists_congr fun j => and_congr_right fun _ => ptind_pos_iff _ _)
  constructor
  · rintro ⟨h1, h2, h3, h4⟩
    exact ⟨h2, h3, (hex h2).mp h4, h1⟩
  · rintro ⟨h2, h3, h4, h1⟩
    exact ⟨h1, h2, h3, (hex h2).mpr h4⟩

theorem liftedSem_eq_genSem (n : Nat) (gs : List Gen) (hwf : gensWF n gs = true) :
    LiftedSem n gs = GenSem n gs := by
  have hd := gensWF_d n gs hwf
  ext x
  constructor
  · rintro ⟨mu, h⟩
    exact ⟨fun j => mu j * ((gs.getD j default).d : Rat),
      (lifted_iff_gen n gs hwf x mu _ (fun j _ => rfl)).mp h⟩
  · rintro ⟨lam, h⟩
    refine ⟨fun j => lam j / ((gs.getD j default).d : Rat),
      (lifted_iff_gen n gs hwf x _ lam (fun j hj => ?_)).mpr h⟩
    have := hd j hj
    field_simp

/-! ### the specification theorems -/

/-- **Generators to constraints**: the executable conversion denotes the documented set. -/
theorem sem_gensToCons (n : Nat) (gs : List Gen) (hwf : gensWF n gs = true) :
    sem (gensToCons n gs) = GenSem n gs := by
  rw [sem_gensToCons_lifted, liftedSem_eq_genSem n gs hwf]

theorem gensToCons_spec (n : Nat) (gs : List Gen) (hwf : gensWF n gs = true) (x : Val) :
    Sat (gensToCons n gs) x ↔ ∃ y ∈ GenSem n gs, ∀ i < n, y i = x i := by
  have h : Sat (gensToCons n gs) x ↔ x ∈ GenSem n gs := by
    rw [← sem_gensToCons n gs hwf]; rfl
  rw [h]
  exact ⟨fun hx => ⟨x, hx, fun _ _ => rfl⟩, fun ⟨y, hy, hag⟩ => GenSem_cylinder n gs x y hy hag⟩

theorem gensToCons_wf (n : Nat) (gs : List Gen) : WF n (gensToCons n gs) :=
  projectTo_wf n _ _

/-- an empty generator list denotes the empty set -/
theorem sem_gensToCons_nil (n : Nat) : sem (gensToCons n []) = ∅ := by
  rw [sem_gensToCons n [] (by simp [gensWF]), GenSem_nil]

theorem checkDD_iff (n : Nat) (cs : List Con) (gs : List Gen) (h1 : WF n cs) (_h2 : gensWF n gs = true) :
    checkDD n cs gs = true ↔ sem cs = sem (gensToCons n gs) := by
  unfold checkDD
  exact equivB_iff n cs _ h1 (gensToCons_wf n gs)

/-- **Double description check**: `checkDD` decides whether the constraint system and the
    generator system denote the same point set. -/
theorem checkDD_iff_genSem (n : Nat) (cs : List Con) (gs : List Gen) (h1 : WF n cs)
    (h2 : gensWF n gs = true) :
    checkDD n cs gs = true ↔ sem cs = GenSem n gs := by
  rw [checkDD_iff n cs gs h1 h2, sem_gensToCons n gs h2]

/-- `sem cs` for `WF n cs` is a cylinder over the first `n` coordinates, like `GenSem n gs` -/
theorem sem_cylinder (n : Nat) (cs : List Con) (hwf : WF n cs) (x y : Val) (hy : y ∈ sem cs)
    (h : ∀ i < n, y i = x i) : x ∈ sem cs := by
  intro c hc
  refine (sat_agree c x y ?_).mpr (hy c hc)
  intro i hi
  exact (h i (lt_of_lt_of_le hi (hwf c hc))).symm

end PPLV.Lin
