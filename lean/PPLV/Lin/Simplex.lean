import PPLV.Lin.Base

/-!
# An (untrusted) exact rational simplex that produces *certificates*

Nothing in this file is trusted: it proposes either a rational point or Farkas/Motzkin
multipliers; `certFeas` / `certInfeas` check them with plain arithmetic and are proved sound
(`PPLV/Lin/CertProofs.lean`).  When no certificate is produced the callers fall back to the
complete Fourier–Motzkin procedure, so the deciders stay sound **and** complete.
-/
namespace PPLV.Lin.Simplex

abbrev Row := Array Rat

structure Tab where
  rows : Array Row        -- m rows, each of length nv + 1 (last entry: right-hand side ≥ 0)
  basis : Array Nat       -- basic variable of each row
  nv : Nat
deriving Inhabited

def rget (r : Row) (j : Nat) : Rat := r.getD j 0

/-- reduced costs `c_j − c_B B⁻¹ A_j` for the cost vector `c` (length nv), and the objective value -/
def reducedCosts (t : Tab) (c : Array Rat) : Array Rat × Rat := Id.run do
  let mut z : Array Rat := c.push 0
  for i in [0:t.rows.size] do
    let cb := c.getD (t.basis.getD i 0) 0
    if cb != 0 then
      let r := t.rows.getD i #[]
      z := (Array.range (t.nv + 1)).map fun j => rget z j - cb * rget r j
  -- last entry holds −(objective value)
  return (z.extract 0 t.nv, - rget z t.nv)

def pivot (t : Tab) (pr pc : Nat) : Tab :=
  let prow := t.rows.getD pr #[]
  let pv := rget prow pc
  let prow' : Row := prow.map (· / pv)
  let rows := (Array.range t.rows.size).map fun i =>
    if i == pr then prow' else
      let r := t.rows.getD i #[]
      let f := rget r pc
      if f == 0 then r else (Array.range (t.nv + 1)).map fun j => rget r j - f * rget prow' j
  { t with rows := rows, basis := t.basis.setIfInBounds pr pc }

/-- Bland's rule; `allowed j` restricts entering columns.  Returns the final tableau and
    `true` if optimal, `false` if unbounded or out of fuel. -/
def iterate (c : Array Rat) (allowed : Nat → Bool) (nReal : Nat) : Nat → Tab → Tab × Bool
  | 0, t => (t, false)
  | fuel + 1, t =>
    let (z, _) := reducedCosts t c
    match (List.range t.nv).find? (fun j => allowed j && decide (rget z j < 0)) with
    | none => (t, true)
    | some pc =>
      -- ratio test, ties broken by the smallest basic variable
      let cand := (List.range t.rows.size).filterMap fun i =>
        let r := t.rows.getD i #[]
        let a := rget r pc
        -- an artificial variable still basic (at level 0) must leave before it can grow
        if t.basis.getD i 0 ≥ nReal && a != 0 && rget r t.nv == 0 then some (-1, t.basis.getD i 0, i)
        else if a > 0 then some (rget r t.nv / a, t.basis.getD i 0, i) else none
      match cand with
      | [] => (t, false)
      | c0 :: cs =>
        let best := cs.foldl (fun (b : Rat × Nat × Nat) (x : Rat × Nat × Nat) =>
          if x.1 < b.1 || (x.1 == b.1 && x.2.1 < b.2.1) then x else b) c0
        iterate c allowed nReal fuel (pivot t best.2.2 pc)

inductive Outcome
  | infeasible (w : Array Rat)             -- Farkas multipliers of the given rows
  | optimal (v : Array Rat) (w : Array Rat) -- primal solution (length nv) and dual multipliers
  | unknown
deriving Inhabited

/-- `min c·v  s.t.  A v = b, v ≥ 0` with `A : m × nv` (rows of length nv), any sign of `b`. -/
def solve (A : Array Row) (b : Array Rat) (c : Array Rat) (nv : Nat) (fuel : Nat := 4000) : Outcome :=
  let m := A.size
  let sig : Array Rat := b.map fun x => if x < 0 then -1 else 1
  let total := nv + m
  -- rows with artificial identity block
  let rows : Array Row := (Array.range m).map fun i =>
    let s := rget sig i
    let a := A.getD i #[]
    ((Array.range total).map fun j =>
      if j < nv then s * rget a j else if j - nv == i then 1 else 0).push (s * rget b i)
  let t0 : Tab := { rows := rows, basis := (Array.range m).map (· + nv), nv := total }
  let c1 : Array Rat := (Array.range total).map fun j => if j < nv then 0 else 1
  let (t1, ok1) := iterate c1 (fun _ => true) total fuel t0
  if !ok1 then .unknown else
  let dual (t : Tab) (cc : Array Rat) : Array Rat :=
    (Array.range m).map fun i =>
      rget sig i * ((List.range m).foldl (fun acc r =>
        acc + cc.getD (t.basis.getD r 0) 0 * rget (t.rows.getD r #[]) (nv + i)) 0)
  let (_, v1) := reducedCosts t1 c1
  if v1 > 0 then .infeasible (dual t1 c1) else
  -- phase 2 on the real columns only
  let c2 : Array Rat := (Array.range total).map fun j => if j < nv then c.getD j 0 else 0
  let (t2, ok2) := iterate c2 (fun j => decide (j < nv)) nv fuel t1
  if !ok2 then .unknown else
  let v : Array Rat := Id.run do
    let mut v : Array Rat := Array.replicate nv 0
    for i in [0:m] do
      let bj := t2.basis.getD i 0
      if bj < nv then v := v.setIfInBounds bj (rget (t2.rows.getD i #[]) total)
    return v
  .optimal v (dual t2 c2)

end PPLV.Lin.Simplex

namespace PPLV.Lin

/-! ### certificates and their checkers (these ARE trusted — and proved) -/

/-- all rows hold at the rational point `num / den` (`den > 0`) -/
def certFeas (cs : List Con) (num : List Int) (den : Int) : Bool :=
  decide (0 < den) && cs.all fun c => c.holdsAt num den

/-- `Σ y_i · row_i` as (coefficients, constant) with integer multipliers -/
def combineRows : List Con → List Int → List Int × Int
  | c :: cs, y :: ys =>
    let (cf, k) := combineRows cs ys
    (lincomb y 1 c.coeffs cf, y * c.k + k)
  | _, _ => ([], 0)

def strictWeight : List Con → List Int → Int
  | c :: cs, y :: ys => (if c.strict then y else 0) + strictWeight cs ys
  | _, _ => 0

/-- Motzkin certificate of infeasibility: `y ≥ 0`, `Σ y_i a_i = 0` and
    (`Σ y_i k_i < 0`, or `Σ y_i k_i ≤ 0` with a positive multiplier on a strict row). -/
def certInfeas (cs : List Con) (y : List Int) : Bool :=
  y.length == cs.length && y.all (fun a => decide (0 ≤ a)) &&
    (let (cf, k) := combineRows cs y
     cf.all (· == 0) && (decide (k < 0) || (decide (k ≤ 0) && decide (0 < strictWeight cs y))))

/-! ### from the simplex outcome to certificates -/

/-- scale a rational vector to integers: (numerators, common positive denominator) -/
def toIntVec (v : List Rat) : List Int × Int :=
  let den : Nat := v.foldl (fun d q => Nat.lcm d q.den) 1
  (v.map fun q => q.num * ((den / q.den : Nat) : Int), (den : Int))

/-- try to certify (in)feasibility of `cs` over `n` variables: `some true` with a verified point,
    `some false` with verified multipliers, `none` when no certificate was obtained.
    The (untrusted) search solves the small dual LP
    `min −(u + Σ_{strict} y_i)  s.t.  Σ y_i a_i = 0,  Σ y_i k_i + u = 0,  u + Σ_{strict} y_i + v = 1,  y,u,v ≥ 0`
    (`n+2` equations): a negative optimum yields Motzkin multipliers `y`; a zero optimum yields,
    from the dual multipliers `(x, x0, x1)`, the point `x / x0`. -/
def certify (n : Nat) (cs : List Con) : Option Bool :=
  let m := cs.length
  if m == 0 then some true else
  let act : List Nat := (List.range n).filter fun j => cs.any fun c => c.coeffs.getD j 0 != 0
  let na := act.length
  let nv := m + 2
  let csA := cs.toArray
  let rowOf (f : Con → Rat) (cu cv : Rat) : Simplex.Row :=
    (Array.range nv).map fun i => if i < m then f (csA.getD i default) else if i == m then cu else cv
  let A : Array Simplex.Row :=
    ((act.map fun j => rowOf (fun c => ((c.coeffs.getD j 0 : Int) : Rat)) 0 0).toArray).push
      (rowOf (fun c => ((c.k : Int) : Rat)) 1 0) |>.push
      (rowOf (fun c => if c.strict then 1 else 0) 1 1)
  let b : Array Rat := (Array.replicate (na + 1) (0 : Rat)).push 1
  let c : Array Rat := (Array.range nv).map fun i =>
    if i < m then (if (csA.getD i default).strict then -1 else 0) else if i == m then -1 else 0
  match Simplex.solve A b c nv with
  | .optimal v w =>
    let (y, _) := toIntVec (v.toList.take m)
    if certInfeas cs y then some false
    else
      let x0 := w.getD na 0
      if x0 == 0 then none else
      let xs : List Rat := (List.range n).map fun j =>
        match act.idxOf? j with
        | some idx => w.getD idx 0 / x0
        | none => 0
      let (num, den) := toIntVec xs
      if certFeas cs num den then some true else none
  | _ => none

/-- drop rows that are *certified* to be implied by the others (never drops on doubt) -/
def pruneRows (n : Nat) : List Con → List Con → List Con
  | kept, [] => kept
  | kept, c :: rest =>
    match certify n (c.neg :: (kept ++ rest)) with
    | some false => pruneRows n kept rest
    | _ => pruneRows n (kept ++ [c]) rest

end PPLV.Lin
