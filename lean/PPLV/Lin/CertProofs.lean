import PPLV.Lin.Proofs
import PPLV.Lin.Simplex

/-! # K1 theorems: the certificate checkers are sound

`certFeas` accepts only genuine solutions, `certInfeas` only genuine Motzkin refutations; hence
whatever the (untrusted) simplex proposes, `certify` answers `some true` only for satisfiable
systems and `some false` only for unsatisfiable ones, and `pruneRows` preserves the solution set.
-/
namespace PPLV.Lin
open List

/-! ### negation of a row -/

theorem sat_neg_iff (c : Con) (x : Val) : c.neg.sat x ↔ ¬ c.sat x := by
  have he : c.neg.eval x = - c.eval x := by
    unfold Con.eval Con.neg
    simp only
    have : c.coeffs.map (- ·) = c.coeffs.map ((-1 : Int) * ·) := by
      apply List.map_congr_left; intro a _; ring
    rw [this, dot_map_mul]; push_cast; ring
  unfold Con.sat
  rw [he]
  have hs : c.neg.strict = !c.strict := rfl
  rw [hs]
  cases c.strict <;> simp

theorem neg_length (c : Con) : c.neg.coeffs.length = c.coeffs.length := by
  simp [Con.neg]

theorem Sat_append (as bs : List Con) (w : Val) : Sat (as ++ bs) w ↔ Sat as w ∧ Sat bs w := by
  unfold Sat
  simp only [List.mem_append]
  exact ⟨fun h => ⟨fun c hc => h c (Or.inl hc), fun c hc => h c (Or.inr hc)⟩,
    fun h c hc => hc.elim (h.1 c) (h.2 c)⟩

theorem Sat_cons (c : Con) (cs : List Con) (w : Val) : Sat (c :: cs) w ↔ c.sat w ∧ Sat cs w := by
  unfold Sat
  simp only [List.mem_cons, forall_eq_or_imp]

/-! ### a verified point -/

/-- `Σ_i a_i b_i` over the common prefix (what `zipWith`/`foldl` computes in `Con.holdsAt`) -/
def zsum : List Int → List Int → Int
  | a :: as, b :: bs => a * b + zsum as bs
  | _, _ => 0

theorem foldl_zipWith (as bs : List Int) (acc : Int) :
    (List.zipWith (· * ·) as bs).foldl (· + ·) acc = acc + zsum as bs := by
  induction as generalizing bs acc with
  | nil => simp [zsum]
  | cons a as ih =>
    cases bs with
    | nil => simp [zsum]
    | cons b bs => simp only [List.zipWith_cons_cons, List.foldl_cons, ih, zsum]; ring

/-- the rational point `num / den`; coordinates beyond `num.length` are `0` -/
def ratPoint (num : List Int) (den : Int) : Val := fun i => ((num.getD i 0 : Int) : Rat) / (den : Rat)

theorem ratPoint_nil (den : Int) : ratPoint [] den = Val.zero := by
  funext i; simp [ratPoint, Val.zero]

theorem ratPoint_tail (b : Int) (bs : List Int) (den : Int) :
    (ratPoint (b :: bs) den).tail = ratPoint bs den := by
  funext i; simp [ratPoint, Val.tail]

theorem den_mul_dot (as num : List Int) (den : Int) (hd : (den : Rat) ≠ 0) :
    (den : Rat) * dot as (ratPoint num den) = ((zsum as num : Int) : Rat) := by
  induction as generalizing num with
  | nil => simp [zsum]
  | cons a as ih =>
    cases num with
    | nil => rw [ratPoint_nil, dot_zero]; simp [zsum]
    | cons b bs =>
      simp only [dot_cons, ratPoint_tail, zsum, mul_add, ih bs]
      push_cast
      have : ratPoint (b :: bs) den 0 = (b : Rat) / (den : Rat) := by simp [ratPoint]
      rw [this]; field_simp

theorem holdsAt_iff (c : Con) (num : List Int) (den : Int) (hd : 0 < den) :
    c.holdsAt num den = true ↔ c.sat (ratPoint num den) := by
  have hd' : (0 : Rat) < (den : Rat) := by exact_mod_cast hd
  have key : (((zsum c.coeffs num + c.k * den : Int)) : Rat) = (den : Rat) * c.eval (ratPoint num den) := by
    unfold Con.eval
    rw [mul_add, den_mul_dot _ _ _ (ne_of_gt hd')]; push_cast; ring
  unfold Con.holdsAt Con.sat
  simp only [foldl_zipWith, zero_add]
  split
  · rw [decide_eq_true_eq]
    rw [← mul_pos_iff_of_pos_left hd', ← key]
    exact ⟨fun h => by exact_mod_cast h, fun h => by exact_mod_cast h⟩
  · rw [decide_eq_true_eq]
    rw [← mul_nonneg_iff_of_pos_left hd', ← key]
    exact ⟨fun h => by exact_mod_cast h, fun h => by exact_mod_cast h⟩

/-- **A point accepted by `certFeas` is a solution.** -/
theorem certFeas_point (cs : List Con) (num : List Int) (den : Int)
    (h : certFeas cs num den = true) : Sat cs (ratPoint num den) := by
  unfold certFeas at h
  simp only [Bool.and_eq_true, decide_eq_true_eq, List.all_eq_true] at h
  intro c hc
  exact (holdsAt_iff c num den h.1).mp (h.2 c hc)

theorem certFeas_sound (cs : List Con) (num : List Int) (den : Int)
    (h : certFeas cs num den = true) : ∃ x, Sat cs x :=
  ⟨_, certFeas_point cs num den h⟩

/-! ### verified Motzkin multipliers -/

/-- `Σ_i y_i · eval_i(x)` -/
def wev : List Con → List Int → Val → Rat
  | c :: cs, y :: ys, x => (y : Rat) * c.eval x + wev cs ys x
  | _, _, _ => 0

theorem combineRows_eval (cs : List Con) (y : List Int) (x : Val) :
    dot (combineRows cs y).1 x + (((combineRows cs y).2 : Int) : Rat) = wev cs y x := by
  induction cs generalizing y with
  | nil => simp [combineRows, wev]
  | cons c cs ih =>
    cases y with
    | nil => simp [combineRows, wev]
    | cons a ys =>
      simp only [combineRows, wev, dot_lincomb, ← ih ys, Con.eval]
      push_cast; ring

theorem wev_nonneg (cs : List Con) (y : List Int) (x : Val) (hs : Sat cs x)
    (hy : ∀ a ∈ y, 0 ≤ a) :
    0 ≤ wev cs y x ∧ (0 < strictWeight cs y → 0 < wev cs y x) := by
  induction cs generalizing y with
  | nil => simp [wev, strictWeight]
  | cons c cs ih =>
    cases y with
    | nil => simp [wev, strictWeight]
    | cons a ys =>
      have hc : c.sat x := hs c (by simp)
      have hrest := ih ys (fun d hd => hs d (by simp [hd])) (fun b hb => hy b (by simp [hb]))
      have ha : (0 : Rat) ≤ (a : Rat) := by exact_mod_cast hy a (by simp)
      have hev : 0 ≤ c.eval x := by
        unfold Con.sat at hc; split at hc
        · exact le_of_lt hc
        · exact hc
      have hprod : 0 ≤ (a : Rat) * c.eval x := mul_nonneg ha hev
      simp only [wev, strictWeight]
      refine ⟨by linarith [hrest.1], fun hsw => ?_⟩
      by_cases hpos : 0 < strictWeight cs ys
      · linarith [hrest.2 hpos]
      · have hcs : c.strict = true ∧ 0 < a := by
          by_cases hst : c.strict = true
          · simp only [hst, if_true] at hsw; exact ⟨hst, by omega⟩
          · simp only [hst, Bool.false_eq_true, if_false] at hsw; omega
        have hev' : 0 < c.eval x := by
          unfold Con.sat at hc; simpa only [hcs.1, if_true] using hc
        have ha' : (0 : Rat) < (a : Rat) := by exact_mod_cast hcs.2
        have : 0 < (a : Rat) * c.eval x := mul_pos ha' hev'
        linarith [hrest.1]

/-- **Multipliers accepted by `certInfeas` refute the system.** -/
theorem certInfeas_sound (cs : List Con) (y : List Int) (h : certInfeas cs y = true) :
    ¬ ∃ x, Sat cs x := by
  rintro ⟨x, hs⟩
  unfold certInfeas at h
  simp only [Bool.and_eq_true, List.all_eq_true, decide_eq_true_eq, Bool.or_eq_true,
    beq_iff_eq] at h
  obtain ⟨⟨-, hy⟩, hz, hk⟩ := h
  have hw := wev_nonneg cs y x hs hy
  have he := combineRows_eval cs y x
  rw [dot_allZero _ (by simpa [List.all_eq_true] using hz), zero_add] at he
  rcases hk with hk | ⟨hk, hsw⟩
  · have : (((combineRows cs y).2 : Int) : Rat) < 0 := by exact_mod_cast hk
    linarith [hw.1]
  · have : (((combineRows cs y).2 : Int) : Rat) ≤ 0 := by exact_mod_cast hk
    linarith [hw.2 hsw]

/-! ### `certify` and `pruneRows` -/

/- The two proofs below do not depend on the shape of the (untrusted) search inside `certify`:
   they split every `if`/`match` and use that each `some` leaf is guarded by a checker. -/

theorem certify_true (n : Nat) (cs : List Con) (h : certify n cs = some true) : ∃ x, Sat cs x := by
  unfold certify at h
  simp only at h
  repeat' split at h
  all_goals first
    | (cases h; done)
    | exact certFeas_sound _ _ _ (by assumption)
    | (have hl : cs.length = 0 := by simpa using ‹(cs.length == 0) = true›
       have hnil : cs = [] := List.eq_nil_of_length_eq_zero hl
       subst hnil
       exact ⟨Val.zero, fun c hc => by cases hc⟩)

theorem certify_false (n : Nat) (cs : List Con) (h : certify n cs = some false) :
    ¬ ∃ x, Sat cs x := by
  unfold certify at h
  simp only at h
  repeat' split at h
  all_goals first
    | (cases h; done)
    | exact certInfeas_sound _ _ (by assumption)

theorem pruneRows_correct (n : Nat) (kept rest : List Con) (x : Val) :
    Sat (pruneRows n kept rest) x ↔ Sat (kept ++ rest) x := by
  induction rest generalizing kept with
  | nil => simp [pruneRows]
  | cons c rest ih =>
    have hsplit : Sat (kept ++ c :: rest) x ↔ c.sat x ∧ Sat (kept ++ rest) x := by
      simp only [Sat_append, Sat_cons]; tauto
    unfold pruneRows
    split
    · rename_i hc
      rw [ih, hsplit]
      refine ⟨fun h => ⟨?_, h⟩, fun h => h.2⟩
      by_contra hn
      exact certify_false _ _ hc ⟨x, (Sat_cons _ _ _).mpr ⟨(sat_neg_iff c x).mpr hn, h⟩⟩
    · rw [ih, List.append_assoc, List.singleton_append]

end PPLV.Lin
