/-!
# K1 — rational polyhedra by Fourier–Motzkin elimination (executable model, no Mathlib)

A constraint `c` denotes `c.coeffs · x + c.k ≥ 0` (or `> 0` when `c.strict`), integer
coefficients, rational valuations `x : ℕ → ℚ`.  Elimination is done *in place*: eliminating
variable `i` produces rows whose coefficient at `i` is zero, so that no index shifting is
ever needed.  All functions here are total and computable; the theorems are in
`PPLV/Lin/Proofs.lean` and the property statements in `PPLV/Props`.
-/
namespace PPLV.Lin

abbrev Val := Nat → Rat

def Val.tail (x : Val) : Val := fun i => x (i+1)
def Val.update (x : Val) (i : Nat) (v : Rat) : Val := fun j => if j = i then v else x j
def Val.zero : Val := fun _ => 0

structure Con where
  coeffs : List Int
  k : Int
  strict : Bool
deriving Repr, DecidableEq, Hashable, Inhabited

def dot : List Int → Val → Rat
  | [], _ => 0
  | a :: as, x => (a : Rat) * x 0 + dot as x.tail

def Con.eval (c : Con) (x : Val) : Rat := dot c.coeffs x + (c.k : Rat)
def Con.sat (c : Con) (x : Val) : Prop := if c.strict then 0 < c.eval x else 0 ≤ c.eval x

/-- all constraints hold -/
def Sat (cs : List Con) (x : Val) : Prop := ∀ c ∈ cs, c.sat x

/-- coefficient of variable `i` -/
def Con.at (c : Con) (i : Nat) : Int := c.coeffs.getD i 0

/-- `a*xs + b*ys`, the shorter list padded with zeros -/
def lincomb (a b : Int) : List Int → List Int → List Int
  | [], ys => ys.map (b * ·)
  | x :: xs, [] => (x :: xs).map (a * ·)
  | x :: xs, y :: ys => (a * x + b * y) :: lincomb a b xs ys

/-- positive combination cancelling variable `i`; expects `l.at i > 0`, `u.at i < 0` -/
def combine (i : Nat) (l u : Con) : Con :=
  { coeffs := lincomb (-(u.at i)) (l.at i) l.coeffs u.coeffs,
    k := (-(u.at i)) * l.k + (l.at i) * u.k,
    strict := l.strict || u.strict }

/-- the row is `0 = 0`-like: no variable, constant zero -/
def Con.isZeroRow (c : Con) : Bool := c.coeffs.all (· == 0) && c.k == 0

/-- a non-strict lower/upper pair pinning variable `i` (their combination is the zero row) -/
def findEqPair (i : Nat) (pos neg : List Con) : Option (Con × Con) :=
  pos.findSome? fun l =>
    if l.strict then none else
      neg.findSome? fun u =>
        if !u.strict && (combine i l u).isZeroRow then some (l, u) else none

/-- one Fourier–Motzkin step on variable `i` (in place) -/
def elimAt (i : Nat) (cs : List Con) : List Con :=
  let pos := cs.filter (fun c => decide (0 < c.at i))
  let neg := cs.filter (fun c => decide (c.at i < 0))
  let zer := cs.filter (fun c => decide (c.at i = 0))
  match findEqPair i pos neg with
  | some (l, u) => zer ++ pos.map (fun p => combine i p u) ++ neg.map (fun q => combine i l q)
  | none => zer ++ (pos.flatMap fun l => neg.map fun u => combine i l u)

/-! ### tidying rows between steps (sem-preserving for every valuation) -/

def gcdList : List Int → Nat
  | [] => 0
  | a :: as => Nat.gcd a.natAbs (gcdList as)

/-- divide the row by the gcd of all its entries -/
def Con.normalize (c : Con) : Con :=
  let g := Nat.gcd (gcdList c.coeffs) c.k.natAbs
  if g ≤ 1 then c else
    { coeffs := c.coeffs.map (· / (g : Int)), k := c.k / (g : Int), strict := c.strict }

def Con.allZero (c : Con) : Bool := c.coeffs.all (· == 0)
/-- constant row that holds -/
def Con.trivTrue (c : Con) : Bool := c.allZero && (if c.strict then decide (0 < c.k) else decide (0 ≤ c.k))
/-- constant row that fails -/
def Con.trivFalse (c : Con) : Bool := c.allZero && !(if c.strict then decide (0 < c.k) else decide (0 ≤ c.k))

def dedup : List Con → List Con
  | [] => []
  | c :: cs => let r := dedup cs; if c ∈ r then r else c :: r

def falseRow : Con := { coeffs := [], k := -1, strict := false }

def tidy (cs : List Con) : List Con :=
  let ns := cs.map Con.normalize
  if ns.any Con.trivFalse then [falseRow]
  else dedup (ns.filter (fun c => !c.trivTrue))

/-- eliminate the listed variables, tidying after every step -/
def elimVars : List Nat → List Con → List Con
  | [], cs => cs
  | i :: is, cs => elimVars is (tidy (elimAt i cs))

/-- every remaining row, evaluated at the origin, holds -/
def constOK (cs : List Con) : Bool :=
  cs.all fun c => if c.strict then decide (0 < c.k) else decide (0 ≤ c.k)

/-- `cs` (over variables `0..n-1`) has a solution -/
def feasible (n : Nat) (cs : List Con) : Bool :=
  constOK (elimVars (List.range n) (tidy cs))

/-- negation of a constraint: `¬(e ≥ 0)` is `-e > 0`, `¬(e > 0)` is `-e ≥ 0` -/
def Con.neg (c : Con) : Con :=
  { coeffs := c.coeffs.map (- ·), k := -c.k, strict := !c.strict }

/-- every solution of `cs` satisfies `c` -/
def implies (n : Nat) (cs : List Con) (c : Con) : Bool := !feasible n (c.neg :: cs)

def subsetB (n : Nat) (cs ds : List Con) : Bool := ds.all (implies n cs)
def equivB (n : Nat) (cs ds : List Con) : Bool := subsetB n cs ds && subsetB n ds cs
def isEmptyB (n : Nat) (cs : List Con) : Bool := !feasible n cs
/-- the two sets have no common point -/
def disjointB (n : Nat) (cs ds : List Con) : Bool := !feasible n (cs ++ ds)

/-- well-formedness: rows mention only variables `< n` -/
def WF (n : Nat) (cs : List Con) : Prop := ∀ c ∈ cs, c.coeffs.length ≤ n
def wfB (n : Nat) (cs : List Con) : Bool := cs.all fun c => decide (c.coeffs.length ≤ n)

/-! ### building rows -/

/-- `e ≥ 0` / `e > 0` / `e = 0` as rows -/
def geRow (cf : List Int) (k : Int) : Con := ⟨cf, k, false⟩
def gtRow (cf : List Int) (k : Int) : Con := ⟨cf, k, true⟩
def eqRows (cf : List Int) (k : Int) : List Con := [⟨cf, k, false⟩, ⟨cf.map (- ·), -k, false⟩]

/-- unit vector row `x_i` (length `i+1`) scaled by `a` -/
def unitRow (i : Nat) (a : Int) : List Int := List.replicate i 0 ++ [a]

/-- relax strict rows (topological closure of a non-empty set) -/
def relax (cs : List Con) : List Con := cs.map fun c => { c with strict := false }

end PPLV.Lin

namespace PPLV.Lin

/-! ### existential projection onto the first `n` coordinates -/

def Con.truncate (n : Nat) (c : Con) : Con := { c with coeffs := c.coeffs.take n }
def Con.shift (k : Nat) (c : Con) : Con := { c with coeffs := List.replicate k 0 ++ c.coeffs }

/-- `{w | ∃ w', w' agrees with w below n ∧ Sat cs w'}` for rows over `total` variables -/
def projectTo (n total : Nat) (cs : List Con) : List Con :=
  (elimVars (List.range' n (total - n)) (tidy cs)).map (Con.truncate n)

/-! ### generator systems -/

inductive GKind | line | ray | point | cpoint
deriving Repr, DecidableEq, Hashable, Inhabited

/-- a generator with integer coordinates and (for points and closure points) a positive divisor -/
structure Gen where
  kind : GKind
  coords : List Int
  div : Int
deriving Repr, DecidableEq, Hashable, Inhabited

def Gen.isLine (g : Gen) : Bool := g.kind == .line
def Gen.isPt (g : Gen) : Bool := g.kind == .point
def Gen.isPtOrCp (g : Gen) : Bool := g.kind == .point || g.kind == .cpoint
/-- weight of the multiplier in the convexity constraint (after the change of variable μ = λ/div) -/
def Gen.wt (g : Gen) : Int := if g.isPtOrCp then g.div else 0
def Gen.pwt (g : Gen) : Int := if g.isPt then g.div else 0
/-- the divisor that matters: 1 for lines and rays -/
def Gen.d (g : Gen) : Int := if g.isPtOrCp then g.div else 1

def gensWF (n : Nat) (gs : List Gen) : Bool :=
  gs.all fun g => decide (g.coords.length ≤ n) && decide (0 < g.d)

/-- rows over `(x_0..x_{n-1}, μ_0..μ_{m-1})`: `x_i = Σ μ_j g_j[i]`, `μ_j ≥ 0` (non-lines),
    `Σ_{points, closure points} d_j μ_j = 1`, `Σ_{points} d_j μ_j > 0` -/
def liftedGens (n : Nat) (gs : List Gen) : List Con :=
  let m := gs.length
  let coordRows := (List.range n).flatMap fun i =>
    eqRows (unitRow i 1 ++ List.replicate (n - 1 - i) 0 ++ gs.map (fun g => - g.coords.getD i 0)) 0
  let signRows := (List.range m).filterMap fun j =>
    if (gs.getD j default).isLine then none else some (geRow (List.replicate (n + j) 0 ++ [1]) 0)
  let convex := eqRows (List.replicate n 0 ++ gs.map Gen.wt) (-1)
  let somePt := [gtRow (List.replicate n 0 ++ gs.map Gen.pwt) 0]
  coordRows ++ signRows ++ convex ++ somePt

/-- constraint description of the set generated by `gs` (empty list of generators: the empty set) -/
def gensToCons (n : Nat) (gs : List Gen) : List Con :=
  projectTo n (n + gs.length) (liftedGens n gs)

/-- do the two descriptions denote the same set? -/
def checkDD (n : Nat) (cs : List Con) (gs : List Gen) : Bool :=
  equivB n cs (gensToCons n gs)

/-! ### supremum of a linear expression -/

inductive Sup
  | empty                                   -- the set is empty
  | unbounded                               -- no upper bound
  | val (num : Int) (den : Int) (attained : Bool)   -- sup = num/den, den > 0
deriving Repr, DecidableEq, Inhabited

/-- rows over `(t, x_0..x_{n-1})`: `den*t = e·x + k` together with the shifted system -/
def supSystem (e : List Int) (k : Int) (cs : List Con) : List Con :=
  eqRows (1 :: e.map (- ·)) (-k) ++ cs.map (Con.shift 1)

/-- upper bounds `a t + k ≥ 0`, `a < 0` on a single variable: the least one as `(num, den, strict)` -/
def minUpper : List Con → Option (Int × Int × Bool)
  | [] => none
  | c :: cs =>
    let a := c.at 0
    let rest := minUpper cs
    if a < 0 then
      -- t ≤ k / (-a)
      let cand : Int × Int × Bool := (c.k, -a, c.strict)
      match rest with
      | none => some cand
      | some (p, q, s) =>
        -- compare c.k/(-a) with p/q
        if cand.1 * q < p * cand.2.1 then some cand
        else if cand.1 * q = p * cand.2.1 then some (p, q, s || c.strict)
        else some (p, q, s)
    else rest

/-- sup of `e·x + k` over `sem cs` (variables `< n`) -/
def supB (n : Nat) (e : List Int) (k : Int) (cs : List Con) : Sup :=
  let rows := projectTo 1 (n + 1) (supSystem e k cs)
  if !feasible 1 rows then .empty
  else match minUpper rows with
    | none => .unbounded
    | some (p, q, s) => .val p q (!s)

/-- membership of a rational point (numerators / common positive denominator) -/
def Con.holdsAt (c : Con) (num : List Int) (den : Int) : Bool :=
  let v := (List.zipWith (· * ·) c.coeffs num).foldl (· + ·) 0 + c.k * den
  if c.strict then decide (0 < v) else decide (0 ≤ v)

end PPLV.Lin
