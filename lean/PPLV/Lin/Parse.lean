import PPLV.Lin.Ops

/-! Token-level parsers of the journal protocol shared by the native drivers.
Encoding (all integers exact):
* constraint  `<rel> <k> <a_0> … <a_{n-1}>`   rel ∈ {=, >=, >}   meaning  Σ a_i x_i + k  rel  0
* constraint system `<m> <constraint>*`
* generator   `<l|r|p|c> <div> <a_0> … <a_{n-1}>`  (line, ray, point, closure point; div = 1 for l, r)
* generator system `<m> <generator>*`
* linear expression `<k> <a_0> … <a_{n-1}>`
* relation symbol `< <= = >= >` -/
namespace PPLV.Lin

def tokInt (s : String) : Int := s.toInt?.getD 0
def tokNat (s : String) : Nat := s.toNat?.getD 0

/-- parse `n` integers -/
def takeInts (n : Nat) (ts : List String) : List Int × List String :=
  ((ts.take n).map tokInt, ts.drop n)

def parseCon (n : Nat) (ts : List String) : List Con × List String :=
  match ts with
  | rel :: k :: rest =>
    let (cf, rest') := takeInts n rest
    let kk := tokInt k
    let rows := if rel == "=" then eqRows cf kk else if rel == ">" then [gtRow cf kk] else [geRow cf kk]
    (rows, rest')
  | _ => ([], [])

def parseCS (n : Nat) (ts : List String) : List Con × List String :=
  match ts with
  | m :: rest =>
    let rec go (k : Nat) (ts : List String) (acc : List Con) : List Con × List String :=
      match k with
      | 0 => (acc, ts)
      | k+1 => let (rows, ts') := parseCon n ts; go k ts' (acc ++ rows)
    go (tokNat m) rest []
  | [] => ([], [])

def parseGen (n : Nat) (ts : List String) : Option Gen × List String :=
  match ts with
  | kd :: d :: rest =>
    let (cf, rest') := takeInts n rest
    let kind := if kd == "l" then GKind.line else if kd == "r" then .ray else if kd == "p" then .point else .cpoint
    (some ⟨kind, cf, tokInt d⟩, rest')
  | _ => (none, [])

def parseGS (n : Nat) (ts : List String) : List Gen × List String :=
  match ts with
  | m :: rest =>
    let rec go (k : Nat) (ts : List String) (acc : List Gen) : List Gen × List String :=
      match k with
      | 0 => (acc, ts)
      | k+1 => match parseGen n ts with
        | (some g, ts') => go k ts' (acc ++ [g])
        | (none, ts') => (acc, ts')
    go (tokNat m) rest []
  | [] => ([], [])

def parseExpr (n : Nat) (ts : List String) : LinExpr × List String :=
  match ts with
  | k :: rest => let (cf, rest') := takeInts n rest; (⟨cf, tokInt k⟩, rest')
  | [] => (⟨[], 0⟩, [])

def parseRel (s : String) : Rel :=
  if s == "<" then .lt else if s == "<=" then .le else if s == "=" then .eq else if s == ">=" then .ge else .gt


end PPLV.Lin
