import PPLV.Lin.Project

/-! # K1 theorems, part 5: supremum of a linear expression over `sem cs` -/
namespace PPLV.Lin
open List

/-! ### the one-variable system describing the values of `e·x + k` -/

theorem Sat_map_shift_one (cs : List Con) (w : Val) :
    Sat (cs.map (Con.shift 1)) w ↔ Sat cs w.tail := by
  unfold Sat
  simp only [List.mem_map, forall_exists_index, and_imp, forall_apply_eq_imp_iff₂]
  constructor
  · intro h c hc; exact (sat_shift 1 c w).mp (h c hc)
  · intro h c hc; exact (sat_shift 1 c w).mpr (h c hc)

theorem supSystem_sat (e : List Int) (k : Int) (cs : List Con) (w : Val) :
    Sat (supSystem e k cs) w ↔ w 0 = dot e w.tail + (k : Rat) ∧ Sat cs w.tail := by
  unfold supSystem
  rw [Sat_append, Sat_eqRows, Sat_map_shift_one, dot_cons, dot_map_neg]
  refine and_congr ?_ Iff.rfl
  push_cast
  constructor <;> intro h <;> linarith

theorem supSystem_wf (n : Nat) (e : List Int) (k : Int) (cs : List Con) (hwf : WF n cs)
    (he : e.length ≤ n) : WF (n + 1) (supSystem e k cs) := by
  intro c hc
  unfold supSystem at hc
  simp only [List.mem_append, eqRows, List.mem_cons, List.not_mem_nil, or_false, List.mem_map] at hc
  rcases hc with (rfl | rfl) | ⟨d, hd, rfl⟩
  · simp; omega
  · simp; omega
  · have := hwf d hd
    simp [Con.shift]; omega

/-- the rows computed by `supB` describe exactly the values taken by `e·x + k` on `sem cs` -/
theorem supRows_sat (n : Nat) (e : List Int) (k : Int) (cs : List Con) (hwf : WF n cs)
    (he : e.length ≤ n) (w : Val) :
    Sat (projectTo 1 (n + 1) (supSystem e k cs)) w ↔ ∃ x ∈ sem cs, w 0 = dot e x + (k : Rat) := by
  rw [projectTo_spec 1 (n + 1) _ (supSystem_wf n e k cs hwf he) (by omega)]
  constructor
  · rintro ⟨w', h0, hs⟩
    obtain ⟨h1, h2⟩ := (supSystem_sat e k cs w').mp hs
    exact ⟨w'.tail, h2, by rw [← h0 0 (by omega)]; exact h1⟩
  · rintro ⟨x, hx, h0⟩
    let w' : Val := fun j => if j = 0 then w 0 else x (j - 1)
    have ht : w'.tail = x := by funext j; simp [w', Val.tail]
    refine ⟨w', fun j hj => by have : j = 0 := by omega
                               simp [w', this], ?_⟩
    rw [supSystem_sat, ht]
    exact ⟨by simpa [w'] using h0, hx⟩

/-! ### rows over one variable -/

theorem eval_oneVar (c : Con) (h : c.coeffs.length ≤ 1) (w : Val) :
    c.eval w = (c.at 0 : Rat) * w 0 + (c.k : Rat) := by
  unfold Con.eval Con.at
  rcases hc : c.coeffs with _ | ⟨a, _ | ⟨b, l⟩⟩
  · simp
  · simp
  · rw [hc] at h; simp at h

/-- the bound `k / (-a)` of an upper row `a t + k ≥ 0`, `a < 0` -/
noncomputable def ub (c : Con) : Rat := (c.k : Rat) / (-(c.at 0 : Rat))

theorem sat_upper (c : Con) (h : c.coeffs.length ≤ 1) (ha : c.at 0 < 0) (w : Val) :
    c.sat w ↔ (if c.strict then w 0 < ub c else w 0 ≤ ub c) := by
  have ha' : (0 : Rat) < -(c.at 0 : Rat) := by
    have : ((c.at 0 : Int) : Rat) < 0 := by exact_mod_cast ha
    linarith
  unfold Con.sat ub
  rw [eval_oneVar c h]
  split
  · rw [lt_div_iff₀ ha']; constructor <;> intro h <;> linarith
  · rw [le_div_iff₀ ha']; constructor <;> intro h <;> linarith

/-- moving up from a solution keeps every row that is not an upper bound -/
theorem sat_nonupper_mono (c : Con) (h : c.coeffs.length ≤ 1) (ha : 0 ≤ c.at 0) (w w' : Val)
    (hle : w 0 ≤ w' 0) (hs : c.sat w) : c.sat w' := by
  have ha' : (0 : Rat) ≤ (c.at 0 : Rat) := by exact_mod_cast ha
  unfold Con.sat at hs ⊢
  rw [eval_oneVar c h] at hs ⊢
  have : (c.at 0 : Rat) * w 0 ≤ (c.at 0 : Rat) * w' 0 := mul_le_mul_of_nonneg_left hle ha'
  split at hs <;> rename_i hst <;> simp only [hst, if_true, Bool.false_eq_true, if_false] <;> linarith

theorem Sat_up (rows : List Con) (h1 : WF 1 rows) (w w' : Val) (hs : Sat rows w) (hle : w 0 ≤ w' 0)
    (hub : ∀ c ∈ rows, c.at 0 < 0 → (if c.strict then w' 0 < ub c else w' 0 ≤ ub c)) :
    Sat rows w' := by
  intro c hc
  by_cases ha : c.at 0 < 0
  · exact (sat_upper c (h1 c hc) ha w').mpr (hub c hc ha)
  · exact sat_nonupper_mono c (h1 c hc) (not_lt.mp ha) w w' hle (hs c hc)

/-! ### `minUpper` -/

theorem minUpper_cons_nonneg (c : Con) (cs : List Con) (h : ¬ c.at 0 < 0) :
    minUpper (c :: cs) = minUpper cs := by
  simp [minUpper, h]

theorem minUpper_cons_none (c : Con) (cs : List Con) (h : c.at 0 < 0) (hr : minUpper cs = none) :
    minUpper (c :: cs) = some (c.k, -(c.at 0), c.strict) := by
  simp [minUpper, h, hr]

theorem minUpper_cons_some (c : Con) (cs : List Con) (p q : Int) (s : Bool) (h : c.at 0 < 0)
    (hr : minUpper cs = some (p, q, s)) :
    minUpper (c :: cs) =
      if c.k * q < p * (-(c.at 0)) then some (c.k, -(c.at 0), c.strict)
      else if c.k * q = p * (-(c.at 0)) then some (p, q, s || c.strict)
      else some (p, q, s) := by
  simp [minUpper, h, hr]

theorem minUpper_none (rows : List Con) (h : minUpper rows = none) : ∀ c ∈ rows, 0 ≤ c.at 0 := by
  induction rows with
  | nil => intro c hc; cases hc
  | cons c cs ih =>
    by_cases ha : c.at 0 < 0
    · cases hr : minUpper cs with
      | none => rw [minUpper_cons_none c cs ha hr] at h; cases h
      | some v =>
        obtain ⟨p, q, s⟩ := v
        rw [minUpper_cons_some c cs p q s ha hr] at h
        split at h
        · cases h
        · split at h <;> cases h
    · rw [minUpper_cons_nonneg c cs ha] at h
      intro d hd
      rcases List.mem_cons.mp hd with rfl | hd
      · exact not_lt.mp ha
      · exact ih h d hd

/-- what `minUpper` returns: the least upper-row bound, and whether a strict row attains it -/
structure MinSpec (rows : List Con) (p q : Int) (s : Bool) : Prop where
  qpos : 0 < q
  le : ∀ c ∈ rows, c.at 0 < 0 → (p : Rat) / (q : Rat) ≤ ub c
  att : ∃ c ∈ rows, c.at 0 < 0 ∧ ub c = (p : Rat) / (q : Rat)
  strict_iff : s = true ↔ ∃ c ∈ rows, c.at 0 < 0 ∧ ub c = (p : Rat) / (q : Rat) ∧ c.strict = true

theorem ub_eq (c : Con) : ub c = ((c.k : Int) : Rat) / ((-(c.at 0) : Int) : Rat) := by
  unfold ub; push_cast; rfl

theorem MinSpec_single (c : Con) (cs : List Con) (ha : c.at 0 < 0) (hcs : ∀ d ∈ cs, 0 ≤ d.at 0) :
    MinSpec (c :: cs) c.k (-(c.at 0)) c.strict := by
  have hnot : ∀ d ∈ cs, ¬ d.at 0 < 0 := fun d hd => not_lt.mpr (hcs d hd)
  refine ⟨by omega, ?_, ⟨c, by simp, ha, ub_eq c⟩, ?_⟩
  · intro d hd hda
    rcases List.mem_cons.mp hd with rfl | hd
    · rw [ub_eq]
    · exact absurd hda (hnot d hd)
  · constructor
    · intro hs; exact ⟨c, by simp, ha, ub_eq c, hs⟩
    · rintro ⟨d, hd, hda, -, hds⟩
      rcases List.mem_cons.mp hd with rfl | hd
      · exact hds
      · exact absurd hda (hnot d hd)

theorem MinSpec_lt (c : Con) (cs : List Con) (p q : Int) (s : Bool) (ha : c.at 0 < 0)
    (ih : MinSpec cs p q s) (hlt : ub c < (p : Rat) / (q : Rat)) :
    MinSpec (c :: cs) c.k (-(c.at 0)) c.strict := by
  refine ⟨by omega, ?_, ⟨c, by simp, ha, ub_eq c⟩, ?_⟩
  · intro d hd hda
    rw [← ub_eq]
    rcases List.mem_cons.mp hd with rfl | hd
    · exact le_refl _
    · exact le_of_lt (lt_of_lt_of_le hlt (ih.le d hd hda))
  · rw [← ub_eq]
    constructor
    · intro hs; exact ⟨c, by simp, ha, rfl, hs⟩
    · rintro ⟨d, hd, hda, hde, hds⟩
      rcases List.mem_cons.mp hd with rfl | hd
      · exact hds
      · have := ih.le d hd hda
        rw [hde] at this
        exact absurd hlt (not_lt.mpr this)

theorem MinSpec_eq (c : Con) (cs : List Con) (p q : Int) (s : Bool) (ha : c.at 0 < 0)
    (ih : MinSpec cs p q s) (heq : ub c = (p : Rat) / (q : Rat)) :
    MinSpec (c :: cs) p q (s || c.strict) := by
  refine ⟨ih.qpos, ?_, ⟨c, by simp, ha, heq⟩, ?_⟩
  · intro d hd hda
    rcases List.mem_cons.mp hd with rfl | hd
    · exact le_of_eq heq.symm
    · exact ih.le d hd hda
  · rw [Bool.or_eq_true, ih.strict_iff]
    constructor
    · rintro (⟨d, hd, h⟩ | hs)
      · exact ⟨d, List.mem_cons_of_mem _ hd, h⟩
      · exact ⟨c, by simp, ha, heq, hs⟩
    · rintro ⟨d, hd, hda, hde, hds⟩
      rcases List.mem_cons.mp hd with rfl | hd
      · exact Or.inr hds
      · exact Or.inl ⟨d, hd, hda, hde, hds⟩

theorem MinSpec_gt (c : Con) (cs : List Con) (p q : Int) (s : Bool)
    (ih : MinSpec cs p q s) (hgt : c.at 0 < 0 → (p : Rat) / (q : Rat) < ub c) :
    MinSpec (c :: cs) p q s := by
  obtain ⟨d0, hd0, h0⟩ := ih.att
  refine ⟨ih.qpos, ?_, ⟨d0, List.mem_cons_of_mem _ hd0, h0⟩, ?_⟩
  · intro d hd hda
    rcases List.mem_cons.mp hd with rfl | hd
    · exact le_of_lt (hgt hda)
    · exact ih.le d hd hda
  · rw [ih.strict_iff]
    constructor
    · rintro ⟨d, hd, h⟩; exact ⟨d, List.mem_cons_of_mem _ hd, h⟩
    · rintro ⟨d, hd, hda, hde, hds⟩
      rcases List.mem_cons.mp hd with rfl | hd
      · exact absurd hde (ne_of_gt (hgt hda))
      · exact ⟨d, hd, hda, hde, hds⟩

theorem ub_cmp (c : Con) (p q : Int) (ha : c.at 0 < 0) (hq : 0 < q) :
    (c.k * q < p * (-(c.at 0)) ↔ ub c < (p : Rat) / (q : Rat)) ∧
    (c.k * q = p * (-(c.at 0)) ↔ ub c = (p : Rat) / (q : Rat)) := by
  have ha' : (0 : Rat) < ((-(c.at 0) : Int) : Rat) := by exact_mod_cast (by omega : 0 < -(c.at 0))
  have hq' : (0 : Rat) < (q : Rat) := by exact_mod_cast hq
  rw [ub_eq, div_lt_div_iff₀ ha' hq', div_eq_div_iff (ne_of_gt ha') (ne_of_gt hq')]
  constructor
  · constructor <;> intro h <;> exact_mod_cast h
  · constructor <;> intro h <;> exact_mod_cast h

theorem minUpper_some (rows : List Con) (p q : Int) (s : Bool)
    (h : minUpper rows = some (p, q, s)) : MinSpec rows p q s := by
  induction rows generalizing p q s with
  | nil => cases h
  | cons c cs ih =>
    by_cases ha : c.at 0 < 0
    · cases hr : minUpper cs with
      | none =>
        rw [minUpper_cons_none c cs ha hr] at h
        cases h
        exact MinSpec_single c cs ha (minUpper_none cs hr)
      | some v =>
        obtain ⟨p', q', s'⟩ := v
        have ih' := ih p' q' s' hr
        obtain ⟨hc1, hc2⟩ := ub_cmp c p' q' ha ih'.qpos
        rw [minUpper_cons_some c cs p' q' s' ha hr] at h
        split at h
        · rename_i hlt
          cases h
          exact MinSpec_lt c cs p' q' s' ha ih' (hc1.mp hlt)
        · rename_i hnlt
          split at h
          · rename_i heq
            cases h
            exact MinSpec_eq c cs p q s' ha ih' (hc2.mp heq)
          · rename_i hne
            cases h
            refine MinSpec_gt c cs p q s ih' fun _ => ?_
            rcases lt_trichotomy (ub c) ((p : Rat) / (q : Rat)) with h1 | h1 | h1
            · exact absurd (hc1.mpr h1) hnlt
            · exact absurd (hc2.mpr h1) hne
            · exact h1
    · rw [minUpper_cons_nonneg c cs ha] at h
      exact MinSpec_gt c cs p q s (ih p q s h) fun h' => absurd h' ha

/-! ### the specification of `supB` -/

theorem supB_cases (n : Nat) (e : List Int) (k : Int) (cs : List Con) :
    let rows := projectTo 1 (n + 1) (supSystem e k cs)
    (feasible 1 rows = false ∧ supB n e k cs = .empty) ∨
    (feasible 1 rows = true ∧ minUpper rows = none ∧ supB n e k cs = .unbounded) ∨
    (∃ p q s, feasible 1 rows = true ∧ minUpper rows = some (p, q, s) ∧
      supB n e k cs = .val p q (!s)) := by
  intro rows
  unfold supB
  cases hf : feasible 1 (projectTo 1 (n + 1) (supSystem e k cs))
  · left; simp [hf]
  · right
    cases hm : minUpper (projectTo 1 (n + 1) (supSystem e k cs)) with
    | none => left; simp [hf, hm]
    | some v => obtain ⟨p, q, s⟩ := v; right; exact ⟨p, q, s, by simp [hf, hm]⟩

/-- **Supremum**: `supB` classifies `sup {e·x + k | x ∈ sem cs}` — empty set, unbounded, or the
    exact rational value together with whether it is attained. -/
theorem supB_spec (n : Nat) (e : List Int) (k : Int) (cs : List Con) (hwf : WF n cs) (he : e.length ≤ n) :
    match supB n e k cs with
    | .empty => sem cs = ∅
    | .unbounded => (∃ x, x ∈ sem cs) ∧ ∀ M : Rat, ∃ x ∈ sem cs, M < dot e x + k
    | .val p q att => 0 < q ∧ (∀ x ∈ sem cs, dot e x + k ≤ (p:Rat)/q) ∧
        (att = true → ∃ x ∈ sem cs, dot e x + k = (p:Rat)/q) ∧
        (att = false → (∀ x ∈ sem cs, dot e x + k < (p:Rat)/q) ∧
          ∀ ε : Rat, 0 < ε → ∃ x ∈ sem cs, (p:Rat)/q - ε < dot e x + k) := by
  have hrows := supRows_sat n e k cs hwf he
  have h1 : WF 1 (projectTo 1 (n + 1) (supSystem e k cs)) := projectTo_wf _ _ _
  have hfeas := feasible_iff 1 _ h1
  -- every value of the objective is a solution of the rows
  have hval : ∀ x ∈ sem cs, Sat (projectTo 1 (n + 1) (supSystem e k cs)) (fun _ => dot e x + k) :=
    fun x hx => (hrows _).mpr ⟨x, hx, rfl⟩
  rcases supB_cases n e k cs with ⟨hf, hs⟩ | ⟨hf, hm, hs⟩ | ⟨p, q, s, hf, hm, hs⟩
  · rw [hs]
    show sem cs = ∅
    rw [Set.eq_empty_iff_forall_notMem]
    intro x hx
    have : feasible 1 (projectTo 1 (n + 1) (supSystem e k cs)) = true := hfeas.mpr ⟨_, hval x hx⟩
    rw [hf] at this; cases this
  · rw [hs]
    show (∃ x, x ∈ sem cs) ∧ ∀ M : Rat, ∃ x ∈ sem cs, M < dot e x + k
    obtain ⟨w0, hw0⟩ := hfeas.mp hf
    obtain ⟨x0, hx0, -⟩ := (hrows w0).mp hw0
    refine ⟨⟨x0, hx0⟩, fun M => ?_⟩
    have hnn := minUpper_none _ hm
    have := Sat_up _ h1 w0 (fun _ => max (w0 0) (M + 1)) hw0 (le_max_left _ _)
      (fun c hc ha => absurd ha (not_lt.mpr (hnn c hc)))
    obtain ⟨x, hx, hxe⟩ := (hrows _).mp this
    refine ⟨x, hx, ?_⟩
    have h2 : M + 1 ≤ max (w0 0) (M + 1) := le_max_right _ _
    linarith
  · rw [hs]
    have hspec := minUpper_some _ p q s hm
    obtain ⟨w0, hw0⟩ := hfeas.mp hf
    obtain ⟨cm, hcm, hcma, hcme⟩ := hspec.att
    -- every value is below the bound
    have hle : ∀ x ∈ sem cs, dot e x + k ≤ (p:Rat)/q := by
      intro x hx
      have := (sat_upper cm (h1 cm hcm) hcma _).mp (hval x hx cm hcm)
      rw [hcme] at this
      split at this
      · exact le_of_lt this
      · exact this
    have hw0le : w0 0 ≤ (p:Rat)/q := by
      obtain ⟨x, hx, hxe⟩ := (hrows w0).mp hw0
      rw [hxe]; exact hle x hx
    show 0 < q ∧ (∀ x ∈ sem cs, dot e x + k ≤ (p:Rat)/q) ∧
        ((!s) = true → ∃ x ∈ sem cs, dot e x + k = (p:Rat)/q) ∧
        ((!s) = false → (∀ x ∈ sem cs, dot e x + k < (p:Rat)/q) ∧
          ∀ ε : Rat, 0 < ε → ∃ x ∈ sem cs, (p:Rat)/q - ε < dot e x + k)
    refine ⟨hspec.qpos, hle, ?_, ?_⟩
    · intro hatt
      have hsf : ¬ s = true := by simpa using hatt
      have := Sat_up _ h1 w0 (fun _ => (p:Rat)/q) hw0 hw0le (fun c hc ha => by
        have hle' := hspec.le c hc ha
        by_cases hst : c.strict = true
        · simp only [hst, if_true]
          rcases lt_or_eq_of_le hle' with h | h
          · exact h
          · exact absurd (hspec.strict_iff.mpr ⟨c, hc, ha, h.symm, hst⟩) hsf
        · simp only [hst, Bool.false_eq_true, if_false]; exact hle')
      obtain ⟨x, hx, hxe⟩ := (hrows _).mp this
      exact ⟨x, hx, hxe.symm⟩
    · intro hatt
      have hst : s = true := by simpa using hatt
      obtain ⟨cst, hcst, hcsta, hcste, hcsts⟩ := hspec.strict_iff.mp hst
      have hlt : ∀ x ∈ sem cs, dot e x + k < (p:Rat)/q := by
        intro x hx
        have := (sat_upper cst (h1 cst hcst) hcsta _).mp (hval x hx cst hcst)
        rw [hcste] at this
        simpa only [hcsts, if_true] using this
      have hw0lt : w0 0 < (p:Rat)/q := by
        obtain ⟨x, hx, hxe⟩ := (hrows w0).mp hw0
        rw [hxe]; exact hlt x hx
      refine ⟨hlt, fun ε hε => ?_⟩
      have hmax : max (w0 0) ((p:Rat)/q - ε/2) < (p:Rat)/q := max_lt hw0lt (by linarith)
      have := Sat_up _ h1 w0 (fun _ => max (w0 0) ((p:Rat)/q - ε/2)) hw0 (le_max_left _ _)
        (fun c hc ha => by
          have hle' := hspec.le c hc ha
          have : max (w0 0) ((p:Rat)/q - ε/2) < ub c := lt_of_lt_of_le hmax hle'
          split
          · exact this
          · exact le_of_lt this)
      obtain ⟨x, hx, hxe⟩ := (hrows _).mp this
      refine ⟨x, hx, ?_⟩
      have h2 : (p:Rat)/q - ε/2 ≤ max (w0 0) ((p:Rat)/q - ε/2) := le_max_right _ _
      linarith

end PPLV.Lin
