import PPLV.Lin.OpSpecs2

/-! # K1 theorems: the operators and judges of `Ops2.lean`, part 2

The judge of `poly_difference_assign` (`diffJudge_sound`) and congruences as far as a
polyhedron represents them (`addCongs_spec`). -/

/-! ### `poly_difference_assign` -/
namespace PPLV.Lin.O2
open List

theorem relax_of_nonstrict (cs : List Con) (h : ∀ c ∈ cs, c.strict = false) : relax cs = cs := by
  unfold relax
  conv_rhs => rw [← List.map_id cs]
  apply List.map_congr_left
  intro c hc
  have := h c hc
  cases c
  simp only at this
  subst this
  rfl

/-- relaxing the strict piece `P ∩ row^strict` relaxes `P` and restores `row` -/
theorem relax_strict_piece (cs : List Con) (row : Con) (hr : row.strict = false) :
    relax (cs ++ [{ row with strict := true }]) = relax cs ++ [row] := by
  have h1 : relax (cs ++ [{ row with strict := true }])
      = relax cs ++ [{ row with strict := false }] := by
    unfold relax; rw [List.map_append]; rfl
  rw [h1]
  cases row
  simp only at hr
  subst hr
  rfl

theorem WF_relax (n : Nat) (cs : List Con) (h : WF n cs) : WF n (relax cs) := by
  intro d hd
  obtain ⟨c, hc, rfl⟩ := (mem_relax cs d).mp hd
  exact h c hc

/-- for a set that is closed (`sem (relax P) ⊆ sem P`; strict rows may occur, redundantly), the
    closure of the strict piece `P ∩ row^strict` is `P ∩ row` -/
theorem sem_relax_strict_piece (cs : List Con) (row : Con) (hcl : sem (relax cs) ⊆ sem cs)
    (hr : row.strict = false) :
    sem (relax (cs ++ [{ row with strict := true }])) = sem (cs ++ [row]) := by
  rw [relax_strict_piece cs row hr, sem_append, sem_append,
    Set.Subset.antisymm hcl (sem_subset_relax cs)]

theorem WF_snoc (n : Nat) (cs : List Con) (c : Con) (h : WF n cs) (hc : c.coeffs.length ≤ n) :
    WF n (cs ++ [c]) :=
  WF_append n cs [c] h (fun d hd => by rw [List.mem_singleton.mp hd]; exact hc)

theorem mem_sem_snoc (cs : List Con) (c : Con) (x : Val) :
    x ∈ sem (cs ++ [c]) ↔ x ∈ sem cs ∧ c.sat x := by
  show Sat _ x ↔ _
  rw [Sat_append, Sat_singleton]; rfl

/-- coverage: a point of `P` outside `Q` lies in one of the half-spaces -/
theorem diff_cover (n : Nat) (pcs qcs : List Con) (pieces : List (Con × List Gen)) (hp : WF n pcs)
    (hq : WF n qcs) (hlen : ∀ pc ∈ pieces, pc.1.coeffs.length ≤ n)
    (H1 : subsetB n (pcs ++ pieces.map (fun pc => pc.1.neg)) qcs = true) (x : Val)
    (hx : x ∈ sem pcs) (hxq : x ∉ sem qcs) : ∃ pc ∈ pieces, x ∈ sem (pcs ++ [pc.1]) := by
  by_contra hno
  apply hxq
  have hwf : WF n (pcs ++ pieces.map (fun pc => pc.1.neg)) := by
    refine WF_append n _ _ hp ?_
    intro c hc
    obtain ⟨pc, hpc, rfl⟩ := List.mem_map.mp hc
    rw [neg_length]; exact hlen pc hpc
  apply (subsetB_iff n _ _ hwf hq).mp H1
  show Sat _ x
  rw [Sat_append]
  refine ⟨hx, ?_⟩
  intro c hc
  obtain ⟨pc, hpc, rfl⟩ := List.mem_map.mp hc
  rw [sat_neg_iff]
  intro hs
  exact hno ⟨pc, hpc, (mem_sem_snoc pcs pc.1 x).mpr ⟨hx, hs⟩⟩

/-- what the last two conjuncts of the judge give, whatever the topology -/
theorem diff_core (n : Nat) (pcs qcs r : List Con) (pieces : List (Con × List Gen))
    (hp : WF n pcs) (hq : WF n qcs) (hr : WF n r)
    (H1 : subsetB n (pcs ++ pieces.map (fun pc => pc.1.neg)) qcs = true)
    (H3 : ∀ pc ∈ pieces, pc.1.coeffs.length ≤ n ∧ gensWF n pc.2 = true ∧
      (∃ g ∈ pc.2, g.isPt = true) ∧ checkDD n (pcs ++ [pc.1]) pc.2 = true)
    (H4 : (if pieces.isEmpty = true then isEmptyB n r
      else equivB n r (gensToCons n (hullGens (pieces.map (fun pc => pc.2))))) = true) :
    sem pcs \ sem qcs ⊆ sem r ∧
    ∀ cs : List Con, WF n cs → (∀ pc ∈ pieces, sem (pcs ++ [pc.1]) ⊆ sem cs) → sem r ⊆ sem cs := by
  have hpiece : ∀ pc ∈ pieces, sem (pcs ++ [pc.1]) = GenSem n pc.2 := fun pc hpc =>
    (checkDD_iff_genSem n _ _ (WF_snoc n pcs pc.1 hp (H3 pc hpc).1) (H3 pc hpc).2.1).mp
      (H3 pc hpc).2.2.2
  have hcover := diff_cover n pcs qcs pieces hp hq (fun pc hpc => (H3 pc hpc).1) H1
  by_cases hemp : pieces = []
  · subst hemp
    simp only [List.isEmpty_nil, if_true] at H4
    have hre : sem r = ∅ := (isEmptyB_iff n r hr).mp H4
    refine ⟨?_, fun cs _ _ => by rw [hre]; exact Set.empty_subset _⟩
    rintro x ⟨hx, hxq⟩
    obtain ⟨pc, hpc, _⟩ := hcover x hx hxq
    cases hpc
  · have hne : pieces.isEmpty = false := by
      cases pieces with
      | nil => exact absurd rfl hemp
      | cons _ _ => rfl
    rw [hne] at H4
    simp only [Bool.false_eq_true, if_false] at H4
    set gss := pieces.map (fun pc => pc.2) with hgss
    have hgne : gss ≠ [] := by
      intro h; exact hemp (List.map_eq_nil_iff.mp h)
    have hall : ∀ gs ∈ gss, gensWF n gs = true ∧ ∃ g ∈ gs, g.isPt = true := by
      intro gs hgs
      obtain ⟨pc, hpc, rfl⟩ := List.mem_map.mp hgs
      exact ⟨(H3 pc hpc).2.1, (H3 pc hpc).2.2.1⟩
    obtain ⟨h1, h2, hwH⟩ := hullGens_least n gss hgne hall
    have hre : sem r = GenSem n (hullGens gss) := by
      rw [(equivB_iff n r _ hr (gensToCons_wf n _)).mp H4, sem_gensToCons n _ hwH]
    rw [hre]
    constructor
    · rintro x ⟨hx, hxq⟩
      obtain ⟨pc, hpc, hxp⟩ := hcover x hx hxq
      rw [hpiece pc hpc] at hxp
      exact h1 pc.2 (List.mem_map.mpr ⟨pc, hpc, rfl⟩) hxp
    · intro cs hcs hsub
      apply h2 cs hcs
      intro gs hgs
      obtain ⟨pc, hpc, rfl⟩ := List.mem_map.mp hgs
      rw [← hpiece pc hpc]
      exact hsub pc hpc

end PPLV.Lin.O2

namespace PPLV.Lin
open List

/-- **T7**: soundness of the judge of `poly_difference_assign`.  NNC: `R` is the least
    polyhedron (closed or not) containing the set difference; C: the least closed one. -/
theorem diffJudge_sound (p q : RefPoly) (pieces : List (Con × List Gen)) (r : List Con)
    (hp : WF p.n p.cs) (hq : WF p.n q.cs) (hr : WF p.n r)
    (h : RefPoly.diffJudge p q pieces r = true) :
    sem p.cs \ sem q.cs ⊆ sem r ∧
    (p.nnc = true →
      ∀ cs : List Con, WF p.n cs → sem p.cs \ sem q.cs ⊆ sem cs → sem r ⊆ sem cs) ∧
    (p.nnc = false →
      ∀ cs : List Con, WF p.n cs → (∀ c ∈ cs, c.strict = false) →
        sem p.cs \ sem q.cs ⊆ sem cs → sem r ⊆ sem cs) := by
  unfold RefPoly.diffJudge at h
  simp only [Bool.and_eq_true, List.all_eq_true, decide_eq_true_eq, List.any_eq_true] at h
  obtain ⟨⟨⟨H1, H2⟩, H3⟩, H4⟩ := h
  have H3' : ∀ pc ∈ pieces, pc.1.coeffs.length ≤ p.n ∧ gensWF p.n pc.2 = true ∧
      (∃ g ∈ pc.2, g.isPt = true) ∧ checkDD p.n (p.cs ++ [pc.1]) pc.2 = true := fun pc hpc =>
    ⟨(H3 pc hpc).1.1.1, (H3 pc hpc).1.1.2, (H3 pc hpc).1.2, (H3 pc hpc).2⟩
  obtain ⟨hA, hB⟩ := O2.diff_core p.n p.cs q.cs r pieces hp hq hr H1 H3' H4
  refine ⟨hA, fun hnnc cs hcs hsub => hB cs hcs fun pc hpc => ?_,
    fun hnnc cs hcs hclosed hsub => hB cs hcs fun pc hpc => ?_⟩
  · -- NNC: the piece lies in `P ∖ Q`
    have hd := H2 pc hpc
    rw [if_pos hnnc] at hd
    have hdis := (disjointB_iff p.n _ _ (O2.WF_snoc p.n p.cs pc.1 hp (H3' pc hpc).1) hq).mp hd
    intro x hx
    refine hsub ⟨((O2.mem_sem_snoc p.cs pc.1 x).mp hx).1, fun hxq => ?_⟩
    have : x ∈ sem (p.cs ++ [pc.1]) ∩ sem q.cs := ⟨hx, hxq⟩
    rw [hdis] at this; exact this
  · -- C: the piece is the closure of the non-empty strict piece, which lies in `P ∖ Q`
    have hd := H2 pc hpc
    rw [if_neg (by rw [hnnc]; exact Bool.false_ne_true)] at hd
    simp only [Bool.and_eq_true, Bool.not_eq_true'] at hd
    obtain ⟨⟨⟨hrs, hpcl⟩, hfeas⟩, hdis⟩ := hd
    have hcl : sem (relax p.cs) ⊆ sem p.cs :=
      (subsetB_iff p.n _ _ (O2.WF_relax p.n p.cs hp) hp).mp hpcl
    have hwfs : WF p.n (p.cs ++ [{ pc.1 with strict := true }]) :=
      O2.WF_snoc p.n p.cs _ hp (H3' pc hpc).1
    have hdis' := (disjointB_iff p.n _ _ hwfs hq).mp hdis
    obtain ⟨x0, hx0⟩ := (feasible_iff p.n _ hwfs).mp hfeas
    have hsp : sem (p.cs ++ [{ pc.1 with strict := true }]) ⊆ sem cs := by
      intro x hx
      refine hsub ⟨((O2.mem_sem_snoc p.cs _ x).mp hx).1, fun hxq => ?_⟩
      have : x ∈ sem (p.cs ++ [{ pc.1 with strict := true }]) ∩ sem q.cs := ⟨hx, hxq⟩
      rw [hdis'] at this; exact this
    have := (closure_least _ ⟨x0, hx0⟩).2 cs hclosed hsp
    rwa [O2.sem_relax_strict_piece p.cs pc.1 hcl hrs] at this

/-! ### congruences -/

/-- meaning of a congruence `e ≡ 0 (mod m)`; `m = 0`: the equality `e = 0` -/
def Cong.holds (c : Cong) (x : Val) : Prop :=
  if c.m = 0 then c.e.val x = 0 else ∃ z : Int, c.e.val x = (c.m : Rat) * z

end PPLV.Lin

namespace PPLV.Lin.O2
open List

theorem Sat_congRows (cgs : List Cong) (x : Val) :
    Sat (congRows cgs) x ↔ ∀ c ∈ cgs,
      Sat (if c.isEq then eqRows c.e.coeffs c.e.k else if c.inconsistent then [falseRow] else []) x := by
  unfold congRows
  rw [Sat_flatMap]

theorem val_noVars (c : Cong) (h : c.noVars = true) (x : Val) : c.e.val x = (c.e.k : Rat) := by
  unfold LinExpr.val
  rw [dot_allZero _ h]; simp

/-- a proper congruence without variables holds iff `m ∣ k` -/
theorem holds_noVars (c : Cong) (hm : c.m ≠ 0) (h : c.noVars = true) (x : Val) :
    c.holds x ↔ c.e.k % c.m = 0 := by
  unfold Cong.holds
  rw [if_neg hm, val_noVars c h]
  constructor
  · rintro ⟨z, hz⟩
    have : c.e.k = c.m * z := by exact_mod_cast hz
    rw [this]; exact Int.mul_emod_right _ _
  · intro hmod
    obtain ⟨z, hz⟩ := Int.dvd_of_emod_eq_zero hmod
    exact ⟨z, by rw [hz]; push_cast; ring⟩

theorem isEq_iff (c : Cong) : c.isEq = true ↔ c.m = 0 := by
  unfold Cong.isEq; exact beq_iff_eq

/-- the rows of one congruence hold whenever the congruence holds -/
theorem rows_of_holds (c : Cong) (x : Val) (h : c.holds x) :
    Sat (if c.isEq then eqRows c.e.coeffs c.e.k else if c.inconsistent then [falseRow] else []) x := by
  by_cases he : c.isEq = true
  · rw [if_pos he, Sat_eqRows]
    have hm := (isEq_iff c).mp he
    unfold Cong.holds at h
    rw [if_pos hm] at h
    exact h
  · rw [if_neg he]
    have hm : c.m ≠ 0 := fun hm => he ((isEq_iff c).mpr hm)
    by_cases hi : c.inconsistent = true
    · exfalso
      unfold Cong.inconsistent at hi
      simp only [Bool.and_eq_true, bne_iff_ne, ne_eq] at hi
      exact hi.2 ((holds_noVars c hm hi.1.2 x).mp h)
    · rw [if_neg hi]
      intro d hd; cases hd

/-- conversely for a congruence that is an equality or has no variables -/
theorem holds_of_rows (c : Cong) (x : Val) (hnt : c.nonTrivialProper = false)
    (h : Sat (if c.isEq then eqRows c.e.coeffs c.e.k
      else if c.inconsistent then [falseRow] else []) x) : c.holds x := by
  by_cases he : c.isEq = true
  · rw [if_pos he, Sat_eqRows] at h
    have hm := (isEq_iff c).mp he
    unfold Cong.holds
    rw [if_pos hm]
    exact h
  · rw [if_neg he] at h
    have hm : c.m ≠ 0 := fun hm => he ((isEq_iff c).mpr hm)
    have hnv : c.noVars = true := by
      unfold Cong.nonTrivialProper at hnt
      cases hv : c.noVars
      · rw [hv] at hnt
        simp only [Bool.not_eq_true] at he
        rw [he] at hnt
        cases hnt
      · rfl
    by_cases hi : c.inconsistent = true
    · rw [if_pos hi] at h
      exact absurd (h falseRow (by simp)) (not_sat_falseRow x)
    · rw [holds_noVars c hm hnv x]
      unfold Cong.inconsistent at hi
      simp only [Bool.not_eq_true] at he
      rw [he, hnv] at hi
      simpa using hi

end PPLV.Lin.O2

namespace PPLV.Lin
open List

/-- **T8**: `add_congruences` / the representable part of a congruence system.
    (i) a point of `P` satisfying every congruence stays; (ii) the result is a subset of `P`;
    (iii) when no congruence is proper and non-trivial, the result is exactly
    `P ∩ {x | every congruence holds}`. -/
theorem addCongs_spec (p : RefPoly) (cgs : List Cong) :
    (∀ x ∈ sem p.cs, (∀ c ∈ cgs, c.holds x) → x ∈ sem (p.addCongs cgs).cs) ∧
    sem (p.addCongs cgs).cs ⊆ sem p.cs ∧
    ((∀ c ∈ cgs, c.nonTrivialProper = false) →
      sem (p.addCongs cgs).cs = {x | x ∈ sem p.cs ∧ ∀ c ∈ cgs, c.holds x}) := by
  have hsem : sem (p.addCongs cgs).cs = sem p.cs ∩ sem (congRows cgs) := sem_append _ _
  rw [hsem]
  refine ⟨fun x hx hc => ⟨hx, ?_⟩, Set.inter_subset_left, fun hnt => ?_⟩
  · exact (O2.Sat_congRows cgs x).mpr fun c hcm => O2.rows_of_holds c x (hc c hcm)
  · ext x
    constructor
    · rintro ⟨hx, hrows⟩
      exact ⟨hx, fun c hcm =>
        O2.holds_of_rows c x (hnt c hcm) ((O2.Sat_congRows cgs x).mp hrows c hcm)⟩
    · rintro ⟨hx, hc⟩
      exact ⟨hx, (O2.Sat_congRows cgs x).mpr fun c hcm => O2.rows_of_holds c x (hc c hcm)⟩

end PPLV.Lin
