import PPLV.Lin.Decide

/-! # K1 theorems, part 3: existential projection onto the first `n` coordinates -/
namespace PPLV.Lin
open List

/-- keep the first `n` coordinates, zero elsewhere -/
def Val.mask (n : Nat) (w : Val) : Val := fun j => if j < n then w j else 0

theorem mask_zero (w : Val) : Val.mask 0 w = Val.zero := by
  funext j; simp [Val.mask, Val.zero]

theorem mask_succ_tail (n : Nat) (w : Val) : (Val.mask (n+1) w).tail = Val.mask n w.tail := by
  funext j; simp [Val.mask, Val.tail]

theorem dot_take (n : Nat) (as : List Int) (w : Val) :
    dot (as.take n) w = dot as (Val.mask n w) := by
  induction as generalizing n w with
  | nil => simp
  | cons a as ih =>
    cases n with
    | zero => rw [mask_zero, dot_zero]; simp
    | succ n =>
      simp only [List.take_succ_cons, dot_cons, ih, mask_succ_tail]
      simp [Val.mask]

theorem sat_truncate (n : Nat) (c : Con) (w : Val) :
    (c.truncate n).sat w ↔ c.sat (fun j => if j < n then w j else 0) := by
  unfold Con.sat Con.eval Con.truncate
  simp only
  rw [dot_take]; rfl

theorem dot_replicate_zero_append (k : Nat) (as : List Int) (w : Val) :
    dot (List.replicate k 0 ++ as) w = dot as (fun j => w (j + k)) := by
  induction k generalizing w with
  | zero => simp
  | succ k ih =>
    simp only [List.replicate_succ, List.cons_append, dot_cons, ih]
    simp only [Int.cast_zero, zero_mul, zero_add]
    congr 1

theorem sat_shift (k : Nat) (c : Con) (w : Val) : (c.shift k).sat w ↔ c.sat (fun j => w (j + k)) := by
  unfold Con.sat Con.eval Con.shift
  simp only
  rw [dot_replicate_zero_append]

theorem Sat_map_truncate (n : Nat) (R : List Con) (w : Val) :
    Sat (R.map (Con.truncate n)) w ↔ Sat R (Val.mask n w) := by
  unfold Sat
  simp only [List.mem_map, forall_exists_index, and_imp, forall_apply_eq_imp_iff₂]
  constructor
  · intro h c hc; exact (sat_truncate n c w).mp (h c hc)
  · intro h c hc; exact (sat_truncate n c w).mpr (h c hc)

/-- **Projection**: `projectTo n total cs` denotes the set of `w` whose first `n` coordinates
    extend to a solution of `cs` (rows over `total ≥ n` variables). -/
theorem projectTo_spec (n total : Nat) (cs : List Con) (hwf : WF total cs) (hn : n ≤ total) (w : Val) :
    Sat (projectTo n total cs) w ↔ ∃ w', (∀ j < n, w' j = w j) ∧ Sat cs w' := by
  unfold projectTo
  rw [Sat_map_truncate, ← elimVars_correct]
  constructor
  · rintro ⟨x', ha, hs⟩
    refine ⟨x', fun j hj => ?_, (tidy_correct cs x').mp hs⟩
    have := ha j (by simp [List.mem_range']; omega)
    simpa [Val.mask, hj] using this
  · rintro ⟨w', hag, hs⟩
    refine ⟨fun j => if j < total then w' j else 0, ?_, ?_⟩
    · intro j hj
      have hj' : j < n ∨ total ≤ j := by
        simp only [List.mem_range'_1, not_and, not_lt] at hj
        by_cases h : n ≤ j
        · right; have := hj h; omega
        · left; omega
      rcases hj' with h | h
      · have : j < total := by omega
        simp [Val.mask, h, this, hag j h]
      · have h1 : ¬ j < total := by omega
        have h2 : ¬ j < n := by omega
        simp [Val.mask, h1, h2]
    · rw [tidy_correct]
      intro c hc
      refine (sat_agree c _ w' ?_).mpr (hs c hc)
      intro i hi
      have : i < total := lt_of_lt_of_le hi (hwf c hc)
      simp [this]

theorem projectTo_wf (n total : Nat) (cs : List Con) : WF n (projectTo n total cs) := by
  intro c hc
  unfold projectTo at hc
  simp only [List.mem_map] at hc
  obtain ⟨d, -, rfl⟩ := hc
  simp [Con.truncate, List.length_take]

/-! ### more `dot` algebra -/

theorem dot_append (as bs : List Int) (w : Val) :
    dot (as ++ bs) w = dot as w + dot bs (fun j => w (j + as.length)) := by
  induction as generalizing w with
  | nil => simp
  | cons a as ih =>
    simp only [List.cons_append, dot_cons, ih, List.length_cons]
    have : (fun j => w.tail (j + as.length)) = (fun j => w (j + (as.length + 1))) := by
      funext j; simp [Val.tail, Nat.add_assoc]
    rw [this]; ring

theorem dot_replicate_zero (k : Nat) (w : Val) : dot (List.replicate k 0) w = 0 := by
  simpa using dot_replicate_zero_append k [] w

theorem dot_unitRow (i : Nat) (a : Int) (w : Val) : dot (unitRow i a) w = (a : Rat) * w i := by
  unfold unitRow
  rw [dot_replicate_zero_append]; simp

theorem dot_map_neg (as : List Int) (w : Val) : dot (as.map (- ·)) w = - dot as w := by
  induction as generalizing w with
  | nil => simp
  | cons a as ih => simp only [List.map_cons, dot_cons, ih]; push_cast; ring

theorem Sat_flatMap {α} (l : List α) (f : α → List Con) (w : Val) :
    Sat (l.flatMap f) w ↔ ∀ a ∈ l, Sat (f a) w := by
  unfold Sat
  simp only [List.mem_flatMap]
  exact ⟨fun h a ha c hc => h c ⟨a, ha, hc⟩, fun h c ⟨a, ha, hc⟩ => h a ha c hc⟩

theorem Sat_eqRows (cf : List Int) (k : Int) (w : Val) :
    Sat (eqRows cf k) w ↔ dot cf w + (k : Rat) = 0 := by
  unfold Sat eqRows
  constructor
  · intro h
    have h1 := h ⟨cf, k, false⟩ (by simp)
    have h2 := h ⟨cf.map (- ·), -k, false⟩ (by simp)
    simp only [Con.sat, Con.eval, dot_map_neg, Bool.false_eq_true, if_false] at h1 h2
    push_cast at h2
    linarith
  · intro h c hc
    simp only [List.mem_cons, List.not_mem_nil, or_false] at hc
    rcases hc with rfl | rfl
    · simp only [Con.sat, Con.eval, Bool.false_eq_true, if_false]; linarith
    · simp only [Con.sat, Con.eval, dot_map_neg, Bool.false_eq_true, if_false]
      push_cast; linarith

end PPLV.Lin
