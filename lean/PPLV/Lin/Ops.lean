import PPLV.Lin.Model

/-!
# Reference polyhedra: every public operation of `Polyhedron` as a set-level model

A reference polyhedron is a constraint system over `n` variables plus its topology.  Every
operator is written as the *relation* (or intersection, or generator union) that
`doc/definitions.dox` uses to define it, and computed with the verified kernel
(`projectTo`, `gensToCons`, the deciders).  No Mathlib: this file is linked into `pplv_lin`.
-/
namespace PPLV.Lin

structure RefPoly where
  nnc : Bool
  n : Nat
  cs : List Con
deriving Repr, Inhabited

/-- relation symbols of `generalized_affine_image` -/
inductive Rel | lt | le | eq | ge | gt
deriving Repr, DecidableEq, Inhabited

/-- a linear expression `coeffs·x + k` -/
structure LinExpr where
  coeffs : List Int
  k : Int
deriving Repr, Inhabited

def padTo (n : Nat) (l : List Int) : List Int := l.take n ++ List.replicate (n - l.length) 0

/-- pointwise `a*xs + b*ys` (exposed for row building) -/
def lc (a : Int) (xs : List Int) (b : Int) (ys : List Int) : List Int := lincomb a b xs ys

/-- rows stating `lhs ⋈ 0` for `lhs = coeffs·w + k` -/
def relRows (r : Rel) (cf : List Int) (k : Int) : List Con :=
  match r with
  | .ge => [geRow cf k]
  | .gt => [gtRow cf k]
  | .eq => eqRows cf k
  | .le => [geRow (cf.map (- ·)) (-k)]
  | .lt => [gtRow (cf.map (- ·)) (-k)]

def Rel.flip : Rel → Rel
  | .lt => .gt | .le => .ge | .eq => .eq | .ge => .le | .gt => .lt

def univ (nnc : Bool) (n : Nat) : RefPoly := ⟨nnc, n, []⟩
def emptyP (nnc : Bool) (n : Nat) : RefPoly := ⟨nnc, n, [falseRow]⟩

def RefPoly.isEmpty (p : RefPoly) : Bool := !feasible p.n p.cs
def RefPoly.addCons (p : RefPoly) (rows : List Con) : RefPoly := { p with cs := p.cs ++ rows }
def RefPoly.meet (p q : RefPoly) : RefPoly := { p with cs := p.cs ++ q.cs }
def RefPoly.contains (p q : RefPoly) : Bool := subsetB p.n q.cs p.cs
def RefPoly.equiv (p q : RefPoly) : Bool := equivB p.n p.cs q.cs
def RefPoly.disjoint (p q : RefPoly) : Bool := disjointB p.n p.cs q.cs
def RefPoly.isUniverse (p : RefPoly) : Bool := subsetB p.n [] p.cs
def RefPoly.closure (p : RefPoly) : RefPoly :=
  if p.isEmpty then p else { p with cs := relax p.cs }
def RefPoly.isClosed (p : RefPoly) : Bool := p.isEmpty || subsetB p.n (relax p.cs) p.cs

/-- generic relational image: `{x' ∈ ℚ^nOut | ∃ x ∈ P, rel(x', x)}` where `rel` is a system over
    `(x'_0..x'_{nOut-1}, x_0..x_{nIn-1})` -/
def relImage (nOut : Nat) (p : RefPoly) (rel : List Con) : RefPoly :=
  { nnc := p.nnc, n := nOut,
    cs := projectTo nOut (nOut + p.n) (rel ++ p.cs.map (Con.shift nOut)) }

/-- coefficient vector over `(low(nLow), high)`: `low ++ high` with `low` padded -/
def lowHigh (nLow : Nat) (low high : List Int) : List Int := padTo nLow low ++ high

/-- rows `x'_j = x_j` for the listed `j` (`x'` low over `n`, `x` high) -/
def frameRows (n : Nat) (js : List Nat) : List Con :=
  js.flatMap fun j => eqRows (lowHigh n (unitRow j 1) (unitRow j (-1))) 0

def otherVars (n : Nat) (vs : List Nat) : List Nat := (List.range n).filter (fun j => !vs.contains j)

/-- variables with a non-zero coefficient -/
def LinExpr.vars (e : LinExpr) : List Nat :=
  (List.range e.coeffs.length).filter (fun j => e.coeffs.getD j 0 != 0)

/-- `x'_v = (e·x + k)/d`, other variables unchanged -/
def RefPoly.affineImage (p : RefPoly) (v : Nat) (e : LinExpr) (d : Int) : RefPoly :=
  relImage p.n p
    (eqRows (lowHigh p.n (unitRow v d) (e.coeffs.map (- ·))) (-e.k) ++ frameRows p.n (otherVars p.n [v]))

/-- `{x | ∃ x' ∈ P, x'_v = (e·x + k)/d ∧ others equal}`; here `x` is low, `x'` high -/
def RefPoly.affinePreimage (p : RefPoly) (v : Nat) (e : LinExpr) (d : Int) : RefPoly :=
  relImage p.n p
    (eqRows (lowHigh p.n (e.coeffs.map (- ·)) (unitRow v d)) (-e.k) ++ frameRows p.n (otherVars p.n [v]))

/-- `x'_v ⋈ (e·x + k)/d` -/
def RefPoly.genAffineImage (p : RefPoly) (v : Nat) (r : Rel) (e : LinExpr) (d : Int) : RefPoly :=
  let r' := if d < 0 then r.flip else r
  relImage p.n p
    (relRows r' (lowHigh p.n (unitRow v d) (e.coeffs.map (- ·))) (-e.k) ++ frameRows p.n (otherVars p.n [v]))

/-- `{x | ∃ x' ∈ P, x'_v ⋈ (e·x+k)/d, others equal}` -/
def RefPoly.genAffinePreimage (p : RefPoly) (v : Nat) (r : Rel) (e : LinExpr) (d : Int) : RefPoly :=
  let r' := if d < 0 then r.flip else r
  relImage p.n p
    (relRows r' (lowHigh p.n (e.coeffs.map (- ·)) (unitRow v d)) (-e.k) ++ frameRows p.n (otherVars p.n [v]))

/-- `lhs(x') ⋈ rhs(x)`, variables not in `lhs` unchanged -/
def RefPoly.genAffineImage2 (p : RefPoly) (lhs : LinExpr) (r : Rel) (rhs : LinExpr) : RefPoly :=
  relImage p.n p
    (relRows r (lowHigh p.n lhs.coeffs (rhs.coeffs.map (- ·))) (lhs.k - rhs.k)
      ++ frameRows p.n (otherVars p.n lhs.vars))

/-- `{x | ∃ x' ∈ P, lhs(x) ⋈ rhs(x') ... }` — the preimage of the relation of `genAffineImage2`:
    `{x | ∃ x' ∈ P, lhs(x') ⋈ rhs(x) ∧ frame}` with `x` low, `x'` high -/
def RefPoly.genAffinePreimage2 (p : RefPoly) (lhs : LinExpr) (r : Rel) (rhs : LinExpr) : RefPoly :=
  relImage p.n p
    (relRows r (lowHigh p.n (rhs.coeffs.map (- ·)) lhs.coeffs) (lhs.k - rhs.k)
      ++ frameRows p.n (otherVars p.n lhs.vars))

/-- `lb(x)/d ≤ x'_v ≤ ub(x)/d` -/
def RefPoly.boundedAffineImage (p : RefPoly) (v : Nat) (lb ub : LinExpr) (d : Int) : RefPoly :=
  let rge := if d < 0 then Rel.le else Rel.ge
  let rle := if d < 0 then Rel.ge else Rel.le
  relImage p.n p
    (relRows rge (lowHigh p.n (unitRow v d) (lb.coeffs.map (- ·))) (-lb.k) ++
     relRows rle (lowHigh p.n (unitRow v d) (ub.coeffs.map (- ·))) (-ub.k) ++
     frameRows p.n (otherVars p.n [v]))

/-- `{x | ∃ x' ∈ P, lb(x)/d ≤ x'_v ≤ ub(x)/d, others equal}` -/
def RefPoly.boundedAffinePreimage (p : RefPoly) (v : Nat) (lb ub : LinExpr) (d : Int) : RefPoly :=
  let rge := if d < 0 then Rel.le else Rel.ge
  let rle := if d < 0 then Rel.ge else Rel.le
  relImage p.n p
    (relRows rge (lowHigh p.n (lb.coeffs.map (- ·)) (unitRow v d)) (-lb.k) ++
     relRows rle (lowHigh p.n (ub.coeffs.map (- ·)) (unitRow v d)) (-ub.k) ++
     frameRows p.n (otherVars p.n [v]))

/-- cylindrification -/
def RefPoly.unconstrain (p : RefPoly) (vs : List Nat) : RefPoly :=
  relImage p.n p (frameRows p.n (otherVars p.n vs))

/-! ### dimensions -/

def RefPoly.addDimsEmbed (p : RefPoly) (m : Nat) : RefPoly := { p with n := p.n + m }
def RefPoly.addDimsProject (p : RefPoly) (m : Nat) : RefPoly :=
  { p with n := p.n + m,
           cs := p.cs ++ (List.range m).flatMap fun j => eqRows (unitRow (p.n + j) 1) 0 }
def RefPoly.concat (p q : RefPoly) : RefPoly :=
  { p with n := p.n + q.n, cs := p.cs ++ q.cs.map (Con.shift p.n) }

/-- `x'_{f j} = x_j` for `(j, f j)` in the partial injective map; everything else projected away -/
def RefPoly.mapDims (p : RefPoly) (nOut : Nat) (f : List (Nat × Nat)) : RefPoly :=
  relImage nOut p (f.flatMap fun (j, fj) => eqRows (lowHigh nOut (unitRow fj 1) (unitRow j (-1))) 0)

def RefPoly.removeDims (p : RefPoly) (vs : List Nat) : RefPoly :=
  let kept := otherVars p.n vs
  p.mapDims kept.length (kept.zipIdx.map fun (j, idx) => (j, idx))

def RefPoly.removeHigherDims (p : RefPoly) (newN : Nat) : RefPoly :=
  p.removeDims ((List.range p.n).filter (fun j => decide (newN ≤ j)))

/-- replace the role of variable `v` by variable `i` in a row over ≥ max(v,i)+1 variables -/
def Con.renameVar (c : Con) (total v i : Nat) : Con :=
  let cf := padTo total c.coeffs
  let a := cf.getD v 0
  { c with coeffs := (cf.set v 0).set i ((cf.set v 0).getD i 0 + a) }

/-- `expand_space_dimension(v, m)`: the new variables are copies of `v` -/
def RefPoly.expandDim (p : RefPoly) (v m : Nat) : RefPoly :=
  { p with n := p.n + m,
           cs := p.cs ++ (List.range m).flatMap fun j => p.cs.map fun c => c.renameVar (p.n + m) v (p.n + j) }

/-! ### generator-based operators (the generators are supplied and verified by the caller) -/

def RefPoly.ofGens (nnc : Bool) (n : Nat) (gs : List Gen) : RefPoly := ⟨nnc, n, gensToCons n gs⟩

/-- time elapse on generators: points and closure points of `q` become rays -/
def timeElapseGens (gp gq : List Gen) : List Gen :=
  gp ++ gq.filterMap fun g =>
    match g.kind with
    | .line => some g
    | .ray => some g
    | .point | .cpoint =>
      if g.coords.all (· == 0) then none else some { kind := .ray, coords := g.coords, div := 1 }

/-! ### queries -/

/-- relation with a constraint row: (disjoint, included, saturates) -/
def RefPoly.relCon (p : RefPoly) (rows : List Con) (hyper : List Con) : Bool × Bool × Bool :=
  (disjointB p.n p.cs rows, subsetB p.n p.cs rows, subsetB p.n p.cs hyper)

def RefPoly.sup (p : RefPoly) (e : LinExpr) : Sup := supB p.n e.coeffs e.k p.cs
def RefPoly.inf (p : RefPoly) (e : LinExpr) : Sup :=
  match supB p.n (e.coeffs.map (- ·)) (-e.k) p.cs with
  | .val a b att => .val (-a) b att
  | s => s

/-- relation with the proper congruence `e ≡ 0 (mod m)`, `m > 0`: (disjoint, included).
    The values of `e` on the set form an interval `I`; the set is included iff `I` is a single
    multiple of `m` (or empty), disjoint iff `I` contains no multiple of `m`. -/
def RefPoly.relCongruence (p : RefPoly) (e : LinExpr) (m : Int) : Bool × Bool :=
  match p.sup e, p.inf e with
  | .empty, _ => (true, true)
  | _, .empty => (true, true)
  | .val a b attU, .val c d attL =>
    -- interval from c/d to a/b
    if a * d == c * b then
      -- constant value a/b (attained): multiple of m iff b*m ∣ a
      let isMult := decide (a % (b * m) = 0)
      (!isMult, isMult)
    else
      -- smallest multiple of m that is ≥ c/d (or > c/d when not attained): t = m * ⌈c/(d m)⌉
      let q := Int.fdiv c (d * m)
      let t0 := if q * (d * m) == c then (if attL then q else q + 1) else q + 1
      -- is m*t0 ≤ a/b (or < when not attained)?
      let lhs := m * t0 * b
      let inside := if attU then decide (lhs ≤ a) else decide (lhs < a)
      (!inside, false)
  | _, _ => (false, false)   -- unbounded in some direction: multiples of m are met, never included

/-- neither `sup x_i` nor `inf x_i` over the set is infinite -/
def RefPoly.coordBounded (p : RefPoly) (i : Nat) : Bool :=
  (match supB p.n (unitRow i 1) 0 p.cs with | .unbounded => false | _ => true) &&
  (match supB p.n (unitRow i (-1)) 0 p.cs with | .unbounded => false | _ => true)

/-- the set is empty or every coordinate is bounded on it (`C01.query_is_bounded_iff`) -/
def RefPoly.isBounded (p : RefPoly) : Bool :=
  p.isEmpty || (List.range p.n).all fun i => p.coordBounded i

def RefPoly.constrains (p : RefPoly) (v : Nat) : Bool :=
  p.isEmpty || !(subsetB p.n (p.unconstrain [v]).cs p.cs)

/-- point membership (`num/den`, `den > 0`) -/
def RefPoly.hasPoint (p : RefPoly) (num : List Int) (den : Int) : Bool :=
  p.cs.all fun c => c.holdsAt num den

/-- a ray/line direction belongs to the recession cone (of the closure) -/
def RefPoly.hasRay (p : RefPoly) (dir : List Int) : Bool :=
  (relax p.cs).all fun c => ({ c with k := 0 } : Con).holdsAt dir 1

/-! ### affine dimension: Gaussian elimination on the implicit equalities
(total, structural on the list of variables; proved in `PPLV/Lin/QueryDim.lean`) -/

/-- cross-multiplied elimination of variable `j` from the equality row `c` with the pivot row
    `piv` (`piv.at j ≠ 0`): `(piv.at j)·c − (c.at j)·piv`, whose coefficient at `j` is zero -/
def elimEq (j : Nat) (piv c : Con) : Con :=
  { coeffs := lincomb (piv.at j) (-(c.at j)) c.coeffs piv.coeffs,
    k := piv.at j * c.k - c.at j * piv.k, strict := false }

/-- number of free (non-pivot) variables among `vars` of the linear system `E` (every row read
    as the equality `coeffs·x + k = 0`): one column at a time, pivot on a row mentioning the
    variable and eliminate it from every row (the pivot row itself becomes the zero row) -/
def eqFree : List Nat → List Con → Nat
  | [], _ => 0
  | j :: js, E =>
    match E.find? (fun c => c.at j != 0) with
    | none => 1 + eqFree js E
    | some piv => eqFree js (E.map (elimEq j piv))

/-- the implicit equalities: non-strict rows `c` such that `-c` is implied too -/
def RefPoly.implicitEqs (p : RefPoly) : List Con :=
  p.cs.filter fun c =>
    !c.strict && implies p.n p.cs ({ c with coeffs := c.coeffs.map (- ·), k := -c.k, strict := false })

/-- affine dimension: `n − rank` of the implicit equalities (0 for the empty set) -/
def RefPoly.affineDim (p : RefPoly) : Nat :=
  if p.isEmpty then 0 else eqFree (List.range p.n) p.implicitEqs

end PPLV.Lin

namespace PPLV.Lin
/-- drop rows implied by the remaining ones (`kept` already examined) -/
def dropRedundant (n : Nat) : List Con → List Con → List Con
  | kept, [] => kept
  | kept, c :: rest =>
    if implies n (kept ++ rest) c then dropRedundant n kept rest
    else dropRedundant n (kept ++ [c]) rest
end PPLV.Lin
