import PPLV.Lin.Base
import Mathlib.Tactic.Linarith
import Mathlib.Tactic.Ring
import Mathlib.Tactic.FieldSimp
import Mathlib.Tactic.Positivity
import Mathlib.Tactic.Push
import Mathlib.Algebra.Order.Field.Rat
import Mathlib.Data.Rat.Cast.Order

/-! # K1 theorems: Fourier–Motzkin elimination decides rational linear systems -/
namespace PPLV.Lin
open List

/-! ### dot, update, lincomb -/

@[simp] theorem dot_nil (x : Val) : dot [] x = 0 := rfl
@[simp] theorem dot_cons (a : Int) (as : List Int) (x : Val) :
    dot (a :: as) x = (a : Rat) * x 0 + dot as x.tail := rfl

theorem update_tail_succ (x : Val) (i : Nat) (v : Rat) :
    (x.update (i+1) v).tail = x.tail.update i v := by
  funext j; simp [Val.tail, Val.update]

theorem update_tail_zero (x : Val) (v : Rat) : (x.update 0 v).tail = x.tail := by
  funext j; simp [Val.tail, Val.update]

theorem dot_update (as : List Int) (x : Val) (i : Nat) (v : Rat) :
    dot as (x.update i v) = dot as x + ((as.getD i 0 : Int) : Rat) * (v - x i) := by
  induction as generalizing x i with
  | nil => simp
  | cons a as ih =>
    cases i with
    | zero =>
      simp only [dot_cons, update_tail_zero, List.getD_cons_zero]
      simp [Val.update]; ring
    | succ i =>
      simp only [dot_cons, update_tail_succ, List.getD_cons_succ, ih]
      simp [Val.update, Val.tail]; ring

theorem dot_map_mul (a : Int) (xs : List Int) (x : Val) :
    dot (xs.map (a * ·)) x = (a : Rat) * dot xs x := by
  induction xs generalizing x with
  | nil => simp
  | cons b bs ih => simp only [List.map_cons, dot_cons, ih]; push_cast; ring

theorem dot_lincomb (a b : Int) (xs ys : List Int) (x : Val) :
    dot (lincomb a b xs ys) x = (a : Rat) * dot xs x + (b : Rat) * dot ys x := by
  induction xs generalizing ys x with
  | nil => simp [lincomb, dot_map_mul]
  | cons c cs ih =>
    cases ys with
    | nil =>
      simp only [lincomb, dot_map_mul, dot_nil]; ring
    | cons d ds =>
      simp only [lincomb, dot_cons, ih]; push_cast; ring

theorem dot_agree (as : List Int) (x y : Val) (h : ∀ i < as.length, x i = y i) :
    dot as x = dot as y := by
  induction as generalizing x y with
  | nil => rfl
  | cons a as ih =>
    simp only [dot_cons]
    rw [h 0 (by simp), ih x.tail y.tail]
    intro i hi
    exact h (i+1) (by simp; omega)

theorem dot_allZero (as : List Int) (h : as.all (· == 0) = true) (x : Val) : dot as x = 0 := by
  induction as generalizing x with
  | nil => rfl
  | cons a as ih =>
    simp only [List.all_cons, Bool.and_eq_true, beq_iff_eq] at h
    simp [dot_cons, h.1, ih h.2]

theorem dot_zero (as : List Int) : dot as Val.zero = 0 := by
  induction as with
  | nil => rfl
  | cons a as ih =>
    have : Val.zero.tail = Val.zero := rfl
    simp [dot_cons, this, ih, Val.zero]

/-! ### evaluation of rows -/

theorem eval_update (c : Con) (x : Val) (i : Nat) (v : Rat) :
    c.eval (x.update i v) = c.eval x + ((c.at i : Int) : Rat) * (v - x i) := by
  unfold Con.eval Con.at; rw [dot_update]; ring

theorem eval_combine (i : Nat) (l u : Con) (x : Val) :
    (combine i l u).eval x = ((-(u.at i) : Int) : Rat) * l.eval x + ((l.at i : Int) : Rat) * u.eval x := by
  simp only [combine, Con.eval, dot_lincomb]; push_cast; ring

theorem eval_zero (c : Con) : c.eval Val.zero = (c.k : Rat) := by
  simp [Con.eval, dot_zero]

/-- bound on variable `i` induced by row `c` at `x` (the value of `x i` itself is irrelevant) -/
noncomputable def lb (c : Con) (i : Nat) (x : Val) : Rat := x i - c.eval x / (c.at i : Rat)

theorem eval_update_lb (c : Con) (i : Nat) (v : Rat) (x : Val) (hne : (c.at i : Rat) ≠ 0) :
    c.eval (x.update i v) = (c.at i : Rat) * (v - lb c i x) := by
  rw [eval_update]; unfold lb; field_simp; ring

theorem sat_pos (c : Con) (i : Nat) (v : Rat) (x : Val) (hp : 0 < c.at i) :
    c.sat (x.update i v) ↔ (if c.strict then lb c i x < v else lb c i x ≤ v) := by
  have hp' : (0 : Rat) < (c.at i : Rat) := by exact_mod_cast hp
  unfold Con.sat
  rw [eval_update_lb c i v x (ne_of_gt hp')]
  split
  · exact (mul_pos_iff_of_pos_left hp').trans sub_pos
  · exact (mul_nonneg_iff_of_pos_left hp').trans sub_nonneg

theorem sat_neg (c : Con) (i : Nat) (v : Rat) (x : Val) (hn : c.at i < 0) :
    c.sat (x.update i v) ↔ (if c.strict then v < lb c i x else v ≤ lb c i x) := by
  have hn' : (c.at i : Rat) < 0 := by exact_mod_cast hn
  unfold Con.sat
  rw [eval_update_lb c i v x (ne_of_lt hn')]
  split
  · constructor <;> intro h <;> nlinarith
  · constructor <;> intro h <;> nlinarith

theorem sat_zero (c : Con) (i : Nat) (v : Rat) (x : Val) (hz : c.at i = 0) :
    c.sat (x.update i v) ↔ c.sat x := by
  unfold Con.sat
  rw [eval_update, hz]
  simp

theorem sat_combine (i : Nat) (l u : Con) (x : Val) (hl : 0 < l.at i) (hu : u.at i < 0) :
    (combine i l u).sat x ↔
      (if l.strict || u.strict then lb l i x < lb u i x else lb l i x ≤ lb u i x) := by
  have hl' : (0 : Rat) < (l.at i : Rat) := by exact_mod_cast hl
  have hu' : (u.at i : Rat) < 0 := by exact_mod_cast hu
  have hp : (0 : Rat) < (l.at i : Rat) * (-(u.at i : Rat)) := by nlinarith
  have key : (combine i l u).eval x = ((l.at i : Rat) * (-(u.at i : Rat))) * (lb u i x - lb l i x) := by
    rw [eval_combine]; unfold lb; push_cast
    have h1 := ne_of_gt hl'
    have h2 := ne_of_lt hu'
    field_simp; ring
  unfold Con.sat
  have hcs : (combine i l u).strict = (l.strict || u.strict) := rfl
  rw [hcs, key]
  split
  · exact (mul_pos_iff_of_pos_left hp).trans sub_pos
  · exact (mul_nonneg_iff_of_pos_left hp).trans sub_nonneg

/-! ### extremal elements of finite lists -/

theorem exists_max_image {α} (l : List α) (f : α → Rat) (h : l ≠ []) :
    ∃ x ∈ l, ∀ y ∈ l, f y ≤ f x := by
  induction l with
  | nil => exact absurd rfl h
  | cons a as ih =>
    by_cases has : as = []
    · subst has; exact ⟨a, by simp, by simp⟩
    · obtain ⟨m, hm, hmax⟩ := ih has
      by_cases hle : f m ≤ f a
      · refine ⟨a, by simp, ?_⟩
        intro y hy
        rcases List.mem_cons.mp hy with rfl | hy
        · exact le_refl _
        · exact le_trans (hmax y hy) hle
      · refine ⟨m, by simp [hm], ?_⟩
        intro y hy
        rcases List.mem_cons.mp hy with rfl | hy
        · exact le_of_lt (not_le.mp hle)
        · exact hmax y hy

theorem exists_min_image {α} (l : List α) (f : α → Rat) (h : l ≠ []) :
    ∃ x ∈ l, ∀ y ∈ l, f x ≤ f y := by
  obtain ⟨x, hx, hmax⟩ := exists_max_image l (fun a => - f a) h
  exact ⟨x, hx, fun y hy => by have := hmax y hy; linarith⟩

/-! ### the pinning pair -/

theorem findEqPair_some (i : Nat) (pos neg : List Con) (l u : Con)
    (h : findEqPair i pos neg = some (l, u)) :
    l ∈ pos ∧ u ∈ neg ∧ l.strict = false ∧ u.strict = false ∧ (combine i l u).isZeroRow = true := by
  unfold findEqPair at h
  obtain ⟨l', hl', h1⟩ := List.exists_of_findSome?_eq_some h
  by_cases hs : l'.strict = true
  · simp [hs] at h1
  · simp only [hs] at h1
    obtain ⟨u', hu', h2⟩ := List.exists_of_findSome?_eq_some h1
    by_cases hc : (!u'.strict && (combine i l' u').isZeroRow) = true
    · simp only [hc, if_true, Option.some.injEq, Prod.mk.injEq] at h2
      obtain ⟨rfl, rfl⟩ := h2
      simp only [Bool.and_eq_true, Bool.not_eq_true'] at hc
      exact ⟨hl', hu', by simpa using hs, hc.1, hc.2⟩
    · simp [hc] at h2

theorem eval_isZeroRow (c : Con) (h : c.isZeroRow = true) (x : Val) : c.eval x = 0 := by
  unfold Con.isZeroRow at h
  simp only [Bool.and_eq_true, beq_iff_eq] at h
  simp [Con.eval, dot_allZero _ h.1, h.2]

/-! ### one elimination step -/

theorem elimAt_correct (i : Nat) (cs : List Con) (x : Val) :
    (∃ v, Sat cs (x.update i v)) ↔ Sat (elimAt i cs) x := by
  -- classification of rows
  have hclass : ∀ c : Con, c.at i < 0 ∨ c.at i = 0 ∨ 0 < c.at i := fun c => lt_trichotomy _ _
  constructor
  · rintro ⟨v, hv⟩ c hc
    have key : ∀ l ∈ cs, ∀ u ∈ cs, 0 < l.at i → u.at i < 0 → (combine i l u).sat x := by
      intro l hl u hu hlp hun
      rw [sat_combine i l u x hlp hun]
      have h1 := (sat_pos l i v x hlp).mp (hv l hl)
      have h2 := (sat_neg u i v x hun).mp (hv u hu)
      cases hls : l.strict <;> cases hus : u.strict <;> simp [hls, hus] at h1 h2 ⊢ <;> linarith
    have hzer : ∀ d ∈ cs, d.at i = 0 → d.sat x := fun d hd hz => (sat_zero d i v x hz).mp (hv d hd)
    unfold elimAt at hc
    simp only at hc
    split at hc
    · rename_i l u heq
      obtain ⟨hl, hu, -, -, -⟩ := findEqPair_some _ _ _ _ _ heq
      simp only [List.mem_filter, decide_eq_true_eq] at hl hu
      simp only [List.mem_append, List.mem_map, List.mem_filter, decide_eq_true_eq] at hc
      rcases hc with (⟨hd, hz⟩ | ⟨p, ⟨hp, hpp⟩, rfl⟩) | ⟨q, ⟨hq, hqn⟩, rfl⟩
      · exact hzer c hd hz
      · exact key p hp u hu.1 hpp hu.2
      · exact key l hl.1 q hq hl.2 hqn
    · simp only [List.mem_append, List.mem_map, List.mem_filter, List.mem_flatMap,
        decide_eq_true_eq] at hc
      rcases hc with ⟨hd, hz⟩ | ⟨l, ⟨hl, hlp⟩, u, ⟨hu, hun⟩, rfl⟩
      · exact hzer c hd hz
      · exact key l hl u hu hlp hun
  · intro h
    -- reduce goal to bounds
    suffices hsuff : ∃ v, (∀ l ∈ cs, 0 < l.at i → (if l.strict then lb l i x < v else lb l i x ≤ v)) ∧
        (∀ u ∈ cs, u.at i < 0 → (if u.strict then v < lb u i x else v ≤ lb u i x)) ∧
        (∀ d ∈ cs, d.at i = 0 → d.sat x) by
      obtain ⟨v, hv1, hv2, hv3⟩ := hsuff
      refine ⟨v, fun c hc => ?_⟩
      rcases hclass c with hn | hz' | hp
      · exact (sat_neg c i v x hn).mpr (hv2 c hc hn)
      · exact (sat_zero c i v x hz').mpr (hv3 c hc hz')
      · exact (sat_pos c i v x hp).mpr (hv1 c hc hp)
    unfold elimAt at h
    simp only at h
    split at h
    · -- pinned variable
      rename_i l u heq
      obtain ⟨hl, hu, hls, hus, hzr⟩ := findEqPair_some _ _ _ _ _ heq
      simp only [List.mem_filter, decide_eq_true_eq] at hl hu
      have hz : ∀ d ∈ cs, d.at i = 0 → d.sat x := by
        intro d hd hz; apply h
        simp only [List.mem_append, List.mem_filter, decide_eq_true_eq]
        exact Or.inl (Or.inl ⟨hd, hz⟩)
      have hpu : ∀ p ∈ cs, 0 < p.at i → (combine i p u).sat x := by
        intro p hp hpp; apply h
        simp only [List.mem_append, List.mem_map, List.mem_filter, decide_eq_true_eq]
        exact Or.inl (Or.inr ⟨p, ⟨hp, hpp⟩, rfl⟩)
      have hlq : ∀ q ∈ cs, q.at i < 0 → (combine i l q).sat x := by
        intro q hq hqn; apply h
        simp only [List.mem_append, List.mem_map, List.mem_filter, decide_eq_true_eq]
        exact Or.inr ⟨q, ⟨hq, hqn⟩, rfl⟩
      -- lb l = lb u
      have heq' : lb l i x = lb u i x := by
        have e0 := eval_isZeroRow _ hzr x
        rw [eval_combine] at e0
        have hl' : (0 : Rat) < (l.at i : Rat) := by exact_mod_cast hl.2
        have hu' : (u.at i : Rat) < 0 := by exact_mod_cast hu.2
        unfold lb
        have : l.eval x / (l.at i : Rat) = u.eval x / (u.at i : Rat) := by
          rw [div_eq_div_iff (ne_of_gt hl') (ne_of_lt hu')]
          push_cast at e0; linarith
        rw [this]
      refine ⟨lb l i x, ?_, ?_, hz⟩
      · intro p hp hpp
        have := (sat_combine i p u x hpp hu.2).mp (hpu p hp hpp)
        rw [heq']
        cases hps : p.strict <;> simp [hps, hus] at this ⊢ <;> exact this
      · intro q hq hqn
        have := (sat_combine i l q x hl.2 hqn).mp (hlq q hq hqn)
        cases hqs : q.strict <;> simp [hqs, hls] at this ⊢ <;> exact this
    · have hz : ∀ c ∈ cs, c.at i = 0 → c.sat x := by
        intro c hc hz
        apply h
        simp only [List.mem_append, List.mem_filter, decide_eq_true_eq]
        exact Or.inl ⟨hc, hz⟩
      have hcomb : ∀ l ∈ cs, ∀ u ∈ cs, 0 < l.at i → u.at i < 0 →
          (if l.strict || u.strict then lb l i x < lb u i x else lb l i x ≤ lb u i x) := by
        intro l hl u hu hlp hun
        rw [← sat_combine i l u x hlp hun]
        apply h
        simp only [List.mem_append, List.mem_map, List.mem_filter, List.mem_flatMap,
          decide_eq_true_eq]
        exact Or.inr ⟨l, ⟨hl, hlp⟩, u, ⟨hu, hun⟩, rfl⟩
      let pos := cs.filter (fun c => decide (0 < c.at i))
      let neg := cs.filter (fun c => decide (c.at i < 0))
      have mem_pos : ∀ c, c ∈ pos ↔ c ∈ cs ∧ 0 < c.at i := by
        intro c; simp [pos, List.mem_filter]
      have mem_neg : ∀ c, c ∈ neg ↔ c ∈ cs ∧ c.at i < 0 := by
        intro c; simp [neg, List.mem_filter]
      by_cases hpe : pos = []
      · by_cases hne : neg = []
        · refine ⟨0, ?_, ?_, hz⟩
          · intro l hl hlp; have : l ∈ pos := (mem_pos l).mpr ⟨hl, hlp⟩; simp [hpe] at this
          · intro u hu hun; have : u ∈ neg := (mem_neg u).mpr ⟨hu, hun⟩; simp [hne] at this
        · obtain ⟨m, hm, hmin⟩ := exists_min_image neg (fun c => lb c i x) hne
          refine ⟨lb m i x - 1, ?_, ?_, hz⟩
          · intro l hl hlp; have : l ∈ pos := (mem_pos l).mpr ⟨hl, hlp⟩; simp [hpe] at this
          · intro u hu hun
            have := hmin u ((mem_neg u).mpr ⟨hu, hun⟩)
            split <;> linarith
      · obtain ⟨M, hM, hmax⟩ := exists_max_image pos (fun c => lb c i x) hpe
        have hMcs := ((mem_pos M).mp hM)
        by_cases hne : neg = []
        · refine ⟨lb M i x + 1, ?_, ?_, hz⟩
          · intro l hl hlp
            have := hmax l ((mem_pos l).mpr ⟨hl, hlp⟩)
            split <;> linarith
          · intro u hu hun; have : u ∈ neg := (mem_neg u).mpr ⟨hu, hun⟩; simp [hne] at this
        · obtain ⟨m, hm, hmin⟩ := exists_min_image neg (fun c => lb c i x) hne
          have hmcs := ((mem_neg m).mp hm)
          have hMm := hcomb M hMcs.1 m hmcs.1 hMcs.2 hmcs.2
          have hle : lb M i x ≤ lb m i x := by
            split at hMm <;> linarith
          rcases lt_or_eq_of_le hle with hlt | heq
          · refine ⟨(lb M i x + lb m i x) / 2, ?_, ?_, hz⟩
            · intro l hl hlp
              have := hmax l ((mem_pos l).mpr ⟨hl, hlp⟩)
              split <;> linarith
            · intro u hu hun
              have := hmin u ((mem_neg u).mpr ⟨hu, hun⟩)
              split <;> linarith
          · refine ⟨lb M i x, ?_, ?_, hz⟩
            · intro l hl hlp
              have h1 := hmax l ((mem_pos l).mpr ⟨hl, hlp⟩)
              have h2 := hcomb l hl m hmcs.1 hlp hmcs.2
              cases hls : l.strict <;> simp [hls] at h2 ⊢
              · exact h1
              · linarith
            · intro u hu hun
              have h1 := hmin u ((mem_neg u).mpr ⟨hu, hun⟩)
              have h2 := hcomb M hMcs.1 u hu hMcs.2 hun
              cases hus : u.strict <;> simp [hus] at h2 ⊢
              · linarith
              · linarith

end PPLV.Lin
