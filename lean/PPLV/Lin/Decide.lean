import PPLV.Lin.CertProofs
import PPLV.Lin.Model

/-! # K1 theorems, part 2: tidying, iterated elimination, the deciders -/
namespace PPLV.Lin
open List

/-! ### normalisation -/

theorem gcdList_dvd (as : List Int) : ∀ a ∈ as, ((gcdList as : Nat) : Int) ∣ a := by
  induction as with
  | nil => intro a ha; cases ha
  | cons b bs ih =>
    intro a ha
    rcases List.mem_cons.mp ha with rfl | ha
    · unfold gcdList
      exact Int.natCast_dvd.mpr (Nat.gcd_dvd_left _ _)
    · unfold gcdList
      exact dvd_trans (Int.natCast_dvd_natCast.mpr (Nat.gcd_dvd_right _ _)) (ih a ha)

theorem dot_map_div (g : Int) (as : List Int) (h : ∀ a ∈ as, g ∣ a) (x : Val) :
    (g : Rat) * dot (as.map (· / g)) x = dot as x := by
  induction as generalizing x with
  | nil => simp
  | cons a as ih =>
    have ha : g ∣ a := h a (by simp)
    have hrest : ∀ b ∈ as, g ∣ b := fun b hb => h b (by simp [hb])
    simp only [List.map_cons, dot_cons, mul_add, ih hrest]
    congr 1
    obtain ⟨q, rfl⟩ := ha
    by_cases hg : g = 0
    · subst hg; simp
    · rw [Int.mul_ediv_cancel_left _ hg]; push_cast; ring

theorem eval_normalize (c : Con) :
    ∃ g : Rat, 0 < g ∧ ∀ x, c.eval x = g * c.normalize.eval x := by
  unfold Con.normalize
  simp only
  split
  · exact ⟨1, by norm_num, fun x => by simp⟩
  · rename_i hg
    set g := Nat.gcd (gcdList c.coeffs) c.k.natAbs with hgdef
    have hgpos : 0 < g := by omega
    refine ⟨(g : Rat), by exact_mod_cast hgpos, fun x => ?_⟩
    have hdc : ∀ a ∈ c.coeffs, (g : Int) ∣ a := fun a ha =>
      dvd_trans (Int.natCast_dvd_natCast.mpr (Nat.gcd_dvd_left _ _)) (gcdList_dvd _ a ha)
    have hdk : (g : Int) ∣ c.k := Int.natCast_dvd.mpr (Nat.gcd_dvd_right _ _)
    unfold Con.eval
    simp only
    rw [mul_add]
    have h1 := dot_map_div (g : Int) c.coeffs hdc x
    push_cast at h1
    rw [h1]
    congr 1
    obtain ⟨q, hq⟩ := hdk
    have hgne : (g : Int) ≠ 0 := by exact_mod_cast (Nat.pos_iff_ne_zero.mp hgpos)
    rw [hq, Int.mul_ediv_cancel_left _ hgne]; push_cast; ring

theorem normalize_strict (c : Con) : c.normalize.strict = c.strict := by
  unfold Con.normalize; simp only; split <;> rfl

theorem sat_normalize (c : Con) (x : Val) : c.normalize.sat x ↔ c.sat x := by
  obtain ⟨g, hg, he⟩ := eval_normalize c
  unfold Con.sat
  rw [normalize_strict, he x]
  split
  · exact (mul_pos_iff_of_pos_left hg).symm
  · exact (mul_nonneg_iff_of_pos_left hg).symm

/-! ### trivial rows, dedup, tidy -/

theorem eval_allZero (c : Con) (h : c.allZero = true) (x : Val) : c.eval x = (c.k : Rat) := by
  unfold Con.allZero at h
  simp [Con.eval, dot_allZero _ h]

theorem sat_trivTrue (c : Con) (h : c.trivTrue = true) (x : Val) : c.sat x := by
  unfold Con.trivTrue at h
  simp only [Bool.and_eq_true] at h
  unfold Con.sat
  rw [eval_allZero c h.1]
  have h2 := h.2
  cases hs : c.strict <;> simp only [hs, if_true, Bool.false_eq_true, if_false, decide_eq_true_eq] at h2 ⊢ <;>
    exact_mod_cast h2

theorem not_sat_trivFalse (c : Con) (h : c.trivFalse = true) (x : Val) : ¬ c.sat x := by
  unfold Con.trivFalse at h
  simp only [Bool.and_eq_true, Bool.not_eq_true'] at h
  unfold Con.sat
  rw [eval_allZero c h.1]
  have h2 := h.2
  cases hs : c.strict <;> simp only [hs, if_true, Bool.false_eq_true, if_false, decide_eq_false_iff_not] at h2 ⊢ <;>
    exact_mod_cast h2

theorem mem_dedup (cs : List Con) (c : Con) : c ∈ dedup cs ↔ c ∈ cs := by
  induction cs with
  | nil => simp [dedup]
  | cons d ds ih =>
    simp only [dedup]
    split
    · rename_i hc
      have hd : d ∈ dedup ds := hc
      constructor
      · intro h; exact List.mem_cons_of_mem _ (ih.mp h)
      · intro h
        rcases List.mem_cons.mp h with rfl | h
        · exact hd
        · exact ih.mpr h
    · simp [ih]

theorem not_sat_falseRow (x : Val) : ¬ falseRow.sat x := by
  unfold Con.sat falseRow Con.eval; simp

theorem tidy0_correct (cs : List Con) (x : Val) : Sat (tidy0 cs) x ↔ Sat cs x := by
  unfold tidy0
  simp only
  split
  · rename_i h
    simp only [List.any_eq_true, List.mem_map] at h
    obtain ⟨c', ⟨c, hc, rfl⟩, hf⟩ := h
    constructor
    · intro h; exact absurd (h falseRow (by simp)) (not_sat_falseRow x)
    · intro h
      exact absurd ((sat_normalize c x).mpr (h c hc)) (not_sat_trivFalse _ hf x)
  · unfold Sat
    constructor
    · intro h c hc
      by_cases ht : c.normalize.trivTrue = true
      · exact (sat_normalize c x).mp (sat_trivTrue _ ht x)
      · apply (sat_normalize c x).mp
        apply h
        rw [mem_dedup]
        simp only [List.mem_filter, List.mem_map, Bool.not_eq_eq_eq_not,
          Bool.not_true]
        exact ⟨⟨c, hc, rfl⟩, by simpa using ht⟩
    · intro h c hc
      rw [mem_dedup] at hc
      simp only [List.mem_filter, List.mem_map] at hc
      obtain ⟨⟨d, hd, rfl⟩, -⟩ := hc
      exact (sat_normalize d x).mpr (h d hd)

/-- `tidy` = `tidy0` followed (for larger systems) by certified pruning -/
theorem tidy_correct (cs : List Con) (x : Val) : Sat (tidy cs) x ↔ Sat cs x := by
  unfold tidy
  simp only
  split
  · exact tidy0_correct cs x
  · rw [pruneRows_correct, List.nil_append]; exact tidy0_correct cs x

/-! ### iterated elimination -/

/-- `x'` agrees with `x` outside the listed variables -/
def AgreeOff (is : List Nat) (x x' : Val) : Prop := ∀ j, j ∉ is → x' j = x j

theorem elimVars_correct (is : List Nat) (cs : List Con) (x : Val) :
    (∃ x', AgreeOff is x x' ∧ Sat cs x') ↔ Sat (elimVars is cs) x := by
  induction is generalizing cs x with
  | nil =>
    simp only [elimVars]
    constructor
    · rintro ⟨x', ha, hs⟩
      have : x' = x := funext fun j => ha j (by simp)
      rwa [this] at hs
    · intro h; exact ⟨x, fun _ _ => rfl, h⟩
  | cons i is ih =>
    simp only [elimVars]
    rw [← ih]
    constructor
    · rintro ⟨x', ha, hs⟩
      refine ⟨x'.update i (x i), ?_, ?_⟩
      · intro j hj
        by_cases hji : j = i
        · subst hji; simp [Val.update]
        · simp only [Val.update, hji, if_false]
          exact ha j (by simp [hji, hj])
      · rw [tidy_correct, ← elimAt_correct]
        refine ⟨x' i, ?_⟩
        have : (x'.update i (x i)).update i (x' i) = x' := by
          funext j; by_cases hji : j = i <;> simp [Val.update, hji]
        rwa [this]
    · rintro ⟨x'', ha, hs⟩
      rw [tidy_correct, ← elimAt_correct] at hs
      obtain ⟨v, hv⟩ := hs
      refine ⟨x''.update i v, ?_, hv⟩
      intro j hj
      simp only [List.mem_cons, not_or] at hj
      simp only [Val.update, hj.1, if_false]
      exact ha j hj.2

theorem sat_agree (c : Con) (x y : Val) (h : ∀ i < c.coeffs.length, x i = y i) :
    c.sat x ↔ c.sat y := by
  unfold Con.sat Con.eval; rw [dot_agree _ x y h]

theorem constOK_iff (cs : List Con) : constOK cs = true ↔ Sat cs Val.zero := by
  unfold constOK Sat
  simp only [List.all_eq_true]
  constructor
  · intro h c hc
    have := h c hc
    unfold Con.sat; rw [eval_zero]
    split at this <;> rename_i hs <;> simp only [decide_eq_true_eq] at this <;> simp only [hs, if_true]
    · exact_mod_cast this
    · simp; exact_mod_cast this
  · intro h c hc
    have := h c hc
    unfold Con.sat at this; rw [eval_zero] at this
    split at this <;> rename_i hs <;> simp only [hs, if_true, decide_eq_true_eq]
    · exact_mod_cast this
    · simp; exact_mod_cast this

/-- complete Fourier–Motzkin decision, for rows over variables `< n` -/
theorem feasibleFM_iff (n : Nat) (cs : List Con) (hwf : WF n cs) :
    feasibleFM n cs = true ↔ ∃ x, Sat cs x := by
  unfold feasibleFM
  rw [constOK_iff, ← elimVars_correct]
  constructor
  · rintro ⟨x', -, hs⟩; exact ⟨x', (tidy_correct cs x').mp hs⟩
  · rintro ⟨x, hs⟩
    refine ⟨fun j => if j < n then x j else 0, ?_, ?_⟩
    · intro j hj
      have : ¬ j < n := by simpa using hj
      simp [this, Val.zero]
    · rw [tidy_correct]
      intro c hc
      have hlen := hwf c hc
      refine (sat_agree c _ x ?_).mpr (hs c hc)
      intro i hi
      have : i < n := by omega
      simp [this]

/-- **Feasibility is decided**: for rows over variables `< n` (a verified certificate when the
    simplex produced one, complete Fourier–Motzkin elimination otherwise). -/
theorem feasible_iff (n : Nat) (cs : List Con) (hwf : WF n cs) :
    feasible n cs = true ↔ ∃ x, Sat cs x := by
  unfold feasible
  cases hc : certify n cs with
  | none => exact feasibleFM_iff n cs hwf
  | some b =>
    cases b with
    | true => exact ⟨fun _ => certify_true n cs hc, fun _ => rfl⟩
    | false =>
      exact ⟨fun h => (by cases h), fun h => absurd h (certify_false n cs hc)⟩

/-! ### implication, inclusion, equality -/

theorem implies_iff (n : Nat) (cs : List Con) (c : Con) (hwf : WF n cs) (hc : c.coeffs.length ≤ n) :
    implies n cs c = true ↔ ∀ x, Sat cs x → c.sat x := by
  unfold implies
  have hwf' : WF n (c.neg :: cs) := by
    intro d hd
    rcases List.mem_cons.mp hd with rfl | hd
    · rw [neg_length]; exact hc
    · exact hwf d hd
  rw [Bool.not_eq_true', ← Bool.not_eq_true, feasible_iff n _ hwf']
  constructor
  · intro h x hs
    by_contra hn
    apply h
    refine ⟨x, ?_⟩
    intro d hd
    rcases List.mem_cons.mp hd with rfl | hd
    · exact (sat_neg_iff _ x).mpr hn
    · exact hs d hd
  · rintro h ⟨x, hs⟩
    have h1 : c.neg.sat x := hs _ (by simp)
    have h2 : Sat cs x := fun d hd => hs d (by simp [hd])
    exact (sat_neg_iff c x).mp h1 (h x h2)

/-- the point set of a system -/
def sem (cs : List Con) : Set Val := {x | Sat cs x}

theorem subsetB_iff (n : Nat) (cs ds : List Con) (h1 : WF n cs) (h2 : WF n ds) :
    subsetB n cs ds = true ↔ sem cs ⊆ sem ds := by
  unfold subsetB
  simp only [List.all_eq_true]
  constructor
  · intro h x hx d hd
    exact (implies_iff n cs d h1 (h2 d hd)).mp (h d hd) x hx
  · intro h d hd
    exact (implies_iff n cs d h1 (h2 d hd)).mpr fun x hx => h hx d hd

theorem equivB_iff (n : Nat) (cs ds : List Con) (h1 : WF n cs) (h2 : WF n ds) :
    equivB n cs ds = true ↔ sem cs = sem ds := by
  unfold equivB
  rw [Bool.and_eq_true, subsetB_iff n cs ds h1 h2, subsetB_iff n ds cs h2 h1]
  exact ⟨fun ⟨a, b⟩ => Set.Subset.antisymm a b, fun h => ⟨h ▸ subset_rfl, h ▸ subset_rfl⟩⟩

theorem isEmptyB_iff (n : Nat) (cs : List Con) (h : WF n cs) :
    isEmptyB n cs = true ↔ sem cs = ∅ := by
  unfold isEmptyB
  rw [Bool.not_eq_true', ← Bool.not_eq_true, feasible_iff n cs h, Set.eq_empty_iff_forall_notMem]
  simp [sem]

theorem disjointB_iff (n : Nat) (cs ds : List Con) (h1 : WF n cs) (h2 : WF n ds) :
    disjointB n cs ds = true ↔ sem cs ∩ sem ds = ∅ := by
  unfold disjointB
  have hwf : WF n (cs ++ ds) := by
    intro c hc; rcases List.mem_append.mp hc with h | h
    · exact h1 c h
    · exact h2 c h
  rw [Bool.not_eq_true', ← Bool.not_eq_true, feasible_iff n _ hwf, Set.eq_empty_iff_forall_notMem]
  constructor
  · intro h x ⟨hx1, hx2⟩
    apply h
    exact ⟨x, fun c hc => by
      rcases List.mem_append.mp hc with h | h
      · exact hx1 c h
      · exact hx2 c h⟩
  · rintro h ⟨x, hs⟩
    exact h x ⟨fun c hc => hs c (by simp [hc]), fun c hc => hs c (by simp [hc])⟩

theorem wfB_iff (n : Nat) (cs : List Con) : wfB n cs = true ↔ WF n cs := by
  simp [wfB, WF]

end PPLV.Lin
