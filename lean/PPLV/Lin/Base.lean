/-!
# K1 — rows, valuations, one Fourier–Motzkin step (executable model, no Mathlib)

A constraint `c` denotes `c.coeffs · x + c.k ≥ 0` (or `> 0` when `c.strict`), integer
coefficients, rational valuations `x : ℕ → ℚ`.  Elimination is done *in place*: eliminating
variable `i` produces rows whose coefficient at `i` is zero, so that no index shifting is
ever needed.  All functions here are total and computable; the theorems are in
`PPLV/Lin/Proofs.lean` and the property statements in `PPLV/Props`.
-/
namespace PPLV.Lin

abbrev Val := Nat → Rat

def Val.tail (x : Val) : Val := fun i => x (i+1)
def Val.update (x : Val) (i : Nat) (v : Rat) : Val := fun j => if j = i then v else x j
def Val.zero : Val := fun _ => 0

structure Con where
  coeffs : List Int
  k : Int
  strict : Bool
deriving Repr, DecidableEq, Hashable, Inhabited

def dot : List Int → Val → Rat
  | [], _ => 0
  | a :: as, x => (a : Rat) * x 0 + dot as x.tail

def Con.eval (c : Con) (x : Val) : Rat := dot c.coeffs x + (c.k : Rat)
def Con.sat (c : Con) (x : Val) : Prop := if c.strict then 0 < c.eval x else 0 ≤ c.eval x

/-- all constraints hold -/
def Sat (cs : List Con) (x : Val) : Prop := ∀ c ∈ cs, c.sat x

/-- coefficient of variable `i` -/
def Con.at (c : Con) (i : Nat) : Int := c.coeffs.getD i 0

/-- `a*xs + b*ys`, the shorter list padded with zeros -/
def lincomb (a b : Int) : List Int → List Int → List Int
  | [], ys => ys.map (b * ·)
  | x :: xs, [] => (x :: xs).map (a * ·)
  | x :: xs, y :: ys => (a * x + b * y) :: lincomb a b xs ys

/-- positive combination cancelling variable `i`; expects `l.at i > 0`, `u.at i < 0` -/
def combine (i : Nat) (l u : Con) : Con :=
  { coeffs := lincomb (-(u.at i)) (l.at i) l.coeffs u.coeffs,
    k := (-(u.at i)) * l.k + (l.at i) * u.k,
    strict := l.strict || u.strict }

/-- the row is `0 = 0`-like: no variable, constant zero -/
def Con.isZeroRow (c : Con) : Bool := c.coeffs.all (· == 0) && c.k == 0

/-- a non-strict lower/upper pair pinning variable `i` (their combination is the zero row) -/
def findEqPair (i : Nat) (pos neg : List Con) : Option (Con × Con) :=
  pos.findSome? fun l =>
    if l.strict then none else
      neg.findSome? fun u =>
        if !u.strict && (combine i l u).isZeroRow then some (l, u) else none

/-- one Fourier–Motzkin step on variable `i` (in place) -/
def elimAt (i : Nat) (cs : List Con) : List Con :=
  let pos := cs.filter (fun c => decide (0 < c.at i))
  let neg := cs.filter (fun c => decide (c.at i < 0))
  let zer := cs.filter (fun c => decide (c.at i = 0))
  match findEqPair i pos neg with
  | some (l, u) => zer ++ pos.map (fun p => combine i p u) ++ neg.map (fun q => combine i l q)
  | none => zer ++ (pos.flatMap fun l => neg.map fun u => combine i l u)

/-! ### tidying rows between steps (sem-preserving for every valuation) -/

def gcdList : List Int → Nat
  | [] => 0
  | a :: as => Nat.gcd a.natAbs (gcdList as)

/-- divide the row by the gcd of all its entries -/
def Con.normalize (c : Con) : Con :=
  let g := Nat.gcd (gcdList c.coeffs) c.k.natAbs
  if g ≤ 1 then c else
    { coeffs := c.coeffs.map (· / (g : Int)), k := c.k / (g : Int), strict := c.strict }

def Con.allZero (c : Con) : Bool := c.coeffs.all (· == 0)
/-- constant row that holds -/
def Con.trivTrue (c : Con) : Bool := c.allZero && (if c.strict then decide (0 < c.k) else decide (0 ≤ c.k))
/-- constant row that fails -/
def Con.trivFalse (c : Con) : Bool := c.allZero && !(if c.strict then decide (0 < c.k) else decide (0 ≤ c.k))

def dedup : List Con → List Con
  | [] => []
  | c :: cs => let r := dedup cs; if c ∈ r then r else c :: r

def falseRow : Con := { coeffs := [], k := -1, strict := false }

def tidy0 (cs : List Con) : List Con :=
  let ns := cs.map Con.normalize
  if ns.any Con.trivFalse then [falseRow]
  else dedup (ns.filter (fun c => !c.trivTrue))

/-- negation of a constraint: `¬(e ≥ 0)` is `-e > 0`, `¬(e > 0)` is `-e ≥ 0` -/
def Con.neg (c : Con) : Con :=
  { coeffs := c.coeffs.map (- ·), k := -c.k, strict := !c.strict }


/-- membership of a rational point (numerators / common positive denominator) -/
def Con.holdsAt (c : Con) (num : List Int) (den : Int) : Bool :=
  let v := (List.zipWith (· * ·) c.coeffs num).foldl (· + ·) 0 + c.k * den
  if c.strict then decide (0 < v) else decide (0 ≤ v)


end PPLV.Lin
