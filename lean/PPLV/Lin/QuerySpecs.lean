import PPLV.Lin.OpSpecs
import PPLV.Lin.Ops2

/-! # K1 theorems: the query oracles of `Ops.lean` / `Ops2.lean`

`is_bounded`, `constrains`, `relation_with(generator)`.  (`affine_dimension`: `QueryDim.lean`;
`relation_with(congruence)`: `QueryCong.lean`.) -/
namespace PPLV.Lin
open List

/-! ## `is_bounded` -/

theorem exists_uniform_bound (n : Nat) (P : Nat → Rat → Prop)
    (mono : ∀ i M M', P i M → M ≤ M' → P i M') (h : ∀ i < n, ∃ M, P i M) :
    ∃ M, ∀ i < n, P i M := by
  induction n with
  | zero => exact ⟨0, fun i hi => absurd hi (Nat.not_lt_zero i)⟩
  | succ n ih =>
    obtain ⟨M1, h1⟩ := ih fun i hi => h i (Nat.lt_succ_of_lt hi)
    obtain ⟨M2, h2⟩ := h n (Nat.lt_succ_self n)
    refine ⟨max M1 M2, fun i hi => ?_⟩
    rcases Nat.lt_succ_iff_lt_or_eq.mp hi with hlt | heq
    · exact mono i M1 _ (h1 i hlt) (le_max_left _ _)
    · subst heq; exact mono i M2 _ h2 (le_max_right _ _)

/-- on a non-empty set, `coordBounded i` says exactly that coordinate `i` is bounded -/
theorem coordBounded_iff (p : RefPoly) (hp : WF p.n p.cs) (i : Nat) (hi : i < p.n)
    (hne : ∃ x, x ∈ sem p.cs) :
    p.coordBounded i = true ↔ ∃ M : Rat, ∀ x ∈ sem p.cs, |x i| ≤ M := by
  have hlen : ∀ a : Int, (unitRow i a).length ≤ p.n := fun a => by rw [unitRow_length]; omega
  have h1 := supB_spec p.n (unitRow i 1) 0 p.cs hp (hlen 1)
  have h2 := supB_spec p.n (unitRow i (-1)) 0 p.cs hp (hlen (-1))
  obtain ⟨x0, hx0⟩ := hne
  have hnonempty : sem p.cs ≠ ∅ := fun h => by rw [h] at hx0; exact hx0
  unfold RefPoly.coordBounded
  rw [Bool.and_eq_true]
  constructor
  · rintro ⟨ha, hb⟩
    cases hs1 : supB p.n (unitRow i 1) 0 p.cs with
    | empty => rw [hs1] at h1; exact absurd h1 hnonempty
    | unbounded => rw [hs1] at ha; cases ha
    | val a b att =>
      cases hs2 : supB p.n (unitRow i (-1)) 0 p.cs with
      | empty => rw [hs2] at h2; exact absurd h2 hnonempty
      | unbounded => rw [hs2] at hb; cases hb
      | val c d att2 =>
        rw [hs1] at h1; rw [hs2] at h2
        obtain ⟨-, hup, -⟩ := h1
        obtain ⟨-, hlo, -⟩ := h2
        refine ⟨max ((a : Rat) / b) ((c : Rat) / d), fun x hx => ?_⟩
        have e1 := hup x hx
        have e2 := hlo x hx
        rw [dot_unitRow] at e1 e2
        push_cast at e1 e2
        rw [abs_le]
        constructor
        · have := le_max_right ((a : Rat) / b) ((c : Rat) / d); linarith
        · have := le_max_left ((a : Rat) / b) ((c : Rat) / d); linarith
  · rintro ⟨M, hM⟩
    constructor
    · cases hs1 : supB p.n (unitRow i 1) 0 p.cs with
      | unbounded =>
        rw [hs1] at h1
        obtain ⟨x, hx, hlt⟩ := h1.2 M
        rw [dot_unitRow] at hlt; push_cast at hlt
        have := (abs_le.mp (hM x hx)).2
        linarith
      | empty => rfl
      | val a b att => rfl
    · cases hs2 : supB p.n (unitRow i (-1)) 0 p.cs with
      | unbounded =>
        rw [hs2] at h2
        obtain ⟨x, hx, hlt⟩ := h2.2 M
        rw [dot_unitRow] at hlt; push_cast at hlt
        have := (abs_le.mp (hM x hx)).1
        linarith
      | empty => rfl
      | val a b att => rfl

/-- **`is_bounded()`**: the oracle answers `true` iff the set is empty or bounded (every
    coordinate `< n` stays within one common bound). -/
theorem isBounded_iff (p : RefPoly) (hp : WF p.n p.cs) :
    p.isBounded = true ↔ sem p.cs = ∅ ∨ ∃ M : Rat, ∀ x ∈ sem p.cs, ∀ i < p.n, |x i| ≤ M := by
  unfold RefPoly.isBounded
  rw [Bool.or_eq_true]
  have hE : p.isEmpty = true ↔ sem p.cs = ∅ := isEmptyB_iff p.n p.cs hp
  by_cases hempty : sem p.cs = ∅
  · exact ⟨fun _ => Or.inl hempty, fun _ => Or.inl (hE.mpr hempty)⟩
  · have hne : ∃ x, x ∈ sem p.cs := Set.nonempty_iff_ne_empty.mpr hempty
    simp only [List.all_eq_true, List.mem_range]
    constructor
    · rintro (h | h)
      · exact absurd (hE.mp h) hempty
      · right
        have := exists_uniform_bound p.n (fun i M => ∀ x ∈ sem p.cs, |x i| ≤ M)
          (fun i M M' hP hle x hx => le_trans (hP x hx) hle)
          (fun i hi => (coordBounded_iff p hp i hi hne).mp (h i hi))
        obtain ⟨M, hM⟩ := this
        exact ⟨M, fun x hx i hi => hM i hi x hx⟩
    · rintro (h | ⟨M, hM⟩)
      · exact absurd h hempty
      · right
        intro i hi
        exact (coordBounded_iff p hp i hi hne).mpr ⟨M, fun x hx => hM x hx i hi⟩

/-! ## `constrains` -/

theorem sem_subset_unconstrain (p : RefPoly) (vs : List Nat) (hp : WF p.n p.cs) :
    sem p.cs ⊆ sem (p.unconstrain vs).cs := fun x hx =>
  (unconstrain_spec p vs hp x).mpr ⟨x, hx, fun _ _ _ => rfl⟩

/-- **`constrains(v)`**: `true` iff the set is empty or cylindrification along `v` changes it. -/
theorem constrains_iff (p : RefPoly) (v : Nat) (hp : WF p.n p.cs) :
    p.constrains v = true ↔ sem p.cs = ∅ ∨ sem (p.unconstrain [v]).cs ≠ sem p.cs := by
  have hwfU : WF p.n (p.unconstrain [v]).cs := relImage_wf p.n p _
  unfold RefPoly.constrains
  rw [Bool.or_eq_true, Bool.not_eq_true', ← Bool.not_eq_true,
    subsetB_iff p.n (p.unconstrain [v]).cs p.cs hwfU hp]
  have hE : p.isEmpty = true ↔ sem p.cs = ∅ := isEmptyB_iff p.n p.cs hp
  rw [hE]
  refine or_congr Iff.rfl (not_congr ?_)
  exact ⟨fun h => Set.Subset.antisymm h (sem_subset_unconstrain p [v] hp), fun h => h ▸ subset_rfl⟩

/-- the same, pointwise: some point of the set leaves it when coordinate `v` is changed -/
theorem constrains_iff_update (p : RefPoly) (v : Nat) (hp : WF p.n p.cs) :
    p.constrains v = true ↔
      sem p.cs = ∅ ∨ ∃ x ∈ sem p.cs, ∃ t : Rat, x.update v t ∉ sem p.cs := by
  rw [constrains_iff p v hp]
  refine or_congr Iff.rfl ?_
  constructor
  · intro hne
    by_contra hall
    apply hne
    refine Set.Subset.antisymm (fun w hw => ?_) (sem_subset_unconstrain p [v] hp)
    obtain ⟨x, hx, hag⟩ := (unconstrain_spec p [v] hp w).mp hw
    by_contra hw'
    apply hall
    refine ⟨x, hx, w v, fun hmem => hw' ?_⟩
    refine sem_cylinder p.n p.cs hp w _ hmem fun i hi => ?_
    by_cases hiv : i = v
    · subst hiv; simp [Val.update]
    · simp only [Val.update, hiv, if_false]
      exact (hag i hi (by simpa using hiv)).symm
  · rintro ⟨x, hx, t, hout⟩ heq
    apply hout
    rw [← heq]
    refine (unconstrain_spec p [v] hp _).mpr ⟨x, hx, fun j _ hj => ?_⟩
    have : j ≠ v := by simpa using hj
    simp [Val.update, this]

/-! ## `relation_with(generator)` -/

/-- the direction denoted by a ray / line: integer coordinates, `0` beyond the list -/
def dirVec (dir : List Int) : Val := fun i => ((dir.getD i 0 : Int) : Rat)

/-- `x + t·dir` -/
def Val.move (x : Val) (t : Rat) (dir : List Int) : Val := fun i => x i + t * dirVec dir i

theorem ratPoint_one (dir : List Int) : ratPoint dir 1 = dirVec dir := by
  funext i; simp [ratPoint, dirVec]

theorem eval_move (c : Con) (x : Val) (t : Rat) (dir : List Int) :
    c.eval (x.move t dir) = c.eval x + t * dot c.coeffs (dirVec dir) := by
  have := eval_lin c c.coeffs.length (le_refl _) 1 t x (dirVec dir) (x.move t dir)
    (fun i _ => by simp [Val.move])
  rw [this]; ring

theorem hasRay_iff_dots (p : RefPoly) (dir : List Int) :
    p.hasRay dir = true ↔ ∀ c ∈ p.cs, 0 ≤ dot c.coeffs (dirVec dir) := by
  unfold RefPoly.hasRay relax
  rw [List.all_map, List.all_eq_true]
  refine forall_congr' fun c => imp_congr_right fun _ => ?_
  simp only [Function.comp]
  rw [holdsAt_iff _ dir 1 Int.one_pos, ratPoint_one]
  simp [Con.sat, Con.eval]

/-- **rays**: `hasRay dir` says that the non-empty set is closed under translation by every
    non-negative multiple of `dir` (strict rows included: the recession cone of a non-empty NNC
    polyhedron is that of its closure). -/
theorem hasRay_iff (p : RefPoly) (dir : List Int) (hne : ∃ x, x ∈ sem p.cs) :
    p.hasRay dir = true ↔ ∀ x ∈ sem p.cs, ∀ t : Rat, 0 ≤ t → x.move t dir ∈ sem p.cs := by
  rw [hasRay_iff_dots]
  constructor
  · intro h x hx t ht c hc
    have h1 := hx c hc
    have h2 : 0 ≤ t * dot c.coeffs (dirVec dir) := mul_nonneg ht (h c hc)
    unfold Con.sat at h1 ⊢
    rw [eval_move]
    split at h1 <;> rename_i hs <;> simp only [hs, if_true, Bool.false_eq_true, if_false] <;> linarith
  · intro h c hc
    obtain ⟨x0, hx0⟩ := hne
    refine ray_argument (c.eval x0) _ fun t ht => ?_
    have := sat_nonneg c _ (h x0 hx0 t ht c hc)
    rwa [eval_move] at this

theorem dirVec_neg (dir : List Int) (i : Nat) : dirVec (dir.map (- ·)) i = - dirVec dir i := by
  unfold dirVec
  by_cases h : i < dir.length
  · simp [List.getD_eq_getElem?_getD, h]
  · simp [List.getD_eq_getElem?_getD, List.getElem?_eq_none (Nat.le_of_not_lt h)]

theorem move_neg (x : Val) (t : Rat) (dir : List Int) :
    x.move t (dir.map (- ·)) = x.move (-t) dir := by
  funext i; simp only [Val.move, dirVec_neg]; ring

/-- **lines**: both directions belong to the recession cone iff the set is closed under every
    translation along `dir` -/
theorem hasLine_iff (p : RefPoly) (dir : List Int) (hne : ∃ x, x ∈ sem p.cs) :
    (p.hasRay dir && p.hasRay (dir.map (- ·))) = true ↔
      ∀ x ∈ sem p.cs, ∀ t : Rat, x.move t dir ∈ sem p.cs := by
  rw [Bool.and_eq_true, hasRay_iff p dir hne, hasRay_iff p _ hne]
  constructor
  · rintro ⟨h1, h2⟩ x hx t
    rcases le_total 0 t with ht | ht
    · exact h1 x hx t ht
    · have := h2 x hx (-t) (by linarith)
      rwa [move_neg, neg_neg] at this
  · intro h
    exact ⟨fun x hx t _ => h x hx t, fun x hx t _ => by rw [move_neg]; exact h x hx (-t)⟩

/-- the point `s·x + (1−s)·y` of the segment from `y` to `x` -/
def Val.seg (s : Rat) (x y : Val) : Val := fun i => s * x i + (1 - s) * y i

theorem eval_seg (c : Con) (s : Rat) (x y : Val) :
    c.eval (Val.seg s x y) = s * c.eval x + (1 - s) * c.eval y := by
  have := eval_lin c c.coeffs.length (le_refl _) s (1 - s) x y (Val.seg s x y) (fun i _ => rfl)
  rw [this]; unfold Con.eval; ring

theorem limit_argument (E0 Ey : Rat) (h : ∀ s : Rat, 0 < s → s ≤ 1 → 0 ≤ s * E0 + (1 - s) * Ey) :
    0 ≤ Ey := by
  by_contra hn
  have hneg : Ey < 0 := not_le.mp hn
  have hE0 : 0 ≤ E0 := by have := h 1 one_pos (le_refl _); linarith
  have hden : 0 < E0 - Ey := by linarith
  have hspos : 0 < (-Ey) / (2 * (E0 - Ey)) := div_pos (by linarith) (by linarith)
  have hsle : (-Ey) / (2 * (E0 - Ey)) ≤ 1 := by
    rw [div_le_one (by linarith)]; linarith
  have := h _ hspos hsle
  have hs2 : (-Ey) / (2 * (E0 - Ey)) * (E0 - Ey) = -Ey / 2 := by field_simp
  nlinarith

theorem sat_relax_iff (c : Con) (y : Val) : ({ c with strict := false } : Con).sat y ↔ 0 ≤ c.eval y := by
  simp [Con.sat, Con.eval]

theorem mem_relax_iff (cs : List Con) (y : Val) : y ∈ sem (relax cs) ↔ ∀ c ∈ cs, 0 ≤ c.eval y := by
  show Sat (relax cs) y ↔ _
  unfold Sat relax
  simp only [List.mem_map, forall_exists_index, and_imp, forall_apply_eq_imp_iff₂]
  exact forall_congr' fun c => imp_congr_right fun _ => sat_relax_iff c y

/-- **closure points**: `y` belongs to the closure `sem (relax cs)` of a non-empty set iff every
    half-open segment from a point of the set towards `y` stays inside the set -/
theorem mem_relax_iff_segment (cs : List Con) (y : Val) (hne : ∃ x, x ∈ sem cs) :
    y ∈ sem (relax cs) ↔
      ∀ x ∈ sem cs, ∀ s : Rat, 0 < s → s ≤ 1 → Val.seg s x y ∈ sem cs := by
  rw [mem_relax_iff]
  constructor
  · intro h x hx s hs hs1 c hc
    have h1 := hx c hc
    have h2 := h c hc
    have h3 : 0 ≤ (1 - s) * c.eval y := mul_nonneg (by linarith) h2
    unfold Con.sat at h1 ⊢
    rw [eval_seg]
    split at h1 <;> rename_i hst <;> simp only [hst, if_true, Bool.false_eq_true, if_false]
    · have := mul_pos hs h1; linarith
    · have := mul_nonneg (le_of_lt hs) h1; linarith
  · intro h c hc
    obtain ⟨x0, hx0⟩ := hne
    refine limit_argument (c.eval x0) (c.eval y) fun s hs hs1 => ?_
    have := sat_nonneg c _ (h x0 hx0 s hs hs1 c hc)
    rwa [eval_seg] at this

/-- **`relation_with(g)`**: the generator is subsumed iff the set is non-empty and: a point
    belongs to it; a closure point is the limit of a half-open segment inside it (i.e. belongs
    to its topological closure); a ray / line direction translates the set into itself. -/
theorem subsumes_spec (p : RefPoly) (g : Gen) (hp : WF p.n p.cs) (hd : 0 < g.div) :
    p.subsumes g = true ↔ (∃ x, x ∈ sem p.cs) ∧
      match g.kind with
      | .point => ratPoint g.coords g.div ∈ sem p.cs
      | .cpoint => ∀ x ∈ sem p.cs, ∀ s : Rat, 0 < s → s ≤ 1 →
          Val.seg s x (ratPoint g.coords g.div) ∈ sem p.cs
      | .ray => ∀ x ∈ sem p.cs, ∀ t : Rat, 0 ≤ t → x.move t g.coords ∈ sem p.cs
      | .line => ∀ x ∈ sem p.cs, ∀ t : Rat, x.move t g.coords ∈ sem p.cs := by
  unfold RefPoly.subsumes
  rw [Bool.and_eq_true, Bool.not_eq_true', ← Bool.not_eq_true]
  have hE : p.isEmpty = true ↔ sem p.cs = ∅ := isEmptyB_iff p.n p.cs hp
  have hne_iff : ¬ sem p.cs = ∅ ↔ ∃ x, x ∈ sem p.cs := Set.nonempty_iff_ne_empty.symm
  rw [hE, hne_iff]
  refine and_congr_right fun hne => ?_
  rcases hk : g.kind <;> simp only
  · exact hasLine_iff p g.coords hne
  · exact hasRay_iff p g.coords hne
  · exact hasPoint_iff p g.coords g.div hd
  · rw [hasPoint_iff _ g.coords g.div hd]
    exact mem_relax_iff_segment p.cs _ hne

end PPLV.Lin
