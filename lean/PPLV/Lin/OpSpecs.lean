import PPLV.Lin.OpsProofs
import PPLV.Lin.GenSem
import PPLV.Lin.GenSpecs
import PPLV.Lin.Sup

/-! # K1 theorems: every reference operator of `Ops.lean` is the documented relation

Part A: constraint-side operators through `relImage_spec`; part B: generator-side operators
through `GenSem`.  The property statements themselves are in `PPLV/Props/C02.lean`. -/
namespace PPLV.Lin
open List

/-! ## Part A — relational operators -/

/-- value of a linear expression -/
def LinExpr.val (e : LinExpr) (x : Val) : Rat := dot e.coeffs x + (e.k : Rat)

/-- meaning of a relation symbol -/
def Rel.holds : Rel → Rat → Rat → Prop
  | .lt, a, b => a < b
  | .le, a, b => a ≤ b
  | .eq, a, b => a = b
  | .ge, a, b => b ≤ a
  | .gt, a, b => b < a

/-- the valuation `(w_0..w_{n-1}, x_0, x_1, …)` of the product space used by `relImage` -/
def glue (n : Nat) (w x : Val) : Val := fun j => if j < n then w j else x (j - n)

theorem glue_hi (n : Nat) (w x : Val) : (fun j => glue n w x (j + n)) = x := by
  funext j; simp [glue]

theorem glue_lo (n : Nat) (w x : Val) (j : Nat) (h : j < n) : glue n w x j = w j := by
  simp [glue, h]

/-- `relImage` with the witness split into image point and source point -/
theorem relImage_spec' (nOut : Nat) (p : RefPoly) (rel : List Con) (hrel : WF (nOut + p.n) rel)
    (hp : WF p.n p.cs) (w : Val) :
    Sat (relImage nOut p rel).cs w ↔ ∃ x, Sat p.cs x ∧ Sat rel (glue nOut w x) := by
  rw [relImage_spec nOut p rel hrel hp]
  constructor
  · rintro ⟨x', h0, hr, hx⟩
    refine ⟨fun j => x' (j + nOut), hx, ?_⟩
    have : glue nOut w (fun j => x' (j + nOut)) = x' := by
      funext j
      by_cases h : j < nOut
      · simp [glue, h, h0 j h]
      · simp only [glue, h, if_false]; congr 1; omega
    rwa [this]
  · rintro ⟨x, hx, hr⟩
    exact ⟨glue nOut w x, fun j hj => glue_lo nOut w x j hj, hr, by rw [glue_hi]; exact hx⟩

theorem Sat_singleton (c : Con) (y : Val) : Sat [c] y ↔ c.sat y := by
  unfold Sat; simp

theorem WF_append (N : Nat) (as bs : List Con) (h1 : WF N as) (h2 : WF N bs) : WF N (as ++ bs) := by
  intro c hc
  rcases List.mem_append.mp hc with h | h
  · exact h1 c h
  · exact h2 c h

theorem WF_eqRows (N : Nat) (cf : List Int) (k : Int) (h : cf.length ≤ N) : WF N (eqRows cf k) := by
  intro c hc
  simp only [eqRows, List.mem_cons, List.not_mem_nil, or_false] at hc
  rcases hc with rfl | rfl <;> simpa using h

theorem WF_relRows (N : Nat) (r : Rel) (cf : List Int) (k : Int) (h : cf.length ≤ N) :
    WF N (relRows r cf k) := by
  cases r
  all_goals first
    | exact WF_eqRows N cf k h
    | (intro c hc
       simp only [relRows, geRow, gtRow, List.mem_cons, List.not_mem_nil, or_false] at hc
       subst hc; simpa using h)

theorem padTo_length (n : Nat) (l : List Int) : (padTo n l).length = n := by
  simp [padTo]; omega

theorem dot_padTo (n : Nat) (l : List Int) (w : Val) (h : l.length ≤ n) :
    dot (padTo n l) w = dot l w := by
  unfold padTo
  rw [List.take_of_length_le h, dot_append, dot_replicate_zero]; simp

theorem lowHigh_length (n : Nat) (low high : List Int) :
    (lowHigh n low high).length = n + high.length := by
  simp [lowHigh, padTo_length]

theorem dot_lowHigh_glue (n : Nat) (low high : List Int) (w x : Val) (h : low.length ≤ n) :
    dot (lowHigh n low high) (glue n w x) = dot low w + dot high x := by
  unfold lowHigh
  rw [dot_append, padTo_length, glue_hi, dot_padTo n low _ h]
  congr 1
  exact dot_agree low _ _ fun i hi => glue_lo n w x i (by omega)

theorem Sat_relRows (r : Rel) (cf : List Int) (k : Int) (y : Val) :
    Sat (relRows r cf k) y ↔ Rel.holds r (dot cf y + (k : Rat)) 0 := by
  cases r <;> simp only [relRows, Rel.holds, Sat_singleton, Sat_eqRows, geRow, gtRow, Con.sat,
    Con.eval, dot_map_neg, if_true, Bool.false_eq_true, if_false]
  all_goals (push_cast; constructor <;> intro h <;> linarith)

theorem Sat_eqRows_lowHigh (n : Nat) (low high : List Int) (k : Int) (w x : Val)
    (h : low.length ≤ n) :
    Sat (eqRows (lowHigh n low high) k) (glue n w x) ↔ dot low w + dot high x + (k : Rat) = 0 := by
  rw [Sat_eqRows, dot_lowHigh_glue n low high w x h]

theorem Sat_relRows_lowHigh (n : Nat) (r : Rel) (low high : List Int) (k : Int) (w x : Val)
    (h : low.length ≤ n) :
    Sat (relRows r (lowHigh n low high) k) (glue n w x) ↔
      Rel.holds r (dot low w + dot high x + (k : Rat)) 0 := by
  rw [Sat_relRows, dot_lowHigh_glue n low high w x h]

theorem unitRow_length (i : Nat) (a : Int) : (unitRow i a).length = i + 1 := by simp [unitRow]

theorem Sat_frameRows (n : Nat) (js : List Nat) (w x : Val) (h : ∀ j ∈ js, j < n) :
    Sat (frameRows n js) (glue n w x) ↔ ∀ j ∈ js, w j = x j := by
  unfold frameRows
  rw [Sat_flatMap]
  refine forall_congr' fun j => imp_congr_right fun hj => ?_
  rw [Sat_eqRows_lowHigh n _ _ _ w x (by rw [unitRow_length]; exact h j hj), dot_unitRow, dot_unitRow]
  push_cast
  constructor <;> intro h <;> linarith

theorem WF_frameRows (n m : Nat) (js : List Nat) (h : ∀ j ∈ js, j < m) :
    WF (n + m) (frameRows n js) := by
  intro c hc
  unfold frameRows at hc
  obtain ⟨j, hj, hc⟩ := List.mem_flatMap.mp hc
  refine WF_eqRows (n + m) _ 0 ?_ c hc
  rw [lowHigh_length, unitRow_length]; have := h j hj; omega

theorem mem_otherVars (n : Nat) (vs : List Nat) (j : Nat) : j ∈ otherVars n vs ↔ j < n ∧ j ∉ vs := by
  simp [otherVars, List.mem_filter]

/-- relational image whose relation is `main` plus "all variables outside `vs` unchanged" -/
theorem relImage_frame_spec (p : RefPoly) (main : List Con) (vs : List Nat) (hp : WF p.n p.cs)
    (hmain : WF (p.n + p.n) main) (w : Val) :
    Sat (relImage p.n p (main ++ frameRows p.n (otherVars p.n vs))).cs w ↔
      ∃ x, Sat p.cs x ∧ Sat main (glue p.n w x) ∧ ∀ j < p.n, j ∉ vs → w j = x j := by
  have hlt : ∀ j ∈ otherVars p.n vs, j < p.n := fun j hj => ((mem_otherVars _ _ _).mp hj).1
  rw [relImage_spec' p.n p _ (WF_append _ _ _ hmain (WF_frameRows p.n p.n _ hlt)) hp]
  refine exists_congr fun x => and_congr_right fun _ => ?_
  rw [Sat_append, Sat_frameRows p.n _ w x hlt]
  refine and_congr_right fun _ => ?_
  simp only [mem_otherVars]
  exact ⟨fun h j hj hv => h j ⟨hj, hv⟩, fun h j hj => h j hj.1 hj.2⟩

theorem not_mem_singleton_iff (j v : Nat) : j ∉ [v] ↔ j ≠ v := by simp

/-- dividing by `d ≠ 0` turns `d·a ⋈' b` into `a ⋈ b/d`, `⋈'` flipped when `d < 0` -/
theorem Rel.holds_div (r : Rel) (d : Int) (a b : Rat) (hd : d ≠ 0) :
    Rel.holds (if d < 0 then r.flip else r) ((d : Rat) * a - b) 0 ↔ Rel.holds r a (b / (d : Rat)) := by
  have hd' : (d : Rat) ≠ 0 := by exact_mod_cast hd
  obtain ⟨q, hq⟩ : ∃ q, b = (d : Rat) * q := ⟨b / d, by field_simp⟩
  have hq' : b / (d : Rat) = q := by rw [hq]; field_simp
  rw [hq', hq]
  rcases lt_or_gt_of_ne hd with hneg | hpos
  · have hr : (d : Rat) < 0 := by exact_mod_cast hneg
    rw [if_pos hneg]
    cases r <;> simp only [Rel.flip, Rel.holds] <;> constructor <;> intro h <;> nlinarith
  · have hr : (0 : Rat) < (d : Rat) := by exact_mod_cast hpos
    rw [if_neg (by omega)]
    cases r <;> simp only [Rel.holds] <;> constructor <;> intro h <;> nlinarith

theorem Rel.holds_sub (r : Rel) (a b : Rat) : Rel.holds r (a - b) 0 ↔ Rel.holds r a b := by
  cases r <;> simp only [Rel.holds] <;> constructor <;> intro h <;> linarith

/-! ### the operators -/

theorem sem_append (as bs : List Con) : sem (as ++ bs) = sem as ∩ sem bs := by
  ext x; exact Sat_append as bs x

theorem affineImage_spec (p : RefPoly) (v : Nat) (e : LinExpr) (d : Int) (hp : WF p.n p.cs)
    (hv : v < p.n) (he : e.coeffs.length ≤ p.n) (w : Val) :
    Sat (p.affineImage v e d).cs w ↔
      ∃ x, Sat p.cs x ∧ (d : Rat) * w v = e.val x ∧ ∀ j < p.n, j ≠ v → w j = x j := by
  unfold RefPoly.affineImage
  rw [relImage_frame_spec p _ [v] hp (WF_eqRows _ _ _ (by rw [lowHigh_length]; simp; omega))]
  refine exists_congr fun x => and_congr_right fun _ =>
    and_congr ?_ (by simp only [not_mem_singleton_iff])
  rw [Sat_eqRows_lowHigh _ _ _ _ _ _ (by rw [unitRow_length]; omega), dot_unitRow, dot_map_neg]
  unfold LinExpr.val; push_cast
  constructor <;> intro h <;> linarith

theorem affinePreimage_spec (p : RefPoly) (v : Nat) (e : LinExpr) (d : Int) (hp : WF p.n p.cs)
    (hv : v < p.n) (he : e.coeffs.length ≤ p.n) (w : Val) :
    Sat (p.affinePreimage v e d).cs w ↔
      ∃ x', Sat p.cs x' ∧ (d : Rat) * x' v = e.val w ∧ ∀ j < p.n, j ≠ v → x' j = w j := by
  unfold RefPoly.affinePreimage
  rw [relImage_frame_spec p _ [v] hp
    (WF_eqRows _ _ _ (by rw [lowHigh_length, unitRow_length]; omega))]
  refine exists_congr fun x => and_congr_right fun _ =>
    and_congr ?_ (by simp only [not_mem_singleton_iff, eq_comm])
  rw [Sat_eqRows_lowHigh _ _ _ _ _ _ (by simpa using he), dot_unitRow, dot_map_neg]
  unfold LinExpr.val; push_cast
  constructor <;> intro h <;> linarith

theorem genAffineImage_spec (p : RefPoly) (v : Nat) (r : Rel) (e : LinExpr) (d : Int)
    (hp : WF p.n p.cs) (hv : v < p.n) (he : e.coeffs.length ≤ p.n) (hd : d ≠ 0) (w : Val) :
    Sat (p.genAffineImage v r e d).cs w ↔
      ∃ x, Sat p.cs x ∧ Rel.holds r (w v) (e.val x / (d : Rat)) ∧ ∀ j < p.n, j ≠ v → w j = x j := by
  unfold RefPoly.genAffineImage
  dsimp only
  rw [relImage_frame_spec p _ [v] hp (WF_relRows _ _ _ _ (by rw [lowHigh_length]; simp; omega))]
  refine exists_congr fun x => and_congr_right fun _ =>
    and_congr ?_ (by simp only [not_mem_singleton_iff])
  rw [Sat_relRows_lowHigh _ _ _ _ _ _ _ (by rw [unitRow_length]; omega), dot_unitRow, dot_map_neg,
    ← Rel.holds_div r d _ _ hd]
  have : (d : Rat) * w v + -dot e.coeffs x + ((-e.k : Int) : Rat) = (d : Rat) * w v - e.val x := by
    unfold LinExpr.val; push_cast; ring
  rw [this]

theorem genAffinePreimage_spec (p : RefPoly) (v : Nat) (r : Rel) (e : LinExpr) (d : Int)
    (hp : WF p.n p.cs) (hv : v < p.n) (he : e.coeffs.length ≤ p.n) (hd : d ≠ 0) (w : Val) :
    Sat (p.genAffinePreimage v r e d).cs w ↔
      ∃ x', Sat p.cs x' ∧ Rel.holds r (x' v) (e.val w / (d : Rat)) ∧
        ∀ j < p.n, j ≠ v → x' j = w j := by
  unfold RefPoly.genAffinePreimage
  dsimp only
  rw [relImage_frame_spec p _ [v] hp
    (WF_relRows _ _ _ _ (by rw [lowHigh_length, unitRow_length]; omega))]
  refine exists_congr fun x => and_congr_right fun _ =>
    and_congr ?_ (by simp only [not_mem_singleton_iff, eq_comm])
  rw [Sat_relRows_lowHigh _ _ _ _ _ _ _ (by simpa using he), dot_unitRow, dot_map_neg,
    ← Rel.holds_div r d _ _ hd]
  have : -dot e.coeffs w + (d : Rat) * x v + ((-e.k : Int) : Rat) = (d : Rat) * x v - e.val w := by
    unfold LinExpr.val; push_cast; ring
  rw [this]

theorem getD_of_le (l : List Int) (j : Nat) (h : l.length ≤ j) : l.getD j 0 = 0 := by
  simp [List.getD_eq_getElem?_getD, List.getElem?_eq_none h]

theorem not_mem_vars (e : LinExpr) (j : Nat) : j ∉ e.vars ↔ e.coeffs.getD j 0 = 0 := by
  unfold LinExpr.vars
  simp only [List.mem_filter, List.mem_range, bne_iff_ne, ne_eq, not_and, not_not]
  constructor
  · intro h
    by_cases hj : j < e.coeffs.length
    · exact h hj
    · exact getD_of_le _ _ (by omega)
  · intro h _; exact h

theorem genAffineImage2_spec (p : RefPoly) (lhs : LinExpr) (r : Rel) (rhs : LinExpr)
    (hp : WF p.n p.cs) (hl : lhs.coeffs.length ≤ p.n) (hr : rhs.coeffs.length ≤ p.n) (w : Val) :
    Sat (p.genAffineImage2 lhs r rhs).cs w ↔
      ∃ x, Sat p.cs x ∧ Rel.holds r (lhs.val w) (rhs.val x) ∧
        ∀ j < p.n, lhs.coeffs.getD j 0 = 0 → w j = x j := by
  unfold RefPoly.genAffineImage2
  rw [relImage_frame_spec p _ _ hp (WF_relRows _ _ _ _ (by rw [lowHigh_length]; simp; omega))]
  refine exists_congr fun x => and_congr_right fun _ =>
    and_congr ?_ (by simp only [not_mem_vars])
  have : dot lhs.coeffs w + -dot rhs.coeffs x + ((lhs.k - rhs.k : Int) : Rat)
      = lhs.val w - rhs.val x := by
    unfold LinExpr.val; push_cast; ring
  rw [Sat_relRows_lowHigh _ _ _ _ _ _ _ hl, dot_map_neg, this, Rel.holds_sub]

theorem genAffinePreimage2_spec (p : RefPoly) (lhs : LinExpr) (r : Rel) (rhs : LinExpr)
    (hp : WF p.n p.cs) (hl : lhs.coeffs.length ≤ p.n) (hr : rhs.coeffs.length ≤ p.n) (w : Val) :
    Sat (p.genAffinePreimage2 lhs r rhs).cs w ↔
      ∃ x', Sat p.cs x' ∧ Rel.holds r (lhs.val x') (rhs.val w) ∧
        ∀ j < p.n, lhs.coeffs.getD j 0 = 0 → x' j = w j := by
  unfold RefPoly.genAffinePreimage2
  rw [relImage_frame_spec p _ _ hp (WF_relRows _ _ _ _ (by rw [lowHigh_length]; omega))]
  refine exists_congr fun x => and_congr_right fun _ =>
    and_congr ?_ (by simp only [not_mem_vars, eq_comm])
  have : -dot rhs.coeffs w + dot lhs.coeffs x + ((lhs.k - rhs.k : Int) : Rat)
      = lhs.val x - rhs.val w := by
    unfold LinExpr.val; push_cast; ring
  rw [Sat_relRows_lowHigh _ _ _ _ _ _ _ (by simpa using hr), dot_map_neg, this, Rel.holds_sub]

theorem ite_le_ge (d : Int) : (if d < 0 then Rel.le else Rel.ge) = (if d < 0 then Rel.ge.flip else Rel.ge) := by
  split <;> rfl

theorem ite_ge_le (d : Int) : (if d < 0 then Rel.ge else Rel.le) = (if d < 0 then Rel.le.flip else Rel.le) := by
  split <;> rfl

theorem boundedAffineImage_spec (p : RefPoly) (v : Nat) (lb ub : LinExpr) (d : Int)
    (hp : WF p.n p.cs) (hv : v < p.n) (hl : lb.coeffs.length ≤ p.n) (hu : ub.coeffs.length ≤ p.n)
    (hd : d ≠ 0) (w : Val) :
    Sat (p.boundedAffineImage v lb ub d).cs w ↔
      ∃ x, Sat p.cs x ∧ (lb.val x / (d : Rat) ≤ w v ∧ w v ≤ ub.val x / (d : Rat)) ∧
        ∀ j < p.n, j ≠ v → w j = x j := by
  unfold RefPoly.boundedAffineImage
  dsimp only
  rw [relImage_frame_spec p _ [v] hp (WF_append _ _ _
    (WF_relRows _ _ _ _ (by rw [lowHigh_length]; simp; omega))
    (WF_relRows _ _ _ _ (by rw [lowHigh_length]; simp; omega)))]
  refine exists_congr fun x => and_congr_right fun _ =>
    and_congr ?_ (by simp only [not_mem_singleton_iff])
  have hlen : (unitRow v d).length ≤ p.n := by rw [unitRow_length]; omega
  rw [Sat_append, Sat_relRows_lowHigh _ _ _ _ _ _ _ hlen, Sat_relRows_lowHigh _ _ _ _ _ _ _ hlen,
    dot_unitRow, dot_map_neg, dot_map_neg, ite_le_ge, ite_ge_le]
  have h1 : (d : Rat) * w v + -dot lb.coeffs x + ((-lb.k : Int) : Rat) = (d : Rat) * w v - lb.val x := by
    unfold LinExpr.val; push_cast; ring
  have h2 : (d : Rat) * w v + -dot ub.coeffs x + ((-ub.k : Int) : Rat) = (d : Rat) * w v - ub.val x := by
    unfold LinExpr.val; push_cast; ring
  rw [h1, h2, Rel.holds_div _ d _ _ hd, Rel.holds_div _ d _ _ hd]
  exact Iff.rfl

theorem boundedAffinePreimage_spec (p : RefPoly) (v : Nat) (lb ub : LinExpr) (d : Int)
    (hp : WF p.n p.cs) (hv : v < p.n) (hl : lb.coeffs.length ≤ p.n) (hu : ub.coeffs.length ≤ p.n)
    (hd : d ≠ 0) (w : Val) :
    Sat (p.boundedAffinePreimage v lb ub d).cs w ↔
      ∃ x', Sat p.cs x' ∧ (lb.val w / (d : Rat) ≤ x' v ∧ x' v ≤ ub.val w / (d : Rat)) ∧
        ∀ j < p.n, j ≠ v → x' j = w j := by
  unfold RefPoly.boundedAffinePreimage
  dsimp only
  rw [relImage_frame_spec p _ [v] hp (WF_append _ _ _
    (WF_relRows _ _ _ _ (by rw [lowHigh_length, unitRow_length]; omega))
    (WF_relRows _ _ _ _ (by rw [lowHigh_length, unitRow_length]; omega)))]
  refine exists_congr fun x => and_congr_right fun _ =>
    and_congr ?_ (by simp only [not_mem_singleton_iff, eq_comm])
  rw [Sat_append, Sat_relRows_lowHigh _ _ _ _ _ _ _ (by simpa using hl),
    Sat_relRows_lowHigh _ _ _ _ _ _ _ (by simpa using hu),
    dot_unitRow, dot_map_neg, dot_map_neg, ite_le_ge, ite_ge_le]
  have h1 : -dot lb.coeffs w + (d : Rat) * x v + ((-lb.k : Int) : Rat) = (d : Rat) * x v - lb.val w := by
    unfold LinExpr.val; push_cast; ring
  have h2 : -dot ub.coeffs w + (d : Rat) * x v + ((-ub.k : Int) : Rat) = (d : Rat) * x v - ub.val w := by
    unfold LinExpr.val; push_cast; ring
  rw [h1, h2, Rel.holds_div _ d _ _ hd, Rel.holds_div _ d _ _ hd]
  exact Iff.rfl

theorem unconstrain_spec (p : RefPoly) (vs : List Nat) (hp : WF p.n p.cs) (w : Val) :
    Sat (p.unconstrain vs).cs w ↔ ∃ x, Sat p.cs x ∧ ∀ j < p.n, j ∉ vs → w j = x j := by
  have := relImage_frame_spec p [] vs hp (by intro c hc; cases hc) w
  rw [List.nil_append] at this
  unfold RefPoly.unconstrain
  rw [this]
  refine exists_congr fun x => and_congr_right fun _ => ?_
  exact ⟨fun h => h.2, fun h => ⟨fun c hc => (by cases hc), h⟩⟩

/-! ### dimensions -/

theorem addDimsProject_spec (p : RefPoly) (m : Nat) (w : Val) :
    Sat (p.addDimsProject m).cs w ↔ Sat p.cs w ∧ ∀ j, p.n ≤ j → j < p.n + m → w j = 0 := by
  unfold RefPoly.addDimsProject
  simp only [Sat_append, Sat_flatMap, Sat_eqRows, dot_unitRow, List.mem_range]
  refine and_congr_right fun _ => ?_
  constructor
  · intro h j h1 h2
    have := h (j - p.n) (by omega)
    rw [show p.n + (j - p.n) = j by omega] at this
    simpa using this
  · intro h j hj
    simpa using h (p.n + j) (by omega) (by omega)

theorem concat_spec (p q : RefPoly) (w : Val) :
    Sat (p.concat q).cs w ↔ Sat p.cs w ∧ Sat q.cs (fun j => w (j + p.n)) := by
  unfold RefPoly.concat
  simp only [Sat_append, Sat_map_shift]

theorem mapDims_spec (p : RefPoly) (nOut : Nat) (f : List (Nat × Nat)) (hp : WF p.n p.cs)
    (hf : ∀ jf ∈ f, jf.1 < p.n ∧ jf.2 < nOut) (w : Val) :
    Sat (p.mapDims nOut f).cs w ↔ ∃ x, Sat p.cs x ∧ ∀ jf ∈ f, w jf.2 = x jf.1 := by
  unfold RefPoly.mapDims
  have hwf : WF (nOut + p.n)
      (f.flatMap fun (j, fj) => eqRows (lowHigh nOut (unitRow fj 1) (unitRow j (-1))) 0) := by
    intro c hc
    obtain ⟨⟨j, fj⟩, hjf, hc⟩ := List.mem_flatMap.mp hc
    refine WF_eqRows _ _ 0 ?_ c hc
    rw [lowHigh_length, unitRow_length]; have := (hf _ hjf).1; simp only at this; omega
  rw [relImage_spec' nOut p _ hwf hp]
  refine exists_congr fun x => and_congr_right fun _ => ?_
  rw [Sat_flatMap]
  refine forall_congr' fun ⟨j, fj⟩ => imp_congr_right fun hjf => ?_
  have h2 := (hf _ hjf).2
  simp only at h2 ⊢
  rw [Sat_eqRows_lowHigh nOut _ _ _ w x (by rw [unitRow_length]; omega), dot_unitRow, dot_unitRow]
  push_cast
  constructor <;> intro h <;> linarith


theorem removeDims_spec (p : RefPoly) (vs : List Nat) (hp : WF p.n p.cs) (w : Val) :
    Sat (p.removeDims vs).cs w ↔
      ∃ x, Sat p.cs x ∧
        ∀ (idx : Nat) (h : idx < (otherVars p.n vs).length), w idx = x ((otherVars p.n vs)[idx]) := by
  unfold RefPoly.removeDims
  dsimp only
  have hid : ((otherVars p.n vs).zipIdx.map fun (j, idx) => (j, idx)) = (otherVars p.n vs).zipIdx := by
    rw [show (fun (x : Nat × Nat) => match x with | (j, idx) => (j, idx)) = id from
      funext fun ⟨_, _⟩ => rfl, List.map_id]
  rw [hid, mapDims_spec p _ _ hp]
  · refine exists_congr fun x => and_congr_right fun _ => ?_
    constructor
    · intro h idx hidx
      exact h ((otherVars p.n vs)[idx], idx) (List.mem_zipIdx_iff_getElem?.mpr (by simp [hidx]))
    · rintro h ⟨j, idx⟩ hm
      obtain ⟨hidx, hj⟩ := List.mem_zipIdx' hm
      show w idx = x j
      rw [hj]; exact h idx hidx
  · rintro ⟨j, idx⟩ hm
    obtain ⟨hidx, hj⟩ := List.mem_zipIdx' hm
    show j < p.n ∧ idx < _
    rw [hj]
    exact ⟨((mem_otherVars _ _ _).mp (List.getElem_mem hidx)).1, hidx⟩

/-! ### `expand_space_dimension` -/

theorem dot_set (l : List Int) (i : Nat) (b : Int) (w : Val) (h : i < l.length) :
    dot (l.set i b) w = dot l w + ((b : Rat) - ((l.getD i 0 : Int) : Rat)) * w i := by
  induction l generalizing i w with
  | nil => simp at h
  | cons a as ih =>
    cases i with
    | zero => simp only [List.set_cons_zero, dot_cons, List.getD_cons_zero]; ring
    | succ i =>
      simp only [List.set_cons_succ, dot_cons, List.getD_cons_succ]
      rw [ih i w.tail (by simpa using h)]
      simp only [Val.tail]; ring

theorem getD_padTo (n : Nat) (l : List Int) (v : Nat) (h : l.length ≤ n) :
    (padTo n l).getD v 0 = l.getD v 0 := by
  unfold padTo
  rw [List.take_of_length_le h]
  by_cases hv : v < l.length
  · simp [List.getD_eq_getElem?_getD, List.getElem?_append_left hv]
  · rw [getD_of_le l v (by omega)]
    simp only [List.getD_eq_getElem?_getD, List.getElem?_append_right (Nat.le_of_not_lt hv),
      List.getElem?_replicate]
    split <;> rfl

theorem eval_renameVar (c : Con) (total v i : Nat) (w : Val) (hc : c.coeffs.length ≤ total)
    (hv : v < total) (hi : i < total) :
    (c.renameVar total v i).eval w = c.eval (w.update v (w i)) := by
  rw [eval_update]
  unfold Con.renameVar Con.eval Con.at
  simp only
  rw [dot_set _ _ _ _ (by simp [padTo_length]; exact hi), dot_set _ _ _ _ (by rw [padTo_length]; exact hv),
    dot_padTo _ _ _ hc, getD_padTo _ _ _ hc]
  push_cast; ring

theorem sat_renameVar (c : Con) (total v i : Nat) (w : Val) (hc : c.coeffs.length ≤ total)
    (hv : v < total) (hi : i < total) :
    (c.renameVar total v i).sat w ↔ c.sat (w.update v (w i)) := by
  unfold Con.sat
  rw [eval_renameVar c total v i w hc hv hi]
  rfl

theorem expandDim_spec (p : RefPoly) (v m : Nat) (hp : WF p.n p.cs) (hv : v < p.n) (w : Val) :
    Sat (p.expandDim v m).cs w ↔
      Sat p.cs w ∧ ∀ i < m, Sat p.cs (w.update v (w (p.n + i))) := by
  unfold RefPoly.expandDim
  simp only [Sat_append, Sat_flatMap, List.mem_range]
  refine and_congr_right fun _ => forall_congr' fun i => imp_congr_right fun hi => ?_
  unfold Sat
  simp only [List.mem_map, forall_exists_index, and_imp, forall_apply_eq_imp_iff₂]
  refine forall_congr' fun c => imp_congr_right fun hc => ?_
  exact sat_renameVar c (p.n + m) v (p.n + i) w (by have := hp c hc; omega) (by omega) (by omega)

/-! ## queries -/

theorem sup_spec (p : RefPoly) (e : LinExpr) (hp : WF p.n p.cs) (he : e.coeffs.length ≤ p.n) :
    match p.sup e with
    | .empty => sem p.cs = ∅
    | .unbounded => (∃ x, x ∈ sem p.cs) ∧ ∀ M : Rat, ∃ x ∈ sem p.cs, M < e.val x
    | .val a b att => 0 < b ∧ (∀ x ∈ sem p.cs, e.val x ≤ (a : Rat) / b) ∧
        (att = true → ∃ x ∈ sem p.cs, e.val x = (a : Rat) / b) ∧
        (att = false → (∀ x ∈ sem p.cs, e.val x < (a : Rat) / b) ∧
          ∀ ε : Rat, 0 < ε → ∃ x ∈ sem p.cs, (a : Rat) / b - ε < e.val x) :=
  supB_spec p.n e.coeffs e.k p.cs hp he

theorem inf_spec (p : RefPoly) (e : LinExpr) (hp : WF p.n p.cs) (he : e.coeffs.length ≤ p.n) :
    match p.inf e with
    | .empty => sem p.cs = ∅
    | .unbounded => (∃ x, x ∈ sem p.cs) ∧ ∀ M : Rat, ∃ x ∈ sem p.cs, e.val x < M
    | .val a b att => 0 < b ∧ (∀ x ∈ sem p.cs, (a : Rat) / b ≤ e.val x) ∧
        (att = true → ∃ x ∈ sem p.cs, e.val x = (a : Rat) / b) ∧
        (att = false → (∀ x ∈ sem p.cs, (a : Rat) / b < e.val x) ∧
          ∀ ε : Rat, 0 < ε → ∃ x ∈ sem p.cs, e.val x < (a : Rat) / b + ε) := by
  have h := supB_spec p.n (e.coeffs.map (- ·)) (-e.k) p.cs hp (by simpa using he)
  have hval : ∀ x, dot (e.coeffs.map (- ·)) x + ((-e.k : Int) : Rat) = - e.val x := by
    intro x; rw [dot_map_neg]; unfold LinExpr.val; push_cast; ring
  simp only [hval] at h
  unfold RefPoly.inf
  cases hs : supB p.n (e.coeffs.map (- ·)) (-e.k) p.cs with
  | empty => rw [hs] at h; exact h
  | unbounded =>
    rw [hs] at h
    refine ⟨h.1, fun M => ?_⟩
    obtain ⟨x, hx, hlt⟩ := h.2 (-M)
    exact ⟨x, hx, by linarith⟩
  | val a b att =>
    rw [hs] at h
    obtain ⟨hb, h1, h2, h3⟩ := h
    have hneg : ((-a : Int) : Rat) / (b : Rat) = -((a : Rat) / b) := by push_cast; ring
    show 0 < b ∧ (∀ x ∈ sem p.cs, ((-a : Int) : Rat) / b ≤ e.val x) ∧
        (att = true → ∃ x ∈ sem p.cs, e.val x = ((-a : Int) : Rat) / b) ∧
        (att = false → (∀ x ∈ sem p.cs, ((-a : Int) : Rat) / b < e.val x) ∧
          ∀ ε : Rat, 0 < ε → ∃ x ∈ sem p.cs, e.val x < ((-a : Int) : Rat) / b + ε)
    rw [hneg]
    refine ⟨hb, fun x hx => by linarith [h1 x hx], fun ha => ?_, fun ha => ⟨fun x hx => ?_, fun ε hε => ?_⟩⟩
    · obtain ⟨x, hx, he⟩ := h2 ha; exact ⟨x, hx, by linarith⟩
    · linarith [(h3 ha).1 x hx]
    · obtain ⟨x, hx, hlt⟩ := (h3 ha).2 ε hε; exact ⟨x, hx, by linarith⟩

theorem hasPoint_iff (p : RefPoly) (num : List Int) (den : Int) (hd : 0 < den) :
    p.hasPoint num den = true ↔ ratPoint num den ∈ sem p.cs := by
  unfold RefPoly.hasPoint
  rw [List.all_eq_true]
  exact forall_congr' fun c => imp_congr_right fun _ => holdsAt_iff c num den hd

/-- the homogeneous closed system used by `isBounded` -/
theorem Sat_homRows (cs : List Con) (d : Val) :
    Sat ((relax cs).map fun c => { c with k := 0 }) d ↔ ∀ c ∈ cs, 0 ≤ dot c.coeffs d := by
  unfold Sat relax
  simp only [List.mem_map, forall_exists_index, and_imp, forall_apply_eq_imp_iff₂]
  refine forall_congr' fun c => imp_congr_right fun _ => ?_
  simp [Con.sat, Con.eval]

end PPLV.Lin
