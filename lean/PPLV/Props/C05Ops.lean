import PPLV.Props.C05Reduce
import PPLV.Lattice.ProofsGridOpsHist
import PPLV.Lattice.ProofsGridOpsCon7
import PPLV.Lattice.ProofsGridOpsCon16
import PPLV.Lattice.ProofsGridOpsCon17
import PPLV.Lattice.ProofsGridOpsCon18
import PPLV.Lattice.ProofsGridOpsLazy12
import PPLV.Lattice.ProofsGridOpsGen15
import PPLV.Lattice.ProofsGridOpsGen16
import PPLV.Lattice.ProofsGridOpsLazy16
import PPLV.Lattice.ProofsGridOpsCon20
import PPLV.Lattice.ProofsGridOpsCon25
import PPLV.Lattice.ProofsGridOpsCon26
import PPLV.Lattice.ProofsGridOpsGen32
import PPLV.Lattice.ProofsGridOpsGen43
import PPLV.Lattice.ProofsGridOpsLazy26
import PPLV.Lattice.ProofsGridOpsCon33
import PPLV.Lattice.ProofsGridOpsCon35
import PPLV.Lattice.ProofsGridOpsCon36
import PPLV.Lattice.ProofsGridOpsCon38
import PPLV.Lattice.ProofsGridOpsCon39

/-!
# C05, stage 3 — the `Grid` class itself: lazy status machinery, mutators and observers on the raw object

Property statements only.  The code-shaped model of the object (`space_dim`, status word, `con_sys`, `gen_sys`,
`dim_kinds`) and of the functions of Grid_nonpublic.cc / Grid_public.cc / Grid_chdims.cc is in
`PPLV/Lattice/GridOps.lean` (state, primitives, lazy machinery, constructors), `GridOpsObs.lean` (observers),
`GridOpsMut.lean` (mutators), `GridOpsDims.lean` (dimension operators, affine transformers); it calls the stage-2
models of `Grid::simplify` / `Grid::conversion` / `normalize_divisors`, whose theorems (`C05Reduce`) discharge every
conversion step below.

* `Grid.sem g : Set Pt` — the set a raw state denotes: `∅` when marked empty, the origin in dimension 0, else the
  homogeneous lattice of the generator rows (read at the divisor of the first point) when they are flagged up to date,
  else the solutions of the congruence rows (`PPLV/Lattice/ProofsGridOpsDefs.lean`);
* `GridInv g` — the status flags are truthful: shape of the marked-empty and 0-dimensional objects; something is up to
  date; an up-to-date description is well formed (generators: one common divisor); two up-to-date descriptions denote
  the same set; minimized ⇒ the triangular form of stage 2 recorded by `dim_kinds` (and, when it is the only
  description, what `conversion` needs).

The driver `pplv_gridops` replays the model from the journalled raw pre-state of every operation of seeded histories of
the real library, demands the identical raw post-state, evaluates `invB` (the executable core of `GridInv`) on every real
post-state and judges the conclusions below on the real output with the K2 deciders.
-/
namespace C05
open PPLV.Lattice PPLV.Lattice.Red PPLV.Lattice.GO

/-! ## the invariant at construction: `grid_inv_init` -/

/-- `Grid(n, EMPTY)`: the invariant holds, the empty set is denoted -/
theorem grid_inv_init_empty (n : Nat) : GridInv (constructDeg n false) ∧ (constructDeg n false).sem = ∅ :=
  ⟨constructDeg_empty_inv n, constructDeg_empty_sem n⟩

/-- `Grid(0, UNIVERSE)`: the single point of the 0-dimensional space -/
theorem grid_inv_init_zero_dim : GridInv (constructDeg 0 true) ∧ (constructDeg 0 true).sem = {x | Supp 0 x} :=
  ⟨constructDeg_zdim_inv, constructDeg_zdim_sem⟩

example : (constructDeg 2 false).con = [{ e := [1, 0, 0], m := 0 }] := by decide

/-- `Grid(n, UNIVERSE)` / `Grid(n, EMPTY)` in every dimension: the invariant holds; the whole space, resp. ∅ -/
theorem grid_inv_init_degenerate (n : Nat) (u : Bool) :
    GridInv (constructDeg n u) ∧ (constructDeg n u).sem = if u then {x | Supp n x} else ∅ :=
  ⟨constructDeg_inv n u, constructDeg_sem n u⟩

example : (constructDeg 1 true).gen = [{ line := false, e := [1, 0, 0] }, { line := true, e := [0, 1, 0] }] := by decide

/-- `Grid(const Congruence_System&)` (`construct(cgs)`, Grid_nonpublic.cc:102) for a well-formed system of dimension > 0:
    the invariant holds and the solutions of the system are denoted (`normalize_moduli` keeps them) -/
theorem grid_inv_init_congruences (cgs : CSys) (hw : CWf cgs.dim cgs.rows) (hpos : 0 < cgs.dim) :
    GridInv (constructCgs cgs) ∧ (constructCgs cgs).sem = consSet cgs.dim cgs.rows ∧ (constructCgs cgs).spaceDim = cgs.dim :=
  ⟨(constructCgs_pos cgs hw hpos).1, (constructCgs_pos cgs hw hpos).2.1, (constructCgs_pos cgs hw hpos).2.2.1⟩

/-- … in any dimension the invariant holds -/
theorem grid_inv_init_congruences_inv (cgs : CSys) (hw : CWf cgs.dim cgs.rows) : GridInv (constructCgs cgs) :=
  constructCgs_inv cgs hw

example : CWf 1 [(⟨[0, 1], 2⟩ : CRow)] ∧ (constructCgs ⟨1, [⟨[0, 1], 2⟩]⟩).con = [⟨[0, 1], 2⟩] := by
  refine ⟨?_, by decide⟩
  intro r hr; simp at hr; subst hr; exact ⟨rfl, by decide⟩

/-- `Grid(const Grid_Generator_System&)` (`construct(ggs)`, Grid_nonpublic.cc:140) for a well-formed system (right sizes,
    positive divisors, a point) of dimension > 0: it does not throw, the invariant holds and the PPL reading of the
    generators (`gn_set`: each point and parameter read with its own divisor) is denoted — `normalize_divisors` keeps it.
    `constructGgs` answers `none` (throws) exactly when there are rows but no point (`constructGgs_none_iff`). -/
theorem grid_inv_init_generators (ggs : GSys) (hw : gn_WF ggs.dim ggs.rows) (hpos : 0 < ggs.dim) :
    ∃ r, constructGgs ggs = some r ∧ GridInv r ∧ r.sem = gn_set ggs.rows ∧ r.spaceDim = ggs.dim := by
  obtain ⟨_, h2, h3, h4⟩ := gn_normalizeDivisors1 hw hpos
  obtain ⟨p, hp, hpt⟩ := hw.pt
  have hr : ggs.rows ≠ [] := by intro h; rw [h] at hp; cases hp
  have hpts : ggs.hasPoints = true := by
    unfold GSys.hasPoints
    rw [List.any_eq_true]
    refine ⟨p, hp, ?_⟩
    have h2 : p.line = false ∧ ¬ Red.get p.e 0 = 0 := by simpa [gn_isPt] using hpt
    simpa [GRow.isLineOrParameter] using h2.2
  obtain ⟨r, a, b, c, d, _⟩ := constructGgs_pos ggs hr hpts hpos ⟨h2, h3⟩
  exact ⟨r, a, b, by rw [c, gn_bridge h3 h2, h4], d⟩

/-- the copy constructor and `operator=`: invariant, same set, same dimension -/
theorem grid_inv_init_copy (y : Grid) (hy : GridInv y) :
    GridInv (copyCtor y) ∧ (copyCtor y).sem = y.sem ∧ (copyCtor y).spaceDim = y.spaceDim := cn_copyCtor y hy

theorem grid_inv_init_assign (x y : Grid) (hy : GridInv y) :
    GridInv (assign x y) ∧ (assign x y).sem = y.sem ∧ (assign x y).spaceDim = y.spaceDim := cn_assign x y hy

example : GridInv cn_exGrid := cn_exGrid_inv

/-! ## the lazy machinery: every conversion step is discharged by the stage-2 theorems -/

/-- `update_generators()` (Grid_nonpublic.cc:520) where the code calls it: the object is not marked empty, dimension > 0,
    the congruences are up to date and the generators are not.  Afterwards the invariant holds, the same set is denoted,
    the answer is `true` exactly on a non-empty grid and then both descriptions are flagged up to date and minimized;
    on `false` the object has been marked empty. -/
theorem update_generators_correct : UpdateGeneratorsSpec := updateGenerators_spec

/-- `update_congruences()` (Grid_nonpublic.cc:493) where the code calls it -/
theorem update_congruences_correct : UpdateCongruencesSpec := updateCongruences_spec

/-- `is_empty()` (Grid_public.cc:776): answers according to the denoted set, keeps invariant, set and dimension -/
theorem is_empty_correct : IsEmptySpec := isEmpty_spec

/-- `generators_are_up_to_date() || update_generators()` as the mutators use it -/
theorem ensure_generators_correct : EnsureGeneratorsSpec := ensureGenerators_spec

/-- `congruences()` and `grid_generators()` only change the representation -/
theorem congruences_correct : LazyOK congruences := congruences_lazy
theorem grid_generators_correct : LazyOK gridGenerators := gridGenerators_lazy

/-- `minimize()` (Grid_nonpublic.cc:546): invariant, set and dimension kept; the answer is `false` exactly on the empty
    grid (the object is then marked empty); on `true` in dimension > 0 both descriptions are flagged minimized.
    The case "both up to date, `simplify` runs on one of them while the other one is already minimized" overwrites the
    shared `dim_kinds`; it rests on the duality of the two triangular forms of one grid, proved as `dkCompatG` /
    `dkCompatC` (`ProofsGridOpsLazy10/11.lean`). -/
theorem minimize_correct : MinimizeSpec := minimize_spec

/-- the duality behind the shared `dim_kinds` -/
theorem dim_kinds_shared_generators_side : DkCompatG := dkCompatG
theorem dim_kinds_shared_congruences_side : DkCompatC := dkCompatC

theorem minimized_congruences_correct : LazyOK minimizedCongruences := minimizedCongruences_lazy
theorem minimized_grid_generators_correct : LazyOK minimizedGridGenerators := minimizedGridGenerators_lazy

example : (updateGenerators cn_exGrid).2 = true ∧
    (updateGenerators cn_exGrid).1.gen = [{ line := false, e := [1, 0, 0] }, { line := false, e := [0, 2, 1] }] := by
  decide +kernel

/-! ## operations as history steps -/

/-- the operations whose step theorems are closed (arguments included; a `Grid` argument is a raw object satisfying the
    invariant, see `Op.pre`) -/
inductive Op where
  | addCongruence (cg : CRow)                    -- add_congruence / refine_with_congruence
  | addCongruences (cgs : CSys)                  -- add_congruences / refine_with_congruences
  | addRecycledCongruences (cgs : CSys)
  | addConstraint (c : Con)
  | refineWithConstraint (c : Con)
  | addConstraints (dim : Nat) (cs : List Con)   -- add_constraints / add_recycled_constraints
  | refineWithConstraints (dim : Nat) (cs : List Con)
  | intersectionAssign (y : Grid)
  | concatenateAssign (y : Grid)
  | assign (y : Grid)
  | congruences
  | gridGenerators
  | minimizedCongruences
  | minimizedGridGenerators
  | minimize
  | isEmpty
  | upperBoundAssign (y : Grid)
  | timeElapseAssign (y : Grid)
  | addSpaceDimensionsAndEmbed (m : Nat)
  | affineImage (v : Nat) (e : LinExpr) (den : Int)
  | affinePreimage (v : Nat) (e : LinExpr) (den : Int)
  | removeSpaceDimensions (vars : List Nat)
  | differenceAssign (y : Grid)
  | expandSpaceDimension (v m : Nat)
  | foldSpaceDimensions (vars : List Nat) (dest : Nat)
  | addRecycledGridGenerators (gs : GSys)        -- add_grid_generators / add_recycled_grid_generators
  | addSpaceDimensionsAndProject (m : Nat)
  | boundedAffineImage (v : Nat) (lb ub : LinExpr) (den : Int)
  | boundedAffinePreimage (v : Nat) (lb ub : LinExpr) (den : Int)
  | unconstrainVar (v : Nat)
  | unconstrainSet (vars : List Nat)
  | addGridGenerator (x : GRow)

/-- what the operation does to the raw receiver -/
def Op.run : Op → Grid → Grid
  | .addCongruence cg, g => (GO.addCongruence g cg).g
  | .addCongruences cgs, g => (GO.addCongruences g cgs).g
  | .addRecycledCongruences cgs, g => (GO.addRecycledCongruences g cgs).g
  | .addConstraint c, g => (GO.addConstraint g c).g
  | .refineWithConstraint c, g => (GO.refineWithConstraint g c).g
  | .addConstraints d cs, g => (GO.addConstraints g d cs).g
  | .refineWithConstraints d cs, g => (GO.refineWithConstraints g d cs).g
  | .intersectionAssign y, g => (GO.intersectionAssign g y).x
  | .concatenateAssign y, g => (GO.concatenateAssign g y).x
  | .assign y, g => GO.assign g y
  | .congruences, g => GO.congruences g
  | .gridGenerators, g => GO.gridGenerators g
  | .minimizedCongruences, g => GO.minimizedCongruences g
  | .minimizedGridGenerators, g => GO.minimizedGridGenerators g
  | .minimize, g => (GO.minimize g).1
  | .isEmpty, g => (GO.isEmpty g).1
  | .upperBoundAssign y, g => (GO.upperBoundAssign g y).x
  | .timeElapseAssign y, g => (GO.timeElapseAssign g y).x
  | .addSpaceDimensionsAndEmbed m, g => GO.addSpaceDimensionsAndEmbed g m
  | .affineImage v e den, g => (GO.affineImage g v e den).g
  | .affinePreimage v e den, g => (GO.affinePreimage g v e den).g
  | .removeSpaceDimensions vars, g => (GO.removeSpaceDimensions g vars).g
  | .differenceAssign y, g => (GO.differenceAssign g y).x
  | .expandSpaceDimension v m, g => (GO.expandSpaceDimension g v m).g
  | .foldSpaceDimensions vars dest, g => (GO.foldSpaceDimensions g vars dest).g
  | .addRecycledGridGenerators gs, g => (GO.addRecycledGridGenerators g gs).g
  | .addSpaceDimensionsAndProject m, g => GO.addSpaceDimensionsAndProject g m
  | .boundedAffineImage v lb ub den, g => (GO.boundedAffineImage g v lb ub den).g
  | .boundedAffinePreimage v lb ub den, g => (GO.boundedAffinePreimage g v lb ub den).g
  | .unconstrainVar v, g => (GO.unconstrainVar g v).g
  | .unconstrainSet vs, g => (GO.unconstrainSet g vs).g
  | .addGridGenerator x, g => (GO.addGridGenerator g x).g

/-- admissible arguments: what the C++ interface requires (dimension compatibility, well-formed rows, the trivial
    flags of a constraint are truthful) and, for `add_constraint(s)` / `add_grid_generator`, that the call is not rejected
    (rejected calls: `add_constraint_rejected_unchanged`, `add_constraints_rejected_unchanged` below) -/
def Op.pre : Op → Grid → Prop
  | .addCongruence cg, g => cg.spaceDim ≤ g.spaceDim ∧ 0 ≤ cg.m ∧ cg.e ≠ []
  | .addCongruences cgs, g => cgs.dim ≤ g.spaceDim ∧ CWf cgs.dim cgs.rows
  | .addRecycledCongruences cgs, g => cgs.dim ≤ g.spaceDim ∧ CWf cgs.dim cgs.rows
  | .addConstraint c, g => cn_ConOK g.spaceDim g.sem c ∧ cn_hardIneq c = false
  | .refineWithConstraint c, g => cn_ConOK g.spaceDim g.sem c ∧ (cn_eff c = true ∨ c.tautological = true)
  | .addConstraints d cs, g => d ≤ g.spaceDim ∧ (∀ c ∈ cs, cn_ConOK g.spaceDim g.sem c) ∧ ∀ c ∈ cs, cn_hardIneq c = false
  | .refineWithConstraints d cs, g => d ≤ g.spaceDim ∧ (∀ c ∈ cs, cn_ConOK g.spaceDim g.sem c) ∧
      ∀ c ∈ cs, cn_eff c = false → c.tautological = true
  | .intersectionAssign y, g => GridInv y ∧ y.spaceDim = g.spaceDim
  | .concatenateAssign y, _ => GridInv y
  | .assign y, _ => GridInv y
  | .congruences, _ => True
  | .gridGenerators, _ => True
  | .minimizedCongruences, _ => True
  | .minimizedGridGenerators, _ => True
  | .minimize, _ => True
  | .isEmpty, _ => True
  | .upperBoundAssign y, g => GridInv y ∧ g.spaceDim = y.spaceDim
  | .timeElapseAssign y, g => GridInv y ∧ g.spaceDim = y.spaceDim
  | .addSpaceDimensionsAndEmbed _, _ => True
  | .affineImage v e den, g => den ≠ 0 ∧ e.spaceDim ≤ g.spaceDim ∧ v + 1 ≤ g.spaceDim
  | .affinePreimage v e den, g => den ≠ 0 ∧ e.spaceDim ≤ g.spaceDim ∧ v + 1 ≤ g.spaceDim
  | .removeSpaceDimensions vars, g => vars.Pairwise (· < ·) ∧ ∀ v ∈ vars, v < g.spaceDim
  | .differenceAssign y, g => GridInv y ∧ g.spaceDim = y.spaceDim
  | .expandSpaceDimension v m, g => v < g.spaceDim ∧ 0 < m
  | .foldSpaceDimensions vars dest, g => dest < g.spaceDim ∧ vars ≠ [] ∧ vars.Pairwise (· < ·) ∧ (∀ v ∈ vars, v < g.spaceDim) ∧ dest ∉ vars
  | .addRecycledGridGenerators gs, g => gn_GsOK gs ∧ gs.dim ≤ g.spaceDim ∧ 0 < g.spaceDim ∧ gs.rows ≠ [] ∧
      (g.sem = ∅ → ∃ p ∈ gs.rows, gn_isPt p = true)
  | .addSpaceDimensionsAndProject m, g => m = 0 ∨ g.st.empty = true ∨ 0 < g.spaceDim     -- the remaining case is KF-C05-9
  | .boundedAffineImage v lb ub den, g => g.st.empty = false ∧ den ≠ 0 ∧ v + 1 ≤ g.spaceDim ∧ lb.spaceDim ≤ g.spaceDim ∧ ub.spaceDim ≤ g.spaceDim
  | .boundedAffinePreimage v lb ub den, g => g.st.empty = false ∧ den ≠ 0 ∧ v + 1 ≤ g.spaceDim ∧ lb.spaceDim ≤ g.spaceDim ∧ ub.spaceDim ≤ g.spaceDim
  | .unconstrainVar v, g => v < g.spaceDim
  | .unconstrainSet vs, g => ∀ v ∈ vs, v < g.spaceDim
  | .addGridGenerator x, g => gn_RowOK x ∧ x.spaceDim ≤ g.spaceDim ∧ 0 < g.spaceDim ∧ (g.sem = ∅ → gn_isPt x = true)

/-- the dimension after the operation -/
def Op.dim : Op → Nat → Nat
  | .concatenateAssign y, n => n + y.spaceDim
  | .assign y, _ => y.spaceDim
  | .addSpaceDimensionsAndEmbed m, n => n + m
  | .removeSpaceDimensions vars, n => n - vars.length
  | .expandSpaceDimension _ m, n => n + m
  | .foldSpaceDimensions vars _, n => n - vars.length
  | .addSpaceDimensionsAndProject m, n => n + m
  | _, n => n

/-- **the reference**: the documented set transformer, as a relation between the set denoted before and after
    (`n` = space dimension before) -/
def Op.post : Op → Nat → Set Pt → Set Pt → Prop
  | .addCongruence cg, _, S, S' => S' = S ∩ CRow.set cg
  | .addCongruences cgs, _, S, S' => S' = S ∩ cn_rowsSet cgs.rows
  | .addRecycledCongruences cgs, _, S, S' => S' = S ∩ cn_rowsSet cgs.rows
  | .addConstraint c, _, S, S' => S' = S ∩ cn_conSet c
  | .refineWithConstraint c, _, S, S' => S' = S ∩ cn_conSet c
  | .addConstraints _ cs, _, S, S' => S' = S ∩ cn_consSetL cs
  | .refineWithConstraints _ cs, _, S, S' => S' = S ∩ cn_consSetL cs
  | .intersectionAssign y, _, S, S' => S' = S ∩ y.sem
  | .concatenateAssign y, n, S, S' => S' = cn_prodSet n y.spaceDim S y.sem
  | .assign y, _, _, S' => S' = y.sem
  | .congruences, _, S, S' => S' = S
  | .gridGenerators, _, S, S' => S' = S
  | .minimizedCongruences, _, S, S' => S' = S
  | .minimizedGridGenerators, _, S, S' => S' = S
  | .minimize, _, S, S' => S' = S
  | .isEmpty, _, S, S' => S' = S
  | .upperBoundAssign y, _, S, S' => gn_IsJoin S' S y.sem
  | .timeElapseAssign y, _, S, S' => gn_IsTE S' S y.sem
  | .addSpaceDimensionsAndEmbed m, n, S, S' => S' = cn_embedSet n m S
  | .affineImage v e den, _, S, S' => S' = lzF v e den '' S
  | .affinePreimage v e den, n, S, S' => S' = cn_preSet n v e den S
  | .removeSpaceDimensions vars, n, S, S' => S' = cn_sel n vars '' S
  | .differenceAssign y, _, S, S' => S \ y.sem ⊆ S' ∧ S' ⊆ S
  | .expandSpaceDimension v m, n, S, S' => S' = cn_expandSet n v m S
  | .foldSpaceDimensions vars dest, n, S, S' => ∃ T, cn_FoldChain dest vars S T ∧ S' = cn_sel n vars '' T
  | .addRecycledGridGenerators gs, _, S, S' => (S = ∅ → S' = gn_set gs.rows) ∧ (S.Nonempty → gn_IsAddGens S' S gs.rows)
  | .addSpaceDimensionsAndProject _, _, S, S' => S' = S
  | .boundedAffineImage v _ _ _, _, S, S' => S' = {y | ∃ a ∈ S, ∃ c : ℚ, y = a + c • (unit v).toFun}
  | .boundedAffinePreimage v _ _ _, _, S, S' => S' = {y | ∃ a ∈ S, ∃ c : ℚ, y = a + c • (unit v).toFun}
  | .unconstrainVar v, _, S, S' => S' = {y | ∃ x ∈ S, ∃ c : ℚ, y = x + c • (unit v).toFun}
  | .unconstrainSet vs, _, S, S' => S' = gn_cyl S vs
  | .addGridGenerator x, _, S, S' =>
      (x.line = true → S' = {y | ∃ a ∈ S, ∃ c : ℚ, y = a + c • gn_vecOf x}) ∧
      (gn_isPar x = true → S' = {y | ∃ a ∈ S, ∃ k : Int, y = a + (k : ℚ) • gn_vecOf x}) ∧
      (gn_isPt x = true → S = ∅ → S' = {gn_vecOf x}) ∧
      (gn_isPt x = true → ∀ a0 ∈ S, S' = {y | ∃ a ∈ S, ∃ k : Int, y = a + (k : ℚ) • (gn_vecOf x - a0)})

def Op.toSem (op : Op) : OpSem := { run := op.run, pre := op.pre, post := op.post, dim := op.dim }

/-- the three conclusions for one operation -/
theorem op_step (op : Op) (g : Grid) (hI : GridInv g) (hp : op.pre g) :
    GridInv (op.run g) ∧ op.post g.spaceDim g.sem (op.run g).sem ∧ (op.run g).spaceDim = op.dim g.spaceDim := by
  have hUC := updateCongruences_spec
  have hEG := ensureGenerators_spec
  cases op with
  | addCongruence cg =>
    obtain ⟨hd, hm, he⟩ := hp
    obtain ⟨h1, _, _, h4⟩ := cn_addCongruence hUC g cg hI hm he
    have hnt : (addCongruence g cg).thrown = false := by
      cases h : (addCongruence g cg).thrown
      · rfl
      · exact absurd (h1.mp h) (by omega)
    obtain ⟨a, b, c⟩ := h4 hnt
    exact ⟨a, b, c⟩
  | addCongruences cgs =>
    obtain ⟨hd, hw⟩ := hp
    obtain ⟨h1, _, _, h4⟩ := cn_addCongruences hUC g cgs hI hw
    have hnt : (addCongruences g cgs).thrown = false := by
      cases h : (addCongruences g cgs).thrown
      · rfl
      · exact absurd (h1.mp h) (by omega)
    obtain ⟨a, b, c⟩ := h4 hnt
    exact ⟨a, b, c⟩
  | addRecycledCongruences cgs =>
    obtain ⟨hd, hw⟩ := hp
    obtain ⟨h1, _, _, h4⟩ := cn_addRecycledCongruences hUC g cgs hI hw
    have hnt : (addRecycledCongruences g cgs).thrown = false := by
      cases h : (addRecycledCongruences g cgs).thrown
      · rfl
      · exact absurd (h1.mp h) (by omega)
    obtain ⟨a, b, c⟩ := h4 hnt
    exact ⟨a, b, c⟩
  | addConstraint c =>
    obtain ⟨hok, hh⟩ := hp
    obtain ⟨h1, _, h3, h4, h5, h6⟩ := cn_addConstraint hUC g c hI (fun _ => hok)
    have hnt : (addConstraint g c).thrown = false := by
      cases h : (addConstraint g c).thrown
      · rfl
      · rcases h1.mp h with hlt | hhard
        · exact absurd hok.1 (by omega)
        · rw [hh] at hhard; cases hhard
    exact ⟨h4, h6 hnt, h5⟩
  | refineWithConstraint c =>
    obtain ⟨hok, heff⟩ := hp
    obtain ⟨h1, _, _, h4, h5, h6, _⟩ := cn_refineWithConstraint hUC g c hI (fun _ => hok)
    have hnt : (refineWithConstraint g c).thrown = false := by
      cases h : (refineWithConstraint g c).thrown
      · rfl
      · exact absurd (h1.mp h) (by have := hok.1; omega)
    exact ⟨h4, h6 hnt heff, h5⟩
  | addConstraints d cs =>
    obtain ⟨hd, hok, hh⟩ := hp
    obtain ⟨h1, _, _, h3, h4, h5⟩ := cn_addConstraints hUC g d cs hI (fun _ => hok)
    have hnt : (addConstraints g d cs).thrown = false := by
      cases h : (addConstraints g d cs).thrown
      · rfl
      · rcases h1.mp h with hlt | ⟨c, hc, hhard⟩
        · omega
        · rw [hh c hc] at hhard; cases hhard
    exact ⟨h3, h5 hnt, h4⟩
  | refineWithConstraints d cs =>
    obtain ⟨hd, hok, ht⟩ := hp
    obtain ⟨h1, _, h3, h4, h5⟩ := cn_refineWithConstraints hUC g d cs hI (fun _ => hok)
    have hnt : (refineWithConstraints g d cs).thrown = false := by
      cases h : (refineWithConstraints g d cs).thrown
      · rfl
      · exact absurd (h1.mp h) (by omega)
    exact ⟨h3, (h5 hnt).2 ht, h4⟩
  | intersectionAssign y =>
    obtain ⟨hy, hd⟩ := hp
    obtain ⟨h1, _, h3⟩ := cn_intersectionAssign hUC g y hI hy
    have hnt : (intersectionAssign g y).thrown = false := by
      cases h : (intersectionAssign g y).thrown
      · rfl
      · exact absurd hd.symm (h1.mp h)
    obtain ⟨a, _, c, _, e, _⟩ := h3 hnt
    exact ⟨a, c, e⟩
  | concatenateAssign y =>
    obtain ⟨_, a, _, c, d, _⟩ := cn_concatenateAssign hUC g y hI hp
    exact ⟨a, d, c⟩
  | assign y =>
    obtain ⟨a, b, c⟩ := cn_assign g y hp
    exact ⟨a, b, c⟩
  | congruences => exact congruences_lazy g hI
  | gridGenerators => exact gridGenerators_lazy g hI
  | minimizedCongruences => exact minimizedCongruences_lazy g hI
  | minimizedGridGenerators => exact minimizedGridGenerators_lazy g hI
  | minimize =>
    obtain ⟨a, b, c, _⟩ := minimize_spec g hI
    exact ⟨a, b, c⟩
  | isEmpty =>
    obtain ⟨a, b, c, _⟩ := isEmpty_spec g hI
    exact ⟨a, b, c⟩
  | upperBoundAssign y =>
    obtain ⟨hy, hd⟩ := hp
    obtain ⟨a, _, _, d, _, _, h⟩ := gn_upperBoundAssign hEG g y hI hy hd
    exact ⟨a, h, d⟩
  | timeElapseAssign y =>
    obtain ⟨hy, hd⟩ := hp
    obtain ⟨a, _, _, d, _, _, h⟩ := gn_timeElapseAssign hEG g y hI hy hd
    exact ⟨a, h, d⟩
  | addSpaceDimensionsAndEmbed m => exact addSpaceDimensionsAndEmbed_full g m hI
  | differenceAssign y =>
    obtain ⟨hy, hd⟩ := hp
    obtain ⟨a, _, _, d, _, _, h1, h2⟩ := gn_differenceAssign g y hI hy hd
    exact ⟨a, ⟨h1, h2⟩, d⟩
  | expandSpaceDimension v m =>
    obtain ⟨hv, hm⟩ := hp
    obtain ⟨a, b, c⟩ := (cn_expandSpaceDimension g v m hI).2.2.2 hv hm
    exact ⟨a, c, b⟩
  | foldSpaceDimensions vars dest =>
    obtain ⟨hd, hne, hinc, hlt, hnd⟩ := hp
    obtain ⟨_, a, b, c⟩ := cn_foldSpaceDimensions g vars dest hI hd hne hinc hlt hnd
    exact ⟨a, c, b⟩
  | addRecycledGridGenerators gs =>
    obtain ⟨hgs, hd, hn, hne, hpt⟩ := hp
    obtain ⟨a, b, c, _, e⟩ := gn_addRecycledGridGenerators g hI gs hgs hd hn hne
    have hnt : (addRecycledGridGenerators g gs).thrown = false := by
      cases h : (addRecycledGridGenerators g gs).thrown
      · rfl
      · obtain ⟨h1, h2⟩ := c.mp h
        exact absurd (hpt h1) h2
    exact ⟨a, e hnt, b⟩
  | addSpaceDimensionsAndProject m =>
    obtain ⟨a, b, c, _⟩ := cn_addSpaceDimensionsAndProject_full g m hI
    exact ⟨a, c hp, b⟩
  | boundedAffineImage v lb ub den =>
    obtain ⟨hne, hden, hv, hlb, hub⟩ := hp
    obtain ⟨_, a, b, c⟩ := boundedAffineImage_spec g v lb ub den hI hne hden hv hlb hub
    exact ⟨a, c, b⟩
  | boundedAffinePreimage v lb ub den =>
    obtain ⟨hne, hden, hv, hlb, hub⟩ := hp
    obtain ⟨_, a, b, c⟩ := boundedAffinePreimage_spec g v lb ub den hI hne hden hv hlb hub
    exact ⟨a, c, b⟩
  | affineImage v e den =>
    obtain ⟨hden, hed, hv⟩ := hp
    cases hemp : g.st.empty
    · obtain ⟨_, a, b, c⟩ := affineImage_full g v e den hI hemp hden hed hv
      exact ⟨a, b, c⟩
    · have hU : (GO.affineImage g v e den).g = g := (affineImage_thrown g v e den).2.2 hemp
      refine ⟨?_, ?_, ?_⟩
      · show GridInv (GO.affineImage g v e den).g
        rw [hU]; exact hI
      · show (GO.affineImage g v e den).g.sem = lzF v e den '' g.sem
        rw [hU, cn_sem_empty g hemp, Set.image_empty]
      · show (GO.affineImage g v e den).g.spaceDim = g.spaceDim
        rw [hU]
  | affinePreimage v e den =>
    obtain ⟨hden, hed, hv⟩ := hp
    cases hemp : g.st.empty
    · obtain ⟨_, a, b, c⟩ := affinePreimage_full g v e den hI hemp hden hed hv
      exact ⟨a, b, c⟩
    · have hU : (GO.affinePreimage g v e den).g = g := (cn_affinePreimage_thrown g v e den).2.2 hemp
      refine ⟨?_, ?_, ?_⟩
      · show GridInv (GO.affinePreimage g v e den).g
        rw [hU]; exact hI
      · show (GO.affinePreimage g v e den).g.sem = cn_preSet g.spaceDim v e den g.sem
        rw [hU, cn_sem_empty g hemp]
        ext x; simp [cn_preSet]
      · show (GO.affinePreimage g v e den).g.spaceDim = g.spaceDim
        rw [hU]
  | removeSpaceDimensions vars =>
    obtain ⟨hinc, hlt⟩ := hp
    obtain ⟨_, a, b, c⟩ := cn_removeSpaceDimensions g vars hI hinc hlt
    exact ⟨a, c, b⟩
  | unconstrainVar v =>
    obtain ⟨a, _, c, d⟩ := gn_unconstrainVar hEG g hI v hp
    exact ⟨a, d, c⟩
  | unconstrainSet vs =>
    obtain ⟨a, _, c, d⟩ := gn_unconstrainSet hEG g hI vs hp
    exact ⟨a, d, c⟩
  | addGridGenerator x =>
    obtain ⟨hx, hd, hn, hpt⟩ := hp
    obtain ⟨a, b, c, _, e⟩ := gn_addGridGenerator hEG g hI x hx hd hn
    have hnt : (addGridGenerator g x).thrown = false := by
      cases h : (addGridGenerator g x).thrown
      · rfl
      · obtain ⟨h1, h2⟩ := c.mp h
        rw [hpt h1] at h2; cases h2
    exact ⟨a, e hnt, b⟩

/-- **`grid_inv_step`**: every operation keeps the invariant -/
theorem grid_inv_step (op : Op) (g : Grid) (hI : GridInv g) (hp : op.pre g) : GridInv (op.run g) :=
  (op_step op g hI hp).1

/-- **`grid_ops_refine_reference`**: after every operation the denoted set is the reference transformer applied to the
    set denoted before (and the dimension is the documented one) -/
theorem grid_ops_refine_reference (op : Op) (g : Grid) (hI : GridInv g) (hp : op.pre g) :
    op.post g.spaceDim g.sem (op.run g).sem ∧ (op.run g).spaceDim = op.dim g.spaceDim :=
  ⟨(op_step op g hI hp).2.1, (op_step op g hI hp).2.2⟩

theorem op_correct (op : Op) : op.toSem.Correct := fun g hI hp => op_step op g hI hp

/-- **`grid_history_correct`**: along any sequence of these operations, started from an object satisfying the invariant
    with admissible arguments at every step, every object met satisfies the invariant and the denoted sets form the
    chain of the reference transformers -/
theorem grid_history_correct (ops : List Op) (g : Grid) (hI : GridInv g) (hp : HistPre (ops.map Op.toSem) g) :
    (∀ x ∈ runHist (ops.map Op.toSem) g, GridInv x) ∧
    RefChain (ops.map Op.toSem) g.spaceDim g.sem ((runHist (ops.map Op.toSem) g).map fun x => (x.spaceDim, x.sem)) :=
  hist_correct (ops.map Op.toSem)
    (fun o ho => by obtain ⟨op, _, rfl⟩ := List.mem_map.mp ho; exact op_correct op) g hI hp

/-- a history on the grid `x ≡ 0 (mod 2)`: add `3x + 1 ≡ 0 (mod 6)`, ask for the generators, unconstrain `x` -/
example : HistPre ([Op.addCongruence ⟨[1, 3], 6⟩, Op.gridGenerators, Op.unconstrainVar 0].map Op.toSem) cn_exGrid := by
  refine ⟨⟨by decide, by decide, by decide⟩, trivial, ?_, trivial⟩
  show 0 < (Op.run Op.gridGenerators (Op.run (Op.addCongruence ⟨[1, 3], 6⟩) cn_exGrid)).spaceDim
  decide +kernel

/-! ## rejected calls leave the object unchanged -/

/-- **`add_constraints_rejected_unchanged`** (`add_constraints` / `add_recycled_constraints`, Grid_public.cc:1266 after
    7218b6b): the call is rejected exactly on a dimension mismatch or when the system holds a non-trivial inequality — also
    on a marked-empty receiver — and then the object is unchanged (the whole system is validated before anything is added).
    `_before_fix` remark: before 7218b6b the constraints preceding the non-trivial inequality had been applied when the
    exception was thrown (the object was cut by that prefix: `cn_addConstraintsLoop` still describes that loop), and a
    marked-empty receiver did not throw. -/
theorem add_constraints_rejected_unchanged (g : Grid) (csDim : Nat) (cs : List Con) :
    ((addConstraints g csDim cs).thrown = true ↔ (g.spaceDim < csDim ∨ ∃ c ∈ cs, c.isHardInequality = true)) ∧
    ((addConstraints g csDim cs).thrown = true → (addConstraints g csDim cs).g = g) := by
  refine ⟨?_, cn_addConstraints_rejected_unchanged g csDim cs⟩
  unfold addConstraints
  by_cases hd : g.spaceDim < csDim
  · rw [if_pos hd]; exact ⟨fun _ => Or.inl hd, fun _ => rfl⟩
  · rw [if_neg hd]
    by_cases hh : cs.any Con.isHardInequality = true
    · rw [if_pos hh]
      exact ⟨fun _ => Or.inr (by simpa [List.any_eq_true] using hh), fun _ => rfl⟩
    · rw [if_neg hh]
      have hno : ∀ c ∈ cs, cn_hardIneq c = false := by
        intro c hc
        cases hcc : cn_hardIneq c
        · rfl
        · exact absurd (List.any_eq_true.mpr ⟨c, hc, by rw [← cn_hardIneq_eq]; exact hcc⟩) hh
      have hnt : (if g.markedEmpty = true then ({ g := g } : R) else addConstraintsLoop g cs).thrown = false := by
        split
        · rfl
        · exact cn_loop_not_thrown cs hno g
      rw [hnt]
      constructor
      · intro h; cases h
      · rintro (h | ⟨c, hc, hcc⟩)
        · exact absurd h hd
        · exact absurd (List.any_eq_true.mpr ⟨c, hc, hcc⟩) hh

/-- a system with a non-trivial inequality in the middle is rejected and the congruences stay as they were -/
example : (addConstraints cn_exGrid 1 [⟨0, false, false, [0, 1]⟩, ⟨1, false, false, [0, 1]⟩]).thrown = true ∧
    (addConstraints cn_exGrid 1 [⟨0, false, false, [0, 1]⟩, ⟨1, false, false, [0, 1]⟩]).g = cn_exGrid := by decide

/-- `add_constraint(c)` (Grid_inlines.hh after 680f35a): rejected exactly on a dimension mismatch or a non-trivial
    inequality — also by a marked-empty receiver — and then nothing changes -/
theorem add_constraint_rejected_unchanged (g : Grid) (c : Con) (hI : GridInv g)
    (hc : c.spaceDim ≤ g.spaceDim → cn_ConOK g.spaceDim g.sem c) :
    ((addConstraint g c).thrown = true ↔ (g.spaceDim < c.spaceDim ∨ c.isHardInequality = true)) ∧
    ((addConstraint g c).thrown = true → (addConstraint g c).g = g) := by
  obtain ⟨a, b, _⟩ := cn_addConstraint updateCongruences_spec g c hI hc
  rw [cn_hardIneq_eq] at a
  exact ⟨a, b⟩

/-- `generalized_affine_image(var, relsym, expr, d, m)` (after a13dde6): the argument checks — `d = 0`, dimensions,
    `NOT_EQUAL`, a non-zero modulus with a relation symbol other than `EQUAL` — reject the call for EVERY receiver, marked
    empty or not, and a rejected call changes nothing -/
theorem generalized_affine_image_var_rejects (g : Grid) (hI : GridInv g) (v : Nat) (relsym : Nat) (e : LinExpr)
    (den modulus : Int) :
    ((generalizedAffineImageVar g v relsym e den modulus).thrown = true ↔
      (den = 0 ∨ g.spaceDim < e.spaceDim ∨ g.spaceDim < v + 1 ∨ relsym = NOT_EQUAL ∨ (relsym ≠ EQUAL ∧ modulus ≠ 0))) ∧
    ((generalizedAffineImageVar g v relsym e den modulus).thrown = true →
      (generalizedAffineImageVar g v relsym e den modulus).g = g) :=
  ⟨(generalizedAffineImageVar_thrown g hI v relsym e den modulus).1, (generalizedAffineImageVar_thrown g hI v relsym e den modulus).2.1⟩

/-! ## the references are the K2 operators (`Props/C05.lean`) -/

/-- adding a congruence: the reference set is K2's `intersectCon` -/
theorem ref_add_congruence (G : GridGens) (cg : CRow) :
    gridSet G ∩ CRow.set cg = gridSet (intersectCon G cg.toCg) := (intersectCon_spec G cg.toCg).symm

/-- adding a congruence system: K2's `intersectCons` -/
theorem ref_add_congruences (G : GridGens) (rows : List CRow) :
    gridSet G ∩ cn_rowsSet rows = gridSet (intersectCons G (cgsOf rows)) := by
  rw [intersectCons_spec]
  congr 1
  ext x
  simp only [cn_rowsSet, cgsOf, Set.mem_ofPred_eq, List.mem_map, forall_exists_index, and_imp, forall_apply_eq_imp_iff₂]
  rfl

/-- cylindrification: K2's `addLine` -/
theorem ref_unconstrain (G : GridGens) (v : Nat) :
    {y | ∃ x ∈ gridSet G, ∃ c : ℚ, y = x + c • (unit v).toFun} = gridSet (addLine G (unit v)) := (addLine_spec G (unit v)).symm

/-! ## observers -/

/-- `is_disjoint_from(y)` (Grid_public.cc:2832): works on a copy of the receiver, may update the argument lazily, and
    answers according to the denoted sets -/
theorem is_disjoint_from_correct (x y : Grid) (hx : GridInv x) (hy : GridInv y) :
    ((isDisjointFrom x y).2.2 = none ↔ x.spaceDim ≠ y.spaceDim) ∧
    (isDisjointFrom x y).1 = x ∧
    GridInv (isDisjointFrom x y).2.1 ∧ (isDisjointFrom x y).2.1.sem = y.sem ∧
    (∀ b, (isDisjointFrom x y).2.2 = some b → (b = true ↔ x.sem ∩ y.sem = ∅)) := by
  obtain ⟨a, _, c, d, e, _, g⟩ := cn_isDisjointFrom updateCongruences_spec isEmpty_spec x y hx hy
  exact ⟨a, c, d, e, g⟩


/-- join and time-elapse against K2's generator form: the result is the least K2 grid containing the union, resp. all
    `p + μ q` (`Props/C05.lean`: `join_least`, `timeElapse_least` state the same of the K2 reference operators) -/
theorem upper_bound_assign_least (x y : Grid) (hx : GridInv x) (hy : GridInv y) (hd : x.spaceDim = y.spaceDim) :
    x.sem ⊆ (upperBoundAssign x y).x.sem ∧ y.sem ⊆ (upperBoundAssign x y).x.sem ∧
    ∀ K : GridGens, x.sem ⊆ gridSet K → y.sem ⊆ gridSet K → (upperBoundAssign x y).x.sem ⊆ gridSet K :=
  gn_upperBoundAssign_least ensureGenerators_spec x y hx hy hd

theorem time_elapse_assign_least (x y : Grid) (hx : GridInv x) (hy : GridInv y) (hd : x.spaceDim = y.spaceDim) :
    (∀ p ∈ x.sem, ∀ q ∈ y.sem, ∀ μ : Int, p + (μ : ℚ) • q ∈ (timeElapseAssign x y).x.sem) ∧
    ∀ K : GridGens, (∀ p ∈ x.sem, ∀ q ∈ y.sem, ∀ μ : Int, p + (μ : ℚ) • q ∈ gridSet K) →
      (timeElapseAssign x y).x.sem ⊆ gridSet K :=
  gn_timeElapseAssign_least ensureGenerators_spec x y hx hy hd

/-- the hypotheses of the binary statements on `x ≡ 0 (mod 2)` and `x ≡ 0 (mod 3)`; the code's join is the grid `ℤ` -/
example : GridInv cn_exGrid ∧ GridInv cn_exGrid3 ∧ cn_exGrid.spaceDim = cn_exGrid3.spaceDim ∧
    (upperBoundAssign cn_exGrid cn_exGrid3).x.gen =
      [{ line := false, e := [1, 0, 0] }, { line := false, e := [0, 2, 1] }, { line := false, e := [1, 0, 0] },
       { line := false, e := [0, 3, 1] }] :=
  ⟨cn_exGrid_inv, cn_exGrid3_inv, rfl, by decide +kernel⟩

/-- the argument of a binary operation keeps its invariant and its set (its lazy state may change) -/
theorem binary_argument_kept (x y : Grid) (hx : GridInv x) (hy : GridInv y) (hd : x.spaceDim = y.spaceDim) :
    (GridInv (intersectionAssign x y).y ∧ (intersectionAssign x y).y.sem = y.sem) ∧
    (GridInv (upperBoundAssign x y).y ∧ (upperBoundAssign x y).y.sem = y.sem) ∧
    (GridInv (timeElapseAssign x y).y ∧ (timeElapseAssign x y).y.sem = y.sem) := by
  obtain ⟨h1, _, h3⟩ := cn_intersectionAssign updateCongruences_spec x y hx hy
  have hnt : (intersectionAssign x y).thrown = false := by
    cases h : (intersectionAssign x y).thrown
    · rfl
    · exact absurd hd (h1.mp h)
  obtain ⟨_, b, _, d, _, _⟩ := h3 hnt
  obtain ⟨_, u2, _, _, _, u6, _⟩ := gn_upperBoundAssign ensureGenerators_spec x y hx hy hd
  obtain ⟨_, t2, _, _, _, t6, _⟩ := gn_timeElapseAssign ensureGenerators_spec x y hx hy hd
  exact ⟨⟨b, d⟩, ⟨u2, u6⟩, ⟨t2, t6⟩⟩

/-! ## affine preimage, dimensions -/

/-- `affine_preimage(var, expr, denominator)` (Grid_public.cc:2023): it throws exactly on `denominator = 0` or a dimension
    mismatch, and then (and on a marked-empty receiver) nothing changes -/
theorem affine_preimage_rejects (g : Grid) (v : Nat) (e : LinExpr) (den : Int) :
    ((affinePreimage g v e den).thrown = true ↔ (den = 0 ∨ g.spaceDim < e.spaceDim ∨ g.spaceDim < v + 1)) ∧
    ((affinePreimage g v e den).thrown = true → (affinePreimage g v e den).g = g) ∧
    (g.st.empty = true → (affinePreimage g v e den).g = g) := cn_affinePreimage_thrown g v e den

/-- the non-invertible path (`minimize()` if the congruences are not up to date, then `Congruence_System::affine_preimage`)
    and the invertible path on a grid whose generators are not up to date: the result denotes the preimage
    `{x | x[v := (⟨e,x⟩ + e₀)/den] ∈ G}` -/
theorem affine_preimage_correct_congruence_paths (g : Grid) (v : Nat) (e : LinExpr) (den : Int) (hI : GridInv g)
    (hne : g.st.empty = false) (hden : den ≠ 0) (hed : e.spaceDim ≤ g.spaceDim) (hv : v + 1 ≤ g.spaceDim)
    (hpath : ¬ (v + 1 ≤ e.spaceDim ∧ e.coeff v ≠ 0) ∨ g.st.gUp = false) :
    (affinePreimage g v e den).thrown = false ∧ GridInv (affinePreimage g v e den).g ∧
      (affinePreimage g v e den).g.sem = cn_preSet g.spaceDim v e den g.sem ∧
      (affinePreimage g v e den).g.spaceDim = g.spaceDim := by
  by_cases hinv : v + 1 ≤ e.spaceDim ∧ e.coeff v ≠ 0
  · rcases hpath with h | h
    · exact absurd hinv h
    · exact cn_affinePreimage_inv_con g v e den hI hne hden hed hv hinv h
  · exact cn_affinePreimage_noninv minimize_spec g v e den hI hne hden hed hv hinv

/-- every path, the invertible one with up-to-date generators included (`Grid_Generator_System::affine_image` with the
    inverse map: `genAffineImageInv_spec`) -/
theorem affine_preimage_full (g : Grid) (v : Nat) (e : LinExpr) (den : Int)
    (hI : GridInv g) (hne : g.st.empty = false) (hden : den ≠ 0) (hed : e.spaceDim ≤ g.spaceDim) (hv : v + 1 ≤ g.spaceDim) :
    (affinePreimage g v e den).thrown = false ∧ GridInv (affinePreimage g v e den).g ∧
      (affinePreimage g v e den).g.sem = cn_preSet g.spaceDim v e den g.sem ∧
      (affinePreimage g v e den).g.spaceDim = g.spaceDim := affinePreimage_full g v e den hI hne hden hed hv

/-- `affine_image(var, expr, denominator)` (Grid_public.cc:1932): rejects exactly `denominator = 0` and dimension
    mismatches (nothing changes then, nor on a marked-empty receiver); otherwise the image under
    `x ↦ x[v := (⟨e,x⟩ + e₀)/den]`, on the invertible and the non-invertible path -/
theorem affine_image_rejects (g : Grid) (v : Nat) (e : LinExpr) (den : Int) :
    ((affineImage g v e den).thrown = true ↔ (den = 0 ∨ g.spaceDim < e.spaceDim ∨ g.spaceDim < v + 1)) ∧
    ((affineImage g v e den).thrown = true → (affineImage g v e den).g = g) ∧
    (g.st.empty = true → (affineImage g v e den).g = g) := affineImage_thrown g v e den

theorem affine_image_correct (g : Grid) (v : Nat) (e : LinExpr) (den : Int) (hI : GridInv g) (hne : g.st.empty = false)
    (hden : den ≠ 0) (hed : e.spaceDim ≤ g.spaceDim) (hv : v + 1 ≤ g.spaceDim) :
    (affineImage g v e den).thrown = false ∧ GridInv (affineImage g v e den).g ∧
      (affineImage g v e den).g.sem = lzF v e den '' g.sem ∧ (affineImage g v e den).g.spaceDim = g.spaceDim :=
  affineImage_full g v e den hI hne hden hed hv

/-- `generalized_affine_image(var, EQUAL, expr, denominator, modulus)` (Grid_public.cc:2107): the affine image, and for
    `modulus ≠ 0` all its translates by integer multiples of `|modulus|·e_var`; the other relation symbols (modulus 0) add
    the line of `var` -/
theorem generalized_affine_image_var_equal (g : Grid) (v : Nat) (e : LinExpr) (den modulus : Int) (hI : GridInv g)
    (hne : g.st.empty = false) (hden : den ≠ 0) (hed : e.spaceDim ≤ g.spaceDim) (hv : v + 1 ≤ g.spaceDim) :
    (generalizedAffineImageVar g v EQUAL e den modulus).thrown = false ∧
    GridInv (generalizedAffineImageVar g v EQUAL e den modulus).g ∧
    (generalizedAffineImageVar g v EQUAL e den modulus).g.spaceDim = g.spaceDim ∧
    (modulus = 0 → (generalizedAffineImageVar g v EQUAL e den modulus).g.sem = lzF v e den '' g.sem) ∧
    (modulus ≠ 0 → (generalizedAffineImageVar g v EQUAL e den modulus).g.sem =
      {y | ∃ a ∈ lzF v e den '' g.sem, ∃ k : Int, y = a + (k : ℚ) • (fun i => if i = v then ((absI modulus : Int) : ℚ) else 0)}) :=
  generalizedAffineImageVar_equal g v e den modulus hI hne hden hed hv

theorem relsym_line_correct (g : Grid) (v : Nat) (hI : GridInv g) (hv : v + 1 ≤ g.spaceDim) :
    (relsymLine g v).thrown = false ∧ GridInv (relsymLine g v).g ∧ (relsymLine g v).g.spaceDim = g.spaceDim ∧
    (relsymLine g v).g.sem = {y | ∃ a ∈ g.sem, ∃ c : ℚ, y = a + c • (unit v).toFun} := relsymLine_spec g v hI hv

/-- `x₀ := x₀ + 1` read backwards on `x ≡ 0 (mod 2)` (invertible, congruences only) -/
example : (affinePreimage cn_exGrid 0 [1, 1] 1).g.con = [{ e := [1, 1], m := 2 }] := by decide

theorem construct_universe (m : Nat) (hm : 0 < m) :
    GridInv (constructDeg m true) ∧ (constructDeg m true).sem = spaceSet m ∧ (constructDeg m true).spaceDim = m :=
  ⟨(constructDeg_univ_spec m hm).1, (constructDeg_univ_spec m hm).2.1, constructDeg_spaceDim m true⟩

/-- `add_space_dimensions_and_embed(m)` on the 0-dimensional universe: the `m`-dimensional universe -/
theorem embed_zero_dim (g : Grid) (m : Nat) (hm : 0 < m) (he : g.st.empty = false) (h0 : g.spaceDim = 0) :
    GridInv (addSpaceDimensionsAndEmbed g m) ∧ (addSpaceDimensionsAndEmbed g m).sem = cn_embedSet g.spaceDim m g.sem ∧
      (addSpaceDimensionsAndEmbed g m).spaceDim = g.spaceDim + m := cn_embed_zdim construct_universe g m hm he h0

/-- `add_space_dimensions_and_project(m)`, congruences only and not minimized: the same points (the new coordinates are 0) -/
theorem project_congruences_only (g : Grid) (m : Nat) (hI : GridInv g) (hm : 0 < m) (he : g.st.empty = false)
    (hpos : 0 < g.spaceDim) (hc : g.st.cUp = true) (hg : g.st.gUp = false) (hcm : g.st.cMin = false) :
    GridInv (addSpaceDimensionsAndProject g m) ∧ (addSpaceDimensionsAndProject g m).sem = g.sem ∧
      (addSpaceDimensionsAndProject g m).spaceDim = g.spaceDim + m := cn_project_con g m hI hm he hpos hc hg hcm

/-- **KF-C05-9 as the code does it**: projecting the 0-dimensional universe into `m > 0` dimensions yields the whole space,
    which is not the documented single point -/
theorem project_zero_dim_fails (g : Grid) (m : Nat) (hm : 0 < m) (he : g.st.empty = false) (h0 : g.spaceDim = 0) :
    (addSpaceDimensionsAndProject g m).sem = spaceSet m ∧ (addSpaceDimensionsAndProject g m).sem ≠ g.sem :=
  ⟨(cn_project_zdim construct_universe g m hm he h0).2.1, cn_project_zero_dim_fails construct_universe g m hm he h0⟩

example : (addSpaceDimensionsAndProject (constructDeg 0 true) 1).gen =
    [{ line := false, e := [1, 0, 0] }, { line := true, e := [0, 1, 0] }] := by decide

/-- `remove_higher_space_dimensions(k)`: throws exactly when `k` exceeds the dimension; on an empty grid (detected by
    `is_empty()`) the empty grid of dimension `k`; `k = 0` on a non-empty grid: the 0-dimensional universe.
    (The two branches that chop a minimized description are only covered by the tie: `cn_removeHigher_con_partial`.) -/
theorem remove_higher_space_dimensions_cases (g : Grid) (k : Nat) (hI : GridInv g) :
    ((removeHigherSpaceDimensions g k).thrown = true ↔ g.spaceDim < k) ∧
    (k < g.spaceDim → g.sem = ∅ → GridInv (removeHigherSpaceDimensions g k).g ∧
      (removeHigherSpaceDimensions g k).g.sem = cn_projSet k g.sem ∧ (removeHigherSpaceDimensions g k).g.spaceDim = k) ∧
    (k = 0 → 0 < g.spaceDim → g.sem.Nonempty → GridInv (removeHigherSpaceDimensions g 0).g ∧
      (removeHigherSpaceDimensions g 0).g.sem = cn_projSet 0 g.sem ∧ (removeHigherSpaceDimensions g 0).g.spaceDim = 0) :=
  ⟨(cn_removeHigher_thrown g k).1, fun hlt hemp => cn_removeHigher_empty isEmpty_spec g k hI hlt hemp,
   fun _ hpos hne => cn_removeHigher_zero isEmpty_spec g hI hpos hne⟩

/-! ## observers return the reference's answer -/

/-- `is_empty()`, `minimize()`: the answers -/
theorem is_empty_answer (g : Grid) (hI : GridInv g) : ((GO.isEmpty g).2 = true ↔ g.sem = ∅) := (isEmpty_spec g hI).2.2.2.1
theorem minimize_answer (g : Grid) (hI : GridInv g) : ((GO.minimize g).2 = true ↔ (g.sem).Nonempty) :=
  (minimize_spec g hI).2.2.2.1

/-- `is_included_in(y)` (Grid_nonpublic.cc:246, private; precondition as asserted in the code): both objects keep
    invariant and set, the answer is the inclusion of the denoted sets -/
theorem is_included_in_correct (x y : Grid) (hx : GridInv x) (hy : GridInv y) (hex : x.st.empty = false)
    (hey : y.st.empty = false) (hn : 0 < x.spaceDim) (hd : x.spaceDim = y.spaceDim) :
    GridInv (isIncludedIn x y).1 ∧ GridInv (isIncludedIn x y).2.1 ∧ (isIncludedIn x y).1.sem = x.sem ∧
    (isIncludedIn x y).2.1.sem = y.sem ∧ ((isIncludedIn x y).2.2 = true ↔ x.sem ⊆ y.sem) := by
  obtain ⟨a, b, c, d, _, _, g⟩ := gn_isIncludedIn updateGenerators_spec updateCongruences_spec x y hx hy hex hey hn hd
  exact ⟨a, b, c, d, g⟩

example : cn_exGrid.st.empty = false ∧ cn_exGrid3.st.empty = false ∧ 0 < cn_exGrid.spaceDim ∧
    (isIncludedIn cn_exGrid cn_exGrid3).2.2 = false := ⟨rfl, rfl, by decide, by decide +kernel⟩

/-- `quick_equivalence_test`: `TVB_TRUE` is sound (both sources: syntactically equal minimized line-free generators,
    syntactically equal minimized equality-free congruences) -/
theorem quick_equivalence_test_true_sound : gn_QuickTrueSound := gn_quickTrueSound

/-- `contains(y)` (Grid_public.cc:2808): both objects keep invariant and set, the answer is `y ⊆ x` -/
theorem contains_correct (x y : Grid) (hx : GridInv x) (hy : GridInv y) (hd : x.spaceDim = y.spaceDim) :
    GridInv (GO.contains x y).1 ∧ GridInv (GO.contains x y).2.1 ∧ (GO.contains x y).1.sem = x.sem ∧
    (GO.contains x y).2.1.sem = y.sem ∧ ∃ b, (GO.contains x y).2.2 = some b ∧ (b = true ↔ y.sem ⊆ x.sem) := by
  obtain ⟨a, b, c, d, _, _, g⟩ := gn_contains x y hx hy hd
  exact ⟨a, b, c, d, g⟩

/-- `operator==`, `equals_partial`.  MISSING: the soundness of the `TVB_FALSE` answers of `quick_equivalence_test` on
    these two operands (different row counts / numbers of equalities / numbers of lines, or syntactically different
    minimized systems ⇒ different grids), i.e. uniqueness of the STRONG minimal form.  With `GridInv` as it stands that is
    false (`quick_false_needs_reduced_form` below): the invariant records the triangular form, not the reduction of the
    entries above the pivots that `simplify` / `conversion` also establish.  The driver compares every real answer of
    `operator==` and `quick_equivalence_test` with the K2 decider. -/
theorem equals_partial (x y : Grid) (hx : GridInv x) (hy : GridInv y) (hd : x.spaceDim = y.spaceDim)
    (hF : quickEquivalenceTest x y = TVB_FALSE → x.sem ≠ y.sem) :
    GridInv (GO.equals x y).1 ∧ GridInv (GO.equals x y).2.1 ∧ (GO.equals x y).1.sem = x.sem ∧ (GO.equals x y).2.1.sem = y.sem ∧
    ((GO.equals x y).2.2 = true ↔ x.sem = y.sem) := by
  obtain ⟨a, b, c, d, _, _, g⟩ := gn_equals_partial x y hx hy hd hF
  exact ⟨a, b, c, d, g⟩

/-- two raw states satisfying `GridInv` with minimized generators, both denoting `ℤ²`, on which the quick test answers
    `TVB_FALSE` (the second one is triangular but not reduced; the library never builds it) -/
theorem quick_false_needs_reduced_form : ¬ gn_QuickFalseSound := gn_quickFalseSound_fails

/-- `relation_with(const Grid_Generator&)` (Grid_public.cc:578): `subsumes` exactly when the point lies in the grid, resp.
    the grid is non-empty and closed under the integer (parameter) / rational (line) multiples of the direction -/
theorem relation_with_generator_correct (g : Grid) (hI : GridInv g) (x : GRow) (hx : gn_RowOK x) (hd : x.spaceDim ≤ g.spaceDim) :
    GridInv (relationWithGen g x).1 ∧ (relationWithGen g x).1.sem = g.sem ∧
    ∃ b, (relationWithGen g x).2 = some b ∧ (b = true ↔ gn_Subsumes g.sem x) := by
  obtain ⟨a, b, _, c⟩ := gn_relationWithGen g hI x hx hd
  exact ⟨a, b, c⟩

/-- `relation_with(const Congruence&)` (Grid_public.cc:390, the whole gcd bookkeeping of the loop): is_disjoint ↔ empty
    intersection, is_included ↔ inclusion, strictly_intersects ↔ neither, saturates ⇒ included (and, on a non-empty grid of
    dimension > 0, saturates ↔ included ∧ equality) -/
theorem relation_with_congruence_correct (g : Grid) (hI : GridInv g) (cg : CRow) (hd : cg.spaceDim ≤ g.spaceDim) (hm : 0 ≤ cg.m) :
    GridInv (relationWithCg g cg).1 ∧ (relationWithCg g cg).1.sem = g.sem ∧
    ∃ rel, (relationWithCg g cg).2 = some rel ∧ gn_RelOK rel g.sem (CRow.set cg) ∧
      (0 < g.spaceDim → g.sem.Nonempty → (rel.saturates = true ↔ rel.included = true ∧ cg.isEquality = true)) := by
  obtain ⟨a, b, _, c⟩ := gn_relationWithCg g hI cg hd hm
  exact ⟨a, b, c⟩

/-- `relation_with(const Constraint&)`, equalities: as a congruence -/
theorem relation_with_constraint_equality_correct (g : Grid) (hI : GridInv g) (c : Con) (hd : c.spaceDim ≤ g.spaceDim)
    (hk : c.isEquality = true) :
    GridInv (relationWithCon g c).1 ∧ (relationWithCon g c).1.sem = g.sem ∧
    ∃ rel, (relationWithCon g c).2 = some rel ∧ gn_RelOK rel g.sem (cn_conSet c) := by
  obtain ⟨a, b, _, rel, e, ok, _⟩ := gn_relationWithCon_equality g hI c hd hk
  exact ⟨a, b, rel, e, ok⟩

/-- `relation_with(const Constraint&)`, inequalities (repaired code), on up-to-date generators with ONE point row: the
    object is untouched and the four answers are those of the denoted set.  With several point rows the `const` function
    rewrites the later points into parameters (KF-C05-16, open): not covered. -/
theorem relation_with_constraint_inequality_one_point (g : Grid) (hI : GridInv g) (c : Con) (hd : c.spaceDim ≤ g.spaceDim)
    (hk : c.isEquality = false) (hn : 0 < g.spaceDim) (he : g.st.empty = false) (hg : g.st.gUp = true)
    (hone : (g.gen.filter gn_isPt).length = 1) :
    (relationWithCon g c).1 = g ∧ ∃ rel, (relationWithCon g c).2 = some rel ∧ gn_ConRelOK rel g.sem c :=
  gn_relationWithCon_ineq_gUp g hI c hd hk hn he hg hone

/-- `bounds_from_above/below` (Grid_nonpublic.cc:288): `true` exactly when the expression is constant on the grid -/
theorem bounds_correct (g : Grid) (e : LinExpr) (hI : GridInv g) :
    ((bounds g e).2 = none ↔ g.spaceDim < e.spaceDim) ∧ GridInv (bounds g e).1 ∧ (bounds g e).1.sem = g.sem ∧
    (∀ b, (bounds g e).2 = some b → (b = true ↔ cn_Const e g.sem)) := by
  obtain ⟨a, b, c, _, d⟩ := cn_bounds g e hI
  exact ⟨a, b, c, d⟩

/-- `maximize` / `minimize` (`max_min`, Grid_nonpublic.cc:423): succeeds exactly on a non-empty grid on which the expression
    is constant, and then returns that value as a reduced fraction with positive denominator -/
theorem max_min_correct (g : Grid) (e : LinExpr) (hI : GridInv g) :
    ((maxMin g e).2 = none ↔ g.spaceDim < e.spaceDim) ∧ GridInv (maxMin g e).1 ∧ (maxMin g e).1.sem = g.sem ∧
    (∀ mm, (maxMin g e).2 = some mm →
      (mm.ok = true ↔ g.sem.Nonempty ∧ cn_Const e g.sem) ∧
      (mm.ok = true → 0 < mm.den ∧ Int.gcd mm.num mm.den = 1 ∧ mm.included = true ∧
        ∀ x ∈ g.sem, evalRow e x = (mm.num : ℚ) / (mm.den : ℚ))) := by
  obtain ⟨a, b, c, _, d⟩ := cn_maxMin g e hI
  exact ⟨a, b, c, d⟩

/-- `frequency` (Grid_public.cc:2745, `frequency_no_check`): fails exactly on the empty grid or when a line moves the
    expression; otherwise (`cn_FreqOK`) `fn/fd ≥ 0` reduced generates the differences of the values and is itself a
    difference, `vn/vd` reduced is a value attained on the grid with `|2·val| ≤ freq` -/
theorem frequency_correct (g : Grid) (e : LinExpr) (hI : GridInv g) :
    ((frequency g e).2 = none ↔ g.spaceDim < e.spaceDim) ∧ GridInv (frequency g e).1 ∧ (frequency g e).1.sem = g.sem ∧
    (∀ fr, (frequency g e).2 = some fr →
      (fr.ok = false ↔ g.sem = ∅ ∨ cn_LineMoves e g.sem) ∧ (fr.ok = true → cn_FreqOK e g.sem fr)) := by
  obtain ⟨a, b, c, _, d⟩ := cn_frequency g e hI
  exact ⟨a, b, c, d⟩

/-- `is_discrete()`: `true` exactly when the grid contains no rational line -/
theorem is_discrete_correct (g : Grid) (hI : GridInv g) :
    GridInv (isDiscrete g).1 ∧ (isDiscrete g).1.sem = g.sem ∧ ((isDiscrete g).2 = true ↔ ¬ cn_HasLine g.sem) := by
  obtain ⟨a, b, _, c⟩ := cn_isDiscrete g hI
  exact ⟨a, b, c⟩

/-- `is_universe()`: `true` exactly when the grid is the whole space -/
theorem is_universe_correct (g : Grid) (hI : GridInv g) :
    GridInv (isUniverse g).1 ∧ (isUniverse g).1.sem = g.sem ∧ ((isUniverse g).2 = true ↔ g.sem = {x | Supp g.spaceDim x}) := by
  obtain ⟨a, b, _, c⟩ := gn_isUniverse g hI
  exact ⟨a, b, c⟩

/-- `is_bounded()`: `true` exactly when the grid has at most one point -/
theorem is_bounded_correct (g : Grid) (hI : GridInv g) :
    GridInv (isBounded g).1 ∧ (isBounded g).1.sem = g.sem ∧ ((isBounded g).2 = true ↔ g.sem.Subsingleton) := by
  obtain ⟨a, b, _, c⟩ := gn_isBounded g hI
  exact ⟨a, b, c⟩

/-- `constrains(var)`: `false` exactly when the grid is non-empty and invariant under every change of coordinate `var`
    (the syntactic test on non-minimized up-to-date congruences is exact too) -/
theorem constrains_correct (g : Grid) (v : Nat) (hI : GridInv g) :
    ((constrains g v).2 = none ↔ g.spaceDim < v + 1) ∧ GridInv (constrains g v).1 ∧ (constrains g v).1.sem = g.sem ∧
    (∀ b, (constrains g v).2 = some b → (b = false ↔ cn_Unconstrained v g.sem)) := by
  obtain ⟨a, b, c, _, d⟩ := cn_constrains g v hI
  exact ⟨a, b, c, d⟩

/-- `difference_assign(y)` (Grid_public.cc:1649): both objects keep their invariants, the argument its set, and the result
    is sound as K2's reference `difference` is (`C05.difference_sound`): `G ∖ H ⊆ D ⊆ G` -/
theorem difference_assign_sound (x y : Grid) (hx : GridInv x) (hy : GridInv y) (hd : x.spaceDim = y.spaceDim) :
    GridInv (differenceAssign x y).x ∧ GridInv (differenceAssign x y).y ∧ (differenceAssign x y).thrown = false ∧
    (differenceAssign x y).y.sem = y.sem ∧ x.sem \ y.sem ⊆ (differenceAssign x y).x.sem ∧
    (differenceAssign x y).x.sem ⊆ x.sem := by
  obtain ⟨a, b, c, _, _, d, e, f⟩ := gn_differenceAssign x y hx hy hd
  exact ⟨a, b, c, d, e, f⟩

/-- `expand_space_dimension(v, m)`: rejected exactly when `v` is not a dimension, and then unchanged; `m = 0` unchanged -/
theorem expand_space_dimension_rejects (g : Grid) (v m : Nat) (hI : GridInv g) :
    ((expandSpaceDimension g v m).thrown = true ↔ g.spaceDim < v + 1) ∧
    ((expandSpaceDimension g v m).thrown = true → (expandSpaceDimension g v m).g = g) ∧
    (v < g.spaceDim → m = 0 → (expandSpaceDimension g v m).g = g) :=
  ⟨(cn_expandSpaceDimension g v m hI).1, (cn_expandSpaceDimension g v m hI).2.1, (cn_expandSpaceDimension g v m hI).2.2.1⟩

/-- `map_space_dimensions(pfunc)` with a permutation that moves something: the image under the coordinate permutation.
    (Also proved: dimension 0, empty codomain, the identity, the non-permutation case on an empty grid — `cn_mapSD_*`;
    NOT proved: the non-permutation case on a non-empty grid, rows rebuilt through `grid_line`/`parameter`/`grid_point`.) -/
theorem map_space_dimensions_permutation (g : Grid) (pf : PFunc) (hI : GridInv g) (he : g.st.empty = false)
    (hpos : 0 < g.spaceDim) (hne : pf.hasEmptyCodomain = false) (hdim : pf.maxInCodomain + 1 = g.spaceDim)
    (hmoved : ((List.range g.spaceDim).any fun j => pf.maps j ≠ some j) = true) (hperm : cn_IsPerm pf g.spaceDim) :
    (mapSpaceDimensions g pf).thrown = false ∧ GridInv (mapSpaceDimensions g pf).g ∧
      (mapSpaceDimensions g pf).g.spaceDim = g.spaceDim ∧
      (mapSpaceDimensions g pf).g.sem = cn_pfMap pf g.spaceDim '' g.sem :=
  cn_mapSD_perm g pf hI he hpos hne hdim hmoved hperm

/-- `generalized_affine_preimage(var, EQUAL, expr, d, m)`, `m ≠ 0`, `expr` without `var` (the path that adds the induced
    congruence and then the line of `var`): the cylinder over `var` of the points satisfying the congruence.
    (`m = 0`: `affine_preimage`; other relation symbols: the line of `var`; `expr` with `var`, `m ≠ 0`: what the code
    computes is `generalizedAffinePreimageVar_equal_inv` — it is NOT the documented relation, open finding KF-C05-10.) -/
theorem generalized_affine_preimage_var_noninvertible (g : Grid) (v : Nat) (e : LinExpr) (den modulus : Int) (hI : GridInv g)
    (hne : g.st.empty = false) (hden : den ≠ 0) (hed : e.spaceDim ≤ g.spaceDim) (hv : v + 1 ≤ g.spaceDim)
    (hm : modulus ≠ 0) (hninv : ¬ (v + 1 ≤ e.spaceDim ∧ e.coeff v ≠ 0)) :
    (generalizedAffinePreimageVar g v EQUAL e den modulus).thrown = false ∧
    GridInv (generalizedAffinePreimageVar g v EQUAL e den modulus).g ∧
    (generalizedAffinePreimageVar g v EQUAL e den modulus).g.sem =
      {y | ∃ a ∈ g.sem ∩ CRow.set (preimageCg v e den modulus), ∃ c : ℚ, y = a + c • (unit v).toFun} := by
  obtain ⟨a, b, _, c⟩ := generalizedAffinePreimageVar_equal_noninv g v e den modulus hI hne hden hed hv hm hninv
  exact ⟨a, b, c⟩

/-- … rejected calls (argument checks) for every receiver, unchanged object -/
theorem generalized_affine_preimage_var_rejects (g : Grid) (hI : GridInv g) (v : Nat) (relsym : Nat) (e : LinExpr)
    (den modulus : Int) :
    ((generalizedAffinePreimageVar g v relsym e den modulus).thrown = true ↔
      (den = 0 ∨ g.spaceDim < e.spaceDim ∨ g.spaceDim < v + 1 ∨ relsym = NOT_EQUAL ∨ (relsym ≠ EQUAL ∧ modulus ≠ 0))) ∧
    ((generalizedAffinePreimageVar g v relsym e den modulus).thrown = true →
      (generalizedAffinePreimageVar g v relsym e den modulus).g = g) :=
  ⟨(generalizedAffinePreimageVar_thrown g hI v relsym e den modulus).1,
   (generalizedAffinePreimageVar_thrown g hI v relsym e den modulus).2.1⟩

/-! ## clauses the unchanged code violates (open findings)

* KF-C05-9: `project_zero_dim_fails` above.
* KF-C05-25 (fixed, 1e4d543): the historical witness below (`…_before_fix_fails`).
* KF-C05-16 (open) / KF-C05-26 (fixed, 963a718) (`relation_with(Constraint)` rewrites later points into parameters inside the `const` object; a
  reference into a sparse row dangles): the rewriting is modelled as written (`pointToParameter`, `relConLoop`; the driver
  finds the real post-state outside `invB`), the dangling reference is undefined behaviour of the C++ and cannot be
  modelled — the tie reports it as `state` + `sem` on the real output. -/

/-- the grid `{3}` of the line, generators only -/
def kf25Grid : Grid :=
  { spaceDim := 1, st := { gUp := true }, conDim := 1, con := [], genDim := 1, gen := [{ line := false, e := [1, 3, 0] }], dk := [] }
/-- the constraint `1 > 0` built in dimension 0 -/
def kf25Con : Con := { kind := 2, inconsistent := false, tautological := true, e := [1] }

/-- **KF-C05-25, historical** (repaired in /repo by 1e4d543; `relationWithConBeforeFix` is the code before the repair,
    `relationWithCon` the repaired code, which answers `is_included` here): on the grid `{3}` the
    strict inequality `1 > 0` of space dimension 0 is answered `is_disjoint` — the ε-coefficient of the constraint row
    meets the coordinate of the point (`Scalar_Products::sign(c, g)` over the whole row, Grid_public.cc:721) — although every
    point of the grid satisfies it.  The model `relationWithCon` reproduces the library's answer (tie: 0 `modelret`
    differences), so the clause "relations with constraints answer according to the set" fails on this input. -/
theorem relation_with_constraint_strict_lower_dimension_before_fix_fails :
    GridInv kf25Grid ∧ (relationWithConBeforeFix kf25Grid kf25Con).2 = some { disjoint := true } ∧
      (relationWithCon kf25Grid kf25Con).2 = some { included := true } ∧
      kf25Grid.sem ⊆ cn_conSet kf25Con ∧ (kf25Grid.sem).Nonempty := by
  have hw : GWf kf25Grid.spaceDim kf25Grid.gen := by
    intro r hr; simp [kf25Grid] at hr; subst hr; rfl
  have hN : GNorm kf25Grid.spaceDim 1 kf25Grid.gen := by
    refine ⟨by decide, ⟨_, List.mem_cons_self, rfl, rfl⟩, ?_, ?_, ?_⟩
    · intro r hr _; simp [kf25Grid] at hr; subst hr; right; rfl
    · intro r hr _ h0; simp [kf25Grid] at hr; subst hr; simp [Red.get] at h0
    · intro r hr hl; simp [kf25Grid] at hr; subst hr; cases hl
  obtain ⟨hI, hs⟩ := gn_inv_gens (g := kf25Grid) (by decide) rfl rfl rfl rfl rfl rfl rfl hw hN
  refine ⟨hI, by decide, by decide, ?_, ?_⟩
  · intro x _
    show (if kf25Con.kind = 0 then evalRow kf25Con.e x = 0 else if kf25Con.kind = 2 then 0 < evalRow kf25Con.e x
      else 0 ≤ evalRow kf25Con.e x)
    simp [kf25Con, evalRow_eq, ratRow, dotF, Red.get]
  · obtain ⟨_, _, hgn⟩ := hI.gwf rfl (by decide) rfl
    exact lz_gensSet_nonempty hgn |> fun h => by
      have : kf25Grid.sem = gensSet kf25Grid.spaceDim kf25Grid.gen := lz_sem_of_gUp rfl (by decide) rfl
      rw [this]; exact h

end C05
