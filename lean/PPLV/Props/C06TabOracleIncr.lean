import PPLV.Solver.PendingProofsIncr17
import PPLV.Props.C06TabOracle

/-!
# C06 stage 3 — branch-and-bound over the modelled simplex with INCREMENTAL re-solving, no oracle hypothesis

`modelOracleIncr fc fuel k` (executable, `PPLV/Solver/PendingOracleIncr.lean`): a node is solved by building the
`MIP_Problem` of its first `min k rows.length` rows, `is_lp_satisfiable()` + `second_phase()`, and then, for each
remaining row in order, `add_constraint`, `is_lp_satisfiable()` (an INCREMENTAL `process_pending_constraints`:
re-merging, old rows, rows combined against the base, …), `second_phase()`; UNSATISFIABLE is sticky.  This is how
the real `solve_mip` treats the branching constraints of a child (`k = rows.length − 1`).
`model_oracle_incr_ok`: this oracle satisfies `BB.OracleOK` for every `k` and every candidate-choosing pricing
rule; `solve_mip_end_to_end_incremental`: hence `solveTop` over it returns the true MIP answer.
Not covered: termination (fuels), zero-dimensional nodes (`none`).
-/
namespace C06
open PPLV.Lin PPLV.Solver PPLV.Solver.BB PPLV.Solver.Pend

/-- one step `add_constraint(c); is_lp_satisfiable(); second_phase()` from a solved state (`SolvedInv`: everything
    processed, `ReadyS`) answers correctly about the enlarged constraint system and re-establishes `SolvedInv` -/
theorem incremental_step_correct (fc : Chooser) (hfc : ChooserOK fc) : IncrStepSpec fc := incr_step_spec fc hfc

/-- **the incrementally re-solving oracle induced by the LP machinery model is correct**, for every split point
    `k` and every pricing rule returning candidates -/
theorem model_oracle_incr_ok (fc : Chooser) (hfc : ChooserOK fc) (fuel k : Nat) :
    OracleOK (modelOracleIncr fc fuel k) :=
  modelOracleIncr_ok fc hfc (incr_step_spec fc hfc) fuel k

/-- **END TO END with incremental re-solving, no oracle hypothesis**: branch-and-bound over the modelled two-phase
    simplex where each node's last rows are added one by one to an already solved problem: when it returns, the
    answer is the true one (as in `solve_mip_end_to_end`). -/
theorem solve_mip_end_to_end_incremental (fc : Chooser) (hfc : ChooserOK fc) (fuelLP fuelBB k : Nat) (N : Node)
    (hwf : N.toProblem.WF) (out : Outcome) (h : solveTop (modelOracleIncr fc fuelLP k) fuelBB N = some out) :
    match out with
    | .unfeasible => IsUnfeasible N.toProblem
    | .unbounded p => IsUnbounded N.toProblem ∧ Feasible N.toProblem p.val
    | .optimized v p => IsOptimum N.toProblem v ∧ Feasible N.toProblem p.val ∧ N.toProblem.objVal p.val = v := by
  have hs := solve_mip_sound (modelOracleIncr fc fuelLP k) (model_oracle_incr_ok fc hfc fuelLP k) N hwf fuelBB out h
  cases out <;> exact hs

-- max x0 + x1; x0 ≤ 2, x1 ≤ 3 solved first, then x0 + x1 ≤ 4 added incrementally
example : modelOracleIncr textbookChooser 50 2
    ⟨2, [⟨[-1, 0], 2, false⟩, ⟨[0, -1], 3, false⟩, ⟨[-1, -1], 4, false⟩], [], ⟨[1, 1], 0⟩, true⟩ =
    modelOracle textbookChooser 50
      ⟨2, [⟨[-1, 0], 2, false⟩, ⟨[0, -1], 3, false⟩, ⟨[-1, -1], 4, false⟩], [], ⟨[1, 1], 0⟩, true⟩ := by
  decide +kernel
-- the MIP of `C06TabOracle` (max x0, 1/2 ≤ x0 ≤ 3/2, x0 integer) with every child re-solved incrementally
example : solveTop (modelOracleIncr textbookChooser 50 1) 5
    ⟨1, [⟨[-2], 3, false⟩, ⟨[2], -1, false⟩], [0], ⟨[1], 0⟩, true⟩ = some (.optimized 1 ⟨[1], 1⟩) := by
  decide +kernel

end C06
