import PPLV.Solver.PIPProofs

/-!
# C07 — PIP solver: the tree yields the lexicographic minimum for every parameter value

What is proved here (for all trees, problems and parameter values — nothing is bounded):

* the meaning of a solution tree is a *function* of the parameter values: the relational
  "spanning" of the class documentation (`Spans`) has exactly one outcome, the one `Tree.eval`
  computes (`eval_deterministic`, `eval_spans`);
* a well-scoped tree never evaluates to `scopeError` (`eval_no_scope_error`);
* the reference `lexminRef` is **sound whenever it answers**: `point p` — `p` is feasible,
  non-negative, integral and lexicographically ≤ every feasible non-negative integer point;
  `bottom` — there is no such point (`lexmin_spec_partial`);  the decision `feasibleB` used for
  cross-checks is exact (`feasible_decided`);
* stage 2, the Gomory cut of `PIP_Solution_Node::generate_cut`: every integer solution of the
  tableau row satisfies the cut (`gomory_cut_valid`) and the two context rows say exactly that the
  new artificial parameter is the floor (`gomory_context_rows_floor`).

The run-time part (`Driver/PIP.lean`, `checks/c07.py`) evaluates the trees of the real
`PIP_Problem` with `Tree.eval` and compares with `lexminRef` at every valuation of a box.
The simplex / sign analysis / cut *selection* of `PIP_Tree.cc` is not modelled.
-/
namespace C07
open PPLV.PIP

/-! ### the tree semantics -/

/-- Spanning a tree under given parameter values has at most one outcome. -/
theorem eval_deterministic (t : Tree) (θ : List Int) (r₁ r₂ : Result)
    (h₁ : Spans t θ r₁) (h₂ : Spans t θ r₂) : r₁ = r₂ := by
  rw [← spans_unique h₁, ← spans_unique h₂]

/-- … and exactly one: the outcome is `Tree.eval t θ`. -/
theorem eval_spans (t : Tree) (θ : List Int) (r : Result) : Spans t θ r ↔ t.eval θ = r :=
  ⟨spans_unique, fun h => h ▸ spans_eval t θ⟩

/-- the solution tree of the class documentation:
    `if n ≥ 2 then (if m ≥ 2 then {2 ; 2} else (E = m div 2 ; if 2n + 3m ≥ 8 then {-m - E + 4 ; m} else ⊥)) else ⊥` -/
def docTree : Tree :=
  .dec [] [⟨⟨[1, 0], -2⟩, .ge⟩]
    (.dec [] [⟨⟨[0, 1], -2⟩, .ge⟩]
      (.sol [] [] [⟨⟨[], 2⟩, 1⟩, ⟨⟨[], 2⟩, 1⟩])
      (.sol [⟨⟨[0, 1], 0⟩, 2⟩] [⟨⟨[2, 3], -8⟩, .ge⟩] [⟨⟨[0, -1, -1], 4⟩, 1⟩, ⟨⟨[0, 1], 0⟩, 1⟩]))
    .bottom

example : docTree.eval [5, 7] = .point [2, 2] ∧ docTree.eval [3, 1] = .point [3, 1]
    ∧ docTree.eval [1, 9] = .bottom ∧ docTree.eval [2, 0] = .bottom := by decide

/-- A well-scoped tree — every expression mentions only problem parameters and artificial
    parameters declared above it — never yields `scopeError`. -/
theorem eval_no_scope_error (t : Tree) (θ : List Int) (h : t.wellScoped θ.length = true) :
    t.eval θ ≠ .scopeError := PPLV.PIP.eval_no_scope_error t θ h

example : docTree.wellScoped 2 = true := by decide
/-- the hypothesis is needed: the shape returned by the unchanged library for
    `{A - 3C + 3 = 0, -2A + 3D + 4 > 0, A - 2B + 1 = 0}` (KF-C07-2) uses undeclared parameters -/
example : (Tree.sol [] [⟨⟨[1, 0], -2⟩, .ge⟩] [⟨⟨[1, 0, 0, -1], 1⟩, 1⟩, ⟨⟨[1, 0, -1], -1⟩, 1⟩]).eval [3, 2]
    = .scopeError := by decide

/-! ### the reference -/

/-- **Soundness of the reference** (all problems, all parameter values, all windows `W`;
    unbounded regions included).  `_partial`: the reference may answer `unknown` (a coordinate
    unbounded in the relaxation and no point inside the window); completeness — "never `unknown`
    when the relaxation is bounded" — is not proved, the driver counts such valuations. -/
theorem lexmin_spec_partial (W : Nat) (P : Problem) (θ : List Int) :
    (∀ p, lexminRef W P θ = .point p →
        P.feasible θ p ∧ ∀ y, P.feasible θ y → lexLe p y) ∧
    (lexminRef W P θ = .bottom → ∀ y, ¬ P.feasible θ y) := by
  have h := lexminRef_ok W P θ
  constructor
  · intro p hp
    rw [hp] at h
    exact ⟨(feasible_iff_feasR P θ p).mpr h.1, fun y hy => h.2 y ((feasible_iff_feasR P θ y).mp hy)⟩
  · intro hb y hy
    rw [hb] at h
    exact h y ((feasible_iff_feasR P θ y).mp hy)

/-- feasibility of a given point is decided exactly -/
theorem feasible_decided (P : Problem) (θ x : List Int) : P.feasibleB θ x = true ↔ P.feasible θ x :=
  feasibleB_iff P θ x

/-- the example of the class documentation: `3j ≥ -2i + 8, j ≤ 4i - 4, i ≤ n, j ≤ m` -/
def docProblem : Problem :=
  { nv := 2, np := 2,
    rows := [⟨[2, 3], [], -8, .ge⟩, ⟨[4, -1], [], -4, .ge⟩, ⟨[0, -1], [0, 1], 0, .ge⟩, ⟨[-1, 0], [1, 0], 0, .ge⟩] }

example : lexminRef 50 docProblem [5, 7] = .point [2, 2] ∧ lexminRef 50 docProblem [3, 1] = .point [3, 1]
    ∧ lexminRef 50 docProblem [1, 9] = .bottom := by decide +kernel
/-- an unbounded region with a minimum, and one where the window is exhausted -/
example : lexminRef 10 ⟨2, 1, [⟨[1, 1], [-1], 0, .ge⟩]⟩ [7] = .point [0, 7]
    ∧ lexminRef 10 ⟨2, 0, [⟨[2, -2], [], -1, .eq⟩]⟩ [] = .unknown := by decide +kernel

/-- `{A + B ≤ 0}`, parameter `B` (defect 14 of DESIGN §9, KF-C07-1) -/
def p14 : Problem := { nv := 1, np := 1, rows := [⟨[-1], [-1], 0, .ge⟩] }

/-- The clause "the status is *unfeasible* exactly when the result is bottom for all assignments"
    fails on the unchanged library: it answers `UNFEASIBLE_PIP_PROBLEM` for `p14`, but `B = 0`
    is inside the (empty) context and admits `A = 0`. -/
theorem status_unfeasible_clause_fails :
    ¬ (∀ θ, p14.inContext θ = true → ∀ x, ¬ p14.feasible θ x) := by
  intro h
  exact h [0] (by decide) [0] ((feasibleB_iff p14 [0] [0]).mp (by decide))

example : lexminRef 8 p14 [0] = .point [0] ∧ lexminRef 8 p14 [1] = .bottom := by decide +kernel

/-! ### stage 2: the Gomory cut of `generate_cut` -/

/-- Every integer solution of the tableau row `d·x = s·y + t·p + t₀` (`y ≥ 0`) satisfies the cut
    `Σ (sⱼ mod d) yⱼ - Σ ((-tₖ) mod d) pₖ - ((-t₀) mod d) + d·q ≥ 0`, where `q` is the new
    artificial parameter `⌊(Σ ((-tₖ) mod d) pₖ + ((-t₀) mod d)) / d⌋` (`mod` = `pos_rem_assign`). -/
theorem gomory_cut_valid (r : CutRow) (hd : 0 < r.d) (y p : List Int) (x : Int)
    (hy : ∀ v ∈ y, 0 ≤ v) (hrow : r.d * x = dotI r.s y + dotI r.t p + r.t0) :
    r.cut.holds y p (Int.fdiv (dotI r.artNum.cs p + r.artNum.k) r.d) :=
  cut_valid r hd y p x hy hrow

/-- The two rows `e - d·q ≥ 0`, `d·q + d - 1 - e ≥ 0` added to the context define exactly
    `q = ⌊e / d⌋`. -/
theorem gomory_context_rows_floor (e d q : Int) (hd : 0 < d) :
    (0 ≤ e - d * q ∧ 0 ≤ d * q + d - 1 - e) ↔ q = Int.fdiv e d :=
  context_rows_iff_floor e d q hd

/-- the row `2·x = y₁ + 3·p₁ + 1`: cut `y₁ - p₁ - 1 + 2q ≥ 0` with `q = (p₁ + 1) div 2` -/
example : (CutRow.mk 2 [1] [3] 1).cut.s = [1] ∧ (CutRow.mk 2 [1] [3] 1).cut.t = [-1]
    ∧ (CutRow.mk 2 [1] [3] 1).cut.k = -1 ∧ (CutRow.mk 2 [1] [3] 1).artNum = ⟨[1], 1⟩ := by decide
/-- the cut is not vacuous: it excludes the fractional vertex `y₁ = 0` at `p₁ = 2` (`x = 7/2`) -/
example : ¬ (CutRow.mk 2 [1] [3] 1).cut.holds [0] [2] (Int.fdiv (2 + 1) 2) := by
  unfold Cut.holds; decide

end C07
