import PPLV.Solver.PIP
namespace C07
open PPLV.PIP
theorem placeholder : (1 : Nat) = 1 := rfl
end C07
