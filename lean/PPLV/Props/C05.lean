import PPLV.Lattice.ProofsDecide
import Mathlib.Data.Set.Basic

/-!
# C05 — grids: congruence and generator descriptions agree, operations are exact

Property statements only.  `Gen.sem G : Set Pt` is the point set of a generator-form grid
(`Pt = ℕ → ℚ`, zero beyond the space dimension), `Cg.sem c` the point set of a congruence
`⟨a,x⟩ + b ≡ 0 (mod f)`, `CgSys.sem n C` that of a congruence system in dimension `n`.
-/
namespace C05
open PPLV.Lattice

/-- point set of a generator-form grid (`Gen.sem` as a `Set`) -/
def gridSet (G : GridGens) : Set Pt := {x | Gen.sem G x}
/-- point set of one congruence -/
def cgSet (c : Cg) : Set Pt := {x | c.sem x}
/-- point set of a congruence system in dimension `n` -/
def cgSysSet (n : Nat) (C : List Cg) : Set Pt := {x | CgSys.sem n C x}

/-- the verified core: intersecting a generator-form grid with one congruence -/
theorem intersectCon_spec (G : GridGens) (c : Cg) :
    gridSet (intersectCon G c) = gridSet G ∩ cgSet c := by
  ext x; exact intersectCon_sem G c x

example : Gen.sem (intersectCon (univ 1) ⟨[1], 0, 2⟩) (Vec.toFun [4]) := by
  rw [← memB_iff]; decide +kernel

/-- conversion of a congruence system (fold from the universe) -/
theorem consToGens_spec (n : Nat) (C : List Cg) :
    gridSet (consToGens n C) = cgSysSet n C := by
  ext x; exact consToGens_sem n C x

/-- membership decider -/
theorem memB_iff (G : GridGens) (v : Vec) : memB G v = true ↔ v.toFun ∈ gridSet G :=
  PPLV.Lattice.memB_iff G v

/-- inclusion decider: sound and complete -/
theorem subset_iff (G H : GridGens) :
    subsetB G H = true ↔ gridSet G ⊆ gridSet H := subsetB_iff G H

/-- equivalence decider: sound and complete -/
theorem equiv_iff (G H : GridGens) :
    equivB G H = true ↔ gridSet G = gridSet H := by
  rw [equivB_iff]
  constructor
  · intro h; ext x; exact h x
  · intro h x; exact Set.ext_iff.mp h x

example : equivB (consToGens 2 [⟨[1,0], -1, 2⟩, ⟨[1,1], 0, 3⟩]) (consToGens 2 [⟨[1,1], 0, 3⟩, ⟨[3,0], -3, 6⟩]) = true := by
  decide +kernel
example : equivB (consToGens 1 [⟨[1], 0, 2⟩]) (consToGens 1 [⟨[1], 0, 4⟩]) = false := by decide +kernel

/-- `G ⊆ sem c` decided on the generators -/
theorem satCg_iff (G : GridGens) (c : Cg) :
    satCgB G c = true ↔ gridSet G ⊆ cgSet c := satCgB_iff G c

end C05
