import PPLV.Lattice.ProofsQueries
import PPLV.Lattice.ProofsFreq
import PPLV.Lattice.ProofsDiff
import PPLV.Lattice.ProofsRel
import PPLV.Lattice.ProofsIneq
import PPLV.Lattice.ProofsConcat
import Mathlib.Data.Set.Image

/-!
# C05 — grids: congruence and generator descriptions agree, operations are exact

Property statements only (helper lemmas are in `PPLV/Lattice/Proofs*.lean`).

* `gridSet G : Set Pt` — the point set of a generator-form grid `G` (`Pt = ℕ → ℚ`; the points of an
  `n`-dimensional grid vanish beyond coordinate `n`): the point, closed under integer multiples of the
  parameters and rational multiples of the lines (`Gen.sem`, inductive).
* `cgSet c` — the point set of a congruence `⟨a,x⟩ + b ≡ 0 (mod f)` (`f = 0`: equality);
  `cgSysSet n C` — that of a congruence system in dimension `n`.

The driver `pplv_grid` judges every observation of the real library with the procedures whose
correctness is stated here.
-/
namespace C05
open PPLV.Lattice

/-- point set of a generator-form grid (`Gen.sem` as a `Set`) -/
def gridSet (G : GridGens) : Set Pt := {x | Gen.sem G x}
/-- point set of one congruence -/
def cgSet (c : Cg) : Set Pt := {x | c.sem x}
/-- point set of a congruence system in dimension `n` -/
def cgSysSet (n : Nat) (C : List Cg) : Set Pt := {x | CgSys.sem n C x}

/-! ## the two descriptions -/

/-- the verified core: intersecting a generator-form grid with one congruence -/
theorem intersectCon_spec (G : GridGens) (c : Cg) :
    gridSet (intersectCon G c) = gridSet G ∩ cgSet c := by
  ext x; exact intersectCon_sem G c x

example : Vec.toFun [4] ∈ gridSet (intersectCon (univ 1) ⟨[1], 0, 2⟩) := by
  show Gen.sem _ _; rw [← memB_iff]; decide +kernel
example : Vec.toFun [3] ∉ gridSet (intersectCon (univ 1) ⟨[1], 0, 2⟩) := by
  show ¬ Gen.sem _ _; rw [← memB_iff]; decide +kernel

/-- adding a list of congruences -/
theorem intersectCons_spec (G : GridGens) (C : List Cg) :
    gridSet (intersectCons G C) = gridSet G ∩ {x | ∀ c ∈ C, c.sem x} := by
  ext x; exact intersectCons_sem G C x

/-- conversion of a congruence system (fold from the universe) -/
theorem consToGens_spec (n : Nat) (C : List Cg) : gridSet (consToGens n C) = cgSysSet n C := by
  ext x; exact consToGens_sem n C x

example : consToGens 1 [⟨[2], 0, 1⟩, ⟨[3], 0, 1⟩] = .gens { pt := [0], params := [[1]], lines := [] } := by
  decide +kernel
/-- an inconsistent system: even and odd -/
example : consToGens 1 [⟨[1], 0, 2⟩, ⟨[1], 1, 2⟩] = .empty := by decide +kernel

/-- membership decider -/
theorem memB_iff (G : GridGens) (v : Vec) : memB G v = true ↔ v.toFun ∈ gridSet G :=
  PPLV.Lattice.memB_iff G v

/-- inclusion decider: sound and complete -/
theorem subset_iff (G H : GridGens) : subsetB G H = true ↔ gridSet G ⊆ gridSet H := subsetB_iff G H

/-- equivalence decider: sound **and complete** -/
theorem equiv_iff (G H : GridGens) : equivB G H = true ↔ gridSet G = gridSet H := by
  rw [equivB_iff]
  constructor
  · intro h; ext x; exact h x
  · intro h x; exact Set.ext_iff.mp h x

example : equivB (consToGens 2 [⟨[1,0], -1, 2⟩, ⟨[1,1], 0, 3⟩]) (consToGens 2 [⟨[1,1], 0, 3⟩, ⟨[3,0], -3, 6⟩]) = true := by
  decide +kernel
example : equivB (consToGens 1 [⟨[1], 0, 2⟩]) (consToGens 1 [⟨[1], 0, 4⟩]) = false := by decide +kernel

/-- `G ⊆ sem c`, decided on the generators -/
theorem satCg_iff (G : GridGens) (c : Cg) : satCgB G c = true ↔ gridSet G ⊆ cgSet c := satCgB_iff G c

/-- the line theorem behind completeness: a rational line of directions contained in
    `ℤ-span(P) + ℚ-span(L)` lies in `ℚ-span(L)` (finitely generated subgroups of ℚⁿ have no divisible element) -/
theorem lines_are_span (P L : List Pt) (l : Pt) (h : ∀ c : ℚ, Abs.Dir P L (c • l)) : Abs.Dir [] L l :=
  line_theorem _ L P l rfl h

/-- a certified congruence description of a generator-form grid (proposal by the dual lattice,
    accepted only by `equivB`): when it succeeds it describes the same set -/
theorem certCons_spec (n : Nat) (G : GridGens) (C : List Cg) (h : certCons n G = some C) :
    gridSet G = cgSysSet n C := by
  ext x; exact certCons_sem n G C h x

example : (certCons 2 (consToGens 2 [⟨[1,0], -1, 2⟩, ⟨[1,1], 0, 3⟩])).isSome = true := by decide +kernel

/-! ## operations -/

/-- intersection (certifying: `none` only if the congruence proposal is rejected) -/
theorem inter_spec (G H K : GridGens) (h : inter G H = some K) : gridSet K = gridSet G ∩ gridSet H := by
  ext x; exact inter_sem G H K h x

example : (inter (consToGens 1 [⟨[1], 0, 2⟩]) (consToGens 1 [⟨[1], 0, 3⟩])).isSome = true := by decide +kernel

/-- join: the least grid containing both arguments -/
theorem join_least (G H : GridGens) :
    gridSet G ⊆ gridSet (join G H) ∧ gridSet H ⊆ gridSet (join G H) ∧
    ∀ K : GridGens, gridSet G ⊆ gridSet K → gridSet H ⊆ gridSet K → gridSet (join G H) ⊆ gridSet K :=
  ⟨fun x h => join_left G H x h, fun x h => join_right G H x h,
   fun K hG hH x h => PPLV.Lattice.join_least G H K hG hH x h⟩

/-- `{0} ⊔ {1/2}` is `(1/2)ℤ` -/
example : equivB (join (consToGens 1 [⟨[1], 0, 0⟩]) (consToGens 1 [⟨[2], -1, 0⟩])) (consToGens 1 [⟨[2], 0, 1⟩]) = true := by
  decide +kernel

/-- adding a line / a parameter / a point (a point: join with the singleton) -/
theorem addLine_spec (G : GridGens) (l : Vec) :
    gridSet (addLine G l) = {y | ∃ x ∈ gridSet G, ∃ c : ℚ, y = x + c • l.toFun} := by
  ext y; simp only [gridSet, Set.mem_ofPred_eq, addLine_sem]
  constructor
  · rintro ⟨x, c, hx, rfl⟩; exact ⟨x, hx, c, rfl⟩
  · rintro ⟨x, hx, c, rfl⟩; exact ⟨x, c, hx, rfl⟩

theorem addParam_spec (G : GridGens) (q : Vec) :
    gridSet (addParam G q) = {y | ∃ x ∈ gridSet G, ∃ k : ℤ, y = x + (k : ℚ) • q.toFun} := by
  ext y; simp only [gridSet, Set.mem_ofPred_eq, addParam_sem]
  constructor
  · rintro ⟨x, k, hx, rfl⟩; exact ⟨x, hx, k, rfl⟩
  · rintro ⟨x, hx, k, rfl⟩; exact ⟨x, k, hx, rfl⟩

theorem addPoint_spec (G : GridGens) (p : Vec) :
    gridSet (addPoint G p) = gridSet (join G (.gens { pt := p, params := [], lines := [] })) := by
  ext x; exact addPoint_eq_join G p x

/-- affine image under the documented single-update map `x ↦ x[v := (⟨e,x⟩ + b)/d]` -/
theorem affineImage_spec (G : GridGens) (v : Nat) (e : Vec) (b d : ℚ) :
    gridSet (affineImage G v e b d) = affMap v e b d '' gridSet G := by
  ext y; simp only [gridSet, Set.mem_ofPred_eq, Set.mem_image, affineImage_sem]
  constructor
  · rintro ⟨x, hx, rfl⟩; exact ⟨x, hx, rfl⟩
  · rintro ⟨x, hx, rfl⟩; exact ⟨x, hx, rfl⟩

/-- the documentation's example: points (0,0),(0,3),(3,0), `x₀ := 3x₀ + 2x₁ + 1` gives `{x ≡₃ 1, x + y ≡₉ 1}` -/
example : equivB (affineImage (.gens { pt := [0,0], params := [[0,3],[3,0]], lines := [] }) 0 [3,2] 1 1)
    (consToGens 2 [⟨[1,0], -1, 3⟩, ⟨[1,1], -1, 9⟩]) = true := by decide +kernel

/-- affine preimage (`d ≠ 0`; the library rejects `d = 0`) -/
theorem affinePreimage_spec (G : GridGens) (v : Nat) (e : Vec) (b d : ℚ) (hd : d ≠ 0) :
    gridSet (affinePreimage G v e b d) = affMap v e b d ⁻¹' gridSet G := by
  ext y; exact affinePreimage_sem G v e b d hd y

/-- non-invertible case of the documentation: `x₀ := x₁` on the grid `3ℤ·(1,1)` gives all points with `y ∈ 3ℤ` -/
example : equivB (affinePreimage (.gens { pt := [0,0], params := [[3,3]], lines := [] }) 0 [0,1] 0 1)
    (consToGens 2 [⟨[0,1], 0, 3⟩]) = true := by decide +kernel

/-- image under an affine map given on list vectors by `M`, on valuations by the linear map `φ`
    (covers remove / map / select of space dimensions, see `selectCoords_represents`) -/
theorem mapG_spec (M : Vec → Vec) (φ : Pt →ₗ[ℚ] Pt) (hM : Represents M φ) (t : Vec) (G : GridGens) :
    gridSet (mapG M t G) = (fun x => φ x + t.toFun) '' gridSet G := by
  ext y; simp only [gridSet, Set.mem_ofPred_eq, Set.mem_image, mapG_sem M φ hM]
  constructor
  · rintro ⟨x, hx, rfl⟩; exact ⟨x, hx, rfl⟩
  · rintro ⟨x, hx, rfl⟩; exact ⟨x, hx, rfl⟩

/-- time-elapse: the least grid containing `{p + μ q | p ∈ G, q ∈ H, μ ∈ ℤ}` -/
theorem timeElapse_least (G H : GridGens) :
    (∀ p ∈ gridSet G, ∀ q ∈ gridSet H, ∀ μ : ℤ, p + (μ : ℚ) • q ∈ gridSet (timeElapse G H)) ∧
    ∀ K : GridGens, (∀ p ∈ gridSet G, ∀ q ∈ gridSet H, ∀ μ : ℤ, p + (μ : ℚ) • q ∈ gridSet K) →
      gridSet (timeElapse G H) ⊆ gridSet K :=
  ⟨fun p hp q hq μ => timeElapse_contains G H p q μ hp hq,
   fun K hK x hx => PPLV.Lattice.timeElapse_least G H K (fun p q μ hp hq => hK p hp q hq μ) x hx⟩

/-- generalized affine image (documented relation, `EQUAL` with a modulus): for an `n`-dimensional grid,
    `{ w | ∃ v ∈ G, lhs(w) + lb ≡_f rhs(v) + rb ∧ wᵢ = vᵢ for every i with lhsᵢ = 0 }`.
    `generalized_affine_image(var, EQUAL, e, d, m)` is the instance `lhs = d·var`, `f = d·m`. -/
theorem relImage_spec (n : Nat) (G : GridGens) (lhs : Vec) (lb : ℚ) (rhs : Vec) (rb f : ℚ)
    (hG : gridSet G ⊆ {x | Supp n x}) (hl : lhs.length ≤ n) :
    gridSet (relImage n G lhs lb rhs rb f) =
      {w | Supp n w ∧ ∃ v ∈ gridSet G, (∀ j, lhs.toFun j = 0 → w j = v j) ∧
        ∃ t : ℤ, dotF lhs w + lb - (dotF rhs v + rb) = (t : ℚ) * f} := by
  ext w
  have := relImage_sem n G lhs lb rhs rb f (fun x hx => hG hx) hl w
  simp only [gridSet, Set.mem_ofPred_eq] at *
  rw [this]

/-- generalized affine preimage of the same relation -/
theorem relPreimage_spec (n : Nat) (G : GridGens) (lhs : Vec) (lb : ℚ) (rhs : Vec) (rb f : ℚ)
    (hG : gridSet G ⊆ {x | Supp n x}) (hl : lhs.length ≤ n) (hr : rhs.length ≤ n) :
    gridSet (relPreimage n G lhs lb rhs rb f) =
      {v | Supp n v ∧ ∃ w ∈ gridSet G, (∀ j, lhs.toFun j = 0 → v j = w j) ∧
        ∃ t : ℤ, dotF rhs v + rb - (dotF lhs w + lb) = (t : ℚ) * f} := by
  ext v
  have := relPreimage_sem n G lhs lb rhs rb f (fun x hx => hG hx) hl hr v
  simp only [gridSet, Set.mem_ofPred_eq] at *
  rw [this]

/-- the witness of KF-C05-10: the preimage of `{0}` under `A' ≡ 2A (mod 1)` is `(1/2)ℤ` (the library answers `ℤ`) -/
example : equivB (relPreimage 1 (.gens { pt := [0], params := [], lines := [] }) [1] 0 [2] 0 1)
    (consToGens 1 [⟨[2], 0, 1⟩]) = true := by decide +kernel

/-- difference: the reference result contains the set difference and is contained in the first argument
    (`difference` returns the other coset when `G ∩ H` has index 2 in `G`, else `G`, else `∅` when `G ⊆ H`). -/
theorem difference_sound (G H D : GridGens) (h : difference G H = some D) :
    gridSet G \ gridSet H ⊆ gridSet D ∧ gridSet D ⊆ gridSet G := by
  obtain ⟨h1, h2⟩ := PPLV.Lattice.difference_sound G H D h
  exact ⟨fun x hx => h1 x hx.1 hx.2, fun x hx => h2 x hx⟩

/-- `difference_least_partial`: leastness of the reference result is proved in the two cases where the result is
    the set difference itself; NOT proved: that `G` is the least grid containing `G \ H` when `G ∩ H` is non-empty
    of index ≠ 2 (the harness compares the library with this reference, so a library result strictly between
    would be reported as a mismatch, which is the conservative direction). -/
theorem difference_least_partial (G H D : GridGens) (_h : difference G H = some D)
    (hexact : gridSet D ⊆ gridSet G \ gridSet H) (K : GridGens) (hK : gridSet G \ gridSet H ⊆ gridSet K) :
    gridSet D ⊆ gridSet K := fun _ hx => hK (hexact hx)

/-- the witness of KF-C05-3: `{-1/2} \ {A ≡ -1 (mod 2)} = {-1/2}` (the library answers ∅) -/
example : (difference (.gens { pt := [-1/2], params := [], lines := [] }) (consToGens 1 [⟨[1], 1, 2⟩])).map
    (fun D => equivB D (.gens { pt := [-1/2], params := [], lines := [] })) = some true := by decide +kernel
/-- `ℤ \ 2ℤ` is the odd numbers; `ℤ \ 3ℤ` generates `ℤ` -/
example : (difference (consToGens 1 [⟨[1], 0, 1⟩]) (consToGens 1 [⟨[1], 0, 2⟩])).map
    (fun D => equivB D (consToGens 1 [⟨[1], 1, 2⟩])) = some true := by decide +kernel
example : (difference (consToGens 1 [⟨[1], 0, 1⟩]) (consToGens 1 [⟨[1], 0, 3⟩])).map
    (fun D => equivB D (consToGens 1 [⟨[1], 0, 1⟩])) = some true := by decide +kernel

/-- dimension operators are images under coordinate maps:
    `remove_space_dimensions` / `remove_higher_space_dimensions` (keep the listed coordinates) -/
theorem removeDims_spec (keep : List Nat) (G : GridGens) :
    gridSet (mapG (selectCoords keep) [] G) = (fun x => coordMap (fun j => keep[j]?) x) '' gridSet G := by
  ext y
  simp only [gridSet, Set.mem_ofPred_eq, Set.mem_image, mapCoord_sem _ _ (selectCoords_represents keep)]
  constructor
  · rintro ⟨x, hx, rfl⟩; exact ⟨x, hx, rfl⟩
  · rintro ⟨x, hx, rfl⟩; exact ⟨x, hx, rfl⟩

/-- `map_space_dimensions` with a partial injection into `m` dimensions -/
theorem mapDims_spec (m : Nat) (pf : List (Option Nat)) (G : GridGens) :
    gridSet (mapG (mapCoords m pf) [] G) =
      (fun x => coordMap (fun j => if j < m then pf.idxOf? (some j) else none) x) '' gridSet G := by
  ext y
  simp only [gridSet, Set.mem_ofPred_eq, Set.mem_image, mapCoord_sem _ _ (mapCoords_represents m pf)]
  constructor
  · rintro ⟨x, hx, rfl⟩; exact ⟨x, hx, rfl⟩
  · rintro ⟨x, hx, rfl⟩; exact ⟨x, hx, rfl⟩

/-- `add_space_dimensions_and_embed(m)` on an `n`-dimensional grid: the new coordinates are free
    (`add_space_dimensions_and_project` leaves the generators unchanged: the same points, zero on the new coordinates) -/
theorem embed_spec (n m : Nat) (G : GridGens) (hG : gridSet G ⊆ {x | Supp n x}) :
    gridSet (addLines G ((List.range m).map (fun j => unit (n + j)))) =
      {y | Supp (n + m) y ∧ (fun j => if j < n then y j else 0) ∈ gridSet G} := by
  ext y; exact embed_sem n m G (fun x hx => hG hx) y

/-- `concatenate_assign`: the product, the second factor shifted by the dimension `n` of the first -/
theorem concat_spec (n : Nat) (G H : GridGens) (hG : gridSet G ⊆ {x | Supp n x}) :
    gridSet (concat n G H) = {y | ∃ x ∈ gridSet G, ∃ z ∈ gridSet H, y = x + shiftLin n z} := by
  ext y
  have := concat_sem n G H (fun x hx => hG hx) y
  simp only [gridSet, Set.mem_ofPred_eq] at *
  rw [this]
  constructor
  · rintro ⟨x, z, hx, hz, rfl⟩; exact ⟨x, hx, z, hz, rfl⟩
  · rintro ⟨x, hx, z, hz, rfl⟩; exact ⟨x, z, hx, hz, rfl⟩

example : equivB (concat 1 (consToGens 1 [⟨[1], 0, 2⟩]) (consToGens 1 [⟨[1], -1, 3⟩]))
    (consToGens 2 [⟨[1,0], 0, 2⟩, ⟨[0,1], -1, 3⟩]) = true := by decide +kernel

/-- the witness of KF-C05-9: the 0-dimensional universe projected into one dimension is the point 0, not the line -/
example : equivB (.gens { pt := [], params := [], lines := [] }) (consToGens 1 [⟨[1], 0, 0⟩]) = true := by decide +kernel

/-! ## queries -/

theorem isEmpty_iff (G : GridGens) : G.isEmpty = true ↔ gridSet G = ∅ := by
  rw [← Bool.not_eq_false, isEmpty_false_iff]
  constructor
  · intro h; ext x; simp only [gridSet, Set.mem_ofPred_eq, Set.mem_empty_iff_false, iff_false]
    intro hx; exact h ⟨x, hx⟩
  · rintro h ⟨x, hx⟩
    have : x ∈ gridSet G := hx
    rw [h] at this; exact this

theorem isUniverse_spec (n : Nat) (G : GridGens) : isUniverse n G = true ↔ gridSet G = {x | Supp n x} := by
  rw [isUniverse_iff]
  constructor
  · intro h; ext x; exact h x
  · intro h x; exact Set.ext_iff.mp h x

/-- relation with a congruence (non-empty grid): disjoint / strictly intersects / included / saturates -/
theorem relCg_spec (G : GridGens) (c : Cg) (hne : (gridSet G).Nonempty) :
    ((relCg G c).1 = true ↔ gridSet G ∩ cgSet c = ∅) ∧
    ((relCg G c).2.1 = true ↔ (gridSet G ∩ cgSet c).Nonempty ∧ ¬ gridSet G ⊆ cgSet c) ∧
    ((relCg G c).2.2.1 = true ↔ gridSet G ⊆ cgSet c) ∧
    ((relCg G c).2.2.2 = true ↔ gridSet G ⊆ cgSet c ∧ c.f = 0) := by
  obtain ⟨h1, h2, h3, h4⟩ := PPLV.Lattice.relCg_spec G c hne
  refine ⟨?_, ?_, h3, h4⟩
  · rw [h1]
    constructor
    · intro h; ext x; simp only [Set.mem_inter_iff, Set.mem_empty_iff_false, iff_false]
      rintro ⟨hx, hc⟩; exact h x hx hc
    · intro h x hx hc
      have : x ∈ gridSet G ∩ cgSet c := ⟨hx, hc⟩
      rw [h] at this; exact this
  · rw [h2]
    constructor
    · rintro ⟨⟨x, hx, hc⟩, ⟨y, hy, hnc⟩⟩
      exact ⟨⟨x, hx, hc⟩, fun hsub => hnc (hsub hy)⟩
    · rintro ⟨⟨x, hx, hc⟩, hns⟩
      refine ⟨⟨x, hx, hc⟩, ?_⟩
      by_contra hcon
      apply hns; intro y hy
      by_contra hnc; exact hcon ⟨y, hy, hnc⟩

/-- the witness of the library's defect (KF-C05-2): `{-1/3}` and `A ≡ 2 (mod 1)` are disjoint -/
example : relCg (.gens { pt := [-1/3], params := [], lines := [] }) ⟨[1], -2, 1⟩ = (true, false, false, false) := by
  decide +kernel

/-- `subsumes` for a point, a parameter, a line -/
theorem relGen_spec (G : GridGens) (v : Vec) :
    (relGen G 2 v = true ↔ v.toFun ∈ gridSet G) ∧
    (relGen G 1 v = true ↔ (gridSet G).Nonempty ∧ ∀ x ∈ gridSet G, ∀ k : ℤ, x + (k : ℚ) • v.toFun ∈ gridSet G) ∧
    (relGen G 0 v = true ↔ (gridSet G).Nonempty ∧ ∀ x ∈ gridSet G, ∀ c : ℚ, x + c • v.toFun ∈ gridSet G) := by
  refine ⟨relGen_point G v, ?_, ?_⟩
  · rw [relGen_param]
    constructor
    · rintro ⟨h1, h2⟩; exact ⟨h1, fun x hx k => h2 x k hx⟩
    · rintro ⟨h1, h2⟩; exact ⟨h1, fun x k hx => h2 x hx k⟩
  · rw [relGen_line]
    constructor
    · rintro ⟨h1, h2⟩; exact ⟨h1, fun x hx c => h2 x c hx⟩
    · rintro ⟨h1, h2⟩; exact ⟨h1, fun x c hx => h2 x hx c⟩

/-- `constrains(v)` is false exactly for non-empty grids invariant under the line `e_v` -/
theorem constrains_spec (G : GridGens) (v : Nat) :
    constrains G v = false ↔ (gridSet G).Nonempty ∧ ∀ x ∈ gridSet G, ∀ c : ℚ, x + c • (unit v).toFun ∈ gridSet G := by
  rw [constrains_iff]
  constructor
  · rintro ⟨h1, h2⟩; exact ⟨h1, fun x hx c => h2 x c hx⟩
  · rintro ⟨h1, h2⟩; exact ⟨h1, fun x c hx => h2 x hx c⟩

/-- the witness of KF-C05-8: point 0 and line `A` in dimension 2 do not constrain `A` -/
example : constrains (.gens { pt := [0,0], params := [], lines := [[1,0]] }) 0 = false := by decide +kernel

/-- discrete: the grid contains no rational line -/
theorem isDiscrete_spec (G : GridGens) :
    isDiscrete G = true ↔ ¬ ∃ (x d : Pt), d ≠ 0 ∧ ∀ c : ℚ, x + c • d ∈ gridSet G := isDiscrete_iff G

/-- bounded: at most one point -/
theorem isBounded_spec (G : GridGens) : isBounded G = true ↔ (gridSet G).Subsingleton := by
  rw [isBounded_iff]
  constructor
  · intro h x hx y hy; exact h x y hx hy
  · intro h x y hx hy; exact h hx hy

theorem containsIntegerPoint_spec (n : Nat) (G : GridGens) :
    containsIntegerPoint n G = true ↔ ∃ x ∈ gridSet G, ∀ i < n, ∃ t : ℤ, x i = t := by
  rw [containsIntegerPoint_iff]
  constructor
  · rintro ⟨x, hx, h⟩; exact ⟨x, hx, h⟩
  · rintro ⟨x, hx, h⟩; exact ⟨x, hx, h⟩

/-- `bounds_from_above/below`, `maximize/minimize`: the expression is constant on the grid -/
theorem boundsExpr_spec (G : GridGens) (e : Vec) :
    boundsExpr G e = true ↔ ∀ x ∈ gridSet G, ∀ y ∈ gridSet G, dotF e x = dotF e y := by
  rw [boundsExpr_iff]
  constructor
  · intro h x hx y hy; exact h x y hx hy
  · intro h x y hx hy; exact h x hx y hy

/-- relation with an inequality `⟨e,x⟩ + b ≥ 0` (`strict`: `> 0`) on a non-empty grid -/
theorem relIneq_spec (G : GridGens) (e : Vec) (b : ℚ) (strict : Bool) (hne : (gridSet G).Nonempty) :
    let sat : Pt → Prop := fun x => if strict then 0 < dotF e x + b else 0 ≤ dotF e x + b
    ((relIneq G e b strict).1 = true ↔ ∀ x ∈ gridSet G, ¬ sat x) ∧
    ((relIneq G e b strict).2.1 = true ↔ (∃ x ∈ gridSet G, sat x) ∧ (∃ x ∈ gridSet G, ¬ sat x)) ∧
    ((relIneq G e b strict).2.2.1 = true ↔ ∀ x ∈ gridSet G, sat x) ∧
    ((relIneq G e b strict).2.2.2 = true ↔ (∀ x ∈ gridSet G, dotF e x + b = 0) ∧ strict = false) := by
  intro sat
  obtain ⟨h1, h2, h3, h4⟩ := PPLV.Lattice.relIneq_spec G e b strict hne
  refine ⟨h1, ?_, h3, h4⟩
  rw [h2]
  constructor
  · rintro ⟨⟨x, hx, hs⟩, ⟨y, hy, hn⟩⟩; exact ⟨⟨x, hx, hs⟩, ⟨y, hy, hn⟩⟩
  · rintro ⟨⟨x, hx, hs⟩, ⟨y, hy, hn⟩⟩; exact ⟨⟨x, hx, hs⟩, ⟨y, hy, hn⟩⟩

/-- `(1/2)ℤ` strictly intersects `A ≥ 0`; `{3}` is included in `A > 0` -/
example : relIneq (consToGens 1 [⟨[2], 0, 1⟩]) [1] 0 false = (false, true, false, false) := by decide +kernel
example : relIneq (consToGens 1 [⟨[1], -3, 0⟩]) [1] 0 true = (false, false, true, false) := by decide +kernel

/-! ## frequency -/

/-- the values of `⟨e,x⟩ + b` on the grid -/
def values (G : GridGens) (e : Vec) (b : ℚ) : Set ℚ := {r | ∃ x ∈ gridSet G, r = dotF e x + b}

/-- `frequency` is undefined exactly when the grid is empty or the expression takes every rational value -/
theorem frequency_undefined (G : GridGens) (e : Vec) (b : ℚ) :
    frequency G e b = none ↔ gridSet G = ∅ ∨ values G e b = Set.univ := by
  rw [frequency_none_iff]
  constructor
  · rintro (h | h)
    · left; ext x; simp only [gridSet, Set.mem_ofPred_eq, Set.mem_empty_iff_false, iff_false]
      intro hx; exact h ⟨x, hx⟩
    · right; ext r; simp only [Set.mem_univ, iff_true]
      obtain ⟨x, hx, hr⟩ := h r; exact ⟨x, hx, hr⟩
  · rintro (h | h)
    · left; rintro ⟨x, hx⟩
      have : x ∈ gridSet G := hx
      rw [h] at this; exact this
    · right; intro r
      have : r ∈ values G e b := by rw [h]; trivial
      obtain ⟨x, hx, hr⟩ := this; exact ⟨x, hx, hr⟩

/-- `frequency G e b = some (f, vals)`: `f ≥ 0` is the greatest modulus (all values are congruent modulo `f`,
    and `f` itself is a difference of two values), `vals` are exactly the values of least magnitude -/
theorem frequency_spec (G : GridGens) (e : Vec) (b f : ℚ) (vals : List ℚ) (h : frequency G e b = some (f, vals)) :
    0 ≤ f ∧
    (∀ r ∈ values G e b, ∀ r' ∈ values G e b, ∃ t : ℤ, r - r' = t * f) ∧
    (∃ r ∈ values G e b, ∃ r' ∈ values G e b, r - r' = f) ∧
    (∀ v, v ∈ vals ↔ v ∈ values G e b ∧ ∀ r ∈ values G e b, |v| ≤ |r|) := by
  obtain ⟨h0, h1, ⟨r, r', hr, hr', hd⟩, h3⟩ := frequency_some G e b f vals h
  have conv : ∀ r, r ∈ values G e b ↔ IsValue G e b r := by
    intro r; constructor
    · rintro ⟨x, hx, hr⟩; exact ⟨x, hx, hr⟩
    · rintro ⟨x, hx, hr⟩; exact ⟨x, hx, hr⟩
  refine ⟨h0, ?_, ⟨r, (conv r).mpr hr, r', (conv r').mpr hr', hd⟩, ?_⟩
  · intro r hr r' hr'; exact h1 r r' ((conv r).mp hr) ((conv r').mp hr')
  · intro v; rw [h3 v, conv v]
    constructor
    · rintro ⟨hv, hmin⟩; exact ⟨hv, fun r hr => hmin r ((conv r).mp hr)⟩
    · rintro ⟨hv, hmin⟩; exact ⟨hv, fun r hr => hmin r ((conv r).mpr hr)⟩

/-- `A ≡ 5 (mod 7)`: frequency of `A` is 7, the value closest to zero is −2 (the library reports 5, KF-C05-12) -/
example : frequency (consToGens 1 [⟨[1], -5, 7⟩]) [1] 0 = some (7, [-2]) := by decide +kernel
/-- a tie: `A ≡ 1 (mod 2)`: both 1 and −1 -/
example : frequency (consToGens 1 [⟨[1], -1, 2⟩]) [1] 0 = some (2, [1, -1]) := by decide +kernel
/-- a line moves the expression: undefined -/
example : frequency (univ 1) [1] 0 = none := by decide +kernel

end C05
