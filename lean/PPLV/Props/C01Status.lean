import PPLV.PolyStatus.ProofsM
import PPLV.PolyStatus.Mutants
/-!
# C01, stage 2 — the lazy status protocol of `Polyhedron`

Model: `PPLV/PolyStatus/{State,Helpers,Ops,Ops2,Step}.lean` — the flag logic of every public method the C01/C02
harness calls and of the private helpers they go through, statement by statement, over the nine status bits of
`Ph_Status_idefs.hh`, the dimension, the `sorted` flags of the two systems and ghost facts (which description
denotes the set, minimal form, validity of the saturation matrices, real sortedness, pending rows, emptiness).
Conversion / simplification, the row operations of `Linear_System` and the `Bit_Matrix` operations are parameters
(`State.lean`, `Helpers.lean`: "assumed exact").  Data the abstract state does not hold enters as ghost inputs
(`Gh`, `GhQ`, `Facts`), over which every theorem quantifies.

`Inv` (`PPLV/PolyStatus/Inv.lean`) = the legality table of `Ph_Status::OK()` ∧ the status clauses of
`Polyhedron::OK()` ∧ "no flag is set over a description that was modified without being re-validated".
-/
namespace C01
open PPLV.PolyStatus PPLV.PolyStatus.PState

/-- **Stage 2 of C01.** For every sequence of modelled operations — constructors, copies, all public methods,
any ghost inputs, any aliasing of operands — every object of the pool satisfies the invariant: the status word is
legal and no flag is left set for a description the history has modified without re-validating it. -/
theorem status_inv (ops : List PolyOp) : StatusInv (ops.foldl PolyProto.step PolyProto.init) := by
  have step_inv : ∀ (w : World) (op : PolyOp), StatusInv w → StatusInv (PolyProto.step w op) := by
    intro w op hw
    have set_inv : ∀ (i : Nat) (s : PState), Inv s → StatusInv (w.set i s) := by
      intro i s hs j
      unfold World.set
      split
      · exact hs
      · exact hw j
    cases op with
    | newDegenerate i nnc dim empty g => exact set_inv i _ (ctorDegenerate_inv nnc dim empty g)
    | newCons i nnc f g => exact set_inv i _ (ctorCons_inv nnc f g)
    | newGens i nnc f g => exact set_inv i _ (ctorGens_inv nnc f g)
    | copy d s => exact set_inv d _ (copyCtor_spec (w s) (hw s)).1
    | un i o gs f => exact set_inv i _ (apply1_inv o gs f (w i) (hw i))
    | bin i j o hs its =>
      simp only [PolyProto.step]
      split
      · exact hw
      next hc =>
      have hcomp : (w i).nnc = (w j).nnc ∧ (o = .concatenateAssign ∨ (w i).dim = (w j).dim) := by
        have hc' : (w i).nnc = (w j).nnc ∧ (¬o = Op2.concatenateAssign → (w i).dim = (w j).dim) := by
          simpa [Op2.compatible] using hc
        refine ⟨hc'.1, ?_⟩
        by_cases ho : o = Op2.concatenateAssign
        · exact Or.inl ho
        · exact Or.inr (hc'.2 ho)
      split
      · next hij =>
        have hk : TwoOK { x := w i, y := w i, al := true } := ⟨hw i, by simpa [Two.gy] using hw i⟩
        exact set_inv i _ (apply2_ok o hs its _ hk (by simp [Two.gy])).x
      · have hk : TwoOK { x := w i, y := w j, al := false } := ⟨hw i, by simpa [Two.gy] using hw j⟩
        have hd : o = .concatenateAssign ∨ ({ x := w i, y := w j, al := false } : Two).gy.dim = (w i).dim := by
          rcases hcomp.2 with h1 | h1
          · exact Or.inl h1
          · exact Or.inr (by simp [Two.gy, h1])
        have hr := apply2_ok o hs its _ hk hd
        intro k
        simp only [World.set]
        split
        · exact hr.y
        · split
          · exact hr.x
          · exact hw k
  have init_inv : StatusInv PolyProto.init := by
    intro i
    show (fresh false).invB = true
    decide
  suffices h : ∀ (l : List PolyOp) (w : World), StatusInv w → StatusInv (l.foldl PolyProto.step w) from
    h ops _ init_inv
  intro l
  induction l with
  | nil => intro w hw; exact hw
  | cons a t ih => intro w hw; exact ih _ (step_inv w a hw)

/-- non-vacuity: a history with constructors, mutators, observers, an aliased binary call and a copy. -/
example : StatusInv ([PolyOp.newDegenerate 0 false 2 false {}, .newCons 1 false { dim := 2 } {},
    .un 0 .addConstraint [{}] {}, .un 0 .minimizedGenerators [{}, {}] {}, .bin 0 1 .intersectionAssign [{}] [],
    .bin 0 0 .polyHullAssign [{}] [], .copy 2 0, .un 2 .affineImage [{}] { inv := false },
    .bin 1 2 .polyDifferenceAssign [{}] [({}, {})]].foldl PolyProto.step PolyProto.init) := status_inv _

/-! ### what the invariant says -/

/-- the legality table of `Polyhedron::Status::OK()` (`src/Ph_Status.cc`). -/
theorem legal_table {s : PState} (h : Inv s) : s.statusOK = true := by
  simp only [PPLV.PolyStatus.Inv, invB, Bool.and_eq_true] at h; exact h.1.1

/-- CS (and no pending generators) ⇒ the constraint system denotes the set;
GS (and no pending constraints) ⇒ the generator system denotes the set. -/
theorem up_to_date_denotes {s : PState} (h : Inv s) :
    (s.cup = true → s.gpend = false → s.vC = true) ∧ (s.gup = true → s.cpend = false → s.vG = true) := by
  constructor <;> intro h1 h2 <;> spec_tac [] using []

/-- with pending rows the system holding them denotes the set, and the two non-pending parts are a DD pair. -/
theorem pending_denotes {s : PState} (h : Inv s) :
    (s.cpend = true → s.vC = true ∧ s.dd = true) ∧ (s.gpend = true → s.vG = true ∧ s.dd = true) := by
  constructor <;> intro h1 <;> constructor <;> spec_tac [s.b .em] using []

/-- CM / GM ⇒ minimal form; pending rows exist only under the pending flag. -/
theorem minimized_valid {s : PState} (h : Inv s) :
    (s.cmin = true → s.mC = true) ∧ (s.gmin = true → s.mG = true)
    ∧ (s.pC = true → s.cpend = true) ∧ (s.pG = true → s.gpend = true) := by
  refine ⟨?_, ?_, ?_, ?_⟩ <;> intro h1 <;> spec_tac [] using []

/-- SC / SG ⇒ the saturation matrix is the saturation relation of the two systems. -/
theorem sat_valid {s : PState} (h : Inv s) : (s.satc = true → s.vSC = true) ∧ (s.satg = true → s.vSG = true) := by
  constructor <;> intro h1 <;> spec_tac [] using []

/-- `sorted` flag ⇒ the rows are sorted. -/
theorem sorted_valid {s : PState} (h : Inv s) : (s.csS = true → s.rC = true) ∧ (s.gsS = true → s.rG = true) := by
  constructor <;> intro h1 <;> spec_tac [] using []

/-- marked empty ⇒ the set is empty; generators up to date without pending constraint rows ⇒ it is not. -/
theorem emptiness_valid {s : PState} (h : Inv s) :
    (s.em = true → s.emp = true) ∧ (s.gup = true → s.cpend = false → s.emp = false) := by
  constructor
  · intro h1; spec_tac [] using []
  · intro h1 h2; spec_tac [s.b .em] using []

/-! ### observers -/

/-- **Observers keep the set**: `constraints()`, `minimized_constraints()`, `generators()`, `minimized_generators()`,
`is_empty`, `is_universe`, `is_bounded`, `is_topologically_closed`, `constrains`, the three `relation_with`,
`bounds_from_*`, `maximize`/`minimize`, `affine_dimension` change only the representation: the ghost set (its
emptiness, the counter of set changes), the dimension and the topology are untouched, and the invariant holds. -/
theorem observers_keep_set (o : Op1) (ho : o.isObserver = true) (gs : List Gh) (f : Facts) (s : PState)
    (h : Inv s) :
    Inv (apply1 o gs f s) ∧ (apply1 o gs f s).ver = s.ver ∧ (apply1 o gs f s).emp = s.emp
    ∧ (apply1 o gs f s).dim = s.dim ∧ (apply1 o gs f s).nnc = s.nnc := by
  have k := apply1_obs o ho gs f s h
  exact ⟨k.inv, k.same.ver, k.same.emp, k.same.dim, k.same.nnc⟩

/-- the binary observers `contains`, `strictly_contains`, `is_disjoint_from`, `==` keep the set of BOTH operands
(the `const` argument is lazily updated too), aliased or not. -/
theorem binary_observers_keep_sets (o : Op2) (ho : o.isObserver = true) (hs : List Gh2) (c : Two)
    (hx : Inv c.x) (hy : Inv c.gy) (hd : c.gy.dim = c.x.dim) :
    let d := apply2 o hs [] c
    Inv d.x ∧ Inv d.gy ∧ d.x.ver = c.x.ver ∧ d.x.emp = c.x.emp ∧ d.gy.ver = c.gy.ver ∧ d.gy.emp = c.gy.emp
    ∧ d.x.dim = c.x.dim ∧ d.gy.dim = c.gy.dim := by
  intro d
  have k : Obs2 c d := by
    show Obs2 c (apply2 o hs [] c)
    unfold apply2
    cases o <;> (try (exact absurd ho (by decide))) <;> simp only [steps2Of]
    case contains =>
      rcases hs with _ | ⟨a, t⟩ <;> exact contains_obs2 _ _ _ c ⟨hx, hy⟩ hd
    case strictlyContains => exact strictlyContains_obs2 hs c ⟨hx, hy⟩ hd
    case isDisjointFrom =>
      rcases hs with _ | ⟨a, t⟩ <;> exact isDisjointFrom_obs2 _ _ c ⟨hx, hy⟩ hd
    case equals => exact equals_obs2 hs c ⟨hx, hy⟩ hd
  exact ⟨k.x.inv, k.y.inv, k.x.same.ver, k.x.same.emp, k.y.same.ver, k.y.same.emp, k.x.same.dim, k.y.same.dim⟩

/-- non-vacuity of `observers_keep_set`: an observer that does change the lazy state (flags go from `CS` to the
fully minimised word) while the set stays. -/
example :
    let s : PState := ctorCons false { dim := 2 } {}
    (apply1 .minimizedGenerators [{}, {}] {} s).gmin = true ∧ s.gmin = false
    ∧ (apply1 .minimizedGenerators [{}, {}] {} s).ver = s.ver := by decide

/-! ### the theorem is not vacuous about the code: a forgotten `clear_*()` breaks it

Each statement below is the model of one method with one status update removed (the mutants of the mutation
smoke test); a concrete legal state is given from which the invariant fails. -/

theorem forgotten_clear_generators_fails :
    Inv bothUpToDate ∧ ¬ Inv (insertConsForgotGens {} bothUpToDate) := by
  constructor
  · show bothUpToDate.invB = true; decide
  · show ¬ ((insertConsForgotGens {} bothUpToDate).invB = true); decide

theorem forgotten_clear_cmin_fails :
    Inv consMinimizedGensUp ∧ ¬ Inv (insertGensForgotCmin {} consMinimizedGensUp) := by
  constructor
  · show consMinimizedGensUp.invB = true; decide
  · show ¬ ((insertGensForgotCmin {} consMinimizedGensUp).invB = true); decide

theorem forgotten_clear_sat_g_fails :
    Inv minimizedBothSat ∧ ¬ Inv (obtainSortedGeneratorsForgot minimizedBothSat) := by
  constructor
  · show minimizedBothSat.invB = true; decide
  · show ¬ ((obtainSortedGeneratorsForgot minimizedBothSat).invB = true); decide

end C01
