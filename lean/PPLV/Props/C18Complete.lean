import PPLV.Term.ProofsCompleteTop
import PPLV.Props.C18

/-!
# C18, stage 3 — the Farkas encodings are COMPLETE: the termination tests answer *exactly*

`PPLV/Props/C18.lean` proves that every solution of the code-shaped models of
`fill_constraint_systems_MS` / `fill_constraint_system_PR(_original)` is a genuine ranking function
(soundness).  Here the converse: if a linear ranking function exists the encoded system has a
solution.  This is Farkas' lemma, which is proved first — constructively, by induction over the
verified Fourier–Motzkin kernel K1 (`PPLV/Farkas/*`): every row K1 ever derives (cross
combination, equality pinning, gcd normalisation, certificate-based pruning) is a non-negative
combination of the input rows.

**Class of relations.**  The encodings work on non-strict rows (`termination.cc:35`
`assign_all_inequalities_approximation` relaxes strict rows and splits equalities): the theorems
`…_iff` are stated for *closed* relations (`∀ c ∈ cs, c.strict = false`), empty or not — on an
empty closed relation the real tests answer `true` through the encoding itself (`ms_complete_empty`),
there is no emptiness test on that path.  For a relation with strict rows the code analyses the
topological closure; for a NON-EMPTY such relation the ranking functions of the relation and of
its closure coincide (`ranking_closure_iff`), so the tests are still exact (`…_iff_nnc`); for an
EMPTY relation with strict rows whose closure is non-empty the code may answer `false` although
every function is vacuously a ranking function (`closure_needs_nonempty`).

**Before/after form of PR.**  `fill_constraint_system_PR` bounds `μ` from below with the rows of
`pset_before` only; it is complete exactly for functions bounded from below *on the guard*
(`Spec.isRankingGuard`, `termination_test_PR_iff`), hence for all ranking functions when every
state of the guard has a successor (`pr_complete_guard_entailed`), and incomplete otherwise
(`pr_complete_without_guard_bound_fails`, the documented KF-C18-1).
-/
namespace C18
open PPLV.Lin PPLV.Term

/-! ## layer 1: Farkas / Motzkin from Fourier–Motzkin -/

/-- **Motzkin transposition**: an empty system (strict rows allowed) over `n` variables has
    non-negative integer multipliers `y` with `Σ y_i a_i = 0` and (`Σ y_i k_i < 0`, or `≤ 0` with
    positive weight on a strict row) — exactly what K1's checker `certInfeas` accepts. -/
theorem farkas_infeasible (n : Nat) (cs : List Con) (hwf : WF n cs) (h : sem cs = ∅) :
    ∃ y : List Int, certInfeas cs y = true :=
  PPLV.Farkas.farkas_infeasible_sem n cs hwf h

/-- x ≥ 1 ∧ x ≤ 0 -/
def emptyRel1 : List Con := [geRow [1] (-1), geRow [-1] 0]
example : WF 1 emptyRel1 ∧ sem emptyRel1 = ∅ ∧ certInfeas emptyRel1 [1, 1] = true := by
  have hc : certInfeas emptyRel1 [1, 1] = true := by decide
  refine ⟨(wfB_iff _ _).mp (by decide), ?_, hc⟩
  rw [Set.eq_empty_iff_forall_notMem]
  exact fun x hx => certInfeas_sound _ _ hc ⟨x, hx⟩

/-- the certificate checker is sound and complete: the certificate search of `certify` can, in
    principle, always succeed on an empty system -/
theorem farkas_certificate_iff (n : Nat) (cs : List Con) (hwf : WF n cs) :
    (∃ y : List Int, certInfeas cs y = true) ↔ sem cs = ∅ := by
  rw [PPLV.Farkas.certInfeas_complete n cs hwf, Set.eq_empty_iff_forall_notMem]
  exact ⟨fun h x hx => h ⟨x, hx⟩, fun h ⟨x, hx⟩ => h x hx⟩

/-- **affine Farkas lemma** (integer multipliers, scaled): a non-strict row `t` that holds on the
    non-empty closed polyhedron `sem cs` satisfies `y0·t = Σ ys_i·cs_i + l0` as affine functions
    (`wev cs ys x = Σ_i ys_i · (a_i·x + k_i)`), `y0 > 0`, `ys ≥ 0`, `l0 ≥ 0`. -/
theorem farkas_implied (n : Nat) (cs : List Con) (hwf : WF n cs) (hns : ∀ c ∈ cs, c.strict = false)
    (hne : sem cs ≠ ∅) (t : Con) (ht : t.coeffs.length ≤ n) (hts : t.strict = false)
    (himp : ∀ x ∈ sem cs, t.sat x) :
    ∃ (ys : List Int) (y0 : Int) (l0 : Rat), 0 < y0 ∧ ys.length = cs.length ∧ (∀ a ∈ ys, 0 ≤ a) ∧
      0 ≤ l0 ∧ ∀ x, (y0 : Rat) * t.eval x = wev cs ys x + l0 := by
  obtain ⟨x, hx⟩ := Set.nonempty_iff_ne_empty.mpr hne
  exact PPLV.Farkas.farkas_implied n cs hwf hns ⟨x, hx⟩ t ht hts himp

-- `x ≥ 0` implies `2x + 3 ≥ 0`: `1·(2x+3) = 2·x + 3`
example : WF 1 [geRow [1] 0] ∧ sem [geRow [1] 0] ≠ ∅ ∧ implies 1 [geRow [1] 0] (geRow [2] 3) = true := by
  refine ⟨(wfB_iff _ _).mp (by decide), ?_, by decide +kernel⟩
  apply Set.nonempty_iff_ne_empty.mp
  exact certFeas_sound [geRow [1] 0] [0] 1 (by decide)

/-- **affine Farkas lemma, coefficient form** (the form the encodings are built from): if
    `Σ_j e_j w_j + k ≥ 0` on the non-empty closed polyhedron `sem cs ⊆ ℚ^N` then there are `y ≥ 0`
    with `Σ_i y_i a_{ij} = e_j` for every column `j` and `Σ_i y_i b_i ≤ k`. -/
theorem farkas_implied_affine (N : Nat) (cs : List Con) (hwf : WF N cs)
    (hns : ∀ c ∈ cs, c.strict = false) (hne : sem cs ≠ ∅) (e : Val) (k : Rat)
    (h : ∀ w ∈ sem cs, 0 ≤ sumTo N (fun j => e j * w j) + k) :
    ∃ y : Val, (∀ i, 0 ≤ y i) ∧ (∀ j < N, dot (col cs j) y = e j) ∧ dot (consts cs) y ≤ k := by
  obtain ⟨x, hx⟩ := Set.nonempty_iff_ne_empty.mpr hne
  exact farkasImplied_holds N cs hwf hns ⟨x, hx⟩ e k h

/-! ## layer 2: Mesnard–Serebrenik -/

/-- **MS is complete**: on a non-empty closed relation every ranking function `μ` (normal form:
    `μ(x) ≥ 0`, `μ(x) − μ(x') ≥ 1` on every pair) extends to a solution `(μ, y, z)` of the system
    built by `fill_constraint_systems_MS` (single-system form). -/
theorem ms_complete (n : Nat) (cs : List Con) (hwf : WF (2*n) cs) (hns : ∀ c ∈ cs, c.strict = false)
    (hne : sem cs ≠ ∅) (mu : Val) (h : Spec.isRanking n (sem cs) mu) :
    ∃ sol, Sat (msSystem n cs) sol ∧ ∀ j ≤ n, sol j = mu j := by
  obtain ⟨x, hx⟩ := Set.nonempty_iff_ne_empty.mpr hne
  exact ms_complete_of_farkas farkasImplied_holds n cs hwf hns ⟨x, hx⟩ mu h

example : WF (2*1) decLoop ∧ (∀ c ∈ decLoop, c.strict = false) ∧ sem decLoop ≠ ∅ ∧
    isRankingB 1 decLoop [1, 0] 1 = true := by
  refine ⟨(wfB_iff _ _).mp (by decide), by decide, ?_, by decide +kernel⟩
  apply Set.nonempty_iff_ne_empty.mp
  exact certFeas_sound decLoop [0, 1] 1 (by decide)

/-- on an EMPTY closed relation the encoding is satisfiable too (`μ = 0`, `y` = Farkas refutation of
    the relation, `z = 0`): `termination_test_MS(cs)` answers `true` without an emptiness test -/
theorem ms_complete_empty (n : Nat) (cs : List Con) (hwf : WF (2*n) cs)
    (hns : ∀ c ∈ cs, c.strict = false) (h : sem cs = ∅) : ∃ sol, Sat (msSystem n cs) sol := by
  apply ms_complete_empty_of_farkas farkasInfeasible_holds n cs hwf hns
  rintro ⟨x, hx⟩
  have : x ∈ sem cs := hx
  rw [h] at this; exact this

/-- `x ≥ 1 ∧ x ≤ 0` as a relation over `(x', x)` -/
def emptyLoop : List Con := [geRow [0, 1] (-1), geRow [0, -1] 0]
example : WF (2*1) emptyLoop ∧ (∀ c ∈ emptyLoop, c.strict = false) ∧ sem emptyLoop = ∅ := by
  refine ⟨(wfB_iff _ _).mp (by decide), by decide, ?_⟩
  rw [Set.eq_empty_iff_forall_notMem]
  exact fun x hx => certInfeas_sound emptyLoop [1, 1] (by decide) ⟨x, hx⟩
-- `μ = 0`, `y = (1,1)`, `z = 0`
example : ∃ sol, Sat (msSystem 1 emptyLoop) sol :=
  certFeas_sound _ [0, 0, 1, 1, 0, 0, 0, 0] 1 (by decide +kernel)

/-- **`termination_test_MS` answers exactly** (closed relation, empty or not): the model of the
    Boolean test — satisfiability of the system of `fill_constraint_systems_MS`, decided by K1 — is
    `true` iff an affine ranking function exists. -/
theorem termination_test_MS_iff (n : Nat) (cs : List Con) (hwf : WF (2*n) cs)
    (hns : ∀ c ∈ cs, c.strict = false) :
    feasible (msDim n cs) (msSystem n cs) = true ↔ ∃ mu, Spec.isRanking n (sem cs) mu :=
  termination_test_MS_iff_of_farkas farkasImplied_holds farkasInfeasible_holds n cs hwf hns

-- hypotheses satisfiable on `x' = x, x ≥ 0` (answer: no ranking function, see `C18.lean`), and the
-- zero-dimensional loop `while (true) {}`: the encoded system contains `−1 ≥ 0`
example : WF (2*1) idLoop ∧ (∀ c ∈ idLoop, c.strict = false) := ⟨(wfB_iff _ _).mp (by decide), by decide⟩
example : feasible (msDim 0 []) (msSystem 0 []) = false := by decide +kernel

/-- the same through `assign_all_inequalities_approximation` for a NON-EMPTY relation with strict rows -/
theorem termination_test_MS_iff_nnc (n : Nat) (cs : List Con) (hwf : WF (2*n) cs) (hne : sem cs ≠ ∅) :
    feasible (msDim n (approxIneq cs)) (msSystem n (approxIneq cs)) = true ↔
      ∃ mu, Spec.isRanking n (sem cs) mu := by
  obtain ⟨x, hx⟩ := Set.nonempty_iff_ne_empty.mpr hne
  exact PPLV.Term.termination_test_MS_iff_nnc n cs hwf ⟨x, hx⟩

/-- **`all_affine_ranking_functions_MS` is exact** (termination.cc:503: `ph1` = system 1 projected
    on `μ_1..μ_n` with `μ_0` free, `ph2` = system 2 projected on `μ_1..μ_n, μ_0`, intersection): on a
    non-empty closed relation the projected solution space is EXACTLY the set of ranking functions. -/
theorem all_affine_ranking_functions_MS_exact (n : Nat) (cs : List Con) (hwf : WF (2*n) cs)
    (hns : ∀ c ∈ cs, c.strict = false) (hne : sem cs ≠ ∅) (mu : Val) :
    Spec.isRanking n (sem cs) mu ↔
      ((∃ s1, (∀ j < n, s1 j = mu j) ∧ Sat (fillMS1 n cs (n+1)) s1) ∧
       (∃ s2, (∀ j ≤ n, s2 j = mu j) ∧ Sat (fillMS2 n cs (n+1)) s2)) := by
  obtain ⟨x, hx⟩ := Set.nonempty_iff_ne_empty.mpr hne
  exact ms_space_exact_of_farkas farkasImplied_holds n cs hwf hns ⟨x, hx⟩ mu

/-- what the judge `pplv_term` prints as `ms_model=` and `checks/c18_complete.py` uses as the
    reference answer: a CERTIFIED verdict of the model on the relaxed system decides existence of a
    ranking function of the relation (closed, or non-empty with strict rows) -/
theorem ms_certified_verdict (n : Nat) (cs : List Con) (hwf : WF (2*n) cs)
    (hc : (∀ c ∈ cs, c.strict = false) ∨ sem cs ≠ ∅) (b : Bool)
    (h : certify (msDim n (approxIneq cs)) (msSystem n (approxIneq cs)) = some b) :
    b = true ↔ ∃ mu, Spec.isRanking n (sem cs) mu := by
  refine PPLV.Term.ms_certified_verdict n cs hwf ?_ b h
  rcases hc with hns | hne
  · exact Or.inl hns
  · obtain ⟨x, hx⟩ := Set.nonempty_iff_ne_empty.mpr hne
    exact Or.inr ⟨x, hx⟩

-- `x − x' > 1` (strict row, non-empty, unbounded from below): certified `false`
example : certify (msDim 1 (approxIneq [gtRow [-1, 1] (-1)])) (msSystem 1 (approxIneq [gtRow [-1, 1] (-1)]))
    = some false := by decide +kernel

/-! ## layer 2: Podelski–Rybalchenko, single-relation form -/

/-- **PR_original is complete**: a function bounded from below and decreasing by `δ > 0` on a
    non-empty closed relation gives, scaled by `t = 1/δ`, a solution of
    `fill_constraint_system_PR_original` + `le_out ≤ −1` that synthesises `t·μ`. -/
theorem pr_original_complete (n : Nat) (cs : List Con) (hwf : WF (2*n) cs)
    (hns : ∀ c ∈ cs, c.strict = false) (hne : sem cs ≠ ∅) (mu : Val)
    (h : Spec.isRankingGen n (sem cs) mu) :
    ∃ (u : Val) (t : Rat), 0 < t ∧ Sat (prOrigSystem n cs) u ∧ ∀ j < n, prOrigMu n cs u j = t * mu j := by
  obtain ⟨x, hx⟩ := Set.nonempty_iff_ne_empty.mpr hne
  exact pr_original_complete_of_farkas farkasImplied_holds n cs hwf hns ⟨x, hx⟩ mu h

-- hypotheses: `decLoop` with `μ = x` (see `ms_complete`); conclusion: `λ_1 = (0,0,1)`, `λ_2 = (0,1,0)`
example : ∃ u, Sat (prOrigSystem 1 decLoop) u ∧ prOrigMu 1 decLoop u 0 = 1 * ratPoint [1, 0] 1 0 := by
  refine ⟨_, certFeas_point _ [0, 0, 1, 0, 1, 0] 1 (by decide +kernel), ?_⟩
  simp [prOrigMu, col, decLoop, eqRows, geRow, Con.at, ratPoint, dot, Val.tail]

theorem pr_original_complete_empty (n : Nat) (cs : List Con) (hwf : WF (2*n) cs)
    (hns : ∀ c ∈ cs, c.strict = false) (h : sem cs = ∅) : ∃ u, Sat (prOrigSystem n cs) u := by
  apply pr_original_complete_empty_of_farkas farkasInfeasible_holds n cs hwf hns
  rintro ⟨x, hx⟩
  have : x ∈ sem cs := hx
  rw [h] at this; exact this

/-- **`termination_test_PR_original` answers exactly** (closed relation, empty or not) -/
theorem termination_test_PR_original_iff (n : Nat) (cs : List Con) (hwf : WF (2*n) cs)
    (hns : ∀ c ∈ cs, c.strict = false) :
    feasible (prOrigDim cs) (prOrigSystem n cs) = true ↔ ∃ mu, Spec.isRankingGen n (sem cs) mu :=
  termination_test_PR_original_iff_of_farkas farkasImplied_holds farkasInfeasible_holds n cs hwf hns

example : feasible (prOrigDim idLoop) (prOrigSystem 1 idLoop) = false := by decide +kernel

theorem termination_test_PR_original_iff_nnc (n : Nat) (cs : List Con) (hwf : WF (2*n) cs)
    (hne : sem cs ≠ ∅) :
    feasible (prOrigDim (approxIneq cs)) (prOrigSystem n (approxIneq cs)) = true ↔
      ∃ mu, Spec.isRankingGen n (sem cs) mu := by
  obtain ⟨x, hx⟩ := Set.nonempty_iff_ne_empty.mpr hne
  exact PPLV.Term.termination_test_PR_original_iff_nnc n cs hwf ⟨x, hx⟩

/-- **the two methods agree** on every closed relation: the MS test is `true` iff the PR test is -/
theorem ms_iff_pr_original (n : Nat) (cs : List Con) (hwf : WF (2*n) cs)
    (hns : ∀ c ∈ cs, c.strict = false) :
    feasible (msDim n cs) (msSystem n cs) = true ↔ feasible (prOrigDim cs) (prOrigSystem n cs) = true := by
  rw [termination_test_MS_iff n cs hwf hns, termination_test_PR_original_iff n cs hwf hns]
  exact ⟨fun ⟨mu, h⟩ => ⟨mu, rankingGen_of_ranking n _ mu h⟩,
         fun ⟨mu, h⟩ => ranking_of_rankingGen n _ mu h⟩

theorem pr_original_certified_verdict (n : Nat) (cs : List Con) (hwf : WF (2*n) cs)
    (hc : (∀ c ∈ cs, c.strict = false) ∨ sem cs ≠ ∅) (b : Bool)
    (h : certify (prOrigDim (approxIneq cs)) (prOrigSystem n (approxIneq cs)) = some b) :
    b = true ↔ ∃ mu, Spec.isRankingGen n (sem cs) mu := by
  refine PPLV.Term.pr_original_certified_verdict n cs hwf ?_ b h
  rcases hc with hns | hne
  · exact Or.inl hns
  · obtain ⟨x, hx⟩ := Set.nonempty_iff_ne_empty.mpr hne
    exact Or.inr ⟨x, hx⟩

/-! ## layer 2: Podelski–Rybalchenko, before/after form -/

/-- soundness, sharpened: the synthesised function is bounded from below on the whole *guard*
    `sem csB` (by `−u_1·d_B`), not only on the relation -/
theorem pr_sound_guard (n : Nat) (csB csA : List Con) (hB : WF n csB) (hA : WF (2*n) csA) (u : Val)
    (h : Sat (prSystem n csB csA) u) :
    Spec.isRankingGuard n (fun x => Sat csB x) (fun w => Sat (pairRel n csB csA) w) (prMu n csA u) :=
  prSystem_sound_guard n csB csA hB hA u h

/-- **PR (before/after) is complete for functions bounded from below on the guard** -/
theorem pr_complete (n : Nat) (csB csA : List Con) (hB : WF n csB) (hA : WF (2*n) csA)
    (hnsB : ∀ c ∈ csB, c.strict = false) (hnsA : ∀ c ∈ csA, c.strict = false)
    (hne : sem (pairRel n csB csA) ≠ ∅) (mu : Val)
    (h : Spec.isRankingGuard n (fun x => Sat csB x) (fun w => Sat (pairRel n csB csA) w) mu) :
    ∃ (u : Val) (t : Rat), 0 < t ∧ Sat (prSystem n csB csA) u ∧ ∀ j < n, prMu n csA u j = t * mu j := by
  obtain ⟨x, hx⟩ := Set.nonempty_iff_ne_empty.mpr hne
  exact pr_complete_of_farkas farkasImplied_holds n csB csA hB hA hnsB hnsA ⟨x, hx⟩ mu h

-- the guarded decrement of `C18.lean` (`guardB`, `guardA`): closed, non-empty, `μ = x_2` bounded on the guard
example : WF 2 guardB ∧ WF (2*2) guardA ∧ (∀ c ∈ guardB, c.strict = false) ∧ (∀ c ∈ guardA, c.strict = false) ∧
    sem (pairRel 2 guardB guardA) ≠ ∅ := by
  refine ⟨(wfB_iff _ _).mp (by decide), (wfB_iff _ _).mp (by decide), by decide, by decide, ?_⟩
  apply Set.nonempty_iff_ne_empty.mp
  exact certFeas_sound _ [1, 0, 1, 1] 1 (by decide)

theorem pr_complete_empty (n : Nat) (csB csA : List Con) (hB : WF n csB) (hA : WF (2*n) csA)
    (hnsB : ∀ c ∈ csB, c.strict = false) (hnsA : ∀ c ∈ csA, c.strict = false)
    (h : sem (pairRel n csB csA) = ∅) : ∃ u, Sat (prSystem n csB csA) u := by
  apply pr_complete_empty_of_farkas farkasInfeasible_holds n csB csA hB hA hnsB hnsA
  rintro ⟨x, hx⟩
  have : x ∈ sem (pairRel n csB csA) := hx
  rw [h] at this; exact this

-- guard `x ≥ 1`, relation `x ≤ 0` (empty pair): `u_3 = 1`, `u_2 = 1`, `u_1 = 0`
example : ∃ u, Sat (prSystem 1 [geRow [1] (-1)] [geRow [0, -1] 0]) u :=
  certFeas_sound _ [1, 1, 0] 1 (by decide +kernel)

/-- **`termination_test_PR(before, after)` answers exactly** the question "is there an affine
    function bounded from below on the guard and decreasing by a fixed amount on the relation" -/
theorem termination_test_PR_iff (n : Nat) (csB csA : List Con) (hB : WF n csB) (hA : WF (2*n) csA)
    (hnsB : ∀ c ∈ csB, c.strict = false) (hnsA : ∀ c ∈ csA, c.strict = false) :
    feasible (prDim csB csA) (prSystem n csB csA) = true ↔
      ∃ mu, Spec.isRankingGuard n (fun x => Sat csB x) (fun w => Sat (pairRel n csB csA) w) mu :=
  termination_test_PR_iff_of_farkas farkasImplied_holds farkasInfeasible_holds n csB csA hB hA hnsB hnsA

/-- when every state of the guard has a successor the before/after form is complete for ALL ranking
    functions of the relation (then `guard_entailed=1` in the judge's `caseinfo`) -/
theorem pr_complete_guard_entailed (n : Nat) (csB csA : List Con) (hB : WF n csB) (hA : WF (2*n) csA)
    (hnsB : ∀ c ∈ csB, c.strict = false) (hnsA : ∀ c ∈ csA, c.strict = false)
    (hne : sem (pairRel n csB csA) ≠ ∅)
    (hent : ∀ x, Sat csB x → ∃ w, Sat csA w ∧ ∀ j < n, w (n + j) = x j) (mu : Val)
    (h : Spec.isRankingGen n (sem (pairRel n csB csA)) mu) :
    ∃ (u : Val) (t : Rat), 0 < t ∧ Sat (prSystem n csB csA) u ∧ ∀ j < n, prMu n csA u j = t * mu j :=
  pr_complete n csB csA hB hA hnsB hnsA hne mu (rankingGuard_of_guard_entailed n csB csA hB hent mu h)

-- guard `x ≥ 0`, update `x' = x − 1`: every state of the guard has a successor
example : ∃ u, Sat (prSystem 1 [geRow [1] 0] (eqRows [1, -1] 1)) u :=
  certFeas_sound _ [0, 1, 0, 1] 1 (by decide +kernel)

/-- without that, the before/after form is INCOMPLETE (KF-C18-1): guard = universe, relation
    `x' = x − 1 ∧ x ≥ 0` (the bound `x ≥ 0` is known through `after` only): `μ = x` is a ranking
    function, the encoded system has no solution -/
theorem pr_complete_without_guard_bound_fails :
    ¬ (∀ (n : Nat) (csB csA : List Con), WF n csB → WF (2*n) csA →
        (∀ c ∈ csB, c.strict = false) → (∀ c ∈ csA, c.strict = false) →
        (∃ mu, Spec.isRankingGen n (sem (pairRel n csB csA)) mu) →
        feasible (prDim csB csA) (prSystem n csB csA) = true) := by
  intro hall
  have hr : isRankingB 1 (pairRel 1 [] decLoop) [1, 0] 1 = true := by decide +kernel
  have hwf : WF (2*1) (pairRel 1 [] decLoop) := (wfB_iff _ _).mp (by decide)
  have h1 := (ranking_iff 1 _ [1, 0] 1 hwf).mp hr
  have hf := hall 1 [] decLoop (by intro c hc; cases hc) ((wfB_iff _ _).mp (by decide))
    (by intro c hc; cases hc) (by decide) ⟨_, rankingGen_of_ranking 1 _ _ h1.2⟩
  have : feasible (prDim [] decLoop) (prSystem 1 [] decLoop) = false := by decide +kernel
  rw [this] at hf
  cases hf

/-! ## relations with strict rows -/

/-- **a non-empty relation and its closure have the same ranking functions** (this is why
    `assign_all_inequalities_approximation` may relax strict rows) -/
theorem ranking_closure_iff (n : Nat) (cs : List Con) (hne : sem cs ≠ ∅) (mu : Val) :
    Spec.isRanking n (sem (relax cs)) mu ↔ Spec.isRanking n (sem cs) mu := by
  obtain ⟨x, hx⟩ := Set.nonempty_iff_ne_empty.mpr hne
  exact isRanking_relax_iff n cs ⟨x, hx⟩ mu

/-- … and the hypothesis is sharp: `x' = x ∧ x > 0 ∧ x ≤ 0` is empty (every function is vacuously a
    ranking function) while its closure `x' = x = 0` has none: on such an input the tests answer
    `false` -/
theorem closure_needs_nonempty :
    (¬ ∃ w, Sat closureCex w) ∧ (∀ mu, Spec.isRanking 1 (sem closureCex) mu) ∧
    (∃ w, Sat (relax closureCex) w) ∧ (∀ mu, ¬ Spec.isRanking 1 (sem (relax closureCex)) mu) :=
  ⟨relax_ranking_empty_sharp.1, relax_ranking_empty_sharp.2.1, relax_ranking_empty_sharp.2.2.1,
   relax_ranking_empty_sharp.2.2.2.2⟩

end C18
