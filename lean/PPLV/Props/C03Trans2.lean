import PPLV.Props.C03Trans2Oct
import PPLV.Props.C03Trans2Lhs
import PPLV.Props.C03Trans2Lat
/-!
# C03, stage 5 — the transformers that stage 3 left "validated by the exact oracle only"

This module joins the three parts of stage 5 (one import: the three families were proved by separate workers
and must coexist without a name clash).  Every statement is about a CODE-SHAPED model (`PPLV/WR/TransOct2*.lean`,
`Trans2Lhs.lean`, `TransOct2Lhs.lean`, `Trans2Lat.lean`, `TransOct2Lat.lean`) of the CURRENT
`/repo/src/{BD_Shape,Octagonal_Shape}_templates.hh`, for EVERY bound type `T` through an arbitrary `R : Rnd`
with the one-sided hypotheses `R.Sound`; `_partial` = under the stage-3 side conditions only (`CoeffExact`:
non-zero |coefficients| (for the invertible preimages also |den|) representable in `T`; `HalfFiniteOn` for
octagons), except where the comment next to the theorem names one more hypothesis and why.

* `PPLV.Props.C03Trans2Oct` — `Octagonal_Shape<T>`: `oct_refine_sound`, `oct_add_constraint_sound`,
  `oct_unconstrain_sound` (full strength); `oct_generalized_affine_image_sound_partial` (+ `_special`, `_mpq`,
  `_mpz`); `oct_refine_var_sound_partial` / `_repaired` / `_fails` (private `refine(var, relsym, expr, den)`: the
  code as written writes the cell of `v + u` where `u - v` is meant — open findings KF-C03-75..78);
  `oct_affine_preimage_sound_partial`, `oct_generalized_affine_preimage_sound_partial` (+ `_repaired`);
  `oct_bounded_affine_image_sound_special_partial` / `oct_bounded_affine_image_sound_partial`.
* `PPLV.Props.C03Trans2Lhs` — both domains, `generalized_affine_image(lhs, relsym, rhs)` and
  `generalized_affine_preimage(lhs, relsym, rhs)` (constant lhs, single variable → delegate, general lhs
  disjoint from / sharing variables with rhs → forget, resp. the new-dimension trick):
  `bds_generalized_affine_image_lhs_sound_partial`, `bds_generalized_affine_preimage_lhs_sound_partial`,
  `oct_generalized_affine_image_lhs_sound_partial`, `oct_generalized_affine_preimage_lhs_sound_partial`
  (+ `_special`, `_mpq`, `_mpz`), and `BD_Shape`'s private `refine(var, …)`: `bds_refine_var_sound_partial`,
  `bds_refine_var_entries_decrease_special` / `_fails`.
* `PPLV.Props.C03Trans2Lat` — both domains, the lattice-style and dimension-changing operations:
  `*_intersection_*`, `*_upper_bound_*`, `*_concatenate_*`, `*_embed_*`, `*_project_*`, `*_remove_dims_*`,
  `*_remove_higher_*`, `*_map_dims_*`, `*_expand_*`, `*_fold_sound`, `*_difference_pieces_sound`
  (`_sound`: every rounding; `_exact`: equality of γ, resp. leastness for `upper_bound` / `fold`, for every
  rounding where the operation only copies / compares entries, for exact arithmetic where a closure is involved —
  both domains complete: the octagon ones rest on tightness of the exact strong closure,
  `OctM.IsStronglyClosed.exists_point_ge`).

The tie to the real code is `harness/c03_trans.cc --s5`, `Driver/WRT.lean` (`pplv_wrt`), `checks/c03_trans.py`.
-/
namespace C03
open PPLV.WR

-- the entry points of the three families, side by side (a clash of names or of instances would not elaborate)
example := @octGenAffineImage
example := @octLhsGenAffinePreimage
example := @bdsLhsGenAffineImage
example := @bdsLatUpperBound
example := @octLatFold

end C03
