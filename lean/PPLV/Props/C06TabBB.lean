import PPLV.Props.C06Tab
import PPLV.Solver.BBSound

/-!
# C06 stage 3 — the LP machinery model discharges the oracle hypothesis of the branch-and-bound part

`lp_fresh_implies_LPCorrect`: for a problem never solved before, what the modelled `is_lp_satisfiable()` /
`second_phase()` leave behind satisfies `PPLV.Solver.BB.LPCorrect` for the node with the same rows, objective and
mode (the clauses of `BB.OracleOK`), whatever the pricing rule, provided the calls terminate.
-/
namespace C06
open PPLV.Lin PPLV.Solver PPLV.Solver.Tab PPLV.Solver.Pend

/-- the branch-and-bound node with the data of an LP state -/
def modelNode (s : LPState) : BB.Node :=
  { n := s.external_space_dim, rows := s.input_cs.map fun c => ⟨c.coeffs, c.k, c.isEq⟩, ivars := [],
    obj := s.obj, maximize := s.maximize }

theorem modelNode_toProblem (s : LPState) : (modelNode s).toProblem = s.problem := by
  unfold modelNode BB.Node.toProblem LPState.problem
  simp only [Problem.mk.injEq, and_true, true_and]
  rw [List.flatMap_map]
  rfl

theorem lp_fresh_implies_LPCorrect (fc : Chooser) (hfc : ChooserOK fc) (f1 f2 : Nat) (s s1 : LPState) (r : Bool)
    (hU : Untouched s) (hlg : s.last_generator = ⟨[], 1⟩) (hn : 0 < s.external_space_dim)
    (hl : ∀ c ∈ s.input_cs, c.coeffs.length ≤ s.external_space_dim)
    (hobj : s.obj.coeffs.length ≤ s.external_space_dim)
    (h1 : isLpSatisfiable fc f1 s = some (s1, r)) :
    (r = false → BB.LPCorrect (modelNode s) .unfeasible) ∧
    (r = true → ∀ s2, secondPhase fc f2 s1 = some s2 →
      (s2.status = .OPTIMIZED ∨ s2.status = .UNBOUNDED) ∧
      (s2.status = .OPTIMIZED → BB.LPCorrect (modelNode s) (.optimized s2.last_generator)) ∧
      (s2.status = .UNBOUNDED → BB.LPCorrect (modelNode s) (.unbounded s2.last_generator))) := by
  obtain ⟨a, b⟩ := lp_fresh_correct fc hfc f1 f2 s s1 r hU hlg hn hl hobj h1
  refine ⟨fun hr => ?_, fun hr s2 h2 => ?_⟩
  · show ∀ x, ¬ Sat (modelNode s).toProblem.cs x
    rw [modelNode_toProblem]; exact a hr
  · obtain ⟨-, b2⟩ := b hr
    obtain ⟨w1, w2, w3, w4, w5⟩ := b2 s2 h2
    refine ⟨w1, fun hopt => ?_, fun hunb => ?_⟩
    · show 0 < s2.last_generator.den ∧ Sat (modelNode s).toProblem.cs s2.last_generator.val ∧
        ∀ x, Sat (modelNode s).toProblem.cs x →
          ¬ Better (modelNode s).toProblem ((modelNode s).toProblem.objVal x) (BB.objAt (modelNode s) s2.last_generator)
      unfold BB.objAt
      rw [modelNode_toProblem]
      exact ⟨w2, w3, w4 hopt⟩
    · show 0 < s2.last_generator.den ∧ Sat (modelNode s).toProblem.cs s2.last_generator.val ∧
        BB.LPUnb (modelNode s).toProblem
      unfold BB.LPUnb
      rw [modelNode_toProblem]
      exact ⟨w2, w3, w5 hunb⟩

example : (modelNode exNew).toProblem = exNew.problem := modelNode_toProblem exNew

end C06
