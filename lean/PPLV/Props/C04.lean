import PPLV.WR.Proofs

/-!
# C04 — over the rationals, boxes / BD shapes / octagons are exact and best where documented

What the native driver `pplv_wr --mode c04` computes when it judges the real library, and why its
verdicts are the set-level statements of the property:

* a `Box`, `BD_Shape<mpq_class>`, `Octagonal_Shape<mpq_class>` is read from `constraints()` as a
  constraint system `R`; its concretisation is K1's `sem R`;
* "the result is the exact set `E`" is judged by `equivB` (`exact_iff`: sound and complete);
* "the result is the smallest element of the domain containing the exact result" is judged by
  `equivB R (bestU K n pieces)`, where `pieces` are the convex pieces of the exact result (one piece
  for constructors, the two arguments for the upper bound, `A ∧ ¬b` for the difference, the renamings
  for fold).  `best_least` / `bestU_least` say that this system is a shape of the domain, contains every
  piece, and is contained in every shape of the domain that contains every piece — for all inputs;
* the Boolean of `upper_bound_assign_if_exact` is judged by `unionInDomain` (`ub_if_exact_spec`).

`KindRow K n c` (in `PPLV/WR/Proofs.lean`): the coefficient vector of `c` is a positive multiple of a
template direction of `K` (`±x_i`; `x_i − x_j`; `±(x_i + x_j)`) or zero, and `c` is non-strict unless
`K = box`.  `OfKind K n Q`: every row of `Q` is one.
-/
namespace C04
open PPLV.Lin PPLV.WR

/-- **Best abstraction of one convex set.**  `best K n P` is an element of the domain, contains
    `sem P`, and every element of the domain containing `sem P` contains it. -/
theorem best_least (K : ShapeKind) (n : Nat) (P : List Con) (hP : WF n P) :
    OfKind K n (best K n P) ∧ sem P ⊆ sem (best K n P) ∧
    ∀ Q, OfKind K n Q → sem P ⊆ sem Q → sem (best K n P) ⊆ sem Q := by
  have hwf : ∀ P' ∈ [P], WF n P' := by
    intro P' h; rw [List.mem_singleton] at h; subst h; exact hP
  have hU : semU [P] = sem P := by rw [semU_cons, semU_nil, Set.union_empty]
  refine ⟨bestU_ofKind K n [P] hwf, ?_, fun Q hQ hsub => ?_⟩
  · have := bestU_sound K n [P] hwf
    rwa [hU] at this
  · exact bestU_least K n [P] hwf Q hQ (by rw [hU]; exact hsub)

-- the triangle x ≥ 0, y ≥ 0, x + y ≤ 4: its best BD shape adds −4 ≤ x − y ≤ 4, and the open half-plane
-- x + y > 0 cut by x ≤ 1, y ≤ 1 has the best box (−1, 1] × (−1, 1]
example : best .bds 2 [geRow [1, 1] 0, geRow [1, 0] 0, geRow [-1, -1] 4, geRow [0, 1] 0]
    = [geRow [1, 0] 0, geRow [-1, 0] 4, geRow [0, 1] 0, geRow [0, -1] 4, geRow [1, -1] 4, geRow [-1, 1] 4] := by
  decide +kernel
example : best .box 2 [gtRow [1, 1] 0, geRow [-1, 0] 1, geRow [0, -1] 1]
    = [gtRow [1, 0] 1, geRow [-1, 0] 1, gtRow [0, 1] 1, geRow [0, -1] 1] := by
  decide +kernel

/-- **Best abstraction of a union of convex pieces** (upper bound, difference, fold). -/
theorem bestU_least (K : ShapeKind) (n : Nat) (Ps : List (List Con)) (hP : ∀ P ∈ Ps, WF n P) :
    OfKind K n (bestU K n Ps) ∧ (∀ P ∈ Ps, sem P ⊆ sem (bestU K n Ps)) ∧
    ∀ Q, OfKind K n Q → (∀ P ∈ Ps, sem P ⊆ sem Q) → sem (bestU K n Ps) ⊆ sem Q := by
  refine ⟨bestU_ofKind K n Ps hP, fun P hPm x hx => bestU_sound K n Ps hP ⟨P, hPm, hx⟩, fun Q hQ hsub => ?_⟩
  exact PPLV.WR.bestU_least K n Ps hP Q hQ (fun x ⟨P, hPm, hx⟩ => hsub P hPm hx)

-- the octagonal hull of two unit squares on the diagonal
example : bestU .oct 2 [[geRow [1,0] 0, geRow [-1,0] 1, geRow [0,1] 0, geRow [0,-1] 1],
                        [geRow [1,0] (-2), geRow [-1,0] 3, geRow [0,1] (-2), geRow [0,-1] 3]]
    = [geRow [1, 0] 0, geRow [-1, 0] 3, geRow [0, 1] 0, geRow [0, -1] 3, geRow [1, -1] 1, geRow [-1, 1] 1,
       geRow [1, 1] 0, geRow [-1, -1] 6] := by
  decide +kernel

/-- The pieces used for `difference_assign` denote the set difference. -/
theorem difference_pieces (A B : List Con) : semU (diffPieces A B) = sem A \ sem B := diffPieces_sem A B

/-- **Exactness judge** (`equivB_iff` of K1 restated): the result `R` of an exact operator is accepted
    iff it denotes the exact set `E`. -/
theorem exact_iff (n : Nat) (R E : List Con) (hR : WF n R) (hE : WF n E) :
    equivB n R E = true ↔ sem R = sem E := equivB_iff n R E hR hE

example : equivB 2 [geRow [1, -1] 0, geRow [-1, 1] 0, geRow [1, 0] (-1)] [geRow [0, 1] (-1), geRow [2, -2] 0, geRow [-3, 3] 0] = true := by
  decide +kernel

/-- **`upper_bound_assign_if_exact`**: the judge answers `true` exactly when the set union is the
    point set of an element of the domain. -/
theorem ub_if_exact_spec (K : ShapeKind) (n : Nat) (A B : List Con) (hA : WF n A) (hB : WF n B) :
    unionInDomain K n A B = true ↔ ∃ Q, OfKind K n Q ∧ sem Q = sem A ∪ sem B :=
  unionInDomain_iff K n A B hA hB

/-- … and then the expected result `bestU K n [A, B]` is that union. -/
theorem ub_if_exact_result (K : ShapeKind) (n : Nat) (A B : List Con) (hA : WF n A) (hB : WF n B)
    (h : unionInDomain K n A B = true) : sem (bestU K n [A, B]) = sem A ∪ sem B :=
  unionInDomain_best K n A B hA hB h

-- [0,1] ∪ [1,2] is an interval, [0,1] ∪ [2,3] is not
example : unionInDomain .box 1 [geRow [1] 0, geRow [-1] 1] [geRow [1] (-1), geRow [-1] 2] = true := by decide +kernel
example : unionInDomain .box 1 [geRow [1] 0, geRow [-1] 1] [geRow [1] (-2), geRow [-1] 3] = false := by decide +kernel

/-- Predicates are judged by K1's deciders, which are sound and complete (both polarities):
    emptiness, containment, disjointness, equality. -/
theorem predicates_exact (n : Nat) (A B : List Con) (hA : WF n A) (hB : WF n B) :
    (isEmptyB n A = true ↔ sem A = ∅) ∧ (subsetB n B A = true ↔ sem B ⊆ sem A) ∧
    (disjointB n A B = true ↔ sem A ∩ sem B = ∅) ∧ (equivB n A B = true ↔ sem A = sem B) :=
  ⟨isEmptyB_iff n A hA, subsetB_iff n B A hB hA, disjointB_iff n A B hA hB, equivB_iff n A B hA hB⟩

-- the alternating cycle x ≤ y ≤ z ≤ 0 ≤ x − 1 split between two BD shapes: disjoint
example : disjointB 3 [geRow [-1, 1, 0] 0, geRow [0, 0, -1] 0] [geRow [0, -1, 1] 0, geRow [1, 0, 0] (-1)] = true := by
  decide +kernel

/-- Bounds and optima are judged by K1's `supB` (`supB_spec`): empty / unbounded / the exact value with
    its attained flag. -/
theorem optimum_exact (n : Nat) (e : List Int) (k : Int) (A : List Con) (hA : WF n A) (he : e.length ≤ n) :
    match supB n e k A with
    | .empty => sem A = ∅
    | .unbounded => (∃ x, x ∈ sem A) ∧ ∀ M : Rat, ∃ x ∈ sem A, M < dot e x + k
    | .val p q att => 0 < q ∧ (∀ x ∈ sem A, dot e x + k ≤ (p:Rat)/q) ∧
        (att = true → ∃ x ∈ sem A, dot e x + k = (p:Rat)/q) ∧
        (att = false → (∀ x ∈ sem A, dot e x + k < (p:Rat)/q) ∧
          ∀ ε : Rat, 0 < ε → ∃ x ∈ sem A, (p:Rat)/q - ε < dot e x + k) :=
  supB_spec n e k A hA he

end C04
