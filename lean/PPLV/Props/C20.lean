import PPLV.CIface.Proofs

/-!
# C20 — the C interface is a faithful, exception-tight wrapper of the C++ library

Every theorem below quantifies over `PPLV.Gen.cEntryPoints`, the table of *all* `extern "C"` entry
points that `gen/c20_table.py` regenerates from the clang AST of `interfaces/C/*.cc` at every run
(≈ 1990 rows), over `PPLV.Gen.catchAll` (the handler list `CATCH_ALL` expands to now) and over
`PPLV.Gen.errorCodes` (`enum ppl_enum_error_code` of `ppl_c.h`).  The quantifiers are finite, so
kernel evaluation (`decide +kernel`) *is* the proof; no name (`String`) is ever evaluated.

What the table cannot express (that the C++ operation behind a wrapper computes the right set)
is covered by the correspondence harness `harness/c20_ciface.cc`.
-/

namespace C20
open PPLV.CIface PPLV.Gen

private abbrev of_chunks := @forall_of_chunks

/-- The table really has the advertised size (so none of the sweeps below is vacuous). -/
theorem table_size : cEntryPoints.length = numEntryPoints ∧ 1800 ≤ numEntryPoints := by
  decide +kernel

/-! ### error codes -/

/-- `enum ppl_enum_error_code` of the current `ppl_c.h` has exactly the documented values, in the
documented order (−2 … −12; the codes are part of the ABI). -/
theorem error_codes_documented : errorCodes = documentedEnum := by decide +kernel

example : PPL_ARITHMETIC_OVERFLOW ∈ errorCodes := by decide +kernel

/-! ### handler selection -/

theorem excClass_all_complete : ∀ e : ExcClass, e ∈ ExcClass.all := by
  intro e; cases e <;> decide

/-- **dispatch_correct.**  Whatever class of exception the wrapped operation throws, the handler
that C++ selects among the clauses of `CATCH_ALL` (first clause whose class is a base of the thrown
class) is well formed, calls `notify_error` with the documented code *before* returning, returns
that same documented code, and — for the two timeout classes — first disarms the matching timeout
object.  In particular `overflow_error` is not shadowed by `runtime_error`, and
`invalid_argument` / `domain_error` / `length_error` are not shadowed by `logic_error`. -/
theorem dispatch_correct : ∀ e ∈ ExcClass.all,
    observe catchAll e
      = .returned (some (documentedCode e)) (some (documentedCode e)) (documentedReset e) true := by
  decide +kernel

theorem dispatch_correct_all (e : ExcClass) :
    observe catchAll e
      = .returned (some (documentedCode e)) (some (documentedCode e)) (documentedReset e) true :=
  dispatch_correct e (excClass_all_complete e)

/-- No class of exception escapes a `CATCH_ALL`. -/
theorem catch_all_total (e : ExcClass) : observe catchAll e ≠ .escapes := by
  rw [dispatch_correct_all e]; exact fun h => Observed.noConfusion h

-- non-vacuity: the two shadowing hazards are real distinctions of the model
example : isBase .runtimeError .overflowError = true ∧ documentedCode .overflowError ≠ documentedCode .runtimeError := by
  decide
example : isBase .logicError .invalidArgument = true ∧ documentedCode .invalidArgument ≠ documentedCode .logicError := by
  decide
example : (dispatch catchAll .overflowError).map (·.ret) = some (some PPL_ARITHMETIC_OVERFLOW) := by decide +kernel
/-- a handler list with `runtime_error` first would be rejected by the same statement -/
example : observe [⟨.cls .runtimeError, true, some (-8), some (-8), .none, true⟩,
                   ⟨.cls .overflowError, true, some (-6), some (-6), .none, true⟩] .overflowError
    ≠ .returned (some (documentedCode .overflowError)) (some (documentedCode .overflowError)) .none true := by
  decide

/-! ### exception tightness -/

/-- **all_tight (partial).**  Every entry point whose C return type is `int` either has a
function-try-block closed by exactly the clauses of `CATCH_ALL`, or its body contains no call-like
node at all (no call, construction, `new`, `delete`, `throw`, `dynamic_cast`, `typeid`) and hence
cannot throw.

Missing for the full statement: the hypothesis `f.retInt`.  The unchanged tree has one entry
point that returns `char*` (`ppl_io_wrap_string`): it has no try block and builds a `std::string`
(see `all_tight_verdict`, finding KF-C20-1). -/
theorem all_tight_partial : ∀ f ∈ cEntryPoints, f.retInt = true →
    (f.tryBlock = true ∧ f.catchClauses catchVariants = catchAll) ∨ f.cannotThrow = true := by
  intro f hf hr
  have h := of_chunks (fun f => !f.retInt || f.tight catchVariants catchAll) (by decide +kernel) f hf
  simp [hr, EntryPoint.tight] at h
  exact h

/-- **all_tight**, full strength: every entry point — whatever it returns — is closed by exactly the
clauses of `CATCH_ALL`, or cannot throw, or (pointer-returning) is closed by handlers that catch every
class, notify the error handler with the documented code of their class and return the null pointer. -/
def AllTight : Prop := ∀ f ∈ cEntryPoints, f.tightFull catchVariants catchAll = true

/-- Which way `AllTight` goes on the regenerated table, with its proof.  On the unchanged tree:
`fails` (`ppl_io_wrap_string`, finding KF-C20-1); the same text yields `holds` once that is repaired. -/
def all_tight_verdict : Verdict AllTight := by
  first
  | exact .holds (of_chunks (fun f => f.tightFull catchVariants catchAll) (by decide +kernel))
  | exact .fails (fun h => by
      have hw : cEntryPoints.any (fun f => !f.tightFull catchVariants catchAll) = true := by decide +kernel
      rcases List.any_eq_true.mp hw with ⟨f, hf, hnt⟩
      simp [h f hf] at hnt)

/-- The only entry points without a try block that still satisfy tightness are call-free. -/
theorem untried_cannot_throw : ∀ f ∈ cEntryPoints, f.retInt = true → f.tryBlock = false →
    f.calls = 0 ∧ f.throws = 0 ∧ f.news = 0 := by
  intro f hf hr ht
  rcases all_tight_partial f hf hr with ⟨h1, _⟩ | h
  · simp [ht] at h1
  · simpa [EntryPoint.cannotThrow, and_assoc] using h

/-- **boundary.**  End-to-end form: for every `int`-returning entry point that can throw at all and
every class of exception, the C caller observes the documented error code, after the error
handler has been invoked with that code (and after the matching timeout has been disarmed). -/
theorem boundary : ∀ f ∈ cEntryPoints, f.retInt = true → f.cannotThrow = false → ∀ e : ExcClass,
    observe (f.catchClauses catchVariants) e
      = .returned (some (documentedCode e)) (some (documentedCode e)) (documentedReset e) true := by
  intro f hf hr hc e
  rcases all_tight_partial f hf hr with ⟨_, h2⟩ | h
  · rw [h2]; exact dispatch_correct_all e
  · simp [hc] at h

-- non-vacuity: almost every row is in the scope of `boundary`
example : 1800 ≤ (cEntryPoints.filter (fun f => f.retInt && !f.cannotThrow && f.tryBlock)).length := by
  decide +kernel
example : (cEntryPoints.filter (fun f => !f.tryBlock)).length ≤ 2 := by decide +kernel

/-! ### const handles -/

/-- **const_handles.**  A parameter of const-handle type `ppl_const_T_t` is only ever converted with
`to_const` (whose result is a pointer to `const`) or forwarded to a const-handle parameter of
another entry point — never `to_nonconst`, never forwarded as a non-const handle, never used in any
other expression — and no entry point contains a cast that removes `const` from a pointer or
reference (`const_cast`, C-style, `reinterpret_cast`, functional). -/
theorem const_handles : ∀ f ∈ cEntryPoints,
    (∀ p ∈ f.params, p.isConstHandle = true → p.toNonconst = 0 ∧ p.passNonconst = 0 ∧ p.other = 0)
    ∧ f.constCasts = 0 := by
  intro f hf
  have h := of_chunks (fun f => f.constOK) (by decide +kernel) f hf
  simp [EntryPoint.constOK, List.all_eq_true, Param.constRespected] at h
  refine ⟨fun p hp hc => ?_, h.2⟩
  have := h.1 p hp
  simpa [hc, and_assoc] using this

example : 2000 ≤ ((cEntryPoints.flatMap (·.params)).filter Param.isConstHandle).length := by decide +kernel
example : ∃ f ∈ cEntryPoints, ∃ p ∈ f.params, p.kind = .handle ∧ 0 < p.toNonconst := by
  decide +kernel

/-! ### Boolean answers and return convention -/

/-- **bool_wrappers.**  Every `c ? t : e` with integer-literal branches in any entry point (returned
or stored through an `int*` out-parameter) has `t = 1`, `e = 0` and an un-negated C++ `bool`
condition; a `bool` returned through the implicit conversion is un-negated as well. -/
theorem bool_wrappers : ∀ f ∈ cEntryPoints,
    (∀ t ∈ f.terns, t.neg = false ∧ t.t = 1 ∧ t.e = 0) ∧ (∀ r ∈ f.rets, r.faithful = true) := by
  intro f hf
  have h := of_chunks (fun f => f.boolOK) (by decide +kernel) f hf
  simp [EntryPoint.boolOK, List.all_eq_true, Tern.faithful] at h
  exact ⟨fun t ht => by have := h.1 t ht; simpa [and_assoc] using this, h.2⟩

/-- **return_convention.**  A status wrapper returns literal `0`, a member of
`enum ppl_enum_error_code`, or the status of the entry point it delegates to; a Boolean wrapper
additionally `0`/`1` or a faithful Boolean. -/
theorem return_convention : ∀ f ∈ cEntryPoints, f.retOK errorCodes = true :=
  of_chunks (fun f => f.retOK errorCodes) (by decide +kernel)

example : 350 ≤ (cEntryPoints.filter (fun f => f.retConv == .bool)).length := by decide +kernel
example : 400 ≤ (cEntryPoints.flatMap (·.terns)).length := by decide +kernel

/-- **silent_errors (partial).**  Outside the `ppl_io_*` family the only error code an entry point
returns directly (i.e. not from a `CATCH_ALL` handler, hence without calling `notify_error`) is
`PPL_STDIO_ERROR`, which is not one of the conditions the error handler is promised for.

Missing for the full statement: the hypothesis `f.kind ≠ .io`; see `silent_errors_verdict`
(finding KF-C20-3: `ppl_io_asprint_*` return `PPL_ERROR_OUT_OF_MEMORY` on a failed `strdup` without
invoking the handler). -/
theorem silent_errors_partial : ∀ f ∈ cEntryPoints, f.kind ≠ .io →
    ∀ c, Ret.err c ∈ f.rets → c = PPL_STDIO_ERROR := by
  intro f hf hk c hc
  have h := of_chunks (fun f => f.kind == .io || f.rets.all (Ret.silentOnly [PPL_STDIO_ERROR]))
    (by decide +kernel) f hf
  simp [hk, List.all_eq_true] at h
  simpa [Ret.silentOnly] using h _ hc

/-- **silent_errors**, full strength: `PPL_STDIO_ERROR` is the only code any entry point returns
directly without having called the error handler. -/
def SilentErrors : Prop := ∀ f ∈ cEntryPoints, f.rets.all (Ret.silentOnly [PPL_STDIO_ERROR]) = true

/-- On the unchanged tree: `fails` (finding KF-C20-3). -/
def silent_errors_verdict : Verdict SilentErrors := by
  first
  | exact .holds (of_chunks (fun f => f.rets.all (Ret.silentOnly [PPL_STDIO_ERROR])) (by decide +kernel))
  | exact .fails (fun h => by
      have hw : cEntryPoints.any (fun f => !f.rets.all (Ret.silentOnly [PPL_STDIO_ERROR])) = true := by
        decide +kernel
      rcases List.any_eq_true.mp hw with ⟨f, hf, hnt⟩
      simp [h f hf] at hnt)

/-! ### timeouts leave the handles usable -/

/-- **timeout_disarmed (partial).**  When the wall-clock timeout armed by `ppl_set_timeout` expires,
the handler selected for the registered exception class deletes exactly the armed object and
clears `abandon_expensive_computations`, so the interrupted handle (and every other) is usable
again.

Missing for the full statement: the hypothesis `s.object = .timeout`; see
`timeout_disarmed_verdict` (finding KF-C20-2: `ppl_set_deterministic_timeout` registers a
`timeout_exception` object, so `reset_timeout()` runs instead of `reset_deterministic_timeout()`). -/
theorem timeout_disarmed_partial : ∀ s ∈ timeoutSetters, s.object = .timeout →
    disarmed catchAll resetFns s = true := by
  decide +kernel

/-- **timeout_disarmed**, full strength: both timeouts. -/
def TimeoutDisarmed : Prop := ∀ s ∈ timeoutSetters, disarmed catchAll resetFns s = true

/-- On the unchanged tree: `fails` (finding KF-C20-2). -/
def timeout_disarmed_verdict : Verdict TimeoutDisarmed := by
  first
  | exact .holds (by unfold TimeoutDisarmed; decide +kernel)
  | exact .fails (by unfold TimeoutDisarmed; decide +kernel)

example : timeoutSetters.length = 2 ∧ resetFns.length = 2 := by decide +kernel

/-! ### object life cycle -/

/-- **delete_once.**  Each `ppl_delete_*` contains exactly one `delete` expression, applied to the
conversion of its first (handle) parameter; no other entry point contains a `delete`. -/
theorem delete_once : ∀ f ∈ cEntryPoints, f.deleteOK = true :=
  of_chunks (fun f => f.deleteOK) (by decide +kernel)

theorem delete_once_spec : ∀ f ∈ cEntryPoints,
    (f.kind = .delete → f.deleteArgs = [1]) ∧ (f.kind ≠ .delete → f.deleteArgs = []) := by
  intro f hf
  have h := delete_once f hf
  unfold EntryPoint.deleteOK at h
  constructor
  · intro hk; rw [hk] at h; simp at h; exact h.1
  · intro hk
    cases hk' : f.kind <;> rw [hk'] at h <;> simp_all [List.isEmpty_iff]

/-- Every handle type that some `ppl_new_*` creates has a `ppl_delete_*`. -/
theorem new_has_delete : ∀ f ∈ cEntryPoints, f.kind = .new →
    ∃ g ∈ cEntryPoints, g.kind = .delete ∧ g.cls = f.cls := by
  intro f hf hk
  have h := of_chunks (hasDeleteFor (cEntryPoints.filter EntryPoint.isDelete)) (by decide +kernel) f hf
  unfold hasDeleteFor at h
  have hn : f.isNew = true := by simp [EntryPoint.isNew, hk]
  rw [hn] at h
  simp only [Bool.not_true, Bool.false_or] at h
  rcases List.any_eq_true.mp h with ⟨g, hg, hc⟩
  have hg' := List.mem_filter.mp hg
  exact ⟨g, hg'.1, by simpa [EntryPoint.isDelete] using hg'.2, by simpa using hc⟩

example : 30 ≤ (cEntryPoints.filter EntryPoint.isDelete).length := by decide +kernel
example : 400 ≤ (cEntryPoints.filter EntryPoint.isNew).length := by decide +kernel

/-! ### the wrapped operation is the one the name promises -/

/-- **wraps_named_method.**  For every entry point to which the naming table
(`gen/c20_naming.json`: identity on the operation part of the name, plus the listed exceptions such
as `equals_T ↦ operator==`, `get_constraints ↦ constraints`, `new_T_… ↦ new T`) attaches a
promise, the promised C++ callee is among the functions its try body calls. -/
theorem wraps_named_method : ∀ f ∈ cEntryPoints, f.promised = 0 ∨ f.promised ∈ f.callees := by
  intro f hf
  have h := of_chunks (fun f => f.namedOK) (by decide +kernel) f hf
  simpa [EntryPoint.namedOK] using h

example : 1800 ≤ (cEntryPoints.filter (fun f => f.promised != 0)).length := by decide +kernel

end C20
