import PPLV.COTree.ProofsRebHint

/-!
# C16 stage 2b — hinted insertion `CO_Tree::insert(iterator, key[, data])`

Model `PPLV/COTree/RebalanceHint.lean` (CO_Tree.cc:45-176): empty tree and `end()` fall back to
the unhinted insert; otherwise `bisect_near(hint, key)` — the stage-1 model `HoleArray.bisectNear`
run on the real `indexes[]` (`Tree.toHoleArray`) — gives the slot of the key or of an in-order
neighbour, the next used slot on the other side of the key is the second candidate, and
`insert_precise` is called on the deeper of the two.
-/
namespace C16
open PPLV.COTree

/-- **`insert(itr, key, data)` refines `SMap.set` for ANY valid hint** — `end()` or an iterator on
any used slot, next to the key or arbitrarily stale: every loop terminates, the invariant is kept,
the listing is `SMap.set (toList t) key value`, the returned iterator is on the pair, sizes follow
`afterInsert`.  (Uses `bisect_near_spec` of stage 1 through the bridge `toHoleArray`.) -/
theorem insert_hinted_refines : InsertHintedSpec := insertHintedSpec

/-- **`insert(itr, key)`** (no data): refines `SMap.touch` — a stored key keeps its value, a new
key is stored with `0`; the returned iterator is on the entry. -/
theorem insert_hinted0_refines : InsertHinted0Spec := insertHinted0Spec

/-- the node handed to `insert_precise`: for a key that is not stored and `c1` an in-order
neighbour of it, `hintNode` is a used in-order neighbour of the key that is a leaf or whose child on
the key's side is free — what `go_down_searching_key` would have found. -/
theorem hint_node_ok (t : Tree) (c1 key : Nat) (hs : t.Shape) (h1 : 1 ≤ c1) (h2 : c1 ≤ t.rs)
    (hu : t.isUnused c1 = false) (hk : t.keyAt c1 ≠ key) (hb : t.Brackets c1 c1 key) :
    NodeOK t key (hintNode t c1 key) := hintNode_spec t hs c1 key h1 h2 hu hk hb

/-- hypotheses are satisfiable: `end()` is a valid hint of every tree, and the root slot of a
non-empty valid tree is a used slot, hence a valid (usually stale) hint -/
example (t : Tree) : t.ValidHint none := fun _ h => by cases h
example (t : Tree) (hinv : t.Inv) (hne : 1 ≤ t.size) : t.ValidHint (some (t.rs / 2 + 1)) := by
  intro h hh
  cases hh
  have hb := (Tree.IsNode.root hinv.shape).bounds hinv.shape
  exact ⟨by omega, by omega, root_used hinv.shape hinv.upClosed (by rw [hinv.count]; omega)⟩

end C16
