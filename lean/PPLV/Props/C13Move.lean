import PPLV.Value.MoveProofsVecThms
import PPLV.Value.MoveProofsEraseOne
import PPLV.Value.MoveProofsRecycle
import PPLV.Value.MoveProofsWorld
import PPLV.Value.MoveProofsAlias
import PPLV.Value.MoveProofsGrid
import PPLV.Value.MoveProofsPset
import PPLV.Value.MoveProofsCmp
import PPLV.Value.MoveDemo

/-!
# C13 stage 2 — the MOVING mechanics of the library as a heap-with-ownership machine

Models: `PPLV/Value/Move.lean` (`Swapping_Vector`, `Linear_System`), `MovePoly.lean` (systems,
`Polyhedron`, `Grid`, `Pointset_Powerset`), `MoveRepr.lean` (representation change, generic `std::swap`),
`MoveSpec.lean` (ownership invariant `Owns`, value-level specifications, the pool machine `World`).
Every storage cell (`Linear_Expression::impl`) has exactly one owner; a swap transfers ownership;
`Owns h (owned … ++ frame)` says: no cell is owned twice, none is leaked, no micro-step touched a freed
cell; `FrameEq h h' frame`: the cells of `frame` (everything the call does not own) are untouched.
Tie: `harness/c13_move.cc` → `pplv_c13 --move` (`Driver/C13Move.lean`), `checks/c13_move.py`.
-/
namespace C13
open PPLV.Value PPLV.Value.Move

/-! ## `Swapping_Vector<T>` -/

/-- **reallocation by swapping keeps the contents**: after `resize(n)` (`n ≥ size`, with or without
reallocation) the first `size` elements are the SAME row objects with the same storage in the same
order — none duplicated, none dropped —, the new tail consists of default rows, every cell has exactly
one owner and nothing outside the vector was touched -/
theorem swapping_vector_resize_preserves (K : RowClass) (h : Heap) (v : SVec) (n : Nat) (frame : List Nat)
    (hO : Owns h (owned v.impl ++ frame)) (hn : v.size ≤ n) :
    let out := v.resize K h n
    out.2.impl.take v.size = v.impl ∧ out.2.size = n
    ∧ (∀ r ∈ out.2.impl.drop v.size, r.val out.1 = dfltV K)
    ∧ Owns out.1 (owned out.2.impl ++ frame)
    ∧ (∀ a ∈ owned v.impl ++ frame, out.1.cells a = h.cells a) :=
  C13Proofs.swapping_vector_resize_preserves K h v n frame hO hn

example : ((⟨[⟨0, 1, false⟩, ⟨1, 0, false⟩], 2⟩ : SVec).resize constraintClass
    ⟨fun a => if a = 0 then some [1, 2] else if a = 1 then some [3, 4] else none, 2, false⟩ 5).2
    = ⟨[⟨0, 1, false⟩, ⟨1, 0, false⟩, ⟨4, 1, false⟩, ⟨5, 1, false⟩, ⟨6, 1, false⟩], 12⟩ := by decide

/-- `reserve` alone: the element list is unchanged (as a list of row objects), ownership is kept -/
theorem swapping_vector_reserve_preserves (K : RowClass) (h : Heap) (v : SVec) (c : Nat) (frame : List Nat)
    (hO : Owns h (owned v.impl ++ frame)) :
    (v.reserve K h c).2.impl = v.impl ∧ Owns (v.reserve K h c).1 (owned v.impl ++ frame)
    ∧ (∀ a ∈ owned v.impl ++ frame, (v.reserve K h c).1.cells a = h.cells a) :=
  C13Proofs.swapping_vector_reserve_preserves K h v c frame hO

/-- shrinking destroys exactly the dropped tail -/
theorem swapping_vector_shrink (K : RowClass) (h : Heap) (v : SVec) (n : Nat) (frame : List Nat)
    (hO : Owns h (owned v.impl ++ frame)) (hn : n ≤ v.size) :
    (v.resize K h n).2.impl = v.impl.take n ∧ Owns (v.resize K h n).1 (owned (v.impl.take n) ++ frame) :=
  C13Proofs.swapping_vector_shrink K h v n frame hO hn

/-- `erase(first, last)`: the tail is swapped down, the erased rows are destroyed, order is kept -/
theorem swapping_vector_erase_range (h : Heap) (v : SVec) (first last : Nat) (frame : List Nat)
    (hO : Owns h (owned v.impl ++ frame)) (h1 : first ≤ last) (h2 : last ≤ v.size) :
    (v.eraseRange h first last).2.impl = v.impl.take first ++ v.impl.drop last
    ∧ Owns (v.eraseRange h first last).1 (owned (v.impl.take first ++ v.impl.drop last) ++ frame) :=
  C13Proofs.swapping_vector_erase_range h v first last frame hO h1 h2

/-- **`erase(iterator)`** (the code after the repair of KF-C13-17, commit 0369f1e: `++i;` inside the loop):
the order of the remaining elements is kept — the same row objects with the same storage —, exactly the
erased row is destroyed (its cell is freed, every other cell keeps its owner, nothing outside the vector
is touched), the capacity stays, the returned position is the erased one, and `size - (old_i + 1)`
iterations reach the loop exit (granting more changes nothing) -/
theorem swapping_vector_erase_one (h : Heap) (v : SVec) (i : Nat) (frame : List Nat)
    (hO : Owns h (owned v.impl ++ frame)) (hi : i < v.size) :
    let out := v.eraseOne h i
    out.2.1.impl = v.impl.take i ++ v.impl.drop (i + 1)
    ∧ out.2.1.cap = v.cap
    ∧ out.2.2 = i
    ∧ Owns out.1 (owned (v.impl.take i ++ v.impl.drop (i + 1)) ++ frame)
    ∧ FrameEq h out.1 (owned (v.impl.take i ++ v.impl.drop (i + 1)) ++ frame)
    ∧ (∀ r, v.impl[i]? = some r → out.1.cells r.impl = none)
    ∧ (∀ extra, eraseOneLoop (v.size - (i + 1) + extra) (i + 1) v.impl
                  = eraseOneLoop (v.size - (i + 1)) (i + 1) v.impl) :=
  C13Proofs.swapping_vector_erase_one h v i frame hO hi

example : (demoArg.rows.eraseOne demoHeap 0).2.1 = ⟨[⟨5, 1, false⟩, ⟨6, 1, false⟩], 3⟩
    ∧ (demoArg.rows.eraseOne demoHeap 0).1.cells 4 = none ∧ (demoArg.rows.eraseOne demoHeap 1).2.1.impl = [⟨4, 1, false⟩, ⟨6, 1, false⟩] := by
  decide

/-- historical witness (KF-C13-17, fixed): the loop BEFORE the repair
(`while (i != size()) swap(impl[i-1], impl[i]);` never incremented `i`) did not terminate unless the
element was the last one -/
theorem swapping_vector_erase_one_before_fix_diverges (fuel : Nat) (h : Heap) (v : SVec) (i : Nat) (hi : i + 1 < v.size) :
    v.eraseOneBeforeFix fuel h i = none := C13Proofs.swapping_vector_erase_one_before_fix_diverges fuel h v i hi

theorem swapping_vector_erase_one_before_fix_last (fuel : Nat) (h : Heap) (v : SVec) (i : Nat) (hi : i + 1 = v.size) :
    (v.eraseOneBeforeFix (fuel + 1) h i).map (fun o => o.2.impl) = some v.impl.dropLast :=
  C13Proofs.swapping_vector_erase_one_before_fix_last fuel h v i hi

example : ((⟨[⟨0, 1, false⟩, ⟨1, 0, false⟩, ⟨2, 0, false⟩], 3⟩ : SVec).eraseOneBeforeFix 40 Heap.empty 0).isNone = true := by decide

/-! ## recycling entry points

Concrete instance used by the examples (`PPLV/Value/MoveDemo.lean`): a heap of 7 cells, a polyhedron
`demoPoly` owning cells 0–3 (constraints up to date, not minimized), `demoPolyMin` (both descriptions
minimized: rows are added as pending rows), an unsorted argument system `demoArg` with one pending row
owning cells 4–6; `demo_owns : Owns demoHeap (demoPoly.owned ++ demoArg.owned ++ [])`. -/

example : Owns demoHeap (demoPoly.owned ++ demoArg.owned ++ []) := demo_owns
example : Owns demoHeap (demoCon.owned ++ demoArg.owned ++ demoGen.owned) := demo_owns_sys

/-- **recycled insertion = copying insertion** (`Linear_System`): `x.insert(y, Recycle_Input())` and `x.insert(y)` (which copies `y` first, `Linear_System_templates.hh:323`) give the receiver the same value — rows in order, space dimension, pending index, sortedness flag — for every state of the two systems (pending rows, unsorted, different dimensions) -/
theorem recycled_insert_eq_copy_insert (K : RowClass) (h : Heap) (x y : LinSys) (frame : List Nat)
    (hO : Owns h (x.owned ++ y.owned ++ frame)) :
    (x.insertSys K h y).2.1.value (x.insertSys K h y).1
      = (x.insertConst K h (.other y)).2.value (x.insertConst K h (.other y)).1 :=
  by apply C13Proofs.recycled_insert_eq_copy_insert <;> assumption
example : (demoCon.insertSys constraintClass demoHeap demoArg).2.1.value (demoCon.insertSys constraintClass demoHeap demoArg).1
    = ⟨[⟨[0, 1, 0], 0, false⟩, ⟨[1, 1, 1], 1, false⟩, ⟨[2, 0, 1], 1, false⟩, ⟨[5, -1, 0], 1, false⟩, ⟨[3, 1, 1], 1, false⟩], 2, false, 5, false⟩ := by
  decide

/-- the same for `insert_pending(y, Recycle_Input())` / `insert_pending(y)` -/
theorem recycled_insert_pending_eq_copy_insert (K : RowClass) (h : Heap) (x y : LinSys) (frame : List Nat)
    (hO : Owns h (x.owned ++ y.owned ++ frame)) :
    (x.insertPendingSys K h y).2.1.value (x.insertPendingSys K h y).1
      = (x.insertPendingConst K h (.other y)).2.value (x.insertPendingConst K h (.other y)).1 :=
  by apply C13Proofs.recycled_insert_pending_eq_copy_insert <;> assumption
/-- **`ph.add_recycled_constraints(cs)` = `ph.add_constraints(cs)`** as values of the receiver (and the same path is taken).  Not definitional: `add_constraints` recycles a copy made by the copy constructor, which turns pending rows into ordinary ones and drops `sorted` when there were any (`Linear_System_inlines.hh:121`), while the recycled call sees the original flags; the receivers still agree -/
theorem recycled_constraints_eq_copy (h : Heap) (x : Poly) (cs : LinSys) (frame : List Nat)
    (hO : Owns h (x.owned ++ cs.owned ++ frame)) :
    (x.addRecycledConstraints h cs).2.1.value (x.addRecycledConstraints h cs).1
      = (x.addConstraints h cs).2.1.value (x.addConstraints h cs).1
    ∧ (x.addRecycledConstraints h cs).2.2.2 = (x.addConstraints h cs).2.2 :=
  by apply C13Proofs.recycled_constraints_eq_copy <;> assumption
example : (demoPoly.addRecycledConstraints demoHeap demoArg).2.2.2 = .moved
    ∧ (demoPolyMin.addRecycledConstraints demoHeap demoArg).2.2.2 = .movedPending
    ∧ (demoPoly.addConstraints demoHeap demoArg).2.2 = .moved := by decide

/-- `ph.add_recycled_generators(gs)` = `ph.add_generators(gs)` (necessarily closed).  Extra hypothesis: the argument's `index_first_pending` does not exceed its number of rows (part of `Linear_System::OK()`), or the path is not the one that swaps the whole argument into an empty receiver.  Nothing is missing for well-formed arguments; without the hypothesis the statement is false (`recycled_generators_eq_copy_fails`) -/
theorem recycled_generators_eq_copy_partial (h : Heap) (x : Poly) (gs : LinSys) (frame : List Nat)
    (hO : Owns h (x.owned ++ gs.owned ++ frame))
    (hfp : gs.firstPending ≤ gs.numRows ∨ (x.addRecycledGenerators h gs).2.2.2 ≠ .wasEmptySwapped) :
    (x.addRecycledGenerators h gs).2.1.value (x.addRecycledGenerators h gs).1
      = (x.addGenerators h gs).2.1.value (x.addGenerators h gs).1
    ∧ (x.addRecycledGenerators h gs).2.2.2 = (x.addGenerators h gs).2.2 :=
  by apply C13Proofs.recycled_generators_eq_copy_partial <;> assumption
/-- the unrestricted statement fails on an ill-formed argument (`index_first_pending = 5` with one row):
the swapped-in system keeps the bogus index, the copy constructor normalises it -/
theorem recycled_generators_eq_copy_fails :
    ∃ (h : Heap) (x : Poly) (gs : LinSys) (frame : List Nat), Owns h (x.owned ++ gs.owned ++ frame) ∧
      ¬ ((x.addRecycledGenerators h gs).2.1.value (x.addRecycledGenerators h gs).1
          = (x.addGenerators h gs).2.1.value (x.addGenerators h gs).1
        ∧ (x.addRecycledGenerators h gs).2.2.2 = (x.addGenerators h gs).2.2) :=
  C13Proofs.recycled_generators_eq_copy_counterexample

example : (demoPoly.addRecycledGenerators demoHeap demoArg).2.2.2 = .notModelled          -- generators not up to date
    ∧ (({ demoPoly with status := C_UP + G_UP } : Poly).addRecycledGenerators demoHeap demoArg).2.2.2 = Exit.moved := by decide

/-- **the argument of `add_recycled_constraints` afterwards.**  The documentation promises only that it can be destroyed.  What the code leaves: either nothing was moved (dimension error, no rows, zero-dimensional or empty receiver) and the argument is the SAME object with the same storage, or every row was moved out and the argument is the EMPTY system of space dimension **0** (not the polyhedron's dimension: `Linear_System::clear()` resets `space_dimension_`), of the receiver's topology, flagged sorted, without pending rows, owning no storage — which satisfies `OK()`.  In both cases every cell has exactly one owner (receiver, argument or frame): nothing leaked, nothing shared -/
theorem recycled_argument_valid (h : Heap) (x : Poly) (cs : LinSys) (frame : List Nat)
    (hO : Owns h (x.owned ++ cs.owned ++ frame)) :
    let out := x.addRecycledConstraints h cs
    Owns out.1 (out.2.1.owned ++ out.2.2.1.owned ++ frame)
    ∧ FrameEq h out.1 frame
    ∧ ((out.2.2.2 = .moved ∨ out.2.2.2 = .movedPending) →
        out.2.2.1.value out.1 = ⟨[], 0, x.nnc, 0, true⟩ ∧ out.2.2.1.owned = []
        ∧ okV constraintClass (out.2.2.1.value out.1) = true)
    ∧ (out.2.2.2 ≠ .moved → out.2.2.2 ≠ .movedPending →
        out.2.2.1 = cs ∧ out.2.2.1.value out.1 = cs.value h) :=
  by apply C13Proofs.recycled_argument_valid <;> assumption
example : let out := demoPoly.addRecycledConstraints demoHeap demoArg
    out.2.2.1 = ⟨⟨[], 3⟩, 0, false, 0, true⟩ ∧ out.2.1.conSys.owned = [0, 1, 4, 5, 6] := by decide

/-- the same for `Linear_System::insert(y, Recycle_Input())`: `y` untouched when it has no rows, else cleared to the empty 0-dimensional system -/
theorem recycled_argument_valid_linsys (K : RowClass) (h : Heap) (x y : LinSys) (frame : List Nat)
    (hO : Owns h (x.owned ++ y.owned ++ frame)) :
    let out := x.insertSys K h y
    Owns out.1 (out.2.1.owned ++ out.2.2.owned ++ frame) ∧ FrameEq h out.1 frame
    ∧ (y.hasNoRows = true → out.2.2 = y)
    ∧ (y.hasNoRows = false → out.2.2.value out.1 = ⟨[], 0, y.nnc, 0, true⟩ ∧ out.2.2.owned = []
        ∧ okV K (out.2.2.value out.1) = true) :=
  by apply C13Proofs.recycled_argument_valid_linsys <;> assumption
/-- `gr.add_recycled_congruences(cgs)` = `gr.add_congruences(cgs)` on the receiver (`Congruence_System::insert(cgs, Recycle_Input())`, `Congruence_System.cc:147`) -/
theorem recycled_congruences_eq_copy (h : Heap) (x : GridC) (cgs : CgSys) (frame : List Nat)
    (hO : Owns h (x.conSys.owned ++ cgs.owned ++ frame)) :
    (x.addRecycledCongruences h cgs).2.1.value (x.addRecycledCongruences h cgs).1
      = (x.addCongruences h cgs).2.1.value (x.addCongruences h cgs).1
    ∧ (x.addRecycledCongruences h cgs).2.2.2 = (x.addCongruences h cgs).2.2 :=
  by apply C13Proofs.recycled_congruences_eq_copy <;> assumption
/-- the argument of `Grid::add_recycled_congruences` afterwards: untouched, or the EMPTY congruence system of space dimension 0 owning no storage -/
theorem recycled_congruences_argument_valid (h : Heap) (x : GridC) (cgs : CgSys) (frame : List Nat)
    (hO : Owns h (x.conSys.owned ++ cgs.owned ++ frame)) :
    let out := x.addRecycledCongruences h cgs
    Owns out.1 (out.2.1.conSys.owned ++ out.2.2.1.owned ++ frame) ∧ FrameEq h out.1 frame
    ∧ (out.2.2.2 = .moved → out.2.2.1.value out.1 = ⟨[], 0⟩ ∧ out.2.2.1.owned = [])
    ∧ (out.2.2.2 ≠ .moved → out.2.2.1 = cgs) :=
  by apply C13Proofs.recycled_congruences_argument_valid <;> assumption
example : let x : GridC := ⟨⟨⟨[⟨0, 2, false⟩], 1⟩, 2⟩, C_UP, 2⟩
    let cgs : CgSys := ⟨⟨[⟨4, 3, false⟩, ⟨5, 0, false⟩], 2⟩, 2⟩
    (x.addRecycledCongruences demoHeap cgs).2.2.2 = .moved
    ∧ (x.addRecycledCongruences demoHeap cgs).2.2.1 = ⟨⟨[], 2⟩, 0⟩
    ∧ (x.addRecycledCongruences demoHeap cgs).2.1.conSys.owned = [0, 4, 5] := by decide

/-- **a sparse system recycled into the dense systems of a polyhedron** (the default situation for user-built systems): every row goes through `set_representation` and gets NEW storage (`Linear_Expression.cc:168`); the converted argument has the same value, owns only fresh cells, and the old cells are deleted — recycling then reuses nothing, but stays value-correct -/
theorem converted_same_value (h : Heap) (y : LinSys) (frame : List Nat) (hO : Owns h (y.owned ++ frame)) :
    let out := y.converted h
    Owns out.1 (out.2.owned ++ frame) ∧ out.2.value out.1 = y.value h
    ∧ (∀ a ∈ out.2.owned, h.next ≤ a) ∧ FrameEq h out.1 frame :=
  by apply C13Proofs.converted_same_value <;> assumption
example : (demoArg.converted demoHeap).2.owned = [7, 8, 9] ∧ (demoArg.converted demoHeap).2.value (demoArg.converted demoHeap).1 = demoArg.value demoHeap := by
  decide

/-! ## swap -/

/-- **`Polyhedron::m_swap` exchanges the two values completely**: all six members (constraint system, generator system, both saturation matrices, status, space dimension), and with them the ownership of every row; no storage is touched -/
theorem swap_exchanges_values (h : Heap) (x y : Poly) (ht : x.nnc = y.nnc) :
    (Poly.mSwap x y).1 = y ∧ (Poly.mSwap x y).2 = x
    ∧ (Poly.mSwap x y).1.value h = y.value h ∧ (Poly.mSwap x y).2.value h = x.value h
    ∧ (Poly.mSwap x y).1.owned = y.owned ∧ (Poly.mSwap x y).2.owned = x.owned :=
  by apply C13Proofs.swap_exchanges_values <;> assumption
/-- **self-swap is the identity** (`x.m_swap(x)`: six swaps of a member with itself) -/
theorem self_swap_identity (x : Poly) : (Poly.mSwap x x).1 = x ∧ (Poly.mSwap x x).2 = x :=
  by apply C13Proofs.self_swap_identity <;> assumption
/-- `Linear_System::m_swap` exchanges every member -/
theorem linsys_swap_exchanges (x y : LinSys) : LinSys.mSwap x y = (y, x) :=
  by apply C13Proofs.linsys_swap_exchanges <;> assumption
example : (Poly.mSwap demoPoly demoPolyMin).1 = demoPolyMin ∧ (Poly.mSwap demoPoly demoPolyMin).2 = demoPoly := by decide

/-- `Pointset_Powerset::m_swap`: the sequences (handles) are exchanged, no `Determinate` is copied, no reference count changes (the machine state is not an argument of `PS.mSwap`) -/
theorem powerset_swap_exchanges {P : Type} (σ : Cow.State P) (x y : PS.Pset) :
    PS.mSwap x y = (y, x) ∧ PS.value σ (PS.mSwap x y).1 = PS.value σ y ∧ PS.value σ (PS.mSwap x y).2 = PS.value σ x :=
  by apply C13Proofs.powerset_swap_exchanges <;> assumption
/-- self-swap of a powerset -/
theorem powerset_self_swap_identity (x : PS.Pset) : PS.mSwap x x = (x, x) :=
  by apply C13Proofs.powerset_self_swap_identity <;> assumption
/-- **`Pointset_Powerset::add_disjunct(ph)` copies into a `Determinate` of its own**: the new list node sees `ph`, its representation has exactly one holder (the temporary is gone), no other handle of the machine changes its value, the sequence is the old one followed by the new disjunct, `reduced` is cleared, and the machine invariant (exact counters, no use after free) is kept -/
theorem add_disjunct_copies {P : Type} (σ : Cow.State P) (x : PS.Pset) (ph : P) (tmp node : Nat)
    (hI : Cow.Inv σ) (ht : tmp < σ.handles.length) (hn : node < σ.handles.length) (hne : tmp ≠ node)
    (htd : σ.prep tmp = none) (hnd : σ.prep node = none) (hx : node ∉ x.seq ∧ tmp ∉ x.seq) :
    let out := PS.addDisjunct σ x ph tmp node
    Cow.Inv out.1
    ∧ Cow.value out.1 node = some ph
    ∧ Cow.value out.1 tmp = none
    ∧ (∀ k, k ≠ node → k ≠ tmp → Cow.value out.1 k = Cow.value σ k)
    ∧ (∃ a, out.1.prep node = some a ∧ Cow.holders out.1 a = 1)
    ∧ PS.value out.1 out.2 = PS.value σ x ++ [some ph]
    ∧ out.2.reduced = false :=
  by apply C13Proofs.add_disjunct_copies <;> assumption
example : let σ := Cow.run (Cow.State.init Nat 4) [.construct 0 5, .copyCtor 1 0]
    let out := PS.addDisjunct σ ⟨[0], true, 1⟩ 7 2 3
    PS.value out.1 out.2 = [some 5, some 7] ∧ Cow.value out.1 1 = some 5 ∧ out.1.fault = false := by decide

/-! ## aliasing at the data level: `x.op(x)` computes what `x.op(copy of x)` computes -/

/-- `cs.insert(cs)` (the const overload copies its argument before it moves anything) -/
theorem alias_invariance_insert (K : RowClass) (h : Heap) (x : LinSys) (frame : List Nat)
    (hO : Owns h (x.owned ++ frame)) :
    let a := x.insertConst K h .self
    let c := LinSys.copyWithPending h x
    let b := x.insertConst K c.1 (.other c.2)
    a.2.value a.1 = b.2.value b.1 :=
  by apply C13Proofs.alias_invariance_insert <;> assumption
/-- `x.add_constraints(cs)` with `cs` a reference to the receiver's own constraint system (`x.add_constraints(x.constraints())`) = recycling an independent copy -/
theorem alias_invariance_add_own_constraints (h : Heap) (x : Poly) (frame : List Nat)
    (hO : Owns h (x.owned ++ frame)) :
    let a := x.addConstraints h x.conSys
    let c := LinSys.copy h x.conSys
    let b := x.addRecycledConstraints c.1 c.2
    a.2.1.value a.1 = b.2.1.value b.1 ∧ a.2.2 = b.2.2.2 :=
  by apply C13Proofs.alias_invariance_add_own_constraints <;> assumption
/-- `x.con_sys.merge_rows_assign(x.con_sys)`: the loop runs in lock step (`compare(x[i], x[i]) == 0`), steals every row and never reads a row it has already swapped out; the result is the receiver's own rows, and equals merging with a copy -/
theorem alias_invariance_merge (K : RowClass) (hK : ∀ v, K.cmp v v = 0) (h : Heap) (x : LinSys) (frame : List Nat)
    (hO : Owns h (x.owned ++ frame)) :
    let a := x.mergeRowsAssign K h .self
    let c := LinSys.copyWithPending h x
    let b := x.mergeRowsAssign K c.1 (.other c.2)
    a.2.value a.1 = b.2.value b.1 ∧ a.2.value a.1 = { x.value h with firstPending := x.numRows } :=
  by apply C13Proofs.alias_invariance_merge <;> assumption
/-- **`x.intersection_assign(x)` = `x.intersection_assign(copy of x)`**, every path (pending insertion, sorted merge, plain insertion, early exits) -/
theorem alias_invariance_intersection (h : Heap) (x : Poly) (frame : List Nat)
    (hO : Owns h (x.owned ++ frame)) :
    let a := x.intersectionAssign h .self
    let c := Poly.copy h x
    let b := x.intersectionAssign c.1 (.other c.2)
    a.2.1.value a.1 = b.2.1.value b.1 ∧ a.2.2 = b.2.2 :=
  by apply C13Proofs.alias_invariance_intersection <;> assumption
/-- **`x.poly_hull_assign(x)` = `x.poly_hull_assign(copy of x)`**, every path -/
theorem alias_invariance_hull (h : Heap) (x : Poly) (frame : List Nat)
    (hO : Owns h (x.owned ++ frame)) :
    let a := x.polyHullAssign h .self
    let c := Poly.copy h x
    let b := x.polyHullAssign c.1 (.other c.2)
    a.2.1.value a.1 = b.2.1.value b.1 ∧ a.2.2 = b.2.2 :=
  by apply C13Proofs.alias_invariance_hull <;> assumption
/-- **`x.concatenate_assign(x)` = `x.concatenate_assign(copy of x)`** on the constraint system: the code copies `y.constraints()` BEFORE it widens the receiver's system (`Polyhedron_chdims.cc:219` vs `:239`) -/
theorem alias_invariance_concatenate (h : Heap) (x : Poly) (frame : List Nat)
    (hO : Owns h (x.owned ++ frame)) :
    let a := x.concatenateAssignCons h .self
    let c := Poly.copy h x
    let b := x.concatenateAssignCons c.1 (.other c.2)
    a.2.1.value a.1 = b.2.1.value b.1 ∧ a.2.2 = b.2.2 :=
  by apply C13Proofs.alias_invariance_concatenate <;> assumption
example : (demoCon.insertConst constraintClass demoHeap .self).2.value (demoCon.insertConst constraintClass demoHeap .self).1
    = ⟨[⟨[0, 1, 0], 0, false⟩, ⟨[1, 1, 1], 1, false⟩, ⟨[0, 1, 0], 0, false⟩, ⟨[1, 1, 1], 1, false⟩], 2, false, 4, false⟩ := by decide
example : (demoPoly.intersectionAssign demoHeap .self).2.2 = .moved
    ∧ (demoPolyMin.intersectionAssign demoHeap .self).2.2 = .movedPending
    ∧ (demoPoly.concatenateAssignCons demoHeap .self).2.1.spaceDim = 4 := by decide
example : ∀ v, constraintClass.cmp v v = 0 := constraintClass_cmp_self

/-! ## independence after assignment, for every operation sequence of the pool machine -/

/-- **ownership invariant over operation sequences**: from a pool in which every cell is owned by exactly one row of exactly one member, every sequence of assignments (also `x = x`), swaps, intersections / hulls (also `x.op(x)`), `add_constraints` with a reference into another member, in-place writes and scalar updates leads to such a pool again: no cell is ever owned twice, none leaks, no micro-step touches a freed cell -/
theorem world_inv_run (w : World) (ops : List WOp) (hI : w.Inv) : (w.run ops).Inv :=
  by apply C13Proofs.world_inv_run <;> assumption
/-- frame rule of the pool machine: an operation changes no member outside its destinations -/
theorem world_frame (w : World) (op : WOp) (hI : w.Inv) (k : Nat) (hk : k ∉ op.dst) :
    (w.step op).value k = w.value k :=
  by apply C13Proofs.world_frame <;> assumption
/-- **after `x_i = x_j` the two are independent**: no later operation that does not have `x_j` as a destination — in-place writes to any row of `x_i`, insertions, intersections, hulls, swaps with third members, whatever the earlier history — changes the value of `x_j`; and the assignment itself did not change `x_j` (the symmetric statement is the same theorem with the roles exchanged: `x_i` is not a destination of operations on `x_j`) -/
theorem assign_then_independent (w : World) (pre post : List WOp) (i j : Nat) (hI : w.Inv) (hij : i ≠ j)
    (hpost : ∀ op ∈ post, j ∉ op.dst) :
    (w.run (pre ++ [.assign i j] ++ post)).value j = (w.run (pre ++ [.assign i j])).value j
    ∧ (w.run (pre ++ [.assign i j])).value j = (w.run pre).value j :=
  by apply C13Proofs.assign_then_independent <;> assumption
/-- `x_i = x_j` gives `x_i` the value of `x_j` (all parts up to date; a part that is not up to date is deliberately not copied) -/
theorem assign_value (w : World) (i j : Nat) (hI : w.Inv) (x y : Poly)
    (hx : w.objs[i]? = some x) (hy : w.objs[j]? = some y) (hne : y.markedEmpty = false) (hd : y.spaceDim ≠ 0)
    (hc : testAny y.status C_UP = true) (hg : testAny y.status G_UP = true)
    (hsc : testAny y.status SAT_C_UP = true) (hsg : testAny y.status SAT_G_UP = true) :
    (w.step (.assign i j)).value i = w.value j :=
  by apply C13Proofs.assign_value <;> assumption
example : (⟨demoHeap, [demoPoly, ⟨LinSys.mk0 false, LinSys.mk0 false, BitMatrix.empty, BitMatrix.empty, 0, 0⟩]⟩ : World).owned = [0, 1, 2, 3] := by
  decide

end C13
