import PPLV.Value.MoveProofsVecThms

/-!
# C13 stage 2 — the MOVING mechanics of the library as a heap-with-ownership machine

Models: `PPLV/Value/Move.lean` (`Swapping_Vector`, `Linear_System`), `MovePoly.lean` (systems,
`Polyhedron`, `Grid`, `Pointset_Powerset`), `MoveRepr.lean` (representation change, generic `std::swap`),
`MoveSpec.lean` (ownership invariant `Owns`, value-level specifications, the pool machine `World`).
Every storage cell (`Linear_Expression::impl`) has exactly one owner; a swap transfers ownership;
`Owns h (owned … ++ frame)` says: no cell is owned twice, none is leaked, no micro-step touched a freed
cell; `FrameEq h h' frame`: the cells of `frame` (everything the call does not own) are untouched.
Tie: `harness/c13_move.cc` → `pplv_c13 --move` (`Driver/C13Move.lean`), `checks/c13_move.py`.
-/
namespace C13
open PPLV.Value PPLV.Value.Move

/-! ## `Swapping_Vector<T>` -/

/-- **reallocation by swapping keeps the contents**: after `resize(n)` (`n ≥ size`, with or without
reallocation) the first `size` elements are the SAME row objects with the same storage in the same
order — none duplicated, none dropped —, the new tail consists of default rows, every cell has exactly
one owner and nothing outside the vector was touched -/
theorem swapping_vector_resize_preserves (K : RowClass) (h : Heap) (v : SVec) (n : Nat) (frame : List Nat)
    (hO : Owns h (owned v.impl ++ frame)) (hn : v.size ≤ n) :
    let out := v.resize K h n
    out.2.impl.take v.size = v.impl ∧ out.2.size = n
    ∧ (∀ r ∈ out.2.impl.drop v.size, r.val out.1 = dfltV K)
    ∧ Owns out.1 (owned out.2.impl ++ frame)
    ∧ (∀ a ∈ owned v.impl ++ frame, out.1.cells a = h.cells a) :=
  C13Proofs.swapping_vector_resize_preserves K h v n frame hO hn

example : ((⟨[⟨0, 1, false⟩, ⟨1, 0, false⟩], 2⟩ : SVec).resize constraintClass
    ⟨fun a => if a = 0 then some [1, 2] else if a = 1 then some [3, 4] else none, 2, false⟩ 5).2
    = ⟨[⟨0, 1, false⟩, ⟨1, 0, false⟩, ⟨4, 1, false⟩, ⟨5, 1, false⟩, ⟨6, 1, false⟩], 12⟩ := by decide

/-- `reserve` alone: the element list is unchanged (as a list of row objects), ownership is kept -/
theorem swapping_vector_reserve_preserves (K : RowClass) (h : Heap) (v : SVec) (c : Nat) (frame : List Nat)
    (hO : Owns h (owned v.impl ++ frame)) :
    (v.reserve K h c).2.impl = v.impl ∧ Owns (v.reserve K h c).1 (owned v.impl ++ frame)
    ∧ (∀ a ∈ owned v.impl ++ frame, (v.reserve K h c).1.cells a = h.cells a) :=
  C13Proofs.swapping_vector_reserve_preserves K h v c frame hO

/-- shrinking destroys exactly the dropped tail -/
theorem swapping_vector_shrink (K : RowClass) (h : Heap) (v : SVec) (n : Nat) (frame : List Nat)
    (hO : Owns h (owned v.impl ++ frame)) (hn : n ≤ v.size) :
    (v.resize K h n).2.impl = v.impl.take n ∧ Owns (v.resize K h n).1 (owned (v.impl.take n) ++ frame) :=
  C13Proofs.swapping_vector_shrink K h v n frame hO hn

/-- `erase(first, last)`: the tail is swapped down, the erased rows are destroyed, order is kept -/
theorem swapping_vector_erase_range (h : Heap) (v : SVec) (first last : Nat) (frame : List Nat)
    (hO : Owns h (owned v.impl ++ frame)) (h1 : first ≤ last) (h2 : last ≤ v.size) :
    (v.eraseRange h first last).2.impl = v.impl.take first ++ v.impl.drop last
    ∧ Owns (v.eraseRange h first last).1 (owned (v.impl.take first ++ v.impl.drop last) ++ frame) :=
  C13Proofs.swapping_vector_erase_range h v first last frame hO h1 h2

/-- `erase(iterator)` AS WRITTEN (`Swapping_Vector_inlines.hh:193`: `while (i != size()) swap(impl[i-1], impl[i]);`
never increments `i`) does not terminate unless the element is the last one — KF-C13-17 (dead code in
the library) -/
theorem swapping_vector_erase_one_diverges (fuel : Nat) (h : Heap) (v : SVec) (i : Nat) (hi : i + 1 < v.size) :
    v.eraseOne fuel h i = none := C13Proofs.swapping_vector_erase_one_diverges fuel h v i hi

theorem swapping_vector_erase_one_last (fuel : Nat) (h : Heap) (v : SVec) (i : Nat) (hi : i + 1 = v.size) :
    (v.eraseOne (fuel + 1) h i).map (fun o => o.2.impl) = some v.impl.dropLast :=
  C13Proofs.swapping_vector_erase_one_last fuel h v i hi

example : ((⟨[⟨0, 1, false⟩, ⟨1, 0, false⟩, ⟨2, 0, false⟩], 3⟩ : SVec).eraseOne 40 Heap.empty 0).isNone = true := by decide

end C13
