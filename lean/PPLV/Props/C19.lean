import PPLV.Watchdog.ProofsJudge
import PPLV.Watchdog.ProofsAtomic
import PPLV.Watchdog.ProofsLag4
import PPLV.Watchdog.ProofsWeight

/-!
# C19 — watchdog / weight timeouts fire once, in order, never early, never after death

All statements are about the transition system of `PPLV/Watchdog/Model.lean`
(`run eqBug sched`: `eqBug = true` is `Time::operator==` as written in `Time_inlines.hh`,
`eqBug = false` the repaired comparison), for ALL schedules `sched : List Step`: any number of
watchdogs, created and destroyed in any order with any delays, time passing — and the timer
expiring — between any two statement groups, inside or outside the critical sections.

Log events carry ghost data: `born id b cs` (constructor entered at real time `b`, delay `cs`
centiseconds), `fired id t b cs` (handler action ran at real time `t`), `destroyed id t`
(destructor returned).  The log is newest-first.

* `at_most_once`, `not_after_destroy`, `fired_was_born` hold for every schedule and both variants.
* `negative_delay_rejected`: a constructor called with `csecs <= 0` changes nothing.
* `never_early` and `no_internal_error` hold for EVERY schedule of the statement-level system
  (`eqBug = false`, the code as it is): time may pass — and the timer expire — between any two
  statement groups, inside or outside the critical sections; an expiry inside a critical section
  only sets `timeout_deferred` and is handled by `leave_critical_section`.
* `exact_partial` / `prompt_partial` / `deadline_order_partial` are proved under `Quiet`: no time
  passes inside a critical section (signals are delivered between public operations and at the
  critical-section boundaries, including between the destructor's test of `expired` and its
  critical section); the `_atomic` versions need no hypothesis at all.  They CANNOT hold for all
  schedules: the bookkeeping reconstructs elapsed time from `getitimer`, so time that passes
  between `get_timer` and the re-arming `setitimer`, or after an expiry that had to be deferred,
  is lost by design — every pending watchdog is late by that amount (see the example after
  `never_early`: late by 16 µs) and two deadlines closer than it may be served in the other order.
  What is missing is the quantitative version ("late by at most the time spent inside critical
  sections"); the harness judges exactly that bound on the real traces.
* The `_fails` theorems about `eqBug = true` document what the check reports should the typo of
  `Time::operator==` (repaired by 26a6e2f) come back; the `_before_fix_fails` theorems
  (`runBeforeFix`: the handler calling `reschedule()` inside a critical section, repaired by
  9ac8059, KF-C19-2) are the concrete schedules on which the old code fired early / late.
-/
namespace C19
open PPLV.Watchdog

/-- no time has passed inside a critical section -/
@[reducible] def Quiet (σ : St) : Prop := σ.dirty = false

/-! ## Clauses that hold for all schedules, both variants of `operator==`, any arguments -/

/-- a watchdog's action runs at most once -/
theorem at_most_once (eqBug : Bool) (sched : List Step) (id : Nat) :
    firedCount (run eqBug sched).log id ≤ 1 :=
  firedCount_le_one (safe_run eqBug sched).once id

example : firedCount (run true (atomicSched [.create 0 10, .create 1 50, .tick 100000])).log 1 = 1 := by decide

/-- never after its destruction has returned: in the (newest-first) log no `destroyed id` lies
before a `fired id` -/
theorem not_after_destroy (eqBug : Bool) (sched : List Step) (pre post : List Event) (id : Nat) (t b cs : Int)
    (h : (run eqBug sched).log = pre ++ Event.fired id t b cs :: post) :
    ∀ t', Event.destroyed id t' ∉ post := by
  intro t' hmem
  have := (safe_run eqBug sched).nad
  rw [h] at this
  exact nad_split pre post id t b cs this ⟨t', hmem⟩

example : ∃ t, Event.destroyed 0 t ∈ (run false (atomicSched [.create 0 10, .tick 100000, .destroy 0])).log ∧
    ∃ t' b cs, Event.fired 0 t' b cs ∈ (run false (atomicSched [.create 0 10, .tick 100000, .destroy 0])).log :=
  ⟨100000, by decide, 100000, 0, 10, by decide⟩

/-- every firing belongs to exactly one creation, whose birth time and delay it carries -/
theorem fired_was_born (eqBug : Bool) (sched : List Step) (id : Nat) (t b cs : Int)
    (h : Event.fired id t b cs ∈ (run eqBug sched).log) :
    Event.born id b cs ∈ (run eqBug sched).log ∧
    ∀ b' cs', Event.born id b' cs' ∈ (run eqBug sched).log → b' = b ∧ cs' = cs := by
  have hs := safe_run eqBug sched
  have hb := (hs.firedExp id t b cs h).2
  exact ⟨hb, fun b' cs' h' => hs.bornUniq id b' cs' b cs h' hb⟩

/-! ## never early -/

/-- defect 1 (`Time::operator==` ignores the microseconds): watchdog 1, due at 0.50 s, fires at
    0.10 s together with watchdog 0 — atomic operations, no signal inside a critical section -/
theorem never_early_fails : ¬ ∀ sched, NeverEarly (run true sched).log := by
  intro h
  have := neverEarlyB_of (h (atomicSched [.create 0 10, .create 1 50, .tick 100000]))
  revert this; decide

/-- … and after removing the first pending event the timer is not re-armed (the schedule of
    `design-notes/probes/p5.cc`) -/
theorem never_early_fails_removal : ¬ ∀ sched, NeverEarly (run true sched).log := by
  intro h
  have := neverEarlyB_of (h (atomicSched [.create 0 10, .create 1 50, .tick 50000, .destroy 0, .tick 100000]))
  revert this; decide

/-- the timer expires between `get_timer` and the read of `last_time_requested` inside
    `~Watchdog()` -/
def deferredEarly : List Step :=
  atomicSched [.create 0 100, .tick 4000, .create 1 200, .tick 3000, .create 2 99, .tick 2000,
               .create 3 200, .tick 988000, .tick 1000] ++
  [.destroy 0, .step, .step, .tick 2000, .step, .step, .step, .step, .step, .step, .tick 1006000, .tick 10000]

/-- KF-C19-2, before commit 9ac8059: the handler, inside the critical section, called
    `reschedule()`, which overwrote `last_time_requested`; the reconstructed clock ran ahead and
    watchdog 3, due at 2.009000 s, fired at 2.006000 s -/
theorem never_early_before_fix_fails : ¬ ∀ sched, NeverEarly (runBeforeFix false sched).log := by
  intro h
  have := neverEarlyB_of (h deferredEarly)
  revert this; decide

/-- never before `delay` has elapsed since the constructor was entered: EVERY schedule of the
    statement-level system — time passing, and the timer expiring, between any two statement
    groups, inside or outside the critical sections -/
theorem never_early (sched : List Step) : NeverEarly (run false sched).log :=
  (ninv_run sched).base.fired

/-- non-vacuity: on the schedule of `never_early_before_fix_fails` a signal is deferred and the
    watchdogs fire, none early (watchdog 3, due at 2.009 s, at 2.011 s) -/
example : Event.deferred 1000000 ∈ (run false deferredEarly).log ∧
    Event.fired 3 2011000 9000 200 ∈ (run false deferredEarly).log ∧
    Event.fired 1 2006000 4000 200 ∈ (run false deferredEarly).log := by decide +kernel

/-- non-vacuity: time passes inside the constructor's critical section (between `get_timer` and the
    re-arming `setitimer`), no signal is deferred, the watchdogs fire — late by the time that passed
    there, never early -/
example :
    let s : List Step := atomicSched [.create 0 50] ++ [.create 1 10, .step, .tick 7, .step, .tick 9, .step, .step,
                                       .tick 100000, .tick 400000]
    (run false s).dirty = true ∧
    (run false s).log.all (fun e => match e with | .deferred _ => false | _ => true) = true ∧
    Event.fired 1 100016 0 10 ∈ (run false s).log ∧ Event.fired 0 500016 0 50 ∈ (run false s).log := by
  decide

/-- `set_timer` is never called with a null interval ("PPL internal error") and no timer call
    fails, on any schedule -/
theorem no_internal_error (sched : List Step) : (run false sched).err = false :=
  (ninv_run sched).base.noErr

/-- in quiet runs the action runs EXACTLY at birth + delay (never early and prompt at once) -/
theorem exact_partial (sched : List Step) (hq : Quiet (run false sched)) (id : Nat) (t b cs : Int)
    (hf : Event.fired id t b cs ∈ (run false sched).log) : t = b + cs * 10000 := by
  obtain ⟨l, ⟨es, hl⟩, hex, _⟩ := quiet_log_facts (inv_run sched) hq
  exact hex id t b cs (by rw [hl]; exact List.mem_append_right _ hf)

example : Quiet (run false (atomicSched [.create 0 10, .create 1 50, .tick 50000, .destroy 0, .tick 450000])) ∧
    Event.fired 1 500000 0 50 ∈
      (run false (atomicSched [.create 0 10, .create 1 50, .tick 50000, .destroy 0, .tick 450000])).log :=
  ⟨by decide, by decide⟩

/-! ## prompt -/

/-- the timer expires at the entry of a constructor's critical section -/
def deferredLate : List Step :=
  atomicSched [.create 0 100, .tick 500000, .create 1 100] ++
  [.create 2 300, .tick 500000, .step, .step, .step, .step, .step, .step, .step, .tick 10000, .tick 600000]

/-- KF-C19-2, before commit 9ac8059: the deferred signal lost a whole timer interval: watchdog 1,
    due at 1.5 s and alive, had not fired at 1.61 s (it fired at 2.5 s) -/
theorem prompt_before_fix_fails :
    ¬ ∀ sched, (runBeforeFix false sched).inCrit = false → Prompt (runBeforeFix false sched) := by
  intro h
  have := promptB_of (h deferredLate (by decide))
  revert this; decide

/-- on the same schedule the code as it is serves both watchdogs exactly on time (the deferred
    timeout is handled on leaving the critical section, in which no further time passes) -/
example : Event.deferred 1000000 ∈ (run false deferredLate).log ∧
    Event.fired 0 1000000 0 100 ∈ (run false deferredLate).log ∧
    Event.fired 1 1500000 500000 100 ∈ (run false deferredLate).log := by decide +kernel

/-- the constructors reject a non-positive delay (`invalid_argument`) before anything is changed:
    the bookkeeping state is untouched, only the ghost log records the rejection (defect 17 of the
    design notes, repaired: formerly the test was `csecs == 0` and a negative delay reached
    `setitimer`) -/
theorem negative_delay_rejected (σ : St) (id : Nat) (cs : Int) (hcs : cs ≤ 0) :
    create σ id cs = σ ∨
    create σ id cs = { σ with used := id :: σ.used, log := Event.rejected id cs :: σ.log } := by
  unfold create
  split
  · exact Or.inl rfl
  · simp [hcs]

example : (run false (atomicSched [.create 0 71, .tick 1969, .create 1 (-111), .create 2 165, .tick 708031])).log
    = [.hset 941969, .fired 0 710000 0 71, .constructed 2 1969, .getitimer 708031, .born 2 1969 165,
       .rejected 1 (-111), .constructed 0 0, .setitimer 710000, .born 0 0 71] := by decide

/-- promptly after the deadline: outside critical sections of a quiet run of the repaired code,
    every watchdog whose deadline has been reached has fired — exactly at its deadline — unless its
    destructor has returned -/
theorem prompt_partial (sched : List Step) (hq : Quiet (run false sched))
    (hout : (run false sched).inCrit = false) : Prompt (run false sched) := by
  intro id b cs hb hd
  exact (clock_of_quiet (inv_run sched) hq hout).prompt id b cs hb hd

example : Quiet (run false (atomicSched [.create 0 10, .create 1 50, .tick 100000])) ∧
    (run false (atomicSched [.create 0 10, .create 1 50, .tick 100000])).inCrit = false ∧
    Event.born 0 0 10 ∈ (run false (atomicSched [.create 0 10, .create 1 50, .tick 100000])).log ∧
    (0 : Int) + 10 * 10000 ≤ (run false (atomicSched [.create 0 10, .create 1 50, .tick 100000])).now :=
  ⟨by decide, by decide, by decide, by decide⟩

/-! ## deadline order -/

/-- expirations are delivered in deadline order: a firing's real deadline is not smaller than that
    of any earlier firing — repaired `==`, quiet runs -/
theorem deadline_order_partial (sched : List Step) (hq : Quiet (run false sched))
    (pre post : List Event) (id : Nat) (t b cs : Int)
    (h : (run false sched).log = pre ++ Event.fired id t b cs :: post) :
    ∀ id' t' b' cs', Event.fired id' t' b' cs' ∈ post → b' + cs' * 10000 ≤ b + cs * 10000 := by
  obtain ⟨l, ⟨es, hl⟩, _, hord⟩ := quiet_log_facts (inv_run sched) hq
  rw [hl] at hord
  have := ordered_suffix es _ hord
  rw [h] at this
  exact ordered_split pre post id t b cs this

/-- defect 1 breaks the order as well: watchdog 1 (due 0.56 s) fires at 0.10 s, before
    watchdog 2 (due 0.20 s) -/
theorem deadline_order_fails : ¬ ∀ sched, orderB (run true sched).log = true := by
  intro h
  have := h (atomicSched [.create 0 10, .create 1 56, .tick 100000, .create 2 10, .tick 100000])
  revert this; decide

example : orderB (run false (atomicSched [.create 0 10, .create 1 56, .tick 100000, .create 2 10, .tick 100000,
    .tick 400000])).log = true ∧
    (firedList (run false (atomicSched [.create 0 10, .create 1 56, .tick 100000, .create 2 10, .tick 100000,
    .tick 400000])).log).length = 3 := by decide

/-! ## the granularity of public operations

`atomicSched ops`: every constructor / destructor of `ops` runs to completion before time passes
again; time passes (and the handler runs) between the operations.  No hypothesis on the run is
needed: such a run is quiet. -/

theorem atomic_is_quiet (ops : List Step) :
    Quiet (run false (atomicSched ops)) ∧ (run false (atomicSched ops)).inCrit = false := by
  have := rest_atomic ops {} rest_init
  exact ⟨this.clean, this.clock.notCrit⟩

/-- never early, at the granularity of public operations -/
theorem never_early_atomic (ops : List Step) : NeverEarly (run false (atomicSched ops)).log := by
  intro id t b cs hf
  have := exact_partial _ (atomic_is_quiet ops).1 id t b cs hf
  omega

/-- exactly at the deadline, hence promptly: every watchdog whose deadline has been reached has
    fired at its deadline, unless destroyed -/
theorem prompt_atomic (ops : List Step) : Prompt (run false (atomicSched ops)) :=
  prompt_partial _ (atomic_is_quiet ops).1 (atomic_is_quiet ops).2

theorem deadline_order_atomic (ops : List Step)
    (pre post : List Event) (id : Nat) (t b cs : Int)
    (h : (run false (atomicSched ops)).log = pre ++ Event.fired id t b cs :: post) :
    ∀ id' t' b' cs', Event.fired id' t' b' cs' ∈ post → b' + cs' * 10000 ≤ b + cs * 10000 :=
  deadline_order_partial _ (atomic_is_quiet ops).1 pre post id t b cs h

example : Event.fired 1 500000 0 50 ∈
    (run false (atomicSched [.create 0 10, .create 1 50, .tick 50000, .destroy 0, .tick 450000])).log := by
  decide

/-! ## the weight watcher -/

/-- With all live thresholds and the weight inside a window narrower than 2^63 at every comparison
    (`lapped = false`: the side condition under which `Weightwatch_Traits::less_than` is the true
    comparison): a watcher fires at a check only if the accumulated weight has REACHED its threshold
    there (`g ≤ c`) and had not at the previous check (`p < g`), i.e. at the first check after the
    threshold is reached; and after a check no pending watcher's threshold has been reached by the
    weight at that check. -/
theorem fires_iff_reached_partial (w0 : Nat) (ops : List WOp) (h : (wRun w0 ops).lapped = false) :
    (∀ id g p c, WEvent.fired id g p c ∈ (wRun w0 ops).log → p < g ∧ g ≤ c) ∧
    (∀ e ∈ (wRun w0 ops).pending, (wRun w0 ops).gLast < e.gThr) := by
  rcases winv_run w0 ops with hl | hi
  · rw [h] at hl; exact absurd hl (by simp)
  · exact ⟨hi.fired, fun e he => (hi.thr e he).2⟩

/-- across the wrap-around of the 64-bit counter -/
example : (wRun 18446744073709551610 [.create 0 10, .add 11, .check]).lapped = false ∧
    WEvent.fired 0 18446744073709551620 18446744073709551610 18446744073709551621 ∈
      (wRun 18446744073709551610 [.create 0 10, .add 11, .check]).log := by decide

/-- at weight == threshold exactly the watcher triggers; a zero delta is "already reached" -/
example : WEvent.fired 0 5 0 5 ∈ (wRun 0 [.create 0 5, .add 5, .check]).log ∧
    WEvent.rejected 1 ∈ (wRun 0 [.create 1 0]).log := by decide

/-- without the window condition the clause is false: a jump of more than 2^63 past the threshold
    is not seen -/
theorem fires_iff_reached_fails_outside_window :
    ¬ ∀ w0 ops, ∀ e ∈ (wRun w0 ops).pending, (wRun w0 ops).gLast < e.gThr := by
  intro h
  have := h 0 [.create 0 1, .add (H63 + 5), .check] ⟨1, 0, 1⟩ (by decide)
  revert this; decide

end C19
