import PPLV.WR.BoxTransProofsBase
/-!
# C03 stage 4 — Box<ITV> transformers (preliminary: the proof families are being assembled)
-/
namespace C03
open PPLV.Interval PPLV.WR.BoxT

theorem box_cfg_mpq_sound : Cfg.mpq.Sound := Cfg.mpq_sound
theorem box_cfg_mpz_sound : Cfg.mpz.Sound := Cfg.mpz_sound
theorem box_cfg_int8_sound : Cfg.int8.Sound := Cfg.int8_sound
theorem box_cfg_dbl_sound : Cfg.dbl.Sound := Cfg.dbl_sound

end C03
