import PPLV.WR.BoxTransProofsPropagate
import PPLV.WR.BoxTransProofsImage3
import PPLV.WR.BoxTransProofsImage2
import PPLV.WR.BoxTransProofsLhs
import PPLV.WR.BoxTransProofsLattice
import PPLV.WR.BoxTransProofsExactRefine
import PPLV.WR.BoxTransProofsFails2
import PPLV.WR.BoxTransProofsExactImage
import PPLV.WR.BoxTransProofsBapre
/-!
# C03 stage 4 — the transformers of `Box<ITV>` are sound for every interval policy and every rounding

Statements about the code-shaped model `PPLV/WR/BoxTrans.lean`, `BoxTrans2.lean` of
`/repo/src/Box_templates.hh`, `Box_inlines.hh` (a box = the list of intervals of the C12 model
`PPLV/Interval/Model.lean` + the status bits `EMPTY`, `EMPTY_UP_TO_DATE`), for **every**
instantiation `cfg : Cfg` whose two directed roundings (boundary type, temporaries of
`propagate_constraint_no_check`) satisfy the C12 hypothesis `Rounding.Sound`
(`down q ≤ q ≤ up q`, overflow to the infinity of the direction): `Cfg.mpq` (`Rational_Box`),
`Cfg.mpz` (`Z_Box`), `Cfg.int8` (`Int8_Box`, `long long` temporaries), `Cfg.dbl` (`Double_Box`).

`Box.mem p b x` : the point `x` is in γ(b) — `b` is not marked empty and every coordinate lies in
its interval.  Every soundness theorem has the form "the exact result point is in γ(result)";
since membership requires *not marked empty*, each of them also says that the result is marked
empty only if the exact result is empty.

One clause is FALSE of the code as it is (genuine defect found by this stage, confirmed on the real
library, open findings KF-C03-65…72), a second one was until /repo dee742e (KF-C03-64, fixed):

* `propagate_constraint_no_check` rounds the *coefficients* into the temporary type in the
  direction meant for the bound: with a coefficient that the temporaries cannot represent
  (`double`: beyond 53 bits) the refined bound cuts points — `box_refine_sound_fails` on
  `Double_Box`; the theorems carry the exact side condition `CoeffsExact` (every coefficient of
  the constraint is a value of the temporary type; always true for `mpq_class`/`mpz_class`), and
  the transformers that refine internally (`bounded_affine_image`, the non-invertible
  `generalized_affine_preimage`, the `(lhs, relsym, rhs)` forms) take `RefineSound cfg`
  (`box_refine_sound_of_int_exact`), with a `_fails` witness each;
* before dee742e `propagate_constraint` on the tautology `0 == 0` marked the box empty
  (`box_propagate_trivial_eq_before_fix_fails`, about `propagateConstraintNoCheckBeforeFix`); the model
  follows the repaired test and the propagate theorems no longer exclude the tautology.
-/
set_option linter.unusedVariables false
namespace C03
open PPLV.Interval PPLV.WR.BoxT
open PPLV.Interval.ExtRat (ninf fin pinf)

/-! ## the four instantiations satisfy the hypotheses -/

theorem box_cfg_sound : Cfg.mpq.Sound ∧ Cfg.mpz.Sound ∧ Cfg.int8.Sound ∧ Cfg.dbl.Sound :=
  ⟨Cfg.mpq_sound, Cfg.mpz_sound, Cfg.int8_sound, Cfg.dbl_sound⟩

/-- exact temporaries (`mpq_class`, `mpz_class`) hold every integer -/
theorem box_int_exact : IntExact Cfg.mpq.TR ∧ IntExact Cfg.mpz.TR := ⟨intExact_id, intExact_int⟩

/-! ## `add_constraint`, `refine_with_constraint(s)`, `propagate_constraint(s)` -/

/-- `add_constraint_no_check` (interval constraints only; `none` = the exception): full strength -/
theorem box_add_constraint_sound (cfg : Cfg) (hS : cfg.Sound) (b b' : Box) (c : Con) (x : Nat → Rat)
    (hwf : c.e.WF b.dim) (h : addConstraintNoCheck cfg b c = some b') (hx : b.mem cfg.p x) (hc : c.holds x) :
    b'.mem cfg.p x := addConstraintNoCheck_sound hS hwf h hx hc

example : (addConstraintNoCheck Cfg.mpq (Box.univ Policy.rational 1) ⟨⟨[2], -3⟩, .gt⟩).isSome = true := by decide +kernel

/-- `refine_with_constraint`: every point of γ(box) satisfying `c` is in γ(result) (so the result is
marked empty only if no such point exists).  `_partial`: for a constraint that is *propagated* (two
or more variables) the coefficients must be values of the temporary type — exactly the class where
`box_refine_sound_fails` shows the clause false; interval and trivial constraints: no condition. -/
theorem box_refine_sound_partial (cfg : Cfg) (hS : cfg.Sound) (b : Box) (c : Con) (x : Nat → Rat)
    (hwf : c.e.WF b.dim) (hex : extractIntervalConstraint c = none → CoeffsExact cfg.TR c.e)
    (hx : b.mem cfg.p x) (hc : c.holds x) : (refineWithConstraint cfg b c).mem cfg.p x :=
  refineWithConstraint_sound hS hwf hex hx hc

/-- the real `Double_Box`: `A ∈ [0,+∞)`, `B ∈ [1,1]` refined with `A − (2^53+1)·B ≥ 0` becomes
`A ∈ (2^53+2, +∞)`; the point `(2^53+1, 1)` satisfies the constraint and is lost (KF-C03-65) -/
theorem box_refine_sound_fails :
    ¬ (∀ (b : Box) (c : Con) (x : Nat → Rat), c.e.WF b.dim → b.mem Cfg.dbl.p x → c.holds x →
      (refineWithConstraint Cfg.dbl b c).mem Cfg.dbl.p x) := refineWithConstraint_sound_fails

/-- the witness is outside the side condition, and the model computes what the library computes -/
example : ¬ CoeffsExact Cfg.dbl.TR failCon.e := failCon_not_coeffsExact
example : refineWithConstraint Cfg.dbl failBox failCon = failRes := fail_compute

/-- for exact temporaries the clause holds at full strength (`Rational_Box`, `Z_Box`) -/
theorem box_refine_sound_of_int_exact (cfg : Cfg) (hS : cfg.Sound) (h : IntExact cfg.TR) : RefineSound cfg :=
  refineSound_of_intExact hS h

example : RefineSound Cfg.mpq ∧ RefineSound Cfg.mpz := ⟨refineSound_mpq, refineSound_mpz⟩

/-- `refine_with_constraints` (stops at the first constraint that marks the box empty) -/
theorem box_refine_constraints_sound_partial (cfg : Cfg) (hS : cfg.Sound) (b : Box) (cs : List Con) (x : Nat → Rat)
    (hwf : ∀ c ∈ cs, c.e.WF b.dim)
    (hex : ∀ c ∈ cs, extractIntervalConstraint c = none → CoeffsExact cfg.TR c.e)
    (hx : b.mem cfg.p x) (hc : ∀ c ∈ cs, c.holds x) : (refineWithConstraints cfg b cs).mem cfg.p x :=
  refineWithConstraints_sound hS hwf hex hx hc

/-- `propagate_constraints(cs, max_iterations)`: for EVERY number of iterations (every `fuel`, every
`max_iterations`), all four sign blocks, every rounding of the temporaries, trivial constraints included.
`_partial` for ONE reason only: `CoeffsExact` — the coefficients must be values of the temporary type,
exactly the class where `box_refine_sound_fails` shows the clause false (KF-C03-65…68); always true for
`mpq_class` / `mpz_class` temporaries (`box_propagate_sound_exact_temporaries`). -/
theorem box_propagate_sound_partial (cfg : Cfg) (hS : cfg.Sound) (fuel maxIter : Nat) (b : Box) (cs : List Con)
    (x : Nat → Rat) (hwf : ∀ c ∈ cs, c.e.WF b.dim) (hex : ∀ c ∈ cs, CoeffsExact cfg.TR c.e)
    (hx : b.mem cfg.p x) (hc : ∀ c ∈ cs, c.holds x) : (propagateConstraints cfg fuel b cs maxIter).mem cfg.p x :=
  propagateConstraints_sound hS fuel maxIter hwf hex hx hc

/-- `propagate_constraint(c)`; `_partial` for `CoeffsExact` only -/
theorem box_propagate_constraint_sound_partial (cfg : Cfg) (hS : cfg.Sound) (b : Box) (c : Con) (x : Nat → Rat)
    (hwf : c.e.WF b.dim) (hex : CoeffsExact cfg.TR c.e)
    (hx : b.mem cfg.p x) (hc : c.holds x) : (propagateConstraint cfg b c).mem cfg.p x :=
  propagateConstraint_sound hS hwf hex hx hc

/-- full strength for instantiations whose temporaries hold every integer (`Rational_Box`, `Z_Box`) -/
theorem box_propagate_sound_exact_temporaries (cfg : Cfg) (hS : cfg.Sound) (hT : IntExact cfg.TR) (fuel maxIter : Nat)
    (b : Box) (cs : List Con) (x : Nat → Rat) (hwf : ∀ c ∈ cs, c.e.WF b.dim)
    (hx : b.mem cfg.p x) (hc : ∀ c ∈ cs, c.holds x) : (propagateConstraints cfg fuel b cs maxIter).mem cfg.p x :=
  propagateConstraints_sound hS fuel maxIter hwf (fun c _ => hT.coeffsExact c.e) hx hc

example : CoeffsExact Cfg.dbl.TR (⟨[3, -2, 1], 7⟩ : LinExpr) := by
  intro a ha
  simp only [List.mem_cons, List.not_mem_nil, or_false] at ha
  rcases ha with rfl | rfl | rfl <;> constructor <;> decide +kernel

/-- the tautology `0 == 0` is now kept, the inconsistent `5 == 0` empties the box (the repaired test) -/
example (b : Box) : propagateConstraintNoCheck Cfg.mpq b ⟨⟨[], 0⟩, .eq⟩ = b ∧
    propagateConstraintNoCheck Cfg.mpq b ⟨⟨[], 5⟩, .eq⟩ = b.setEmpty :=
  ⟨(propagateConstraintNoCheck_trivialEq Cfg.mpq b).1, (propagateConstraintNoCheck_trivialEq Cfg.mpq b).2.1⟩

/-- HISTORICAL (KF-C03-64, repaired by /repo dee742e): the function as written before the repair marked the
box empty on the tautology `0 == 0` (every instantiation); it differs from the current one on trivial
constraints only (`propagateConstraintNoCheckBeforeFix_eq`) -/
theorem box_propagate_trivial_eq_before_fix_fails :
    ¬ (∀ (b : Box) (c : Con) (x : Nat → Rat), c.e.WF b.dim → CoeffsExact Cfg.mpq.TR c.e → b.mem Cfg.mpq.p x →
      c.holds x → (propagateConstraintNoCheckBeforeFix Cfg.mpq b c).mem Cfg.mpq.p x) :=
  propagateConstraintNoCheck_trivial_eq_before_fix_fails

/-- exactness where the C++ documents it: a single-variable constraint on a box with exact bounds is
the intersection with the half-space (open bounds included when the policy stores them) -/
theorem box_refine_exact (cfg : Cfg) (hR : cfg.R = Rounding.id) (b : Box) (c : Con) (v : Nat)
    (hso : cfg.p.storeOpen = true ∨ c.ty ≠ .gt) (hiv : extractIntervalConstraint c = some (some v))
    (hv : v < b.dim) (hm : b.markedEmpty = false) (x : Nat → Rat) :
    (refineWithConstraint cfg b c).mem cfg.p x ↔ (b.mem cfg.p x ∧ c.holds x) :=
  refine_interval_exact hR hso hiv hv hm x

example : extractIntervalConstraint ⟨⟨[0, -2], 5⟩, .gt⟩ = some (some 1) := by decide

/-! ## `max_min`, interval evaluation, `affine_image`, `affine_preimage` -/

/-- `maximize` / `minimize`: the answer bounds the expression on the box, strictly when not attained -/
theorem box_max_min_sound (p : Policy) (b : Box) (e : LinExpr) (q : Rat) (incl : Bool) (x : Nat → Rat)
    (hwf : e.WF b.dim) (hx : b.mem p x) :
    ((maxMin p b e true).1 = some (q, incl) → e.eval x ≤ q ∧ (incl = false → e.eval x < q)) ∧
    ((maxMin p b e false).1 = some (q, incl) → q ≤ e.eval x ∧ (incl = false → q < e.eval x)) :=
  ⟨fun h => maxMin_sound_max hwf h hx, fun h => maxMin_sound_min hwf h hx⟩

/-- the interval evaluation of `expr / denominator` encloses the value at every point of the box -/
theorem box_eval_expr_sound (cfg : Cfg) (hS : cfg.Sound) (b : Box) (e : LinExpr) (den : Int) (x : Nat → Rat)
    (hwf : e.WF b.dim) (hd : den ≠ 0) (hx : b.mem cfg.p x) :
    (evalExprIv cfg b.seq e den).mem cfg.p (e.eval x / (den : Rat)) := evalExprIv_sound hS hwf hd hx

/-- `affine_image(var, expr, den)`: full strength, every policy, every rounding -/
theorem box_affine_image_sound (cfg : Cfg) (hS : cfg.Sound) (b : Box) (v : Nat) (e : LinExpr) (den : Int)
    (x : Nat → Rat) (hv : v < b.dim) (hwf : e.WF b.dim) (hd : den ≠ 0) (hx : b.mem cfg.p x) :
    (affineImage cfg b v e den).mem cfg.p (upd x v (e.eval x / (den : Rat))) :=
  affineImage_sound hS hv hwf hd hx

example : (affineImage Cfg.int8 ⟨[⟨⟨fin 100, false⟩, ⟨fin 120, false⟩⟩], false, true⟩ 0 ⟨[2], 0⟩ 1).seq
    = [⟨⟨fin 127, false⟩, ⟨pinf, false⟩⟩] := by decide +kernel

/-- exactness where the C++ documents it: `var := ±var + n` on exact bounds (every policy without
value infinities, `Rational_Box` in particular) returns EXACTLY the image — open, closed and infinite
bounds included -/
theorem box_affine_image_exact (cfg : Cfg) (hR : cfg.R = Rounding.id) (hm : cfg.p.mayContainInfinity = false) (b : Box)
    (v : Nat) (s n : Int) (hs : s = 1 ∨ s = -1) (hv : v < b.dim) (y : Nat → Rat) :
    (affineImage cfg b v ⟨List.replicate v 0 ++ [s], n⟩ 1).mem cfg.p y ↔
      ∃ x, b.mem cfg.p x ∧ y = upd x v ((s : Rat) * x v + n) :=
  affineImage_exact_shift_gen hR hm b v s n hs hv y

/-- … and `var := n` (the interval of `var` on its own sides, which `OK()` demands) -/
theorem box_affine_image_const_exact (cfg : Cfg) (hR : cfg.R = Rounding.id) (b : Box) (v : Nat) (n : Int) (hv : v < b.dim)
    (hown : (b.get v).lo.value ≠ pinf ∧ (b.get v).hi.value ≠ ninf) (y : Nat → Rat) :
    (affineImage cfg b v ⟨[], n⟩ 1).mem cfg.p y ↔ ∃ x, b.mem cfg.p x ∧ y = upd x v (n : Rat) :=
  affineImage_exact_const_gen hR b v n hv hown y

/-- `(0,2]` under `x := -x + 3` is `[1,3)`: `3` is not in the image -/
example : ¬ (affineImage Cfg.mpq ⟨[⟨⟨fin 0, true⟩, ⟨fin 2, false⟩⟩], false, true⟩ 0 ⟨[-1], 3⟩ 1).mem Cfg.mpq.p (fun _ => 3) := by
  have hv : (affineImage Cfg.mpq ⟨[⟨⟨fin 0, true⟩, ⟨fin 2, false⟩⟩], false, true⟩ 0 ⟨[-1], 3⟩ 1).get 0
      = ⟨⟨fin 1, false⟩, ⟨fin 3, true⟩⟩ := by decide +kernel
  intro h
  have h1 := (h.2 0 (by decide)).2
  rw [hv] at h1
  have : upperOkV (fin 3) true (3 : Rat) := h1
  simp at this

/-- `affine_preimage(var, expr, den)`, invertible and non-invertible: `x` is in γ(result) whenever its
image is in γ(box) -/
theorem box_affine_preimage_sound (cfg : Cfg) (hS : cfg.Sound) (b : Box) (v : Nat) (e : LinExpr) (den : Int)
    (x : Nat → Rat) (hv : v < b.dim) (hwf : e.WF b.dim) (hd : den ≠ 0)
    (hx : b.mem cfg.p (upd x v (e.eval x / (den : Rat)))) : (affinePreimage cfg b v e den).mem cfg.p x :=
  affinePreimage_sound hS hv hwf hd hx

/-! ## generalized and bounded images / preimages, `unconstrain` -/

/-- `generalized_affine_image(var, relsym, expr, den)`: full strength -/
theorem box_generalized_affine_image_sound (cfg : Cfg) (hS : cfg.Sound) (b : Box) (v : Nat) (rel : Rel)
    (e : LinExpr) (den : Int) (x : Nat → Rat) (y : Rat) (hv : v < b.dim) (hwf : e.WF b.dim) (hd : den ≠ 0)
    (hrel : rel ≠ .ne) (hx : b.mem cfg.p x) (hy : Rel.holds rel y (e.eval x / (den : Rat))) :
    (generalizedAffineImage cfg b v rel e den).mem cfg.p (upd x v y) :=
  generalizedAffineImage_sound hS hv hwf hd hrel hx hy

/-- `generalized_affine_image(lhs, relsym, rhs)`: `y` differs from `x ∈ γ(box)` on the variables of `lhs`
only and `lhs(y) ⋈ rhs(x)`.  `_partial`: when `lhs` is a constant the code refines with `lhs ⋈ rhs`
(`RefineSound`, false for `Double_Box`: `box_generalized_affine_image_lhs_sound_fails`); with one or
more variables in `lhs` no condition. -/
theorem box_generalized_affine_image_lhs_sound_partial (cfg : Cfg) (hS : cfg.Sound) (b : Box) (lhs rhs : LinExpr)
    (rel : Rel) (x y : Nat → Rat) (hRef : lhs.terms = [] → RefineSound cfg) (hl : lhs.WF b.dim) (hr : rhs.WF b.dim)
    (hrel : rel ≠ .ne) (hx : b.mem cfg.p x) (hag : AgreeOff lhs x y)
    (hy : Rel.holds rel (lhs.eval y) (rhs.eval x)) : (generalizedAffineImageLhs cfg b lhs rel rhs).mem cfg.p y :=
  generalizedAffineImageLhs_sound hS hRef hl hr hrel hx hag hy

theorem box_generalized_affine_image_lhs_sound_fails :
    ¬ (∀ (b : Box) (lhs rhs : LinExpr) (rel : Rel) (x y : Nat → Rat), lhs.WF b.dim → rhs.WF b.dim → rel ≠ .ne →
      b.mem Cfg.dbl.p x → AgreeOff lhs x y → Rel.holds rel (lhs.eval y) (rhs.eval x) →
      (generalizedAffineImageLhs Cfg.dbl b lhs rel rhs).mem Cfg.dbl.p y) := generalizedAffineImageLhs_sound_fails

/-- three variables in `lhs`: all of them are unconstrained (the repaired loop) -/
example : (generalizedAffineImageLhs Cfg.mpq (Box.univ Policy.rational 3 |>.setIv 1 ⟨⟨fin 2, false⟩, ⟨fin 2, false⟩⟩) ⟨[1, 1, 1], 0⟩ .le ⟨[], 0⟩).seq
    = (Box.univ Policy.rational 3).seq := by decide +kernel

/-- `bounded_affine_image(var, lb, ub, den)`.  `_partial`: the code refines with `lb ≤ ub` and with the
bound that does not mention `var` (`RefineSound`; `box_bounded_affine_image_sound_fails`). -/
theorem box_bounded_affine_image_sound_partial (cfg : Cfg) (hS : cfg.Sound) (hRef : RefineSound cfg) (b : Box)
    (v : Nat) (lb ub : LinExpr) (den : Int) (x : Nat → Rat) (y : Rat) (hv : v < b.dim) (hlb : lb.WF b.dim)
    (hub : ub.WF b.dim) (hd : den ≠ 0) (hx : b.mem cfg.p x) (h1 : lb.eval x / (den : Rat) ≤ y)
    (h2 : y ≤ ub.eval x / (den : Rat)) : (boundedAffineImage cfg b v lb ub den).mem cfg.p (upd x v y) :=
  boundedAffineImage_sound hS hRef hv hlb hub hd hx h1 h2

theorem box_bounded_affine_image_sound_fails :
    ¬ (∀ (b : Box) (v : Nat) (lb ub : LinExpr) (den : Int) (x : Nat → Rat) (y : Rat), v < b.dim → lb.WF b.dim →
      ub.WF b.dim → den ≠ 0 → b.mem Cfg.dbl.p x → lb.eval x / (den : Rat) ≤ y → y ≤ ub.eval x / (den : Rat) →
      (boundedAffineImage Cfg.dbl b v lb ub den).mem Cfg.dbl.p (upd x v y)) := boundedAffineImage_sound_fails

/-- at full strength for exact temporaries -/
theorem box_bounded_affine_image_sound_mpq (b : Box) (v : Nat) (lb ub : LinExpr) (den : Int) (x : Nat → Rat) (y : Rat)
    (hv : v < b.dim) (hlb : lb.WF b.dim) (hub : ub.WF b.dim) (hd : den ≠ 0) (hx : b.mem Cfg.mpq.p x)
    (h1 : lb.eval x / (den : Rat) ≤ y) (h2 : y ≤ ub.eval x / (den : Rat)) :
    (boundedAffineImage Cfg.mpq b v lb ub den).mem Cfg.mpq.p (upd x v y) :=
  boundedAffineImage_sound Cfg.mpq_sound refineSound_mpq hv hlb hub hd hx h1 h2

/-- `bounded_affine_preimage(var, lb, ub, den)` WHEN IT RETURNS (`some`): `x` is in γ(result) whenever some
`y` with `lb(x)/den ≤ y ≤ ub(x)/den` puts `x[var := y]` into γ(box); all sign cases of `den` and of the
coefficients of `var`.  `_partial`: (i) the call must return — `box_bounded_affine_preimage_dies`; (ii) it
refines with `lb ≤ ub` (`RefineSound`). -/
theorem box_bounded_affine_preimage_sound_partial (cfg : Cfg) (hS : cfg.Sound) (hRef : RefineSound cfg) (b b' : Box)
    (v : Nat) (lb ub : LinExpr) (den : Int) (x : Nat → Rat) (y : Rat)
    (h : boundedAffinePreimage cfg b v lb ub den = some b') (hv : v < b.dim) (hlb : lb.WF b.dim) (hub : ub.WF b.dim)
    (hd : den ≠ 0) (hx : b.mem cfg.p (upd x v y)) (h1 : lb.eval x / (den : Rat) ≤ y) (h2 : y ≤ ub.eval x / (den : Rat)) :
    b'.mem cfg.p x := boundedAffinePreimage_sound hS hRef h hv hlb hub hd hx h1 h2

/-- KF-C03-1: `A ∈ [0,1]`, `lb = A`, `ub = 5` (does not mention `A`), `den = 1`: the model reaches the division
by the coefficient `0` of `A` in `ub` — the real `Rational_Box` dies with SIGFPE (`none`) -/
theorem box_bounded_affine_preimage_dies :
    boundedAffinePreimage Cfg.mpq ⟨[⟨⟨fin 0, false⟩, ⟨fin 1, false⟩⟩], false, true⟩ 0 ⟨[1], 0⟩ ⟨[0], 5⟩ 1 = none :=
  boundedAffinePreimage_dies

/-- so "every well-formed call returns a box containing the exact preimage" is false -/
theorem box_bounded_affine_preimage_sound_fails :
    ¬ (∀ (b : Box) (v : Nat) (lb ub : LinExpr) (den : Int), v < b.dim → lb.WF b.dim → ub.WF b.dim → den ≠ 0 →
      ∃ b', boundedAffinePreimage Cfg.mpq b v lb ub den = some b') := by
  intro h
  obtain ⟨b', hb⟩ := h ⟨[⟨⟨fin 0, false⟩, ⟨fin 1, false⟩⟩], false, true⟩ 0 ⟨[1], 0⟩ ⟨[0], 5⟩ 1 (by decide)
    (by simp [LinExpr.WF, Box.dim]) (by simp [LinExpr.WF, Box.dim]) (by decide)
  rw [boundedAffinePreimage_dies] at hb
  cases hb

example : (boundedAffinePreimage Cfg.mpq ⟨[⟨⟨fin 0, false⟩, ⟨fin 1, false⟩⟩], false, true⟩ 0 ⟨[1], 0⟩ ⟨[1], 5⟩ 1).isSome = true := by
  decide +kernel

/-- `generalized_affine_preimage(var, relsym, expr, den)`: `x` is in γ(result) whenever some `y` with
`y ⋈ expr(x)/den` puts `x[var := y]` into γ(box).  `_partial`: only the non-invertible case with a
relation other than `=` refines (`RefineSound`; `box_generalized_affine_preimage_sound_fails`). -/
theorem box_generalized_affine_preimage_sound_partial (cfg : Cfg) (hS : cfg.Sound) (b : Box) (v : Nat) (rel : Rel)
    (e : LinExpr) (den : Int) (x : Nat → Rat) (y : Rat) (hRef : e.coeff v = 0 → rel ≠ .eq → RefineSound cfg)
    (hv : v < b.dim) (hwf : e.WF b.dim) (hd : den ≠ 0) (hrel : rel ≠ .ne) (hx : b.mem cfg.p (upd x v y))
    (hy : Rel.holds rel y (e.eval x / (den : Rat))) : (generalizedAffinePreimage cfg b v rel e den).mem cfg.p x :=
  generalizedAffinePreimage_sound hS hRef hv hwf hd hrel hx hy

theorem box_generalized_affine_preimage_sound_fails :
    ¬ (∀ (b : Box) (v : Nat) (rel : Rel) (e : LinExpr) (den : Int) (x : Nat → Rat) (y : Rat), v < b.dim → e.WF b.dim →
      den ≠ 0 → rel ≠ .ne → b.mem Cfg.dbl.p (upd x v y) → Rel.holds rel y (e.eval x / (den : Rat)) →
      (generalizedAffinePreimage Cfg.dbl b v rel e den).mem Cfg.dbl.p x) := generalizedAffinePreimage_sound_fails

/-- `generalized_affine_preimage(lhs, relsym, rhs)` (the repaired function: inf/sup of `lhs`, forget its
variables, constrain `rhs`).  `_partial`: `RefineSound` (`…_lhs_sound_fails`). -/
theorem box_generalized_affine_preimage_lhs_sound_partial (cfg : Cfg) (hS : cfg.Sound) (hRef : RefineSound cfg) (b : Box)
    (lhs rhs : LinExpr) (rel : Rel) (x y : Nat → Rat) (hl : lhs.WF b.dim) (hr : rhs.WF b.dim) (hrel : rel ≠ .ne)
    (hy : b.mem cfg.p y) (hag : AgreeOff lhs x y) (hh : Rel.holds rel (lhs.eval y) (rhs.eval x)) :
    (generalizedAffinePreimageLhs cfg b lhs rel rhs).mem cfg.p x :=
  generalizedAffinePreimageLhs_sound hS hRef hl hr hrel hy hag hh

theorem box_generalized_affine_preimage_lhs_sound_fails :
    ¬ (∀ (b : Box) (lhs rhs : LinExpr) (rel : Rel) (x y : Nat → Rat), lhs.WF b.dim → rhs.WF b.dim → rel ≠ .ne →
      b.mem Cfg.dbl.p y → AgreeOff lhs x y → Rel.holds rel (lhs.eval y) (rhs.eval x) →
      (generalizedAffinePreimageLhs Cfg.dbl b lhs rel rhs).mem Cfg.dbl.p x) := generalizedAffinePreimageLhs_sound_fails

/-- `unconstrain(var)` / `unconstrain(vars)` (an undetected-empty interval marks the box empty) -/
theorem box_unconstrain_sound (cfg : Cfg) (b : Box) (x y : Nat → Rat) (vars : List Nat) (hvars : ∀ v ∈ vars, v < b.dim)
    (hx : b.mem cfg.p x) (hy : ∀ k, k ∉ vars → y k = x k) :
    (unconstrainSet cfg b vars).mem cfg.p y ∧ ∀ v, v < b.dim → ∀ w, (unconstrain cfg b v).mem cfg.p (upd x v w) :=
  ⟨unconstrainSet_sound hvars hx hy, fun v hv w => unconstrain_sound hv hx w⟩

/-! ## `is_empty` caching, lattice operations, dimensions -/

/-- `is_empty()`: `true` is right, the cache update does not change γ, and (bounds on their own
sides, which `OK()` demands) `false` is right too -/
theorem box_is_empty_sound (p : Policy) (b : Box) :
    ((b.isEmptyQ p).1 = true → ∀ x, ¬ b.mem p x) ∧ (∀ x, (b.isEmptyQ p).2.mem p x ↔ b.mem p x) ∧
    ((∀ I ∈ b.seq, I.lo.value ≠ pinf ∧ I.hi.value ≠ ninf) → (b.isEmptyQ p).1 = false → ∃ x, b.mem p x) :=
  ⟨Box.isEmptyQ_true_sound, fun x => Box.isEmptyQ_mem_iff, Box.isEmptyQ_false_complete⟩

theorem box_intersection_sound (cfg : Cfg) (hS : cfg.Sound) (b1 b2 : Box) (x : Nat → Rat) (hdim : b1.dim = b2.dim)
    (h1 : b1.mem cfg.p x) (h2 : b2.mem cfg.p x) : (intersectionAssign cfg b1 b2).mem cfg.p x :=
  intersectionAssign_sound hS hdim h1 h2

theorem box_upper_bound_sound (cfg : Cfg) (hS : cfg.Sound) (b1 b2 : Box) (x : Nat → Rat) (hdim : b1.dim = b2.dim)
    (h : b1.mem cfg.p x ∨ b2.mem cfg.p x) : (upperBoundAssign cfg b1 b2).mem cfg.p x :=
  upperBoundAssign_sound hS hdim h

theorem box_difference_sound (cfg : Cfg) (hS : cfg.Sound) (b1 b2 : Box) (x : Nat → Rat) (hdim : b1.dim = b2.dim)
    (h1 : b1.mem cfg.p x) (h2 : ¬ b2.mem cfg.p x) : (PPLV.WR.BoxT.differenceAssign cfg b1 b2).mem cfg.p x :=
  differenceAssign_sound hS hdim h1 h2

theorem box_concatenate_sound (p : Policy) (b1 b2 : Box) (x y : Nat → Rat) (h1 : b1.mem p x) (h2 : b2.mem p y) :
    (concatenateAssign b1 b2).mem p (fun k => if k < b1.dim then x k else y (k - b1.dim)) :=
  concatenateAssign_sound h1 h2

/-- `remove_higher_space_dimensions`: sound, and (the repair of KF-C04-29) a box that is empty because
of an interval that is dropped stays empty -/
theorem box_remove_higher_sound (cfg : Cfg) (b : Box) (nd : Nat) :
    (∀ x, nd ≤ b.dim → b.mem cfg.p x → (removeHigherSpaceDimensions cfg b nd).mem cfg.p x) ∧
    (nd < b.dim → (∃ I ∈ b.seq, isEmpty cfg.p I = true) → (removeHigherSpaceDimensions cfg b nd).markedEmpty = true) :=
  ⟨fun x hnd hx => removeHigherSpaceDimensions_sound hnd hx, removeHigherSpaceDimensions_empty⟩

example : (removeHigherSpaceDimensions Cfg.mpq ⟨[⟨⟨fin 1, false⟩, ⟨fin 1, false⟩⟩, Iv.empty], false, false⟩ 1).markedEmpty = true := by
  decide +kernel

end C03
