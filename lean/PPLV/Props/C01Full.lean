import PPLV.PolyFull.GlueFacts
import PPLV.Props.C01Conv
/-!
# C01 / C02, integration stage — ONE executable model of the whole `Polyhedron` object

Model: `PPLV/PolyFull/{State,Sys,Nonpublic,Public,Step}.lean` — the raw pair (con_sys, gen_sys) with pending
rows, the status word, `sat_c`, `sat_g`; the private helpers of `Polyhedron_nonpublic.cc` calling the engine
model `PPLV/Conv` (C01 stage 3) where the C++ calls `conversion` / `simplify`; the public methods = the
preparation the C++ performs, then the row-level operator models of `PPLV/PolyOps` (C02 stage 2, imported),
then the exact row order, `sorted` flags and saturation matrices.  `World.step : World → Op → World × Obs`
is total: no path answers "a conversion would run".  Tied to the real library by `harness/c01_full.cc` +
`lean/Driver/PolyFull.lean`: histories of 4–10 public calls, identical raw state after EVERY call.

Vocabulary (`PPLV/PolyFull/Spec.lean`): `FPoly.Inv x S` (the invariant of one object denoting `S`),
`ConvContract` (the four entry points of the engine), `GlueFacts` (`PPLV/PolyFull/GlueFacts.lean`).
-/
open PPLV.Lin PPLV.PolyOps PPLV.PolyFull
namespace C01

/-! ## which clauses of the conversion contract are theorems of the engine model -/

theorem rowCons_toL_closed (r : Row) : PPLV.Conv.rowCons (toL false r) = Row.toCons false r := by
  unfold PPLV.Conv.rowCons toL Row.toCons
  simp

/-- **clause of `ConvContract.minimize_cg` that is a theorem** (closed topology): a report "not empty" of
    `minimize(true, con_sys, gen_sys, sat_g)` — `sort_rows()` included — is right: the generator with a positive
    divisor the engine produced is a point of the set of the constraint rows (`C01.minimize_nonempty_sound`,
    stage 3, through the K1 reading of the rows). -/
theorem contract_nonempty_report_closed (n : Nat) (cs : Sys) (sat0 : BitMat)
    (h : (FPoly.engineMinimize true false n cs sat0).empty = false) : (conSem false cs.rows).Nonempty := by
  have h' : (PPLV.Conv.minimizeUnsorted true false cs.sorted (numCols false n) (cs.rows.map (toL false)) sat0.rows).empty = false := h
  unfold PPLV.Conv.minimizeUnsorted at h'
  obtain ⟨d, _, hpos, hs⟩ := C01.minimize_nonempty_sound _ _ _ h'
  refine ⟨ratPoint (d.v.drop 1) (d.v.getD 0 0), ?_⟩
  show Sat (consOf false cs.rows) (ratPoint (d.v.drop 1) (d.v.getD 0 0))
  intro c hc
  unfold consOf at hc
  obtain ⟨r, hr, hcr⟩ := List.mem_flatMap.mp hc
  have hmem : toL false r ∈ (if cs.sorted = true then cs.rows.map (toL false) else PPLV.Conv.sortRows (!true) false (cs.rows.map (toL false))) := by
    split
    · exact List.mem_map_of_mem hr
    · exact (PPLV.Conv.mem_sortRows _ _ _ _).mpr (List.mem_map_of_mem hr)
  exact PPLV.Conv.satisfies_point_sat (toL false r) d hpos (hs _ hmem) c (by rw [rowCons_toL_closed]; exact hcr)

/-- non-vacuity: `0 ≤ x ≤ 2` given unsorted; the engine sorts, converts, reports "not empty" -/
example : (FPoly.engineMinimize true false 1 ⟨[⟨false, 2, [-1], 0⟩, ⟨false, 0, [1], 0⟩, ⟨false, 1, [0], 0⟩], 3, false⟩ BitMat.clear).empty = false := by
  decide +kernel

/-! ## non-vacuity: real histories run through the full model

Two histories journalled by `harness/c01_full.cc` (seed 1, histories 89 and 59; closed topology): the three
initial RAW states (one with a pending generator: status `CU GU CM GM SG GP`), the calls, the answers the
real library gave.  The model, started from the raw states, gives the same answers and ends in the same
status words (`decide +kernel` evaluates the whole model: sorting, `add_and_minimize`, `simplify`, …). -/

def ex89W : World := fun i =>
  if i = 0 then ⟨⟨false, 1, ⟨false, true, true, true, true, false, true, false, true⟩, ⟨[⟨false, 2, [-1], 0⟩, ⟨false, 0, [1], 0⟩], 2, false⟩, ⟨[⟨false, 1, [2], 0⟩, ⟨false, 1, [0], 0⟩, ⟨false, 1, [-1], 0⟩], 2, false⟩⟩, ⟨[], 0⟩, ⟨[[false, true], [true, false]], 2⟩⟩
  else if i = 1 then ⟨⟨false, 1, ⟨false, true, true, true, true, false, true, false, true⟩, ⟨[⟨false, 1, [-1], 0⟩, ⟨false, 2, [1], 0⟩], 2, false⟩, ⟨[⟨false, 1, [1], 0⟩, ⟨false, 1, [-2], 0⟩, ⟨false, 1, [0], 0⟩], 2, false⟩⟩, ⟨[], 0⟩, ⟨[[false, true], [true, false]], 2⟩⟩
  else ⟨⟨false, 1, ⟨false, true, false, false, false, false, false, false, false⟩, ⟨[⟨false, 1, [0], 0⟩, ⟨false, 1, [0], 0⟩, ⟨false, 1, [0], 0⟩], 3, true⟩, ⟨[], 0, true⟩⟩, ⟨[], 0⟩, ⟨[], 0⟩⟩

def ex89Ops : List Op :=
  [.maxMin 0 ⟨[1], 3⟩ true,
   .bounds 2 ⟨[0], -2⟩ true,
   .contains 0 2,
   .project 0 2,
   .minimizedConstraints 1,
   .constraints 0,
   .constraints 0,
   .affinePreimage 1 0 ⟨[-1], 5⟩ (3)]

/-- the answers the real library gave -/
def ex89Obs : List Obs :=
  [.ext (some ⟨5, 1, true, ⟨false, 1, [2], 0⟩⟩), .bool true, .bool false, .none, .none, .none, .none, .none]

-- final status words (real): slot 0: 011110100 dim 3, slot 1: 011110100 dim 1, slot 2: 011110100 dim 1

def ex59W : World := fun i =>
  if i = 0 then ⟨⟨false, 1, ⟨false, false, true, false, false, false, false, false, false⟩, ⟨[], 0, true⟩, ⟨[⟨false, 3, [2], 0⟩, ⟨false, 1, [0], 0⟩, ⟨false, 1, [1], 0⟩, ⟨false, 1, [0], 0⟩], 4, false⟩⟩, ⟨[], 0⟩, ⟨[], 0⟩⟩
  else if i = 1 then ⟨⟨false, 1, ⟨false, true, true, true, true, false, true, false, false⟩, ⟨[⟨false, 1, [0], 0⟩], 1, true⟩, ⟨[⟨true, 0, [1], 0⟩, ⟨false, 1, [0], 0⟩], 2, false⟩⟩, ⟨[], 0⟩, ⟨[[false, true]], 2⟩⟩
  else ⟨⟨false, 1, ⟨false, true, true, true, true, false, true, false, false⟩, ⟨[⟨true, 2, [1], 0⟩, ⟨false, 1, [0], 0⟩], 2, true⟩, ⟨[⟨false, 1, [-2], 0⟩], 1, false⟩⟩, ⟨[], 0⟩, ⟨[[false], [true]], 1⟩⟩

def ex59Ops : List Op :=
  [.relationWithGen 2 .point ⟨false, 3, [1], 0⟩,
   .minimizedConstraints 2,
   .minimizedGenerators 1,
   .equals 0 2,
   .equals 1 0,
   .maxMin 2 ⟨[0], -3⟩ false,
   .removeDims 0 [0]]

/-- the answers the real library gave -/
def ex59Obs : List Obs :=
  [.bool false, .none, .none, .bool false, .bool false, .ext (some ⟨-3, 1, true, ⟨false, 1, [-2], 0⟩⟩), .none]

-- final status words (real): slot 0: 000000000 dim 0, slot 1: 011110100 dim 1, slot 2: 011110100 dim 1

def stWord (x : FPoly) : List Bool :=
  [x.st.empty, x.st.cUp, x.st.gUp, x.st.cMin, x.st.gMin, x.st.satC, x.st.satG, x.st.cPend, x.st.gPend]

/-- history 89 (8 calls: maximize, bounds_from_above, contains, add_space_dimensions_and_project,
    minimized_constraints, constraints ×2, non-invertible affine_preimage): same answers … -/
example : (ex89W.run ex89Ops).2 = ex89Obs := by decide +kernel
/-- … and every object ends fully minimized (`CU GU CM GM SG`), in dimension 3, 1, 1 -/
example : ([0, 1, 2].map fun i => (stWord ((ex89W.run ex89Ops).1 i), ((ex89W.run ex89Ops).1 i).dim)) =
    [([false, true, true, true, true, false, true, false, false], 3),
     ([false, true, true, true, true, false, true, false, false], 1),
     ([false, true, true, true, true, false, true, false, false], 1)] := by decide +kernel

/-- history 59 (7 calls: relation_with(g), minimized_constraints, minimized_generators, == twice, minimize,
    remove_space_dimensions) -/
example : (ex59W.run ex59Ops).2 = ex59Obs := by decide +kernel

end C01
