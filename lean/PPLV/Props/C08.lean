import PPLV.Widen.ProofsCert
import PPLV.Widen.ProofsMultiset
import PPLV.Widen.ProofsConv
import PPLV.Widen.ProofsItv

/-!
# C08 — widenings are upper bounds, well defined on values, and force convergence

What is proved here, about the code-shaped models of `PPLV/Widen/Model.lean`:

* `cert_wf` — the strict orders induced by the three certificate `compare` methods, *as the widenings
  use them* ("new certificate strictly smaller"), are well-founded on certificates of a fixed space
  dimension.  For the `compare(ph)` overloads this needs the two facts the C++ only asserts
  (`ph ⊇ *this`, so affine dimension and lineality do not decrease): without them the relation has a
  2-cycle (`cert_wf_ph_unguarded_fails`).
* `compare_overloads_agree_fails` / `_partial` — DESIGN §9 #15 is true: `compare(cert)` orders
  affine dimension (and lineality) *ascending*, `compare(ph)` *descending*; they agree exactly when
  these two components are equal.  Both induced orders are well-founded, so `BHZ03` (hull through
  `compare(ph)`, multiset through `compare(cert)`) still terminates; what differs from the BHZ03
  paper is which candidates the multiset test accepts.
* `multiset_wf` — `is_cert_multiset_stabilizing` is a sub-relation of the Dershowitz–Manna extension
  of `compare = -1`, hence well-founded.
* `converges` — the abstract convergence theorem; `converges_adversary` is the stronger form.
  (Appendix B omitted the hypothesis `hval`; without it the statement is false: a widening may return
  a different representation of the same set carrying a larger certificate.)
* `cc76_interval_sup`, `cc76_interval_converges` — `Interval::CC76_widening_assign` outright.
* `token_spec`, `limited_between`, `bounded_between` — over the abstract interface.

Monitored at run time, not proved: that each concrete PPL widening decreases its certificate and is a
function of the point sets (`harness/c08_widen.cc`, `Driver/Widen.lean`).
-/
namespace C08
open PPLV.Widen

/-! ### certificates -/

/-- **The certificate orders are well-founded** (space dimension `n`):
    `compare(cert) = -1` for BHRZ03 / H79 / Grid, and "`old.compare(new_ph) = 1`" with the asserted
    inclusion facts for BHRZ03 / H79 (`LessPh`), plain for Grid. -/
theorem cert_wf (n : Nat) :
    WellFounded (BHRZ03Cert.LessCert n) ∧
    WellFounded (BHRZ03Cert.LessPh n) ∧
    WellFounded (fun a b : H79Cert => a.compare b = .lt) ∧
    WellFounded (H79Cert.LessPh n) ∧
    WellFounded (fun a b : GridCert => a.compare b = .lt) ∧
    WellFounded (fun new old : GridCert => old.comparePh new = .gt) :=
  ⟨bhrz03_compare_wf n, bhrz03_comparePh_wf n, h79_compare_wf, h79_comparePh_wf n,
   grid_compare_wf, grid_comparePh_wf⟩

/-- non-vacuity: a segment is below a point in the BHRZ03 order of dimension 1 (`compare(ph) = 1`) -/
example : BHRZ03Cert.LessPh 1 ⟨1, 0, 2, 2, [0]⟩ ⟨0, 0, 1, 1, [0]⟩ := by unfold BHRZ03Cert.LessPh; decide

example : H79Cert.LessPh 2 ⟨2, 3⟩ ⟨2, 4⟩ := by unfold H79Cert.LessPh; decide

/-- Without the asserted facts the relation "`old.compare(new_ph) = 1`" is **not** well-founded: the raw
    transliteration of `BHRZ03_Certificate::compare(const Polyhedron&)` has a 2-cycle already among
    certificates that pass `OK()` (it never tests `ph_affine_dim < affine_dim`). -/
theorem cert_wf_ph_unguarded_fails :
    ¬ WellFounded (fun new old : BHRZ03Cert => old.comparePh new = .gt) := by
  intro wf
  let a : BHRZ03Cert := ⟨2, 2, 0, 1, [0, 0, 0]⟩
  let b : BHRZ03Cert := ⟨3, 1, 0, 1, [0, 0, 0]⟩
  have hab : b.comparePh a = .gt := by decide
  have hba : a.comparePh b = .gt := by decide
  exact wf.asymmetric a b hab hba

theorem cert_wf_h79_ph_unguarded_fails :
    ¬ WellFounded (fun new old : H79Cert => old.comparePh new = .gt) := by
  intro wf
  let a : H79Cert := ⟨1, 5⟩
  let b : H79Cert := ⟨2, 6⟩
  have hab : b.comparePh a = .gt := by decide
  have hba : a.comparePh b = .gt := by decide
  exact wf.asymmetric a b hab hba

/-- **DESIGN §9 #15 confirmed**: the two overloads of `BHRZ03_Certificate::compare` do not agree —
    for the certificate `c` of a point and the certificate `p` of a segment containing it,
    `c.compare(ph) = 1` ("stabilizing") while `c.compare(Cert(ph)) = -1`. -/
theorem compare_overloads_agree_fails :
    ¬ ∀ c p : BHRZ03Cert, c.comparePh p = c.compare p := by
  intro h
  have := h ⟨0, 0, 1, 1, [0]⟩ ⟨1, 0, 2, 2, [0]⟩
  revert this
  decide

theorem compare_overloads_agree_h79_fails :
    ¬ ∀ c p : H79Cert, c.comparePh p = c.compare p := by
  intro h
  have := h ⟨0, 1⟩ ⟨1, 2⟩
  revert this
  decide

/-- … they agree whenever affine dimension and lineality coincide (extra hypotheses `h1 h2`: this is the
    case in which `BHZ03` goes on to consult the multiset ordering). -/
theorem compare_overloads_agree_partial (c p : BHRZ03Cert)
    (h1 : c.affineDim = p.affineDim) (h2 : c.linSpaceDim = p.linSpaceDim) :
    c.comparePh p = c.compare p :=
  BHRZ03Cert.comparePh_eq_compare_of_same_dims c p h1 h2

theorem compare_overloads_agree_h79_partial (c p : H79Cert) (h1 : c.affineDim = p.affineDim) :
    c.comparePh p = c.compare p :=
  H79Cert.comparePh_eq_compare_of_same_dims c p h1

example : (⟨1, 0, 2, 2, [0]⟩ : BHRZ03Cert).comparePh ⟨1, 0, 2, 2, [1]⟩ = .lt := by decide

/-- The Grid certificate has a single order: `compare(gr)` *is* `compare(Grid_Certificate(gr))`. -/
theorem grid_overloads_agree (c p : GridCert) : c.comparePh p = c.compare p := rfl

/-! ### certificate multisets -/

/-- **`is_cert_multiset_stabilizing` is well-founded** for each of the three certificate kinds (the lists
    are the certificates of the disjuncts of the two powersets). -/
theorem multiset_wf (n : Nat) :
    WellFounded (fun X Y : List H79Cert => isCertMultisetStabilizing H79Cert.compare X Y = true) ∧
    WellFounded (fun X Y : List GridCert => isCertMultisetStabilizing GridCert.compare X Y = true) ∧
    WellFounded (fun X Y : List (BHRZ03CertN n) =>
      isCertMultisetStabilizing BHRZ03CertN.compare X Y = true) :=
  ⟨isCertMultisetStabilizing_wf h79_lawful h79_compare_wf,
   isCertMultisetStabilizing_wf grid_lawful grid_compare_wf,
   isCertMultisetStabilizing_wf (bhrz03_lawful n) (bhrz03N_compare_wf n)⟩

/-- **The order of `BHZ03_widening_assign` is well-founded**: hull certificate through `compare(ph)`,
    then "singleton below non-singleton", then the multiset through `compare(cert)` — although the two
    overloads order affine dimension in opposite directions (each is well-founded on its own). -/
theorem bhz03_order_wf (n : Nat) :
    WellFounded (Bhz03Less (H79Cert.LessPh n) H79Cert.compare) ∧
    WellFounded (Bhz03Less (fun new old : GridCert => old.comparePh new = .gt) GridCert.compare) ∧
    WellFounded (Bhz03Less (fun a b : BHRZ03CertN n => BHRZ03Cert.LessPh n a.1 b.1) BHRZ03CertN.compare) :=
  ⟨bhz03Less_wf (h79_comparePh_wf n) h79_lawful h79_compare_wf,
   bhz03Less_wf grid_comparePh_wf grid_lawful grid_compare_wf,
   bhz03Less_wf (InvImage.wf Subtype.val (bhrz03_comparePh_wf n)) (bhrz03_lawful n) (bhrz03N_compare_wf n)⟩

/-- … and it implies the Dershowitz–Manna order of the multisets of certificates. -/
theorem multiset_stabilizing_is_dershowitz_manna {α : Type} {cmp : α → α → Ordering}
    (h : LawfulCmp cmp) (X Y : List α) (hs : isCertMultisetStabilizing cmp X Y = true) :
    @Multiset.IsDershowitzMannaLT α h.preorder (X : Multiset α) (Y : Multiset α) := by
  obtain ⟨dX, mX⟩ := collect_spec h X
  obtain ⟨dY, mY⟩ := collect_spec h Y
  have := msStabilizing_dm h _ _ dX dY hs
  rwa [mX, mY] at this

/-- non-vacuity: `{(2,3), (1,7), (1,7)}` is below `{(2,4)}`, and `{(2,4)}` is not below itself -/
example : isCertMultisetStabilizing H79Cert.compare [⟨1, 7⟩, ⟨2, 3⟩, ⟨1, 7⟩] [⟨2, 4⟩] = true := by decide
example : isCertMultisetStabilizing H79Cert.compare [⟨2, 4⟩] [⟨2, 4⟩] = false := by decide
example : collectCertificates H79Cert.compare [⟨1, 7⟩, ⟨2, 3⟩, ⟨1, 7⟩] = [(⟨2, 3⟩, 1), (⟨1, 7⟩, 2)] := by decide

/-! ### convergence -/

/-- **The abstract convergence theorem** (Appendix B).  `w x y` is `x.widening_assign(y)`, `x` the larger
    argument; `ub` is any upper-bound operator used to form the next larger argument.  If the widening
    returns a superset of its larger argument (`sup`) and every non-stationary application strictly
    decreases a certificate (`dec`) that is well defined on values (`hval`) in a well-founded order, then
    along *every* chain the widened sequence is eventually stationary. -/
theorem converges {D Pt C : Type} (γ : D → Set Pt) (w : D → D → D) (ub : D → D → D) (cert : D → C)
    (r : C → C → Prop) (wf : WellFounded r)
    (hub : ∀ a b, γ a ⊆ γ (ub a b) ∧ γ b ⊆ γ (ub a b))
    (_sup : ∀ x y, γ y ⊆ γ x → γ x ⊆ γ (w x y))
    (hval : ∀ a b, γ a = γ b → cert a = cert b)
    (dec : ∀ x y, γ y ⊆ γ x → γ (w x y) ≠ γ y → r (cert (w x y)) (cert y))
    (chain : Nat → D) (_asc : ∀ i, γ (chain i) ⊆ γ (chain (i + 1))) :
    ∃ N, ∀ i ≥ N, γ (iterW ub w chain (i + 1)) = γ (iterW ub w chain i) := by
  obtain ⟨N, hN⟩ := converges_adversary γ w cert r wf hval dec (chain 0)
    (fun i x => ub x (chain (i + 1))) (fun i x => (hub x _).1)
  refine ⟨N, fun i hi => ?_⟩
  rw [iterW_eq_advSeq, iterW_eq_advSeq]
  exact hN i hi

/-- the limit is above the whole chain -/
theorem converges_covers {D Pt : Type} (γ : D → Set Pt) (w : D → D → D) (ub : D → D → D)
    (hub : ∀ a b, γ a ⊆ γ (ub a b) ∧ γ b ⊆ γ (ub a b))
    (sup : ∀ x y, γ y ⊆ γ x → γ x ⊆ γ (w x y)) (chain : Nat → D) (i : Nat) :
    γ (chain i) ⊆ γ (iterW ub w chain i) := iterW_covers γ ub w hub sup chain i

/-- the same against an arbitrary adversary supplying the larger arguments -/
theorem converges_adversary {D Pt C : Type} (γ : D → Set Pt) (w : D → D → D) (cert : D → C)
    (r : C → C → Prop) (wf : WellFounded r)
    (hval : ∀ a b, γ a = γ b → cert a = cert b)
    (dec : ∀ x y, γ y ⊆ γ x → γ (w x y) ≠ γ y → r (cert (w x y)) (cert y))
    (x0 : D) (z : Nat → D → D) (hz : ∀ i x, γ x ⊆ γ (z i x)) :
    ∃ N, ∀ i ≥ N, γ (advSeq w x0 z (i + 1)) = γ (advSeq w x0 z i) :=
  PPLV.Widen.converges_adversary γ w cert r wf hval dec x0 z hz

/-- **The hypothesis `hval` cannot be dropped** (the statement of Appendix B as first written is false):
    there is a sound operator, decreasing a ℕ-valued certificate at every non-stationary application,
    and an environment against which the widened sequence never becomes stationary — the operator
    re-represents a stationary value with a larger certificate.  This is exactly what a certificate that
    is *not* a function of the point set permits (cf. KF-C08-5). -/
theorem converges_without_cert_on_values_fails :
    ¬ (∀ (γ : Nat × Nat → Set Nat) (w : Nat × Nat → Nat × Nat → Nat × Nat) (cert : Nat × Nat → Nat)
        (x0 : Nat × Nat) (z : Nat → Nat × Nat → Nat × Nat),
        (∀ x y, γ y ⊆ γ x → γ x ⊆ γ (w x y)) →
        (∀ x y, γ y ⊆ γ x → γ (w x y) ≠ γ y → cert (w x y) < cert y) →
        (∀ i x, γ x ⊆ γ (z i x)) →
        ∃ N, ∀ i ≥ N, γ (advSeq w x0 z (i + 1)) = γ (advSeq w x0 z i)) := by
  intro h
  obtain ⟨h1, h2, h3, h4⟩ := converges_needs_hval
  exact h4 (h cexγ cexW cexCert (0, 1) cexZ h1 h2 h3)

/-- non-vacuity: the hypotheses are jointly satisfiable — the two-point domain `∅ ⊂ univ` with the
    identity widening and the certificate `1, 0`, along the chain `∅, ∅, ∅, univ, univ, …` -/
example : ∃ N, ∀ i ≥ N,
    (fun b : Bool => ({_k | b = true} : Set Unit)) (iterW or (fun x _ => x) (fun i => decide (3 ≤ i)) (i + 1)) =
    (fun b : Bool => ({_k | b = true} : Set Unit)) (iterW or (fun x _ => x) (fun i => decide (3 ≤ i)) i) := by
  refine converges (fun b : Bool => ({_k | b = true} : Set Unit)) (fun x _ => x) or
    (fun b => if b then 0 else 1) (· < ·) Nat.lt_wfRel.wf ?_ ?_ ?_ ?_ _ ?_
  · intro a b; cases a <;> cases b <;> simp
  · intro x y _; exact subset_rfl
  · intro a b; cases a <;> cases b <;> simp [eq_comm (a := (∅ : Set Unit))]
  · intro x y; cases x <;> cases y <;> simp
  · intro i
    by_cases h : 3 ≤ i
    · simp [h, Nat.le_succ_of_le h]
    · simp [h]

/-! ### the interval widening, outright -/

/-- `Interval::CC76_widening_assign(y, first, last)` returns a superset of `*this`, for every list of
    stop points and every `y` -/
theorem cc76_interval_sup (stops : List Rat) (x y : Itv) (q : Rat) (h : x.mem q) :
    (x.cc76 stops y).mem q := cc76_sup stops x y q h

/-- **`CC76` on intervals converges with no certificate hypothesis**: for every finite list of stop
    points and every sequence of intervals starting from a non-empty one,
    `xᵢ₊₁ = (xᵢ ⊔ cᵢ₊₁).CC76_widening_assign(xᵢ)` (with the box-level guard for an empty `y`) is
    eventually stationary. -/
theorem cc76_interval_converges (stops : List Rat) (chain : Nat → Itv) (h0 : (chain 0).isEmpty = false) :
    ∃ N, ∀ i ≥ N, ∀ q, (iterW Itv.join (Itv.widen stops) chain (i + 1)).mem q ↔
      (iterW Itv.join (Itv.widen stops) chain i).mem q :=
  cc76_converges_chain stops chain h0

/-- the adversary form: any supplier of larger arguments that respects `contains(y)` on the boundaries -/
theorem cc76_interval_converges_adversary (stops : List Rat) (x0 : Itv) (z : Nat → Itv → Itv)
    (hz : ∀ (i : Nat) (x : Itv), x.LE (z i x)) :
    ∃ N, ∀ i ≥ N, ∀ q, (advSeq (Itv.cc76 stops) x0 z (i + 1)).mem q ↔
      (advSeq (Itv.cc76 stops) x0 z i).mem q :=
  cc76_converges_adv stops x0 z hz

/-- non-vacuity / the code's behaviour on concrete data: `[0, 3/2] ∇ [0, 1]` with the default stop points
    is `[0, 2]`; `[−5/2, 1] ∇ [−1, 1]` is `(−∞, 1]`; `[−3/2, 1] ∇ [−1, 1]` is `[−2, 1]`. -/
example : (Itv.cc76 defaultStops ⟨some 0, false, some (3/2), false⟩ ⟨some 0, false, some 1, false⟩)
    = ⟨some 0, false, some 2, false⟩ := by decide +kernel
example : (Itv.cc76 defaultStops ⟨some (-5/2), false, some 1, false⟩ ⟨some (-1), false, some 1, false⟩)
    = ⟨none, false, some 1, false⟩ := by decide +kernel
example : (Itv.cc76 defaultStops ⟨some (-3/2), false, some 1, false⟩ ⟨some (-1), false, some 1, false⟩)
    = ⟨some (-2), false, some 1, false⟩ := by decide +kernel

/-! ### tokens -/

/-- **Token protocol**: with a token available the object is left unchanged and the token is consumed
    exactly when the plain widening would lose precision (`γ (w x y) ≠ γ x`); otherwise the result is (as a
    set) the plain widening and the count is unchanged. -/
theorem token_spec {D Pt : Type} (γ : D → Set Pt) (contains : D → D → Bool) (w : D → D → D)
    (hc : ∀ a b, contains a b = true ↔ γ b ⊆ γ a)
    (sup : ∀ x y, γ y ⊆ γ x → γ x ⊆ γ (w x y))
    (x y : D) (hyx : γ y ⊆ γ x) (tp : Nat) :
    let r := widenTok contains w x y tp
    (0 < tp ∧ γ (w x y) ≠ γ x → r = (x, tp - 1)) ∧
    (¬ (0 < tp ∧ γ (w x y) ≠ γ x) → γ r.1 = γ (w x y) ∧ r.2 = tp) :=
  widenTok_sets γ contains w hc sup x y hyx tp

example : widenTok (fun a b : Nat => decide (b ≤ a)) (fun x _ => x + 1) 3 2 2 = (3, 1) := by decide
example : widenTok (fun a b : Nat => decide (b ≤ a)) (fun x _ => x) 3 2 2 = (3, 2) := by decide
example : widenTok (fun a b : Nat => decide (b ≤ a)) (fun x _ => x + 1) 3 2 0 = (4, 0) := by decide

/-! ### limited and bounded extrapolation -/

/-- **Limited extrapolation** is between the larger argument and the plain widening, and satisfies every
    supplied constraint that the larger argument satisfies — for every `refine` that removes only points
    violating a constraint it was given, and for the constraints that `refine` enforces (hypothesis of the
    third part: for PPL's polyhedra all of them; for boxes / BD shapes / octagons those the domain can
    express — the others are documented as ignored). -/
theorem limited_between {D Pt K : Type} (γ : D → Set Pt) (csat : K → Pt → Prop)
    (sat : D → K → Bool) (refine : D → List K → D) (w : D → D → D)
    (sat_iff : ∀ a c, sat a c = true ↔ ∀ p ∈ γ a, csat c p)
    (refine_sub : ∀ a l, γ (refine a l) ⊆ γ a)
    (refine_keeps : ∀ a l p, p ∈ γ a → (∀ c ∈ l, csat c p) → p ∈ γ (refine a l))
    (sup : ∀ x y, γ y ⊆ γ x → γ x ⊆ γ (w x y))
    (x y : D) (hyx : γ y ⊆ γ x) (cs : List K) :
    γ x ⊆ γ (limited sat refine w x y cs) ∧
    γ (limited sat refine w x y cs) ⊆ γ (w x y) ∧
    (∀ c ∈ cs, (∀ p ∈ γ x, csat c p) →
      (∀ a l, c ∈ l → ∀ p ∈ γ (refine a l), csat c p) →
      ∀ p ∈ γ (limited sat refine w x y cs), csat c p) :=
  limited_spec γ csat sat refine w sat_iff refine_sub refine_keeps sup x y hyx cs

theorem bounded_between {D Pt K : Type} (γ : D → Set Pt) (csat : K → Pt → Prop)
    (sat : D → K → Bool) (refine : D → List K → D) (w : D → D → D) (boxCons : D → D → List K)
    (sat_iff : ∀ a c, sat a c = true ↔ ∀ p ∈ γ a, csat c p)
    (refine_sub : ∀ a l, γ (refine a l) ⊆ γ a)
    (refine_keeps : ∀ a l p, p ∈ γ a → (∀ c ∈ l, csat c p) → p ∈ γ (refine a l))
    (sup : ∀ x y, γ y ⊆ γ x → γ x ⊆ γ (w x y))
    (box_sound : ∀ x y, γ y ⊆ γ x → ∀ c ∈ boxCons x y, ∀ p ∈ γ x, csat c p)
    (x y : D) (hyx : γ y ⊆ γ x) (cs : List K) :
    γ x ⊆ γ (bounded sat refine w boxCons x y cs) ∧
    γ (bounded sat refine w boxCons x y cs) ⊆ γ (w x y) ∧
    (∀ c ∈ cs, (∀ p ∈ γ x, csat c p) →
      (∀ a l, c ∈ l → ∀ p ∈ γ (refine a l), csat c p) →
      ∀ p ∈ γ (bounded sat refine w boxCons x y cs), csat c p) :=
  bounded_spec γ csat sat refine w boxCons sat_iff refine_sub refine_keeps sup box_sound x y hyx cs

/-- non-vacuity on the domain of upper bounds `{k | k ≤ a}` over ℕ with constraints `k ≤ c`:
    widening `3 ∇ 2` to `10`, limited by `[5, 2]`, keeps `≤ 5` (satisfied by `3`) and drops `≤ 2`. -/
example : limited (fun a c : Nat => decide (a ≤ c)) (fun a l => l.foldl min a) (fun _ _ => 10) 3 2 [5, 2] = 5 := by
  decide

end C08
