import PPLV.COTree.RebSpec

/-!
# C16 stage 2 — the rebalancing machinery of `CO_Tree` (placeholder: filled in below as the
component proofs arrive)
-/
namespace C16
open PPLV.COTree

/-- slots `_ 10 _ 20 _ 30 _` of a 7-slot tree, keys 10, 20, 30 -/
def exTree : Tree := ⟨7, 3, 3, #[sentinel, none, some (10, 1), none, some (20, 2), none, some (30, 3), none, sentinel]⟩

example : exTree.okB = true := by decide
example : (insert exTree 25 5).map (fun r => r.1.toList) = some [(10, 1), (20, 2), (25, 5), (30, 3)] := by decide

end C16
