import PPLV.COTree.ProofsRebCompact
import PPLV.COTree.ProofsRebRedist
import PPLV.COTree.ProofsRebWalk
import PPLV.COTree.ProofsRebRoot
import PPLV.COTree.ProofsRebFill
import PPLV.COTree.ProofsRebBigger
import PPLV.COTree.ProofsRebSearch
import PPLV.COTree.ProofsRebSink
import PPLV.COTree.ProofsRebFinal
import PPLV.COTree.ProofsRebIns2
import PPLV.COTree.ProofsRebEraTop
import PPLV.COTree.ProofsRebBridge
import PPLV.COTree.ProofsBisect

/-!
# C16 stage 2 — the rebalancing machinery of `CO_Tree` keeps the tree an ordered map

Model: `PPLV/COTree/Rebalance.lean` — code-shaped transliteration of `src/CO_Tree.cc`
(`rebalance`, `compact_elements_in_the_rightmost_end`, `redistribute_elements_in_subtree`,
`rebuild_bigger_tree`, `move_data_from`, `insert_precise(_aux)`, `erase`, `go_down_searching_key`),
`CO_Tree_inlines.hh` (`tree_iterator`, `rebuild_smaller_tree`, `insert`, `erase(key)`) and
`CO_Tree_templates.hh` (`CO_Tree(Iterator, n)`) over the real layout: `indexes[0 .. reserved_size+1]`
with `unused_index` holes and the two markers, slot `i` = node of the complete binary tree in
in-order numbering, `offset = i & -i`.

The statements (`CompactSpec`, `RedistSpec`, … — each a closed `Prop` quantified over ALL trees,
sizes, keys) are spelled out in `PPLV/COTree/RebSpec.lean`; the theorems here say they hold.
Every loop of the C++ text is a recursion on its own counter or on explicit fuel with `none` on
exhaustion; all results below have the form `… = some …`, i.e. TERMINATION within the fuel
(`2·n` stack steps for `redistribute`, `6·n+1` for the two filling loops, `max_depth` for the
descents and the sinking hole, the depth of the start node for the walk of `rebalance`) is part
of each theorem.
-/
namespace C16
open PPLV.COTree PPLV.COTree.Tree

/-! ## 1. compaction and redistribution keep the sequence and touch nothing outside -/

/-- **`compact_elements_in_the_rightmost_end`** (CO_Tree.cc:973) on any slot segment `F … L`
holding `n` elements (the new pair included when `add`): afterwards the used slots are the block
`(fu, L]`, they list the same pairs in the same order with the new pair merged at its sorted
position — or, when the code's `last == first_unused` shortcut leaves it to `redistribute`, the
old pairs only and `fu = L - (n-1)`; the slots `F … fu` are free; no slot outside `F … L` and no
field is written. -/
theorem compact_preserves : CompactSpec := compactSpec

/-- **`redistribute_elements_in_subtree`** (CO_Tree.cc:1062) on the subtree rooted at `i`
(`offset o`), fed with the compacted block `[u, L]` and — when `pend` — the new pair: the stack
loop ends within `2·n` steps with `add_element == false`, the subtree lists exactly the block with
the pair at its sorted position, laid out by the half/half rule (`Balanced`), and no slot outside
the subtree and no field is written. -/
theorem redistribute_preserves : RedistSpec := redistSpec

/-- **half/half split**: in a subtree redistributed with `n ≠ 0` elements the root is used, the
left subtree holds `(n+1)/2 - 1` and the right one `n - (n+1)/2` elements (the code's
`half = (top_n + 1) / 2`): the two counts differ by at most one and add up to `n` with the root. -/
theorem redistribute_balanced {t : Tree} {h i n : Nat} (hb : t.Balanced (h + 2) i n) (hn : n ≠ 0)
    (hi : 2 ^ (h + 1) ≤ i) :
    t.countRange (i - (2 ^ (h + 1) - 1)) i = (n + 1) / 2 - 1 ∧
    t.countRange (i + 1) (i + 2 ^ (h + 1)) = n - (n + 1) / 2 ∧
    t.countRange (i - (2 ^ (h + 1) - 1)) i ≤ t.countRange (i + 1) (i + 2 ^ (h + 1)) ∧
    t.countRange (i + 1) (i + 2 ^ (h + 1)) ≤ t.countRange (i - (2 ^ (h + 1) - 1)) i + 1 ∧
    t.countRange (i - (2 ^ (h + 1) - 1)) i + 1 + t.countRange (i + 1) (i + 2 ^ (h + 1)) = n :=
  balanced_sibling_diff hb hn hi

/-- a `Balanced` subtree holds exactly its `n` elements -/
theorem balanced_count {t : Tree} {h i n : Nat} (hb : t.Balanced (h + 1) i n) (hi : 2 ^ h ≤ i) :
    t.countRange (i - (2 ^ h - 1)) (i + 2 ^ h) = n := Tree.Balanced.count hb hi

/-- what the split guarantees one level down: `n` elements fit the `2^(h+1) - 1` slots of a
subtree ⇒ each child's share fits its `2^h - 1` slots (so the recursion never reaches a leaf
with two elements), and a subtree at most `pct` % full (`pct ≤ 100`) has children whose element
count exceeds `pct` % of their slots by less than one element. -/
theorem redistribute_fits (n h pct : Nat) (hfit : n ≤ 2 ^ (h + 1) - 1) :
    (n + 1) / 2 - 1 ≤ 2 ^ h - 1 ∧ n - (n + 1) / 2 ≤ 2 ^ h - 1 ∧
    (pct ≤ 100 → 100 * n ≤ pct * (2 ^ (h + 1) - 1) →
      100 * ((n + 1) / 2 - 1) ≤ pct * (2 ^ h - 1) ∧ 100 * (n - (n + 1) / 2) ≤ pct * (2 ^ h - 1) + 100) := by
  have hp : 2 ^ (h + 1) = 2 * 2 ^ h := by rw [Nat.pow_succ]; omega
  have h1 : 1 ≤ 2 ^ h := Nat.one_le_two_pow
  rw [hp] at hfit
  refine ⟨by omega, by omega, fun hpct hd => ?_⟩
  rw [hp] at hd
  generalize 2 ^ h = P at *
  have e1 : pct * (2 * P - 1) = 2 * (pct * P) - pct := by
    rw [Nat.mul_sub, Nat.mul_one, ← Nat.mul_assoc, Nat.mul_comm pct 2, Nat.mul_assoc]
  have e2 : pct * (P - 1) = pct * P - pct := by rw [Nat.mul_sub, Nat.mul_one]
  have h3 : pct ≤ pct * P := Nat.le_mul_of_pos_right _ h1
  rw [e1] at hd; rw [e2]
  constructor <;> omega

/-- a whole tree in the half/half layout is up-closed (an unused node roots an empty subtree) -/
theorem balanced_up_closed : BalancedUpClosedSpec := balancedUpClosedSpec

/-! ## 2. the walk of `rebalance` and its thresholds -/

/-- the `while` condition of `rebalance` (CO_Tree.cc:906), with the integer percent arithmetic
of the code: at `itr_depth_minus_1 = d` in a tree of `max_depth = md` the subtree with `n` elements
in `R` slots is rebalanced one level higher iff `100·n > (91 + d·9/(md-1))·R` or
`100·n < (38 - d·37/(md-1))·R` (`/` = integer division). -/
theorem rebalance_thresholds (md n R d : Nat) :
    rebalanceCond md n R d = true ↔
      ((91 + d * 9 / (md - 1)) * R < 100 * n ∨ 100 * n < (38 - d * 37 / (md - 1)) * R) := by
  unfold rebalanceCond isGreaterThanRatio isLessThanRatio maxDensityPercent minDensityPercent
    minLeafDensityPercent
  rw [Bool.or_eq_true, decide_eq_true_eq, decide_eq_true_eq]

/-- **the walk terminates at the latest at the root**: started at a node all of whose proper
ancestors are used, in a tree whose root is within the depth-1 thresholds (38 % … 91 %), the loop
never asks for the parent of the root; it stops at the FIRST ancestor-or-self `(j, oj)` whose
density is within the thresholds of its depth, with `n` = elements of that subtree + `extra`
(1 for an insertion), and `1 ≤ n ≤ 2·oj - 1` (what `compact`/`redistribute` need). -/
theorem rebalance_walk : WalkSpecA := walkSpecA

/-- the hypothesis "the proper ancestors are used" cannot be dropped: `++subtree_size` counts the
parent slot unconditionally (the C++ only asserts `itr.index() != unused_index`), and on an array
that satisfies everything `OK()` tests but has an unused inner node the loop walks above the root.
(`OK()` does not test up-closedness; `Inv.upClosed` is the invariant that excludes it.) -/
theorem rebalance_walk_needs_used_ancestors : ¬ WalkSpec := walkSpec_false

/-- the root IS within its thresholds whenever `rebalance` is reached: after the density test of
`insert_precise_aux` (with or without `rebuild_bigger_tree`) and of `erase` (with or without
`rebuild_smaller_tree`), for trees of at least 7 slots (3-slot trees return at once). -/
theorem root_within_thresholds (md size rs : Nat) :
    (7 ≤ rs → densityOK size rs = true → insertRebuilds size rs = false →
      rebalanceCond md (size + 1) rs 0 = false) ∧
    (3 ≤ rs → size ≤ rs → insertRebuilds size rs = true →
      rebalanceCond md (size + 1) (2 * rs + 1) 0 = false) ∧
    (7 ≤ rs → 2 ≤ size → densityOK size rs = true → eraseRebuilds size rs = false →
      rebalanceCond md (size - 1) rs 0 = false) ∧
    (15 ≤ rs → 2 ≤ size → densityOK size rs = true → eraseRebuilds size rs = true →
      rebalanceCond md (size - 1) (rs / 2) 0 = false) :=
  ⟨root_ok_insert md size rs, root_ok_insert_grown md size rs, root_ok_erase md size rs,
   root_ok_erase_shrunk md size rs⟩

/-! ## 3. `rebalance`, the descents, `insert`, `erase` -/

/-- **`go_down_searching_key`** (CO_Tree.cc:1441) is a correct descent on the in-order layout
with holes, from any used node whose subtree brackets the key. -/
theorem go_down_spec : GoDownSpec := goDownSpec

/-- **`rebalance(itr, key, value)` for an insertion** at a used leaf next to which `key` belongs:
terminates, keeps shape / order / up-closedness, lists `SMap.set toList key value`, returns the
root of the redistributed subtree, which contains the new pair, is `Balanced`, and outside of
which nothing changed. -/
theorem rebalance_spec : RebalanceInsertSpec := rebalanceInsertSpec

/-- **`rebalance(itr, 0, 0)` after a deletion** at the freed slot: same, contents unchanged. -/
theorem rebalance_erase_spec : RebalanceEraseSpec := rebalanceEraseSpec

/-- **the sinking hole of `erase`** (CO_Tree.cc:551): within `max_depth` steps the freed slot
reaches a node without used children; freeing it removes exactly the erased pair. -/
theorem erase_sink_spec : EraseSinkSpec := eraseSinkSpec

/-- **`CO_Tree::insert(key, data)` refines `SMap.set`** on the full tree: for every tree that
satisfies the invariant `Inv` (shape, `size_`, strictly increasing keys, up-closed, density
clauses of `OK()`) and for the empty tree, every loop terminates, the result satisfies `Inv`,
its in-order listing is `SMap.set (toList t) key value`, the returned iterator is on the pair, and
`(size_, reserved_size)` follow stage 1's `afterInsert` (so `rebuild_bigger_tree` runs exactly when
`is_greater_than_ratio(size_+1, reserved_size, 91)`). -/
theorem insert_refines : InsertSpec := insertSpec_of redistSpec biggerSpec goDownSpec

/-- **`CO_Tree::erase(key)` refines `SMap.erase`**: same for erasure; the returned iterator is on
the successor of `key` (`SMap.next`), `rebuild_smaller_tree` runs exactly when stage 1's
`eraseRebuilds` says so, erasing the only element gives the empty tree. -/
theorem erase_spec : EraseSpec := eraseSpec_of goDownSpec eraseSinkSpec rebalanceEraseSpec smallerSpec

/-- map semantics through the laws of stage 1 (`C16.smap_laws`): reading after `insert` / `erase`
of the full tree -/
theorem insert_erase_get (t : Tree) (hinv : t.Inv) (hne : 1 ≤ t.size) (key : Nat) (value : Int) :
    (∃ t' it, insert t key value = some (t', it) ∧ t'.Inv ∧
      ∀ j, SMap.get t'.toList j = if j = key then value else SMap.get t.toList j) ∧
    (∃ t' r, erase t key = some (t', r) ∧
      ∀ j, SMap.get t'.toList j = if j = key then 0 else SMap.get t.toList j) := by
  obtain ⟨t', it, h1, h2, h3, _⟩ := insert_refines.2 t key value hinv hne
  obtain ⟨t'', r, e1, _, e3, _⟩ := erase_spec t key hinv hne
  exact ⟨⟨t', it, h1, h2, fun j => by rw [h3, SMap.get_set]⟩,
         ⟨t'', r, e1, fun j => by rw [e3, SMap.get_erase]⟩⟩

/-! ## 4. rebuilds and the bulk constructor -/

/-- **`rebuild_bigger_tree`** (CO_Tree.cc:830): slot `p` moves to slot `2p`, the new leaves are
free; contents, `size_`, up-closedness kept; `reserved_size' = 2·reserved_size + 1`. -/
theorem rebuild_bigger_keeps : BiggerSpec := biggerSpec

/-- **`rebuild_smaller_tree`** (`init(reserved_size/2)` + `move_data_from`, CO_Tree.cc:1157): the
stack loop ends within `6·n+1` steps; same contents, half the slots, half/half layout. -/
theorem rebuild_smaller_keeps : SmallerSpec := smallerSpec

/-- **`CO_Tree(Iterator, n)`** (CO_Tree_templates.hh:30) -/
theorem bulk_spec : BulkSpec := bulkSpec

/-- the bulk constructor on a strictly increasing non-empty sequence yields a tree that
satisfies the full invariant and lists exactly that sequence -/
theorem bulk_valid (l : List (Nat × Int)) (hs : SMap.Sorted l) (hne : l ≠ []) :
    ∃ t, bulk l = some t ∧ t.Inv ∧ t.toList = l ∧ t.rs = bulkRs l.length := by
  obtain ⟨t, h1, h2, h3, h4, h5, h6, h7⟩ := bulkSpec l hne
  refine ⟨t, h1, ⟨h2, by rw [h6, h4], by rw [h5]; exact hs, balancedUpClosedSpec t _ h2 h7, ?_⟩, h5, h3⟩
  rw [h4, h3]; exact (bulk_density_ok l.length).1

/-! ## 5. connection with stage 1 (`bisect*` on the real array) -/

/-- the `indexes[]` array of a tree with increasing keys satisfies the hypothesis of
`C16.bisect_in_spec` / `bisect_near_spec` / `bisect_spec`, and its keys are those of the map -/
theorem inv_bisect_ready (t : Tree) (hinv : t.Inv) :
    t.toHoleArray.SortedUsed ∧ (∀ k, t.toHoleArray.has k ↔ SMap.stored t.toList k = true) ∧
    t.toHoleArray.usedKeys = SMap.keys t.toList :=
  ⟨sortedUsed_of_sorted t hinv.sorted, has_iff_stored t, usedKeys_eq_keys t⟩

/-- `bisect_near` on the array of any valid tree, from any used slot (stage 1 theorem applied to
the full tree) -/
theorem bisect_near_on_tree (t : Tree) (hinv : t.Inv) (hint : Nat) (hv : t.toHoleArray.used hint) (key : Nat) :
    let p := t.toHoleArray.bisectNear hint key
    t.toHoleArray.used p ∧ (SMap.stored t.toList key = true → t.toHoleArray.key p = key) :=
  let h := HoleArray.bisectNear_spec t.toHoleArray (sortedUsed_of_sorted t hinv.sorted) hv key
  ⟨h.1, fun hs => h.2.1 ((has_iff_stored t key).mpr hs)⟩

/-! ## non-vacuity: concrete instances -/

/-- the tree the bulk constructor builds from `1 ↦ 5, 4 ↦ -2, 9 ↦ 0` -/
def exList : List (Nat × Int) := [(1, 5), (4, -2), (9, 0)]
example : SMap.Sorted exList := (SMap.sortedB_iff _).mp (by decide)
/-- hypotheses of `insert_refines` / `erase_spec` / `insert_erase_get` / `inv_bisect_ready` are satisfiable -/
example : ∃ t, bulk exList = some t ∧ t.Inv ∧ 1 ≤ t.size := by
  obtain ⟨t, h1, h2, h3, _⟩ := bulk_valid exList ((SMap.sortedB_iff _).mp (by decide)) (by decide)
  have : t.countRange 1 (t.rs + 1) = 3 := by
    obtain ⟨t', e1, _, _, _, _, e6, _⟩ := bulkSpec exList (by decide)
    rw [h1] at e1; cases e1; exact e6
  exact ⟨t, h1, h2, by rw [← h2.count, this]; omega⟩

/-- 7 slots `_ 10 _ 20 _ 30 _` -/
def exTree : Tree := ⟨7, 3, 3, #[sentinel, none, some (10, 1), none, some (20, 2), none, some (30, 3), none, sentinel]⟩
example : exTree.okB = true := by decide
-- non-leaf hint: the pair goes to the free child
example : (insert exTree 25 5).map (fun r => (r.1.toList, r.2.i)) = some ([(10, 1), (20, 2), (25, 5), (30, 3)], 5) := by decide
-- compaction of the whole tree with a new pair (15 ↦ 7), then redistribution of the 4 elements
example : (compactElementsInTheRightmostEnd exTree 7 4 15 7 true).2 = 3 ∧
    (compactElementsInTheRightmostEnd exTree 7 4 15 7 true).1.listRange 4 8 = [(10, 1), (15, 7), (20, 2), (30, 3)] := by decide
example : ((redistributeElementsInSubtree (compactElementsInTheRightmostEnd exTree 7 4 15 7 true).1 4 4 4 15 7 false).map
    (fun s => s.t.cells)) =
    some #[sentinel, none, some (10, 1), none, some (15, 7), none, some (20, 2), some (30, 3), sentinel] := by decide
-- the thresholds: depth-1 = 2 of a tree of max_depth 3: 91 + 2*9/2 = 100 %, 38 - 2*37/2 = 1 %
example : rebalanceCond 3 2 1 2 = true ∧ rebalanceCond 3 2 3 1 = false := by decide
-- growth 7 → 15 slots at the 7th element, shrink on erase
example : (bulk [(1, 1), (2, 2), (3, 3), (4, 4), (5, 5), (6, 6)]).bind (fun t => (insert t 7 7).map (fun r => (r.1.rs, r.1.size))) = some (15, 7) := by decide
example : (erase exTree 20).map (fun r => (r.1.rs, r.1.toList, r.2)) = some (3, [(10, 1), (30, 3)], some 30) := by decide

end C16
