import PPLV.COTree.ProofsBisect
import PPLV.COTree.ProofsLC
import PPLV.COTree.ProofsDensity

/-!
# C16 — sparse and dense rows are interchangeable; the sparse tree is a correct map

Models: `PPLV/COTree/Model.lean` (`SMap`, `HoleArray`, `bisectIn`, `bisectNear`, density
arithmetic, `RowOp`/`RowQuery` with a sparse and a dense implementation).
Everything here is for rows / arrays / histories of any size (induction, no bound).
-/
namespace C16
open PPLV.COTree PPLV.COTree.SMap

/-! ## the sparse row is an ordered map, unstored entries read `0` -/

/-- **Map laws.**  On a map with strictly increasing keys: reading after `insert`, `reset`,
`insert(i)` (a stored zero), both index shifts, `swap_coefficients`, `reset_after`, range reset;
which entries are stored; what `lower_bound` returns; all of them keep the keys increasing. -/
theorem smap_laws (m : SMap) (hs : m.Sorted) :
    (∀ i v j, (m.set i v).get j = if j = i then v else m.get j) ∧
    (∀ i v, (m.set i v).find? i = some v) ∧
    (∀ i j, (m.erase i).get j = if j = i then 0 else m.get j) ∧
    (∀ i, (m.erase i).find? i = none) ∧
    (∀ i j, (m.touch i).get j = m.get j) ∧ (∀ i, (m.touch i).stored i = true) ∧
    (∀ i n j, (m.shiftUp i n).get j
        = if j < i then m.get j else if j < i + n then 0 else m.get (j - n)) ∧
    (∀ i j, (m.deleteShift i).get j = if j < i then m.get j else m.get (j + 1)) ∧
    (∀ i j k, (m.swap i j).get k = if k = i then m.get j else if k = j then m.get i else m.get k) ∧
    (∀ i j, (m.resetFrom i).get j = if j < i then m.get j else 0) ∧
    (∀ lo hi j, (m.resetRange lo hi).get j = if lo ≤ j ∧ j < hi then 0 else m.get j) ∧
    (∀ i n j, (m.addAt i n).get j = if j = i then m.get i + n else m.get j) ∧
    (∀ k v, (k, v) ∈ m → m.get k = v) ∧
    (∀ i, m.get i ≠ 0 → (i, m.get i) ∈ m) ∧
    (∀ i, match m.lowerBound i with
          | none => ∀ p ∈ m, p.1 < i
          | some k => i ≤ k ∧ (∃ v, (k, v) ∈ m) ∧ ∀ p ∈ m, i ≤ p.1 → k ≤ p.1) ∧
    (∀ i v, (m.set i v).Sorted) ∧ (∀ i, (m.erase i).Sorted) ∧ (∀ i, (m.touch i).Sorted) ∧
    (∀ i n, (m.shiftUp i n).Sorted) ∧ (∀ i, (m.deleteShift i).Sorted) ∧
    (∀ i j, (m.swap i j).Sorted) ∧ (∀ i, (m.resetFrom i).Sorted) ∧
    (∀ lo hi, (m.resetRange lo hi).Sorted) ∧ (∀ i n, (m.addAt i n).Sorted) :=
  ⟨get_set m, find?_set_self m, get_erase m, find?_erase_self m, get_touch m, stored_touch m,
   get_shiftUp m, get_deleteShift m, get_swap m, get_resetFrom m, get_resetRange m, get_addAt m,
   fun _ _ h => hs.get_of_mem h, mem_of_get_ne_zero m, fun i => lowerBound_spec m i hs,
   fun i v => sorted_set m i v hs, fun _ => hs.filter _, fun i => sorted_touch m i hs,
   fun i n => sorted_shiftUp m i n hs, fun i => sorted_deleteShift m i hs,
   fun i j => sorted_swap m i j hs, fun _ => hs.filter _, fun _ _ => hs.filter _,
   fun i n => sorted_addAt m i n hs⟩

example : SMap.Sorted [(1, 5), (4, -2), (9, 0)] := (sortedB_iff _).mp (by decide)
example : (SMap.deleteShift [(1, 5), (4, -2), (9, 0)] 4) = [(1, 5), (8, 0)] := by decide
example : (SMap.swap [(1, 5), (4, -2), (9, 0)] 1 2).get 2 = 5 := by decide

/-! ## `bisect_in`, `bisect_near` -/

/-- **`CO_Tree::bisect_in(first, last, key)`** on any `indexes[]` array whose used keys strictly
increase, for any two used positions `first ≤ last`: the loop terminates (the model's fuel
`last + 1 - first` suffices) and the result is a used position of `[first, last]` holding `key`,
or — when `key` is not in the range — its nearest smaller or nearest larger neighbour there. -/
theorem bisect_in_spec (a : HoleArray) (h : a.SortedUsed) (first last : Nat)
    (hf : a.used first) (hl : a.used last) (hle : first ≤ last) (key : Nat) :
    let p := a.bisectIn first last key
    a.used p ∧ first ≤ p ∧ p ≤ last ∧ (a.hasIn first last key → a.key p = key) ∧
      (¬ a.hasIn first last key → a.adjacentIn first last p key) :=
  HoleArray.bisectIn_spec a h hf hl hle key

/-- **`CO_Tree::bisect_near(hint, key)`**, any valid hint (stale or not). -/
theorem bisect_near_spec (a : HoleArray) (h : a.SortedUsed) (hint : Nat) (hv : a.used hint)
    (key : Nat) :
    let p := a.bisectNear hint key
    a.used p ∧ (a.has key → a.key p = key) ∧ (¬ a.has key → a.adjacent p key) :=
  HoleArray.bisectNear_spec a h hv key

/-- **`CO_Tree::bisect(key)`** on a non-empty tree. -/
theorem bisect_spec (a : HoleArray) (h : a.SortedUsed) (hne : ∃ p, a.used p) (key : Nat) :
    let p := a.bisect key
    a.used p ∧ (a.has key → a.key p = key) ∧ (¬ a.has key → a.adjacent p key) :=
  HoleArray.bisect_spec a h hne key

/-- indexes `_ 3 _ 8 9 _ _`: keys 3, 8, 9 at positions 2, 4, 5 -/
def exArr : HoleArray := ⟨#[none, some 3, none, some 8, some 9, none, none]⟩
example : exArr.bisectNear 2 9 = 5 := by decide
example : exArr.bisectNear 5 4 = 4 := by decide       -- 4 is absent: neighbour 8
example : exArr.bisectNear 2 10 = 5 := by decide      -- 10 is absent: neighbour 9
example : exArr.bisectIn 2 5 8 = 4 := by decide
example : exArr.usedB 2 = true ∧ exArr.usedB 5 = true ∧ exArr.usedB 3 = false := by decide

/-! ## density thresholds -/

/-- **Rebuild thresholds.**
(1) after `rebuild_bigger_tree()` the insertion precondition
    `!is_greater_than_ratio(size_+1, reserved_size, max_density_percent)` holds;
(2) an insertion of a new key keeps the density clauses of `OK()`;
(3) `erase` never asks `rebuild_smaller_tree()` for a 3-slot tree (its `reserved_size > 3`);
(4) an erasure — with or without `rebuild_smaller_tree()` — keeps the density clauses of `OK()`;
(5) the bulk constructor's tree has room for its `n` elements and satisfies them too. -/
theorem density_ok :
    (∀ size rs, 1 ≤ rs → size ≤ rs → insertRebuilds size (biggerRs rs) = false) ∧
    (∀ size rs, size ≤ rs → (size = 0 → rs = 0) → densityOK size rs = true →
        densityOK (afterInsert size rs).1 (afterInsert size rs).2 = true) ∧
    (∀ size, 2 ≤ size → eraseRebuilds size 3 = false) ∧
    (∀ size rs, 1 ≤ size → densityOK size rs = true →
        densityOK (afterErase size rs).1 (afterErase size rs).2 = true) ∧
    (∀ n, densityOK n (bulkRs n) = true ∧ n ≤ bulkRs n) :=
  ⟨bigger_ok, insert_density_ok, erase_shrink_pre, erase_density_ok, bulk_density_ok⟩

example : afterInsert 6 7 = (7, 15) := by decide
example : afterErase 3 7 = (2, 3) := by decide
example : densityOK 3 15 = false := by decide

/-! ## dense ≡ sparse -/

/-- every modelled row operation keeps the invariant of a sparse row -/
theorem rowop_wf (f : RowOp) (r : SRow) (hr : r.WF) (hp : f.pre r) : (f.sparse r).WF := by
  obtain ⟨hs, hb⟩ := hr
  cases f with
  | set i v => exact ⟨sorted_set _ _ _ hs, below_set _ hb hp⟩
  | touch i => exact ⟨sorted_touch _ _ hs, below_touch hb hp⟩
  | reset i => exact ⟨hs.filter _, hb.filter _⟩
  | resetRange lo hi => exact ⟨hs.filter _, hb.filter _⟩
  | resetFrom i => exact ⟨hs.filter _, hb.filter _⟩
  | swap i j => exact ⟨sorted_swap _ _ _ hs, below_swap hb hp.1 hp.2⟩
  | shiftUp n i => exact ⟨sorted_shiftUp _ _ _ hs, below_shiftUp _ _ hb⟩
  | deleteShift i => exact ⟨sorted_deleteShift _ _ hs, below_deleteShift _ hb hp⟩
  | resize n =>
    show SMap.Sorted (if n < r.size then r.m.resetFrom n else r.m) ∧
      SMap.Below (if n < r.size then r.m.resetFrom n else r.m) n
    split
    · exact ⟨hs.filter _, below_resetFrom _ _⟩
    · exact ⟨hs, hb.mono (by omega)⟩
  | addAt i n => exact ⟨sorted_addAt _ _ _ hs, below_addAt _ hb hp⟩
  | scaleIn c s e =>
    show SMap.Sorted (if c = 0 then r.m.resetRange s e else r.m.mapValsIn (c * ·) s e) ∧
      SMap.Below (if c = 0 then r.m.resetRange s e else r.m.mapValsIn (c * ·) s e) r.size
    split
    · exact ⟨hs.filter _, hb.filter _⟩
    · exact ⟨sorted_mapValsIn _ _ _ hs, below_mapValsIn _ _ _ hb⟩
  | negateIn s e => exact ⟨sorted_mapValsIn _ _ _ hs, below_mapValsIn _ _ _ hb⟩
  | linearCombine y c1 c2 s e =>
    exact ⟨sorted_linearCombine hs hp.1.1 c1 c2 hp.2.1, below_linearCombine hb c1 c2 hp.2.2.1⟩
  | normalize => exact ⟨sorted_normalize hs, below_normalize hb⟩
  | permute c => exact ⟨sorted_permute hs c, below_permute hb c hp⟩

/- About the hypotheses of the next theorems: `hr : r.WF` is the representation invariant of the
   type (Appendix B writes `SMap` for "sorted association list"; here the order and the bound
   `keys < size` are a predicate on plain lists so that the driver can run the same functions on
   journal data); `hp : f.pre r` is the side condition that the C++ function asserts
   (`i < size()`, `start <= end <= size()`, …).  Neither restricts sizes or values. -/

/-- **Dense ≡ sparse, row transformers.**  For every modelled operation (`insert`, `reset`,
range reset, `reset_after`, `swap_coefficients`, both index shifts, `resize`, `add_mul_assign`,
`mul_assign`/`negate` on a sub-range, `linear_combine` on a sub-range, `normalize`, permutation
cycles): running the sparse algorithm and reading the result densely is running the dense
algorithm on the dense reading. -/
theorem dense_sparse_equiv (f : RowOp) (r : SRow) (hr : r.WF) (hp : f.pre r) :
    toDense (f.sparse r) = f.dense (toDense r) := by
  obtain ⟨hs, hb⟩ := hr
  cases f with
  | set i v => exact dense_set _ _ _ _
  | touch i => exact dense_touch _ _ _
  | reset i => exact dense_erase _ _ _
  | resetRange lo hi => exact dense_resetRange _ _ _ _
  | resetFrom i => exact dense_resetFrom _ _ _
  | swap i j => exact dense_swap hb i j hp.1 hp.2
  | shiftUp n i => exact dense_shiftUp hb i n hp
  | deleteShift i => exact dense_deleteShift i hp
  | resize n => exact dense_resize hb n
  | addAt i n => exact dense_addAt hb i n
  | scaleIn c s e =>
    show toDenseN r.size (if c = 0 then r.m.resetRange s e else r.m.mapValsIn (c * ·) s e) =
      Dense.mapIn (c * ·) s e (toDenseN r.size r.m)
    split
    · rename_i hc
      subst hc
      rw [dense_resetRange]
      simp [Dense.resetRange, Dense.mapIn]
    · exact dense_mapValsIn _ (by simp) _ _ _ _
  | negateIn s e => exact dense_mapValsIn _ (by simp) _ _ _ _
  | linearCombine y c1 c2 s e => exact dense_linearCombine hs hp.1.1 hp.1.2 c1 c2 hp.2.1
  | normalize => exact dense_normalize hs hb
  | permute c => exact dense_permute hb c hp

/-- **Dense ≡ sparse, observations**: `get`, scalar product on a sub-range, equality on a
sub-range (plain and scaled), `compare`, gcd on a sub-range. -/
theorem dense_sparse_query (q : RowQuery) (r : SRow) (hr : r.WF) (hp : q.pre r) :
    q.sparse r = q.dense (toDense r) := by
  obtain ⟨hs, hb⟩ := hr
  cases q with
  | get i => exact (getD_toDenseN_of_below hb i).symm
  | dot y s e =>
    show r.m.dot y.m s e = Dense.dot (toDenseN r.size r.m) (toDenseN y.size y.m) s e
    exact dense_dot hs hp.1.1 s e hp.2.1 hp.2.2
  | eqIn y s e =>
    show (if r.m.eqIn y.m s e then (1 : Int) else 0) = _
    rw [dense_eqIn hs hp.1.1 s e hp.2.1 hp.2.2]; rfl
  | eqScaledIn y c1 c2 s e =>
    show (if r.m.eqScaledIn y.m c1 c2 s e then (1 : Int) else 0) = _
    rw [dense_eqScaledIn hs hp.1.1 c1 c2 s e hp.2.1 hp.2.2]; rfl
  | compare y => exact dense_compare hs hp.1 hb hp.2
  | gcdIn s e =>
    show ((gcdFwd (r.m.restrict s e).vals : Nat) : Int) = _
    rw [dense_gcdIn hs s e hp]; rfl

/-- converting a dense row to a sparse one and back is the identity -/
theorem ofDense_toDense (d : List Int) : toDense (ofDense d) = d ∧ (ofDense d).WF := by
  have key : ∀ (d : List Int) (k : Nat),
      SMap.Sorted (ofDenseFrom k d) ∧ (∀ p ∈ ofDenseFrom k d, k ≤ p.1 ∧ p.1 < k + d.length) ∧
      ∀ j, (ofDenseFrom k d).get (k + j) = d.getD j 0 := by
    intro d
    induction d with
    | nil => intro k; simp [ofDenseFrom, sorted_nil]
    | cons a t ih =>
      intro k
      obtain ⟨h1, h2, h3⟩ := ih (k + 1)
      have h3' : ∀ j, (ofDenseFrom (k + 1) t).get (k + (j + 1)) = t.getD j 0 := by
        intro j; have := h3 j; rwa [show k + 1 + j = k + (j + 1) by omega] at this
      have hk0 : (ofDenseFrom (k + 1) t).get k = 0 :=
        get_eq_zero_of_not_mem _ _ (fun p hp => by have := (h2 p hp).1; omega)
      unfold ofDenseFrom
      by_cases ha : a = 0
      · simp only [ha, if_true]
        refine ⟨h1, fun p hp => ?_, fun j => ?_⟩
        · have := h2 p hp; simp only [List.length_cons]; omega
        · cases j with
          | zero => simpa using hk0
          | succ j => simpa using h3' j
      · simp only [ha, if_false]
        refine ⟨sorted_cons.mpr ⟨fun q hq => ?_, h1⟩, fun p hp => ?_, fun j => ?_⟩
        · have := (h2 q hq).1; show k < q.1; omega
        · simp only [List.length_cons]
          rcases List.mem_cons.mp hp with rfl | hp
          · simp
          · have := h2 p hp; omega
        · cases j with
          | zero => simp
          | succ j =>
            have : ¬ k = k + (j + 1) := by omega
            simpa [get_cons, this] using h3' j
  obtain ⟨h1, h2, h3⟩ := key d 0
  refine ⟨?_, h1, fun p hp => by have := (h2 p hp).2; rw [Nat.zero_add] at this; exact this⟩
  symm
  apply eq_toDenseN
  intro j
  have := h3 j
  rw [Nat.zero_add] at this
  show d[j]? = if j < d.length then some ((ofDenseFrom 0 d).get j) else none
  rw [this]
  by_cases hj : j < d.length
  · simp [hj, List.getD_eq_getElem?_getD]
  · simp [hj]

/-- size 6, entries 1 ↦ 4, 3 ↦ -6, 4 ↦ 0 (a stored zero) -/
def exRow : SRow := ⟨6, [(1, 4), (3, -6), (4, 0)]⟩
example : exRow.WF := ⟨(sortedB_iff _).mp (by decide), (belowB_iff _ _).mp (by decide)⟩
example : toDense exRow = [0, 4, 0, -6, 0, 0] := by decide
example : toDense ((RowOp.deleteShift 1).sparse exRow) = [0, 0, -6, 0, 0] := by decide
example : toDense (RowOp.normalize.sparse exRow) = [0, 2, 0, -3, 0, 0] := by decide
example : (RowQuery.gcdIn 0 6).dense (toDense exRow) = 2 := by decide
example : (RowQuery.compare ⟨6, [(3, -6)]⟩).sparse exRow = 2 := by simp [RowQuery.sparse, SMap.compare, exRow, SMap.zipWalk, SMap.cmpStep]

end C16
