import PPLV.Dump.Proofs

/-!
# C15 — `ascii_dump` / `ascii_load` round trips (property theorems)

Models: `PPLV/Dump/Model.lean` (code-shaped printers and loaders), status tables regenerated from the
sources at every run (`PPLV/Gen/StatusTables.lean`).  Every theorem quantifies over **all** states of the
grammar (all flag combinations a `Status` object can hold, matrices and boxes of any size).

What the theorems are about: the *grammars* (token order, keywords, separators, per-flag load actions, the
loader's control flow).  That the C++ functions implement these grammars is the correspondence part of the
check (`harness/c15_dumpload.cc`, `Driver/C15.lean`): the Lean loader must accept every real status line /
header / matrix the histories produce, the Lean printer must reproduce them byte for byte, and the Lean
status loader must predict the flags the real `ascii_load` leaves in a receiver with prior flags.
-/
namespace C15
open PPLV.Dump

/-! ## the grammars -/

/-- keywords are pairwise distinct words -/
def enumOk (ks : List Word) : Bool := kwDistinct ks && ks.all isWordB

/-- a grammar of the dump format.  `status c` is the flag grammar of class `c` over the table regenerated
from the current sources, loaded into a default-constructed `Status()`. -/
inductive Grammar : Type 1 where
  | status (c : StatusClass)
  | dimension                       -- `dimension_type` fields
  | coefficient                     -- `mpz_class` fields
  | extCoefficient                  -- entries of a DB/OR matrix over `mpz_class`: integer or `+inf`
  | linSysHeader                    -- topology, sizes, representation, sortedness, `index_first_pending`
  | bitMatrix                       -- `Bit_Matrix` (saturation matrices)
  | dbMatrix (C : Codec)            -- `DB_Matrix<T>`, numbers of `T` abstract
  | orMatrix (C : Codec)            -- `OR_Matrix<T>`
  | enum (ks : List Word) (h : enumOk ks = true)       -- a keyword enumeration (MIP/PIP status fields)

def Grammar.State : Grammar → Type
  | .status c => { f : Nat // validFlags c.table f = true }
  | .dimension => Nat
  | .coefficient => Int
  | .extCoefficient => Option Int
  | .linSysHeader => LinSysHeader
  | .bitMatrix => { m : BitMatrix // m.valid = true }
  | .dbMatrix C => { m : ShapedMatrix C // m.valid dbShape = true }
  | .orMatrix C => { m : ShapedMatrix C // m.valid orShape = true }
  | .enum ks _ => Fin ks.length

def Grammar.dump : (G : Grammar) → G.State → List Char
  | .status c, s => dumpStatus c.table s.1
  | .dimension, n => printNat n
  | .coefficient, i => printInt i
  | .extCoefficient, a => printExt a
  | .linSysHeader, h => h.dump
  | .bitMatrix, m => m.1.dump
  | .dbMatrix _, m => m.1.dump
  | .orMatrix _, m => m.1.dump
  | .enum ks _, v => enumDump ks v.1

def Grammar.load : (G : Grammar) → List Char → Option G.State
  | .status c, s =>
    match loadStatus c.table c.init (words s) with
    | some (f, _) => if h : validFlags c.table f = true then some ⟨f, h⟩ else none
    | none => none
  | .dimension, s => loadWord natCodec s
  | .coefficient, s => loadWord intCodec s
  | .extCoefficient, s => loadWord extIntCodec s
  | .linSysHeader, s => LinSysHeader.load s
  | .bitMatrix, s =>
    match BitMatrix.load s with
    | some m => if h : m.valid = true then some ⟨m, h⟩ else none
    | none => none
  | .dbMatrix C, s =>
    match ShapedMatrix.load C dbShape s with
    | some m => if h : m.valid dbShape = true then some ⟨m, h⟩ else none
    | none => none
  | .orMatrix C, s =>
    match ShapedMatrix.load C orShape s with
    | some m => if h : m.valid orShape = true then some ⟨m, h⟩ else none
    | none => none
  | .enum ks _, s =>
    match words s with
    | [w] =>
      match enumLoad ks w with
      | some v => if h : v < ks.length then some ⟨v, h⟩ else none
      | none => none
    | _ => none

/-! ## theorems over the regenerated tables -/

/-- every regenerated table is understood: keywords are words, separators are non-empty blanks, the load
actions have one of the two recognised shapes, the keywords of a table are pairwise distinct (so no field
can be read for another one), the table is not empty -/
theorem gen_tables_wf : ∀ c : StatusClass, WF c.table = true := by
  intro c; cases c <;> decide

theorem gen_tokens_distinct : ∀ c : StatusClass, tokensDistinct c.table = true := by
  intro c; cases c <;> decide

/-- `get_field` still accepts exactly `+KEYWORD` / `-KEYWORD`, and the signs are `+` and `-` -/
theorem gen_get_field_standard : ∀ c : StatusClass, c.getFieldStandard = true ∧ c.yesNo = ('+', '-') := by
  intro c; cases c <;> decide

/-- a default-constructed `Status()` holds none of the flags the loader never clears -/
theorem gen_init_clean : ∀ c : StatusClass,
    validFlags c.table c.init = true ∧ (noClearBits c.table).all (fun b => !c.init.testBit b) = true := by
  intro c; cases c <;> decide

example : (StatusClass.table .ph).length = 10 ∧ (StatusClass.table .box).length = 3 := by decide

/-! ## round trips -/

/-- **Status flags, any table of a recognised shape, any receiver.**  Loading the dump of the flag state
`s` into a status object whose flags are `p` yields exactly `s` (and consumes exactly the dump), provided
`compat t p s`: no flag that `ascii_load` never clears is set in `p` but not in `s`.
`…_partial`: the side condition is what is missing for "every receiver"; it is vacuous for a table whose
'-' branches all clear their flag (`status_load_dump_any_receiver`). -/
theorem status_load_dump_partial (t : Table) (hwf : WF t = true) (s p : Nat)
    (vs : validFlags t s = true) (vp : validFlags t p = true) (hc : compat t p s = true) (x : List Char) :
    loadStatus t p (words (dumpStatus t s ++ x)) = some (s, words x) :=
  loadStatus_dump t hwf s p x vs vp hc

example : loadStatus (StatusClass.table .ph) 0 (words (dumpStatus (StatusClass.table .ph) 6)) = some (6, []) := by
  decide

/-- if every '-' branch of the loader resets its flag, the receiver's prior flags do not matter -/
theorem status_load_dump_any_receiver (t : Table) (hwf : WF t = true) (hclr : noClearBits t = [])
    (s p : Nat) (vs : validFlags t s = true) (vp : validFlags t p = true) :
    loadStatus t p (words (dumpStatus t s)) = some (s, []) := by
  have := loadStatus_dump t hwf s p [] vs vp (compat_of_allClear t hclr p s)
  simpa [words_nil] using this

example : WF (boxTable false) = true ∧ noClearBits (boxTable false) = [] := by decide

/-- **C15.load_dump** (Appendix B): for every modelled grammar and every state, loading the dump gives
back the state.  For `status c` this is `Status::ascii_load` over the table regenerated from the sources,
into a default-constructed `Status()`. -/
theorem load_dump (G : Grammar) (s : G.State) : G.load (G.dump s) = some s := by
  cases G with
  | status c =>
    obtain ⟨f, hf⟩ := s
    have hi := gen_init_clean c
    have := loadStatus_dump c.table (gen_tables_wf c) f c.init [] hf hi.1 (compat_of_clean _ _ _ hi.2)
    rw [List.append_nil] at this
    simp only [Grammar.load, Grammar.dump, this, hf, dite_true]
  | dimension => exact loadWord_print natCodec s
  | coefficient => exact loadWord_print intCodec s
  | extCoefficient => exact loadWord_print extIntCodec s
  | linSysHeader => exact LinSysHeader.load_dump s
  | bitMatrix =>
    obtain ⟨m, hm⟩ := s
    simp only [Grammar.load, Grammar.dump, BitMatrix.load_dump m hm, hm, dite_true]
  | dbMatrix C =>
    obtain ⟨m, hm⟩ := s
    simp only [Grammar.load, Grammar.dump, ShapedMatrix.load_dump dbShape m hm, hm, dite_true]
  | orMatrix C =>
    obtain ⟨m, hm⟩ := s
    simp only [Grammar.load, Grammar.dump, ShapedMatrix.load_dump orShape m hm, hm, dite_true]
  | enum ks h =>
    obtain ⟨v, hv⟩ := s
    simp only [enumOk, Bool.and_eq_true] at h
    have hmem : enumDump ks v ∈ ks := by
      unfold enumDump
      rw [List.getD_eq_getElem?_getD, List.getElem?_eq_getElem hv]
      exact List.getElem_mem hv
    have hword : isWordB (enumDump ks v) = true := (List.all_eq_true.1 h.2) _ hmem
    simp only [Grammar.load, Grammar.dump, words_word _ hword, enumLoad_dump ks h.1 v hv, hv, dite_true]

/-! non-vacuity: the printers write the text the library writes (compare `Polyhedron::ascii_dump` output) -/
example : String.ofList ((Grammar.linSysHeader).dump ⟨false, 2, 2, false, true, 2⟩)
    = "topology NECESSARILY_CLOSED\n2 x 2 DENSE (sorted)\nindex_first_pending 2\n" := by decide
example : String.ofList (dumpStatus (StatusClass.table .ph) (2 + 4 + 8 + 16 + 64))
    = "-ZE -EM  +CM +GM  +CS +GS  -CP -GP  -SC +SG " := by decide
example : String.ofList (dumpStatus (StatusClass.table .grid) 0) = "+ZE -EM  -CM -GM  -CS -GS  -CP -GP  -SC -SG\n" := by decide
example : String.ofList (BitMatrix.dump ⟨2, [[false, true], [true, false]]⟩) = "2 x 2\n0 1 \n1 0 \n" := by decide
example : String.ofList (ShapedMatrix.dump (C := extIntCodec) ⟨2, [[none, some 3], [some (-1), none]]⟩)
    = "2 \n+inf 3 \n-1 +inf \n" := by decide
example : BitMatrix.load "2 x 2\n0 1 \n1 0 \n".toList = some ⟨2, [[false, true], [true, false]]⟩ := by decide
example : String.ofList (dumpBox natCodec (boxTable true) ⟨0, [((0 : Nat), (0 : Nat), (1 : Nat))]⟩)
    = "-EUP -EM -UN space_dim 1\ninfo 0 lower 0 upper 1\n" := by decide

example : enumOk mipStatusKw = true ∧ enumOk mipPricingKw = true ∧ enumOk optModeKw = true ∧ enumOk yesNoKw = true
    ∧ enumOk pipStatusKw = true ∧ enumOk pipControlKw = true := by decide

/-- so `dump` is injective: equal text means equal abstract state -/
theorem dump_injective (G : Grammar) (s₁ s₂ : G.State) (h : G.dump s₁ = G.dump s₂) : s₁ = s₂ := by
  have h1 := load_dump G s₁
  rw [h, load_dump G s₂] at h1
  exact (Option.some.inj h1).symm

/-! ## `Box`: the loader as written, the defect, the repaired loader -/

/-- `Box::ascii_load` (any table of a recognised shape, e.g. the regenerated one; any receiver) under the
side condition `compat`: a flag the status loader never clears is not set in the receiver unless it is set
in the dumped box.  Missing for the full statement: receivers with such a flag — see `box_load_dump_fails`. -/
theorem box_load_dump_partial (C : Codec) (t : Table) (hwf : WF t = true) (recv b : BoxSt C)
    (vs : validFlags t b.flags = true) (vp : validFlags t recv.flags = true)
    (hc : compat t recv.flags b.flags = true) :
    loadBox C t recv (dumpBox C t b) = some b :=
  loadBox_dump C t hwf recv b vs vp hc

/-- the instance for the table regenerated from the current `Box_Status*` sources -/
theorem box_load_dump_gen_partial (C : Codec) (recv b : BoxSt C)
    (vs : validFlags (StatusClass.table .box) b.flags = true)
    (vp : validFlags (StatusClass.table .box) recv.flags = true)
    (hc : compat (StatusClass.table .box) recv.flags b.flags = true) :
    loadBox C (StatusClass.table .box) recv (dumpBox C (StatusClass.table .box) b) = some b :=
  loadBox_dump C _ (gen_tables_wf .box) recv b vs vp hc

example : compat (boxTable true) 0 5 = true ∧ compat (boxTable true) 1 4 = false := by decide

/-- **Defect 21.**  With `Box::Status::ascii_load` as written in round 0 (`+` sets a flag, `-` leaves
`EUP` and `EM` alone) loading into a default-constructed box (`+EUP`) does not round-trip: the dump of the
one-dimensional box `-EUP -EM -UN` with interval `(0, 0, 1)` comes back with `+EUP`. -/
theorem box_load_dump_fails :
    ¬ ∀ b : BoxSt natCodec, validFlags (boxTable true) b.flags = true →
        loadBox natCodec (boxTable true) (defaultBox natCodec) (dumpBox natCodec (boxTable true) b) = some b := by
  intro h
  have h1 := h (⟨0, [((0 : Nat), (0 : Nat), (1 : Nat))]⟩ : BoxSt natCodec) (by decide)
  have h2 : (loadBox natCodec (boxTable true) (defaultBox natCodec)
      (dumpBox natCodec (boxTable true) (⟨0, [((0 : Nat), (0 : Nat), (1 : Nat))]⟩ : BoxSt natCodec))).map (·.flags) = some 1 := by decide
  rw [h1] at h2
  exact absurd h2 (by decide)

/-- with the two missing `else reset_…()` branches every receiver works -/
theorem box_load_dump_repaired (C : Codec) (recv b : BoxSt C)
    (vs : validFlags (boxTable false) b.flags = true) (vp : validFlags (boxTable false) recv.flags = true) :
    loadBox C (boxTable false) recv (dumpBox C (boxTable false) b) = some b :=
  loadBox_dump C _ (by decide) recv b vs vp (compat_of_allClear _ (by decide) _ _)

example : (loadBox natCodec (boxTable false) (defaultBox natCodec)
    (dumpBox natCodec (boxTable false) (⟨0, [((0 : Nat), (0 : Nat), (1 : Nat))]⟩ : BoxSt natCodec))).map (·.flags)
      = some 0 := by decide

/-- the same omission in the four `ZE`/`EM` classes: `-EM` does not clear `EMPTY`.  Loading the dump of
`-ZE -EM … +CS …` (flags `C_UP_TO_DATE`) into a receiver that is marked empty leaves `+EM` set. -/
theorem ph_load_into_empty_receiver_fails :
    loadStatus (phTable true) 1 (words (dumpStatus (phTable true) 2)) = some (3, []) ∧
    loadStatus (bdsTable true) 1 (words (dumpStatus (bdsTable true) 2)) = some (3, []) ∧
    loadStatus (ogTable true) 1 (words (dumpStatus (ogTable true) 2)) = some (3, []) := by decide

/-- with `else reset_empty()` added, any receiver works for the four classes -/
theorem ze_tables_repaired :
    WF (phTable false) = true ∧ noClearBits (phTable false) = [] ∧
    WF (phTable false "\n") = true ∧ noClearBits (phTable false "\n") = [] ∧
    WF (bdsTable false) = true ∧ noClearBits (bdsTable false) = [] ∧
    WF (ogTable false) = true ∧ noClearBits (ogTable false) = [] := by decide

end C15
