import PPLV.Product.Proofs
import PPLV.Product.ProofsJudge
import PPLV.Lin.Decide
import Mathlib.Data.Set.Lattice

/-!
# C10 — products denote the intersection of their components; reductions never lose it

`Γ X d : Set Pt` is the point set of a component, a product `(d₁, d₂)` denotes `Γ A d₁ ∩ Γ B d₂`.
The theorems hold for **every** pair of component domains satisfying the K5 interface `RDom`
(sound `is_empty`, `refine_with_*`, `maximize`/`minimize` bounds, `frequency`, and
`minimized_constraints`/`minimized_congruences` that hold on the element — the content of
C01–C05 for the real domains), every component values (consistent or not) and every state of the
lazy `reduced` flag.  The functions are the code-shaped models of `PPLV/Product/Model.lean`
(C++ `%` = `Int.tmod`).
-/
namespace C10
open PPLV PPLV.Product

def Γ (X : RDom) (x : X.D) : Set Pt := {p | X.γ x p}

/-- **Every reduction policy** (none, smash, constraints, congruences, shape-preserving): the
    intersection is unchanged and both components shrink. -/
theorem reduce_preserves_meet (R : Policy) (A B : RDom) (x : A.D) (y : B.D) :
    let r := productReduce A B R x y
    Γ A r.1 ∩ Γ B r.2 = Γ A x ∩ Γ B y ∧ Γ A r.1 ⊆ Γ A x ∧ Γ B r.2 ⊆ Γ B y := by
  intro r
  have h := productReduce_red A B R x y
  exact ⟨Set.ext fun p => h.meet_eq A B p, fun p hp => h.sub1 p hp, fun p hp => h.sub2 p hp⟩

/-- the lazy `reduce()`: whatever the `reduced` flag says when it is called -/
theorem lazy_reduce_preserves_meet (R : Policy) (A B : RDom) (x : Prod A B) :
    Γ A (reduce A B R x).d1 ∩ Γ B (reduce A B R x).d2 = Γ A x.d1 ∩ Γ B x.d2 ∧
    Γ A (reduce A B R x).d1 ⊆ Γ A x.d1 ∧ Γ B (reduce A B R x).d2 ⊆ Γ B x.d2 := by
  have h := reduce_red A B R x
  exact ⟨Set.ext fun p => h.meet_eq A B p, fun p hp => h.sub1 p hp, fun p hp => h.sub2 p hp⟩

/-- **The shrink step** of the congruences reduction, for a proper congruence satisfied by the
    whole first component: the modular arithmetic (`Int.tmod`) never loses a common point. -/
theorem shrink_to_congruence_preserves_meet (A B : RDom) (x : A.D) (y : B.D) (cg : Cg)
    (hm : 0 < cg.modulus) (hcg : Γ A x ⊆ {p | cg.sat p}) :
    let r := (shrinkStep A B x y cg).1
    Γ A r.1 ∩ Γ B r.2 = Γ A x ∩ Γ B y ∧ Γ A r.1 ⊆ Γ A x ∧ Γ B r.2 ⊆ Γ B y := by
  intro r
  have h := shrinkStep_red A B x y cg hm (fun p hp => hcg hp)
  exact ⟨Set.ext fun p => h.meet_eq A B p, fun p hp => h.sub1 p hp, fun p hp => h.sub2 p hp⟩

/-- the arithmetic core: `N - shrinkMax N m incl` is the largest multiple of `m` that is `≤ N`
    (`< N` when the bound is not attained), and dually -/
theorem shrink_arithmetic (N m z : Int) (incl : Bool) (hm : 0 < m) :
    (m ∣ N - shrinkMax N m incl) ∧ (m ∣ N - shrinkMin N m incl) ∧
    ((z * m ≤ N ∧ (incl = false → z * m < N)) → z * m ≤ N - shrinkMax N m incl) ∧
    ((N ≤ z * m ∧ (incl = false → N < z * m)) → N - shrinkMin N m incl ≤ z * m) :=
  ⟨(shrinkMax_spec N m incl hm).1, (shrinkMin_spec N m incl hm).1,
   fun h => shrinkMax_floor N m z incl hm h.1 h.2, fun h => shrinkMin_ceil N m z incl hm h.1 h.2⟩

example : shrinkMax 7 3 true = 1 ∧ shrinkMax (-7) 3 true = 2 ∧ shrinkMax 6 3 false = 3 ∧ shrinkMax 6 3 true = 0
    ∧ shrinkMin 7 3 true = -2 ∧ shrinkMin (-7) 3 true = -1 ∧ shrinkMin 6 3 false = -3 ∧ shrinkMin (-6) 3 true = 0 := by
  decide

/-- **Transformers are component-wise**: if each component operator contains the image of its
    argument under a relation `Rel` (affine images, added constraints, dimension changes, meets
    with a fixed argument …) then the result's intersection contains the image of the argument's
    intersection — with or without a preceding `reduce()`. -/
theorem transformer_sound (R : Policy) (A B : RDom) (f1 : A.D → A.D) (f2 : B.D → B.D) (Rel : Pt → Pt → Prop)
    (h1 : ∀ a, {q | ∃ p ∈ Γ A a, Rel p q} ⊆ Γ A (f1 a)) (h2 : ∀ b, {q | ∃ p ∈ Γ B b, Rel p q} ⊆ Γ B (f2 b))
    (x : Prod A B) :
    ({q | ∃ p ∈ Γ A x.d1 ∩ Γ B x.d2, Rel p q} ⊆ Γ A (mapBoth A B f1 f2 x).d1 ∩ Γ B (mapBoth A B f1 f2 x).d2) ∧
    ({q | ∃ p ∈ Γ A x.d1 ∩ Γ B x.d2, Rel p q} ⊆
        Γ A (mapBothReduced A B R f1 f2 x).d1 ∩ Γ B (mapBothReduced A B R f1 f2 x).d2) := by
  constructor
  · rintro q ⟨p, hp, hr⟩
    exact mapBoth_sound A B f1 f2 Rel (fun a p q hp hr => h1 a ⟨p, hp, hr⟩) (fun b p q hp hr => h2 b ⟨p, hp, hr⟩) x p q hp hr
  · rintro q ⟨p, hp, hr⟩
    exact mapBothReduced_sound A B R f1 f2 Rel (fun a p q hp hr => h1 a ⟨p, hp, hr⟩)
      (fun b p q hp hr => h2 b ⟨p, hp, hr⟩) x p q hp hr

/-- **Definite answers are true of the intersections**: `is_empty()` -/
theorem is_empty_sound (R : Policy) (A B : RDom) (x : Prod A B) (h : isEmpty A B R x = true) :
    Γ A x.d1 ∩ Γ B x.d2 = ∅ := by
  rw [Set.eq_empty_iff_forall_notMem]
  intro p hp
  exact isEmpty_sound A B R x h p hp

/-- `contains(y)` (component-wise, after reducing both) -/
theorem contains_sound (R : Policy) (A B : RDom) (c1 : A.D → A.D → Bool) (c2 : B.D → B.D → Bool)
    (hc1 : ∀ a b, c1 a b = true → Γ A b ⊆ Γ A a) (hc2 : ∀ a b, c2 a b = true → Γ B b ⊆ Γ B a)
    (x y : Prod A B) (h : contains A B R c1 c2 x y = true) :
    Γ A y.d1 ∩ Γ B y.d2 ⊆ Γ A x.d1 ∩ Γ B x.d2 := by
  intro p hp
  exact Product.contains_sound A B R c1 c2 (fun a b h p hp => hc1 a b h hp) (fun a b h p hp => hc2 a b h hp) x y h p hp

/-- `is_disjoint_from(y)`, `is_bounded()`, `bounds_from_above/below(e)`, inclusion in a constraint:
    "some component has the property" for a property of sets that is inherited by subsets -/
theorem any_component_sound (R : Policy) (A B : RDom) (q1 : A.D → Bool) (q2 : B.D → Bool) (P : Set Pt → Prop)
    (hP : ∀ S T : Set Pt, S ⊆ T → P T → P S)
    (h1 : ∀ a, q1 a = true → P (Γ A a)) (h2 : ∀ b, q2 b = true → P (Γ B b))
    (x : Prod A B) (h : anyComponent A B R q1 q2 x = true) : P (Γ A x.d1 ∩ Γ B x.d2) :=
  anyComponent_sound A B R q1 q2 P (fun S T hST hT => hP S T (fun p hp => hST p hp) hT) h1 h2 x h

/-- **`relation_with(c)`** (constraint or congruence `c` with point set `S` and hyperplane `H`):
    the product reports `is_included` / `is_disjoint` / `saturates` as soon as ONE component does;
    each reported fact is true of the intersection when the component answers are sound. -/
theorem relation_with_sound (R : Policy) (A B : RDom) (q1 : A.D → Rel3) (q2 : B.D → Rel3) (S H : Set Pt)
    (h1 : ∀ a, ((q1 a).included = true → Γ A a ⊆ S) ∧ ((q1 a).disjoint = true → Γ A a ∩ S = ∅) ∧
               ((q1 a).saturates = true → Γ A a ⊆ H))
    (h2 : ∀ b, ((q2 b).included = true → Γ B b ⊆ S) ∧ ((q2 b).disjoint = true → Γ B b ∩ S = ∅) ∧
               ((q2 b).saturates = true → Γ B b ⊆ H))
    (x : Prod A B) :
    ((relationWith A B R q1 q2 x).included = true → Γ A x.d1 ∩ Γ B x.d2 ⊆ S) ∧
    ((relationWith A B R q1 q2 x).disjoint = true → (Γ A x.d1 ∩ Γ B x.d2) ∩ S = ∅) ∧
    ((relationWith A B R q1 q2 x).saturates = true → Γ A x.d1 ∩ Γ B x.d2 ⊆ H) := by
  have key := fun p hp => relationWith_sound A B R q1 q2 (· ∈ S) (· ∈ H)
    (fun a => ⟨fun h p hp => (h1 a).1 h hp,
               fun h p hp hs => by have := (h1 a).2.1 h; exact (Set.eq_empty_iff_forall_notMem.mp this) p ⟨hp, hs⟩,
               fun h p hp => (h1 a).2.2 h hp⟩)
    (fun b => ⟨fun h p hp => (h2 b).1 h hp,
               fun h p hp hs => by have := (h2 b).2.1 h; exact (Set.eq_empty_iff_forall_notMem.mp this) p ⟨hp, hs⟩,
               fun h p hp => (h2 b).2.2 h hp⟩) x p hp
  refine ⟨fun h p hp => (key p hp).1 h, fun h => ?_, fun h p hp => (key p hp).2.2 h⟩
  rw [Set.eq_empty_iff_forall_notMem]
  rintro p ⟨hp, hs⟩
  exact (key p hp).2.1 h hs

/-- saturation of the hyperplane of a NON-strict inequality `e ≥ 0` (or of an equality) entails
    inclusion: a rule the library could use … -/
theorem saturates_nonstrict_included (e : LE) (X : Set Pt) (h : X ⊆ {p | e.eval p = 0}) :
    X ⊆ {p | 0 ≤ e.eval p} := fun p hp => le_of_eq (h hp).symm

/-- … whereas for a STRICT inequality `e > 0` saturation entails *disjointness*, never inclusion
    (a non-empty saturating set is not included): reporting `is_included` on saturation of a strict
    constraint is wrong. -/
theorem saturates_strict_disjoint (e : LE) (X : Set Pt) (h : X ⊆ {p | e.eval p = 0}) :
    X ∩ {p | 0 < e.eval p} = ∅ := by
  rw [Set.eq_empty_iff_forall_notMem]
  rintro p ⟨hp, hpos⟩
  have h0 : e.eval p = 0 := h hp
  have hpos' : 0 < e.eval p := hpos
  rw [h0] at hpos'
  exact lt_irrefl _ hpos'

theorem saturates_strict_not_included :
    ¬ ∀ (e : LE) (X : Set Pt), X ⊆ {p | e.eval p = 0} → X ⊆ {p | 0 < e.eval p} := by
  intro h
  have := h ⟨[], 0⟩ {fun _ => 0} (by intro p _; simp [LE.eval, PPLV.Lin.dot]) (a := fun _ => 0) rfl
  simp [LE.eval, PPLV.Lin.dot] at this

/-- **`maximize` / `minimize`**: the reported value is a bound of the expression on the intersection,
    whichever component it is taken from (the library takes the LARGER of the two suprema — sound,
    though its comment says "minimum"). -/
theorem optimize_bound_sound (R : Policy) (A B : RDom) (x : Prod A B) (e : LE) (n dn : Int) (incl : Bool) :
    (prodMaximize A B R x e = some (n, dn, incl) → 0 < dn ∧ ∀ p ∈ Γ A x.d1 ∩ Γ B x.d2, e.eval p * (dn : Rat) ≤ (n : Rat)) ∧
    (prodMinimize A B R x e = some (n, dn, incl) → 0 < dn ∧ ∀ p ∈ Γ A x.d1 ∩ Γ B x.d2, (n : Rat) ≤ e.eval p * (dn : Rat)) := by
  constructor
  · intro h
    by_cases hne : ∃ p, p ∈ Γ A x.d1 ∩ Γ B x.d2
    · obtain ⟨p0, hp0⟩ := hne
      exact ⟨(prodMaximize_sound A B R x e n dn incl h p0 hp0).1, fun p hp => (prodMaximize_sound A B R x e n dn incl h p hp).2⟩
    · refine ⟨?_, fun p hp => absurd ⟨p, hp⟩ hne⟩
      -- the denominator is positive by the component oracle, even on an empty intersection
      unfold prodMaximize at h
      simp only at h
      cases hA : A.maximize (reduce A B R x).d1 e with
      | none =>
        cases hB : B.maximize (reduce A B R x).d2 e with
        | none => simp [hA, hB] at h
        | some rb => simp only [hA, hB, Option.some.injEq] at h; subst h; exact (B.maximize_spec _ e n dn incl hB).1
      | some ra =>
        cases hB : B.maximize (reduce A B R x).d2 e with
        | none => simp only [hA, hB, Option.some.injEq] at h; subst h; exact (A.maximize_spec _ e n dn incl hA).1
        | some rb =>
          simp only [hA, hB] at h
          split at h
          · simp only [Option.some.injEq] at h; subst h; exact (A.maximize_spec _ e n dn incl hA).1
          · simp only [Option.some.injEq] at h; subst h; exact (B.maximize_spec _ e n dn incl hB).1
  · intro h
    by_cases hne : ∃ p, p ∈ Γ A x.d1 ∩ Γ B x.d2
    · obtain ⟨p0, hp0⟩ := hne
      exact ⟨(prodMinimize_sound A B R x e n dn incl h p0 hp0).1, fun p hp => (prodMinimize_sound A B R x e n dn incl h p hp).2⟩
    · refine ⟨?_, fun p hp => absurd ⟨p, hp⟩ hne⟩
      unfold prodMinimize at h
      simp only at h
      cases hA : A.minimize (reduce A B R x).d1 e with
      | none =>
        cases hB : B.minimize (reduce A B R x).d2 e with
        | none => simp [hA, hB] at h
        | some rb => simp only [hA, hB, Option.some.injEq] at h; subst h; exact (B.minimize_spec _ e n dn incl hB).1
      | some ra =>
        cases hB : B.minimize (reduce A B R x).d2 e with
        | none => simp only [hA, hB, Option.some.injEq] at h; subst h; exact (A.minimize_spec _ e n dn incl hA).1
        | some rb =>
          simp only [hA, hB] at h
          split at h
          · simp only [Option.some.injEq] at h; subst h; exact (A.minimize_spec _ e n dn incl hA).1
          · simp only [Option.some.injEq] at h; subst h; exact (B.minimize_spec _ e n dn incl hB).1

/-- `difference_assign` is component-wise, `(d₁ ∖ y₁, d₂ ∖ y₂)`: that is **not** an
    over-approximation of the difference of the intersections (known finding KF-C10-1; on the real
    library: `x = (ℝ, ℤ)`, `y = ([0,+∞), ℝ)` gives the empty product, the negative integers are lost). -/
theorem difference_componentwise_fails :
    ¬ ∀ d1 d2 y1 y2 : Set Pt, (d1 ∩ d2) \ (y1 ∩ y2) ⊆ (d1 \ y1) ∩ (d2 \ y2) := by
  intro h
  have hx : (fun _ => 0 : Pt) ∈ (Set.univ ∩ Set.univ : Set Pt) \ (Set.univ ∩ ∅) :=
    ⟨⟨trivial, trivial⟩, fun hx => hx.2⟩
  have := h Set.univ Set.univ Set.univ ∅ hx
  exact this.1.2 trivial

/-! ## the judge used on the real library's output

For pairs both of whose components are constraint systems the driver decides "components shrink"
and "intersection unchanged" with the K1 procedures on the concatenated systems (sound and
complete: `PPLV.Lin.subsetB_iff`); for pairs with a proper `Grid` it evaluates the printed
constraints and congruences at enumerated lattice points with the evaluators below. -/

open PPLV.Lin in
/-- both components constraint systems: "no common point lost" is decided exactly -/
theorem judge_meet_subset_iff (n : Nat) (r1 r2 o1 o2 : List Con)
    (hr : WF n (r1 ++ r2)) (ho : WF n (o1 ++ o2)) :
    subsetB n (r1 ++ r2) (o1 ++ o2) = true ↔ sem r1 ∩ sem r2 ⊆ sem o1 ∩ sem o2 := by
  rw [subsetB_iff n _ _ hr ho]
  have h : ∀ a b : List Con, sem (a ++ b) = sem a ∩ sem b := by
    intro a b; ext x; exact Sat_append a b x
  rw [h, h]

open PPLV.Lin in
/-- the point evaluators decide membership of a rational point -/
theorem judge_point_iff (cs : List Con) (c : Cgr) (x : List Rat) :
    (allHold cs x = true ↔ Sat cs (toPt x)) ∧
    (cgrHolds c x = true ↔ ∃ z : Int, dot c.coeffs (toPt x) + (c.k : Rat) = (z : Rat) * (c.m : Rat)) :=
  ⟨allHold_iff cs x, cgrHolds_iff c x⟩

example : cgrHolds ⟨3, -1, [1, 1]⟩ [2, 2] = true ∧ cgrHolds ⟨3, -1, [1, 1]⟩ [2, (1 : Rat) / 2] = false
    ∧ cgrHolds ⟨0, -4, [1, 1]⟩ [2, 2] = true := by decide +kernel

/-! ## non-vacuity: a tiny concrete component domain (integer intervals with a congruence on axis 0) -/

structure Ax where
  lo : Int
  hi : Int
  m : Nat
  r : Int
deriving DecidableEq, Repr

def axγ : Option Ax → Pt → Prop
  | none, _ => False
  | some a, p => (a.lo : Rat) ≤ p 0 ∧ p 0 ≤ (a.hi : Rat) ∧ ∃ z : Int, p 0 = (a.r : Rat) + (z : Rat) * (a.m : Rat)

def axRefine (d : Option Ax) (c : LCon) : Option Ax :=
  match d, c.coeffs, c.rel with
  | some a, [1], .eq => if a.lo ≤ -c.k ∧ -c.k ≤ a.hi then some { a with lo := -c.k, hi := -c.k } else none
  | d, _, _ => d

theorem dot_single (x : Pt) : Lin.dot [1] x = x 0 := by simp [Lin.dot]

def AxDom : RDom where
  D := Option Ax
  γ := axγ
  leq a _ := a.isNone
  isBottom a := match a with | none => true | some a => decide (a.hi < a.lo)
  join a b := match a, b with
    | none, b => b
    | a, none => a
    | some a, some b => some ⟨min a.lo b.lo, max a.hi b.hi, 1, 0⟩
  meet a _ := a
  eqv a b := decide (a = b)
  empty := none
  refineCon := axRefine
  refineCg d _ := d
  maximize d e := match d, e.coeffs with
    | some a, [1] => some (a.hi + e.k, 1, true)
    | _, _ => none
  minimize d e := match d, e.coeffs with
    | some a, [1] => some (a.lo + e.k, 1, true)
    | _, _ => none
  frequency _ _ := none
  constraints d := match d with
    | none => []
    | some a => [⟨[1], -a.lo, .ge⟩, ⟨[-1], a.hi, .ge⟩]
  congruences d := match d with
    | none => []
    | some a => [⟨[1], -a.r, a.m⟩]
  leq_sound := by
    intro a b h p hp
    cases a with
    | none => exact absurd hp (by simp [axγ])
    | some a => simp at h
  isBottom_sound := by
    intro a h p hp
    cases a with
    | none => exact hp
    | some a =>
      simp only [decide_eq_true_eq] at h
      obtain ⟨h1, h2, _⟩ := hp
      have : (a.hi : Rat) < (a.lo : Rat) := by exact_mod_cast h
      linarith
  join_sound := by
    intro a b p h
    cases a with
    | none => cases b with
      | none => rcases h with h | h <;> exact h
      | some b => rcases h with h | h
                  · exact absurd h (by simp [axγ])
                  · exact h
    | some a => cases b with
      | none => rcases h with h | h
                · exact h
                · exact absurd h (by simp [axγ])
      | some b =>
        have key : ∀ c : Ax, axγ (some c) p → min a.lo b.lo ≤ c.lo → c.hi ≤ max a.hi b.hi →
            axγ (some ⟨min a.lo b.lo, max a.hi b.hi, 1, 0⟩) p := by
          rintro c ⟨h1, h2, z, hz⟩ hl hh
          have hl' : ((min a.lo b.lo : Int) : Rat) ≤ (c.lo : Rat) := by exact_mod_cast hl
          have hh' : (c.hi : Rat) ≤ ((max a.hi b.hi : Int) : Rat) := by exact_mod_cast hh
          refine ⟨le_trans hl' h1, le_trans h2 hh', c.r + z * c.m, ?_⟩
          rw [hz]; push_cast; ring
        rcases h with h | h
        · exact key a h (min_le_left _ _) (le_max_left _ _)
        · exact key b h (min_le_right _ _) (le_max_right _ _)
  meet_sound := by intro a b p h _; exact h
  eqv_sound := by
    intro a b h p
    simp only [decide_eq_true_eq] at h
    rw [h]
  empty_spec := by intro p h; exact h
  refineCon_sub := by
    intro d c p h
    unfold axRefine at h
    split at h
    · rename_i a _ _
      split at h
      · rename_i hb
        obtain ⟨h1, h2, hz⟩ := h
        have hb1 : (a.lo : Rat) ≤ ((-c.k : Int) : Rat) := by exact_mod_cast hb.1
        have hb2 : ((-c.k : Int) : Rat) ≤ (a.hi : Rat) := by exact_mod_cast hb.2
        exact ⟨le_trans hb1 h1, le_trans h2 hb2, hz⟩
      · exact absurd h (by simp [axγ])
    · exact h
  refineCon_keep := by
    intro d c p hp hc
    unfold axRefine
    split
    · rename_i a hco hrel
      obtain ⟨h1, h2, hz⟩ := hp
      have hv : p 0 = ((-c.k : Int) : Rat) := by
        simp only [LCon.sat, hrel, LCon.eval, hco, dot_single] at hc
        push_cast; linarith
      have hb : a.lo ≤ -c.k ∧ -c.k ≤ a.hi := by
        constructor
        · have : (a.lo : Rat) ≤ ((-c.k : Int) : Rat) := by rw [← hv]; exact h1
          exact_mod_cast this
        · have : ((-c.k : Int) : Rat) ≤ (a.hi : Rat) := by rw [← hv]; exact h2
          exact_mod_cast this
      simp only [hb, and_self, if_true]
      exact ⟨le_of_eq hv.symm, le_of_eq hv, hz⟩
    · exact hp
  refineCg_sub := by intro a c p h; exact h
  refineCg_keep := by intro a c p h _; exact h
  maximize_spec := by
    intro d e n dn incl h
    cases d with
    | none => simp at h
    | some a =>
      cases hc : e.coeffs with
      | nil => simp [hc] at h
      | cons c0 cs =>
        by_cases h1 : c0 = 1 ∧ cs = []
        · obtain ⟨rfl, rfl⟩ := h1
          simp only [hc, Option.some.injEq, Prod.mk.injEq] at h
          obtain ⟨rfl, rfl, rfl⟩ := h
          refine ⟨by decide, ?_⟩
          rintro p ⟨_, h2, _⟩
          simp only [LE.eval, hc, dot_single]
          push_cast
          exact ⟨by linarith, fun h => by cases h⟩
        · exfalso
          revert h
          simp only [hc]
          split
          · rename_i heq; injection heq with e1 e2; exact absurd ⟨e1, e2⟩ h1
          · intro h; cases h
  minimize_spec := by
    intro d e n dn incl h
    cases d with
    | none => simp at h
    | some a =>
      cases hc : e.coeffs with
      | nil => simp [hc] at h
      | cons c0 cs =>
        by_cases h1 : c0 = 1 ∧ cs = []
        · obtain ⟨rfl, rfl⟩ := h1
          simp only [hc, Option.some.injEq, Prod.mk.injEq] at h
          obtain ⟨rfl, rfl, rfl⟩ := h
          refine ⟨by decide, ?_⟩
          rintro p ⟨h1, _, _⟩
          simp only [LE.eval, hc, dot_single]
          push_cast
          exact ⟨by linarith, fun h => by cases h⟩
        · exfalso
          revert h
          simp only [hc]
          split
          · rename_i heq; injection heq with e1 e2; exact absurd ⟨e1, e2⟩ h1
          · intro h; cases h
  frequency_spec := by intro a e fn fd vn vd h; cases h
  constraints_sound := by
    intro d p hp c hc
    cases d with
    | none => exact absurd hp (by simp [axγ])
    | some a =>
      obtain ⟨h1, h2, _⟩ := hp
      simp only [List.mem_cons, List.not_mem_nil, or_false] at hc
      rcases hc with rfl | rfl
      · simp only [LCon.sat, LCon.eval, dot_single]; push_cast; linarith
      · simp only [LCon.sat, LCon.eval, Lin.dot]; push_cast; linarith
  congruences_sound := by
    intro d p hp c hc
    cases d with
    | none => exact absurd hp (by simp [axγ])
    | some a =>
      obtain ⟨_, _, z, hz⟩ := hp
      simp only [List.mem_singleton] at hc
      subst hc
      refine ⟨z, ?_⟩
      simp only [Cg.expr, LE.eval, dot_single, hz]
      push_cast; ring
  congruences_nonneg := by
    intro d c hc
    cases d with
    | none => simp at hc
    | some a =>
      simp only [List.mem_singleton] at hc
      subst hc
      exact Int.natCast_nonneg _

instance : DecidableEq AxDom.D := inferInstanceAs (DecidableEq (Option Ax))
def view (x : AxDom.D × AxDom.D) : Option Ax × Option Ax := x

-- x ≡ 2 (mod 5) meets [6, 8] in exactly {7}: both components become the point 7
example : view (productReduce AxDom AxDom .congruences (some ⟨-100, 100, 5, 2⟩) (some ⟨6, 8, 1, 0⟩))
    = (some ⟨7, 7, 5, 2⟩, some ⟨7, 7, 1, 0⟩) := by decide
-- … and misses [8, 11]: the product is emptied
example : view (productReduce AxDom AxDom .congruences (some ⟨-100, 100, 5, 2⟩) (some ⟨8, 11, 1, 0⟩))
    = (none, none) := by decide
-- two hyperplanes (2 and 7) meet [1, 8]: no reduction possible
example : view (productReduce AxDom AxDom .congruences (some ⟨-100, 100, 5, 2⟩) (some ⟨1, 8, 1, 0⟩))
    = (some ⟨-100, 100, 5, 2⟩, some ⟨1, 8, 1, 0⟩) := by decide
-- smash: an empty second component empties the first
example : view (productReduce AxDom AxDom .smash (some ⟨0, 1, 1, 0⟩) (some ⟨3, 2, 1, 0⟩)) = (none, some ⟨3, 2, 1, 0⟩) := by
  decide
example : isEmpty AxDom AxDom .congruences ⟨some ⟨-100, 100, 5, 2⟩, some ⟨8, 11, 1, 0⟩, false⟩ = true := by decide

end C10
