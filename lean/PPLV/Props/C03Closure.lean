import PPLV.WR.ClosureProofsBDS
import PPLV.WR.ClosureProofsOct
import PPLV.WR.ClosureProofsDeduceOct
import PPLV.WR.ClosureProofsFW
import Mathlib.Tactic.IntervalCases
import Mathlib.Tactic.NormNum
/-!
# C03 — closure kernels and deduction helpers of the weakly-relational domains, for every bound type

Statements about the code-shaped models of `PPLV/WR/Closure.lean` (`BD_Shape_templates.hh`,
`Octagonal_Shape_templates.hh`).  A bound is an extended rational, every `ROUND_UP` operation of the
code is an arbitrary `up : ℚ → ExtRat` with the single hypothesis `hup : ∀ x, fin x ≤ up x`
(`mpq_class`: `upId`; `mpz_class`: `upCeil`; bounded integers: `upCeilMax`; floats: round to the next
float, overflow to `+∞`).  `γ m` is the set of valuations `ℕ → ℚ` satisfying every stored entry.

* closures only tighten and never cut a point: `closure_sound`, `incClosure_sound`,
  `strongClosure_sound`, `strongCoherence_sound`, `incStrongClosure_sound`; `tightClosure_sound`
  w.r.t. integer points (`γInt`); `tightClosure_tightens` needs that decrementing an odd integer is
  not rounded above it (true of every integer type; `upCeil_dec`).
* a firing emptiness test is right: `empty_sound`, `incEmpty_sound`, `oct_empty_sound`,
  `incOct_empty_sound`, `tight_empty_sound` (no *integer* point).
* exact arithmetic (`up = upId`, `mpq_class`), `BD_Shape`: `closure_exact` (the closed matrix is the
  canonical tightest one: same points, non-empty, every finite entry attained, every `+∞` entry
  unbounded), `empty_iff_exact` (the emptiness test fires iff the shape is empty),
  `closure_canonical` (closed matrices of equal non-empty shapes are equal).  Not `_partial`; what is
  missing is the analogue for `strong_closure_assign` (octagons).
* deduction helpers: `deduce_v_minus_u_sound`, `deduce_u_minus_v_sound`, `deduce_v_pm_u_sound`,
  `deduce_minus_v_pm_u_sound`.
-/
set_option linter.unusedVariables false
set_option linter.unnecessarySeqFocus false
set_option linter.unusedTactic false
set_option linter.unreachableTactic false
namespace C03
open PPLV.WR
open PPLV.WR.ExtRat (fin pinf)

/-! ## bounded-difference shapes -/

/-- `shortest_path_closure_assign` keeps every point and only lowers entries. -/
theorem closure_sound {n : ℕ} (up : ℚ → ExtRat) (hup : ∀ x : ℚ, (x : ExtRat) ≤ up x) (m : DBM n) :
    DBM.γ m ⊆ DBM.γ (DBM.closure up m) ∧ DBM.closure up m ≤ m :=
  ⟨fun x hx => DBM.closure_sat hup m x hx, DBM.closure_le hup m⟩

/-- `incremental_shortest_path_closure_assign(Variable(v-1))`, `v` the dbm index. -/
theorem incClosure_sound {n : ℕ} (up : ℚ → ExtRat) (hup : ∀ x : ℚ, (x : ExtRat) ≤ up x) (v : ℕ) (hv : v ≤ n)
    (m : DBM n) : DBM.γ m ⊆ DBM.γ (DBM.incClosure up v m) ∧ DBM.incClosure up v m ≤ m :=
  ⟨fun x hx => DBM.incClosure_sat hup hv m x hx, DBM.incClosure_le hup hv m⟩

/-- if the emptiness test of the closure fires (a negative diagonal entry), the shape is empty. -/
theorem empty_sound {n : ℕ} (up : ℚ → ExtRat) (hup : ∀ x : ℚ, (x : ExtRat) ≤ up x) (m : DBM n)
    (h : DBM.closureEmpty up m = true) : DBM.γ m = ∅ :=
  Set.eq_empty_iff_forall_notMem.2 fun x hx => DBM.closureEmpty_sound hup m h x hx

theorem incEmpty_sound {n : ℕ} (up : ℚ → ExtRat) (hup : ∀ x : ℚ, (x : ExtRat) ≤ up x) (v : ℕ) (hv : v ≤ n)
    (m : DBM n) (h : DBM.incClosureEmpty up v m = true) : DBM.γ m = ∅ :=
  Set.eq_empty_iff_forall_notMem.2 fun x hx => DBM.incClosureEmpty_sound hup hv m h x hx

/-! ### non-vacuity: `0 ≤ x₀ ≤ 3`, `x₁ - x₀ ≤ 1` -/

def exB : DBM 2 := DBM.ofLists 2
  [[pinf, fin 3, pinf],
   [fin 0, pinf, fin 1],
   [pinf, pinf, pinf]]

/-- the point `(1, 2)` -/
def ptB : ℕ → ℚ := fun i => if i = 0 then 1 else 2

example : ptB ∈ DBM.γ exB := by
  intro i j hi hj
  interval_cases i <;> interval_cases j <;> simp [exB, DBM.ofLists, Mat.diagDown_apply, Mat.ofLists, DBM.val, ptB] <;> norm_num
example : ptB ∈ DBM.γ (DBM.closure upId exB) := (closure_sound upId upId_sound exB).1 (by
  intro i j hi hj
  interval_cases i <;> interval_cases j <;> simp [exB, DBM.ofLists, Mat.diagDown_apply, Mat.ofLists, DBM.val, ptB] <;> norm_num)
-- the closure deduces `x₁ ≤ 4` and `x₀ - x₁ …` stays unbounded; integers: the same; emptiness test silent
example : (DBM.closure upId exB).e 0 2 = fin 4 := by decide +kernel
example : (DBM.closure upId exB).e 2 1 = pinf := by decide +kernel
example : (DBM.closure upCeil exB).e 0 2 = fin 4 := by decide +kernel
example : (DBM.incClosure upId 1 exB).e 0 2 = fin 4 := by decide +kernel
example : DBM.closureEmpty upId exB = false := by decide +kernel
example : (DBM.incClosure upId 1 exB).e 0 2 ≤ exB.e 0 2 :=
  (incClosure_sound upId upId_sound 1 (by norm_num) exB).2 0 2 (by norm_num) (by norm_num)

/-- `x₀ ≤ 0`, `x₀ ≥ 1` -/
def exBE : DBM 2 := DBM.ofLists 2
  [[pinf, fin 0, pinf],
   [fin (-1), pinf, pinf],
   [pinf, pinf, pinf]]

example : DBM.closureEmpty upId exBE = true := by decide +kernel
example : DBM.γ exBE = ∅ := empty_sound upId upId_sound exBE (by decide +kernel)
example : DBM.γ exBE = ∅ := incEmpty_sound upCeil upCeil_sound 1 (by norm_num) exBE (by decide +kernel)

/-! ## exact arithmetic: the closed matrix is canonical (`BD_Shape<mpq_class>`) -/

/-- With exact arithmetic and a silent emptiness test, `shortest_path_closure_assign` leaves the
canonical matrix of the shape: it has the same points, the shape is non-empty, and for `i ≠ j` a
finite entry is the maximum of `x_j - x_i` over the shape (attained), an infinite entry means that
`x_j - x_i` is unbounded above on the shape. -/
theorem closure_exact {n : ℕ} (m : DBM n) (hne : DBM.closureEmpty upId m = false) :
    DBM.γ (DBM.closure upId m) = DBM.γ m ∧ (DBM.γ m).Nonempty ∧
    ∀ i j, i ≤ n → j ≤ n → i ≠ j →
      (∀ w : ℚ, (DBM.closure upId m).e i j = fin w →
        (∀ x ∈ DBM.γ m, DBM.val x j - DBM.val x i ≤ w) ∧ ∃ x ∈ DBM.γ m, DBM.val x j - DBM.val x i = w) ∧
      ((DBM.closure upId m).e i j = pinf → ∀ B : ℚ, ∃ x ∈ DBM.γ m, B ≤ DBM.val x j - DBM.val x i) := by
  have hs := closure_sound upId upId_sound m
  refine ⟨Set.Subset.antisymm (fun x hx i j hi hj => ExtRat.le_trans' (hx i j hi hj) (hs.2 i j hi hj)) hs.1,
    DBM.closure_nonempty m hne, fun i j hi hj hij => ⟨fun w hw => ⟨fun x hx => ?_, ?_⟩, ?_⟩⟩
  · have := hs.1 hx i j hi hj
    rw [hw, ExtRat.fin_le_fin] at this
    exact this
  · exact (DBM.closure_tight m hne hi hj hij).1 w hw
  · exact (DBM.closure_tight m hne hi hj hij).2

/-- exact arithmetic: the emptiness test of the closure decides emptiness. -/
theorem empty_iff_exact {n : ℕ} (m : DBM n) : DBM.closureEmpty upId m = true ↔ DBM.γ m = ∅ := by
  constructor
  · exact empty_sound upId upId_sound m
  · intro h
    cases hc : DBM.closureEmpty upId m with
    | true => rfl
    | false =>
      obtain ⟨x, hx⟩ := DBM.closure_nonempty m hc
      exact absurd (h ▸ hx : x ∈ (∅ : Set (ℕ → ℚ))) (Set.notMem_empty x)

/-- exact arithmetic: two non-empty shapes with the same points have the same closed matrix. -/
theorem closure_canonical {n : ℕ} (m₁ m₂ : DBM n) (h₁ : DBM.closureEmpty upId m₁ = false)
    (h₂ : DBM.closureEmpty upId m₂ = false) (heq : DBM.γ m₁ = DBM.γ m₂) :
    ∀ i j, i ≤ n → j ≤ n → (DBM.closure upId m₁).e i j = (DBM.closure upId m₂).e i j :=
  fun i j hi hj => DBM.closure_canonical m₁ m₂ h₁ h₂
    (fun x => ⟨fun h => (heq ▸ h : x ∈ DBM.γ m₂), fun h => (heq ▸ h : x ∈ DBM.γ m₁)⟩) hi hj

-- non-vacuity on `exB` (`0 ≤ x₀ ≤ 3`, `x₁ - x₀ ≤ 1`): the entry `x₁ ≤ 4` is attained
example : ∃ x ∈ DBM.γ exB, DBM.val x 2 - DBM.val x 0 = 4 :=
  ((closure_exact exB (by decide +kernel)).2.2 0 2 (by norm_num) (by norm_num) (by norm_num)).1 4
    (by decide +kernel) |>.2
example : ∀ B : ℚ, ∃ x ∈ DBM.γ exB, B ≤ DBM.val x 1 - DBM.val x 2 :=
  ((closure_exact exB (by decide +kernel)).2.2 2 1 (by norm_num) (by norm_num) (by norm_num)).2
    (by decide +kernel)
example : DBM.closureEmpty upId exBE = true := (empty_iff_exact exBE).2
  (empty_sound upId upId_sound exBE (by decide +kernel))
/-- the same shape as `exB` with the redundant `x₁ ≤ 7` added -/
def exB' : DBM 2 := DBM.ofLists 2
  [[pinf, fin 3, fin 7],
   [fin 0, pinf, fin 1],
   [pinf, pinf, pinf]]
example : (DBM.closure upId exB').e 0 2 = (DBM.closure upId exB).e 0 2 := by decide +kernel

/-! ## octagonal shapes -/

/-- `strong_closure_assign`. -/
theorem strongClosure_sound {n : ℕ} (up : ℚ → ExtRat) (hup : ∀ x : ℚ, (x : ExtRat) ≤ up x) (m : OctM n) :
    OctM.γ m ⊆ OctM.γ (OctM.strongClosure up m) ∧ OctM.strongClosure up m ≤ m :=
  ⟨fun x hx => OctM.strongClosure_sat hup m x hx, OctM.strongClosure_le hup m⟩

/-- `strong_coherence_assign`: `m_ij := min(m_ij, (m_i,ci + m_cj,j)/2)` with both operations rounded up. -/
theorem strongCoherence_sound {n : ℕ} (up : ℚ → ExtRat) (hup : ∀ x : ℚ, (x : ExtRat) ≤ up x) (m : OctM n) :
    OctM.γ m ⊆ OctM.γ (OctM.strongCoherence up m) ∧ OctM.strongCoherence up m ≤ m :=
  ⟨fun x hx => OctM.strongCoherence_sat hup m x hx, OctM.strongCoherence_le hup m⟩

/-- `incremental_strong_closure_assign(Variable(vid))`. -/
theorem incStrongClosure_sound {n : ℕ} (up : ℚ → ExtRat) (hup : ∀ x : ℚ, (x : ExtRat) ≤ up x) (vid : ℕ)
    (hv : vid < n) (m : OctM n) :
    OctM.γ m ⊆ OctM.γ (OctM.incStrongClosure up vid m) ∧ OctM.incStrongClosure up vid m ≤ m :=
  ⟨fun x hx => OctM.incStrongClosure_sat hup hv m x hx, OctM.incStrongClosure_le hup hv m⟩

theorem oct_empty_sound {n : ℕ} (up : ℚ → ExtRat) (hup : ∀ x : ℚ, (x : ExtRat) ≤ up x) (m : OctM n)
    (h : OctM.strongClosureEmpty up m = true) : OctM.γ m = ∅ :=
  Set.eq_empty_iff_forall_notMem.2 fun x hx => OctM.strongClosureEmpty_sound hup m h x hx

theorem incOct_empty_sound {n : ℕ} (up : ℚ → ExtRat) (hup : ∀ x : ℚ, (x : ExtRat) ≤ up x) (vid : ℕ)
    (hv : vid < n) (m : OctM n) (h : OctM.incStrongClosureEmpty up vid m = true) : OctM.γ m = ∅ :=
  Set.eq_empty_iff_forall_notMem.2 fun x hx => OctM.incStrongClosureEmpty_sound hup hv m h x hx

/-- `tight_closure_assign` keeps every *integer* point. -/
theorem tightClosure_sound {n : ℕ} (up : ℚ → ExtRat) (hup : ∀ x : ℚ, (x : ExtRat) ≤ up x) (m : OctM n) :
    OctM.γInt m ⊆ OctM.γInt (OctM.tightClosure up m) :=
  fun x hx => ⟨OctM.tightClosure_sat hup m x hx.2 hx.1, hx.2⟩

/-- … and only lowers entries, provided `sub_assign_r(x, x, 1, ROUND_UP)` on an odd integer `x` does not
exceed `x` (every integer type; an arbitrary `up` could round `x - 1` above `x`). -/
theorem tightClosure_tightens {n : ℕ} (up : ℚ → ExtRat) (hup : ∀ x : ℚ, (x : ExtRat) ≤ up x)
    (hdec : ∀ q : ℚ, (fin q).isOddInt = true → up (q - 1) ≤ fin q) (m : OctM n) :
    OctM.tightClosure up m ≤ m :=
  OctM.tightClosure_le hup hdec m

/-- when `tight_closure_assign` marks the shape empty it has no integer point. -/
theorem tight_empty_sound {n : ℕ} (up : ℚ → ExtRat) (hup : ∀ x : ℚ, (x : ExtRat) ≤ up x) (m : OctM n)
    (h : OctM.tightClosureEmpty up m = true) : OctM.γInt m = ∅ :=
  Set.eq_empty_iff_forall_notMem.2 fun x hx => OctM.tightClosureEmpty_sound hup m h x hx.2 hx.1

/-! ### non-vacuity: `2·x₀ ≤ 3`, `-2·x₀ ≤ 0`, `x₁ - x₀ ≤ 1` (rows `+x₀, -x₀, +x₁, -x₁`) -/

def exO : OctM 2 := OctM.ofLists 2
  [[pinf, fin 0],
   [fin 3, pinf],
   [pinf, pinf, pinf, pinf],
   [pinf, fin 1, pinf, pinf]]

/-- the point `(1, 2)` -/
def ptO : ℕ → ℚ := fun i => if i = 0 then 1 else 2

theorem ptO_mem : ptO ∈ OctM.γ exO := by
  intro i j hi hj
  interval_cases i <;> simp only [rowSize] at hj <;> interval_cases j <;>
    simp [exO, OctM.ofLists, Mat.diagUp_apply, Mat.ofLists, OctM.oval, ptO] <;> norm_num

example : ptO ∈ OctM.γ (OctM.strongClosure upId exO) := (strongClosure_sound upId upId_sound exO).1 ptO_mem
example : ptO ∈ OctM.γ (OctM.strongCoherence upCeil exO) := (strongCoherence_sound upCeil upCeil_sound exO).1 ptO_mem
example : ptO ∈ OctM.γ (OctM.incStrongClosure upId 0 exO) :=
  (incStrongClosure_sound upId upId_sound 0 (by norm_num) exO).1 ptO_mem
example : ptO ∈ OctM.γInt (OctM.tightClosure upCeil exO) :=
  tightClosure_sound upCeil upCeil_sound exO ⟨ptO_mem, fun i _ => by
    by_cases h : i = 0
    · exact ⟨1, by simp [ptO, h]⟩
    · exact ⟨2, by simp [ptO, h]⟩⟩
-- `m[3][1]` bounds `-x₀ + x₁`, `m[3][2]` bounds `2·x₁`: strong closure gives `2·x₁ ≤ 5`, tight closure
-- first lowers `2·x₀ ≤ 3` to `2·x₀ ≤ 2` and then gives `2·x₁ ≤ 4`
example : (OctM.strongClosure upId exO).e 3 2 = fin 5 := by decide +kernel
example : (OctM.incStrongClosure upId 0 exO).e 3 2 = fin 5 := by decide +kernel
example : (OctM.tightClosure upCeil exO).e 1 0 = fin 2 := by decide +kernel
example : (OctM.tightClosure upCeil exO).e 3 2 = fin 4 := by decide +kernel
example : OctM.tightClosureEmpty upCeil exO = false := by decide +kernel
example : (OctM.tightClosure upCeil exO).e 3 2 ≤ exO.e 3 2 :=
  tightClosure_tightens upCeil upCeil_sound upCeil_dec exO 3 2 (by norm_num) (by decide)

/-- `2·x₀ ≤ 1`, `-2·x₀ ≤ -1`: the rational point `x₀ = 1/2` only -/
def exOT : OctM 1 := OctM.ofLists 1 [[pinf, fin (-1)], [fin 1, pinf]]

example : OctM.strongClosureEmpty upCeil exOT = false := by decide +kernel
example : OctM.tightClosureEmpty upCeil exOT = true := by decide +kernel
example : OctM.γInt exOT = ∅ := tight_empty_sound upCeil upCeil_sound exOT (by decide +kernel)

/-- `2·x₀ ≤ 0`, `-2·x₀ ≤ -2` -/
def exOE : OctM 1 := OctM.ofLists 1 [[pinf, fin (-2)], [fin 0, pinf]]

example : OctM.γ exOE = ∅ := oct_empty_sound upId upId_sound exOE (by decide +kernel)
example : OctM.γ exOE = ∅ := incOct_empty_sound upId upId_sound 0 (by norm_num) exOE (by decide +kernel)

/-! ## deduction helpers

Common setting.  `x` is the point before the assignment, `x'` the point after it: `x'` agrees with
`x` outside `Variable(vid)` (`hframe`) and `x'_vid ⋈ (Σ_{i<last} e_i·x_i + b)/d` (`hval`; `≤` for the
upper helpers, `≥` for the lower ones, so `=` and the relational forms are both covered).  `m` is the
matrix the helper runs on — in the callers: after `forget_all_…_constraints(v)` and the new unary
bound on `v` — and `x'` satisfies it (`hx'`).  `c` is the finite `ub_v` (resp. `minus_lb_v`) passed by
the caller, which dominates the expression over the box of the unary bounds of the *other*
variables read from `m` (`hS`; the coordinate `vid` keeps its old value `x vid`).  Then `x'` also
satisfies every bound the helper writes. -/

/-- `BD_Shape::deduce_v_minus_u_bounds(v = vid+1, last_v = last, sc_expr, sc_denom = d, ub_v = c)` -/
theorem deduce_v_minus_u_sound (up : ℚ → ExtRat) (hup : ∀ x : ℚ, (x : ExtRat) ≤ up x) (n : ℕ) (m : Mat)
    (vid last : ℕ) (e : ℕ → ℤ) (d : ℤ) (hd : 0 < d) (b c : ℚ) (hlast : last ≤ n) (x x' : ℕ → ℚ)
    (hx' : x' ∈ γB n m) (hframe : ∀ u, u ≠ vid → x' u = x u)
    (hval : x' vid ≤ (linEval e x last + b) / d)
    (hS : ∀ y : ℕ → ℚ, y vid = x vid →
      (∀ w, w < last → w ≠ vid → fin (y w) ≤ m 0 (w+1) ∧ fin (-(y w)) ≤ m (w+1) 0) →
      (linEval e y last + b) / d ≤ c) :
    x' ∈ γB n (deduceVMinusU up (vid+1) last e d (fin c) m) :=
  deduceVMinusU_holds hup hd hlast hx' hframe hval hS

/-- `BD_Shape::deduce_u_minus_v_bounds(v = vid+1, last_v = last, sc_expr, sc_denom = d, minus_lb_v = c)` -/
theorem deduce_u_minus_v_sound (up : ℚ → ExtRat) (hup : ∀ x : ℚ, (x : ExtRat) ≤ up x) (n : ℕ) (m : Mat)
    (vid last : ℕ) (e : ℕ → ℤ) (d : ℤ) (hd : 0 < d) (b c : ℚ) (hlast : last ≤ n) (x x' : ℕ → ℚ)
    (hx' : x' ∈ γB n m) (hframe : ∀ u, u ≠ vid → x' u = x u)
    (hval : (linEval e x last + b) / d ≤ x' vid)
    (hS : ∀ y : ℕ → ℚ, y vid = x vid →
      (∀ w, w < last → w ≠ vid → fin (y w) ≤ m 0 (w+1) ∧ fin (-(y w)) ≤ m (w+1) 0) →
      -((linEval e y last + b) / d) ≤ c) :
    x' ∈ γB n (deduceUMinusV up (vid+1) last e d (fin c) m) :=
  deduceUMinusV_holds hup hd hlast hx' hframe hval hS

/-- `Octagonal_Shape::deduce_v_pm_u_bounds(v_id = vid, last_id = last, sc_expr, sc_denom = d, ub_v = c)`.
The box of `hS` is that of the halves *rounded up* (`div_2exp_assign_r(half, m_cu_u, 1, ROUND_UP)`),
exactly what every caller accumulates `ub_v` from; the `q ≥ 1` rule subtracts such a rounded half
and would not be sound for a `c` that only dominates the expression over the exact box. -/
theorem deduce_v_pm_u_sound (up : ℚ → ExtRat) (hup : ∀ x : ℚ, (x : ExtRat) ≤ up x) (n : ℕ) (m : Mat)
    (vid last : ℕ) (e : ℕ → ℤ) (d : ℤ) (hd : 0 < d) (b c : ℚ) (hlast : last < n) (x x' : ℕ → ℚ)
    (hx' : x' ∈ γO n m) (hframe : ∀ u, u ≠ vid → x' u = x u)
    (hval : x' vid ≤ (linEval e x (last + 1) + b) / d)
    (hS : ∀ y : ℕ → ℚ, y vid = x vid →
      (∀ w, w < last + 1 → w ≠ vid →
        fin (y w) ≤ ExtRat.halfUp up (m (2 * w + 1) (2 * w)) ∧
        fin (-(y w)) ≤ ExtRat.halfUp up (m (2 * w) (2 * w + 1))) →
      (linEval e y (last + 1) + b) / d ≤ c) :
    x' ∈ γO n (deduceVPmU up vid last e d (fin c) m) :=
  deduceVPmU_holds hup hd hlast hx' hframe hval hS

/-- `Octagonal_Shape::deduce_minus_v_pm_u_bounds(v_id = vid, last_id = last, …, minus_lb_v = c)` -/
theorem deduce_minus_v_pm_u_sound (up : ℚ → ExtRat) (hup : ∀ x : ℚ, (x : ExtRat) ≤ up x) (n : ℕ) (m : Mat)
    (vid last : ℕ) (e : ℕ → ℤ) (d : ℤ) (hd : 0 < d) (b c : ℚ) (hlast : last < n) (x x' : ℕ → ℚ)
    (hx' : x' ∈ γO n m) (hframe : ∀ u, u ≠ vid → x' u = x u)
    (hval : (linEval e x (last + 1) + b) / d ≤ x' vid)
    (hS : ∀ y : ℕ → ℚ, y vid = x vid →
      (∀ w, w < last + 1 → w ≠ vid →
        fin (y w) ≤ ExtRat.halfUp up (m (2 * w + 1) (2 * w)) ∧
        fin (-(y w)) ≤ ExtRat.halfUp up (m (2 * w) (2 * w + 1))) →
      -((linEval e y (last + 1) + b) / d) ≤ c) :
    x' ∈ γO n (deduceMinusVPmU up vid last e d (fin c) m) :=
  deduceMinusVPmU_holds hup hd hlast hx' hframe hval hS

/-! ### non-vacuity: `x₀ := 2·x₁` resp. `x₀ := x₁/2` with `0 ≤ x₁ ≤ 3`, old point `(5, 1)` -/

/-- the matrix after `forget_all_dbm_constraints(x₀)`: only `0 ≤ x₁ ≤ 3` -/
def exD : Mat := Mat.ofLists
  [[pinf, pinf, fin 3],
   [pinf, pinf, pinf],
   [fin 0, pinf, pinf]]

def eTwo : ℕ → ℤ := fun i => if i = 1 then 2 else 0
def eOne : ℕ → ℤ := fun i => if i = 1 then 1 else 0
def ptOld : ℕ → ℚ := fun i => if i = 0 then 5 else 1

-- `q = 2 ≥ 1`: `x₀ - x₁ ≤ ub_v - ub_u = 6 - 3`;  `q = 1/2`: `x₀ - x₁ ≤ 3/2 + (0 - 1/2·3) = 0`
example : deduceVMinusU upId 1 2 eTwo 1 (fin 6) exD 2 1 = fin 3 := by decide +kernel
example : deduceVMinusU upId 1 2 eOne 2 (fin (3/2)) exD 2 1 = fin 0 := by decide +kernel
example : deduceUMinusV upId 1 2 eTwo 1 (fin 0) exD 1 2 = fin 0 := by decide +kernel

theorem exD_mem (t : ℚ) : (fun i => if i = 0 then t else 1) ∈ γB 2 exD := by
  intro i j hij
  obtain ⟨hi, hj⟩ := hij
  interval_cases i <;> interval_cases j <;> simp [exD, Mat.ofLists, DBM.val] <;> norm_num

/-- all hypotheses of `deduce_v_minus_u_sound` hold on the instance `x₀' = 2·x₁ = 2`, `c = 6` -/
example : (fun i => if i = 0 then (2 : ℚ) else 1) ∈ γB 2 (deduceVMinusU upId 1 2 eTwo 1 (fin 6) exD) :=
  deduce_v_minus_u_sound upId upId_sound 2 exD 0 2 eTwo 1 (by norm_num) 0 6 (by norm_num) ptOld _
    (exD_mem 2) (by intro u hu; simp [ptOld, hu]) (by simp [linEval, eTwo, ptOld])
    (by
      intro y _ hb
      have := (hb 1 (by norm_num) (by norm_num)).1
      simp only [exD, Mat.ofLists] at this
      simp [ExtRat.fin_le_fin] at this
      simp [linEval, eTwo]
      linarith)

/-- … and of `deduce_u_minus_v_sound` on `x₀' = 2·x₁ = 2`, `minus_lb_v = 0` -/
example : (fun i => if i = 0 then (2 : ℚ) else 1) ∈ γB 2 (deduceUMinusV upId 1 2 eTwo 1 (fin 0) exD) :=
  deduce_u_minus_v_sound upId upId_sound 2 exD 0 2 eTwo 1 (by norm_num) 0 0 (by norm_num) ptOld _
    (exD_mem 2) (by intro u hu; simp [ptOld, hu]) (by simp [linEval, eTwo, ptOld])
    (by
      intro y _ hb
      have := (hb 1 (by norm_num) (by norm_num)).2
      simp only [exD, Mat.ofLists] at this
      simp [ExtRat.fin_le_fin] at this
      simp [linEval, eTwo]
      linarith)

/-- octagon after `forget_all_octagonal_constraints(x₀)`: `2·x₁ ≤ 6`, `-2·x₁ ≤ 0` -/
def exDO : Mat := Mat.ofLists
  [[pinf, pinf],
   [pinf, pinf],
   [pinf, pinf, pinf, fin 0],
   [pinf, pinf, fin 6, pinf]]

def eMinusTwo : ℕ → ℤ := fun i => if i = 1 then -2 else 0

-- `x₀ := 2·x₁`: `x₀ - x₁ ≤ 6 - 3` stored at `m[2][0]`; `x₀ := -2·x₁`: `x₀ + x₁ ≤ 0 - 0` at `m[3][0]`
example : deduceVPmU upId 0 1 eTwo 1 (fin 6) exDO 2 0 = fin 3 := by decide +kernel
example : deduceVPmU upId 0 1 eMinusTwo 1 (fin 0) exDO 3 0 = fin 0 := by decide +kernel
example : deduceMinusVPmU upId 0 1 eTwo 1 (fin 0) exDO 3 1 = fin 0 := by decide +kernel
example : deduceMinusVPmU upId 0 1 eMinusTwo 1 (fin 6) exDO 2 1 = fin 3 := by decide +kernel

theorem exDO_mem (t : ℚ) : (fun i => if i = 0 then t else 1) ∈ γO 2 exDO := by
  intro i j hij
  obtain ⟨hi, hj⟩ := hij
  interval_cases i <;> simp only [rowSize] at hj <;> interval_cases j <;>
    simp [exDO, Mat.ofLists, OctM.oval] <;> norm_num

example : (fun i => if i = 0 then (2 : ℚ) else 1) ∈ γO 2 (deduceVPmU upId 0 1 eTwo 1 (fin 6) exDO) :=
  deduce_v_pm_u_sound upId upId_sound 2 exDO 0 1 eTwo 1 (by norm_num) 0 6 (by norm_num) ptOld _
    (exDO_mem 2) (by intro u hu; simp [ptOld, hu]) (by simp [linEval, eTwo, ptOld])
    (by
      intro y _ hb
      have := (hb 1 (by norm_num) (by norm_num)).1
      simp only [exDO, Mat.ofLists] at this
      simp [ExtRat.halfUp, upId, ExtRat.fin_le_fin] at this
      simp [linEval, eTwo]
      linarith)

example : (fun i => if i = 0 then (2 : ℚ) else 1) ∈ γO 2 (deduceMinusVPmU upId 0 1 eTwo 1 (fin 0) exDO) :=
  deduce_minus_v_pm_u_sound upId upId_sound 2 exDO 0 1 eTwo 1 (by norm_num) 0 0 (by norm_num) ptOld _
    (exDO_mem 2) (by intro u hu; simp [ptOld, hu]) (by simp [linEval, eTwo, ptOld])
    (by
      intro y _ hb
      have := (hb 1 (by norm_num) (by norm_num)).2
      simp only [exDO, Mat.ofLists] at this
      simp [ExtRat.halfUp, upId, ExtRat.fin_le_fin] at this
      simp [linEval, eTwo]
      linarith)

end C03
