import PPLV.Props.C05
import PPLV.Lattice.ProofsRedRow
import PPLV.Lattice.ProofsRedSem
import PPLV.Lattice.ProofsRedBridge
import PPLV.Lattice.ProofsRedNorm
import PPLV.Lattice.ProofsRedCgLoop
import PPLV.Lattice.ProofsRedCgTri
import PPLV.Lattice.ProofsRedCgComplete
import PPLV.Lattice.ProofsRedCgStepSol
import PPLV.Lattice.ProofsRedK2
import PPLV.Lattice.ProofsRedGenEnd
import PPLV.Lattice.ProofsRedGenTri
import PPLV.Lattice.ProofsRedGenConv
import PPLV.Lattice.ProofsConvGCCert
import PPLV.Lattice.ProofsConvCGCert
import PPLV.Lattice.ProofsConvGCComplete
import PPLV.Lattice.ProofsConvGCCertB
import PPLV.Lattice.ProofsConvGCTri
import PPLV.Lattice.ProofsConvCGFinal
import PPLV.Lattice.ProofsConvCGTri
import PPLV.Lattice.ProofsConvCGHom
import PPLV.Lattice.ProofsRedCgConv

/-!
# C05, stage 2 — Grid's own algorithms: `Grid::simplify` (both overloads), `Grid::conversion` (both directions)

Property statements only.  The code-shaped models are `PPLV/Lattice/Reduce.lean` (Grid_simplify.cc,
`reduce_reduced` of Grid_templates.hh) and `PPLV/Lattice/Convert.lean` (Grid_conversion.cc,
`normalize_divisors`); the denotations are in `PPLV/Lattice/RedSem.lean` / `ProofsRedSem.lean`:

* a congruence row `(e, m)` denotes the K2 congruence `Σ e[i+1]·xᵢ + e[0] ≡ 0 (mod m)` (`CRow.toCg`); `cgsSem n rows`
  is `CgSys.sem n` of these, i.e. the semantics `cgSysSet` of `PPLV/Props/C05.lean`; `Sol rows x` is the same without
  the support condition (`Sol_iff_toCg`);
* a generator system denotes, in homogeneous coordinates (columns `0..n`), `Hom n rows` = ℤ-span of the
  parameter/point rows + ℚ-span of the line rows; the grid is `{x | (D, D·x) ∈ Hom}`; on a system whose divisors are
  normalised this is K2's `Gen.sem` of the PPL reading `gensOf` (`gensOf_hom`).

The driver `pplv_gridred` replays these models on the journalled inputs of the real functions and demands
identical rows, and evaluates the conclusions below on the real outputs with the K2 deciders.
-/
namespace C05
open PPLV.Lattice PPLV.Lattice.Red

/-! ## arithmetic -/

/-- the model of `gcdext_assign` (`mpz_gcdext`) returns the gcd and a Bézout pair -/
theorem gcdext_bezout (a b : Int) (hb : b ≠ 0) :
    (gcdext a b).1 = (Int.gcd a b : Int) ∧ (gcdext a b).2.1 * a + (gcdext a b).2.2 * b = (Int.gcd a b : Int) :=
  gcdext_spec a b hb

/-- GMP's choice on `gcdext(6, 4)`: `2 = 1·6 + (-1)·4` -/
example : gcdext 6 4 = (2, 1, -1) := by decide +kernel

/-! ## the two readings of a generator system; `normalize_divisors` -/

/-- on a system normalised with divisor `D` the homogeneous lattice and the PPL reading (K2's `Gen.sem`) agree -/
theorem gensOf_hom (n : Nat) (D : Int) (rows : List GRow) (h : GNorm n D rows) :
    ∃ G, gensOf n rows = some G ∧ ∀ x, x ∈ gridSet G ↔ Hom n rows (homog (D : ℚ) x) :=
  gensOf_gnorm n D rows h

/-- the point `(1/2)` and the parameter `(3/2)`: rows `(2;1|0)`, `(0;3|2)` -/
example : GNorm 1 2 [{ line := false, e := [2, 1, 0] }, { line := false, e := [0, 3, 2] }] where
  pos := by decide
  pt := ⟨_, List.mem_cons_self, rfl, rfl⟩
  col0 := by intro r hr _; simp at hr; rcases hr with rfl | rfl <;> simp [Red.get]
  par := by intro r hr _ h0; simp at hr; rcases hr with rfl | rfl <;> simp_all [Red.get]
  lin := by intro r hr hl; simp at hr; rcases hr with rfl | rfl <;> simp_all

/-- `Grid::normalize_divisors(sys, divisor)` does not change the PPL reading of the system -/
theorem normalize_divisors_preserves (n : Nat) (rows : List GRow) (d : Int) (hs : GShape n rows) :
    gensOf n (normalizeDivisors n rows d).1 = gensOf n rows :=
  normalizeDivisors_gensOf n rows d hs

/-- points `1/2` and `1/3`: the common divisor becomes 6 -/
example : normalizeDivisors 1 [{ line := false, e := [2, 1, 0] }, { line := false, e := [3, 1, 0] }] 1
    = ([{ line := false, e := [6, 3, 0] }, { line := false, e := [6, 2, 0] }], 6) := by decide +kernel

/-! ## `Grid::simplify(Congruence_System&, Dimension_Kinds&)` -/

/-- `Congruence_System::normalize_moduli` keeps the solution set -/
theorem normalize_moduli_preserves (n : Nat) (rows : List CRow) (hwf : CWf n rows) (x : Pt) :
    Sol (normalizeModuli rows) x ↔ Sol rows x := normalizeModuli_sol n rows hwf x

/-- `reduce_equality_with_equality` on two equalities that vanish after column `dim` (the loop invariant) -/
theorem reduce_equality_with_equality_preserves (rows : List CRow) (ri pi dim : Nat)
    (hpi : pi < rows.length) (hne : pi ≠ ri)
    (hl : (rowAt rows pi).e.length = (rowAt rows ri).e.length)
    (hrm : (rowAt rows ri).m = 0) (hpm : (rowAt rows pi).m = 0)
    (hrz : ∀ j, dim < j → get (rowAt rows ri).e j = 0) (hpz : ∀ j, dim < j → get (rowAt rows pi).e j = 0)
    (hpc : get (rowAt rows pi).e dim ≠ 0) (x : Pt) :
    Sol (rows.set ri (reduceEqualityWithEquality (rowAt rows ri) (rowAt rows pi) dim)) x ↔ Sol rows x :=
  reduceEqualityWithEquality_sol rows ri pi dim hpi hne hl hrm hpm hrz hpz hpc x

/-- `2y + 1 = 0`, `3y = 0` (pivot): the row becomes `3·(2y + 1) - 2·(3y) = 3` -/
example : ∀ x, Sol ([⟨[0, 3], 0⟩, ⟨[1, 2], 0⟩].set 1 (reduceEqualityWithEquality ⟨[1, 2], 0⟩ ⟨[0, 3], 0⟩ 1)) x ↔
    Sol [⟨[0, 3], 0⟩, ⟨[1, 2], 0⟩] x :=
  reduce_equality_with_equality_preserves [⟨[0, 3], 0⟩, ⟨[1, 2], 0⟩] 1 0 1 (by decide) (by decide) rfl rfl rfl
    (fun j hj => get_of_length_le _ _ (by show 2 ≤ j; omega)) (fun j hj => get_of_length_le _ _ (by show 2 ≤ j; omega))
    (by decide)

/-- `reduce_pc_with_pc` on two proper congruences with the same modulus: a unimodular row operation -/
theorem reduce_pc_with_pc_congs_preserves (rows : List CRow) (ri pi dim : Nat)
    (hri : ri < rows.length) (hpi : pi < rows.length) (hne : pi ≠ ri)
    (hl : (rowAt rows pi).e.length = (rowAt rows ri).e.length)
    (hmm : (rowAt rows pi).m = (rowAt rows ri).m)
    (hrz : ∀ j, dim < j → get (rowAt rows ri).e j = 0) (hpz : ∀ j, dim < j → get (rowAt rows pi).e j = 0)
    (hpc : get (rowAt rows pi).e dim ≠ 0) (hrc : get (rowAt rows ri).e dim ≠ 0) (x : Pt) :
    Sol ((rows.set ri (reducePcWithPc (rowAt rows ri) (rowAt rows pi) dim 0 (dim + 1)).1).set pi
      (reducePcWithPc (rowAt rows ri) (rowAt rows pi) dim 0 (dim + 1)).2) x ↔ Sol rows x :=
  reducePcWithPc_sol rows ri pi dim hri hpi hne hl hmm hrz hpz hpc hrc x

/-- `2y + 1 ≡ 0`, `4y + 3 ≡ 0 (mod 4)` -/
example : ∀ x, Sol (([⟨[3, 4], 4⟩, ⟨[1, 2], 4⟩].set 1 (reducePcWithPc (⟨[1, 2], 4⟩ : CRow) ⟨[3, 4], 4⟩ 1 0 2).1).set 0
      (reducePcWithPc (⟨[1, 2], 4⟩ : CRow) ⟨[3, 4], 4⟩ 1 0 2).2) x ↔ Sol [⟨[3, 4], 4⟩, ⟨[1, 2], 4⟩] x :=
  reduce_pc_with_pc_congs_preserves [⟨[3, 4], 4⟩, ⟨[1, 2], 4⟩] 1 0 1 (by decide) (by decide) (by decide) rfl rfl
    (fun j hj => get_of_length_le _ _ (by show 2 ≤ j; omega)) (fun j hj => get_of_length_le _ _ (by show 2 ≤ j; omega))
    (by decide) (by decide)

/-- `reduce_congruence_with_equality`: all proper congruences are scaled by one positive factor, then a multiple
    of the equality is subtracted -/
theorem reduce_congruence_with_equality_preserves (n : Nat) (sys : List CRow) (ri pi dim : Nat)
    (hwf : RWf n sys) (hri : ri < sys.length) (hpi : pi < sys.length) (hne : pi ≠ ri)
    (hpm : (rowAt sys pi).m = 0) (hrm : 0 < (rowAt sys ri).m)
    (hpc : get (rowAt sys pi).e dim ≠ 0) (x : Pt) :
    Sol (reduceCongruenceWithEquality sys ri pi dim) x ↔ Sol sys x :=
  reduceCongruenceWithEquality_sol n sys ri pi dim hwf hri hpi hne hpm hrm hpc x

/-- `reduce_reduced` (congruence instance): legitimate because `dim_kinds` records the kinds of the rows above the
    pivot in order and the proper congruences share one modulus -/
theorem reduce_reduced_congs_preserves (n : Nat) (dk : List Nat) (p : Nat → Nat) (k dim : Nat) (M : Int) (rows : List CRow)
    (hK : KInv dk p k (dim + 1) (n + 1)) (hdk : dk.length = n + 1) (hk : k < rows.length) (hwf : RWf n rows)
    (hkinds : ∀ i, i < k → KindOK (rowAt rows i) (kind dk (p i)))
    (hpk : KindOK (rowAt rows k) (kind dk dim)) (hpz : ∀ j, dim < j → get (rowAt rows k).e j = 0)
    (hmod : SameMod rows M) (x : Pt) :
    Sol (reduceReduced rows dim k 0 dim dk false) x ↔ Sol rows x :=
  reduceReduced_sol n dk p k dim M rows hK hdk hk hwf hkinds hpk hpz hmod x

/-- **the whole loop**: a `false` flag means the returned system has the solutions of the input, a `true` flag
    means the input has none (and conversely, `simplify_congs_flag_iff`) -/
theorem simplify_congs_preserves (n : Nat) (rows : List CRow) (dk : List Nat) (hwf : CWf n rows) :
    let r := simplifyCgs n rows dk
    (r.2.2 = false → ∀ x, cgsSem n r.1 x ↔ cgsSem n rows x) ∧ (r.2.2 = true → ∀ x, ¬ cgsSem n rows x) :=
  simplifyCgs_preserves n rows dk hwf

/-- the emptiness flag is exact -/
theorem simplify_congs_flag_iff (n : Nat) (rows : List CRow) (dk : List Nat) (hwf : CWf n rows) :
    (simplifyCgs n rows dk).2.2 = true ↔ ∀ x, ¬ cgsSem n rows x :=
  simplifyCgs_flag_iff n rows dk hwf

/-- the result is in the triangular form described by `dim_kinds`: `Grid::lower_triangular` accepts it, and
    (`Final`) every row is the pivot row of a strictly decreasing dimension, positive there, zero after it, its
    kind recorded in `dim_kinds`; one shared modulus; the last row is the integrality congruence -/
theorem simplify_congs_triangular (n : Nat) (rows : List CRow) (dk : List Nat) (hwf : CWf n rows) :
    let r := simplifyCgs n rows dk
    r.2.2 = false → lowerTriangular n r.1 r.2.1 = true ∧ Final n r.1 r.2.1 :=
  fun hf => ⟨simplifyCgs_lowerTriangular n rows dk hwf hf, simplifyCgs_triangular n rows dk hwf hf⟩

/-- `x ≡ 1 (mod 2)`, `x + y = 0`, `y ≡ 0 (mod 3)` -/
example : CWf 2 exRows ∧ (simplifyCgs 2 exRows []).2.2 = false := by
  refine ⟨?_, by decide +kernel⟩
  intro r hr
  simp only [exRows, List.mem_cons, List.not_mem_nil, or_false] at hr
  rcases hr with rfl | rfl | rfl <;> exact ⟨rfl, by decide⟩
/-- what the code computes on it -/
example : simplifyCgs 2 exRows [] =
    ([⟨[0, 1, 1], 0⟩, ⟨[3, 1, 0], 6⟩, ⟨[6, 0, 0], 6⟩], [0, 0, 2], false) := by decide +kernel
/-- `x = 0`, `x = 1`: inconsistent -/
example : (simplifyCgs 1 [⟨[0, 1], 0⟩, ⟨[-1, 1], 0⟩] []).2.2 = true := by decide +kernel

/-- **K2 corollary**: the model's output, fed to K2's verified equality decider, is the input grid; a `true`
    flag means K2's conversion of the input is empty -/
theorem simplify_congs_k2 (n : Nat) (rows : List CRow) (dk : List Nat) (hwf : CWf n rows) :
    let r := simplifyCgs n rows dk
    (r.2.2 = false → equivB (consToGens n (cgsOf rows)) (consToGens n (cgsOf r.1)) = true) ∧
    (r.2.2 = true → (consToGens n (cgsOf rows)).isEmpty = true) := by
  intro r
  obtain ⟨h1, h2⟩ := simplifyCgs_preserves n rows dk hwf
  constructor
  · intro hf
    rw [equiv_iff, consToGens_spec, consToGens_spec]
    ext x
    exact (h1 hf x).symm
  · intro ht
    rw [isEmpty_iff, consToGens_spec]
    ext x
    simp only [cgSysSet, Set.mem_ofPred_eq, Set.mem_empty_iff_false, iff_false]
    exact h2 ht x

example : equivB (consToGens 2 (cgsOf exRows)) (consToGens 2 (cgsOf (simplifyCgs 2 exRows []).1)) = true := by
  decide +kernel

/-! ## `Grid::simplify(Grid_Generator_System&, Dimension_Kinds&)`

`HomSim n rows rows'` (`ProofsRedGenBase.lean`) is `∃ k : ℤ, 0 < k ∧ ∀ v, Hom n rows v ↔ Hom n rows' (k • v)`: the
homogeneous lattice is unchanged up to the positive integer factor by which `reduce_parameter_with_line` scales every
parameter and point (the system divisor is scaled with it, so the grid `{x | (D, D·x) ∈ Hom}` is unchanged). -/

/-- `reduce_line_with_line`: a line is replaced by a non-zero multiple of itself plus a multiple of the pivot line -/
theorem reduce_line_with_line_preserves {n p dim ri : Nat} {rows : List GRow}
    (hri : ri < rows.length) (hp : p < rows.length) (hne : ri ≠ p) (hle : p ≤ ri) (hwf : WfI n rows)
    (hz : ZeroPre p dim rows) (hdim : dim ≤ n) (hpc : Red.get (rowAt rows p).e dim ≠ 0)
    (hrl : (rowAt rows ri).line = true) (hpl : (rowAt rows p).line = true) :
    HomSim n rows (rows.set ri (reduceLineWithLine (rowAt rows ri) (rowAt rows p) dim)) :=
  reduceLineWithLine_homSim hri hp hne hle hwf hz hdim hpc hrl hpl

/-- `reduce_pc_with_pc` on two parameter/point rows: a unimodular row operation (determinant 1 by Bézout) -/
theorem reduce_pc_with_pc_gens_preserves {n p dim ri : Nat} {rows : List GRow}
    (hri : ri < rows.length) (hp : p < rows.length) (hne : ri ≠ p) (hle : p ≤ ri) (hwf : WfI n rows)
    (hz : ZeroPre p dim rows) (hdim : dim ≤ n) (hpc : Red.get (rowAt rows p).e dim ≠ 0)
    (hrc : Red.get (rowAt rows ri).e dim ≠ 0)
    (hrl : (rowAt rows ri).line = false) (hpl : (rowAt rows p).line = false) :
    HomSim n rows ((rows.set ri (reducePcWithPc (rowAt rows ri) (rowAt rows p) dim dim (n + 1)).1).set p
      (reducePcWithPc (rowAt rows ri) (rowAt rows p) dim dim (n + 1)).2) :=
  reducePcWithPc_homSim hri hp hne hle hwf hz hdim hpc hrc hrl hpl

/-- `reduce_parameter_with_line` (both branches): every parameter/point is scaled by `|pivot[dim]/gcd|`, then a
    multiple of the line is subtracted -/
theorem reduce_parameter_with_line_preserves {n p dim ri : Nat} {rows : List GRow}
    (hri : ri < rows.length) (hp : p < rows.length) (hne : ri ≠ p) (hle : p ≤ ri) (hwf : WfI n rows)
    (hz : ZeroPre p dim rows) (hdim : dim ≤ n) (hpc : Red.get (rowAt rows p).e dim ≠ 0)
    (hrl : (rowAt rows ri).line = false) (hpl : (rowAt rows p).line = true) :
    HomSim n rows (reduceParameterWithLine rows ri p dim (n + 1 + 1)) :=
  reduceParameterWithLine_homSim hri hp hne hle hwf hz hdim hpc hrl hpl

/-- `reduce_parameter_with_line(rows[2], rows[1], 1, rows, 3)` on point `0`, line `(2)`, parameter `(3)`: the general
    branch, multiplier 2 -/
example : HomSim 1 exRows1 (reduceParameterWithLine exRows1 2 1 1 (1 + 1 + 1)) :=
  reduce_parameter_with_line_preserves (n := 1) (p := 1) (dim := 1) (ri := 2) (by decide) (by decide) (by decide)
    (by decide) (wfI_of_gwf exRows1_wf)
    (by
      intro i h1 h2 c hc
      have hc0 : c = 0 := by omega
      subst hc0
      have h3 : i < 3 := h2
      have : i = 1 ∨ i = 2 := by omega
      rcases this with rfl | rfl <;> rfl)
    (by decide) (by decide) (by decide) (by decide)

/-- `reduce_reduced` (generator instance) under the triangular invariant `Tri` of the rows above the pivot -/
theorem reduce_reduced_gens_preserves {n p dim : Nat} {dk : List Nat} {rows : List GRow}
    (hdim : dim ≤ n) (hp : p < rows.length) (hwf : WfI n rows)
    (hz : ∀ c < dim, Red.get (rowAt rows p).e c = 0)
    (hk : kind dk dim = LINE → (rowAt rows p).line = true) (ht : Tri dk rows dim p) :
    HomSim n rows (reduceReduced rows dim p dim n dk) :=
  reduceReduced_homSim hdim hp hwf hz hk ht

/-- **the whole loop** keeps the homogeneous lattice up to the scaling factor -/
theorem simplify_gens_preserves (n : Nat) (rows : List GRow) (dk : List Nat) (hwf : GWf n rows) :
    ∃ k : ℤ, 0 < k ∧ ∀ v, Hom n rows v ↔ Hom n (simplifyGens n rows dk).1 ((k : ℚ) • v) :=
  simplifyGens_preserves n rows dk hwf

/-- the result is in the triangular form described by `dim_kinds`: `Grid::upper_triangular` accepts it; `Tri`: the
    rows are, in order, the pivot rows of the non-virtual dimensions (positive diagonal, zeros before it, the kind is
    `LINE` exactly for line rows); sizes are kept; parameters carry the divisor of the point -/
theorem simplify_gens_triangular (n : Nat) (rows : List GRow) (dk : List Nat) (hwf : GWf n rows) :
    upperTriangular n (simplifyGens n rows dk).1 (simplifyGens n rows dk).2 = true ∧
    Tri (simplifyGens n rows dk).2 (simplifyGens n rows dk).1 (n + 1) (simplifyGens n rows dk).1.length ∧
    GWf n (simplifyGens n rows dk).1 :=
  ⟨simplifyGens_triangular n rows dk hwf, simplifyGens_tri n rows dk hwf, simplifyGens_wf n rows dk hwf⟩

/-- the point `(1/2, 0)`, the line `(1, 1)`, the parameter `(3/2, 0)` -/
example : GWf 2 exGRows ∧ simplifyGens 2 exGRows [] =
    ([{ line := false, e := [2, 0, -1, 0] }, { line := true, e := [0, 1, 1, 0] }, { line := false, e := [0, 0, 3, 2] }],
      [PARAMETER, LINE, PARAMETER]) := ⟨exRows_wf, by decide⟩

theorem normalised_of_gnorm {n : Nat} {D : Int} {rows : List GRow} (h : GNorm n D rows) : Normalised n D rows :=
  ⟨h.pos, h.col0, h.pt, h.par, h.lin⟩

/-- on a system with normalised divisors the output is normalised with divisor `k·D` -/
theorem simplify_gens_normalised (n : Nat) (D : Int) (rows : List GRow) (dk : List Nat) (hwf : GWf n rows)
    (hN : GNorm n D rows) :
    ∃ k : ℤ, 0 < k ∧ GNorm n (k * D) (simplifyGens n rows dk).1 ∧
      ∀ v, Hom n rows v ↔ Hom n (simplifyGens n rows dk).1 ((k : ℚ) • v) := by
  obtain ⟨k, hk, hN', hH⟩ := simplifyGens_normalised dk hwf (normalised_of_gnorm hN)
  exact ⟨k, hk, ⟨hN'.Dpos, hN'.pt, hN'.pc, hN'.par, hN'.ln⟩, hH⟩

/-- **K2 corollary**: the PPL reading of the model's output, fed to K2's verified equality decider, is the PPL reading
    of the input -/
theorem simplify_gens_k2 (n : Nat) (D : Int) (rows : List GRow) (dk : List Nat) (hwf : GWf n rows)
    (hN : GNorm n D rows) :
    ∃ G G', gensOf n rows = some G ∧ gensOf n (simplifyGens n rows dk).1 = some G' ∧ equivB G G' = true := by
  obtain ⟨k, hk, hN', hH⟩ := simplify_gens_normalised n D rows dk hwf hN
  exact equivB_of_homScaled n D (k * D) rows _ hN hN' k hk hH

example : GNorm 2 2 exGRows :=
  ⟨exRows_norm.Dpos, exRows_norm.pt, exRows_norm.pc, exRows_norm.par, exRows_norm.ln⟩

/-! ## `Grid::conversion(Grid_Generator_System&, Congruence_System&, Dimension_Kinds&)`

Hypotheses: the source is accepted by `Grid::upper_triangular` with these `dim_kinds` (`kind dk 0 = PARAMETER`: the
point), every kind is one of the three enumerators (`KindsOK`), and the kinds agree with the line flags of the rows
(`LinesAgree`, `ParamsAgree`) — all of them conclusions of `simplify_gens_triangular`. -/

/-- `multiply_grid` (congruence instance) keeps the solution set -/
theorem multiply_grid_congs_preserves (n : Nat) (mult : Int) (hm : 0 < mult) (T : List CRow) (r N : Nat)
    (hN : T.length ≤ N) (x : Pt) : cgsSem n (multiplyGridCg mult T r N) x ↔ cgsSem n T x :=
  multiplyGridCg_sem n mult hm T r N hN x

/-- **generators → congruences is exact**: the produced system denotes the grid of the source -/
theorem conversion_gens_to_congs_correct (n : Nat) (source : List GRow) (dk : List Nat) (hw : GWf n source)
    (ht : upperTriangular n source dk = true) (hl : dk.length = n + 1) (h0 : kind dk 0 = PARAMETER)
    (hk : KindsOK n dk) (hla : LinesAgree n source dk) (hpa : ParamsAgree n source dk) (x : Pt) :
    cgsSem n (conversionGensToCgs n source dk) x ↔
      Hom n source (homog ((Red.get (rowAt source 0).e 0 : Int) : ℚ) x) :=
  conversionGensToCgs_exact n source dk hw ht hl h0 hk hla hpa x

/-- the soundness half needs the agreement of the kinds for the lines only; the certificate checker accepts the
    model's output -/
theorem conversion_gens_to_congs_sound (n : Nat) (source : List GRow) (dk : List Nat) (hw : GWf n source)
    (ht : upperTriangular n source dk = true) (hl : dk.length = n + 1) (h0 : kind dk 0 = PARAMETER)
    (hk : KindsOK n dk) (hla : LinesAgree n source dk) :
    gcCertB n source (conversionGensToCgs n source dk) = true ∧
    ∀ x, Hom n source (homog ((Red.get (rowAt source 0).e 0 : Int) : ℚ) x) →
      cgsSem n (conversionGensToCgs n source dk) x :=
  ⟨conversionGensToCgs_cert n source dk ht hl h0 hk hla, conversionGensToCgs_sound n source dk hw ht hl h0 hk hla⟩

/-- the produced system is accepted by `Grid::lower_triangular` (the assertion at the end of the function) -/
theorem conversion_gens_to_congs_triangular (n : Nat) (source : List GRow) (dk : List Nat)
    (ht : upperTriangular n source dk = true) (hl : dk.length = n + 1) (h0 : kind dk 0 = PARAMETER)
    (hk : KindsOK n dk) : lowerTriangular n (conversionGensToCgs n source dk) dk = true :=
  conversionGensToCgs_triangular n source dk ht hl h0 hk

/-- point `1/2`, parameter `3/2`: the hypotheses hold -/
example :
    let source : List GRow := [{ line := false, e := [2, 1, 0] }, { line := false, e := [0, 3, 2] }]
    let dk : List Nat := [PARAMETER, PARAMETER]
    upperTriangular 1 source dk = true ∧ dk.length = 1 + 1 ∧ kind dk 0 = PARAMETER ∧ KindsOK 1 dk ∧
      ParamsAgree 1 source dk := by
  refine ⟨by decide, rfl, rfl, ?_, ?_⟩
  · intro d hd
    have : d = 0 ∨ d = 1 := by omega
    rcases this with rfl | rfl <;> decide
  · intro g _ _ d hd _ _
    have : d = 0 ∨ d = 1 := by omega
    rcases this with rfl | rfl <;> rfl

/-- **K2 form** (certified): a normalised source accepted by the checker is included, by K2's verified inclusion
    decider, in the K2 grid of the produced congruences -/
theorem conversion_gens_to_congs_k2 (n : Nat) (D : Int) (source : List GRow) (dk : List Nat) (hn : GNorm n D source)
    (hw : GWf n source) (ht : upperTriangular n source dk = true) (hl : dk.length = n + 1)
    (h0 : kind dk 0 = PARAMETER) (hk : KindsOK n dk) (hla : LinesAgree n source dk)
    (hlen : ∀ c ∈ conversionGensToCgs n source dk, c.e.length = n + 1) :
    ∃ G, gensOf n source = some G ∧ subsetB G (consToGens n (cgsOf (conversionGensToCgs n source dk))) = true :=
  gcCert_subsetB n D source _ hn hw hlen (conversionGensToCgs_cert n source dk ht hl h0 hk hla)

/-- **end to end (what `Grid::update_congruences` does): simplify, then convert.**  On a generator system with
    normalised divisors the congruences produced by the two models denote exactly the grid of the input … -/
theorem simplify_conversion_gens_correct (n : Nat) (D : Int) (rows : List GRow) (dk : List Nat) (hwf : GWf n rows)
    (hN : GNorm n D rows) (x : Pt) :
    cgsSem n (conversionGensToCgs n (simplifyGens n rows dk).1 (simplifyGens n rows dk).2) x ↔
      Hom n rows (homog (D : ℚ) x) :=
  simplifyGens_conversion_exact dk hwf (normalised_of_gnorm hN) x

/-- … K2's verified equality decider accepts them against the PPL reading of the input, and they are in the
    triangular form `Grid::lower_triangular` asserts -/
theorem simplify_conversion_gens_k2 (n : Nat) (D : Int) (rows : List GRow) (dk : List Nat) (hwf : GWf n rows)
    (hN : GNorm n D rows) :
    (∃ G, gensOf n rows = some G ∧
      equivB G (consToGens n (cgsOf (conversionGensToCgs n (simplifyGens n rows dk).1 (simplifyGens n rows dk).2))) = true) ∧
    lowerTriangular n (conversionGensToCgs n (simplifyGens n rows dk).1 (simplifyGens n rows dk).2)
      (simplifyGens n rows dk).2 = true :=
  ⟨simplifyGens_conversion_k2 dk hwf (normalised_of_gnorm hN), simplifyGens_conversion_triangular dk hwf (normalised_of_gnorm hN)⟩

/-- on the instance above: `x₀ - x₁ ≡ 1/2 (mod 3/2)` in the form the library prints it -/
example : conversionGensToCgs 2 (simplifyGens 2 exGRows []).1 (simplifyGens 2 exGRows []).2 =
    [{ e := [1, -2, 2], m := 3 }, { e := [3, 0, 0], m := 3 }] := by decide +kernel

/-! ## `Grid::conversion(Congruence_System&, Grid_Generator_System&, Dimension_Kinds&)`

Hypotheses: the source is accepted by `Grid::lower_triangular` with these `dim_kinds`, `kind dk 0 = PROPER_CONGRUENCE`
(the integrality congruence), and the kinds agree with the moduli of the rows, the proper congruences sharing one
modulus which is the inhomogeneous term of the last row (`CgKindsOK`) — all conclusions of `simplify_congs_triangular`
(`final_cgKindsOK`). -/

/-- `multiply_grid` (generator instance): scaling every parameter/point (or one line) keeps the lattice up to the factor -/
theorem multiply_grid_gens_preserves (n : Nat) (mult : Int) (hm : 0 < mult) (dest : List GRow) (gi N : Nat)
    (hN : dest.length ≤ N) : HomSim n dest (multiplyGridGen mult dest gi N) :=
  multiplyGridGen_homSim n mult hm dest gi N hN

/-- **congruences → generators is exact**: the produced generators (divisor `D'` = inhomogeneous term of the point,
    row 0) denote the grid of the source; the certificate checker accepts the model's output -/
theorem conversion_congs_to_gens_correct (n : Nat) (source : List CRow) (dk : List Nat) (hc : CWf n source)
    (hlt : lowerTriangular n source dk = true) (hdk : dk.length = n + 1) (h0 : kind dk 0 = PROPER_CONGRUENCE)
    (hkm : CgKindsOK n source dk) :
    let dest := conversionCgsToGens n source dk
    GWf n dest ∧ cgCertB n source dest = true ∧
      ∀ x, Hom n dest (homog ((Red.get (rowAt dest 0).e 0 : Int) : ℚ) x) ↔ cgsSem n source x :=
  ⟨(conversionCgsToGens_correct n source dk hc hlt hdk h0 hkm).1, conversionCgsToGens_cert n source dk hc hlt hdk h0 hkm,
   (conversionCgsToGens_correct n source dk hc hlt hdk h0 hkm).2⟩

/-- the produced system is accepted by `Grid::upper_triangular`, and its divisors are normalised -/
theorem conversion_congs_to_gens_triangular (n : Nat) (source : List CRow) (dk : List Nat)
    (hlt : lowerTriangular n source dk = true) (h0 : kind dk 0 = PROPER_CONGRUENCE) (hkm : CgKindsOK n source dk) :
    upperTriangular n (conversionCgsToGens n source dk) dk = true ∧
    GNorm n (Red.get (rowAt (conversionCgsToGens n source dk) 0).e 0) (conversionCgsToGens n source dk) :=
  ⟨conversionCgsToGens_triangular n source dk hlt h0 hkm.kinds, cgc_gnorm n source dk hlt h0 hkm⟩

/-- `2x - 1 ≡ 0 (mod 3)` with the integrality row: the point `1/2`, the parameter `3/2` -/
example :
    let source : List CRow := [{ e := [-1, 2], m := 3 }, { e := [3, 0], m := 3 }]
    let dk : List Nat := [PROPER_CONGRUENCE, PROPER_CONGRUENCE]
    CWf 1 source ∧ lowerTriangular 1 source dk = true ∧ dk.length = 1 + 1 ∧ kind dk 0 = PROPER_CONGRUENCE ∧
      CgKindsOK 1 source dk ∧
      conversionCgsToGens 1 source dk = [{ line := false, e := [2, 1, 0] }, { line := false, e := [0, 3, 2] }] := by
  refine ⟨?_, by decide, rfl, rfl, ⟨3, ?_, by decide⟩, by decide⟩
  · intro c hc; simp at hc; rcases hc with rfl | rfl <;> exact ⟨rfl, by decide⟩
  · intro d hd
    have : d = 0 ∨ d = 1 := by omega
    rcases this with rfl | rfl <;> exact Or.inr (Or.inr ⟨rfl, by decide⟩)

/-- **end to end (what `Grid::update_generators` does): simplify, then convert.**  When the flag is `false` the
    generators produced by the two models denote exactly the solutions of the input system, are in the form
    `Grid::upper_triangular` asserts, have normalised divisors, … -/
theorem simplify_conversion_congs_correct (n : Nat) (rows : List CRow) (dk : List Nat) (hwf : CWf n rows) :
    let r := simplifyCgs n rows dk
    r.2.2 = false →
      let dest := conversionCgsToGens n r.1 r.2.1
      GWf n dest ∧ upperTriangular n dest r.2.1 = true ∧ GNorm n (Red.get (rowAt dest 0).e 0) dest ∧
        ∀ x, Hom n dest (homog ((Red.get (rowAt dest 0).e 0 : Int) : ℚ) x) ↔ cgsSem n rows x := by
  intro r hf dest
  obtain ⟨h1, h2, h3⟩ := simplify_conversionCgsToGens_correct n rows dk hwf hf
  exact ⟨h1, h2, simplifyCgs_conversion_gnorm n rows dk hwf hf, h3⟩

/-- … and K2's verified equality decider accepts their PPL reading against K2's own conversion of the input -/
theorem simplify_conversion_congs_k2 (n : Nat) (rows : List CRow) (dk : List Nat) (hwf : CWf n rows) :
    let r := simplifyCgs n rows dk
    r.2.2 = false →
      let dest := conversionCgsToGens n r.1 r.2.1
      ∃ G, gensOf n dest = some G ∧ equivB G (consToGens n (cgsOf rows)) = true :=
  simplifyCgs_conversion_k2_equiv n rows dk hwf

/-- `x ≡ 1 (mod 2)`, `x + y = 0`, `y ≡ 0 (mod 3)`: the point `(3, -3)` and the parameter `(6, -6)` -/
example : conversionCgsToGens 2 (simplifyCgs 2 exRows []).1 (simplifyCgs 2 exRows []).2.1 =
    [{ line := false, e := [1, 3, -3, 0] }, { line := false, e := [0, 6, -6, 1] }] := by decide +kernel

/-! ## `Grid::conversion`: certificates (evaluated by the driver on every real output) -/

/-- generators → congruences: when the checker `gcCertB` accepts (every source generator against every produced
    congruence, in homogeneous coordinates), every point of the source grid satisfies the produced system -/
theorem conversion_gens_to_congs_certified (n : Nat) (source : List GRow) (dest : List CRow) (hw : GWf n source)
    (hlen : ∀ c ∈ dest, c.e.length = n + 1) (h : gcCertB n source dest = true) (x : Pt)
    (hx : Hom n source (homog ((get (rowAt source 0).e 0 : Int) : ℚ) x)) : cgsSem n dest x :=
  gcCert_sound n source dest hw hlen h x hx

/-- congruences → generators: when the checker `cgCertB` accepts, every produced point satisfies the source system -/
theorem conversion_congs_to_gens_certified (n : Nat) (source : List CRow) (dest : List GRow) (hw : GWf n dest)
    (hc : CWf n source) (h : cgCertB n source dest = true) (x : Pt)
    (hx : Hom n dest (homog ((get (rowAt dest 0).e 0 : Int) : ℚ) x)) : cgsSem n source x :=
  cgCert_sound n source dest hw hc h x hx

/-- the conversion of the point `1/2`, parameter `3/2` is accepted: `2x - 1 ≡ 0 (mod 3)` -/
example : conversionGensToCgs 1 [{ line := false, e := [2, 1, 0] }, { line := false, e := [0, 3, 2] }] [0, 0]
      = [{ e := [-1, 2], m := 3 }, { e := [3, 0], m := 3 }] ∧
    gcCertB 1 [{ line := false, e := [2, 1, 0] }, { line := false, e := [0, 3, 2] }]
      [{ e := [-1, 2], m := 3 }, { e := [3, 0], m := 3 }] = true := by
  constructor <;> decide +kernel

end C05
