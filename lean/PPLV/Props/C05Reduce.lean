import PPLV.Lattice.ProofsRedRow
import PPLV.Lattice.ProofsRedSem
import PPLV.Lattice.ProofsConvGCCert
import PPLV.Lattice.ProofsConvCGCert

/-!
# C05, stage 2 — Grid's own algorithms: `Grid::simplify` (both overloads), `Grid::conversion` (both directions)

Property statements only.  The code-shaped models are `PPLV/Lattice/Reduce.lean` (Grid_simplify.cc,
`reduce_reduced` of Grid_templates.hh) and `PPLV/Lattice/Convert.lean` (Grid_conversion.cc,
`normalize_divisors`); the denotations are in `PPLV/Lattice/RedSem.lean` / `ProofsRedSem.lean`:

* a congruence row `(e, m)` denotes the K2 congruence `Σ e[i+1]·xᵢ + e[0] ≡ 0 (mod m)`; `cgsSem n rows` is
  `CgSys.sem n` of these (the semantics of `PPLV/Props/C05.lean`);
* a generator system denotes, in homogeneous coordinates (columns `0..n`), `Hom n rows` = ℤ-span of the
  parameter/point rows + ℚ-span of the line rows; the grid is `{x | (D, D·x) ∈ Hom}` (`gensSem n D`).

The driver `pplv_gridred` replays these models on the journalled inputs of the real functions and demands
identical rows, and evaluates the conclusions below on the real outputs with the K2 deciders.
-/
namespace C05
open PPLV.Lattice PPLV.Lattice.Red

/-- the model of `gcdext_assign` (`mpz_gcdext`) returns the gcd and a Bézout pair -/
theorem gcdext_bezout (a b : Int) (hb : b ≠ 0) :
    (gcdext a b).1 = (Int.gcd a b : Int) ∧ (gcdext a b).2.1 * a + (gcdext a b).2.2 * b = (Int.gcd a b : Int) :=
  gcdext_spec a b hb

/-- GMP's choice on `gcdext(6, 4)`: `2 = 1·6 + (-1)·4` -/
example : gcdext 6 4 = (2, 1, -1) := by decide +kernel

end C05
