import PPLV.Solver.PIPCoreProofsMain7
import PPLV.Solver.PIPCoreProofsMainR3

/-!
# C07 stage 2 — the core of the PIP solver (`PIP_Tree.cc`) inside the model

Model (code-shaped, executable, replayed against the real library by `pplv_pipcore`):
`PPLV/Solver/PIPCore.lean` (tableau, `normalize`, `scale`, the pivot of `PIP_Solution_Node::solve`),
`PIPCoreSolve.lean` (`row_sign`, `complement_assign`, `integral_simplification`, `find_lexico_minimal_column`,
`column_lower`, `is_better_pivot`, `generate_cut`, the main loop and the recursion of `solve`),
`PIPCoreCompat.lean` (`compatibility_check`, used by the driver; the theorems take its decision contract
`CCContract` as hypothesis), `PIPCoreSem.lean` / `PIPCoreSem2.lean` (what a tableau, a sign, a context and a
tree under construction MEAN).

Reading of a tableau (`TabSat`): a valuation `v` of ALL variables (problem variables, then one slack per
row, cuts included) and `q = 1 :: parameters`; row `i` states
`den * v (var_row[i]) = Σ_j s[i][j] * v (var_column[j]) + t[i]·q`; `Feasible` adds `v k ≥ 0`.

What is proved (for all tableaux / rows / contexts, nothing bounded):
* `pivot_preserves`, `pivot_wf`, `normalize_preserves`, `scale_preserves` — stage 1 of the task;
* `row_sign_sound` — the syntactic sign is true for EVERY non-negative parameter vector;
  `sign_refinement_*`: what the two refinements through `compatibility_check` really establish — the
  exact reading is FALSE (`sign_refinement_exact_fails`), the reading up to one unit (`SignWeak`) holds;
* `pivot_choice_lexico`, `find_lexico_minimal_column_correct`, `solve_step_invariant`,
  `solution_node_correct` — the lexicographic dual simplex invariant;
* `split_partitions_context` — the two children of a decision node partition the integer valuations;
* `cut_step_preserves` — a Gomory cut (with its new artificial parameter and the two context rows) keeps the
  integer solutions, the signs, the lexicographic invariant and integrality;
* `solve_partial_correct` — END TO END, every fuel, all three cutting and both pivot-row strategies: whenever the
  modelled `solve` returns a tree, then at every non-negative integer parameter valuation of the initial context
  a point of the public semantics `Tree.eval` is THE lexicographic minimum of the problem the root tableau
  describes, and bottom means that the problem has no non-negative integer point there (oracle contract as
  hypothesis).  `solve` is the code WITH the repair of finding KF-C07-12 (commit deb2fdf); for the code before
  the repair (`solveAsWritten`) the point half holds (`solve_point_correct_before_fix`) and the bottom half
  fails (`solve_bottom_before_fix_fails`).
-/
namespace C07
open PPLV.PIPCore

/-! ### 1. the tableau and the pivot -/

/-- **`Tableau::scale` does not change the solutions** -/
theorem scale_preserves {nd : SolNode} (h : WF nd) {r : Int} (hr : r ≠ 0) (v : Nat → Int) (q : List Int) :
    TabSat { nd with tab := nd.tab.scale r } v q ↔ TabSat nd v q := scale_tabsat h hr v q

/-- **`Tableau::normalize` does not change the solutions** -/
theorem normalize_preserves {nd : SolNode} (h : WF nd) (v : Nat → Int) (q : List Int) :
    TabSat { nd with tab := nd.tab.normalize } v q ↔ TabSat nd v q := normalize_tabsat h v q

/-- **the pivot of `PIP_Solution_Node::solve` (PIP_Tree.cc:2856-3055: normalise, swap basis/mapping, the three
    passes with `pivot_den` and the global `scale` in the middle of the loops) does not change the set of
    (x, params) solutions the tableau describes**, for every well-formed node and every positive pivot. -/
theorem pivot_preserves {nd : SolNode} (h : WF nd) {pi pj : Nat} (hpi : pi < nd.tab.s.length)
    (hpj : pj < nd.tab.ns) (hspp : 0 < mget nd.tab.s pi pj) {q : List Int} (hq : q.length = nd.tab.nt) :
    ∀ v, (TabSat nd v q ↔ TabSat (pivot nd pi pj) v q) := PPLV.PIPCore.pivot_preserves' h hpi hpj hspp hq

/-- … and keeps `basis`, `mapping`, `var_row`, `var_column` coherent (`PIP_Solution_Node::OK`) -/
theorem pivot_wf {nd : SolNode} (h : WF nd) {pi pj : Nat} (hpi : pi < nd.tab.s.length)
    (hpj : pj < nd.tab.ns) (hspp : 0 < mget nd.tab.s pi pj) : WF (pivot nd pi pj) :=
  PPLV.PIPCore.pivot_wf' h hpi hpj hspp

/-- the entries the pivot computes (all divisions exact) -/
theorem pivot_entries {nd : SolNode} (h : WF nd) {pi pj : Nat} (hpi : pi < nd.tab.s.length)
    (hpj : pj < nd.tab.ns) (hspp : 0 < mget nd.tab.normalize.s pi pj) :
    ∃ f, PivotSpec { nd with tab := nd.tab.normalize } (pivot nd pi pj) pi pj f := pivot_spec h hpi hpj hspp

-- non-vacuity: a 2 x 2 node with denominator 4 whose pivot really rescales (spp = 3, den = 2 after normalize)
example : WF Piv.exNd ∧ 0 < mget Piv.exNd.tab.s 0 0 ∧ (pivot Piv.exNd 0 0).tab.den = 6 :=
  ⟨Piv.exNd_wf, by decide, by decide⟩
example : TabSat Piv.exNd Piv.exVal [1, 2] := Piv.exVal_sat

/-! ### 2. the sign of a parametric row -/

/-- **`row_sign` is sound**: POSITIVE ⇒ the row is ≥ 0, NEGATIVE ⇒ it is < 0, ZERO ⇒ it is 0, at EVERY
    non-negative parameter vector (no context needed: the function is syntactic; MIXED claims nothing). -/
theorem row_sign_sound {x : Row} {q : List Int} (hq : ParamVec x.length q) :
    SignTrue (rowSign x none) (dot x q) := rowSign_sound hq

example : rowSign [2, 0, 3] none = .positive ∧ rowSign [-1, -2, 0] none = .negative
    ∧ rowSign [0, -2] none = .mixed ∧ ParamVec 3 [1, 4, 0] := by
  refine ⟨by decide, by decide, by decide, rfl, rfl, by decide⟩

/-- the refinement of MIXED rows through `compatibility_check` (PIP_Tree.cc:2714-2808), under the decision
    contract of the oracle: every answer is true UP TO ONE UNIT of the row value (`SignWeak den`:
    POSITIVE ⇒ value > -den, NEGATIVE ⇒ value < den, ZERO ⇒ both) at every integer valuation of the context. -/
theorem sign_refinement_weak_sound {cc : Mat → Option Bool} (hcc : CCContract cc) {nd : SolNode}
    (hden : 0 < nd.tab.den) (hbig : nd.big = none) {n : Nat} (hn : 0 < n) {ctx : Mat}
    (hctx : ∀ r ∈ ctx, r.length = n) (hrows : ∀ k, k < nd.tab.t.length → (mrow nd.tab.t k).length = n)
    {sg' : List RowSign} {fs' : Firsts} (h : signAnalysis cc nd ctx = some (sg', fs'))
    {q : List Int} (hq : ParamVec n q) (hsat : CtxSat ctx q)
    (hinv : ∀ k, SignWeak nd.tab.den (signGet nd.sign k) (dot (mrow nd.tab.t k) q)) :
    ∀ k, SignWeak nd.tab.den (signGet sg' k) (dot (mrow nd.tab.t k) q) :=
  signAnalysis_weak_sound hcc hden hbig hn hctx hrows h hq hsat hinv

/-- **the exact reading of the refined signs fails** (`row_sign_sound` does not extend to the refinement):
    with denominator 3, row `t(z) = p - 1` and context `p ≤ 2`, the whole sign analysis answers NEGATIVE with
    an oracle that obeys the contract, although `t(z) = 1 > 0` at `p = 2`, which lies in the context:
    `complement_assign` / the `t_i(z) > 0` row round the constant term to a multiple of the tableau
    denominator, which is exact only when the denominator divides the parameter coefficients. -/
theorem sign_refinement_exact_fails :
    CCContract exCC2 ∧ (signAnalysis exCC2 exNd2 exCtx2).map (·.1) = some [.negative] ∧
    ParamVec 2 [1, 2] ∧ CtxSat exCtx2 [1, 2] ∧ dot (mrow exNd2.tab.t 0) [1, 2] = 1 :=
  signAnalysis_unsound_example

/-- even with denominator 1 the second refinement caches NEGATIVE for a row that is 0 at a valuation of
    the context (the case `row_sign` itself refuses to call negative): the root of open finding KF-C07-12 -/
theorem sign_refinement_negative_is_weak :
    CCContract exCC2w ∧ DenDivides exT2w.den (mrow exT2w.t 0) ∧
    (refineMixed2 exCC2w exT2w [] [0] ([.mixed], { mix := some 0 })).map (·.1) = some [.negative] ∧
    ParamVec 2 [1, 0] ∧ CtxSat [] [1, 0] ∧ dot (mrow exT2w.t 0) [1, 0] = 0 ∧
    ¬ SignTrue .negative (dot (mrow exT2w.t 0) [1, 0]) := refineMixed2_not_strict_example

/-! ### 3. the lexicographic pivot selection -/

/-- **`find_lexico_minimal_column` (with `find_lexico_minimal_column_in_set`) returns a column that is
    lexicographically minimal** among the columns with a positive entry in the pivot row, columns divided
    by that entry, rows of the full matrix taken in the order of the variables. -/
theorem find_lexico_minimal_column_correct (nd : SolNode) (pi pj : Nat) (h : WF nd)
    (hpi : pi < nd.tab.s.length)
    (hf : findLexicoMinimalColumn nd.tab.s nd.mapping nd.basis (mrow nd.tab.s pi) 0 = some pj) :
    LexMinCol nd pi pj := flmc_lexmin nd pi pj h hpi hf

/-- **the chosen column keeps the tableau lexico-positive**: pivoting on a lexico-minimal column of a
    tableau whose columns are lexico-non-negative gives such a tableau again. -/
theorem pivot_choice_lexico (nd0 nd' : SolNode) (pi pj : Nat) (f : Int) (h : WF nd0) (hl : LexPos nd0)
    (hpi : pi < nd0.tab.s.length) (hm : LexMinCol nd0 pi pj) (hs : PivotSpec nd0 nd' pi pj f) :
    LexPos nd' := pivot_choice_lexico' nd0 nd' pi pj f h hl hpi hm hs

/-- **one pivot step of `solve` preserves the invariant**: for the column the code chooses in row `pi`
    (any row — the row strategies `PIVOT_ROW_STRATEGY_FIRST` / `MAX_COLUMN` only choose `pi`), the node
    after `pivot` is well-formed, its columns are lexico-non-negative, and it has the same feasible
    valuations. -/
theorem solve_step_invariant {nd : SolNode} (h : WF nd) (hl : LexPos nd) {pi pj : Nat}
    (hpi : pi < nd.tab.s.length)
    (hf : findLexicoMinimalColumn nd.tab.s nd.mapping nd.basis (mrow nd.tab.s pi) 0 = some pj)
    {q : List Int} (hq : q.length = nd.tab.nt) :
    WF (pivot nd pi pj) ∧ LexPos (pivot nd pi pj) ∧ ∀ v, (Feasible nd v q ↔ Feasible (pivot nd pi pj) v q) := by
  obtain ⟨hpj, hpos⟩ := flmc_positive nd pi pj h hpi hf
  have hpos' : 0 < mget nd.tab.normalize.s pi pj := (normalize_sign h pi pj).mpr hpos
  obtain ⟨f, hs⟩ := pivot_spec h hpi hpj hpos'
  exact ⟨PPLV.PIPCore.pivot_wf h hpi hpj hpos',
    solve_pivot_lexpos nd _ pi pj f h hl hpi hf (normalize_wf h) hs,
    pivot_feasible h hpi hpj hpos' hq⟩

/-- the other steps of the main loop keep the invariant too: cuts (all three cutting strategies) … -/
theorem cut_step_invariant (ctl : Ctl) (nd : SolNode) (ctx : Mat) (h : WF nd) (hl : LexPos nd) :
    WF (generateCuts ctl nd ctx).1 ∧ LexPos (generateCuts ctl nd ctx).1 := generateCuts_inv ctl nd ctx h hl

/-- … and a fresh root satisfies it (the problem variables are the column variables) -/
theorem root_invariant (nd : SolNode) (h : WF nd)
    (hinit : ∀ k, k < nd.tab.ns → boolGet nd.basis k = true ∧ natGet nd.mapping k = k) : LexPos nd :=
  init_lexpos nd h hinit

/-- **at termination the basic solution is the lexicographic minimum**: under the invariant, the basic
    solution `b` of the node is lexicographically ≤ every feasible valuation `v`, on all variables and hence
    on the problem variables (which come first). -/
theorem solution_node_correct (nd : SolNode) (v b : Nat → Int) (q : List Int) (h : WF nd) (hl : LexPos nd)
    (hq : q.length = nd.tab.nt) (hf : Feasible nd v q) (hb : IsBasic nd b q) :
    lexLeFrom b v 0 nd.mapping.length ∧ lexLeFrom b v 0 nd.tab.ns :=
  ⟨lex_basic_min nd v b q h hl hq hf hb,
   lex_basic_min_prefix nd v b q nd.tab.ns h hl hq hf hb (by rw [h.map_len]; omega)⟩

-- non-vacuity: `x2 = x0 + x1 - 2` is negative, the code's column choice is column 1, the step keeps the invariant
example : WF Lex.exNodeB ∧ LexPos Lex.exNodeB ∧ LexMinCol Lex.exNodeB 0 1 ∧ ¬ LexMinCol Lex.exNodeB 0 0
    ∧ findLexicoMinimalColumn Lex.exNodeB.tab.s Lex.exNodeB.mapping Lex.exNodeB.basis (mrow Lex.exNodeB.tab.s 0) 0 = some 1 :=
  ⟨Lex.exNodeB_wf, by decide, by decide, by decide, by decide⟩
example : LexPos (pivot Lex.exNodeB 0 1) :=
  (solve_step_invariant Lex.exNodeB_wf (by decide) (pi := 0) (pj := 1) (by decide) (by decide) (q := [1]) (by decide)).2.1

/-! ### 4. the split on a MIXED row -/

/-- **the two children of a decision node partition the context** for INTEGER parameter valuations:
    exactly one of `t ≥ 0` (true child) and `complement_assign(t, 1) = -t - 1 ≥ 0` (false child) holds. -/
theorem split_partitions_context {n : Nat} {q : List Int} {t : Row} (hq : ParamVec n q) (ht : t.length = n)
    (hn : 0 < n) :
    ((0 ≤ dot t q) ∨ (0 ≤ dot (complementAssign t 1) q))
      ∧ ¬ ((0 ≤ dot t q) ∧ (0 ≤ dot (complementAssign t 1) q)) :=
  PPLV.PIPCore.split_partitions_context hq ht hn

/-- the test stored in the node (`integral_simplification`, then the normalisation of `Constraint`) is
    equivalent, on integer valuations, to the MIXED row it was taken from -/
theorem split_test_equiv {row : Row} {q : List Int} (hm : rowSign row none = .mixed) (hq : q.head? = some 1)
    (hlen : row.length = q.length) :
    0 ≤ dot (rowNormalizeAll (integralSimplification row)) q ↔ 0 ≤ dot row q := by
  rw [rowNormalizeAll_sign]
  exact integralSimplification_equiv_of_mixed hm hq hlen

example : ParamVec 3 [1, 4, 5] ∧ ¬ (0 ≤ dot [2, -3, 1] [1, 4, 5]) ∧ 0 ≤ dot (complementAssign [2, -3, 1] 1) [1, 4, 5] := by
  refine ⟨⟨rfl, rfl, by decide⟩, by decide, by decide⟩

/-! ### 5. cuts, and the whole recursion -/

/-- **a cut step keeps everything**: for the parameter vector `q = extendArts nd.arts qpre` of a node whose
    own artificial parameters own the last columns, `generate_cut` (one cut, or all cuts of the strategy)
    appends at most one artificial parameter (the floor: `q'` extends `q`), keeps the context satisfied, the
    integer solutions (`feas_ext` / `feas_res`: a feasible valuation extends to the new slack variable and
    restricts back), the cached signs and integrality.  (`CutStep`, `PIPCoreProofsCut5.lean`.) -/
theorem cut_step_preserves {n0 : Nat} {qpre : List Int} (ctl : Ctl) {nd : SolNode} {ctx : Mat}
    (hs : CutSetting n0 qpre nd ctx) :
    CutSetting n0 qpre (generateCuts ctl nd ctx).1 (generateCuts ctl nd ctx).2
      ∧ CutStep qpre nd ctx (generateCuts ctl nd ctx).1 (generateCuts ctl nd ctx).2 := generateCuts_step ctl hs

/-- the search for an artificial parameter to re-use (PIP_Tree.cc:3612-3624) never succeeds within a node:
    the candidate has more columns than any parameter the node already owns (the real `operator==` compares
    the space dimensions first) -/
theorem cut_reuse_is_dead {n0 : Nat} {qpre : List Int} {nd : SolNode} {ctx : Mat}
    (hs : CutSetting n0 qpre nd ctx) {index : Nat} (hi : index < nd.tab.s.length) :
    findArt nd.arts (ArtP.mk' (Cut.apNum nd index) nd.tab.den) = none := Cut.findArt_none_of_setting hs hi

/-- the sign bookkeeping of the pivot (PIP_Tree.cc:2999-3023) keeps the cached signs true up to one unit -/
theorem pivot_sign_sound {nd : SolNode} (h : WF nd) {pi pj : Nat} (hpi : pi < nd.tab.s.length)
    (hpj : pj < nd.tab.ns) (hspp : 0 < mget nd.tab.s pi pj) {q : List Int} (hq : ParamVec nd.tab.nt q)
    (hs : SignAt nd q) : SignAt (pivot nd pi pj) q := pivot_signweak h hpi hpj hspp hq hs

/-- the exit "solution found" (PIP_Tree.cc:3357-3392): signs POSITIVE / ZERO up to one unit, the problem
    variables integral (the only test the code makes), integrality of the rational reading ⇒ the parametric
    values of the node are THE lexicographic minimum at `q` -/
theorem solution_exit_correct {nd : SolNode} {q : List Int} (hwf : WF nd) (hlp : LexPos nd)
    (hq : ParamVec nd.tab.nt q) (hsign : SignAt nd q)
    (hpz : ∀ k, k < nd.tab.t.length → signGet nd.sign k = .positive ∨ signGet nd.sign k = .zero)
    (hsi : solutionIntegral nd = true) (hint : IntInv nd q) : IsLexMin nd q (nd.point q) :=
  final_node_correct hwf hlp hq hsign hpz hsi hint

/-- **the code before the repair of KF-C07-12: the half that holds** (every fuel, every strategy).
    `RootOK`: a fresh root as `update_tableau` builds it (denominator 1, problem variables = column variables,
    signs = `row_sign` or UNKNOWN, no big parameter) with the initial context; `CCContract cc`: the decision
    contract of `compatibility_check`.  If the model returns a tree `r` and the public semantics of that tree
    at a non-negative integer valuation `θ` of the initial context is a point `x`, then `x` lists the values of
    the problem variables of a feasible valuation that is lexicographically ≤ every feasible valuation.

    The bottom half is false for that code: `solve_bottom_before_fix_fails`. -/
theorem solve_point_correct_before_fix {cc : Mat → Option Bool} (hcc : CCContract cc) (ctl : Ctl)
    {cfc : Bool} {fuel : Nat} {root : SolNode} {ctx0 : Mat} (h : RootOK root ctx0) {r : Option CTree}
    (hs : solveAsWritten cc ctl cfc fuel root ctx0 = .done r) {θ : List Int} (hlen : θ.length + 1 = root.tab.nt)
    (hnn : ∀ a ∈ θ, 0 ≤ a) (hsat : CtxSat ctx0 (1 :: θ)) {x : List Int}
    (hx : (resToTree r).eval θ = .point x) : IsLexMin root (1 :: θ) x :=
  solveAsWritten_sound_eval hcc ctl h hs hlen hnn hsat hx

-- non-vacuity: the contract is satisfiable, and on the root of `x ≥ 1` the model returns `x = 1`
example : CCContract ccClassical := ccClassical_contract
example : IsLexMin exRootX [1] [1] := by
  obtain ⟨r, hr, he⟩ := exRootX_run ccClassical
  exact solve_point_correct_before_fix ccClassical_contract {} exRootX_ok hr (θ := []) rfl
    (by intro a ha; simp at ha) (by intro r hr; simp at hr) he

/-- **before the repair the bottom half failed** (finding KF-C07-12, fixed by commit deb2fdf).  `kfRoot` is the root
    tableau, journalled from the real library, of `{4A + C + E = 3, C - E ≥ 3, 2B + 2C - 3D = 3,
    B + 2C - 2E + 3 ≥ 0}` with parameters `D, E`; under `PIVOT_ROW_STRATEGY_MAX_COLUMN`, with the modelled
    `compatibility_check` as oracle, `solveAsWritten` returns — like the real `PIP_Problem::solve` did, tree for
    tree — a tree that is bottom at `(D, E) = (1, 0)`, where `(A, B, C) = (0, 0, 3)` is feasible. -/
theorem solve_bottom_before_fix_fails :
    kfTree.eval [1, 0] = .bottom ∧ Feasible kfRoot kfVal [1, 1, 0] ∧ (List.range 3).map kfVal = [0, 0, 3] :=
  ⟨kf_bottom, kf_feasible, by decide⟩

/-! ### 6. the code as it is (with the repair of KF-C07-12): both halves

Before concluding "No positive pivot: Solution = _|_" from a cached NEGATIVE sign the code asks
`compatibility_check(ctx, t_i)`; if `t_i(z) ≥ 0` is compatible with the context the sign is reset to MIXED and
the loop starts over (rows that mention the big parameter are left alone). -/

/-- **`solve_partial_correct`** (partial correctness, every fuel, every strategy; the decision contract of
    `compatibility_check` is a hypothesis).  `RootOK`: a fresh root as `update_tableau` builds it (denominator 1,
    problem variables = column variables, signs = `row_sign` or UNKNOWN, no big parameter) with the initial
    context.  If the model returns a tree `r`, then at every non-negative integer valuation `θ` of the initial
    context: a point of `Tree.eval` is the lexicographic minimum of the feasible region, and bottom means that the
    region is empty.  (Not part of the statement: that `Tree.eval` never answers `scopeError` / `nonIntegral` on
    these trees — the converse bridge `resToTree_eval_eq` exists under `WellFormedC` — and termination.) -/
theorem solve_partial_correct {cc : Mat → Option Bool} (hcc : CCContract cc) (ctl : Ctl)
    {cfc : Bool} {fuel : Nat} {root : SolNode} {ctx0 : Mat} (h : RootOK root ctx0) {r : Option CTree}
    (hs : solve cc ctl cfc fuel root ctx0 = .done r) {θ : List Int} (hlen : θ.length + 1 = root.tab.nt)
    (hnn : ∀ a ∈ θ, 0 ≤ a) (hsat : CtxSat ctx0 (1 :: θ)) :
    (∀ x, (resToTree r).eval θ = .point x → IsLexMin root (1 :: θ) x) ∧
    ((resToTree r).eval θ = .bottom → Infeasible root (1 :: θ)) :=
  ⟨fun _ hx => solve_point_eval hcc ctl h hs hlen hnn hsat hx,
   fun hx => solve_bottom_eval hcc ctl h hs hlen hnn hsat hx⟩

/-- the bottom half on its own -/
theorem solve_bottom_correct {cc : Mat → Option Bool} (hcc : CCContract cc) (ctl : Ctl)
    {cfc : Bool} {fuel : Nat} {root : SolNode} {ctx0 : Mat} (h : RootOK root ctx0) {r : Option CTree}
    (hs : solve cc ctl cfc fuel root ctx0 = .done r) {θ : List Int} (hlen : θ.length + 1 = root.tab.nt)
    (hnn : ∀ a ∈ θ, 0 ≤ a) (hsat : CtxSat ctx0 (1 :: θ))
    (hx : (resToTree r).eval θ = .bottom) : Infeasible root (1 :: θ) :=
  (solve_partial_correct hcc ctl h hs hlen hnn hsat).2 hx

/-- the same over the parameter columns (`evalRes` = the tree evaluated on rows; `Claim`: a point is the
    lexicographic minimum, bottom is infeasibility) -/
theorem solve_partial_correct_columns {cc : Mat → Option Bool} (hcc : CCContract cc) (ctl : Ctl)
    {cfc : Bool} {fuel : Nat} {root : SolNode} {ctx0 : Mat} (h : RootOK root ctx0) {r : Option CTree}
    (hs : solve cc ctl cfc fuel root ctx0 = .done r) {q : List Int} (hq : ParamVec root.tab.nt q)
    (hsat : CtxSat ctx0 q) : Claim root q (evalRes r q) := solve_correct hcc ctl h hs hq hsat

-- non-vacuity: the contract is satisfiable; on the root of `x ≥ 1` the model returns `x = 1`; on the witness of
-- KF-C07-12 the code as it is returns the lexicographic minimum (0, 0, 3)
example : ∃ r, solve ccClassical {} false 5 exRootX [] = .done r ∧ (resToTree r).eval [] = .point [1] :=
  ⟨_, rfl, by decide⟩
example : IsLexMin exRootX [1] [1] := by
  have hrun : ∃ r, solve ccClassical {} false 5 exRootX [] = .done r ∧ (resToTree r).eval [] = .point [1] :=
    ⟨_, rfl, by decide⟩
  obtain ⟨r, hr, he⟩ := hrun
  exact (solve_partial_correct ccClassical_contract {} exRootX_ok hr (θ := []) rfl
    (by intro a ha; simp at ha) (by intro r hr; simp at hr)).1 [1] he
example : kfTreeR.eval [1, 0] = .point [0, 0, 3] := kf_repaired_point

end C07
