import PPLV.Props.C09
import PPLV.Powerset.ExactRefine
import PPLV.Powerset.ExactOmega2
import PPLV.Powerset.ExactOmega3
import PPLV.Powerset.ExactPair3

/-!
# C09 stage 2 — sequence-level theorems about the code-shaped model `PPLV.Powerset.Exact`

`PPLV/Powerset/Exact.lean` transliterates `Powerset<D>` / `Pointset_Powerset<PSET>` over raw
base-level operations (`Ops`, `PolyOps`) — it is the model the native driver `pplv_ps --exact`
replays on the journalled disjunct lists of the real library (same length, disjunct `i` equal as a
set to disjunct `i`, same `reduced` flag).  Here:

* `exact_refines_model*` : at the operations `d.ops` of a K5 domain the new functions equal the
  functions of `PPLV/Powerset/Model.lean`, so every theorem of `Props/C09.lean` is a theorem about
  the replayed model (a few are restated: `*_union_exact`);
* WHICH disjuncts survive, in WHICH order, and WHEN the flag is set: `omega_reduce_result_is_antichain`,
  `omega_reduce_keeps_first_representative`, `add_non_bottom_disjunct_preserve_reduction_spec`,
  `pairwise_reduce_spec`, `collapse_spec_exact`, `linear_partition_order_spec`, `difference_order_spec`,
  `bgp99_heuristics_spec`, `transformer_flags`;
* `reduced_flag_sound` : along every sequence of operations the class invariant "flag set ⇒ the
  sequence is omega-reduced" (`Inv`; what `OK()` checks) is maintained.
-/
namespace C09
open PPLV PPLV.Powerset

/-! pointwise statements about `d.U` as equalities of unions (`d.ops.D` is `d.D` only up to
unfolding, so these are applied by unification rather than by rewriting) -/
theorem union_eq_of_iff (d : Dom) (s t : List d.D) (h : ∀ p, d.U s p ↔ d.U t p) :
    (⋃ z ∈ s, Γ d z) = ⋃ z ∈ t, Γ d z := by
  ext p; rw [mem_union, mem_union]; exact h p

theorem union_eq_union_of_iff (d : Dom) (s t u : List d.D) (h : ∀ p, d.U s p ↔ (d.U t p ∨ d.U u p)) :
    (⋃ z ∈ s, Γ d z) = (⋃ z ∈ t, Γ d z) ∪ ⋃ z ∈ u, Γ d z := by
  ext p; rw [Set.mem_union, mem_union, mem_union, mem_union]; exact h p

theorem union_eq_insert_of_iff (d : Dom) (s t : List d.D) (x : d.D) (h : ∀ p, d.U s p ↔ (d.U t p ∨ d.γ x p)) :
    (⋃ z ∈ s, Γ d z) = (⋃ z ∈ t, Γ d z) ∪ Γ d x := by
  ext p; rw [Set.mem_union, mem_union, mem_union]; exact h p

theorem union_eq_inter_of_iff (d : Dom) (s t u : List d.D) (h : ∀ p, d.U s p ↔ (d.U t p ∧ d.U u p)) :
    (⋃ z ∈ s, Γ d z) = (⋃ z ∈ t, Γ d z) ∩ ⋃ z ∈ u, Γ d z := by
  ext p; rw [Set.mem_inter_iff, mem_union, mem_union, mem_union]; exact h p

theorem union_eq_diff_of_iff (d : Dom) (s t u : List d.D) (h : ∀ p, d.U s p ↔ (d.U t p ∧ ¬ d.U u p)) :
    (⋃ z ∈ s, Γ d z) = (⋃ z ∈ t, Γ d z) \ ⋃ z ∈ u, Γ d z := by
  ext p; rw [Set.mem_sdiff, mem_union, mem_union, mem_union]; exact h p

theorem union_sub_of_imp (d : Dom) (s t : List d.D) (h : ∀ p, d.U s p → d.U t p) :
    (⋃ z ∈ s, Γ d z) ⊆ ⋃ z ∈ t, Γ d z :=
  fun p hp => (mem_union d t p).mpr (h p ((mem_union d s p).mp hp))

/-- the raw operations of the toy domain of `Props/C09.lean` (non-vacuity examples) -/
abbrev ToyOps : Exact.Ops := Toy.ops

/-! ## the executable model refines the proved model -/

/-- **`exact_refines_model`** (generic `Powerset<D>` part): every operation of the replayed model,
    at the operations of a K5 domain, is the operation of `Model.lean` (sequence and flag). -/
theorem exact_refines_model (d : Dom) (ab : Bool) (x y : Exact.PS d.D) (m : Nat) (z : d.D)
    (op : d.D → d.D → d.D) (f : d.D → d.D) :
    Exact.toOld d (Exact.omegaReduce d.ops ab x) = omegaReduce d ab (Exact.toOld d x) ∧
    Exact.toOld d (Exact.collapse d.ops x) = collapse d (Exact.toOld d x) ∧
    Exact.toOld d (Exact.collapseMax d.ops ab m x) = collapseMax d ab m (Exact.toOld d x) ∧
    Exact.toOld d (Exact.addDisjunct d.ops x z) = addDisjunct d (Exact.toOld d x) z ∧
    Exact.toOld d (Exact.lub d.ops ab x y).1 = (lub d ab (Exact.toOld d x) (Exact.toOld d y)).1 ∧
    Exact.toOld d (Exact.lub d.ops ab x y).2 = (lub d ab (Exact.toOld d x) (Exact.toOld d y)).2 ∧
    Exact.toOld d (Exact.pairwiseApply d.ops ab op x y).1
        = (pairwiseApply d ab op (Exact.toOld d x) (Exact.toOld d y)).1 ∧
    Exact.toOld d (Exact.pairwiseApply d.ops ab op x y).2
        = (pairwiseApply d ab op (Exact.toOld d x) (Exact.toOld d y)).2 ∧
    Exact.toOld d (Exact.mapSetFlag d.ops f x) = mapDisjuncts d f (Exact.toOld d x) ∧
    (Exact.eq d.ops ab x y).1 = Powerset.eq d ab (Exact.toOld d x) (Exact.toOld d y) ∧
    Exact.definitelyEntails d.ops x.seq y.seq = definitelyEntails d x.seq y.seq :=
  ⟨Exact.omegaReduce_refines d ab x, Exact.collapse_refines d x, Exact.collapseMax_refines d ab m x,
   Exact.addDisjunct_refines d x z, Exact.lub_refines_fst d ab x y, Exact.lub_refines_snd d ab x y,
   Exact.pairwiseApply_refines_fst d ab op x y, Exact.pairwiseApply_refines_snd d ab op x y,
   Exact.mapSetFlag_refines d f x, Exact.eq_refines d ab x y, Exact.definitelyEntails_refines d x.seq y.seq⟩

example : (Exact.omegaReduce ToyOps false ⟨([[1], [1, 2], [], [3], [2, 1]] : List (List Nat)), false⟩).seq
    = [[1, 2], [3]] := rfl

/-- **`exact_refines_model`** (`Pointset_Powerset` part) -/
theorem exact_refines_model_poly (d : PolyDom) (isTop : d.D → Bool) (ab : Bool) (x y : Exact.PS d.D)
    (p q : d.D) :
    Exact.linearPartition (d.ops isTop) p q = linearPartition d p q ∧
    Exact.toOld d.toDom (Exact.psDiff (d.ops isTop) ab x y).1
        = psDiff d ab (Exact.toOld d.toDom x) (Exact.toOld d.toDom y) ∧
    Exact.toOld d.toDom (Exact.pairwiseReduce (d.ops isTop) ab x)
        = pairwiseReduce d ab (Exact.toOld d.toDom x) ∧
    Exact.toOld d.toDom (Exact.simplifyCtx (d.ops isTop) ab x y).1
        = (simplifyCtx d ab (Exact.toOld d.toDom x) (Exact.toOld d.toDom y)).1 ∧
    (Exact.simplifyCtx (d.ops isTop) ab x y).2.2
        = (simplifyCtx d ab (Exact.toOld d.toDom x) (Exact.toOld d.toDom y)).2.2 :=
  ⟨Exact.linearPartition_refines d isTop p q, Exact.psDiff_refines d isTop ab x y,
   Exact.pairwiseReduce_refines d isTop ab x, (Exact.simplifyCtx_refines d isTop ab x y).1,
   (Exact.simplifyCtx_refines d isTop ab x y).2.2⟩

/-! ## `omega_reduce` -/

/-- **`omega_reduce_result_is_antichain`**: after `omega_reduce()` the flag is set; if it was clear,
    no disjunct is bottom, no disjunct entails a disjunct at another position, and the surviving
    list is a sublist (same relative order) of the non-bottom disjuncts; the union is unchanged.
    No assumption on `definitely_entails` beyond soundness. -/
theorem omega_reduce_result_is_antichain (d : Dom) (x : Exact.PS d.D) :
    (Exact.omegaReduce d.ops false x).reduced = true ∧
    (x.reduced = false →
      Exact.OmegaReduced d.ops (Exact.omegaReduce d.ops false x).seq ∧
      (Exact.omegaReduce d.ops false x).seq.Sublist (x.seq.filter (fun y => !d.isBottom y))) ∧
    (⋃ z ∈ (Exact.omegaReduce d.ops false x).seq, Γ d z) = ⋃ z ∈ x.seq, Γ d z := by
  refine ⟨Exact.omegaReduce_reduced d.ops false x, fun h => ⟨Exact.omegaReduce_omegaReduced d.ops x h,
    Exact.omegaReduce_sublist d.ops x h⟩, union_eq_of_iff d _ _ fun p => Exact.omegaReduce_U' d x p⟩

example : Exact.OmegaReduced ToyOps ([[1, 2], [3]] : List (List Nat)) :=
  (Exact.checkOmegaReduced_iff ToyOps _).mp rfl

/-- **which representatives survive**: when `definitely_entails` is a preorder (it decides
    inclusion for every exact base domain) the survivors are exactly the disjuncts that entail no
    EARLIER disjunct and are entailed back by every LATER disjunct they entail (`omegaSpec`): the
    maximal ones, a class of mutually entailing (equal) disjuncts represented by its FIRST
    occurrence, in the original order. -/
theorem omega_reduce_keeps_first_representative (d : Dom) (hp : Exact.IsPreorder d.ops)
    (x : Exact.PS d.D) (h : x.reduced = false) :
    (Exact.omegaReduce d.ops false x).seq
      = Exact.omegaSpec d.ops [] (x.seq.filter (fun y => !d.isBottom y)) ∧
    (∀ a ∈ (Exact.omegaReduce d.ops false x).seq,
      ∀ b ∈ x.seq.filter (fun y => !d.isBottom y), d.leq a b = true → d.leq b a = true) := by
  have e := Exact.omegaReduce_eq_omegaSpec d.ops hp x h
  refine ⟨e, fun a ha b hb => ?_⟩
  rw [e] at ha
  exact (Exact.omegaSpec_mem_maximal d.ops _ a ha).2 b hb

/-- of two equal disjuncts the one visited first (the earlier one) is kept … -/
theorem omega_reduce_equal_pair (d : Dom) (hp : Exact.IsPreorder d.ops) (a b : d.D)
    (hab : d.leq a b = true) (hba : d.leq b a = true)
    (ha : d.isBottom a = false) (hb : d.isBottom b = false) :
    (Exact.omegaReduce d.ops false ⟨[a, b], false⟩).seq = [a] :=
  Exact.omegaReduce_first_of_equals_two d.ops hp a b hab hba ha hb

/-- … also with an unrelated disjunct in between (order of the survivors = original order) -/
theorem omega_reduce_equal_pair_apart (d : Dom) (hp : Exact.IsPreorder d.ops) (a b c : d.D)
    (hab : d.leq a b = true) (hba : d.leq b a = true)
    (hac : Exact.Incomp d.ops a c) (hbc : Exact.Incomp d.ops b c)
    (ha : d.isBottom a = false) (hb : d.isBottom b = false) (hc : d.isBottom c = false) :
    (Exact.omegaReduce d.ops false ⟨[a, c, b], false⟩).seq = [a, c] :=
  Exact.omegaReduce_first_of_equals_three d.ops hp a b c hab hba hac hbc ha hb hc

-- `[1,2]` and `[2,1]` are equal sets: the first representative survives, `[3]` keeps its place
example : (Exact.omegaReduce ToyOps false ⟨([[1, 2], [3], [2, 1]] : List (List Nat)), false⟩).seq
    = [[1, 2], [3]] := rfl
example : (Exact.omegaReduce ToyOps false ⟨([[2, 1], [3], [1, 2]] : List (List Nat)), false⟩).seq
    = [[2, 1], [3]] := rfl

/-- `check_omega_reduced()` decides exactly `OmegaReduced`; `is_omega_reduced()` sets the flag only then -/
theorem check_omega_reduced_iff (o : Exact.Ops) (s : List o.D) :
    Exact.checkOmegaReduced o s = true ↔ Exact.OmegaReduced o s := Exact.checkOmegaReduced_iff o s

/-! ## `add_non_bottom_disjunct_preserve_reduction` -/

/-- **`add_non_bottom_disjunct_preserve_reduction_spec`** (sequence `pre ++ rng`, `first` = head of `rng`):
    (1) if `x` entails a disjunct of the range, the function returns at the FIRST such disjunct: the
        disjuncts before it that entail `x` are erased, `x` is not added;
    (2) otherwise every disjunct of the range entailing `x` is erased and `x` is pushed at the end —
        outside the range when the whole range was erased;
    (3) an omega-reduced sequence stays omega-reduced (given `x` is incomparable with `pre`);
    (4) the union gains exactly the points of `x`. -/
theorem add_non_bottom_disjunct_preserve_reduction_spec (d : Dom) (x : d.D) (pre rng : List d.D) :
    (∀ l1 xv l2, rng = l1 ++ xv :: l2 → d.leq x xv = true → (∀ z ∈ l1, d.leq x z = false) →
      Exact.addNB d.ops x pre rng = (pre, l1.filter (fun z => !d.leq z x) ++ xv :: l2)) ∧
    ((∀ z ∈ rng, d.leq x z = false) →
      (Exact.addNB d.ops x pre rng).1 ++ (Exact.addNB d.ops x pre rng).2
          = pre ++ rng.filter (fun z => !d.leq z x) ++ [x] ∧
      ((Exact.addNB d.ops x pre rng).2 = [] ↔ rng.filter (fun z => !d.leq z x) = []) ∧
      (Exact.addNB d.ops x pre rng).1 = if rng.filter (fun z => !d.leq z x) = [] then pre ++ [x] else pre) ∧
    (Exact.OmegaReduced d.ops (pre ++ rng) → d.isBottom x = false → (∀ p ∈ pre, Exact.Incomp d.ops x p) →
      Exact.OmegaReduced d.ops ((Exact.addNB d.ops x pre rng).1 ++ (Exact.addNB d.ops x pre rng).2)) ∧
    ((⋃ z ∈ (Exact.addNB d.ops x pre rng).1 ++ (Exact.addNB d.ops x pre rng).2, Γ d z)
      = (⋃ z ∈ pre ++ rng, Γ d z) ∪ Γ d x) := by
  refine ⟨fun l1 xv l2 e hx h1 => Exact.addNB_spec_early d.ops x pre rng l1 xv l2 e hx h1,
    fun h => Exact.addNB_spec_push d.ops x pre rng h,
    fun hr hb hp => Exact.addNB_omegaReduced d.ops x pre rng hr hb hp,
    union_eq_insert_of_iff d _ _ x fun p => Exact.addNB_U' d x pre rng p⟩

example : Exact.addNB ToyOps [1, 2] [] ([[1], [3], [2]] : List (List Nat)) = ([], [[3], [1, 2]]) := rfl
example : Exact.addNB ToyOps [1, 2] [[9]] ([[1], [2]] : List (List Nat)) = ([[9], [1, 2]], []) := rfl
example : Exact.addNB ToyOps [1] [] ([[0], [3], [1, 2], [1]] : List (List Nat)) = ([], [[0], [3], [1, 2], [1]]) := rfl

/-- `least_upper_bound_assign` keeps both operands omega-reduced and leaves the flag set -/
theorem lub_reduced (d : Dom) (x y : Exact.PS d.D) (hx : Exact.Inv d.ops x) (hy : Exact.Inv d.ops y) :
    Exact.Inv d.ops (Exact.lub d.ops false x y).1 ∧ Exact.Inv d.ops (Exact.lub d.ops false x y).2 ∧
    (Exact.lub d.ops false x y).1.reduced = true ∧
    ((⋃ z ∈ (Exact.lub d.ops false x y).1.seq, Γ d z) = (⋃ z ∈ x.seq, Γ d z) ∪ ⋃ z ∈ y.seq, Γ d z) := by
  obtain ⟨h1, h2, h3⟩ := Exact.lub_inv d.ops x y hx hy
  exact ⟨h1, h2, h3, union_eq_union_of_iff d _ _ _ fun p => Exact.lub_U' d x y p⟩

/-! ## `collapse` -/

/-- **`collapse_spec_exact`**: `collapse(max_disjuncts)` reduces first; with at most `max` disjuncts
    nothing else happens; otherwise the first `max-1` reduced disjuncts are kept in order — except
    those entailed by the join, which are erased —, and the disjunct number `max` absorbs, in the
    code's order, all the later ones and comes LAST; the flag is set; `collapse()` joins everything
    into the first disjunct and leaves the flag alone. -/
theorem collapse_spec_exact (d : Dom) (maxD : Nat) (x : Exact.PS d.D) :
    ((Exact.omegaReduce d.ops false x).seq.length ≤ maxD →
      Exact.collapseMax d.ops false maxD x = Exact.omegaReduce d.ops false x) ∧
    (∀ y ys, maxD < (Exact.omegaReduce d.ops false x).seq.length → 0 < maxD →
      (Exact.omegaReduce d.ops false x).seq.drop (maxD - 1) = y :: ys →
      (Exact.collapseMax d.ops false maxD x).seq =
          ((Exact.omegaReduce d.ops false x).seq.take (maxD - 1)).filter
            (fun z => !d.leq z (ys.foldl d.join y)) ++ [ys.foldl d.join y] ∧
      (Exact.collapseMax d.ops false maxD x).reduced = true ∧
      (Exact.collapseMax d.ops false maxD x).seq.length ≤ maxD) ∧
    (∀ y ys r, Exact.collapse d.ops ⟨y :: ys, r⟩ = ⟨[ys.foldl d.join y], r⟩) ∧
    ((⋃ z ∈ x.seq, Γ d z) ⊆ ⋃ z ∈ (Exact.collapseMax d.ops false maxD x).seq, Γ d z) := by
  refine ⟨(Exact.collapseMax_exact_spec d.ops maxD x).1, (Exact.collapseMax_exact_spec d.ops maxD x).2,
    fun y ys r => Exact.collapse_exact_spec d.ops y ys r,
    union_sub_of_imp d _ _ fun p => Exact.collapseMax_ge' d false maxD x p⟩

example : (Exact.collapseMax ToyOps false 3 ⟨([[1], [5], [2], [7]] : List (List Nat)), false⟩).seq
    = [[1], [5], [2, 7]] := rfl
example : (Exact.collapseMax ToyOps false 2 ⟨([[2], [5], [2, 7], [9]] : List (List Nat)), false⟩).seq
    = [[5], [2, 7, 9]] := rfl     -- `[2]` is erased by the reduction, `[2,7]` absorbs `[9]` and comes last
example : (Exact.collapseMax ToyOps false 2 ⟨([[1], [5], [1, 7]] : List (List Nat)), true⟩).seq
    = [[5, 1, 7]] := rfl          -- flag already set: no reduction; `[1]` is entailed by the join and erased

/-! ## `pairwise_reduce` -/

/-- **`pairwise_reduce_spec`**.  One round: every merge replaces two disjuncts at different positions
    (`a` before `b`) by the upper bound the base level declared exact for them; `deleted` merges shrink
    the sequence by at least `deleted`; a round without a merge returns the sequence unchanged (same
    order: no comparison is made at all).  The whole: the `do … while (deleted > 0)` loop ends because
    `deleted = 0` (the fuel of the model is never exhausted: more fuel changes nothing), its result is
    a fixpoint of the round, not longer than the reduced input, flagged reduced; the union is unchanged. -/
theorem pairwise_reduce_spec (d : PolyDom) (isTop : d.D → Bool) (x : Exact.PS d.D) (s : List d.D) :
    ((Exact.pairwiseRound (d.ops isTop) s).1.length + (Exact.pairwiseRound (d.ops isTop) s).2 ≤ s.length ∧
     ((Exact.pairwiseRound (d.ops isTop) s).2 = 0 → (Exact.pairwiseRound (d.ops isTop) s).1 = s) ∧
     (∀ u ∈ (Exact.pairwiseRound (d.ops isTop) s).1, u ∈ s ∨
        ∃ l1 a l2 b l3, s = l1 ++ a :: l2 ++ b :: l3 ∧ d.ubIfExact a b = some u)) ∧
    ((Exact.pairwiseReduce (d.ops isTop) false x).reduced = true ∧
     (Exact.pairwiseReduce (d.ops isTop) false x).seq.length
        ≤ (Exact.omegaReduce d.toDom.ops false x).seq.length ∧
     ∃ t, (Exact.pairwiseRound (d.ops isTop) t).2 = 0 ∧
        (Exact.pairwiseReduce (d.ops isTop) false x).seq = (Exact.pairwiseRound (d.ops isTop) t).1 ∧
        (Exact.pairwiseRound (d.ops isTop) t).1 = t) ∧
    (∀ fuel, s.length < fuel →
      Exact.pairwiseLoop (d.ops isTop) fuel s = Exact.pairwiseLoop (d.ops isTop) (s.length + 1) s) ∧
    ((⋃ z ∈ (Exact.pairwiseReduce (d.ops isTop) false x).seq, Γ d.toDom z) = ⋃ z ∈ x.seq, Γ d.toDom z) := by
  refine ⟨Exact.pairwiseRound_spec (d.ops isTop) s, Exact.pairwiseReduce_spec (d.ops isTop) x,
    fun fuel hf => Exact.pairwiseLoop_terminates (d.ops isTop) fuel s hf,
    union_eq_of_iff d.toDom _ _ fun p => Exact.pairwiseReduce_U' d isTop x p⟩

section K1
open PPLV.Lin
/-- `is_universe` for the K1 instance -/
def k1IsTop (a : K1Poly.D) : Bool := kLeq [] a
/-- the elements of the K1 instance are constraint lists -/
def viewX (x : List (K1Poly.ops k1IsTop).D) : List (List LCon) := x

-- [0,1] ∪ [5,∞) ∪ [0,1]∩(-∞,7]: the comparable pair is merged, two disjuncts remain
example : (Exact.pairwiseReduce (K1Poly.ops k1IsTop) false
    ⟨[[geC 0, leC 1], [geC 5], [geC 0, leC 1, leC 7]], false⟩).seq.length = 2 := by decide +kernel
end K1

/-! ## `linear_partition` / `difference_assign` -/

/-- **`linear_partition_order_spec`**: with `cs` = the constraints of the first argument in the
    library's order, an equality replaced by its `≤` half followed by its `≥` half, the first
    component is `q` plus all of `cs`, and the residues are produced IN THE ORDER OF `cs`: residue `i`
    is `q ∧ cs[0..i-1] ∧ ¬cs[i]`, empty residues skipped.  They are pairwise disjoint, disjoint from
    `p`, non-empty, and with the first component they cover `q` (`C09.linear_partition_spec`, which
    transfers by `exact_refines_model_poly`). -/
theorem linear_partition_order_spec (d : PolyDom) (isTop : d.D → Bool) (p q : d.D) :
    (Exact.linearPartition (d.ops isTop) p q).1 = (Exact.splitEqs (d.cons p)).foldl d.addCon q ∧
    (Exact.linearPartition (d.ops isTop) p q).2 =
      (List.range (Exact.splitEqs (d.cons p)).length).filterMap (fun i =>
        let n := d.addCon (((Exact.splitEqs (d.cons p)).take i).foldl d.addCon q)
          (Exact.negCon ((Exact.splitEqs (d.cons p)).getD i default))
        if d.isBottom n then none else some n) ∧
    (Γ d.toDom (Exact.linearPartition (d.ops isTop) p q).1 = Γ d.toDom p ∩ Γ d.toDom q ∧
     (Γ d.toDom (Exact.linearPartition (d.ops isTop) p q).1
        ∪ ⋃ n ∈ (Exact.linearPartition (d.ops isTop) p q).2, Γ d.toDom n) = Γ d.toDom q ∧
     (Exact.linearPartition (d.ops isTop) p q).2.Pairwise (fun a b => Γ d.toDom a ∩ Γ d.toDom b = ∅)) := by
  have h := linear_partition_spec d p q
  rw [Exact.linearPartition_refines d isTop p q]
  have ho := Exact.linearPartition_order (d.ops isTop) p q
  rw [Exact.linearPartition_refines d isTop p q] at ho
  exact ⟨ho.1, ho.2, h.1, h.2.2.1, h.2.2.2⟩

/-- **`difference_order_spec`** (`Pointset_Powerset<NNC_Polyhedron>::difference_assign`): both operands
    are reduced, then for every disjunct `yi` of the argument IN ORDER every current piece is replaced
    (in place, in order) by its residues w.r.t. `yi`; the flag is cleared; the union is the difference. -/
theorem difference_order_spec (d : PolyDom) (isTop : d.D → Bool) (x y : Exact.PS d.D) :
    (Exact.psDiff (d.ops isTop) false x y).1.seq =
      (Exact.omegaReduce d.toDom.ops false y).seq.foldl
        (fun acc yi => acc.flatMap fun itr => (Exact.linearPartition (d.ops isTop) yi itr).2)
        (Exact.omegaReduce d.toDom.ops false x).seq ∧
    (Exact.psDiff (d.ops isTop) false x y).1.reduced = false ∧
    (Exact.psDiff (d.ops isTop) false x y).2 = Exact.omegaReduce d.toDom.ops false y ∧
    ((⋃ z ∈ (Exact.psDiff (d.ops isTop) false x y).1.seq, Γ d.toDom z)
      = (⋃ z ∈ x.seq, Γ d.toDom z) \ ⋃ z ∈ y.seq, Γ d.toDom z) := by
  obtain ⟨h1, h2, h3⟩ := Exact.psDiff_order (d.ops isTop) x y
  exact ⟨h1, h2, h3, union_eq_diff_of_iff d.toDom _ _ _ fun p => Exact.psDiff_U' d isTop x y p⟩

section K1
open PPLV.Lin
-- [1,2] against [0,3]: residues in the order of the constraints `x ≥ 1`, `x ≤ 2`
example : viewX (Exact.linearPartition (K1Poly.ops k1IsTop) [geC 1, leC 2] [geC 0, leC 3]).2
    = [[geC 0, leC 3, ltC 1], [geC 0, leC 3, geC 1, gtC 2]] := by decide +kernel
-- … and in the other order when the first argument lists them the other way round
example : viewX (Exact.linearPartition (K1Poly.ops k1IsTop) [leC 2, geC 1] [geC 0, leC 3]).2
    = [[geC 0, leC 3, gtC 2], [geC 0, leC 3, leC 2, ltC 1]] := by decide +kernel
end K1

/-! ## flags of the disjunct-wise transformers -/

/-- **`transformer_flags`**: the three families of `Pointset_Powerset` transformers map the disjuncts
    in place (same order, same number) and differ only in the flag: cleared after the loop
    (`add_constraint(s)`, `topological_closure_assign`, …); cleared inside the loop body, so NOT for
    an empty sequence (`affine_image`, `remove_space_dimensions`, `unconstrain`, …); untouched
    (`add_space_dimensions_and_embed/project`, `expand_space_dimension`); `map_space_dimensions`
    reduces first; `concatenate_assign` returns a sequence flagged reduced. -/
theorem transformer_flags (o : Exact.Ops) (f : o.D → o.D) (conc : o.D → o.D → o.D) (x y : Exact.PS o.D) :
    (Exact.mapSetFlag o f x = ⟨x.seq.map f, false⟩) ∧
    (Exact.mapLoopFlag o f x = ⟨x.seq.map f, if x.seq.isEmpty then x.reduced else false⟩) ∧
    (Exact.mapKeepFlag o f x = ⟨x.seq.map f, x.reduced⟩) ∧
    (Exact.mapSpaceDimensions o false f x =
      if (Exact.omegaReduce o false x).seq.isEmpty then Exact.omegaReduce o false x
      else ⟨(Exact.omegaReduce o false x).seq.map f, false⟩) ∧
    ((Exact.concatenateAssign o conc x y).1.reduced = true ∧
     (Exact.concatenateAssign o conc x y).1.seq =
        (Exact.omegaReduce o false x).seq.flatMap fun xi => (Exact.omegaReduce o false y).seq.map fun yi => conc xi yi) :=
  ⟨rfl, rfl, rfl, rfl, rfl, rfl⟩

example : Exact.mapLoopFlag ToyOps (fun a => a.map (· + 1)) ⟨([] : List (List Nat)), true⟩ = ⟨[], true⟩ := rfl
example : (Exact.mapLoopFlag ToyOps (fun a => a.map (· + 1)) ⟨([[1]] : List (List Nat)), true⟩).reduced = false := rfl

/-! ## `BGP99_heuristics_assign` and the BHZ03 driver -/

/-- **`bgp99_heuristics_spec`**: only the sequence is replaced (the flag of `x` stays); every new
    disjunct is either an old disjunct of `x` containing no disjunct of `y`, or `widen(pi, pj)` for a
    pair `pj ⊆ pi`; if no disjunct of `x` contains a disjunct of `y` nothing changes; omega-reduction
    is preserved when the widening never returns bottom on a non-bottom first argument. -/
theorem bgp99_heuristics_spec (o : Exact.PolyOps) (w : o.D → o.D → o.D) (x y : Exact.PS o.D) :
    (Exact.bgp99HeuristicsAssign o w x y).reduced = x.reduced ∧
    (∀ v ∈ (Exact.bgp99HeuristicsAssign o w x y).seq,
      (v ∈ x.seq ∧ y.seq.any (o.contains v) = false) ∨
      ∃ pi ∈ x.seq, ∃ pj ∈ y.seq, o.contains pi pj = true ∧ v = w pi pj) ∧
    ((∀ pi ∈ x.seq, y.seq.any (o.contains pi) = false) → (Exact.bgp99HeuristicsAssign o w x y).seq = x.seq) ∧
    ((∀ a b, o.isBottom a = false → o.isBottom (w a b) = false) → Exact.Inv o.toOps x →
      Exact.Inv o.toOps (Exact.bgp99HeuristicsAssign o w x y)) :=
  ⟨(Exact.bgp99HeuristicsAssign_shape o w x y).1, (Exact.bgp99HeuristicsAssign_shape o w x y).2.1,
   Exact.bgp99HeuristicsAssign_none o w x y, fun hw hx => Exact.bgp99HeuristicsAssign_inv o w x y hw hx⟩

theorem third_cases {α : Type} (c1 c2 c3 : Bool) (a b r : α)
    (h : (if c1 = true then (if c2 = true then some a else if c3 = true then some b else none) else none) = some r) :
    r = a ∨ r = b := by
  cases c1 <;> cases c2 <;> cases c3 <;> simp at h <;> simp [h]

/-- **`bhz03_driver_shape`**: `BHZ03_widening_assign` returns one of: `x` unchanged (empty `y`, or a
    certificate already stabilizing), the BGP99 heuristics result, its pairwise reduction, `x` plus one
    disjunct (fourth technique), or the singleton of the hull of `x`. -/
theorem bhz03_driver_shape (o : Exact.PolyOps) (P : Exact.BHZ03Par o) (x y : Exact.PS o.D) :
    let r := Exact.bhz03WideningAssign o P x y
    let b := Exact.bgp99HeuristicsAssign o P.widen x y
    r = x ∨ r = b ∨ r = Exact.pairwiseReduce o false b ∨
    r = Exact.addDisjunct o.toOps x
          (P.diff (P.widen (Exact.hullOf o P.bot b.seq) (Exact.hullOf o P.bot y.seq)) (Exact.hullOf o P.bot b.seq)) ∨
    r = ⟨[Exact.hullOf o P.bot x.seq], false⟩ := by
  intro r b
  simp only [r, b, Exact.bhz03WideningAssign]
  split
  · exact Or.inl rfl
  split
  · exact Or.inl rfl
  split
  · exact Or.inl rfl
  split
  · exact Or.inr (Or.inl rfl)
  split
  · rename_i heq
    exact (third_cases _ _ _ _ _ _ heq).elim (fun h => Or.inr (Or.inl h)) (fun h => Or.inr (Or.inr (Or.inl h)))
  · split
    · exact Or.inr (Or.inr (Or.inr (Or.inl rfl)))
    · exact Or.inr (Or.inr (Or.inr (Or.inr rfl)))

-- with an empty previous iterate nothing is done
example (P : Exact.BHZ03Par (K1Poly.ops fun _ => false)) (x : Exact.PS K1Poly.D) :
    Exact.bhz03WideningAssign (K1Poly.ops fun _ => false) P x ⟨[], true⟩ = x := rfl

/-! ## the `reduced` flag is sound along every sequence of operations -/

/-- facts about an exact polyhedral domain the flag arguments need; all follow from K5 -/
theorem isPreorder_of_exact (d : ExactDom) : Exact.IsPreorder d.toDom.ops where
  refl a := (d.leq_iff a a).mpr fun _ h => h
  trans a b c h1 h2 := (d.leq_iff a c).mpr fun p hp => (d.leq_iff b c).mp h2 p ((d.leq_iff a b).mp h1 p hp)

theorem join_above (d : ExactDom) (a b : d.D) : d.leq a (d.join a b) = true :=
  (d.leq_iff a _).mpr fun p hp => d.join_sound a b p (Or.inl hp)

theorem bottom_down (d : ExactDom) (a b : d.D) (h : d.leq a b = true) (hb : d.isBottom b = true) :
    d.isBottom a = true :=
  (d.isBottom_iff a).mpr fun p hp => (d.isBottom_iff b).mp hb p ((d.leq_iff a b).mp h p hp)

theorem ub_nonbottom (d : PolyDom) (a b u : d.D) (h : d.ubIfExact a b = some u) (ha : d.isBottom a = false) :
    d.isBottom u = false := by
  cases hu : d.isBottom u with
  | false => rfl
  | true =>
    exfalso
    have : d.isBottom a = true := (d.isBottom_iff a).mpr fun p hp =>
      (d.isBottom_iff u).mp hu p ((d.ubIfExact_spec a b u h p).mpr (Or.inl hp))
    rw [ha] at this; cases this

theorem top_nonbottom (d : ExactDom) : d.isBottom d.top = false := by
  cases h : d.isBottom d.top with
  | false => rfl
  | true => exact absurd (d.top_spec (fun _ => 0)) ((d.isBottom_iff d.top).mp h _)

/-- the operations of a history on ONE powerset (binary operations carry their argument) -/
inductive Op (d : PolyDom) where
  | omegaReduce | pairwiseReduce | collapse | isUniverse | isOmegaReduced | queryReduces
  | collapseMax (m : Nat)
  | addDisjunct (z : d.D)
  | lub (y : Exact.PS d.D)
  | meet (y : Exact.PS d.D)
  | diff (y : Exact.PS d.D)
  | diffVia (back : d.D → d.D) (y : Exact.PS d.D)
  | simplify (y : Exact.PS d.D)
  | mapSetFlag (f : d.D → d.D)
  | mapLoopFlag (f : d.D → d.D)
  | mapKeepFlag (f : d.D → d.D)
  | foldDims (nonempty : Bool) (f : d.D → d.D)
  | mapSpaceDims (f : d.D → d.D)
  | concat (conc : d.D → d.D → d.D) (y : Exact.PS d.D)
  | bgp99 (w : d.D → d.D → d.D) (y : Exact.PS d.D)

/-- the new state of the receiver -/
def Op.apply {d : PolyDom} (isTop : d.D → Bool) : Op d → Exact.PS d.D → Exact.PS d.D
  | .omegaReduce, x => Exact.omegaReduce d.toDom.ops false x
  | .pairwiseReduce, x => Exact.pairwiseReduce (d.ops isTop) false x
  | .collapse, x => Exact.collapse d.toDom.ops x
  | .isUniverse, x => (Exact.isUniverse (d.ops isTop) x).2
  | .isOmegaReduced, x => (Exact.isOmegaReduced d.toDom.ops x).1
  | .queryReduces, x => Exact.queryReduces d.toDom.ops x
  | .collapseMax m, x => Exact.collapseMax d.toDom.ops false m x
  | .addDisjunct z, x => Exact.addDisjunct d.toDom.ops x z
  | .lub y, x => (Exact.lub d.toDom.ops false x y).1
  | .meet y, x => (Exact.meetAssign d.toDom.ops false x y).1
  | .diff y, x => (Exact.psDiff (d.ops isTop) false x y).1
  | .diffVia back y, x => (Exact.psDiffVia (d.ops isTop) back x y).1
  | .simplify y, x => (Exact.simplifyCtx (d.ops isTop) false x y).1
  | .mapSetFlag f, x => Exact.mapSetFlag d.toDom.ops f x
  | .mapLoopFlag f, x => Exact.mapLoopFlag d.toDom.ops f x
  | .mapKeepFlag f, x => Exact.mapKeepFlag d.toDom.ops f x
  | .foldDims b f, x => Exact.foldDims d.toDom.ops b f x
  | .mapSpaceDims f, x => Exact.mapSpaceDimensions d.toDom.ops false f x
  | .concat conc y, x => (Exact.concatenateAssign d.toDom.ops conc x y).1
  | .bgp99 w y, x => Exact.bgp99HeuristicsAssign (d.ops isTop) w x y

/-- side conditions: arguments satisfy the invariant themselves; a flag-keeping transformer
    preserves and reflects inclusion and emptiness (embedding / projection / expansion do); the
    concatenation orders pairs componentwise; the widening of a non-empty element is non-empty -/
def Op.Good {d : PolyDom} : Op d → Prop
  | .lub y | .meet y | .diff y | .diffVia _ y | .simplify y => Exact.Inv d.toDom.ops y
  | .mapKeepFlag f => (∀ a b, d.leq (f a) (f b) = d.leq a b) ∧ (∀ a, d.isBottom (f a) = d.isBottom a)
  | .concat conc y => Exact.Inv d.toDom.ops y ∧
      (∀ a a' b b', d.isBottom a = false → d.isBottom b = false →
        d.leq (conc a b) (conc a' b') = (d.leq a a' && d.leq b b')) ∧
      (∀ a b, d.isBottom a = false → d.isBottom b = false → d.isBottom (conc a b) = false)
  | .bgp99 w _ => ∀ a b, d.isBottom a = false → d.isBottom (w a b) = false
  | _ => True

/-- one operation preserves the invariant -/
theorem op_preserves_inv (d : PolyDom) (isTop : d.D → Bool) (op : Op d) (hg : op.Good)
    (x : Exact.PS d.D) (hx : Exact.Inv d.toDom.ops x) : Exact.Inv d.toDom.ops (op.apply isTop x) := by
  have hp := isPreorder_of_exact d.toExactDom
  have hj : ∀ a b, d.toDom.ops.leq a (d.toDom.ops.join a b) = true := join_above d.toExactDom
  have hb : ∀ a b, d.toDom.ops.leq a b = true → d.toDom.ops.isBottom b = true → d.toDom.ops.isBottom a = true :=
    bottom_down d.toExactDom
  have hom : ∀ y : Exact.PS d.D, Exact.Inv d.toDom.ops y → Exact.Inv d.toDom.ops (Exact.omegaReduce d.toDom.ops false y) :=
    fun y hy => Exact.omegaReduce_inv d.toDom.ops y hy
  cases op with
  | omegaReduce => exact hom x hx
  | pairwiseReduce => exact Exact.pairwiseReduce_inv (d.ops isTop) false x (ub_nonbottom d) hom hx
  | collapse => exact Exact.collapse_inv d.toDom.ops hp hj hb x hx
  | isUniverse => exact Exact.isUniverse_inv (d.ops isTop) x (top_nonbottom d.toExactDom) hx
  | isOmegaReduced => exact Exact.isOmegaReduced_inv d.toDom.ops x hx
  | queryReduces => exact hom x hx
  | collapseMax m => exact Exact.collapseMax_inv d.toDom.ops hp hj hb m x hx
  | addDisjunct z => exact Exact.addDisjunct_inv d.toDom.ops x z
  | lub y => exact (Exact.lub_inv d.toDom.ops x y hx hg).1
  | meet y => exact (Exact.meetAssign_inv d.toDom.ops false x y hom hg).1
  | diff y => exact (Exact.psDiff_inv (d.ops isTop) false x y hom hg).1
  | diffVia back y => exact (Exact.psDiffVia_inv (d.ops isTop) back x y hg).1
  | simplify y => exact (Exact.simplifyCtx_inv (d.ops isTop) false x y hom hx hg).1
  | mapSetFlag f => exact Exact.mapSetFlag_inv d.toDom.ops f x
  | mapLoopFlag f => exact Exact.mapLoopFlag_inv d.toDom.ops f x
  | mapKeepFlag f => exact Exact.mapKeepFlag_inv d.toDom.ops f x hg.1 hg.2 hx
  | foldDims b f => exact Exact.foldDims_inv d.toDom.ops b f x (fun _ => hx)
  | mapSpaceDims f => exact Exact.mapSpaceDimensions_inv d.toDom.ops false f x
  | concat conc y => exact (Exact.concatenateAssign_inv d.toDom.ops conc x y hg.2.1 hg.2.2 hom hx hg.1).1
  | bgp99 w y => exact Exact.bgp99HeuristicsAssign_inv (d.ops isTop) w x y hg hx

/-- the argument of a binary operation is left in a state satisfying the invariant, too -/
theorem op_argument_inv (d : PolyDom) (isTop : d.D → Bool) (x y : Exact.PS d.D)
    (hx : Exact.Inv d.toDom.ops x) (hy : Exact.Inv d.toDom.ops y) :
    Exact.Inv d.toDom.ops (Exact.lub d.toDom.ops false x y).2 ∧
    Exact.Inv d.toDom.ops (Exact.meetAssign d.toDom.ops false x y).2 ∧
    Exact.Inv d.toDom.ops (Exact.psDiff (d.ops isTop) false x y).2 ∧
    Exact.Inv d.toDom.ops (Exact.simplifyCtx (d.ops isTop) false x y).2.1 := by
  have hom : ∀ y : Exact.PS d.D, Exact.Inv d.toDom.ops y → Exact.Inv d.toDom.ops (Exact.omegaReduce d.toDom.ops false y) :=
    fun y hy => Exact.omegaReduce_inv d.toDom.ops y hy
  exact ⟨(Exact.lub_inv d.toDom.ops x y hx hy).2.1, (Exact.meetAssign_inv d.toDom.ops false x y hom hy).2,
    (Exact.psDiff_inv (d.ops isTop) false x y hom hy).2, (Exact.simplifyCtx_inv (d.ops isTop) false x y hom hx hy).2⟩

/-- **`reduced_flag_sound`**: start from any state satisfying the invariant (every constructor
    does: the empty powerset and the universe are flagged reduced and are; everything else starts
    with the flag clear) and apply ANY sequence of operations: whenever the model has the flag set,
    the sequence is omega-reduced (no bottom, no disjunct entailing another). -/
theorem reduced_flag_sound (d : PolyDom) (isTop : d.D → Bool) (ops : List (Op d)) (hg : ∀ op ∈ ops, op.Good)
    (x0 : Exact.PS d.D) (h0 : Exact.Inv d.toDom.ops x0) :
    Exact.Inv d.toDom.ops (ops.foldl (fun x op => op.apply isTop x) x0) := by
  induction ops generalizing x0 with
  | nil => exact h0
  | cons op rest ih =>
    exact ih (fun o ho => hg o (List.mem_cons_of_mem _ ho)) _
      (op_preserves_inv d isTop op (hg op List.mem_cons_self) x0 h0)

/-- the constructors: `Powerset()` / `Pointset_Powerset(n, EMPTY)`, `(n, UNIVERSE)`, and `add_disjunct` -/
theorem constructors_inv (d : PolyDom) (z : d.D) (x : Exact.PS d.D) :
    Exact.Inv d.toDom.ops ⟨[], true⟩ ∧ Exact.Inv d.toDom.ops ⟨[d.top], true⟩ ∧
    Exact.Inv d.toDom.ops (Exact.addDisjunct d.toDom.ops x z) := by
  refine ⟨fun _ => ⟨by simp, by simp [Exact.Antichain]⟩, fun _ => ⟨?_, List.pairwise_singleton _ _⟩,
    Exact.addDisjunct_inv d.toDom.ops x z⟩
  intro a ha
  have : a = d.top := List.mem_singleton.mp ha
  rw [this]
  exact top_nonbottom d.toExactDom

section K1
open PPLV.Lin
-- a history on the K1 instance: add two equal disjuncts and a third one, take an upper bound, reduce
example : Exact.Inv K1Poly.toDom.ops
    ([Op.addDisjunct [geC 0], Op.addDisjunct [geC 0, geC (-1)], Op.lub ⟨[[leC 5]], false⟩, Op.omegaReduce].foldl
      (fun x op => Op.apply k1IsTop op x) ⟨[], true⟩) :=
  reduced_flag_sound K1Poly k1IsTop _ (by
    intro op hop
    simp only [List.mem_cons, List.not_mem_nil, or_false] at hop
    rcases hop with rfl | rfl | rfl | rfl
    · trivial
    · trivial
    · intro h; cases h
    · trivial) _ (constructors_inv K1Poly [] ⟨[], true⟩).1
end K1

/-! ## union-level theorems of `Props/C09.lean`, restated for the replayed model -/

theorem omega_reduce_union_exact (d : Dom) (x : Exact.PS d.D) :
    (⋃ z ∈ (Exact.omegaReduce d.ops false x).seq, Γ d z) = ⋃ z ∈ x.seq, Γ d z :=
  union_eq_of_iff d _ _ fun p => Exact.omegaReduce_U' d x p

theorem meet_union_exact (d : ExactDom) (x y : Exact.PS d.D) :
    (⋃ z ∈ (Exact.meetAssign d.toDom.ops false x y).1.seq, Γ d.toDom z)
      = (⋃ z ∈ x.seq, Γ d.toDom z) ∩ ⋃ z ∈ y.seq, Γ d.toDom z :=
  union_eq_inter_of_iff d.toDom _ _ _ fun p =>
    Exact.pairwiseApply_exact_U' d.toDom d.meet (fun a b q => d.meet_exact a b q) x y p

/-- the difference of the non-NNC instantiations (through NNC copies, pieces converted back by an
    enlarging `back`, e.g. the topological closure) contains the exact difference -/
theorem difference_via_contains (d : PolyDom) (isTop : d.D → Bool) (back : d.D → d.D)
    (hb : ∀ a p, d.γ a p → d.γ (back a) p) (x y : Exact.PS d.D) :
    ((⋃ z ∈ x.seq, Γ d.toDom z) \ ⋃ z ∈ y.seq, Γ d.toDom z)
      ⊆ ⋃ z ∈ (Exact.psDiffVia (d.ops isTop) back x y).1.seq, Γ d.toDom z := by
  intro p hp
  rw [Set.mem_sdiff, mem_union, mem_union] at hp
  exact (mem_union d.toDom _ p).mpr (Exact.psDiffVia_U d isTop back hb x y p hp)

end C09
