import PPLV.Solver.Spec
import PPLV.Solver.TableauProofs

/-!
# C06 — MIP solver: status, optimum and witness are right, incrementally or from scratch

The judge of `pplv_mip` is the reference of `PPLV/Solver/MIP.lean`.  These theorems say that the
reference answers are the answers the property text defines (`PPLV/Solver/Spec.lean`:
`Feasible`, `IsUnfeasible`, `IsUnbounded`, `IsOptimum`, `Better`), for every problem whose rows
are non-strict and stay inside the space (`Problem.WF`, checked by the driver with
`Problem.wfB` on every journal).

* `lp_spec`            the relaxation (K1 `supB`): exact, unconditional;
* `mip_spec_partial`   the enumeration: exact when every integer variable is bounded in the
                       relaxation — what is missing: integer variables without a finite range
                       (the reference then says `unknownUnboundedIntVar`, and the driver falls
                       back to `unbounded_of_point_and_ray` (decisive for "unbounded") and to the
                       one-sided judges `mip_relaxation_bound` and `window_sound`);
* `mip_ref_sound`      whatever `mipRef` answers (≠ unknown) is true — no boundedness hypothesis;
* `witness_check`      the witness checker decides feasibility ∧ objective value exactly;
* `no_better_sound`    the `noBetter` certificate;
* `final_data_only`    the reference is a function of the final data of a history;
* `answer_of_set_only` … and, semantically, of the feasible *set*, the objective *function* and the mode.
-/
namespace C06
open PPLV.Lin PPLV.Solver

/-- **LP relaxation.**  `lpAnswer` is `unfeasible` iff no point satisfies the rows, `unbounded` iff
    points exist with arbitrarily good objective value, `optimum v` iff `v` is attained and no
    point is better. -/
theorem lp_spec (P : Problem) (hwf : P.WF) :
    (lpAnswer P = .unfeasible ↔ sem P.cs = ∅) ∧
    (lpAnswer P = .unbounded ↔
      (∃ x, x ∈ sem P.cs) ∧ ∀ M : Rat, ∃ x ∈ sem P.cs, Better P (P.objVal x) M) ∧
    (∀ v : Rat, lpAnswer P = .optimum v ↔
      (∃ x ∈ sem P.cs, P.objVal x = v) ∧ ∀ x ∈ sem P.cs, ¬ Better P (P.objVal x) v) := by
  have hk : (mipRef P.relaxed).isKnown = true :=
    mipRef_known P.relaxed (relaxed_WF P hwf) (fun i hi => by cases hi)
  have hans := mipRef_isAnswer P.relaxed (relaxed_WF P hwf) hk
  rw [← lpAnswer_eq] at hans
  have key : ∀ a, lpAnswer P = a ↔ IsAnswer P.relaxed a :=
    fun a => ⟨fun h => h ▸ hans, fun h => isAnswer_unique P.relaxed _ _ hans h⟩
  have hf := feasible_relaxed P
  refine ⟨?_, ?_, fun v => ?_⟩
  · rw [key, Set.eq_empty_iff_forall_notMem]
    show (¬ ∃ x, Feasible P.relaxed x) ↔ _
    simp only [hf, not_exists]
  · rw [key]
    show ((∃ x, Feasible P.relaxed x) ∧ ∀ M : Rat, ∃ x, Feasible P.relaxed x ∧ Better P (P.objVal x) M) ↔ _
    simp only [hf]
  · rw [key]
    show ((∃ x, Feasible P.relaxed x ∧ P.objVal x = v) ∧ ∀ x, Feasible P.relaxed x → ¬ Better P (P.objVal x) v) ↔ _
    simp only [hf]

-- non-vacuity: max x+y over {x ≥ 0, y ≥ 0, x + y ≤ 3}: optimum 3; without the bound: unbounded;
-- with x ≤ -1 added: unfeasible
example : lpAnswer ⟨2, [geRow [1, 0] 0, geRow [0, 1] 0, geRow [-1, -1] 3], [], ⟨[1, 1], 0⟩, true⟩
    = .optimum 3 := by decide +kernel
example : lpAnswer ⟨2, [geRow [1, 0] 0, geRow [0, 1] 0], [], ⟨[1, 1], 0⟩, true⟩ = .unbounded := by decide +kernel
example : lpAnswer ⟨2, [geRow [1, 0] 0, geRow [-1] (-1)], [], ⟨[1, 1], 0⟩, false⟩ = .unfeasible := by decide +kernel

/-- **Soundness of the MIP reference**, no boundedness assumption: an answer other than
    `unknownUnboundedIntVar` is the true one. -/
theorem mip_ref_sound (P : Problem) (hwf : P.WF) (hk : (mipRef P).isKnown = true) : IsAnswer P (mipRef P) :=
  mipRef_isAnswer P hwf hk

/-- **MIP reference, bounded-integer case.**  If every integer variable is bounded in the relaxation
    the reference is `unfeasible` exactly when no point satisfies the rows with the designated
    variables integral, `unbounded` exactly when such points exist with arbitrarily good value,
    `optimum v` exactly when `v` is attained by such a point and none is better.
    *Partial*: without the boundedness hypothesis `mipRef` may answer `unknownUnboundedIntVar`
    (`mip_ref_sound` still applies to every other answer). -/
theorem mip_spec_partial (P : Problem) (hwf : P.WF) (hb : IntVarsBoundedInRelaxation P) :
    (mipRef P = .unfeasible ↔ ¬ ∃ x, Feasible P x) ∧
    (mipRef P = .unbounded ↔
      (∃ x, Feasible P x) ∧ ∀ M : Rat, ∃ x, Feasible P x ∧ Better P (P.objVal x) M) ∧
    (∀ v : Rat, mipRef P = .optimum v ↔
      (∃ x, Feasible P x ∧ P.objVal x = v) ∧ ∀ x, Feasible P x → ¬ Better P (P.objVal x) v) ∧
    mipRef P ≠ .unknownUnboundedIntVar := by
  have hk := mipRef_known P hwf hb
  have hans := mipRef_isAnswer P hwf hk
  have key : ∀ a, mipRef P = a ↔ IsAnswer P a :=
    fun a => ⟨fun h => h ▸ hans, fun h => isAnswer_unique P _ _ hans h⟩
  refine ⟨key _, key _, fun v => key _, ?_⟩
  intro h; rw [h] at hk; cases hk

-- non-vacuity (kernel evaluation of the K1 deciders is slow: tiny instances only):
-- max x over {1 ≤ 2x ≤ 3}, x integer: 1 (relaxation 3/2); 2x = 1: unfeasible;
-- x = 0 integer, y ≥ 0 free: unbounded; x integer without upper bound: unknown
example : mipRef ⟨1, [geRow [-2] 3, geRow [2] (-1)], [0], ⟨[1], 0⟩, true⟩ = .optimum 1 := by decide +kernel
example : lpAnswer ⟨1, [geRow [-2] 3, geRow [2] (-1)], [0], ⟨[1], 0⟩, true⟩ = .optimum (3/2) := by decide +kernel
example : mipRef ⟨1, eqRows [2] (-1), [0], ⟨[1], 0⟩, true⟩ = .unfeasible := by decide +kernel
example : mipRef ⟨2, eqRows [1] 0 ++ [geRow [0, 1] 0], [0], ⟨[0, 1], 0⟩, true⟩ = .unbounded := by decide +kernel
example : mipRef ⟨1, [geRow [2] (-1)], [0], ⟨[1], 0⟩, true⟩ = .unknownUnboundedIntVar := by decide +kernel

/-- **One-sided judge 1**: a feasible point of the MIP is a point of the relaxation, so the
    relaxation bounds the MIP: relaxation unfeasible ⇒ MIP unfeasible; relaxation optimum `r` ⇒ no
    feasible point of the MIP is better than `r`. -/
theorem mip_relaxation_bound (P : Problem) (hwf : P.WF) :
    (lpAnswer P = .unfeasible → ¬ ∃ x, Feasible P x) ∧
    (∀ r : Rat, lpAnswer P = .optimum r → ∀ x, Feasible P x → ¬ Better P (P.objVal x) r) := by
  obtain ⟨h1, -, h3⟩ := lp_spec P hwf
  refine ⟨fun h => ?_, fun r h x hx => ?_⟩
  · rintro ⟨x, hx⟩
    have := h1.mp h
    rw [Set.eq_empty_iff_forall_notMem] at this
    exact this x hx.1
  · exact ((h3 r).mp h).2 x hx.1

/-- **Unbounded, decisively, whatever the ranges of the integer variables.**  One feasible point of
    the MIP (e.g. the library's own `feasible_point()`, verified by `feasible_check`) together with a
    recession direction of the relaxation that improves the objective (found and verified by K1:
    `rayExists`) proves that feasible points with arbitrarily good value exist.  (The direction is
    rational, so a multiple of it keeps the integer variables integral.) -/
theorem unbounded_of_point_and_ray (P : Problem) (x : Val) (hx : Feasible P x)
    (hwf : P.WF) (hray : rayExists P = true) : IsUnbounded P := by
  obtain ⟨h1, -, h3, -⟩ := hwf
  unfold rayExists at hray
  obtain ⟨d, hd⟩ := (feasible_iff P.n _ (rayRows_wf P.n _ P.cs h1 (maxObj_length P h3))).mp hray
  have := unbounded_max_of_point_and_ray P.maxObj.1 P.maxObj.2 P.ints P.cs x d hx hd
  have h := isAnswer_of_correct P .unbounded this rfl
  have hb : P.back .unbounded = .unbounded := by unfold Problem.back; split <;> rfl
  rw [hb] at h
  exact h

-- {2x ≥ 1}, x integer, maximise x: the reference enumeration says `unknown`, the ray x ↦ x + 1 exists
example : rayExists ⟨1, [geRow [2] (-1)], [0], ⟨[1], 0⟩, true⟩ = true := by decide +kernel

/-- **One-sided judge 2**: confining the integer variables to `[-B, B]` only removes feasible
    points, so an optimum / unboundedness of the confined problem is witnessed in the original:
    the original is not unfeasible, has a feasible point of that value, is unbounded as well. -/
theorem window_sound (P : Problem) (B : Int) (hwf : P.WF) :
    (∀ w : Rat, mipRef (P.withWindow B) = .optimum w → ∃ x, Feasible P x ∧ P.objVal x = w) ∧
    (mipRef (P.withWindow B) = .unbounded → IsUnbounded P) := by
  have hwf' := withWindow_WF P B hwf
  refine ⟨fun w h => ?_, fun h => ?_⟩
  · have := mip_ref_sound (P.withWindow B) hwf' (by rw [h]; rfl)
    rw [h] at this
    obtain ⟨⟨x, hx, hv⟩, -⟩ := this
    exact ⟨x, feasible_of_window P B x hx, hv⟩
  · have := mip_ref_sound (P.withWindow B) hwf' (by rw [h]; rfl)
    rw [h] at this
    obtain ⟨⟨x, hx⟩, hM⟩ := this
    refine ⟨⟨x, feasible_of_window P B x hx⟩, fun M => ?_⟩
    obtain ⟨y, hy, hb⟩ := hM M
    exact ⟨y, feasible_of_window P B y hy, hb⟩

-- {2x ≥ 1}, x integer, minimise x: the reference is `unknown`, the window [-1, 1] exhibits the point 1
example : mipRef (Problem.withWindow ⟨1, [geRow [2] (-1)], [0], ⟨[1], 0⟩, false⟩ 1) = .optimum 1 := by
  decide +kernel

/-- **Witness check.**  For a reported point `x` (numerators / divisor) and value `v`:
    the checker accepts iff `x` satisfies every row, is integral on the integer variables and the
    objective at `x` is `v`. -/
theorem witness_check (P : Problem) (x : Pt) (v : Rat) :
    checkWitness P x v = true ↔ (Feasible P x.val ∧ P.objVal x.val = v) := by
  unfold checkWitness
  rw [Bool.and_eq_true, checkFeasible_iff, decide_eq_true_eq]

/-- `feasible_point()`: the checker without the objective -/
theorem feasible_check (P : Problem) (x : Pt) : checkFeasible P x = true ↔ Feasible P x.val :=
  checkFeasible_iff P x

-- non-vacuity: (3/2, 1) with y integer on {2x + y ≤ 4, x,y ≥ 0}, objective x + y = 5/2; x integer fails
example : checkWitness ⟨2, [geRow [-2, -1] 4, geRow [1] 0, geRow [0, 1] 0], [1], ⟨[1, 1], 0⟩, true⟩ ⟨[3, 2], 2⟩ (5/2)
    = true := by decide +kernel
example : checkWitness ⟨2, [geRow [-2, -1] 4, geRow [1] 0, geRow [0, 1] 0], [0], ⟨[1, 1], 0⟩, true⟩ ⟨[3, 2], 2⟩ (5/2)
    = false := by decide +kernel
example : checkWitness ⟨2, [geRow [-2, -1] 4, geRow [1] 0, geRow [0, 1] 0], [1], ⟨[1, 1], 0⟩, true⟩ ⟨[3, 2], 2⟩ 2
    = false := by decide +kernel

/-- **No better point.**  When `noBetter P v` holds no feasible point has a strictly better
    objective value than `v`. -/
theorem no_better_sound (P : Problem) (hwf : P.WF) (v : Rat) (h : noBetter P v = true) :
    ∀ x, Feasible P x → ¬ Better P (P.objVal x) v := by
  unfold noBetter at h
  intro x hx
  cases hr : mipRef P with
  | unfeasible =>
    have := mip_ref_sound P hwf (by rw [hr]; rfl)
    rw [hr] at this
    exact absurd ⟨x, hx⟩ this
  | unbounded => rw [hr] at h; cases h
  | unknownUnboundedIntVar => rw [hr] at h; cases h
  | optimum w =>
    rw [hr] at h
    have := mip_ref_sound P hwf (by rw [hr]; rfl)
    rw [hr] at this
    have hxw := this.2 x hx
    unfold Better at hxw ⊢
    unfold Problem.notBetter at h
    by_cases hm : P.maximize = true
    · simp only [hm, if_true, decide_eq_true_eq] at h hxw ⊢
      exact not_lt.mpr (le_trans (not_lt.mp hxw) h)
    · simp only [hm, Bool.false_eq_true, if_false, decide_eq_true_eq] at h hxw ⊢
      exact not_lt.mpr (le_trans h (not_lt.mp hxw))

example : noBetter ⟨1, [geRow [-2] 3, geRow [2] (-1)], [0], ⟨[1], 0⟩, true⟩ 1 = true := by decide +kernel

/-- **Incremental ≡ fresh, model half.**  The data of an object after a history is the fold of the
    mutators; observers (`solve`, `is_satisfiable`, …) and the pricing rule do not enter, so the
    reference answer after any history equals the reference answer of the history with every
    observer and pricing change removed — in particular of the fresh object that receives the same
    mutators with no `solve()` in between.  (Definitional in the model; the correspondence run
    tests the real library against exactly this statement.) -/
theorem final_data_only (dim : Nat) (ops : List Op) :
    finalData dim ops = finalData dim (ops.filter Op.isMutator) ∧
    mipRef (finalData dim ops) = mipRef (finalData dim (ops.filter Op.isMutator)) := by
  have h : finalData dim ops = finalData dim (ops.filter Op.isMutator) := foldl_apply_filter ops _
  exact ⟨h, by rw [h]⟩

example : finalData 1 [.addCons [geRow [1] 0], .observe, .setPricing 2, .addInts [0], .observe, .setMode false]
    = ⟨1, [geRow [1] 0], [0], ⟨[], 0⟩, false⟩ := rfl

/-- **The answer depends on the feasible set, the objective function and the mode only** — not on the
    rows chosen to describe the set, their order, or how the integer variables were listed.  (The
    non-definitional half of "incremental ≡ fresh": any two descriptions of the same problem get the
    same reference answer whenever both are answered.) -/
theorem answer_of_set_only (P Q : Problem) (hP : P.WF) (hQ : Q.WF)
    (hset : ∀ x, Feasible P x ↔ Feasible Q x) (hobj : ∀ x, P.objVal x = Q.objVal x)
    (hmode : P.maximize = Q.maximize)
    (hkP : (mipRef P).isKnown = true) (hkQ : (mipRef Q).isKnown = true) : mipRef P = mipRef Q := by
  have hp := mip_ref_sound P hP hkP
  have hq := mip_ref_sound Q hQ hkQ
  have hB : ∀ a b, Better P a b ↔ Better Q a b := fun a b => by unfold Better; rw [hmode]
  apply isAnswer_unique Q _ _ _ hq
  cases hr : mipRef P with
  | unfeasible =>
    rw [hr] at hp
    show ¬ ∃ x, Feasible Q x
    rintro ⟨x, hx⟩; exact hp ⟨x, (hset x).mpr hx⟩
  | unbounded =>
    rw [hr] at hp
    obtain ⟨⟨x, hx⟩, hM⟩ := hp
    refine ⟨⟨x, (hset x).mp hx⟩, fun M => ?_⟩
    obtain ⟨y, hy, hb⟩ := hM M
    exact ⟨y, (hset y).mp hy, by rw [← hobj, ← hB]; exact hb⟩
  | optimum v =>
    rw [hr] at hp
    obtain ⟨⟨x, hx, hv⟩, hbest⟩ := hp
    refine ⟨⟨x, (hset x).mp hx, by rw [← hobj]; exact hv⟩, fun y hy => ?_⟩
    rw [← hobj, ← hB]; exact hbest y ((hset y).mpr hy)
  | unknownUnboundedIntVar => rw [hr] at hkP; cases hkP

-- the same point set described twice (rows in another order)
example : mipRef ⟨1, [geRow [1] 0, geRow [-1] 1], [], ⟨[1], 0⟩, true⟩ =
    mipRef ⟨1, [geRow [-1] 1, geRow [1] 0], [], ⟨[1], 0⟩, true⟩ := by decide +kernel

/-! ## Stage 2 — the tableau steps of `src/MIP_Problem.cc` (code-shaped model `PPLV/Solver/Tableau.lean`)

Partial correctness of one simplex phase: every step keeps the solution set, keeps the basic
solution feasible, and the stop test means optimality.  Termination (anti-cycling by index) and
the floating-point pricing rule (which only *chooses* among entering candidates) stay outside. -/
section Stage2
open PPLV.Solver.Tab

/-- **`pivot` (`linear_combine` on every other row) preserves the solutions of the tableau** and
    clears the entering column outside the pivot row. -/
theorem pivot_preserves_solutions (T : List Row) (e r : Nat) (hr : r < T.length)
    (he : (T.getD r []).get e ≠ 0) :
    (∀ x : Val, Sol (pivotRows T e r) x ↔ Sol T x) ∧
    (∀ i, i < T.length → i ≠ r → ((pivotRows T e r).getD i []).get e = 0) :=
  ⟨pivotRows_solutions T e r hr he, fun i hi hir => pivotRows_column T e r i hi hir⟩

-- x1 + x2 − 4 = 0, x1 − x2 = 0: pivoting on column 1 of row 0 turns row 1 into (a multiple of) 2·x2 − 4 = 0
example : pivotRows [[-4, 1, 1], [0, 1, -1]] 1 0 = [[-4, 1, 1], [-2, 0, 1]] := by decide

/-- **`get_exiting_base_index`**, with the lcm-scaled comparison and the index tie-break as written:
    the row returned limits the entering variable (is eligible) and has the least ratio
    `|t_i0| / |t_ie|` among the eligible rows, the least base index among ties; `none` is returned
    exactly when no row is eligible. -/
theorem exiting_index_minimal (T : List Row) (base : List Nat) (e : Nat) :
    (∀ r, exitingIndex T base e = some r →
      r < T.length ∧ eligible T base e r = true ∧
      ∀ j, j < T.length → eligible T base e j = true →
        ratio T e r < ratio T e j ∨ (ratio T e r = ratio T e j ∧ base.getD r 0 ≤ base.getD j 0)) ∧
    (exitingIndex T base e = none → ∀ j, j < T.length → eligible T base e j = false) :=
  ⟨fun r h => exitingIndex_some T base e r h, exitingIndex_none T base e⟩

-- rows 3 − x1 − s1 = 0 (ratio 3), 2 − x1 − s2 = 0 (ratio 2), 2 − 2 x1 − s3 = 0 (ratio 1): row 2 leaves
example : exitingIndex [[3, -1, -1, 0, 0], [2, -1, 0, -1, 0], [2, -2, 0, 0, -1]] [2, 3, 4] 1 = some 2 := by decide
-- equal ratios: the smaller base index wins, whatever the row order
example : exitingIndex [[2, -1, 0, -1], [2, -1, -1, 0]] [3, 2] 1 = some 1
    ∧ exitingIndex [[2, -1, -1, 0], [2, -1, 0, -1]] [2, 3] 1 = some 0 := by decide
example : exitingIndex [[2, 1, -1, 0], [2, 0, 0, -1]] [2, 3] 1 = none := by decide

/-- **The ratio test keeps the basic solution feasible.**  Let `r` be the row returned for the entering
    column `e` and `θ` its ratio.  For every row `i` whose basic coefficient is non-zero and whose
    basic variable currently has a non-negative value `−t_i0 / t_ib`, the value after the entering
    variable is raised to `θ`, namely `(−t_i0 − t_ie·θ) / t_ib`, is still non-negative. -/
theorem ratio_test_keeps_feasible (T : List Row) (base : List Nat) (e r : Nat)
    (hr : exitingIndex T base e = some r) (i : Nat) (hi : i < T.length)
    (hb : (T.getD i []).get (base.getD i 0) ≠ 0)
    (hv : 0 ≤ -(((T.getD i []).get 0 : Int) : Rat) / (((T.getD i []).get (base.getD i 0) : Int) : Rat)) :
    0 ≤ (-(((T.getD i []).get 0 : Int) : Rat) - (((T.getD i []).get e : Int) : Rat) * ratio T e r) /
          (((T.getD i []).get (base.getD i 0) : Int) : Rat) := by
  obtain ⟨-, -, hmin⟩ := exitingIndex_some T base e r hr
  have hθ : 0 ≤ ratio T e r := by unfold ratio; positivity
  apply ratio_step_nonneg _ _ _ _ hb hθ hv
  rintro ⟨ha, hs⟩
  have hel : eligible T base e i = true := by
    unfold eligible
    simp only [Bool.and_eq_true, bne_iff_ne, beq_iff_eq]
    refine ⟨?_, hs⟩
    have hsgn : ∀ a : Int, a ≠ 0 → sgn a ≠ 0 := by
      intro a ha'
      unfold sgn
      split
      · omega
      · omega
    exact hsgn _ ha
  rcases hmin i hi hel with h | ⟨h, -⟩
  · exact le_of_lt h
  · exact le_of_eq h

/-- **`textbook_entering_index` and the stop test.**  If no column `1 ≤ j < last` of the cost row has
    the sign of its last ("sign") entry `s`, then for every valuation with non-negative variables
    the objective `(c_0 + Σ c_j x_j)/s` is at most `c_0/s`, the value at the basic solution: the basic
    solution is optimal. -/
theorem no_entering_optimal (cost : Row) (h : textbookEntering cost = 0)
    (hs : cost.get (cost.length - 1) ≠ 0) (hlen : 2 ≤ cost.length) (x : Val)
    (hx0 : x 0 = 1) (hxl : x (cost.length - 1) = 0) (hx : ∀ j, 1 ≤ j → j < cost.length - 1 → 0 ≤ x j) :
    dot cost x / ((cost.get (cost.length - 1) : Int) : Rat) ≤
      ((cost.get 0 : Int) : Rat) / ((cost.get (cost.length - 1) : Int) : Rat) :=
  no_entering_bound cost h hs hlen x hx0 hxl hx

example : textbookEntering [5, -1, 0, -2, 1] = 0 ∧ textbookEntering [5, -1, 3, -2, 1] = 2
    ∧ textbookEntering [5, 1, -3, 2, -1] = 2 := by decide

/-- **`compute_generator`**: the value read off a basic row is `−t_0 / t_b` with a positive denominator,
    and a split variable gets positive part minus negative part over the lcm of the denominators. -/
theorem generator_is_basic_solution (t : Row) (b : Nat) (hb : t.get b ≠ 0) (n1 d1 n2 d2 : Int)
    (h1 : 0 < d1) (h2 : 0 < d2) :
    (0 < (basicValue t b).2 ∧
      ((basicValue t b).1 : Rat) / ((basicValue t b).2 : Rat) = -((t.get 0 : Int) : Rat) / ((t.get b : Int) : Rat)) ∧
    (0 < (mergeSplit n1 d1 n2 d2).2 ∧
      ((mergeSplit n1 d1 n2 d2).1 : Rat) / ((mergeSplit n1 d1 n2 d2).2 : Rat) =
        (n1 : Rat) / (d1 : Rat) - (n2 : Rat) / (d2 : Rat)) :=
  ⟨basicValue_spec t b hb, mergeSplit_spec n1 d1 n2 d2 h1 h2⟩

example : basicValue [-6, 0, -4] 2 = (-6, 4) ∧ mergeSplit 1 2 5 3 = (-7, 6) ∧ mergeSplit 1 2 2 4 = (0, 1) := by decide

end Stage2

end C06
