import PPLV.Conv.ProofsCompleteFacetPoints2
/-!
# C01 stage 4c — the facets of a minimised closed polyhedron hold points

What the H79 convergence theorems of C08 need beyond "DD pair in minimal form" (`C01ConvMinimal.lean`):
every inequality `minimize` returns that is not the positivity constraint in disguise is saturated by a
POINT it returns.  Ingredients (`PPLV/Conv/ProofsCompleteFacetPoints*.lean`): `back_substitute` leaves the
system REDUCED (the pivot column of an equality is zero in the equalities above it and in every inequality:
`simplify_result_reduced`); a linear form that is zero on the pivot columns and vanishes on the integer
solutions of a reduced system of equalities vanishes everywhere (`reduced_kernel_zero`); irredundancy and
completeness give a vector in the relative interior of the facet, so a facet without points lies in
`{x_0 = 0}` and its inequality is `λ·x_0` modulo the equalities — after back-substitution literally a
tautology (`facet_point_core`).
-/
namespace C01
open PPLV.Conv

/-- **`minimize_facet_points`** — `minimize(true, cs, gs, sat)` on a closed, non-empty polyhedron whose
constraints entail positivity: every inequality returned that is not a tautology (`c_0 ≥ 0`, all other
coefficients zero) is saturated by a generator returned that is not a line and has a positive divisor. -/
theorem minimize_facet_points (ncols : Nat) (source : List LRow) (sat0 : List BRow)
    (hsz : ncols < 2 ^ 64) (hsrc : source.length < 2 ^ 64)
    (hne : (minimize true false ncols source sat0).empty = false)
    (hpos : ∀ x : Vec, x.length ≤ ncols → holdsAll source x → 0 ≤ x.getD 0 0)
    (hlenF : ∀ s ∈ (minimize true false ncols source sat0).source, s.v.length ≤ ncols) :
    ∀ c ∈ (minimize true false ncols source sat0).source, c.le = false →
      ¬ ((∀ j, 1 ≤ j → c.v.getD j 0 = 0) ∧ 0 ≤ c.v.getD 0 0) →
      ∃ g ∈ (minimize true false ncols source sat0).dest, g.le = false ∧ 0 < g.v.getD 0 0 ∧
        scalarProduct c.v g.v = 0 :=
  PPLV.Conv.minimize_facet_points ncols source sat0 hsz hsrc hne hpos hlenF

/-- non-vacuity: the segment `0 ≤ x ≤ 3` with its positivity row: two non-tautological inequalities, two points. -/
example : (minimize true false 2 [⟨false, [0, 1]⟩, ⟨false, [3, -1]⟩, ⟨false, [1, 0]⟩] []).empty = false ∧
    (minimize true false 2 [⟨false, [0, 1]⟩, ⟨false, [3, -1]⟩, ⟨false, [1, 0]⟩] []).source.length = 2 ∧
    (∀ s ∈ (minimize true false 2 [⟨false, [0, 1]⟩, ⟨false, [3, -1]⟩, ⟨false, [1, 0]⟩] []).source, s.v.length ≤ 2) := by
  decide

/-- the reduced form `back_substitute` leaves (unconditional). -/
theorem simplify_result_reduced (ncols numColsSat : Nat) (sys : List SRow) :
    let F := (simplify ncols numColsSat sys).1
    let n := (simplify ncols numColsSat sys).2
    ∀ p, p < n →
      (F.getD p default).row.v.getD (lastNonzero (F.getD p default).row.v) 0 ≠ 0 ∧
      ∀ m, m < F.length → (m < p ∨ n ≤ m) →
        (F.getD m default).row.v.getD (lastNonzero (F.getD p default).row.v) 0 = 0 :=
  PPLV.Conv.simplify_result_reduced ncols numColsSat sys

example : (simplify 2 1 [⟨⟨true, [0, 1]⟩, [false]⟩, ⟨⟨false, [1, 1]⟩, [true]⟩]).1.map (·.row)
    = [⟨true, [0, 1]⟩, ⟨false, [1, 0]⟩] := by decide

end C01
