import PPLV.WR.ReduceProofsCodeMain
import PPLV.WR.ReduceProofsMathStrong
import PPLV.WR.ReduceProofsMathLCon
import PPLV.WR.ReduceProofsGlue
import PPLV.WR.ReduceProofsCons
import PPLV.WR.ReduceProofsUB
import PPLV.WR.ReduceOctProofsPreserveMain
import PPLV.WR.ReduceOctProofsAffDim
import PPLV.WR.ReduceUBOctProofs
import PPLV.WR.ReduceOctClosedB
import PPLV.WR.OctClosedPathsMain
import PPLV.WR.OctClosedModelMain
import PPLV.WR.ReduceProofsUBCompleteMain
import PPLV.WR.ReduceProofsUBCompleteOctMain
/-!
# C04 stage 2 — shortest-path reduction of `BD_Shape`, strong reduction of `Octagonal_Shape`, the exact-join tests

Statements about the code-shaped models `PPLV/WR/Reduce.lean`, `PPLV/WR/ReduceOct.lean` (transliterations of
`BD_Shape_templates.hh` l. 979–1027, 2072–2168, 331, 6508 and `Octagonal_Shape_templates.hh` l. 2949–3217), for
every size and every non-empty closed matrix over exact rationals with `+∞`.  `c.IsClosed` is what
`shortest_path_closure_assign` leaves (`bds_closure_closed`).  For octagons the hypothesis is `c.IsStronglyClosed`
(triangle inequality and strong coherence of the full view), which is what the code-shaped model of
`strong_closure_assign` establishes with exact arithmetic (`oct_strong_closure_closed`); the driver also evaluates the
executable test `isStronglyClosedB`, equivalent to it (`oct_closed_test`), on every journalled matrix.  Exact arithmetic only: for an inexact `T` the pairing of the
non-singular leaders (`oct_leaders_spec`, last clause) can fail and the code reads out of bounds (open finding KF-C03-61).  The models are tied to the library by exact replay
(`harness/c04_reduce.cc`, `Driver/WRR.lean`, `checks/c04_reduce.py`).
-/
set_option linter.unusedVariables false
namespace C04
open PPLV.WR
open PPLV.WR.ExtRat (fin pinf)

/-! ## bounded-difference shapes -/

/-- The hypothesis of the theorems below is what the closure kernel establishes: with exact arithmetic and a
silent emptiness test, `shortest_path_closure_assign` leaves a closed matrix. -/
theorem bds_closure_closed {n : ℕ} (m : DBM n) (hne : DBM.closureEmpty upId m = false) :
    (DBM.closure upId m).IsClosed :=
  DBM.closure_isClosed m hne

/-- **`compute_predecessors` / `compute_leaders` / `compute_leader_indices` compute the zero-equivalence classes**
(`i ~ j` iff `i = j` or `dbm[i][j] + dbm[j][i] = 0`): `~` is an equivalence relation on the indices `≤ n`;
`predecessor[i]` is the greatest smaller class-mate of `i` (or `i`), `leaders[i]` the least element of the class of
`i`; two indices have the same leader iff they are equivalent; `i` is its own predecessor iff it is its own
leader; the vector of leader indices is the increasing list of these indices. -/
theorem leaders_spec {n : ℕ} (c : DBM n) (hc : c.IsClosed) :
    (∀ i j k, i ≤ n → j ≤ n → k ≤ n → ZEq c.e i j → ZEq c.e j k → ZEq c.e i k) ∧
    IsPredMap n c.e (bdsComputePredecessors (n+1) c.e) ∧
    IsLeaderMap n c.e (bdsComputeLeaders (n+1) c.e) ∧
    (∀ i j, i ≤ n → j ≤ n →
      (bdsComputeLeaders (n+1) c.e i = bdsComputeLeaders (n+1) c.e j ↔ ZEq c.e i j)) ∧
    (∀ i, i ≤ n → (bdsComputePredecessors (n+1) c.e i = i ↔ bdsComputeLeaders (n+1) c.e i = i)) ∧
    computeLeaderIndices (n+1) (bdsComputePredecessors (n+1) c.e) =
      (List.range (n+1)).filter (fun i => bdsComputeLeaders (n+1) c.e i == i) := by
  refine ⟨fun i j k hi hj hk => ZEq.trans hc hi hj hk, bdsComputePredecessors_spec c, bdsComputeLeaders_spec c hc,
    bdsLeaders_eq_iff c hc, bdsPred_self_iff_leader c hc, ?_⟩
  rw [computeLeaderIndices_eq]
  apply List.filter_congr
  intro i hi
  have hin : i ≤ n := by have := List.mem_range.1 hi; omega
  have h := bdsPred_self_iff_leader c hc i hin
  by_cases h0 : i = 0
  · subst h0
    have hp : bdsComputePredecessors (n+1) c.e 0 = 0 := bdsPred_zero _ _
    have hl := h.1 hp
    simp [hl]
  · rw [Bool.eq_iff_iff]
    simp only [Bool.or_eq_true, beq_iff_eq, h0, false_or]
    exact h

/-- the two `while (true)` walks of Step 3 never run out of the fuel of the model: the model function is total. -/
theorem bds_reduction_total {n : ℕ} (c : DBM n) : ∃ red, bdsShortestPathReduction upId n c.e = some red :=
  PPLV.WR.bds_reduction_total c

/-- **What `shortest_path_reduction_assign` leaves in `redundancy_dbm`.**  For `i, j ≤ n` the bit `(i, j)` is
cleared (the constraint is kept) exactly when
(A) `i`, `j` are leaders and no leader `k` has `dbm[i][k] + dbm[k][j] ≤ dbm[i][j]` (read on the stored matrix, whose
    diagonal is `+∞`: so `i ≠ j`, the entry is finite, and `k` ranges over the *other* leaders), or
(B) `i = predecessor[j] < j` (the chain through a class, upwards), or
(C) `i` is the greatest element of a non-singleton class and `j < i` its leader (the edge closing the 0-cycle). -/
theorem bds_reduction_spec {n : ℕ} (c : DBM n) (hc : c.IsClosed) (red : BMat)
    (h : bdsShortestPathReduction upId n c.e = some red) :
    IsReduction n c.e (bdsComputeLeaders (n+1) c.e) (bdsComputePredecessors (n+1) c.e) red :=
  bdsShortestPathReduction_spec c hc red h

/-- `affine_dimension()` returns the number of zero-equivalence classes that do not contain the zero variable's
index … counted as the code counts: the indices `1..n` that are leaders. -/
theorem affine_dimension_count {n : ℕ} (c : DBM n) (hc : c.IsClosed) :
    bdsAffineDimension n c.e = leaderCount n (bdsComputeLeaders (n+1) c.e) := by
  rw [bdsAffineDimension_eq_count]
  exact leaderCount_congr n _ _ (fun i hi => bdsPred_self_iff_leader c hc i hi)

/-! ### non-vacuity: `x₀ = 1`, `x₁ - x₀ ≤ 2`, `x₁ ≤ 3`, `x₂ - x₁ ≤ 0`, `x₁ - x₂ ≤ 0` -/

/-- not closed yet: the closure adds e.g. `x₂ ≤ 3` -/
def exR0 : DBM 3 := DBM.ofLists 3
  [[pinf, fin 1, fin 3, pinf],
   [fin (-1), pinf, fin 2, pinf],
   [pinf, pinf, pinf, fin 0],
   [pinf, pinf, fin 0, pinf]]

def exR : DBM 3 := DBM.closure upId exR0

theorem exR_closed : exR.IsClosed := bds_closure_closed exR0 (by decide +kernel)

-- classes {0, 1} (the zero variable and x₀ = 1) and {2, 3} (x₁ = x₂): leaders 0 and 2, affine dimension 1
example : (bdsComputeLeaders 4 exR.e).toList 4 = [0, 0, 2, 2] := by decide +kernel
example : (bdsComputePredecessors 4 exR.e).toList 4 = [0, 0, 2, 2] := by decide +kernel
example : computeLeaderIndices 4 (bdsComputePredecessors 4 exR.e) = [0, 2] := by decide +kernel
example : bdsAffineDimension 3 exR.e = 1 := by decide +kernel
example : ZEq exR.e 2 3 := by decide +kernel
example : ¬ ZEq exR.e 0 2 := by decide +kernel
example : IsLeaderMap 3 exR.e (bdsComputeLeaders 4 exR.e) := (leaders_spec exR exR_closed).2.2.1
-- the kept entries: the 0-cycles 0→1→0 and 2→3→2, and among the leaders only `x₁ ≤ 3` (0,2)
example : (bdsShortestPathReduction upId 3 exR.e).map (BMat.toLists 4 (fun _ => 4)) =
    some [[true, false, false, true], [false, true, true, true], [true, true, true, false], [true, true, false, true]] := by
  decide +kernel
example : ∃ red, bdsShortestPathReduction upId 3 exR.e = some red ∧
    IsReduction 3 exR.e (bdsComputeLeaders 4 exR.e) (bdsComputePredecessors 4 exR.e) red := by
  obtain ⟨red, h⟩ := bds_reduction_total exR
  exact ⟨red, h, bds_reduction_spec exR exR_closed red h⟩
example : leaderCount 3 (bdsComputeLeaders 4 exR.e) = 1 := by
  rw [← affine_dimension_count exR exR_closed]; decide +kernel

/-! ### the conclusions about the set denoted -/

/-- **The reduction preserves the shape**: the constraints whose bit is cleared in `redundancy_dbm` denote the same
set as the closed matrix. -/
theorem bds_reduction_preserves {n : ℕ} (c : DBM n) (hc : c.IsClosed) (red : BMat)
    (h : bdsShortestPathReduction upId n c.e = some red) : DBM.γ (c.reduced red) = DBM.γ c :=
  bds_reduced_preserves c hc _ _ (bdsComputeLeaders_spec c hc) (bdsComputePredecessors_spec c) red
    (bds_reduction_spec c hc red h)

/-- **Nothing needed was dropped**: closing the kept constraints (`shortest_path_closure_assign`, exact arithmetic)
does not report emptiness and gives back the closed matrix, entry by entry. -/
theorem bds_reduction_recloses {n : ℕ} (c : DBM n) (hc : c.IsClosed) (red : BMat)
    (h : bdsShortestPathReduction upId n c.e = some red) :
    DBM.closureEmpty upId (c.reduced red) = false ∧
    ∀ i j, i ≤ n → j ≤ n → (DBM.closure upId (c.reduced red)).e i j = c.e i j :=
  bds_reduced_recloses c hc _ _ (bdsComputeLeaders_spec c hc) (bdsComputePredecessors_spec c) red
    (bds_reduction_spec c hc red h)

/-- **Irredundancy among leaders**, as the algorithm guarantees it literally: a kept entry between two leaders joins
distinct leaders, is finite, and is strictly below the sum through every third leader; and semantically: it cannot be
dropped — some point violates `x_j - x_i ≤ dbm[i][j]` while satisfying every other kept constraint. -/
theorem bds_reduction_irredundant {n : ℕ} (c : DBM n) (hc : c.IsClosed) (red : BMat)
    (h : bdsShortestPathReduction upId n c.e = some red) (i j : ℕ) (hi : i ≤ n) (hj : j ≤ n)
    (hk : red i j = false) (hli : bdsComputeLeaders (n+1) c.e i = i) (hlj : bdsComputeLeaders (n+1) c.e j = j) :
    (i ≠ j ∧ (∃ q, c.e i j = fin q) ∧
      ∀ k, k ≤ n → bdsComputeLeaders (n+1) c.e k = k → k ≠ i → k ≠ j → ¬ (eadd (c.e i k) (c.e k j) ≤ c.e i j)) ∧
    ∃ x, x ∉ DBM.γ c ∧ ∀ a b, a ≤ n → b ≤ n → ¬ (a = i ∧ b = j) →
      fin (DBM.val x b - DBM.val x a) ≤ (c.reduced red).e a b :=
  ⟨bds_reduced_irredundant c hc _ _ (bdsComputeLeaders_spec c hc) (bdsComputePredecessors_spec c) red
      (bds_reduction_spec c hc red h) i j hi hj hk hli hlj,
   bds_reduced_irredundant_strong c hc _ _ (bdsComputeLeaders_spec c hc) (bdsComputePredecessors_spec c) red
      (bds_reduction_spec c hc red h) i j hi hj hk hli hlj⟩

/-- **The chain of equalities**: inside a zero-equivalence class of size `s ≥ 2` every index has exactly one kept
outgoing and exactly one kept incoming entry (one 0-cycle through the class: `s` kept entries), and a kept entry
between two different classes joins two leaders. -/
theorem bds_reduction_chain {n : ℕ} (c : DBM n) (hc : c.IsClosed) (red : BMat)
    (h : bdsShortestPathReduction upId n c.e = some red) :
    (∀ i, i ≤ n → (∃ j, j ≤ n ∧ j ≠ i ∧ ZEq c.e i j) →
      (∃! j, j ≤ n ∧ j ≠ i ∧ ZEq c.e i j ∧ red i j = false) ∧
      (∃! j, j ≤ n ∧ j ≠ i ∧ ZEq c.e i j ∧ red j i = false)) ∧
    (∀ i j, i ≤ n → j ≤ n → red i j = false → ¬ ZEq c.e i j →
      bdsComputeLeaders (n+1) c.e i = i ∧ bdsComputeLeaders (n+1) c.e j = j) := by
  have hl := bdsComputeLeaders_spec c hc
  have hp := bdsComputePredecessors_spec c
  have hr := bds_reduction_spec c hc red h
  exact ⟨fun i hi hns => ⟨bds_reduced_chain_out c hc _ _ hl hp red hr i hi hns,
      bds_reduced_chain_in c hc _ _ hl hp red hr i hi hns⟩,
    fun i j hi hj hk hne => bds_reduced_cross_class c hc _ _ hl hp red hr i j hi hj hk hne⟩

/-- **`affine_dimension()` is the affine dimension of the shape.**  With `d` the returned number (= the number of
leaders among the indices `1..n`, `affine_dimension_count`): every non-leader coordinate is an affine function of
its leader on the whole shape (`n - d` independent equalities), and some point of the shape can be moved freely by
a small amount along each of the `d` classes not containing the zero variable, simultaneously (`d` independent
directions inside the shape). -/
theorem affine_dimension_spec {n : ℕ} (c : DBM n) (hc : c.IsClosed) :
    bdsAffineDimension n c.e = leaderCount n (bdsComputeLeaders (n+1) c.e) ∧
    (∀ x ∈ DBM.γ c, ∀ i, i ≤ n → bdsComputeLeaders (n+1) c.e i ≠ i →
      fin (DBM.val x i - DBM.val x (bdsComputeLeaders (n+1) c.e i)) = c.e (bdsComputeLeaders (n+1) c.e i) i) ∧
    (∃ x0 ∈ DBM.γ c, ∃ δ : ℚ, 0 < δ ∧ ∀ t : ℕ → ℚ, (∀ l, |t l| ≤ δ) →
      (fun k => x0 k + if bdsComputeLeaders (n+1) c.e (k+1) = bdsComputeLeaders (n+1) c.e 0 then 0
                       else t (bdsComputeLeaders (n+1) c.e (k+1))) ∈ DBM.γ c) := by
  obtain ⟨red, h⟩ := bds_reduction_total c
  have g := bds_affine_dimension_geom_simul c hc _ _ (bdsComputeLeaders_spec c hc) (bdsComputePredecessors_spec c) red
    (bds_reduction_spec c hc red h)
  exact ⟨affine_dimension_count c hc, g.1, g.2⟩

-- non-vacuity on `exR`: all hypotheses hold, the conclusions are about a non-trivial reduction
example : ∃ red, bdsShortestPathReduction upId 3 exR.e = some red ∧ DBM.γ (exR.reduced red) = DBM.γ exR ∧
    (DBM.closure upId (exR.reduced red)).e 0 3 = exR.e 0 3 := by
  obtain ⟨red, h⟩ := bds_reduction_total exR
  exact ⟨red, h, bds_reduction_preserves exR exR_closed red h,
    (bds_reduction_recloses exR exR_closed red h).2 0 3 (by norm_num) (by norm_num)⟩
-- the dropped entry `x₂ ≤ 3` (0,3) is finite in the closed matrix and comes back by closing the kept ones
example : exR.e 0 3 = fin 3 := by decide +kernel
-- the kept leader entry (0,2) `x₁ ≤ 3` cannot be dropped
example : ∃ red, bdsShortestPathReduction upId 3 exR.e = some red ∧ ∃ x, x ∉ DBM.γ exR ∧
    ∀ a b, a ≤ 3 → b ≤ 3 → ¬ (a = 0 ∧ b = 2) → fin (DBM.val x b - DBM.val x a) ≤ (exR.reduced red).e a b := by
  obtain ⟨red, h⟩ := bds_reduction_total exR
  have hk : red 0 2 = false := by
    have : (bdsShortestPathReduction upId 3 exR.e).map (fun r => r 0 2) = some false := by decide +kernel
    rw [h] at this; simpa using this
  exact ⟨red, h, (bds_reduction_irredundant exR exR_closed red h 0 2 (by norm_num) (by norm_num) hk
    (by decide +kernel) (by decide +kernel)).2⟩
-- index 3 (x₂) lies in the class {2, 3}: exactly one kept outgoing entry inside the class
example : ∃ red, bdsShortestPathReduction upId 3 exR.e = some red ∧
    ∃! j, j ≤ 3 ∧ j ≠ 3 ∧ ZEq exR.e 3 j ∧ red 3 j = false := by
  obtain ⟨red, h⟩ := bds_reduction_total exR
  exact ⟨red, h, ((bds_reduction_chain exR exR_closed red h).1 3 (by norm_num) ⟨2, by norm_num, by norm_num, by decide +kernel⟩).1⟩
example : bdsAffineDimension 3 exR.e = leaderCount 3 (bdsComputeLeaders 4 exR.e) := (affine_dimension_spec exR exR_closed).1

/-! ### the readers of `redundancy_dbm` -/

/-- **`minimized_constraints()` denotes the shape**: the list the code emits from the closed matrix and the fresh
`redundancy_dbm` — one equality from every non-leader to its leader, the kept unary and binary inequalities among
the leaders — has exactly the points of the closed matrix.  (`LCon.Sat`: `Σ coeffs_k·x_k (== | <=) rhs` with the
numerators and denominators `numer_denom` returns.) -/
theorem bds_minimized_constraints_sem {n : ℕ} (c : DBM n) (hc : c.IsClosed) (red : BMat)
    (h : bdsShortestPathReduction upId n c.e = some red) :
    {x : ℕ → ℚ | ∀ lc ∈ bdsMinimizedConstraints n c.e red, lc.Sat x} = DBM.γ c :=
  bds_minimized_constraints_sem_aux c hc red h

/-- … and it contains exactly `n - affine_dimension()` equalities (one per non-leader among the indices `1..n`), for
whatever bits `redundancy_dbm` holds. -/
theorem bds_minimized_constraints_equalities {n : ℕ} (c : DBM n) (hc : c.IsClosed) (red : BMat) :
    ((bdsMinimizedConstraints n c.e red).filter (·.isEq)).length + bdsAffineDimension n c.e = n :=
  PPLV.WR.bds_minimized_constraints_equalities c hc red

/-- **`constraints()` of a shape not marked reduced denotes the matrix**, closed or not; for a shape marked reduced
`constraints()` is `minimized_constraints()` (`bdsConstraints`). -/
theorem bds_constraints_sem {n : ℕ} (m : DBM n) :
    {x : ℕ → ℚ | ∀ lc ∈ bdsConstraints n m.e false (BMat.const true), lc.Sat x} = DBM.γ m :=
  bds_constraints_all_sem m

-- on `exR` (`x₀ = 1`, `x₁ = x₂ ≤ 3`): two equalities and the single inequality `x₁ ≤ 3`
example : (bdsShortestPathReduction upId 3 exR.e).map (bdsMinimizedConstraints 3 exR.e) =
    some [⟨true, [1, 0, 0], 1⟩, ⟨true, [0, 1, -1], 0⟩, ⟨false, [0, 1, 0], 3⟩] := by decide +kernel
example : ∃ red, bdsShortestPathReduction upId 3 exR.e = some red ∧
    {x : ℕ → ℚ | ∀ lc ∈ bdsMinimizedConstraints 3 exR.e red, lc.Sat x} = DBM.γ exR := by
  obtain ⟨red, h⟩ := bds_reduction_total exR
  exact ⟨red, h, bds_minimized_constraints_sem exR exR_closed red h⟩
-- `constraints()` of the not yet closed `exR0`: `x₀ = 1`, `x₁ ≤ 3`, `x₁ - x₀ ≤ 2`, `x₂ - x₁ = 0`
example : bdsConstraints 3 exR0.e false (BMat.const true) =
    [⟨true, [1, 0, 0], 1⟩, ⟨false, [0, 1, 0], 3⟩, ⟨false, [-1, 1, 0], 2⟩, ⟨true, [0, -1, 1], 0⟩] := by decide +kernel

/-! ### `upper_bound_assign_if_exact` (`BHZ09_upper_bound_assign_if_exact<false>`) -/

/-- **Soundness of the answer `true`**: for non-empty closed `x`, `y` with their fresh `redundancy_dbm`, when the four
nested loops of the test find no `(i, j, k, ℓ)` with `x_ij < y_ij`, `y_kℓ < x_kℓ` (both kept) and
`x_ij + y_kℓ < ub_iℓ + ub_kj`, the pointwise maximum `DBM.join x y` (what `upper_bound_assign` stores) denotes
exactly the union: the union is convex and is a BD shape.
Completeness: `bds_upper_bound_if_exact_complete` below; on every journalled pair the driver also decides both
polarities with K1 (`subsetUnion`, proved sound and complete: `C04.ub_if_exact_spec`). -/
theorem upper_bound_if_exact_sound {n : ℕ} (x y : DBM n) (hx : x.IsClosed) (hy : y.IsClosed) (xr yr : BMat)
    (hxr : bdsShortestPathReduction upId n x.e = some xr) (hyr : bdsShortestPathReduction upId n y.e = some yr)
    (ht : bdsBHZ09 upId n x.e y.e xr yr = true) :
    DBM.γ (DBM.join x y) = DBM.γ x ∪ DBM.γ y :=
  bdsBHZ09_sound x y hx hy xr yr hxr hyr ht

/-- `0 ≤ x₀ ≤ 1` and `1 ≤ x₀ ≤ 2`: adjacent, the test answers `true`; `2 ≤ x₀ ≤ 3` instead: a gap, `false` -/
def exU1 : DBM 1 := DBM.closure upId (DBM.ofLists 1 [[pinf, fin 1], [fin 0, pinf]])
def exU2 : DBM 1 := DBM.closure upId (DBM.ofLists 1 [[pinf, fin 2], [fin (-1), pinf]])
def exU3 : DBM 1 := DBM.closure upId (DBM.ofLists 1 [[pinf, fin 3], [fin (-2), pinf]])

example : DBM.γ (DBM.join exU1 exU2) = DBM.γ exU1 ∪ DBM.γ exU2 := by
  obtain ⟨xr, hxr⟩ := bds_reduction_total exU1
  obtain ⟨yr, hyr⟩ := bds_reduction_total exU2
  refine upper_bound_if_exact_sound exU1 exU2 (bds_closure_closed _ (by decide +kernel))
    (bds_closure_closed _ (by decide +kernel)) xr yr hxr hyr ?_
  have e : (do let a ← bdsShortestPathReduction upId 1 exU1.e; let b ← bdsShortestPathReduction upId 1 exU2.e
               pure (bdsBHZ09 upId 1 exU1.e exU2.e a b)) = some true := by decide +kernel
  rw [hxr, hyr] at e
  simpa using e
example : (do let a ← bdsShortestPathReduction upId 1 exU1.e; let b ← bdsShortestPathReduction upId 1 exU3.e
              pure (bdsBHZ09 upId 1 exU1.e exU3.e a b)) = some false := by decide +kernel

/-! ## octagonal shapes -/

/-- the executable test the driver runs on every journalled matrix is exactly the hypothesis of the theorems below -/
theorem oct_closed_test {n : ℕ} (c : OctM n) : isStronglyClosedB n c.e = true ↔ c.IsStronglyClosed :=
  isStronglyClosedB_iff c

/-- **`compute_successors`, `compute_leaders` (both overloads) compute the zero-equivalence classes with the coherent
index pairing** (`i ~ j` iff `i = j` or `m_ij + m_ji = 0` on the full view; the code tests
`is_additive_inverse(matrix[ci][cj], matrix[i][j])` on stored cells): `~` is an equivalence relation compatible with
`coherent_index` (classes come in coherent pairs); `leaders[i]` is the least index of the class of `i` and two
indices have equal leaders iff they are equivalent; `successor[j]` is the next greater element of the class of `j`
(or `j`); `no_sing_leaders` is the increasing list of the least elements of the non-singular classes (`i ≁ ci`),
which come in pairs `2h, 2h+1` (so list position and index have the same parity, as `rs_li` assumes);
`exist_sing_class` holds iff some `i ~ ci`, and then `sing_leader` is the least such index and is even. -/
theorem oct_leaders_spec {n : ℕ} (c : OctM n) (hc : c.IsStronglyClosed) :
    (∀ i j k, i < 2 * n → j < 2 * n → k < 2 * n → OZEq c.e i j → OZEq c.e j k → OZEq c.e i k) ∧
    (∀ i j, OZEq c.e i j → OZEq c.e (cidx i) (cidx j)) ∧
    ((∀ i, i < 2 * n → octComputeLeaders (2 * n) c.e i ≤ i ∧ OZEq c.e (octComputeLeaders (2 * n) c.e i) i ∧
        ∀ j, j < 2 * n → OZEq c.e j i → octComputeLeaders (2 * n) c.e i ≤ j) ∧
      (∀ i j, i < 2 * n → j < 2 * n →
        (octComputeLeaders (2 * n) c.e i = octComputeLeaders (2 * n) c.e j ↔ OZEq c.e i j))) ∧
    (∀ j, j < 2 * n →
      j ≤ octComputeSuccessors (2 * n) c.e j ∧ octComputeSuccessors (2 * n) c.e j < 2 * n ∧
      OZEq c.e (octComputeSuccessors (2 * n) c.e j) j ∧
      (∀ t, j < t → t < octComputeSuccessors (2 * n) c.e j → ¬ OZEq c.e t j) ∧
      (octComputeSuccessors (2 * n) c.e j = j → ∀ t, j < t → t < 2 * n → ¬ OZEq c.e t j)) ∧
    (let lead := octComputeLeaders (2 * n) c.e
     let L := octComputeLeaders4 (2 * n) (octComputeSuccessors (2 * n) c.e)
     L.no_sing_leaders = (List.range (2 * n)).filter (fun i => lead i == i && !(decide (OZEq c.e i (cidx i)))) ∧
     (L.exist_sing_class = true ↔ ∃ i, i < 2 * n ∧ OZEq c.e i (cidx i)) ∧
     (L.exist_sing_class = true → L.sing_leader < 2 * n ∧ OZEq c.e L.sing_leader (cidx L.sing_leader) ∧
        (∀ i, i < 2 * n → OZEq c.e i (cidx i) → L.sing_leader ≤ i) ∧ L.sing_leader % 2 = 0) ∧
     (∀ h, 2 * h ∈ L.no_sing_leaders ↔ 2 * h + 1 ∈ L.no_sing_leaders)) :=
  ⟨fun i j k hi hj hk => OZEq.trans c hc hi hj hk, fun i j => OZEq.cidx, PPLV.WR.oct_leaders_spec c hc,
    fun j hj => oct_successors_spec c j hj, oct_leaders4_spec_full c hc⟩

/-- the two `while` walks of `non_redundant_matrix_entries` never run out of the fuel of the model, and
`no_sing_leaders[lj]` is never read beyond the vector -/
theorem oct_reduction_total {n : ℕ} (c : OctM n) (hc : c.IsStronglyClosed) :
    ∃ nr, octNonRedundantMatrixEntries upId n c.e = some nr :=
  PPLV.WR.oct_reduction_total c hc

/-- **Strong reduction preserves the shape**: the matrix `strong_reduction_assign` leaves (every cell whose bit is not
set in the output of `non_redundant_matrix_entries` replaced by `+∞`) denotes the same set as the strongly closed
matrix — including the singular class (a single 0-cycle through the even indices, closed by the two unary cells) and
the cells between the singular class and the rest, which the code never examines. -/
theorem oct_reduction_preserves {n : ℕ} (c : OctM n) (hc : c.IsStronglyClosed) (nr : BMat)
    (h : octNonRedundantMatrixEntries upId n c.e = some nr) : OctM.γ (c.reduced nr) = OctM.γ c :=
  PPLV.WR.oct_reduction_preserves c hc nr h

/-- `affine_dimension()` counts the variables `h` whose two indices `2h`, `2h+1` are both leaders — the number of
coherent pairs of non-singular classes (half the length of `no_sing_leaders`). -/
theorem oct_affine_dimension_count {n : ℕ} (c : OctM n) (hc : c.IsStronglyClosed) :
    octAffineDimension n c.e = ((List.range n).filter fun h =>
      octComputeLeaders (2 * n) c.e (2 * h) == 2 * h && octComputeLeaders (2 * n) c.e (2 * h + 1) == 2 * h + 1).length ∧
    (octComputeLeaders4 (2 * n) (octComputeSuccessors (2 * n) c.e)).no_sing_leaders.length
      = 2 * octAffineDimension n c.e :=
  ⟨PPLV.WR.oct_affine_dimension_count c hc, oct_affine_dimension_leaders c hc⟩

/-- **`Octagonal_Shape::upper_bound_assign_if_exact`, soundness of the answer `true`**: for strongly closed `x`, `y`
with the outputs of `non_redundant_matrix_entries`, when no `(i, j, k, ℓ)` satisfies the eight conditions of the test,
the pointwise maximum denotes exactly the union.  (Completeness: `oct_upper_bound_if_exact_complete`.) -/
theorem oct_upper_bound_if_exact_sound {n : ℕ} (x y : OctM n) (hx : x.IsStronglyClosed) (hy : y.IsStronglyClosed)
    (xr yr : BMat) (hxr : octNonRedundantMatrixEntries upId n x.e = some xr)
    (hyr : octNonRedundantMatrixEntries upId n y.e = some yr)
    (ht : octUpperBoundIfExact upId n x.e y.e xr yr = true) :
    OctM.γ (OctM.join x y) = OctM.γ x ∪ OctM.γ y :=
  octUB_sound x y xr yr (oct_reduction_preserves x hx xr hxr) (oct_reduction_preserves y hy yr hyr) ht

/-! ### non-vacuity: `x₀ = 1`, `x₁ ≤ 3`, `x₁ - x₀ ≤ 2` (rows `+x₀, -x₀, +x₁, -x₁`) -/

def exO0 : OctM 2 := OctM.ofLists 2
  [[pinf, fin (-2)],
   [fin 2, pinf],
   [pinf, pinf, pinf, pinf],
   [pinf, fin 2, fin 6, pinf]]

/-- strong closure adds `x₀ + x₁ ≤ 4` -/
def exO : OctM 2 := OctM.strongClosure upId exO0

theorem exO_closed : exO.IsStronglyClosed := (oct_closed_test exO).1 (by decide +kernel)

example : exO.e 3 0 = fin 4 := by decide +kernel
-- the singular class `{+x₀, -x₀}` with leader 0, the non-singular leaders `+x₁, -x₁`, affine dimension 1
example : (octComputeLeaders 4 exO.e).toList 4 = [0, 0, 2, 3] := by decide +kernel
example : (octComputeSuccessors 4 exO.e).toList 4 = [1, 1, 2, 3] := by decide +kernel
example : octComputeLeaders4 4 (octComputeSuccessors 4 exO.e) = ⟨[2, 3], true, 0⟩ := by decide +kernel
example : octAffineDimension 2 exO.e = 1 := by decide +kernel
-- kept: the two unary cells of the singular class and `2·x₁ ≤ 6`; dropped: `x₀ + x₁ ≤ 4`, `x₁ - x₀ ≤ 2` (cells between
-- the singular class and the rest).  The cell (2,3) is flagged although it holds `+∞`: with a single pair of
-- non-singular leaders the loop over `k` is empty and `j = ci` skips the coherence test (harmless quirk of the code).
example : (octNonRedundantMatrixEntries upId 2 exO.e).map (BMat.toLists 4 rowSize) =
    some [[false, true], [true, false], [false, false, false, true], [false, false, true, false]] := by decide +kernel
example : exO.e 2 3 = pinf := by decide +kernel
example : (octMinimizedConstraints upId 2 exO.e) = some [⟨true, [2, 0], 2⟩, ⟨false, [0, 2], 6⟩] := by decide +kernel
example : ∃ nr, octNonRedundantMatrixEntries upId 2 exO.e = some nr ∧ OctM.γ (exO.reduced nr) = OctM.γ exO := by
  obtain ⟨nr, h⟩ := oct_reduction_total exO exO_closed
  exact ⟨nr, h, oct_reduction_preserves exO exO_closed nr h⟩
example : (octComputeLeaders4 4 (octComputeSuccessors 4 exO.e)).no_sing_leaders.length = 2 * octAffineDimension 2 exO.e :=
  (oct_affine_dimension_count exO exO_closed).2
example : OZEq exO.e 0 1 ∧ ¬ OZEq exO.e 2 3 := by decide +kernel

/-- `x₀ ≤ 1` joined with `1 ≤ x₀ ≤ 2` … as octagons of dimension 1: `0 ≤ x₀ ≤ 1` and `1 ≤ x₀ ≤ 2` -/
def exOU1 : OctM 1 := OctM.strongClosure upId (OctM.ofLists 1 [[pinf, fin 0], [fin 2, pinf]])
def exOU2 : OctM 1 := OctM.strongClosure upId (OctM.ofLists 1 [[pinf, fin (-2)], [fin 4, pinf]])

example : OctM.γ (OctM.join exOU1 exOU2) = OctM.γ exOU1 ∪ OctM.γ exOU2 := by
  obtain ⟨xr, hxr⟩ := oct_reduction_total exOU1 ((oct_closed_test exOU1).1 (by decide +kernel))
  obtain ⟨yr, hyr⟩ := oct_reduction_total exOU2 ((oct_closed_test exOU2).1 (by decide +kernel))
  refine oct_upper_bound_if_exact_sound exOU1 exOU2 ((oct_closed_test exOU1).1 (by decide +kernel))
    ((oct_closed_test exOU2).1 (by decide +kernel)) xr yr hxr hyr ?_
  have e : (do let a ← octNonRedundantMatrixEntries upId 1 exOU1.e; let b ← octNonRedundantMatrixEntries upId 1 exOU2.e
               pure (octUpperBoundIfExact upId 1 exOU1.e exOU2.e a b)) = some true := by decide +kernel
  rw [hxr, hyr] at e
  simpa using e

/-! ## the whole pipeline: closure, then reduction / exact join — no hypothesis about the matrix left -/

/-- **`strong_closure_assign` establishes strong closedness.**  Over exact rationals, when the code-shaped model of
`Octagonal_Shape::strong_closure_assign` (`OctM.strongClosure`: diagonal filled with zeros, the three nested loops run
twice, emptiness test, diagonal restored, `strong_coherence_assign`) does not report emptiness, the matrix it leaves
satisfies `IsStronglyClosed` — the hypothesis of every octagon theorem above — and denotes the same set.
(The two passes of the *weak* Floyd–Warshall step — each cell relaxed through `2h` and through `2h+1` from a snapshot,
but not through both — close every matrix with a zero diagonal: `octTwo_closed`, a path argument; then Miné's lemma for
the strong-coherence step.) -/
theorem oct_strong_closure_closed {n : ℕ} (m : OctM n) (hne : OctM.strongClosureEmpty upId m = false) :
    (OctM.strongClosure upId m).IsStronglyClosed ∧ OctM.γ (OctM.strongClosure upId m) = OctM.γ m :=
  ⟨OctM.strongClosure_isStronglyClosed octTwo_closed m hne, OctM.strongClosure_γ m⟩

/-- `strong_closure_assign` followed by `strong_reduction_assign` keeps the set of the original matrix. -/
theorem oct_closure_reduction_preserves {n : ℕ} (m : OctM n) (hne : OctM.strongClosureEmpty upId m = false)
    (nr : BMat) (h : octNonRedundantMatrixEntries upId n (OctM.strongClosure upId m).e = some nr) :
    OctM.γ ((OctM.strongClosure upId m).reduced nr) = OctM.γ m := by
  rw [oct_reduction_preserves _ (oct_strong_closure_closed m hne).1 nr h, (oct_strong_closure_closed m hne).2]

/-- `shortest_path_closure_assign` followed by `shortest_path_reduction_assign` keeps the set of the original matrix
(`bds_closure_closed` is about the code-shaped closure model `DBM.closure` of `PPLV/WR/Closure.lean`). -/
theorem bds_closure_reduction_preserves {n : ℕ} (m : DBM n) (hne : DBM.closureEmpty upId m = false)
    (red : BMat) (h : bdsShortestPathReduction upId n (DBM.closure upId m).e = some red) :
    DBM.γ ((DBM.closure upId m).reduced red) = DBM.γ m := by
  rw [bds_reduction_preserves _ (bds_closure_closed m hne) red h, (C03.closure_exact m hne).1]

/-- **Completeness of `BHZ09_upper_bound_assign_if_exact`**: for non-empty closed `x`, `y` (whatever the redundancy
bits), when the test answers `false` some point of the join lies in neither operand, and the union is not the set of
any BD shape. -/
theorem bds_upper_bound_if_exact_complete {n : ℕ} (x y : DBM n) (hx : x.IsClosed) (hy : y.IsClosed) (xr yr : BMat)
    (ht : bdsBHZ09 upId n x.e y.e xr yr = false) :
    (∃ p, p ∈ DBM.γ (DBM.join x y) ∧ p ∉ DBM.γ x ∧ p ∉ DBM.γ y) ∧
    ¬ ∃ Q : DBM n, DBM.γ Q = DBM.γ x ∪ DBM.γ y :=
  bdsBHZ09_complete x y hx hy xr yr ht

/-- the test answers `true` exactly when the union already is the BD shape `join x y` -/
theorem upper_bound_if_exact_iff {n : ℕ} (x y : DBM n) (hx : x.IsClosed) (hy : y.IsClosed) (xr yr : BMat)
    (hxr : bdsShortestPathReduction upId n x.e = some xr) (hyr : bdsShortestPathReduction upId n y.e = some yr) :
    bdsBHZ09 upId n x.e y.e xr yr = true ↔ DBM.γ (DBM.join x y) = DBM.γ x ∪ DBM.γ y :=
  bdsBHZ09_iff x y hx hy xr yr hxr hyr

/-- **Completeness of `Octagonal_Shape::upper_bound_assign_if_exact`** (the eight conditions). -/
theorem oct_upper_bound_if_exact_complete {n : ℕ} (x y : OctM n) (hx : x.IsStronglyClosed) (hy : y.IsStronglyClosed)
    (xr yr : BMat) (ht : octUpperBoundIfExact upId n x.e y.e xr yr = false) :
    (∃ p, p ∈ OctM.γ (OctM.join x y) ∧ p ∉ OctM.γ x ∧ p ∉ OctM.γ y) ∧
    ¬ ∃ Q : OctM n, OctM.γ Q = OctM.γ x ∪ OctM.γ y :=
  octUB_complete x y hx hy xr yr ht

theorem oct_upper_bound_if_exact_iff {n : ℕ} (x y : OctM n) (hx : x.IsStronglyClosed) (hy : y.IsStronglyClosed)
    (xr yr : BMat) (hxr : octNonRedundantMatrixEntries upId n x.e = some xr)
    (hyr : octNonRedundantMatrixEntries upId n y.e = some yr) :
    octUpperBoundIfExact upId n x.e y.e xr yr = true ↔ OctM.γ (OctM.join x y) = OctM.γ x ∪ OctM.γ y :=
  octUB_iff x y hx hy xr yr (oct_reduction_preserves x hx xr hxr) (oct_reduction_preserves y hy yr hyr)

-- non-vacuity: `exO = strongClosure exO0` is strongly closed by the theorem (no evaluation of the test needed) …
example : exO.IsStronglyClosed := (oct_strong_closure_closed exO0 (by decide +kernel)).1
example : ∃ nr, octNonRedundantMatrixEntries upId 2 exO.e = some nr ∧ OctM.γ (exO.reduced nr) = OctM.γ exO0 := by
  obtain ⟨nr, h⟩ := oct_reduction_total exO exO_closed
  exact ⟨nr, h, oct_closure_reduction_preserves exO0 (by decide +kernel) nr h⟩
example : ∃ red, bdsShortestPathReduction upId 3 exR.e = some red ∧ DBM.γ (exR.reduced red) = DBM.γ exR0 := by
  obtain ⟨red, h⟩ := bds_reduction_total exR
  exact ⟨red, h, bds_closure_reduction_preserves exR0 (by decide +kernel) red h⟩
-- … and `[0,1] ∪ [2,3]` (`exU1`, `exU3`: the test answers `false`) is not a BD shape
example : ¬ ∃ Q : DBM 1, DBM.γ Q = DBM.γ exU1 ∪ DBM.γ exU3 := by
  obtain ⟨xr, hxr⟩ := bds_reduction_total exU1
  obtain ⟨yr, hyr⟩ := bds_reduction_total exU3
  refine (bds_upper_bound_if_exact_complete exU1 exU3 (bds_closure_closed _ (by decide +kernel))
    (bds_closure_closed _ (by decide +kernel)) xr yr ?_).2
  have e : (do let a ← bdsShortestPathReduction upId 1 exU1.e; let b ← bdsShortestPathReduction upId 1 exU3.e
               pure (bdsBHZ09 upId 1 exU1.e exU3.e a b)) = some false := by decide +kernel
  rw [hxr, hyr] at e
  simpa using e

end C04
