import PPLV.WR.ReduceOct
/-!
# C04 stage 2 — reduction (work in progress: statements are being filled in)
-/
namespace C04
open PPLV.WR
open PPLV.WR.ExtRat (fin pinf)

/-- `x₀ = 1`, `x₁ - x₀ ≤ 2`, `x₁ ≤ 3` (redundant sum) -/
def exR : Mat := Mat.ofLists
  [[pinf, fin 1, fin 3],
   [fin (-1), pinf, fin 2],
   [pinf, pinf, pinf]]

theorem exR_red : (bdsShortestPathReduction upId 2 exR).map (BMat.toLists 3 (fun _ => 3)) =
    some [[true, false, false], [false, true, true], [true, true, true]] := by decide +kernel

end C04
