import PPLV.Term.ProofsPR
import PPLV.Term.ProofsGen
import PPLV.Term.ProofsSpaceGen
import PPLV.Term.ProofsCover

/-!
# C18 — termination analysis returns only genuine ranking functions; the methods agree

Conventions (`src/termination_defs.hh`): a relation over `n` program variables is a set of pairs
`w = (x', x) ∈ ℚ^{2n}`, primed values first; `μ(x) = μ_0 + Σ μ_i x_i` is the vector
`(μ_1, …, μ_n, μ_0)`.  `Spec.isRanking n S μ`: on every pair of `S`, `μ(x) ≥ 0` and
`μ(x) − μ(x') ≥ 1` (the normal form the Mesnard–Serebrenik encoding produces);
`Spec.isRankingGen n S μ`: bounded from below by some constant and decreasing by at least some
fixed `δ > 0` (what the Podelski–Rybalchenko functions produce, `μ_0 = 0`).  A function of the
second kind rescales to one of the first kind (`ranking_of_rankingGen`), so "an affine ranking
function exists" means the same for both.

The judge of `pplv_term` uses exactly the Boolean procedures below on what the real library
returned; `sem R` is the point set of the constraint system the library was given.
-/
namespace C18
open PPLV.Lin PPLV.Term

/-! ## the verified checkers -/

/-- **`isRankingB` decides the specification**: `μ = c/d` passes iff it is bounded from below by
    `0` and decreases by at least `1` on every pair of the relation (two K1 inclusions; strict
    rows of an NNC relation included). -/
theorem ranking_iff (n : Nat) (R : List Con) (c : List Int) (d : Int) (hwf : WF (2*n) R) :
    isRankingB n R c d = true ↔ 0 < d ∧ Spec.isRanking n (sem R) (ratPoint c d) :=
  isRankingB_iff n R c d hwf

/-- the loop `x' = x − 1, x ≥ 0` (rows over `(x', x)`) -/
def decLoop : List Con := eqRows [1, -1] 1 ++ [geRow [0, 1] 0]
/-- the loop `x' = x, x ≥ 0` -/
def idLoop : List Con := eqRows [1, -1] 0 ++ [geRow [0, 1] 0]

example : isRankingB 1 decLoop [1, 0] 1 = true := by decide +kernel      -- μ(x) = x
example : isRankingB 1 decLoop [1, -1] 1 = false := by decide +kernel    -- μ(x) = x − 1 < 0 at x = 0
example : isRankingB 1 decLoop [1, 0] 2 = false := by decide +kernel     -- μ(x) = x/2 decreases by 1/2 only
example : isRankingB 1 idLoop [1, 0] 1 = false := by decide +kernel

/-- **`isRankingGenB` decides the general form** (supremum of a linear function over the
    relation, K1 `supB`): bounded from below and decreasing by a fixed positive amount. -/
theorem ranking_gen_iff (n : Nat) (R : List Con) (c : List Int) (d : Int) (hwf : WF (2*n) R) :
    isRankingGenB n R c d = true ↔ 0 < d ∧ Spec.isRankingGen n (sem R) (ratPoint c d) :=
  isRankingGenB_iff n R c d hwf

example : isRankingGenB 1 decLoop [1, 0] 2 = true := by decide +kernel   -- x/2: δ = 1/2
example : isRankingGenB 1 decLoop [1, -7] 1 = true := by decide +kernel  -- x − 7: β = −7
example : isRankingGenB 1 idLoop [1, 0] 1 = false := by decide +kernel

theorem rankingGen_of_ranking (n : Nat) (S : Val → Prop) (mu : Val) (h : Spec.isRanking n S mu) :
    Spec.isRankingGen n S mu := ⟨1, 0, one_pos, h⟩

/-- a function of the general form rescales to the normal form: existence is the same notion -/
theorem ranking_of_rankingGen (n : Nat) (S : Val → Prop) (mu : Val) (h : Spec.isRankingGen n S mu) :
    ∃ mu', Spec.isRanking n S mu' := by
  obtain ⟨δ, β, hδ, h⟩ := h
  refine ⟨fun i => if i = n then (mu n - β) / δ else mu i / δ, fun w hw => ?_⟩
  have hlin : ∀ off, linAt n (fun i => if i = n then (mu n - β) / δ else mu i / δ) off w
      = linAt n mu off w / δ := by
    intro off
    have e : linAt n mu off w / δ = δ⁻¹ * linAt n mu off w := by ring
    rw [e]
    unfold linAt
    rw [← sumTo_mul_left]
    apply sumTo_congr
    intro i hi
    have : i ≠ n := by omega
    simp only [this, if_false]
    field_simp
  obtain ⟨h1, h2⟩ := h w hw
  unfold Spec.valueAt Spec.decrAt at *
  rw [hlin, hlin]
  simp only [if_true]
  constructor
  · have : (mu n - β) / δ + linAt n mu n w / δ = (mu n + linAt n mu n w - β) / δ := by ring
    rw [this]
    exact div_nonneg (by linarith) (le_of_lt hδ)
  · have : linAt n mu n w / δ - linAt n mu 0 w / δ = (linAt n mu n w - linAt n mu 0 w) / δ := by ring
    rw [this, le_div_iff₀ hδ]
    linarith

/-! ## the Farkas encodings are sound (code-shaped models of `termination.cc`) -/

/-- **Mesnard–Serebrenik**: every solution `(μ_1..μ_n, μ_0, y, z)` of the system built by
    `fill_constraint_systems_MS` (single-system form of `termination_test_MS` /
    `one_affine_ranking_function_MS`) is a ranking function of the relation: weighted-sum
    argument with the non-negative multipliers `y` (decrease) and `z` (lower bound). -/
theorem ms_sound (n : Nat) (cs : List Con) (hwf : WF (2*n) cs) (sol : Val)
    (h : Sat (msSystem n cs) sol) : Spec.isRanking n (sem cs) sol := by
  unfold msSystem at h
  rw [Sat_append] at h
  intro w hw
  exact ⟨fillMS2_sound n cs _ (by omega) hwf sol h.2 w hw,
         fillMS1_sound n cs _ (by omega) hwf sol h.1 w hw⟩

/-- non-vacuity: `μ = x` with `y = (0,1,0)`, `z = (0,0,1)`, `z_4 = z_5 = 0` solves the system of
    `x' = x − 1, x ≥ 0` -/
example : ∃ sol, Sat (msSystem 1 decLoop) sol :=
  certFeas_sound _ [1, 0, 0, 1, 0, 0, 0, 1, 0, 0] 1 (by decide +kernel)

/-- the two separate systems of `all_affine_ranking_functions_MS` /
    `all_affine_quasi_ranking_functions_MS`: system 1 gives the decreasing functions, system 2
    the functions bounded from below by `0` -/
theorem ms_quasi_sound (n : Nat) (cs : List Con) (hwf : WF (2*n) cs) (sol : Val) :
    (Sat (fillMS1 n cs (n + 1)) sol → ∀ w ∈ sem cs, 1 ≤ Spec.decrAt n sol w) ∧
    (Sat (fillMS2 n cs (n + 1)) sol → ∀ w ∈ sem cs, 0 ≤ Spec.valueAt n sol w) :=
  ⟨fun h w hw => fillMS1_sound n cs _ (by omega) hwf sol h w hw,
   fun h w hw => fillMS2_sound n cs _ (by omega) hwf sol h w hw⟩

/-- **Podelski–Rybalchenko, before/after form** (`fill_constraint_system_PR` with
    `le_out ≤ −1`): from every solution `u = (u_3, u_2, u_1) ≥ 0` the function
    `μ = −u_3ᵀE'_C` (`μ_0 = 0`) decreases by at least `1` and is bounded from below by
    `−u_1·d_B` on the relation `x ∈ before ∧ (x', x) ∈ after`. -/
theorem pr_sound (n : Nat) (csB csA : List Con) (hB : WF n csB) (hA : WF (2*n) csA) (u : Val)
    (h : Sat (prSystem n csB csA) u) :
    Spec.isRankingGen n (sem (pairRel n csB csA)) (prMu n csA u) :=
  ⟨1, _, one_pos, prSystem_sound n csB csA hB hA u h⟩

/-- `x ≥ 0` before; `x' = x − 1` after -/
example : ∃ u, Sat (prSystem 1 [geRow [1] 0] (eqRows [1, -1] 1)) u :=
  certFeas_sound _ [0, 1, 0, 1] 1 (by decide +kernel)
example : feasible (prDim [geRow [1] 0] (eqRows [1, -1] 0))
    (prSystem 1 [geRow [1] 0] (eqRows [1, -1] 0)) = false := by decide +kernel

/-- the guarded decrement `x_2' = x_2 − x_1, x_1' ≥ x_1` under the guard `x_1 ≥ 1, x_2 ≥ 0`
    (rows over `(x_1', x_2', x_1, x_2)`): the size of the decrement is known through the guard only -/
def guardB : List Con := [geRow [1, 0] (-1), geRow [0, 1] 0]
def guardA : List Con := eqRows [0, 1, 1, -1] 0 ++ [geRow [1, 0, -1, 0] 0]

-- `u_3 = (0,1,0)`, `u_2 = (1,0)`, `u_1 = (0,1)`: `μ = x_2`
example : ∃ u, Sat (prSystem 2 guardB guardA) u :=
  certFeas_sound _ [0, 1, 0, 1, 0, 0, 1] 1 (by decide +kernel)
example : isRankingB 2 (pairRel 2 guardB guardA) [0, 1, 0] 1 = true := by decide +kernel

/-- on such relations (no inhomogeneous term in `cs_after`) every solution of the encoding puts a
    total weight `u_2·d_B ≤ −1` on the guard rows: the guard multipliers are non-zero and the
    term `u_2·d_B` of `le_out` is indispensable (a version of `fill_constraint_system_PR` without
    it answers `false` on `guardB / guardA` although `μ = x_2` is a ranking function) -/
theorem pr_guard_term_needed (n : Nat) (csB csA : List Con)
    (h0 : (consts csA).all (· == 0) = true) (u : Val) (hs : Sat (prSystem n csB csA) u) :
    dot (consts csB) (fun i => u (i + csA.length)) ≤ -1 :=
  prSystem_guard_term n csB csA h0 u hs

example : (consts guardA).all (· == 0) = true := by decide

/-- **Podelski–Rybalchenko, single-relation form** (`fill_constraint_system_PR_original`):
    `μ = −λ_2ᵀA'` decreases by at least `1` and is bounded from below by `−λ_1·b`. -/
theorem pr_original_sound (n : Nat) (cs : List Con) (hwf : WF (2*n) cs) (u : Val)
    (h : Sat (prOrigSystem n cs) u) :
    Spec.isRankingGen n (sem cs) (prOrigMu n cs u) :=
  ⟨1, _, one_pos, prOrigSystem_sound n cs hwf u h⟩

example : ∃ u, Sat (prOrigSystem 1 decLoop) u :=
  certFeas_sound _ [0, 0, 1, 0, 1, 0] 1 (by decide +kernel)

/-! ## does a ranking function exist? -/

/-- **Refutation**: points of the relation and recession directions of it whose finitely many
    conditions on `μ` are unsatisfiable (K1 emptiness) prove that no affine ranking function
    exists — no Farkas lemma involved. -/
theorem no_ranking_sound (n : Nat) (cs : List Con) (gs : List Gen) (h : noRankingB n cs gs = true) :
    ¬ ∃ mu, Spec.isRanking n (sem cs) mu := noRankingB_sound n cs gs h

/-- **The existence decider is sound in both answers**: `some true` — a ranking function exists
    (a witness passed `isRankingB`, or the relation is empty); `some false` — none exists. -/
theorem exists_ranking_decider_sound (n : Nat) (cs : List Con) (gs : List Gen) (hwf : WF (2*n) cs)
    (b : Bool) (h : existsRankingDecider n cs gs = some b) :
    b = true ↔ ∃ mu, Spec.isRanking n (sem cs) mu :=
  existsRankingDecider_sound n cs gs hwf b h

-- `x' = x − 1, x ≥ 0`: vertex `(−1, 0)`, ray `(1, 1)`
example : existsRankingDecider 1 decLoop [⟨.point, [-1, 0], 1⟩, ⟨.ray, [1, 1], 1⟩] = some true := by
  decide +kernel
-- `x' = x, x ≥ 0`: vertex `(0, 0)`, ray `(1, 1)`
example : existsRankingDecider 1 idLoop [⟨.point, [0, 0], 1⟩, ⟨.ray, [1, 1], 1⟩] = some false := by
  decide +kernel
-- the empty relation
example : existsRankingDecider 1 [falseRow] [] = some true := by decide +kernel
-- a wrong hint is never believed
example : existsRankingDecider 1 idLoop [⟨.point, [-1, 0], 1⟩] = none := by decide +kernel

/-- the converse of the refutation: when the hint covers the relation (every pair is a combination
    of the generators, e.g. established by K1 `checkDD`), the finite system `rankCons` is exact —
    each of its solutions is a ranking function of the relation -/
theorem rank_cons_exact (n : Nat) (cs : List Con) (gs : List Gen)
    (hclosed : ∀ g ∈ gs, g.kind ≠ .cpoint) (hgwf : gensWF (2*n) gs = true)
    (hcover : ∀ w ∈ sem cs, w ∈ GenSem (2*n) gs) (mu : Val)
    (h : Sat (rankCons n (expandLines gs)) mu) : Spec.isRanking n (sem cs) mu :=
  fun w hw => rankCons_sound n gs hclosed hgwf mu h w (hcover w hw)

/-- **Completeness of the decider, partial.**  With a covering hint the decider answers
    `some true` as soon as the (untrusted) simplex search `findPoint` returns a solution of the
    finite system.  Missing for full completeness: a proof that the search returns a solution
    whenever the system is feasible (the simplex of `PPLV/Lin/Simplex.lean` is deliberately
    untrusted and unproved; K1's complete `feasible` does not produce a witness), and that the
    hint of the harness (the library's own generators) is exact — the latter is checked at run
    time, not assumed: a hint that is not exact leads to `none`, never to a wrong answer
    (`exists_ranking_decider_sound`). -/
theorem exists_ranking_decider_complete_partial (n : Nat) (cs : List Con) (gs : List Gen)
    (hwf : WF (2*n) cs) (hne : isEmptyB (2*n) cs = false)
    (hclosed : ∀ g ∈ gs, g.kind ≠ .cpoint) (hgwf : gensWF (2*n) gs = true)
    (hcover : ∀ w ∈ sem cs, w ∈ GenSem (2*n) gs) (c : List Int) (d : Int)
    (hfp : findPoint (n + 1) (rankCons n (expandLines gs)) = some (c, d)) :
    existsRankingDecider n cs gs = some true := by
  obtain ⟨hd, hsat⟩ := findPoint_sound _ _ c d hfp
  have hr : isRankingB n cs c d = true :=
    (isRankingB_iff n cs c d hwf).mpr ⟨hd, rank_cons_exact n cs gs hclosed hgwf hcover _ hsat⟩
  unfold existsRankingDecider
  simp [hne, hfp, hr]

/-! ## every element of a returned space of functions -/

/-- **`mu_space` of the Mesnard–Serebrenik functions** (a closed polyhedron of dimension `n+1`):
    if every generator passes `spaceGenOK` (points: `isRankingB`; rays and lines: the homogeneous
    inclusions) then *every* element of the polyhedron is a ranking function. -/
theorem mu_space_sound (n : Nat) (R : List Con) (gs : List Gen) (hwf : WF (2*n) R)
    (h : spaceOK n R gs = true) :
    ∀ mu ∈ GenSem (n + 1) gs, Spec.isRanking n (sem R) mu :=
  fun mu hmu => spaceOK_sound n R gs hwf h mu hmu

-- all ranking functions of `x' = x − 1, x ≥ 0`: `μ_1 ≥ 1, μ_0 ≥ 0`
example : spaceOK 1 decLoop [⟨.point, [1, 0], 1⟩, ⟨.ray, [1, 0], 1⟩, ⟨.ray, [0, 1], 1⟩] = true := by
  decide +kernel
example : spaceOK 1 decLoop [⟨.point, [1, 0], 1⟩, ⟨.line, [0, 1], 1⟩] = false := by decide +kernel

/-- **the two quasi spaces** of `all_affine_quasi_ranking_functions_MS`: generator-wise checks
    carry over to every element — `decreasing_mu_space` decreases by at least `1`,
    `bounded_mu_space` is bounded from below by `0` on every pair of the relation -/
theorem quasi_spaces_sound (n : Nat) (R : List Con) (gsD gsB : List Gen) (hwf : WF (2*n) R) :
    (quasiOK n R true gsD = true → ∀ mu ∈ GenSem (n + 1) gsD, ∀ w ∈ sem R, 1 ≤ Spec.decrAt n mu w) ∧
    (quasiOK n R false gsB = true → ∀ mu ∈ GenSem (n + 1) gsB, ∀ w ∈ sem R, 0 ≤ Spec.valueAt n mu w) :=
  ⟨fun h mu hmu w hw => quasi_decreasing_sound n R gsD hwf h mu hmu w hw,
   fun h mu hmu w hw => quasi_bounded_sound n R gsB hwf h mu hmu w hw⟩

-- `x' = x − 1, x ≥ 0`: decreasing `μ_1 ≥ 1` (`μ_0` free); bounded `μ_1 ≥ 0, μ_0 ≥ 0`
example : quasiOK 1 decLoop true [⟨.point, [1, 0], 1⟩, ⟨.ray, [1, 0], 1⟩, ⟨.line, [0, 1], 1⟩] = true := by
  decide +kernel
example : quasiOK 1 decLoop false [⟨.point, [0, 0], 1⟩, ⟨.ray, [1, 0], 1⟩, ⟨.line, [0, 1], 1⟩] = false := by
  decide +kernel

/-- **`mu_space` of the Podelski–Rybalchenko functions** (an NNC polyhedron): points must pass
    `isRankingGenB`, closure points / rays / lines the homogeneous conditions (non-increasing,
    bounded from below); then every element is bounded from below and decreases by a fixed
    positive amount. -/
theorem mu_space_gen_sound (n : Nat) (R : List Con) (gs : List Gen) (hwf : WF (2*n) R)
    (h : spaceGenOKAll n R gs = true) :
    ∀ mu ∈ GenSem (n + 1) gs, Spec.isRankingGen n (sem R) mu :=
  fun mu hmu => spaceGenOKAll_sound n R gs hwf h mu hmu

-- what PPL returns for `x' = x − 1, x ≥ 0`: `μ_1 > 0`, `μ_0` free
example : spaceGenOKAll 1 decLoop
    [⟨.line, [0, 1], 1⟩, ⟨.cpoint, [0, 0], 1⟩, ⟨.ray, [1, 0], 1⟩, ⟨.point, [1, 0], 1⟩] = true := by
  decide +kernel
example : spaceGenOKAll 1 decLoop [⟨.point, [0, 0], 1⟩] = false := by decide +kernel

end C18
