import PPLV.Conv.ProofsSound3
import PPLV.Conv.ProofsSat3
import PPLV.Conv.ProofsSpan
import PPLV.Conv.ProofsSimp9
import PPLV.Conv.ProofsSort
import PPLV.Conv.ProofsK1
/-!
# C01 stage 3 — the double-description engine inside the model

Theorems about the code-shaped model `PPLV/Conv/{Model,Simplify}.lean` of `Polyhedron::conversion`,
`simplify`, `minimize`, `add_and_minimize` (tied row for row to the real static members by
`harness/c01_conv.cc` + `lean/Driver/Conv.lean`).

Proved here: the invariant of the C++ comments (soundness), step by step and for the whole function;
the half of completeness that needs no adjacency argument (ray case); the consequence for the drivers
(`minimize` never says "non-empty" wrongly).  NOT proved: full completeness of `conversion` (the
Double Description lemma with the adjacency criterion — `dest` generates the WHOLE cone) and the
redundancy criteria of `simplify`; both are certified per run on the real output by the K1 deciders
`checkDD` / `equivB` in the driver.
-/
namespace C01
open PPLV.Conv

/-- **`conversion_sound`** — if the generators handed to `conversion` satisfy the constraints already
processed (`source[0, start)`) and the first `nle` of them are exactly the lines, then EVERY generator
returned satisfies EVERY row of `source` (`≥ 0`, and `= 0` when the source row is an equality or the
generator is a line) — also the rows `conversion` removes from `source` as redundant — and the first
`num_lines_or_equalities` (the returned value) rows of `dest` are exactly the lines.  By induction over
the main loop (`conversionStep_sound` is the invariant of the C++ comments). -/
theorem conversion_sound (ncols : Nat) (source : List LRow) (start : Nat) (dest : List LRow) (sat : List BRow)
    (nle : Nat) (h0 : Sound (source.take start) dest) (hl : LinesFirst dest nle) (hn : nle ≤ dest.length)
    (hlen : sat.length = dest.length) :
    Sound source (conversion ncols source start dest sat nle).dest ∧
    LinesFirst (conversion ncols source start dest sat nle).dest (conversion ncols source start dest sat nle).nle :=
  conversion_sound' ncols source start dest sat nle h0 hl hn hlen

/-- non-vacuity: the triangle `x ≥ 0, y ≥ 0, x + y ≤ 2` (+ positivity), from the identity matrix of lines. -/
example :
    let src : List LRow := [⟨false, [0, 1, 0]⟩, ⟨false, [0, 0, 1]⟩, ⟨false, [2, -1, -1]⟩, ⟨false, [1, 0, 0]⟩]
    let sat0 : List BRow := List.replicate 3 (List.replicate 4 false)
    Sound (src.take 0) (identityLines 3) ∧ LinesFirst (identityLines 3) 3 ∧
    (conversion 3 src 0 (identityLines 3) sat0 3).dest
      = [⟨false, [1, 0, 0]⟩, ⟨false, [1, 0, 2]⟩, ⟨false, [1, 2, 0]⟩] ∧
    (conversion 3 src 0 (identityLines 3) sat0 3).source.length = 3 := by
  refine ⟨?_, ?_, by decide, by decide⟩
  · intro d _ s hs; simp at hs
  · unfold LinesFirst; decide

/-- **the loop invariant, one iteration** (`for k …` at `Polyhedron_conversion_templates.hh:422`):
whatever the adjacency tests decide, after processing `source[k]` every generator satisfies the rows
processed so far and `source[k]`, and the lines are the first `num_lines_or_equalities` rows. -/
theorem conversion_step_invariant (ncols : Nat) (srcK : LRow) (st : CState) (processed : List LRow)
    (h : ∀ d ∈ st.rows, ∀ s ∈ processed, satisfies s d.row)
    (hl : ∀ m d, st.rows[m]? = some d → d.row.le = decide (m < st.nle)) (hn : st.nle ≤ st.rows.length) :
    (∀ d ∈ (conversionStep ncols srcK st).rows, ∀ s ∈ processed ++ [srcK], satisfies s d.row) ∧
    (∀ m d, (conversionStep ncols srcK st).rows[m]? = some d → d.row.le = decide (m < (conversionStep ncols srcK st).nle)) ∧
    (conversionStep ncols srcK st).nle ≤ (conversionStep ncols srcK st).rows.length :=
  conversionStep_sound ncols srcK st processed h hl hn

example :
    let st : CState := { rows := [⟨⟨true, [0, 0, 1]⟩, 0, [false]⟩, ⟨⟨false, [1, 0, 0]⟩, 0, [true]⟩, ⟨⟨false, [0, 1, 0]⟩, 0, [false]⟩],
                         nle := 1, k := 1, redundant := [] }
    (∀ d ∈ st.rows, ∀ s ∈ [(⟨false, [1, 0, 0]⟩ : LRow)], satisfies s d.row) ∧
    ((conversionStep 3 ⟨false, [2, -1, 0]⟩ st).rows.map (·.row)) = [⟨true, [0, 0, 1]⟩, ⟨false, [1, 0, 0]⟩, ⟨false, [1, 2, 0]⟩] := by
  constructor
  · decide
  · decide

/-- **`conversion_sat_correct`** — the saturation bookkeeping never goes stale.  If the matrix handed in
is the saturation relation of `dest` and the already processed rows `source[0, start)` (the code's
convention: `sat[i][j]` set iff `scalar_product(dest_i, source_j) ≠ 0`, no bit beyond), then the matrix
returned is exactly the saturation relation of the returned `dest` and the returned `source` (the rows
found redundant have lost their column), with as many rows as `dest` and no bit set beyond `source`. -/
theorem conversion_sat_correct (ncols : Nat) (source : List LRow) (start : Nat) (dest : List LRow) (sat : List BRow)
    (nle : Nat) (hstart : start ≤ source.length) (h0 : Sound (source.take start) dest) (hl : LinesFirst dest nle)
    (hn : nle ≤ dest.length) (hsat0 : SatCorrect (source.take start) dest sat) :
    SatCorrect (conversion ncols source start dest sat nle).source (conversion ncols source start dest sat nle).dest
      (conversion ncols source start dest sat nle).sat :=
  PPLV.Conv.conversion_sat_correct ncols source start dest sat nle hstart h0 hl hn hsat0

/-- non-vacuity: the triangle again; the hypotheses hold for the fresh matrix of `minimize`, and the
returned matrix has one bit per (vertex, facet not through it). -/
example :
    let src : List LRow := [⟨false, [0, 1, 0]⟩, ⟨false, [0, 0, 1]⟩, ⟨false, [2, -1, -1]⟩, ⟨false, [1, 0, 0]⟩]
    let sat0 : List BRow := List.replicate 3 (List.replicate 4 false)
    SatCorrect (src.take 0) (identityLines 3) sat0 ∧
    (conversion 3 src 0 (identityLines 3) sat0 3).sat = [[false, false, true], [false, true, false], [true, false, false]] := by
  refine ⟨⟨by decide, ?_⟩, by decide⟩
  intro i hi j
  have hi' : i < 3 := by simpa [identityLines] using hi
  have : bit ((List.replicate 3 (List.replicate 4 false)).getD i []) j = false := by
    rw [List.getD_eq_getElem?_getD, List.getElem?_replicate, if_pos hi']
    show bit (List.replicate 4 false) j = false
    unfold bit
    rw [List.getD_eq_getElem?_getD, List.getElem?_replicate]
    split <;> rfl
  rw [this]; simp

/-- the same bookkeeping, one iteration: either `source[k]` gets the next column, or it is recorded as
redundant and the matrix is untouched. -/
theorem conversion_step_sat (ncols : Nat) (srcK : LRow) (st : CState) (kept : List LRow)
    (hk : kept.length = st.k - st.redundant.length)
    (hs : ∀ d ∈ st.rows, ∀ s ∈ kept, satisfies s d.row)
    (hl : ∀ m d, st.rows[m]? = some d → d.row.le = decide (m < st.nle)) (hn : st.nle ≤ st.rows.length)
    (hsat : RowsSatCorrect kept st.rows) :
    ((conversionStep ncols srcK st).redundant = st.redundant ∧ RowsSatCorrect (kept ++ [srcK]) (conversionStep ncols srcK st).rows) ∨
    ((conversionStep ncols srcK st).redundant = st.redundant ++ [st.k] ∧ RowsSatCorrect kept (conversionStep ncols srcK st).rows) :=
  conversionStep_sat ncols srcK st kept hk hs hl hn hsat

example :
    let st : CState := { rows := [⟨⟨false, [1, 0]⟩, 0, [true]⟩, ⟨⟨false, [1, 2]⟩, 0, [true]⟩], nle := 0, k := 1, redundant := [] }
    let kept : List LRow := [⟨false, [1, 0]⟩]
    RowsSatCorrect kept st.rows ∧
    (conversionStep 2 ⟨false, [1, -1]⟩ st).rows.map (·.sat) = [[true, true], [true]] := by
  refine ⟨?_, by decide⟩
  intro d hd j
  simp only [List.mem_cons, List.not_mem_nil, or_false] at hd
  rcases hd with h | h <;> subst h <;> rcases j with _ | j <;> simp [bit, scalarProduct]

/-- **`conversion_preserves_span_ray`** — the half of completeness that needs no adjacency argument,
for one iteration in the case where every line saturates `source[k]` (`rayCase`, :635-968; `st` holds the
scalar products): (a) every old generator that satisfies the new constraint (`= 0` for an equality) is
kept, unchanged as a row; (b) every row of the result is an old row, or a strictly POSITIVE
combination of exactly two old rows, one with a positive and one with a negative scalar product.
The line case is `conversion_preserves_span_line`, both together `conversion_preserves_span`.  What is
NOT proved is FULL completeness (`dest` generates the whole cone: the rows the adjacency criterion
declines to build are redundant — the Double Description lemma); it is certified per run by `checkDD`
on the real output (driver obligation `dd`). -/
theorem conversion_preserves_span_ray (ncols : Nat) (srcK : LRow) (newK : Nat) (st : CState)
    (hn : st.nle ≤ st.rows.length) (hz : ∀ d ∈ st.rows.take st.nle, d.sp = 0)
    (hl : ∀ m d, st.rows[m]? = some d → d.row.le = decide (m < st.nle)) :
    (∀ d ∈ st.rows, survives srcK d → ∃ d' ∈ (rayCase ncols srcK newK st).rows, d'.row = d.row) ∧
    (∀ d' ∈ (rayCase ncols srcK newK st).rows,
      (∃ d ∈ st.rows, d'.row = d.row) ∨
      (∃ ri ∈ st.rows, ∃ rj ∈ st.rows, 0 < ri.sp ∧ rj.sp < 0 ∧ ∃ g a b : Int, 0 < g ∧ 0 < a ∧ 0 < b ∧
        ∀ s, g * scalarProduct s d'.row.v = a * scalarProduct s rj.row.v + b * scalarProduct s ri.row.v)) := by
  obtain ⟨_, _, _, tail, hrows, hmem, hsurv⟩ := rayCase_rows ncols srcK newK st hn hz
  constructor
  · intro d hd hs
    rw [hrows]
    have : d ∈ st.rows.take st.nle ++ st.rows.drop st.nle := by rw [List.take_append_drop]; exact hd
    rcases List.mem_append.mp this with h | h
    · exact ⟨d, List.mem_append_left _ h, rfl⟩
    · exact ⟨_, List.mem_append_right _ (hsurv d h hs), keepImage_row _ _ _⟩
  · intro d' hd'
    rw [hrows] at hd'
    rcases List.mem_append.mp hd' with h | h
    · exact Or.inl ⟨d', List.mem_of_mem_take h, rfl⟩
    · rcases hmem d' h with ⟨d, hd, _, he⟩ | ⟨ri, hri, rj, hrj, hi, hj, he⟩
      · exact Or.inl ⟨d, List.mem_of_mem_drop hd, by rw [he, keepImage_row]⟩
      · right
        have hjl : rj.row.le = false := by
          obtain ⟨m, hm, hdm⟩ := (mem_drop_iff_getElem? _ _ _).mp hrj
          rw [hl m rj hdm]; simp; omega
        obtain ⟨g, a, b, hg, ha, hb, _, _, _, _, hs⟩ := sp_newRay ri rj (bor ri.sat rj.sat) hi hj hjl
        refine ⟨ri, List.mem_of_mem_drop hri, rj, List.mem_of_mem_drop hrj, hi, hj, g, a, b, hg, ha, hb, ?_⟩
        intro s; rw [he]; exact (hs s).symm

example :
    let st : CState := { rows := [⟨⟨false, [1, 0]⟩, 1, []⟩, ⟨⟨false, [1, 2]⟩, -1, []⟩], nle := 0, k := 0, redundant := [] }
    ((rayCase 2 ⟨false, [1, -1]⟩ 0 st).rows.map (·.row)) = [⟨false, [1, 0]⟩, ⟨false, [1, 1]⟩] := by decide

/-- **`conversion_preserves_span_line`** — the same for the case where the line `inz` does not saturate
`source[k]` (`lineCase`, :478-633; `st` holds the scalar products): every other old record with product
0 is kept with the same row; an old ray `d0` with a positive product (for an inequality) is replaced by
`d'` with `a·d0 = g·d' + b·p`, `a, g, b > 0`, `p` the new ray made from the line — so it is still
generated. -/
theorem conversion_preserves_span_line (srcK : LRow) (newK : Nat) (st : CState) (inz : Nat)
    (hinz : inz < st.nle) (hn : st.nle ≤ st.rows.length)
    (hpiv : ∃ r, st.rows[inz]? = some r ∧ r.sp ≠ 0)
    (m0 : Nat) (d0 : DRow) (hm0 : m0 ≠ inz) (hd0 : st.rows[m0]? = some d0) :
    (d0.sp = 0 → ∃ d' ∈ (lineCase srcK newK st inz).rows, d'.row = d0.row) ∧
    (0 < d0.sp → st.nle ≤ m0 → d0.row.le = false → srcK.le = false →
      ∃ d' ∈ (lineCase srcK newK st inz).rows, ∃ p ∈ (lineCase srcK newK st inz).rows, ∃ g a b : Int,
        0 < g ∧ 0 < a ∧ 0 < b ∧
        ∀ s, a * scalarProduct s d0.row.v = g * scalarProduct s d'.row.v + b * scalarProduct s p.row.v) :=
  lineCase_preserves_span srcK newK st inz hinz hn hpiv m0 d0 hm0 hd0

example :
    let st : CState := { rows := [⟨⟨true, [0, 1]⟩, 1, []⟩, ⟨⟨false, [1, 1]⟩, 1, []⟩], nle := 1, k := 0, redundant := [] }
    ((lineCase ⟨false, [0, 1]⟩ 0 st 0).rows.map (·.row)) = [⟨false, [0, 1]⟩, ⟨false, [1, 0]⟩] := by decide

/-- **`conversion_preserves_span`** — one iteration of the main loop, both cases: every old generator
that satisfies the new constraint (`≥ 0`; `= 0` for an equality or for a line) is still a row of the
result, or is a strictly positive combination `a·d0 = g·d' + b·p` of two rows of the result.  Together
with `conversion_preserves_span_ray` (b) (each row built is a strictly positive combination of exactly
two old rows that lie on opposite sides) this is the half of completeness that needs no adjacency
argument.  Full completeness is left to the per-run certificate `checkDD`. -/
theorem conversion_preserves_span (ncols : Nat) (srcK : LRow) (st : CState)
    (hl : ∀ m d, st.rows[m]? = some d → d.row.le = decide (m < st.nle)) (hn : st.nle ≤ st.rows.length)
    (d0 : DRow) (hd0 : d0 ∈ st.rows) (hsat : satisfies srcK d0.row) :
    (∃ d' ∈ (conversionStep ncols srcK st).rows, d'.row = d0.row) ∨
    (∃ d' ∈ (conversionStep ncols srcK st).rows, ∃ p ∈ (conversionStep ncols srcK st).rows, ∃ g a b : Int,
        0 < g ∧ 0 < a ∧ 0 < b ∧
        ∀ s, a * scalarProduct s d0.row.v = g * scalarProduct s d'.row.v + b * scalarProduct s p.row.v) := by
  obtain ⟨m0, hm0⟩ := List.mem_iff_getElem?.mp hd0
  let rows1 := st.rows.map fun d => { d with sp := scalarProduct srcK.v d.row.v }
  let st1 : CState := { st with rows := rows1 }
  let d1 : DRow := { d0 with sp := scalarProduct srcK.v d0.row.v }
  have hd1 : st1.rows[m0]? = some d1 := by
    show (st.rows.map _)[m0]? = _
    rw [List.getElem?_map, hm0]; rfl
  have hn1 : st1.nle ≤ st1.rows.length := by
    show st.nle ≤ (st.rows.map _).length
    rw [List.length_map]; exact hn
  have hle : d0.row.le = decide (m0 < st.nle) := hl m0 d0 hm0
  have hbefore : ∀ m d, m < indexNonZero rows1 → st1.rows[m]? = some d → d.sp = 0 :=
    fun m d hm hd => indexNonZero_before rows1 m d hm hd
  by_cases hc : indexNonZero rows1 < st.nle
  · have e : conversionStep ncols srcK st = lineCase srcK (st.k - st.redundant.length) st1 (indexNonZero rows1) := by
      show (if indexNonZero rows1 < st.nle then lineCase srcK (st.k - st.redundant.length) st1 (indexNonZero rows1)
            else rayCase ncols srcK (st.k - st.redundant.length) st1) = _
      rw [if_pos hc]
    rw [e]
    have hlt : indexNonZero rows1 < rows1.length := by
      have : st.nle ≤ rows1.length := hn1
      omega
    obtain ⟨r, hr, hrnz⟩ := indexNonZero_at rows1 hlt
    have hne : m0 ≠ indexNonZero rows1 := by
      intro he
      rw [he] at hd1
      have : r = d1 := Option.some.inj (hr.symm.trans hd1)
      subst this
      -- the record at inz is a line: it satisfies srcK only with product 0
      have hline : d0.row.le = true := by rw [hle, he]; simpa using hc
      exact hrnz (satisfies_line_zero srcK d0.row hsat (Or.inr hline))
    obtain ⟨h1, h2⟩ := lineCase_preserves_span srcK (st.k - st.redundant.length) st1 (indexNonZero rows1) hc hn1
      ⟨r, hr, hrnz⟩ m0 d1 hne hd1
    by_cases hz : d1.sp = 0
    · exact Or.inl (h1 hz)
    · right
      have hnn : 0 ≤ d1.sp := satisfies_nonneg srcK d0.row hsat
      have hray : d0.row.le = false := by
        by_contra hcon
        have : d0.row.le = true := by simpa using hcon
        exact hz (satisfies_line_zero srcK d0.row hsat (Or.inr this))
      have hk : srcK.le = false := by
        by_contra hcon
        have : srcK.le = true := by simpa using hcon
        exact hz (satisfies_line_zero srcK d0.row hsat (Or.inl this))
      have hge : st1.nle ≤ m0 := by
        show st.nle ≤ m0
        rw [hle] at hray
        simpa using hray
      exact h2 (by omega) hge hray hk
  · have e : conversionStep ncols srcK st = rayCase ncols srcK (st.k - st.redundant.length) st1 := by
      show (if indexNonZero rows1 < st.nle then lineCase srcK (st.k - st.redundant.length) st1 (indexNonZero rows1)
            else rayCase ncols srcK (st.k - st.redundant.length) st1) = _
      rw [if_neg hc]
    rw [e]
    left
    have hz : ∀ d ∈ st1.rows.take st1.nle, d.sp = 0 := by
      intro d hd
      obtain ⟨m, hm⟩ := List.mem_iff_getElem?.mp hd
      rw [List.getElem?_take] at hm
      by_cases hlt : m < st1.nle
      · simp only [hlt, if_true] at hm
        have : m < indexNonZero rows1 := by
          have : st1.nle = st.nle := rfl
          omega
        exact hbefore m d this hm
      · simp [hlt] at hm
    have hl1 : ∀ m d, st1.rows[m]? = some d → d.row.le = decide (m < st1.nle) := by
      intro m d hm
      show d.row.le = decide (m < st.nle)
      have hm' : (st.rows.map fun d => ({ d with sp := scalarProduct srcK.v d.row.v } : DRow))[m]? = some d := hm
      rw [List.getElem?_map] at hm'
      match hq : st.rows[m]? with
      | none => rw [hq] at hm'; simp at hm'
      | some x =>
        rw [hq] at hm'
        simp only [Option.map_some, Option.some.injEq] at hm'
        rw [← hm']; exact hl m x hq
    have hsurv : survives srcK d1 := by
      unfold survives
      by_cases hk : srcK.le = true
      · simp only [hk, if_true]
        exact satisfies_line_zero srcK d0.row hsat (Or.inl hk)
      · have hk' : srcK.le = false := by simpa using hk
        simp only [hk', Bool.false_eq_true, if_false]
        exact satisfies_nonneg srcK d0.row hsat
    obtain ⟨d', hd', hrow⟩ :=
      (conversion_preserves_span_ray ncols srcK (st.k - st.redundant.length) st1 hn1 hz hl1).1 d1 (mem_of_getElem? hd1) hsurv
    exact ⟨d', hd', hrow⟩

example :
    let st : CState := { rows := [⟨⟨false, [1, 0]⟩, 0, []⟩, ⟨⟨false, [1, 2]⟩, 0, []⟩], nle := 0, k := 0, redundant := [] }
    satisfies ⟨false, [1, -1]⟩ (⟨false, [1, 0]⟩ : LRow) ∧
    ((conversionStep 2 ⟨false, [1, -1]⟩ st).rows.map (·.row)) = [⟨false, [1, 0]⟩, ⟨false, [1, 1]⟩] := by decide

/-! ## `simplify`

`sys` = the rows of the system beside their saturation rows (columns = the generators `gens` of the
other description).  Proved: which rows the two rules remove (the saturation criterion, exactly as the
code applies it), and that `simplify` never loses a point of the set GIVEN a correct saturation matrix
and a complete `gens` (every point of the set is generated by `gens`): inequalities saturated by all
generators really are equalities there, Gauss / back-substitution keep the solution set, the other phases
only remove rows.  NOT proved: the converse inclusion (the rows removed are semantically redundant —
needs the rank argument behind the saturation rule `num_saturators < num_columns - num_equalities - 1`
and the independence rule); it is certified per run by K1 `equivB` on the real output (driver
obligation `same`). -/

/-- the saturation rule (:235-246) removes only rows with fewer than `min_saturators` saturators, and
every inequality it keeps has at least that many. -/
theorem simplify_satRule_criterion (fuel numColsSat minSat : Nat) (rows : List SRow) (i : Nat) (hf : rows.length - i ≤ fuel) :
    (∀ x ∈ satRuleLoop fuel numColsSat minSat rows i, x ∈ rows) ∧
    (∀ x ∈ rows, x ∈ satRuleLoop fuel numColsSat minSat rows i ∨ numSaturators numColsSat x < minSat) ∧
    (∀ x ∈ (satRuleLoop fuel numColsSat minSat rows i).drop i, ¬ numSaturators numColsSat x < minSat) :=
  ⟨satRuleLoop_mem fuel numColsSat minSat rows i, satRuleLoop_removed fuel numColsSat minSat rows i,
   satRuleLoop_kept fuel numColsSat minSat rows i hf⟩

example :
    satRuleLoop 2 3 2 [⟨⟨false, [1, 0]⟩, [true, true, false]⟩, ⟨⟨false, [0, 1]⟩, [false, false, true]⟩] 0
      = [⟨⟨false, [0, 1]⟩, [false, false, true]⟩] := by decide

/-- the independence rule (:249-314) removes only inequalities whose saturators are all saturators of an
inequality that is KEPT (`sat[kept] ⊆ sat[removed]`), leaves the equalities alone, and what it keeps is
pairwise independent. -/
theorem simplify_indep_criterion (fuel nle : Nat) (rows : List SRow) (hf : rows.length ≤ fuel) :
    (∀ x ∈ indepLoop fuel nle rows nle, x ∈ rows) ∧
    (indepLoop fuel nle rows nle).take nle = rows.take nle ∧
    (∀ x ∈ rows.drop nle, ∃ y ∈ (indepLoop fuel nle rows nle).drop nle, subsetOrEqual y.sat x.sat = true) ∧
    (∀ j k, nle ≤ j → j < (indepLoop fuel nle rows nle).length → nle ≤ k → k < (indepLoop fuel nle rows nle).length → k ≠ j →
      subsetOrEqual ((indepLoop fuel nle rows nle).getD k default).sat ((indepLoop fuel nle rows nle).getD j default).sat = false) :=
  ⟨indepLoop_mem fuel nle rows nle, indepLoop_take fuel nle rows hf, indepLoop_dominated fuel nle rows hf,
   indepLoop_independent fuel nle rows hf⟩

example :
    indepLoop 2 0 [⟨⟨false, [1, 0]⟩, [true, true]⟩, ⟨⟨false, [0, 1]⟩, [false, true]⟩] 0
      = [⟨⟨false, [0, 1]⟩, [false, true]⟩] := by decide

/-- Gauss elimination on the equalities and back-substitution keep the solution set
(`Linear_System::gauss`, `back_substitute`; the latter under the code's own assertion that no pivot
row is the zero row, `BackSubPivots`). -/
theorem simplify_gauss_same_set (ncols nle : Nat) (rows : List SRow)
    (hle : ∀ i, i < nle → (rows.getD i default).row.le = true) (hn : nle ≤ rows.length) :
    ∀ x, holdsAll ((gauss ncols nle rows).1.map (·.row)) x ↔ holdsAll (rows.map (·.row)) x :=
  gauss_same_set ncols nle rows hle hn

theorem simplify_backSubstitute_same_set (nle : Nat) (rows : List SRow)
    (hle : ∀ i, i < nle → (rows.getD i default).row.le = true) (hn : nle ≤ rows.length)
    (hnz : BackSubPivots nle (List.range nle).reverse rows) :
    ∀ x, holdsAll ((backSubstitute nle rows).map (·.row)) x ↔ holdsAll (rows.map (·.row)) x :=
  backSubstitute_same_set nle rows hle hn hnz

example :
    (gauss 3 2 [⟨⟨true, [0, 1, 1]⟩, []⟩, ⟨⟨true, [2, 1, -1]⟩, []⟩]).1.map (·.row) = [⟨true, [0, 1, 1]⟩, ⟨true, [1, 1, 0]⟩] := by
  decide

/-- **`simplify_sound`** — GIVEN a correct saturation matrix (`SatCorrect gens rows sat`: bit `j` of
row `i` set iff `gens[j]` does not saturate `rows[i]`) `simplify` loses no point generated by `gens`:
every `x` generated by `gens` that satisfies the system satisfies the simplified system. -/
theorem simplify_sound (ncols numColsSat : Nat) (rows : List LRow) (sat : List BRow) (gens : List LRow)
    (hsat : SatCorrect gens rows sat) :
    ∀ x, Generated gens x → holdsAll rows x →
      holdsAll ((simplify ncols numColsSat (List.zipWith (fun a s => ({ row := a, sat := s } : SRow)) rows sat)).1.map (·.row)) x := by
  intro x hx hall
  have hlen := hsat.1
  have hrows : (List.zipWith (fun a s => ({ row := a, sat := s } : SRow)) rows sat).map (·.row) = rows := by
    clear hsat hall
    induction rows generalizing sat with
    | nil => simp
    | cons r rs ih =>
      cases sat with
      | nil => simp at hlen
      | cons b bs =>
        simp only [List.zipWith_cons_cons, List.map_cons]
        congr 1
        exact ih bs (by simpa using hlen)
  apply PPLV.Conv.simplify_sound ncols numColsSat _ gens ?_ x hx (by rw [hrows]; exact hall)
  intro r hr hempty g hg
  -- r = ⟨rows[i], sat[i]⟩
  obtain ⟨i, hi⟩ := List.mem_iff_getElem?.mp hr
  rw [List.getElem?_zipWith] at hi
  match hq1 : rows[i]?, hq2 : sat[i]? with
  | some a, some b =>
    rw [hq1, hq2] at hi
    have hi' : ({ row := a, sat := b } : SRow) = r := by simpa using hi
    subst hi'
    have hilt : i < rows.length := by
      by_contra hc
      rw [List.getElem?_eq_none (by omega)] at hq1; cases hq1
    have ha : rows[i] = a := by
      rw [List.getElem?_eq_getElem hilt] at hq1; exact Option.some.inj hq1
    have hb : sat.getD i [] = b := by rw [List.getD_eq_getElem?_getD, hq2]; rfl
    obtain ⟨j, hj⟩ := List.mem_iff_getElem?.mp hg
    have hjlt : j < gens.length := by
      by_contra hc
      rw [List.getElem?_eq_none (by omega)] at hj; cases hj
    have hgj : gens.getD j default = g := by rw [List.getD_eq_getElem?_getD, hj]; rfl
    have hbit := hsat.2 i hilt j
    rw [hb, ha, hgj] at hbit
    have hfalse : bit b j = false := by
      unfold bit
      unfold bitsEmpty at hempty
      simp only at hempty
      rw [List.getD_eq_getElem?_getD]
      match hq : b[j]? with
      | none => rfl
      | some v =>
        have := List.all_eq_true.mp hempty v (mem_of_getElem? hq)
        simpa using this
    rw [hfalse] at hbit
    have : scalarProduct g.v a.v = 0 := by
      by_contra hne
      simp [hjlt, hne] at hbit
    show scalarProduct a.v g.v = 0
    rw [sp_comm]; exact this
  | none, _ => rw [hq1] at hi; simp at hi
  | some _, none => rw [hq1, hq2] at hi; simp at hi

/-- non-vacuity: the square `0 ≤ x ≤ 1, 0 ≤ y ≤ 1` with the redundant `x + y ≤ 3`; its saturation rows
against the four vertices; `simplify` drops the redundant row (no saturator). -/
example :
    let rows : List LRow := [⟨false, [0, 1, 0]⟩, ⟨false, [1, -1, 0]⟩, ⟨false, [0, 0, 1]⟩, ⟨false, [1, 0, -1]⟩, ⟨false, [3, -1, -1]⟩]
    let gens : List LRow := [⟨false, [1, 0, 0]⟩, ⟨false, [1, 1, 0]⟩, ⟨false, [1, 0, 1]⟩, ⟨false, [1, 1, 1]⟩]
    let sat : List BRow := [[false, true, false, true], [true, false, true, false], [false, false, true, true],
                            [true, true, false, false], [true, true, true, true]]
    ((simplify 3 4 (List.zipWith (fun a s => ({ row := a, sat := s } : SRow)) rows sat)).1.map (·.row)).length = 4 := by
  decide

/-! ## the drivers: the part of the status-protocol contract that is proved

`PPLV/PolyStatus/Helpers.lean` takes `minimize` / `add_and_minimize` as parameters "assumed exact: they
report empty iff the set is empty, and they produce a DD pair in minimal form".  Proved for the model:
the generators produced always satisfy the whole source system, so a report "not empty" is always right
(a generator with a positive divisor is a point of the polyhedron).  The converse (a report "empty" is
right; the pair is minimal) needs completeness and is certified per run. -/

theorem linesFirst_identity (n : Nat) : LinesFirst (identityLines n) n := by
  intro i hi
  have hi' : i < n := by simpa [identityLines] using hi
  simp [identityLines, hi']

/-- `minimize`: every row of the `dest` it builds satisfies every row of `source`. -/
theorem minimize_dest_sound (conToGen nnc : Bool) (ncols : Nat) (source : List LRow) (sat0 : List BRow) :
    Sound source (minimize conToGen nnc ncols source sat0).dest := by
  have h := (conversion_sound ncols source 0 (identityLines ncols)
    (List.replicate ncols (List.replicate source.length false)) ncols
    (by intro d _ s hs; simp at hs) (linesFirst_identity ncols) (by simp [identityLines]) (by simp [identityLines])).1
  unfold minimize
  simp only
  split
  · exact h
  · exact h

example : Sound [⟨false, [1, 0]⟩, ⟨false, [3, -1]⟩] (minimize true false 2 [⟨false, [1, 0]⟩, ⟨false, [3, -1]⟩] []).dest := by
  unfold Sound; decide

/-- the same with the head of `minimize` (`if (!source.is_sorted()) source.sort_rows();`): `sort_rows()`
neither invents nor loses a row (`mem_sortRows`), so the generators satisfy the caller's system. -/
theorem minimizeUnsorted_dest_sound (conToGen nnc sorted : Bool) (ncols : Nat) (source : List LRow) (sat0 : List BRow) :
    Sound source (minimizeUnsorted conToGen nnc sorted ncols source sat0).dest := by
  unfold minimizeUnsorted
  by_cases h : sorted = true
  · simp only [h, if_true]; exact minimize_dest_sound conToGen nnc ncols source sat0
  · simp only [h, Bool.false_eq_true, if_false]
    intro d hd s hs
    exact minimize_dest_sound conToGen nnc ncols _ sat0 d hd s ((mem_sortRows _ _ _ _).mpr hs)

example :
    sortRows false false [⟨false, [3, -1]⟩, ⟨false, [1, 0]⟩, ⟨true, [0, 1]⟩, ⟨false, [1, 0]⟩]
      = [⟨true, [0, 1]⟩, ⟨false, [3, -1]⟩, ⟨false, [1, 0]⟩] := by decide

/-- `add_and_minimize`: if the pair handed in is sound for the non-pending rows (`source[0, start)`) and
its lines come first, every row of the `dest` returned satisfies every row of `source`, pending rows
included. -/
theorem addAndMinimize_dest_sound (conToGen nnc : Bool) (ncols : Nat) (source : List LRow) (start : Nat)
    (dest : List LRow) (sat : List BRow) (h0 : Sound (source.take start) dest)
    (hl : LinesFirst dest (dest.filter (·.le)).length) (hlen : sat.length = dest.length) :
    Sound source (addAndMinimize conToGen nnc ncols source start dest sat).dest := by
  have h := (conversion_sound ncols source start dest
    (sat.map fun r => (r ++ List.replicate (source.length - r.length) false).take source.length)
    (dest.filter (·.le)).length h0 hl (List.length_filter_le _ _) (by simpa using hlen)).1
  unfold addAndMinimize
  simp only
  split
  · exact h
  · exact h

example :
    let source : List LRow := [⟨false, [1, 0]⟩, ⟨false, [3, -1]⟩, ⟨false, [-1, 1]⟩]
    let dest : List LRow := [⟨false, [0, -1]⟩, ⟨false, [1, 3]⟩]
    Sound (source.take 2) dest ∧ LinesFirst dest (dest.filter (·.le)).length ∧
    (addAndMinimize true false 2 source 2 dest [[true, false], [false, true]]).dest = [⟨false, [1, 3]⟩, ⟨false, [1, 1]⟩] := by
  refine ⟨by unfold Sound; decide, by unfold LinesFirst; decide, by decide⟩

/-- `minimize(true, cs, gs, sat)` on a C system: when it does not report "empty" it has produced a
generator with a positive divisor that satisfies every constraint — the constraint system is feasible. -/
theorem minimize_nonempty_sound (ncols : Nat) (source : List LRow) (sat0 : List BRow)
    (h : (minimize true false ncols source sat0).empty = false) :
    ∃ d ∈ (minimize true false ncols source sat0).dest, 0 < d.v.getD 0 0 ∧ ∀ s ∈ source, satisfies s d := by
  have hs := minimize_dest_sound true false ncols source sat0
  unfold minimize at h hs ⊢
  simp only at h hs ⊢
  split at h
  · simp at h
  · rename_i hp
    simp only [hp] at hs ⊢
    have hp' : hasPoint false ncols
        (conversion ncols source 0 (identityLines ncols) (List.replicate ncols (List.replicate source.length false)) ncols).nle
        (conversion ncols source 0 (identityLines ncols) (List.replicate ncols (List.replicate source.length false)) ncols).dest = true := by
      simpa using hp
    unfold hasPoint at hp'
    obtain ⟨r, hr, hpos⟩ := List.any_eq_true.mp hp'
    refine ⟨r, List.mem_of_mem_drop hr, by simpa using hpos, fun s hsm => ?_⟩
    exact hs r (List.mem_of_mem_drop hr) s hsm

example :
    (minimize true false 2 [⟨false, [1, 0]⟩, ⟨false, [3, -1]⟩] []).empty = false ∧
    (minimize true false 2 [⟨false, [1, 0]⟩, ⟨false, [3, -1]⟩] []).dest = [⟨false, [0, -1]⟩, ⟨false, [1, 3]⟩] := by
  decide

/-- **tie to the K1 kernel** — `sysCons source` is the K1 reading (`PPLV.Lin.Con`, necessarily closed) of
the constraint rows.  When the model of `minimize(true, cs, gs, sat)` does not report "empty", the K1
decider `feasible` (proved sound and complete, `feasible_iff`) agrees: the set `sem (sysCons source)` has a
point — the generator with a positive divisor the engine produced.  (The converse, "empty" reports are
right, needs completeness: certified per run by `checkDD`.) -/
theorem minimize_nonempty_feasible (ncols n : Nat) (source : List LRow) (sat0 : List BRow)
    (hwf : PPLV.Lin.WF n (sysCons source))
    (h : (minimize true false ncols source sat0).empty = false) :
    PPLV.Lin.feasible n (sysCons source) = true := by
  obtain ⟨d, _, hpos, hs⟩ := minimize_nonempty_sound ncols source sat0 h
  exact (PPLV.Lin.feasible_iff n (sysCons source) hwf).mpr ⟨_, sound_point_sat source d hpos hs⟩

example :
    PPLV.Lin.WF 1 (sysCons [⟨false, [1, 0]⟩, ⟨false, [3, -1]⟩]) ∧
    (minimize true false 2 [⟨false, [1, 0]⟩, ⟨false, [3, -1]⟩] []).empty = false := by
  refine ⟨?_, by decide⟩
  intro c hc
  simp [sysCons, rowCons, PPLV.Lin.geRow] at hc
  rcases hc with rfl | rfl <;> simp

end C01
