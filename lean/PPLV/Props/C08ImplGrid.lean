import PPLV.Props.C08
import PPLV.Widen.ImplGridProofsCg2
import PPLV.Widen.ImplGridProofsCg3
import PPLV.Widen.ImplGridProofsCg4
import PPLV.Widen.ImplGridProofsGen3

/-!
# C08, stage 2 — the GRID widening implementations (/repo/src/Grid_widenings.cc)

Property statements only.  The code-shaped model is `PPLV/Widen/ImplGrid.lean` (`select_wider_congruences`,
`congruence_widening_assign`, `select_wider_generators`, `generator_widening_assign`, `widening_assign`, the three
`limited_*_extrapolation_assign`, over the models of `Grid::simplify` / `Grid::conversion` of C05 stage 2).  Denotations:
a congruence system denotes `cgsSem n rows` (K2's `CgSys.sem` of the rows), a generator system the homogeneous lattice
`Hom n rows` (`PPLV/Lattice/RedSem.lean`, `ProofsRedSem.lean`).  `Grid::contains` and `relation_with` are parameters.

The driver `pplv_widenimpl_grid` replays the model on the journalled members of the real objects and demands identical
objects / selected rows / token counts, and evaluates the conclusions below on the real outputs with the K2 deciders.
-/
namespace C08
open PPLV.Lattice PPLV.Lattice.Red PPLV.Widen PPLV.Widen.ImplGrid

/-! ## `Congruence::strong_normalize` (every `Congruence_System::insert(cg)` applies it to its copy) -/

/-- sign normalisation, reduction of the inhomogeneous term modulo the modulus and division by the common gcd keep the
    set of points of a congruence -/
theorem grid_strong_normalize_preserves (r : CRow) (x : Pt) : rsem (strongNormalizeCg r) x ↔ rsem r x :=
  rsem_strongNormalizeCg' r x

/-- `-6 - 4B ≡ 0 (mod 8)` becomes `3 + 2B ≡ 0 (mod 4)` -/
example : strongNormalizeCg ⟨[-6, 0, -4], 8⟩ = ⟨[3, 0, 2], 4⟩ := by decide

/-! ## `Grid::select_wider_congruences` and `Grid::congruence_widening_assign` -/

/-- the congruences selected by `select_wider_congruences` are (strongly normalised copies of) rows of x's system — or
    of the trivially true `0 = 0` that an out-of-range row access of the model returns -/
theorem grid_cgw_selected_subset (n : Nat) (xs : List CRow) (xdk : List Nat) (ys : List CRow) (ydk : List Nat) :
    ∀ r ∈ selectWiderCongruences n xs xdk ys ydk,
      (∃ r0 ∈ xs, r = strongNormalizeCg r0) ∨ r = strongNormalizeCg (default : CRow) :=
  selectWiderCongruences_mem' n xs xdk ys ydk

/-- `x = {B ≡ 0 (3), 2A ≡ 0 (4)}`, `y = {B ≡ 0 (3), A ≡ 0 (4)}`: only the row with the same diagonal entry is selected -/
example : selectWiderCongruences 2 [⟨[0, 0, 1], 3⟩, ⟨[0, 2, 0], 4⟩, ⟨[1, 0, 0], 1⟩] [0, 0, 0]
    [⟨[0, 0, 1], 3⟩, ⟨[0, 1, 0], 4⟩, ⟨[1, 0, 0], 1⟩] [0, 0, 0] = [⟨[0, 0, 1], 3⟩] := by decide

/-- hence every point of x's (minimised) system satisfies the system of `result` = universe + selected rows -/
theorem grid_cgw_result_contains (n : Nat) (xs : List CRow) (xdk : List Nat) (ys : List CRow) (ydk : List Nat)
    (hwf : CWf n xs) (p : Pt) (h : cgsSem n xs p) :
    cgsSem n ((universeGrid n).addRecycledCongruences (selectWiderCongruences n xs xdk ys ydk)).con p :=
  cgw_result_contains n xs xdk ys ydk hwf p h

/-- **result ⊇ x** for the whole function (every exit, any token argument): on objects whose congruences are up to
    date, every point of `x` is a point of the object the call leaves in `*this` (which is not marked empty and has
    its congruences up to date) -/
theorem grid_cgw_contains_x (contains : GridM → GridM → Bool) (n : Nat) (x y : GridM) (tp : Option Nat)
    (hxup : x.cgUp = true) (hyup : y.cgUp = true) (hxn : x.n = n) (hyn : y.n = n)
    (hxwf : CWf n x.con) (hywf : CWf n y.con) (hxe : x.empty = false) (hye : y.empty = false) (hn : 0 < n) :
    let r := congruenceWideningAssign contains x y tp
    ∀ p, cgsSem n x.con p → (r.1.empty = false ∧ r.1.cgUp = true ∧ cgsSem n r.1.con p) :=
  congruenceWideningAssign_contains_x_tp contains n x y tp hxup hyup hxn hyn hxwf hywf hxe hye hn

/-- hence **result ⊇ y** when `y ⊆ x` (the precondition of every widening) -/
theorem grid_cgw_contains_y (contains : GridM → GridM → Bool) (n : Nat) (x y : GridM) (tp : Option Nat)
    (hxup : x.cgUp = true) (hyup : y.cgUp = true) (hxn : x.n = n) (hyn : y.n = n)
    (hxwf : CWf n x.con) (hywf : CWf n y.con) (hxe : x.empty = false) (hye : y.empty = false) (hn : 0 < n)
    (hyx : ∀ p, cgsSem n y.con p → cgsSem n x.con p) :
    ∀ p, cgsSem n y.con p → cgsSem n (congruenceWideningAssign contains x y tp).1.con p :=
  fun p hp => (grid_cgw_contains_x contains n x y tp hxup hyup hxn hyn hxwf hywf hxe hye hn p (hyx p hp)).2.2

/-- `x = {A ≡ 0 (2)}`, `y = {A ≡ 0 (4)}` in dimension 2: the hypotheses hold and the result is `{B ≡ 0 (1)}` = ℚ×ℤ… -/
example : CWf 2 exX.con ∧ CWf 2 exY.con ∧ exX.cgUp = true ∧ exY.cgUp = true ∧
    (congruenceWideningAssign (fun _ _ => false) exX exY none).1.con = [⟨[1, 0, 0], 1⟩, ⟨[0, 0, 1], 1⟩] := by
  refine ⟨?_, ?_, rfl, rfl, by decide +kernel⟩ <;> intro r hr <;> simp [exX, exY] at hr <;>
    rcases hr with rfl | rfl | rfl <;> decide

/-- the widening does not change the point set of `y` (it minimises `y` in place through a `const_cast`) -/
theorem grid_cgw_keeps_y (contains : GridM → GridM → Bool) (n : Nat) (x y : GridM) (tp : Option Nat)
    (hyup : y.cgUp = true) (hyn : y.n = n) (hywf : CWf n y.con) (hne : (y.minimizeCongruences).2 = false) :
    ∀ p, cgsSem n (congruenceWideningAssign contains x y tp).2.1.con p ↔ cgsSem n y.con p :=
  congruenceWideningAssign_keeps_y contains n x y tp hyup hyn hywf hne

/-- **the early return on `num_equalities`** (l.122): the value left in `*this` is `x` (with its congruences
    minimised, the same point set: `grid_cgw_minimize_preserves`).  Under `y ⊆ x` this is the case where the affine
    dimension grew. -/
theorem grid_cgw_early_return_is_x (contains : GridM → GridM → Bool) (x y : GridM) (tp : Option Nat)
    (h0 : ¬ (x.n = 0 ∨ x.empty = true ∨ y.empty = true))
    (hx : (x.minimizeCongruences).2 = false) (hy : (y.minimizeCongruences).2 = false)
    (hlt : numEqualities (x.minimizeCongruences).1.con < numEqualities (y.minimizeCongruences).1.con) :
    congruenceWideningAssign contains x y tp =
      ((x.minimizeCongruences).1, (y.minimizeCongruences).1, tp, "fewer_equalities") :=
  congruenceWideningAssign_fewer_equalities contains x y tp h0 hx hy hlt

/-- `y = {A = 0}` has more equalities than `x = {A ≡ 0 (2)}` -/
example : (congruenceWideningAssign (fun _ _ => false) exX
    { exX with con := [⟨[0, 0, 4], 0⟩, ⟨[0, 1, 0], 4⟩, ⟨[4, 0, 0], 4⟩], dk := [0, 0, 2] } none).1 = exX := by decide +kernel

/-- the minimisation preamble (l.92-104) keeps the point set; a `true` flag means there was none -/
theorem grid_cgw_minimize_preserves (g : GridM) (hup : g.cgUp = true) (hwf : CWf g.n g.con) :
    ((g.minimizeCongruences).2 = false → ∀ p, cgsSem g.n (g.minimizeCongruences).1.con p ↔ cgsSem g.n g.con p) ∧
    ((g.minimizeCongruences).2 = true → ∀ p, ¬ cgsSem g.n g.con p) :=
  ⟨fun h => ((minimizeCongruences_spec g hup hwf).1 h).2.2.2.2, (minimizeCongruences_spec g hup hwf).2⟩

example : exX.cgUp = true ∧ (exX.minimizeCongruences).2 = false := by decide +kernel

/-- `widening_assign` (l.457) is the congruence widening when both congruence systems are up to date -/
theorem grid_widening_dispatch_cg (contains : GridM → GridM → Bool) (x y : GridM) (tp : Option Nat)
    (hx : x.cgUp = true) (hy : y.cgUp = true) :
    wideningAssign contains x y tp = congruenceWideningAssign contains x y tp :=
  wideningAssign_cg contains x y tp hx hy

example : wideningAssign (fun _ _ => false) exX exY none = congruenceWideningAssign (fun _ _ => false) exX exY none :=
  grid_widening_dispatch_cg _ exX exY none rfl rfl

/-! ## tokens -/

/-- **Token protocol of the model**: with a token available the object left in `*this` is `x` (minimised), never the
    widened grid, and the pair (object, count) is `widenTok` (`PPLV/Widen/Model.lean`) of the plain result — so
    `C08.token_spec` applies verbatim with `w := fun _ _ => plain result`; when the plain call does not build a result
    (an early return) nothing changes. -/
theorem grid_widen_token_spec (contains : GridM → GridM → Bool) (x y : GridM) (t : Nat) :
    let plain := congruenceWideningAssign contains x y none
    let tok := congruenceWideningAssign contains x y (some (t + 1))
    (plain.2.2.2 ≠ "widened" → tok = (plain.1, plain.2.1, some (t + 1), plain.2.2.2)) ∧
    (plain.2.2.2 = "widened" →
      let r := widenTok contains (fun _ _ => plain.1) (x.minimizeCongruences).1 y (t + 1)
      tok.1 = r.1 ∧ tok.2.2.1 = some r.2 ∧ tok.2.1 = plain.2.1) := by
  intro plain tok
  obtain ⟨h1, h2⟩ := congruenceWideningAssign_token contains x y t
  refine ⟨h1, fun hw => ?_⟩
  obtain ⟨a, b, c⟩ := h2 hw
  intro r
  have hr : r = (if contains (x.minimizeCongruences).1 plain.1 then ((x.minimizeCongruences).1, t + 1)
      else ((x.minimizeCongruences).1, t)) := by
    show widenTok contains (fun _ _ => plain.1) (x.minimizeCongruences).1 y (t + 1) = _
    unfold widenTok
    by_cases hc : contains (x.minimizeCongruences).1 plain.1 = true <;> simp [hc]
  refine ⟨?_, ?_, b⟩
  · rw [a, hr]; split <;> rfl
  · rw [c, hr]; split <;> rfl

/-- the semantic reading, in the shape of `C08.token_spec` (its hypothesis `sup` is needed for this `x` only): when
    `contains` is exact for a concretisation `γ` under which the plain result is above `x`, a token is consumed exactly
    when the plain widening loses precision, and the object is `x` in both cases -/
theorem grid_widen_token_sets {Pt' : Type} (γ : GridM → Set Pt') (contains : GridM → GridM → Bool) (x y : GridM) (t : Nat)
    (hc : ∀ a b, contains a b = true ↔ γ b ⊆ γ a)
    (hsup : γ (x.minimizeCongruences).1 ⊆ γ (congruenceWideningAssign contains x y none).1) :
    let plain := congruenceWideningAssign contains x y none
    let r := widenTok contains (fun _ _ => plain.1) (x.minimizeCongruences).1 y (t + 1)
    (γ plain.1 ≠ γ (x.minimizeCongruences).1 → r = ((x.minimizeCongruences).1, t)) ∧
    (γ plain.1 = γ (x.minimizeCongruences).1 → γ r.1 = γ plain.1 ∧ r.2 = t + 1) := by
  intro plain r
  have hr : r = (if contains (x.minimizeCongruences).1 plain.1 then ((x.minimizeCongruences).1, t + 1)
      else ((x.minimizeCongruences).1, t)) := by
    show widenTok contains (fun _ _ => plain.1) (x.minimizeCongruences).1 y (t + 1) = _
    unfold widenTok
    by_cases hc' : contains (x.minimizeCongruences).1 plain.1 = true <;> simp [hc']
  refine ⟨fun hne => ?_, fun heq => ?_⟩
  · have hn : ¬ contains (x.minimizeCongruences).1 plain.1 = true := by
      intro h
      exact hne (Set.Subset.antisymm ((hc _ _).mp h) hsup)
    rw [hr, if_neg hn]
  · have hy : contains (x.minimizeCongruences).1 plain.1 = true := (hc _ _).mpr (le_of_eq heq)
    rw [hr, if_pos hy]
    exact ⟨heq.symm, rfl⟩

/-- with one token and a `contains` that answers `false` the widening is postponed and the token is used -/
example : (congruenceWideningAssign (fun _ _ => false) exX exY (some 1)).1 = exX ∧
    (congruenceWideningAssign (fun _ _ => false) exX exY (some 1)).2.2.1 = some 0 := by decide +kernel

/-! ## the Grid certificate along the congruence widening

`Final n xs xdk` is the triangular form `Grid::simplify` leaves (`C05.simplify_congs_triangular`): row `i` is the pivot row
of a strictly decreasing dimension, its kind recorded in `dim_kinds`, the last row is the integrality congruence. -/

/-- the minimisation preamble establishes the triangular form -/
theorem grid_cgw_minimize_triangular (g : GridM) (hup : g.cgUp = true) (hwf : CWf g.n g.con) (hmin : g.cgMin = false)
    (hne : (g.minimizeCongruences).2 = false) :
    Final g.n (g.minimizeCongruences).1.con (g.minimizeCongruences).1.dk :=
  minimizeCongruences_final g hup hwf hmin hne

/-- what the selection does to the two members of `Grid_Certificate`: every equality of `x` is selected; the integrality
    row (dimension 0, which the loop `dim > 0` never visits) is not; when a row is dropped it is a proper congruence -/
theorem grid_cgw_selection_counts (n : Nat) (xs : List CRow) (xdk : List Nat) (ys : List CRow) (ydk : List Nat)
    (hfin : Final n xs xdk) :
    let sel := selectWiderCongruences n xs xdk ys ydk
    numEqualities sel = numEqualities xs ∧ numProperCongruences sel + 1 ≤ numProperCongruences xs ∧
      sel.length + 1 ≤ xs.length ∧
      (sel.length + 1 < xs.length → numProperCongruences sel + 1 < numProperCongruences xs) :=
  selectWiderCongruences_counts n xs xdk ys ydk hfin

/-- **a quirk of the code that exists**: `if (cgs.num_rows() == con_sys.num_rows()) return;` (l.131, "All congruences
    were selected, thus the result is `x`") can never fire — `con_sys` contains the integrality row, which
    `select_wider_congruences` never selects.  The result is then rebuilt from the selected rows (same point set, not
    minimised).  The driver sees the exit `all_selected` on the generator path only. -/
theorem grid_cgw_all_selected_dead (contains : GridM → GridM → Bool) (x y : GridM) (tp : Option Nat)
    (hfin : Final (x.minimizeCongruences).1.n (x.minimizeCongruences).1.con (x.minimizeCongruences).1.dk) :
    (congruenceWideningAssign contains x y tp).2.2.2 ≠ "all_selected" :=
  congruenceWideningAssign_all_selected_dead contains x y tp hfin

example : Final 2 (simplifyCgs 2 exRows []).1 (simplifyCgs 2 exRows []).2.1 :=
  simplifyCgs_triangular 2 exRows [] (by
    intro r hr
    simp only [exRows, List.mem_cons, List.not_mem_nil, or_false] at hr
    rcases hr with rfl | rfl | rfl <;> exact ⟨rfl, by decide⟩) (by decide +kernel)

/-- **certificate**: when a congruence is dropped, the pair (equalities, proper congruences) of the rows of `result`
    is strictly below that of x's minimised system in the order of `Grid_Certificate::compare`
    (`PPLV.Widen.grid_compare_wf`: well founded); when none is dropped the pair is the same.
    `_partial`: the statement wanted is about `Grid_Certificate(result)` against `Grid_Certificate(y)`.  Missing:
    (i) `Grid_Certificate(result)` counts the rows of `simplify(result.con_sys)`; that these are as many equalities and
    proper congruences as `result.con_sys` itself has (the selected rows of a triangular system are triangular up to
    the row order and the normalisation of `strong_normalize`) is not proved; (ii) after the early return on
    `num_equalities`, `y ⊆ x` forces the certificate of `x` to be at most that of `y` (equal affine hulls, hence equal
    sets of non-virtual dimensions: a rank argument) — not proved.  Both are checked by the driver on every real call
    (`certval`: the library's certificate members are the counts of the minimised result; `cert`: strictly below y's
    unless the result is y). -/
theorem grid_cgw_certificate_decreases_partial (n : Nat) (xs : List CRow) (xdk : List Nat) (ys : List CRow) (ydk : List Nat)
    (hfin : Final n xs xdk) :
    let sel := selectWiderCongruences n xs xdk ys ydk
    let result := (universeGrid n).addRecycledCongruences sel
    (sel.length + 1 < xs.length → GridCert.compare (certOfRows result.con) (certOfRows xs) = .lt) ∧
    (sel.length + 1 = xs.length → certOfRows result.con = certOfRows xs) :=
  ⟨cgw_certificate_decreases n xs xdk ys ydk hfin, cgw_certificate_keeps n xs xdk ys ydk hfin⟩

/-- `x = {A ≡ 0 (2)}` against `y = {A ≡ 0 (4)}`: one of the two proper congruences besides the integrality row is dropped -/
example : (selectWiderCongruences 2 exX.con exX.dk exY.con exY.dk).length + 1 < exX.con.length ∧
    GridCert.compare (certOfRows (cgwResult exX exY).con) (certOfRows exX.con) = .lt := by
  constructor <;> decide +kernel

/-- **every ascending chain stabilises** — the reduction to the certificate: for a widening `w` on the model's objects,
    any concretisation `γ`, whatever larger arguments `z i xᵢ ⊇ xᵢ` the environment supplies, the sequence
    `xᵢ₊₁ = w (z i xᵢ) xᵢ` is eventually stationary as soon as the Grid certificate is a function of the point set
    (`hval`) and every non-stationary application strictly lowers it (`dec`).
    `_partial`: `hval` and `dec` are hypotheses; for `w = congruence_widening_assign`, `dec` is
    `grid_cgw_certificate_decreases_partial` plus its two missing pieces, and `hval` is the canonicity of the pair
    (equalities, proper congruences) of the minimal form (again a rank argument).  The driver checks `dec` on every
    real call of every chain it drives. -/
theorem grid_cgw_chain_stabilises_partial {Pt' : Type} (γ : GridM → Set Pt') (w : GridM → GridM → GridM)
    (cert : GridM → GridCert)
    (hval : ∀ a b, γ a = γ b → cert a = cert b)
    (dec : ∀ x y, γ y ⊆ γ x → γ (w x y) ≠ γ y → (cert (w x y)).compare (cert y) = .lt)
    (x0 : GridM) (z : Nat → GridM → GridM) (hz : ∀ i x, γ x ⊆ γ (z i x)) :
    ∃ N, ∀ i ≥ N, γ (advSeq w x0 z (i + 1)) = γ (advSeq w x0 z i) :=
  PPLV.Widen.converges_adversary γ w cert (fun a b => a.compare b = .lt) grid_compare_wf hval dec x0 z hz

/-- non-vacuity: a widening that jumps to the universe, certificate = number of proper congruences -/
example : ∃ N, ∀ i ≥ N, (fun g : GridM => ({p : Nat | p < g.con.length} : Set Nat))
      (advSeq (fun _ _ => universeGrid 1) exX (fun _ x => x) (i + 1)) =
    (fun g : GridM => ({p : Nat | p < g.con.length} : Set Nat)) (advSeq (fun _ _ => universeGrid 1) exX (fun _ x => x) i) :=
  ⟨1, fun i hi => by
    obtain ⟨k, rfl⟩ : ∃ k, i = k + 1 := ⟨i - 1, by omega⟩
    rfl⟩

/-! ## limited extrapolation (congruence widening inside) -/

/-- **`limited_congruence_extrapolation_assign`** (no token): the result lies between `x` and the plain widening and
    satisfies every supplied congruence the code selects — those with `relation_with(cg) == is_included()`, i.e. the
    PROPER congruences that `x` satisfies (`relationIsIncluded`; an equality that `x` satisfies answers
    `is_included() && saturates()` and is not selected — harmless, the widening keeps every equality of `x`).
    Hypotheses: congruences and generators of `x` up to date (otherwise the prologue first runs `update_generators`,
    modelled but not covered by this theorem), `sat` sound. -/
theorem grid_limited_between (contains : GridM → GridM → Bool) (sat : GridM → CRow → Bool) (n : Nat) (x y : GridM)
    (cgs : List CRow)
    (hxup : x.cgUp = true) (hxg : x.genUp = true) (hyup : y.cgUp = true) (hxn : x.n = n) (hyn : y.n = n)
    (hxwf : CWf n x.con) (hywf : CWf n y.con) (hxe : x.empty = false) (hye : y.empty = false) (hn : 0 < n)
    (hc : cgs ≠ [])
    (hsat : ∀ c, sat x c = true → ∀ p, cgsSem n x.con p → rsem c p) :
    let plain := congruenceWideningAssign contains x y none
    let r := limitedCongruenceExtrapolationAssign contains sat x y cgs none
    (∀ p, cgsSem n x.con p → cgsSem n r.1.con p) ∧ (∀ p, cgsSem n r.1.con p → cgsSem n plain.1.con p) ∧
    (∀ c ∈ cgs, relationIsIncluded sat x c = true → ∀ p, cgsSem n r.1.con p → rsem c p) := by
  intro plain r
  have e : r = limitedBody (congruenceWideningAssign contains) sat x y cgs none :=
    limitedCongruenceExtrapolationAssign_eq contains sat x y cgs none hc
  rw [e]
  exact limitedBody_cg_between contains sat n x y cgs hxup hxg hyup hxn hyn hxwf hywf hxe hye hn hc hsat

/-- the plain widening drops the congruence on `A`; limited by `A ≡ 0 (mod 2)` it comes back -/
example : (limitedBody (congruenceWideningAssign fun _ _ => false) (fun _ _ => true) exXg exY [⟨[0, 1, 0], 2⟩] none).1.con =
    [⟨[1, 0, 0], 1⟩, ⟨[0, 0, 1], 1⟩, ⟨[0, 1, 0], 2⟩] := by decide +kernel

/-- **with tokens available the limited variants only widen** (l.231 / l.435 / l.553): the supplied congruences are
    not looked at, so the result is `x` or the count is decremented (`grid_widen_token_spec`) -/
theorem grid_limited_tokens (w : GridM → GridM → Option Nat → GridM × GridM × Option Nat × String)
    (sat : GridM → CRow → Bool) (x y : GridM) (cgs : List CRow) (t : Nat)
    (hc : cgs ≠ []) (hy : y.empty = false) (hx : x.empty = false) (hn : x.n ≠ 0) (hg : x.genUp = true) :
    limitedBody w sat x y cgs (some (t + 1)) = w x y (some (t + 1)) :=
  limitedBody_tokens w sat x y cgs t hc hy hx hn hg

example : limitedBody (congruenceWideningAssign fun _ _ => false) (fun _ _ => true) exXg exY [⟨[0, 1, 0], 2⟩] (some 1) =
    congruenceWideningAssign (fun _ _ => false) exXg exY (some 1) :=
  grid_limited_tokens _ _ exXg exY _ 0 (by simp) rfl rfl (by decide) rfl

/-! ## `Grid::select_wider_generators` and `Grid::generator_widening_assign`

`numNonVirtual n xdk` is the number of `PARAMETER` / `LINE` entries of `dim_kinds[0..n]`; a minimised generator system
has exactly that many rows (`C05.simplify_gens_triangular`: `Tri`), which the theorems take as hypothesis `hk`. -/

/-- the selection emits, for the i-th non-virtual dimension, the i-th row of x unchanged or `grid_line` of it -/
theorem grid_genw_selected_shape (n : Nat) (xs : List GRow) (xdk : List Nat) (ys : List GRow) (ydk : List Nat) :
    (selectWiderGenerators n xs xdk ys ydk).length = numNonVirtual n xdk ∧
    ∀ i, i < numNonVirtual n xdk →
      rowAt (selectWiderGenerators n xs xdk ys ydk) i = rowAt xs i ∨
      rowAt (selectWiderGenerators n xs xdk ys ydk) i = gridLine (rowAt xs i) :=
  selectWiderGenerators_spec n xs xdk ys ydk

/-- `x = (0,0) + ℤ(2,1) + ℚ(0,1)`, `y` with the parameter `(4,0)`: the parameter of x becomes the line `(2,1)` -/
example : selectWiderGenerators 2 exGx [0, 0, 1] exGy [0, 0, 0] =
    [⟨false, [1, 0, 0, 0]⟩, ⟨true, [0, 2, 1, 0]⟩, ⟨true, [0, 0, 1, 0]⟩] := by decide

/-- **result ⊇ x**: turning a parameter into a line only enlarges the homogeneous lattice (ℤ-span of the
    parameter/point rows + ℚ-span of the lines), hence the grid `{x | (D, D·x) ∈ Hom}` for every divisor `D`.
    Hypotheses: what a minimised system satisfies (row count `hk`, row sizes, only row 0 — the point of dimension 0 —
    has an inhomogeneous term) and that row 0 is kept (`he0`: two points are always "equal at dimension 0",
    `genIsEqualAtDimension_points`). -/
theorem grid_genw_contains_x (n : Nat) (xs : List GRow) (xdk : List Nat) (ys : List GRow) (ydk : List Nat) (D : Rat)
    (hk : numNonVirtual n xdk = xs.length) (hlen : ∀ i, i < xs.length → n + 2 ≤ (rowAt xs i).e.length)
    (h0 : ∀ i, 0 < i → i < xs.length → Red.get (rowAt xs i).e 0 = 0) (hd0 : kind xdk 0 = PARAMETER)
    (he0 : genIsEqualAtDimension (rowAt xs 0) 0 (rowAt ys 0) = true) :
    (∀ v, Hom n xs v → Hom n (selectWiderGenerators n xs xdk ys ydk) v) ∧
    (∀ x, gensSem n D xs x → gensSem n D (selectWiderGenerators n xs xdk ys ydk) x) :=
  ⟨selectWiderGenerators_hom_mono n xs xdk ys ydk hk hlen h0 hd0 he0,
   selectWiderGenerators_gensSem_mono n D xs xdk ys ydk hk hlen h0 hd0 he0⟩

example : numNonVirtual 2 [0, 0, 1] = exGx.length ∧ kind [0, 0, 1] 0 = PARAMETER ∧
    genIsEqualAtDimension (rowAt exGx 0) 0 (rowAt exGy 0) = true := by decide

/-- two points are equal at dimension 0 (`e[0]` is the divisor of a point) -/
theorem grid_genw_point_kept (x y : GRow) (hx : Red.get x.e 0 ≠ 0) (hy : Red.get y.e 0 ≠ 0) :
    genIsEqualAtDimension x 0 y = true := genIsEqualAtDimension_points x y hx hy

example : genIsEqualAtDimension ⟨false, [2, 1, 0]⟩ 0 ⟨false, [3, 5, 0]⟩ = true := by decide

/-- **certificate, generator side**: the number of rows (lines + parameters + the point) is unchanged, the lines
    can only grow, the parameters only shrink, and when the test `ggs.num_parameters() == gen_sys.num_parameters()`
    (l.345) fails a parameter became a line: strictly fewer parameters.  In `Grid_Certificate` terms
    (`num_proper_congruences = num_parameters + 1`, `num_equalities = n + 1 - num_rows`): same equalities, strictly
    fewer proper congruences. -/
theorem grid_genw_certificate_decreases (n : Nat) (xs : List GRow) (xdk : List Nat) (ys : List GRow) (ydk : List Nat)
    (hk : numNonVirtual n xdk = xs.length) :
    let sel := selectWiderGenerators n xs xdk ys ydk
    sel.length = xs.length ∧ numLines xs ≤ numLines sel ∧ numParameters sel ≤ numParameters xs ∧
    (numParameters sel ≠ numParameters xs → numParameters sel < numParameters xs) :=
  selectWiderGenerators_counts n xs xdk ys ydk hk

example : numParameters (selectWiderGenerators 2 exGx [0, 0, 1] exGy [0, 0, 0]) = 0 ∧ numParameters exGx = 1 := by decide

/-- **the early returns** (l.335 `num_rows`, l.339 `num_lines`): the value left in `*this` is `x` with its generators
    minimised.  Under `y ⊆ x` these are the cases where the affine dimension, resp. the lineality space, grew. -/
theorem grid_genw_early_return_is_x (contains : GridM → GridM → Bool) (x y : GridM) (tp : Option Nat)
    (h0 : ¬ (x.n = 0 ∨ x.empty = true ∨ y.empty = true)) (hx : x.minimizeGenerators.empty = false) :
    (x.minimizeGenerators.gen.length > y.minimizeGenerators.gen.length →
      generatorWideningAssign contains x y tp = (x.minimizeGenerators, y.minimizeGenerators, tp, "more_rows")) ∧
    (¬ x.minimizeGenerators.gen.length > y.minimizeGenerators.gen.length →
      numLines x.minimizeGenerators.gen > numLines y.minimizeGenerators.gen →
      generatorWideningAssign contains x y tp = (x.minimizeGenerators, y.minimizeGenerators, tp, "more_lines")) :=
  ⟨generatorWideningAssign_more_rows contains x y tp h0 hx,
   generatorWideningAssign_more_lines contains x y tp h0 hx⟩

example : (generatorWideningAssign (fun _ _ => false) exGenX
    { exGenX with gen := [⟨false, [1, 0, 0, 0]⟩, ⟨false, [0, 4, 0, 1]⟩, ⟨false, [0, 0, 3, 1]⟩], dk := [0, 0, 0] } none).2.2.2
      = "more_lines" := by decide +kernel

/-- "All parameters are kept as parameters, thus the result is `x`" (l.345) -/
theorem grid_genw_all_selected_is_x (contains : GridM → GridM → Bool) (x y : GridM) (tp : Option Nat)
    (h0 : ¬ (x.n = 0 ∨ x.empty = true ∨ y.empty = true)) (hx : x.minimizeGenerators.empty = false)
    (hrows : ¬ x.minimizeGenerators.gen.length > y.minimizeGenerators.gen.length)
    (hlines : ¬ numLines x.minimizeGenerators.gen > numLines y.minimizeGenerators.gen)
    (hall : numParameters (genwSelected x y) = numParameters x.minimizeGenerators.gen) :
    generatorWideningAssign contains x y tp = (x.minimizeGenerators, y.minimizeGenerators, tp, "all_selected") :=
  generatorWideningAssign_all_selected contains x y tp h0 hx hrows hlines hall

example : (generatorWideningAssign (fun _ _ => false) exGenX exGenX none).2.2.2 = "all_selected" := by decide +kernel

/-- **token protocol of the generator widening**: as `grid_widen_token_spec`; the object left in `*this` is `x` with
    its generators minimised — and its congruences brought up to date, a side effect of `x.contains(result)` -/
theorem grid_genw_token_spec (contains : GridM → GridM → Bool) (x y : GridM) (t : Nat) :
    let plain := generatorWideningAssign contains x y none
    let tok := generatorWideningAssign contains x y (some (t + 1))
    (plain.2.2.2 ≠ "widened" → tok = (plain.1, plain.2.1, some (t + 1), plain.2.2.2)) ∧
    (plain.2.2.2 = "widened" →
      tok.1 = (if x.minimizeGenerators.cgUp then x.minimizeGenerators else x.minimizeGenerators.updateCongruences) ∧
      tok.2.1 = plain.2.1 ∧
      tok.2.2.1 = some (widenTok contains (fun _ _ => plain.1) x.minimizeGenerators y (t + 1)).2) := by
  intro plain tok
  obtain ⟨h1, h2⟩ := generatorWideningAssign_token contains x y t
  refine ⟨h1, fun hw => ?_⟩
  obtain ⟨a, b, c⟩ := h2 hw
  refine ⟨a, b, ?_⟩
  rw [c]
  show _ = some (widenTok contains (fun _ _ => plain.1) x.minimizeGenerators y (t + 1)).2
  unfold widenTok
  by_cases hc : contains x.minimizeGenerators (generatorWideningAssign contains x y none).1 = true
  · simp [plain, hc]
  · have hf : contains x.minimizeGenerators (generatorWideningAssign contains x y none).1 = false := by simpa using hc
    simp [plain, hf]

example : (generatorWideningAssign (fun _ _ => false) exGenX exGenY (some 1)).2.2.1 = some 0 ∧
    (generatorWideningAssign (fun _ _ => false) exGenX exGenY (some 1)).1.gen = exGenX.gen := by decide +kernel

/-- `widening_assign` (l.457) is the generator widening when the congruences of one argument are out of date and both
    generator systems are up to date -/
theorem grid_widening_dispatch_gen (contains : GridM → GridM → Bool) (x y : GridM) (tp : Option Nat)
    (hc : ¬ (x.cgUp = true ∧ y.cgUp = true)) (hx : x.genUp = true) (hy : y.genUp = true) :
    wideningAssign contains x y tp = generatorWideningAssign contains x y tp :=
  wideningAssign_gen contains x y tp hc hx hy

example : wideningAssign (fun _ _ => false) exGenX exGenY none = generatorWideningAssign (fun _ _ => false) exGenX exGenY none :=
  grid_widening_dispatch_gen _ exGenX exGenY none (by decide) rfl rfl

end C08
