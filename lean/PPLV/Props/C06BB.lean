import PPLV.Props.C06
import PPLV.Solver.BBSat
import PPLV.Solver.BBTerm

/-!
# C06 stage 3 — the branch-and-bound recursion of `MIP_Problem` returns the true status / optimum

Model: `PPLV/Solver/BB.lean` (`solveMip` = `MIP_Problem::solve_mip`, `solveTop` = the MIP case of
`solve()`, `chooseBranchingVariable`, `isMipSatisfiable`), with the LP machinery as an oracle.
The hypothesis on the oracle, `OracleOK`, is the statement of `C06.lp_spec` for the data of the node,
together with the point `last_generator` (`oracle_hypothesis_is_lp_spec`); the reference LP solver
satisfies it (`ref_oracle_ok`), and the native driver checks it on every LP answer of the real code.

* `solve_mip_sound`            every answer of the modelled `solve()` (any fuel) is the true one;
* `solve_mip_node_sound`       the invariant of the recursion at an arbitrary node / incumbent;
* `solve_mip_oracle_independent` status and value do not depend on the LP vertex / pricing / incremental re-solve;
* `unbounded_rule_valid`       the rule by which the code says UNBOUNDED ("the relaxation of some node is
                               unbounded and some feasible integral point is known") is valid for
                               rational data — no extra condition has to be checked by the code;
* `branch_partition`           the `≤ ⌊q⌋` / `≥ ⌈q⌉` rows lose no integral point and share none;
* `incumbent_update_best`, `prune_never_loses_better_point`, `mpq_compare_exact`;
* `is_mip_satisfiable_sound`, `choose_branching_variable_spec`, `is_satisfiable_leaves_rows_harmless`;
* `solve_mip_terminates_partial` termination when the integer variables are boxed in the relaxation
                               (not provable in general: `2x − 2y = 1` branches for ever).
-/
namespace C06
open PPLV.Lin PPLV.Solver PPLV.Solver.BB

/-- the answer an LP result stands for -/
def lpResultAnswer (N : Node) : LPResult → Answer
  | .unfeasible => .unfeasible
  | .unbounded _ => .unbounded
  | .optimized p => .optimum (objAt N p)

/-- **The oracle hypothesis is `lp_spec`.**  For a well-formed node an LP result is correct
    (`LPCorrect`, the hypothesis of `solve_mip_sound`) iff it names the answer of the proved reference
    `lpAnswer` and its point (if any) is a point of the relaxation. -/
theorem oracle_hypothesis_is_lp_spec (N : Node) (hwf : N.toProblem.WF) (r : LPResult) :
    LPCorrect N r ↔
      lpAnswer N.toProblem = lpResultAnswer N r ∧
      (∀ p, (r = .unbounded p ∨ r = .optimized p) → 0 < p.den ∧ Sat N.toProblem.cs p.val) := by
  obtain ⟨h1, h2, h3⟩ := lp_spec N.toProblem hwf
  cases r with
  | unfeasible =>
    simp only [LPCorrect, lpResultAnswer, reduceCtorEq, or_self, false_imp_iff, implies_true, and_true]
    rw [h1, Set.eq_empty_iff_forall_notMem]; rfl
  | unbounded p =>
    simp only [LPCorrect, lpResultAnswer, LPResult.unbounded.injEq, reduceCtorEq, or_false, forall_eq']
    rw [h2]
    constructor
    · rintro ⟨a, b, c⟩
      exact ⟨⟨⟨p.val, b⟩, fun M => by obtain ⟨x, hx, hb⟩ := c M; exact ⟨x, hx, hb⟩⟩, a, b⟩
    · rintro ⟨⟨-, c⟩, a, b⟩
      exact ⟨a, b, fun M => by obtain ⟨x, hx, hb⟩ := c M; exact ⟨x, hx, hb⟩⟩
  | optimized p =>
    simp only [LPCorrect, lpResultAnswer, LPResult.optimized.injEq, reduceCtorEq, false_or, forall_eq']
    rw [h3]
    constructor
    · rintro ⟨a, b, c⟩
      exact ⟨⟨⟨p.val, b, rfl⟩, fun x hx => c x hx⟩, a, b⟩
    · rintro ⟨⟨-, c⟩, a, b⟩
      exact ⟨a, b, fun x hx => c x hx⟩

/-- **The proved LP reference is an admissible oracle.** -/
theorem ref_oracle_ok : OracleOK refOracle := by
  intro N r hwf h
  rw [oracle_hypothesis_is_lp_spec N hwf]
  unfold refOracle at h
  simp only at h
  cases ha : lpAnswer N.toProblem with
  | unfeasible =>
    rw [ha] at h; simp only at h
    injection h with h; subst h
    exact ⟨rfl, fun p hp => by rcases hp with hp | hp <;> cases hp⟩
  | unbounded =>
    rw [ha] at h; simp only at h
    rw [Option.map_eq_some_iff] at h
    obtain ⟨x, hx, rfl⟩ := h
    have hx2 := List.find?_some hx
    simp only [Bool.and_eq_true, decide_eq_true_eq] at hx2
    refine ⟨rfl, fun p hp => ?_⟩
    rcases hp with hp | hp
    · injection hp with hp; subst hp
      exact ⟨hx2.1, (checkFeasible_relaxed _ _).mp hx2.2⟩
    · cases hp
  | optimum v =>
    rw [ha] at h; simp only at h
    rw [Option.map_eq_some_iff] at h
    obtain ⟨x, hx, rfl⟩ := h
    have hx2 := List.find?_some hx
    simp only [Bool.and_eq_true, decide_eq_true_eq] at hx2
    refine ⟨?_, fun p hp => ?_⟩
    · simp only [lpResultAnswer, objAt]; rw [hx2.2]
    · rcases hp with hp | hp
      · cases hp
      · injection hp with hp; subst hp
        exact ⟨hx2.1.1, (checkFeasible_relaxed _ _).mp hx2.1.2⟩
  | unknownUnboundedIntVar => rw [ha] at h; simp at h

/-- **The invariant of `solve_mip`** at an arbitrary node `N` of the tree of a root problem `R`, entered
    with an incumbent that is a feasible integral point of `R` with the recorded value, for every fuel:
    UNBOUNDED ⇒ the point handed back is a feasible integral point of `R` and `R` is unbounded;
    otherwise the incumbent handed back is a feasible integral point of `R` with the recorded value, is
    at least as good as the one received, and **no feasible integral point of the node is strictly
    better** (so nothing was lost by pruning or branching); OPTIMIZED is only returned with an
    incumbent; UNFEASIBLE entered without incumbent leaves none. -/
theorem solve_mip_node_sound (lp : Oracle) (hO : OracleOK lp) (R : Problem) (hR : R.WF) (fuel : Nat)
    (inc : Inc) (N : Node) (st : Status) (inc' : Inc)
    (hwf : N.toProblem.WF) (hsub : Sub N R) (hinc : IncOK R inc)
    (h : solveMip lp fuel inc N = some (st, inc')) :
    (st = .unbounded → Feasible R inc'.pt.val ∧ IsUnbounded R) ∧
    (st ≠ .unbounded →
      IncOK R inc' ∧
      (inc.has = true → inc'.has = true ∧ ¬ Better R inc.val inc'.val) ∧
      (∀ x, Feasible N.toProblem x → inc'.has = true ∧ ¬ Better R (R.objVal x) inc'.val) ∧
      (st = .optimized → inc'.has = true) ∧
      (st = .unfeasible → inc.has = false → inc'.has = false)) := by
  have hp := solveMip_post lp hO R fuel inc N (st, inc') hwf hsub hinc h
  refine ⟨fun hst => ?_, hp.2⟩
  obtain ⟨-, hf, hu⟩ := hp.1 hst
  exact ⟨hf, unbounded_of_point_and_lpUnb R hR _ hf hu⟩

/-- **`solve()` with integer variables returns the true answer** (model `solveTop`, any fuel, any LP
    oracle that answers correctly):
    UNFEASIBLE ⇒ no point satisfies the rows with the designated variables integral;
    UNBOUNDED ⇒ such points exist with arbitrarily good objective value, and the stored point is one;
    OPTIMIZED `v` at `p` ⇒ `p` is feasible, integral on the integer variables, its objective value is
    `v`, and no feasible integral point is better. -/
theorem solve_mip_sound (lp : Oracle) (hO : OracleOK lp) (N : Node) (hwf : N.toProblem.WF) (fuel : Nat)
    (out : Outcome) (h : solveTop lp fuel N = some out) :
    match out with
    | .unfeasible => IsUnfeasible N.toProblem
    | .unbounded p => IsUnbounded N.toProblem ∧ Feasible N.toProblem p.val
    | .optimized v p => IsOptimum N.toProblem v ∧ Feasible N.toProblem p.val ∧ N.toProblem.objVal p.val = v := by
  unfold solveTop at h
  cases hlp : lp N with
  | none => rw [hlp] at h; cases h
  | some r =>
    rw [hlp] at h
    simp only at h
    by_cases hunf : (r.mipStatus == Status.unfeasible) = true
    · rw [if_pos hunf] at h
      injection h with h; subst h
      have hr : r = .unfeasible := by cases r <;> simp_all [LPResult.mipStatus]
      subst hr
      have hc := hO N _ hwf hlp
      rintro ⟨x, hx⟩
      exact hc x hx.1
    · rw [if_neg hunf] at h
      have hsub : Sub N N.toProblem := ⟨rfl, rfl, rfl, fun _ hx => hx⟩
      have hinc : IncOK N.toProblem Inc.init := fun hh => by cases hh
      cases hs : solveMip lp fuel Inc.init N with
      | none => rw [hs] at h; cases h
      | some res =>
        obtain ⟨st, inc⟩ := res
        rw [hs] at h
        obtain ⟨hU, hB⟩ := solve_mip_node_sound lp hO N.toProblem hwf fuel Inc.init N st inc hwf hsub hinc hs
        cases st with
        | unfeasible =>
          simp only at h; injection h with h; subst h
          obtain ⟨-, -, hcov, -, hno⟩ := hB (by simp)
          rintro ⟨x, hx⟩
          have := (hcov x hx).1
          rw [hno rfl rfl] at this; cases this
        | unbounded =>
          simp only at h; injection h with h; subst h
          obtain ⟨hf, hu⟩ := hU rfl
          exact ⟨hu, hf⟩
        | optimized =>
          simp only at h; injection h with h; subst h
          obtain ⟨hok, -, hcov, hhas, -⟩ := hB (by simp)
          obtain ⟨-, hf, hv⟩ := hok (hhas rfl)
          have hval : objAt N inc.pt = inc.val := hv
          refine ⟨⟨⟨inc.pt.val, hf, rfl⟩, fun x hx => ?_⟩, hf, rfl⟩
          show ¬ Better N.toProblem (N.toProblem.objVal x) (objAt N inc.pt)
          rw [hval]
          exact (hcov x hx).2

-- non-vacuity: max x, 1 ≤ 2x ≤ 3, x integer — relaxation 3/2, children x ≤ 1 (optimum 1) and x ≥ 2
-- (unfeasible); with the proved reference as oracle the model answers OPTIMIZED 1 at x = 1
example : solveTop refOracle 3 ⟨1, [⟨[-2], 3, false⟩, ⟨[2], -1, false⟩], [0], ⟨[1], 0⟩, true⟩
    = some (.optimized 1 ⟨[1], 1⟩) := by decide +kernel
-- 2x = 1: both children unfeasible
example : solveTop refOracle 3 ⟨1, [⟨[2], -1, true⟩], [0], ⟨[1], 0⟩, true⟩ = some .unfeasible := by decide +kernel

/-- the claim an outcome of `solve()` makes -/
def outcomeAnswer : Outcome → Answer
  | .unfeasible => .unfeasible
  | .unbounded _ => .unbounded
  | .optimized v _ => .optimum v

/-- **The answer does not depend on the LP oracle** — on which optimal vertex the simplex stops at, hence on
    the pricing rule (textbook, steepest edge exact or float), on degenerate ties, and on whether a
    node's LP was solved incrementally from the parent's basis or from scratch: two runs of the
    modelled `solve()` with any two correct oracles and any fuels report the same status and the same
    optimal value (the points may differ). -/
theorem solve_mip_oracle_independent (lp₁ lp₂ : Oracle) (h₁ : OracleOK lp₁) (h₂ : OracleOK lp₂) (N : Node)
    (hwf : N.toProblem.WF) (f₁ f₂ : Nat) (o₁ o₂ : Outcome)
    (e₁ : solveTop lp₁ f₁ N = some o₁) (e₂ : solveTop lp₂ f₂ N = some o₂) : outcomeAnswer o₁ = outcomeAnswer o₂ := by
  have a₁ := solve_mip_sound lp₁ h₁ N hwf f₁ o₁ e₁
  have a₂ := solve_mip_sound lp₂ h₂ N hwf f₂ o₂ e₂
  apply isAnswer_unique N.toProblem
  · cases o₁ <;> simp only [outcomeAnswer, IsAnswer] at a₁ ⊢
    · exact a₁
    · exact a₁.1
    · exact a₁.1
  · cases o₂ <;> simp only [outcomeAnswer, IsAnswer] at a₂ ⊢
    · exact a₂
    · exact a₂.1
    · exact a₂.1

-- the same problem, the oracle of the reference and an oracle that reports the other optimal vertex of
-- a degenerate LP would agree in value; here: the reference oracle at two different fuels
example : (solveTop refOracle 3 ⟨1, [⟨[-2], 3, false⟩, ⟨[2], -1, false⟩], [0], ⟨[1], 0⟩, true⟩).map outcomeAnswer
    = (solveTop refOracle 5 ⟨1, [⟨[-2], 3, false⟩, ⟨[2], -1, false⟩], [0], ⟨[1], 0⟩, true⟩).map outcomeAnswer := by
  decide +kernel

/-- **The code's UNBOUNDED rule is valid**, whatever the ranges of the integer variables: if the
    relaxation of the (root) problem has points of arbitrarily good value and one feasible integral
    point exists, the mixed-integer problem is unbounded.  (The data are rational: the relaxation then
    has a rational improving recession direction — affine Farkas lemma `unbounded_has_ray` — and a
    multiple of it keeps integral coordinates integral.)  The code relies on exactly this and checks
    nothing else; nothing else is needed. -/
theorem unbounded_rule_valid (R : Problem) (hwf : R.WF) (x : Val) (hx : Feasible R x)
    (hu : ∀ M : Rat, ∃ y, Sat R.cs y ∧ Better R (R.objVal y) M) : IsUnbounded R :=
  unbounded_of_point_and_lpUnb R hwf x hx hu

example : Feasible ⟨1, [geRow [2] (-1)], [0], ⟨[1], 0⟩, true⟩ (fun _ => 1) := by
  refine ⟨?_, fun i hi => ⟨1, rfl⟩⟩
  intro c hc
  simp only [List.mem_singleton] at hc; subst hc
  simp [Con.sat, geRow, Con.eval, dot]

/-- **Branching step.**  For an integer variable `i` and any rational `q` (the coordinate of the LP
    vertex): every feasible point of the node is a feasible point of the child `x_i ≤ ⌊q⌋` or of the
    child `x_i ≥ ⌈q⌉` (no integral point lost), each child only has points of the node, and when `q` is
    not an integer no point belongs to both children (none duplicated). -/
theorem branch_partition (N : Node) (i : Nat) (hi : i ∈ N.ivars) (q : Rat) :
    (∀ x, Feasible N.toProblem x →
      Feasible (N.addRow (branchLe i (floorQ q))).toProblem x ∨ Feasible (N.addRow (branchGe i (ceilQ q))).toProblem x) ∧
    (∀ x, Feasible (N.addRow (branchLe i (floorQ q))).toProblem x → Feasible N.toProblem x ∧ x i ≤ (⌊q⌋ : Int)) ∧
    (∀ x, Feasible (N.addRow (branchGe i (ceilQ q))).toProblem x → Feasible N.toProblem x ∧ ((⌈q⌉ : Int) : Rat) ≤ x i) ∧
    ((¬ ∃ z : Int, q = (z : Rat)) → ∀ x,
      ¬ (Feasible (N.addRow (branchLe i (floorQ q))).toProblem x ∧ Feasible (N.addRow (branchGe i (ceilQ q))).toProblem x)) := by
  refine ⟨fun x hx => children_cover N i hi q x hx, fun x hx => ?_, fun x hx => ?_, fun hq x => children_disjoint N i q hq x⟩
  · rw [feasible_addRow, sat_branchLe, floorQ_eq] at hx; exact hx
  · rw [feasible_addRow, sat_branchGe, ceilQ_eq] at hx; exact hx

example : floorQ (3/2) = 1 ∧ ceilQ (3/2) = 2 ∧ floorQ (-3/2) = -2 ∧ ceilQ (-3/2) = -1 ∧ floorQ 2 = 2 ∧ ceilQ 2 = 2 := by
  decide +kernel

/-- **Exact comparison of rationals by cross-multiplication** (`mpq_class` `<=`, `<` on canonical fractions). -/
theorem mpq_compare_exact (a b : Rat) : (mpqLe a b = true ↔ a ≤ b) ∧ (mpqLt a b = true ↔ a < b) :=
  ⟨mpqLe_iff a b, mpqLt_iff a b⟩

example : mpqLe (1/3) (1/2) = true ∧ mpqLt (1/2) (1/2) = false ∧ mpqLe (-1/2) (-2/3) = false := by decide +kernel

/-- **The pruning test never prunes a strictly better integral point.**  If the test `LP optimum ≤
    incumbent` (`≥` when minimising) abandons the node, then an incumbent exists and every point of the
    relaxation of the node — in particular every feasible integral point — is not strictly better than
    the incumbent. -/
theorem prune_never_loses_better_point (N : Node) (inc : Inc) (v : Rat) (h : pruned N inc v = true)
    (hv : ∀ x, Sat N.toProblem.cs x → ¬ Better N.toProblem (N.toProblem.objVal x) v) (x : Val)
    (hx : Feasible N.toProblem x) :
    inc.has = true ∧ ¬ Better N.toProblem (N.toProblem.objVal x) inc.val :=
  pruned_safe N inc v h x (hv x hx.1)

example : pruned ⟨1, [], [0], ⟨[1], 0⟩, true⟩ ⟨true, 2, ⟨[2], 1⟩⟩ (3/2) = true
    ∧ pruned ⟨1, [], [0], ⟨[1], 0⟩, true⟩ ⟨true, 1, ⟨[1], 1⟩⟩ (3/2) = false
    ∧ pruned ⟨1, [], [0], ⟨[1], 0⟩, false⟩ ⟨true, 1, ⟨[1], 1⟩⟩ (3/2) = true := by decide +kernel

/-- **The incumbent update keeps the best-so-far invariant.**  At a node that was not pruned and
    whose LP vertex `p` (value `v`) is integral, the update as written — including its third disjunct
    `tmp_rational < incumbent_solution_value`, which is *not* guarded by the optimisation mode —
    stores exactly `(v, p)`, and `v` is strictly better than the previous incumbent (if any). -/
theorem incumbent_update_best (N : Node) (inc : Inc) (v : Rat) (p : Pt) (h : pruned N inc v = false) :
    updateInc N inc v p = ⟨true, v, p⟩ ∧ (inc.has = true → Better N.toProblem v inc.val) :=
  ⟨updateInc_eq N inc v p h, not_pruned_better N inc v h⟩

example : updateInc ⟨1, [], [0], ⟨[1], 0⟩, true⟩ ⟨true, 1, ⟨[1], 1⟩⟩ 2 ⟨[2], 1⟩ = ⟨true, 2, ⟨[2], 1⟩⟩ := by decide +kernel

/-- **`choose_branching_variable`** answers "all integral" exactly when every integer variable is
    integral at the LP point, and otherwise names an integer variable whose coordinate is fractional. -/
theorem choose_branching_variable_spec (N : Node) (p : Pt) (hd : 0 < p.den) :
    (chooseBranchingVariable N p = none → ∀ i ∈ N.ivars, ∃ z : Int, p.val i = (z : Rat)) ∧
    (∀ i, chooseBranchingVariable N p = some i → i ∈ N.ivars ∧ ¬ ∃ z : Int, p.val i = (z : Rat)) :=
  chooseBranchingVariable_spec N p hd

-- x0 = 1/2 occurs in one active row, x1 = 1/2 in two: x1 wins; ties go to the larger index
example : chooseBranchingVariable ⟨2, [⟨[2, 0], -1, true⟩, ⟨[0, 2], -1, true⟩, ⟨[0, -2], 1, false⟩], [0, 1], ⟨[], 0⟩, true⟩ ⟨[1, 1], 2⟩ = some 1
    ∧ chooseBranchingVariable ⟨2, [⟨[2, 0], -1, true⟩, ⟨[0, 2], -1, true⟩], [0, 1], ⟨[], 0⟩, true⟩ ⟨[1, 1], 2⟩ = some 1
    ∧ chooseBranchingVariable ⟨2, [⟨[2, 0], -1, true⟩], [0, 1], ⟨[], 0⟩, true⟩ ⟨[1, 2], 2⟩ = some 0
    ∧ chooseBranchingVariable ⟨2, [], [0, 1], ⟨[], 0⟩, true⟩ ⟨[2, 4], 2⟩ = none := by decide +kernel

/-- **`is_mip_satisfiable` is sound**, for every fuel and every satisfiability oracle that answers
    correctly: `true` comes with a point that satisfies the rows of the node and is integral on the
    integer variables; `false` means the node has no such point. -/
theorem is_mip_satisfiable_sound (lp : SatOracle) (hO : SatOracleOK lp) (fuel : Nat) (N : Node)
    (hwf : N.toProblem.WF) :
    (∀ q, isMipSatisfiable lp fuel N = some (some q) → 0 < q.den ∧ Feasible N.toProblem q.val) ∧
    (isMipSatisfiable lp fuel N = some none → IsUnfeasible N.toProblem) := by
  obtain ⟨a, b⟩ := isMipSatisfiable_sound lp hO fuel N hwf
  exact ⟨a, fun h => by rintro ⟨x, hx⟩; exact b h x hx⟩

/-- the satisfiability oracle induced by a correct LP oracle is correct -/
theorem sat_of_lp_ok (lp : Oracle) (hO : OracleOK lp) : SatOracleOK (satOfLp lp) := by
  intro N hwf
  unfold satOfLp
  constructor
  · intro h x
    rw [Option.map_eq_some_iff] at h
    obtain ⟨r, hr, hm⟩ := h
    have hc := hO N r hwf hr
    cases r <;> simp at hm
    exact hc x
  · intro p h
    rw [Option.map_eq_some_iff] at h
    obtain ⟨r, hr, hm⟩ := h
    have hc := hO N r hwf hr
    cases r <;> simp at hm
    · subst hm; exact ⟨hc.1, hc.2.1⟩
    · subst hm; exact ⟨hc.1, hc.2.1⟩

example : isMipSatisfiable (satOfLp refOracle) 3 ⟨1, [⟨[-2], 3, false⟩, ⟨[2], -1, false⟩], [0], ⟨[1], 0⟩, true⟩
    = some (some ⟨[1], 1⟩) := by decide +kernel
example : isMipSatisfiable (satOfLp refOracle) 3 ⟨1, [⟨[2], -1, true⟩], [0], ⟨[1], 0⟩, true⟩ = some none := by
  decide +kernel

/-- **The rows `is_satisfiable()` leaves in the object are harmless.**  `is_mip_satisfiable` adds the
    right-branch row `x_i ≥ ⌈q⌉` to the caller's object itself, but only after the left branch was
    found to hold no feasible integral point: the feasible integral points are unchanged. -/
theorem is_satisfiable_leaves_rows_harmless (N : Node) (i : Nat) (hi : i ∈ N.ivars) (q : Rat)
    (hleft : IsUnfeasible (N.addRow (branchLe i (floorQ q))).toProblem) (x : Val) :
    Feasible (N.addRow (branchGe i (ceilQ q))).toProblem x ↔ Feasible N.toProblem x :=
  right_branch_row_keeps_integral_points N i hi q (fun x hx => hleft ⟨x, hx⟩) x

/-- **Termination when the integer variables are boxed** — *partial*: what is missing is termination
    without the box hypothesis, which is false for the code as well (`2x − 2y = 1`, `x`, `y` integer and
    free, branches for ever).  If every integer variable lies between two integers on the relaxation
    of the node and the oracle answers at every node, `solve_mip` returns with fuel
    `(sum of the box widths) + 1`. -/
theorem solve_mip_terminates_partial (lp : Oracle) (hO : OracleOK lp) (hT : Answers lp) (N : Node)
    (inc : Inc) (lo hi : Nat → Int) (hwf : N.toProblem.WF) (hbox : Boxed N lo hi) :
    ∃ res, solveMip lp (width N.ivars lo hi + 1) inc N = some res :=
  Option.isSome_iff_exists.mp (solveMip_terminates lp hO hT _ N inc lo hi hwf hbox (le_refl _))

example : width [0, 1] (fun _ => -1) (fun i => if i = 0 then 2 else 0) = 4 := by decide

end C06
