import PPLV.WR.Proofs

/-!
# C03 — box, BD-shape and octagon results contain the exact result, for every type

The judge of `pplv_wr --mode c03`: for every operation of every instantiation the exact result `E`
is computed by K1 from the concretisations of the arguments *as the library reports them*
(`constraints()`, bounds read as exact rationals), the result `R` is read the same way, and the
verdict is `subsetB n E R`.  `sound_iff` says this verdict is the set-level statement of the
property — sound and complete, for all systems.  Definite answers are judged by the deciders of K1
(`definite_answers`).  (The closure-kernel theorems `C03.closure_sound …` for every rounding are in
`PPLV/WR/Closure*.lean`.)
-/
namespace C03
open PPLV.Lin PPLV.WR

/-- **Soundness judge**: accepted iff the exact result is contained in the reported result. -/
theorem sound_iff (n : Nat) (exact result : List Con) (hE : WF n exact) (hR : WF n result) :
    subsetB n exact result = true ↔ sem exact ⊆ sem result := subsetB_iff n exact result hE hR

-- x ≤ 1/3 is contained in x ≤ 1 (an integer shape rounding the bound up), not in x ≤ 0
example : subsetB 1 [geRow [-3] 1] [geRow [-1] 1] = true ∧ subsetB 1 [geRow [-3] 1] [geRow [-1] 0] = false := by
  decide +kernel

/-- … for an exact result given as a union of convex pieces (upper bound, difference, time elapse, fold). -/
theorem sound_pieces_iff (n : Nat) (pieces : List (List Con)) (result : List Con)
    (hE : ∀ P ∈ pieces, WF n P) (hR : WF n result) :
    (pieces.all fun P => subsetB n P result) = true ↔ semU pieces ⊆ sem result := by
  rw [List.all_eq_true]
  constructor
  · rintro h x ⟨P, hP, hx⟩
    exact (subsetB_iff n P result (hE P hP) hR).mp (h P hP) hx
  · intro h P hP
    exact (subsetB_iff n P result (hE P hP) hR).mpr fun x hx => h ⟨P, hP, hx⟩

/-- **Definite answers**: a `true` of `is_empty`, `contains`, `is_disjoint_from` is accepted iff the
    statement holds of the reported point sets. -/
theorem definite_answers (n : Nat) (A B : List Con) (hA : WF n A) (hB : WF n B) :
    (isEmptyB n A = true ↔ sem A = ∅) ∧ (subsetB n B A = true ↔ sem B ⊆ sem A) ∧
    (disjointB n A B = true ↔ sem A ∩ sem B = ∅) :=
  ⟨isEmptyB_iff n A hA, subsetB_iff n B A hB hA, disjointB_iff n A B hA hB⟩

example : isEmptyB 2 [geRow [1, -1] (-1), geRow [-1, 1] 0] = true := by decide +kernel

end C03
