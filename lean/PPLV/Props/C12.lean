import PPLV.Interval.ProofsSet
import PPLV.Interval.ProofsDiv
import PPLV.Interval.ProofsExact
import PPLV.Interval.ProofsMulExact
import PPLV.Interval.ProofsRefine
import PPLV.Interval.ProofsLF
import PPLV.Interval.ProofsWiden
import PPLV.Interval.ProofsWrap
import PPLV.Interval.ProofsLinearize
import PPLV.Interval.ProofsFloatModel
import PPLV.Interval.ProofsDiffExact
import Mathlib.Tactic.NormNum
/-!
# C12 — interval arithmetic encloses every concrete result

Statements about the code-shaped model `PPLV/Interval/Model.lean` of `Boundary_NS` and `Interval`
(`/repo/src/Boundary_defs.hh`, `Interval_inlines.hh`, `Interval_defs.hh`), for **every** policy
(`store_special`, `store_open`, `may_contain_infinity`, `check_inexact`, `may_be_empty`) and
**every** sound directed rounding `R` (`down q ≤ q ≤ up q`, overflow to the infinity of the
direction): exact (`mpq_class`), floor/ceiling (`mpz_class`), binary floating point (`double`).
An interval denotes its set of rational members `Iv.mem p x`, which reads the OPEN bit through
the policy as the class does.

The unchanged tree violates the enclosure for `mul_assign` (defect 3) and `wrap_assign`
(defect 12): `mul_encloses_fails`, `wrap_encloses_fails` are the negations on the witnesses,
`mul_encloses_partial` is the enclosure for the code as written under the exact side condition
that defect 3 does not act (`d3Differs = false`), and `op_encloses` is the enclosure for all five
arithmetic operations with the candidate's info bits copied (`d3 = false`).
-/
set_option linter.unusedVariables false
set_option linter.unnecessarySeqFocus false
set_option linter.unusedSimpArgs false
namespace C12
open PPLV.Interval
open PPLV.Interval.ExtRat (ninf fin pinf)

/-- division is defined for a non-zero divisor -/
def defined : IvOp → Rat → Rat → Prop
  | .div, _, b => b ≠ 0
  | _, _, _ => True

/-! ## the three boundary types are instances of the abstract rounding -/

theorem rounding_exact_sound : Rounding.Sound Rounding.id := Rounding.id_sound
theorem rounding_integer_sound : Rounding.Sound Rounding.int := Rounding.int_sound
theorem rounding_float_sound (prec : Nat) (emin emax : Int) : Rounding.Sound (Rounding.float prec emin emax) :=
  Rounding.float_sound prec emin emax

example : Rounding.Sound Rounding.double := rounding_float_sound 53 (-1022) 1023

/-! ## enclosure: `a ∈ I → b ∈ J → a ⋆ b ∈ op I J` -/

/-- Enclosure for negation, sum, difference, product (all nine sign cases, bits of the chosen
candidate copied: `d3 = false`) and quotient (all six cases; universe when the divisor straddles
zero), for every policy and every sound rounding. -/
theorem op_encloses (pol : Policy) (R : Rounding) (hR : R.Sound) (op : IvOp) (I J : Iv) (a b : Rat)
    (ha : I.mem pol a) (hb : J.mem pol b) (hd : defined op a b) :
    (IvOp.run false pol R op I J).mem pol (op.exact a b) := by
  cases op
  · exact negAssign_encloses hR ha
  · exact addAssign_encloses hR ha hb
  · exact subAssign_encloses hR ha hb
  · exact mulAssign_encloses hR ha hb
  · exact divAssign_encloses hR ha hb hd

/-- non-vacuity: `(−1,2]·[−3,1)` contains `2·(−3) = −6` once the bits are copied -/
example : (IvOp.run false Policy.rational Rounding.id .mul ⟨⟨fin (-1), true⟩, ⟨fin 2, false⟩⟩
    ⟨⟨fin (-3), false⟩, ⟨fin 1, true⟩⟩).mem Policy.rational (-6) := by
  have := op_encloses Policy.rational Rounding.id rounding_exact_sound .mul
    ⟨⟨fin (-1), true⟩, ⟨fin 2, false⟩⟩ ⟨⟨fin (-3), false⟩, ⟨fin 1, true⟩⟩ 2 (-3)
    (by simp [Iv.mem, lowerOk, upperOk, getOpen, Policy.rational] <;> norm_num)
    (by simp [Iv.mem, lowerOk, upperOk, getOpen, Policy.rational] <;> norm_num) trivial
  have e : IvOp.exact .mul (2 : Rat) (-3) = -6 := by simp [IvOp.exact]; norm_num
  rw [e] at this
  exact this

/-- The code **as written** (`d3 = true`): the enclosure for the product fails.
`(−1,2]·[−3,1)` is computed as `(−6,3)`, which loses `2·(−3) = −6` (defect 3). -/
theorem mul_encloses_fails :
    ¬ (∀ (I J : Iv) (a b : Rat), I.mem Policy.rational a → J.mem Policy.rational b →
        (mulAssign true Policy.rational Rounding.id I J).mem Policy.rational (a * b)) := by
  intro h
  have hv : mulAssign true Policy.rational Rounding.id ⟨⟨fin (-1), true⟩, ⟨fin 2, false⟩⟩
      ⟨⟨fin (-3), false⟩, ⟨fin 1, true⟩⟩ = ⟨⟨fin (-6), true⟩, ⟨fin 3, true⟩⟩ := by decide +kernel
  have := h ⟨⟨fin (-1), true⟩, ⟨fin 2, false⟩⟩ ⟨⟨fin (-3), false⟩, ⟨fin 1, true⟩⟩ 2 (-3)
    (by simp [Iv.mem, lowerOk, upperOk, getOpen, Policy.rational] <;> norm_num)
    (by simp [Iv.mem, lowerOk, upperOk, getOpen, Policy.rational] <;> norm_num)
  rw [hv] at this
  simp [Iv.mem, lowerOk, upperOk, getOpen, Policy.rational] at this
  norm_num at this

/-- the witness is a case where defect 3 acts -/
example : d3Differs Policy.rational Rounding.id ⟨⟨fin (-1), true⟩, ⟨fin 2, false⟩⟩
    ⟨⟨fin (-3), false⟩, ⟨fin 1, true⟩⟩ = true := by decide +kernel

/-- The code as written encloses the product whenever defect 3 does not act: outside the case
"both operands straddle zero", or when every replaced candidate has the OPEN bit of the candidate
that replaces it.  (`_partial`: the missing part is exactly `d3Differs = true`, where
`mul_encloses_fails` shows the clause is false.) -/
theorem mul_encloses_partial (pol : Policy) (R : Rounding) (hR : R.Sound) (I J : Iv) (a b : Rat)
    (hd : d3Differs pol R I J = false) (ha : I.mem pol a) (hb : J.mem pol b) :
    (mulAssign true pol R I J).mem pol (a * b) :=
  mulAssign_encloses_asWritten hR hd ha hb

/-- where defect 3 does not act the code as written *is* the repaired code -/
theorem mul_asWritten_eq_repaired (pol : Policy) (R : Rounding) (I J : Iv)
    (hd : d3Differs pol R I J = false) : mulAssign true pol R I J = mulAssign false pol R I J :=
  mulAssign_d3_eq hd

/-- non-vacuity: a straddle/straddle pair on which defect 3 does not act -/
example : d3Differs Policy.rational Rounding.id ⟨⟨fin (-1), false⟩, ⟨fin 2, false⟩⟩
    ⟨⟨fin (-3), false⟩, ⟨fin 1, false⟩⟩ = false := by decide +kernel

/-- the uniform statement for the code as written, under the side condition -/
theorem op_encloses_partial (pol : Policy) (R : Rounding) (hR : R.Sound) (op : IvOp) (I J : Iv) (a b : Rat)
    (hd3 : op = .mul → d3Differs pol R I J = false)
    (ha : I.mem pol a) (hb : J.mem pol b) (hd : defined op a b) :
    (IvOp.run true pol R op I J).mem pol (op.exact a b) := by
  cases op
  · exact negAssign_encloses hR ha
  · exact addAssign_encloses hR ha hb
  · exact subAssign_encloses hR ha hb
  · exact mulAssign_encloses_asWritten hR (hd3 rfl) ha hb
  · exact divAssign_encloses hR ha hb hd


/-! ## exactness when the rounding is the identity -/

/-- With exact rounding, negation, sum and difference return **exactly** the image of the operands
(which is an interval, hence the least interval containing the image), openness of each bound and
infinities included; for every policy.  (For the product see `mul_hull_closed_bounded`.) -/
theorem op_exact (pol : Policy) (d3 : Bool) (op : IvOp) (hop : op = .neg ∨ op = .add ∨ op = .sub) (I J : Iv)
    (hI : ∃ a, I.mem pol a) (hJ : ∃ b, J.mem pol b) (c : Rat) :
    (IvOp.run d3 pol Rounding.id op I J).mem pol c ↔ ∃ a b, I.mem pol a ∧ J.mem pol b ∧ c = op.exact a b := by
  rcases hop with rfl | rfl | rfl
  · obtain ⟨b0, hb0⟩ := hJ
    simp only [IvOp.run, IvOp.exact]
    rw [negAssign_exact]
    constructor
    · intro h; exact ⟨-c, b0, h, hb0, by ring⟩
    · rintro ⟨a, b, ha, _, rfl⟩; simpa using ha
  · exact addAssign_exact hI hJ
  · exact subAssign_exact hI hJ

/-- non-vacuity: `(0,1] + [2,3) = (2,4)`: `4` is not a sum, `3` is -/
example : ¬ (IvOp.run false Policy.rational Rounding.id .add ⟨⟨fin 0, true⟩, ⟨fin 1, false⟩⟩
    ⟨⟨fin 2, false⟩, ⟨fin 3, true⟩⟩).mem Policy.rational 4 := by
  have hv : IvOp.run false Policy.rational Rounding.id .add ⟨⟨fin 0, true⟩, ⟨fin 1, false⟩⟩
      ⟨⟨fin 2, false⟩, ⟨fin 3, true⟩⟩ = ⟨⟨fin 2, true⟩, ⟨fin 4, true⟩⟩ := by decide +kernel
  rw [hv]; simp [Iv.mem, lowerOk, upperOk, getOpen, Policy.rational]


/-- For the product the hull of the image is always inside the result (any policy, any sound
rounding) … -/
theorem mul_hull_subset (pol : Policy) (R : Rounding) (hR : R.Sound) (I J : Iv) (c s1 s2 : Rat)
    (h1 : ∃ a b, I.mem pol a ∧ J.mem pol b ∧ s1 = a * b) (h2 : ∃ a b, I.mem pol a ∧ J.mem pol b ∧ s2 = a * b)
    (hc1 : s1 ≤ c) (hc2 : c ≤ s2) : (mulAssign false pol R I J).mem pol c :=
  mulAssign_hull_subset hR h1 h2 hc1 hc2

/-- … and with exact rounding, for closed bounded operands `[l,u]·[m,n]` (all nine sign cases), the
result is exactly that hull: the least interval containing the image.
(`_partial` in the sense of `op_exact`: open or unbounded operands of the product are covered by the
enclosure theorem and by the correspondence run against the set-level reference, not by a theorem.) -/
theorem mul_hull_closed_bounded_partial (pol : Policy) (l u m n : Rat) (hx : l ≤ u) (hy : m ≤ n) (c : Rat) :
    (mulAssign false pol Rounding.id (Iv.closed l u) (Iv.closed m n)).mem pol c ↔
      ∃ s1 s2, (∃ a b, (Iv.closed l u).mem pol a ∧ (Iv.closed m n).mem pol b ∧ s1 = a * b) ∧
               (∃ a b, (Iv.closed l u).mem pol a ∧ (Iv.closed m n).mem pol b ∧ s2 = a * b) ∧ s1 ≤ c ∧ c ≤ s2 :=
  mulAssign_hull_closed hx hy c

example : mulAssign false Policy.rational Rounding.id (Iv.closed (-1) 2) (Iv.closed (-3) 1)
    = Iv.closed (-6) 3 := by decide +kernel

/-! ## emptiness -/

/-- `is_empty()` answers `true` exactly when the interval has no rational member (bounds on their
own sides, which `OK()` demands of every interval) -/
theorem is_empty_iff (pol : Policy) (I : Iv) (hlo : I.lo.value ≠ pinf) (hhi : I.hi.value ≠ ninf) :
    isEmpty pol I = true ↔ ∀ a, ¬ I.mem pol a := isEmpty_iff hlo hhi

example : isEmpty Policy.rational ⟨⟨fin 2, true⟩, ⟨fin 2, false⟩⟩ = true := by decide +kernel

/-- an empty operand gives the empty result (policies that may be empty) -/
theorem op_empty (pol : Policy) (R : Rounding) (d3 : Bool) (op : IvOp) (I J : Iv)
    (hpe : pol.mayBeEmpty = true)
    (hI : I.lo.value ≠ pinf ∧ I.hi.value ≠ ninf) (hJ : J.lo.value ≠ pinf ∧ J.hi.value ≠ ninf)
    (h : (∀ a, ¬ I.mem pol a) ∨ (op ≠ .neg ∧ ∀ b, ¬ J.mem pol b)) :
    ∀ c, ¬ (IvOp.run d3 pol R op I J).mem pol c := by
  intro c
  have eI : (∀ a, ¬ I.mem pol a) → checkEmptyArg pol I = true := fun h => by
    unfold checkEmptyArg; rw [hpe]; simpa using (isEmpty_iff hI.1 hI.2).mpr h
  have eJ : (∀ a, ¬ J.mem pol a) → checkEmptyArg pol J = true := fun h => by
    unfold checkEmptyArg; rw [hpe]; simpa using (isEmpty_iff hJ.1 hJ.2).mpr h
  rcases h with h | ⟨hn, h⟩
  · cases op <;> simp [IvOp.run, negAssign, addAssign, subAssign, mulAssign, divAssign, eI h] <;>
      exact not_mem_empty pol c
  · cases op <;> simp [IvOp.run, negAssign, addAssign, subAssign, mulAssign, divAssign, eJ h] at hn ⊢ <;>
      exact not_mem_empty pol c

/-- and non-empty operands give a non-empty result (a consequence of the enclosure) -/
theorem op_nonempty (pol : Policy) (R : Rounding) (hR : R.Sound) (op : IvOp) (I J : Iv) (a b : Rat)
    (ha : I.mem pol a) (hb : J.mem pol b) (hd : defined op a b) :
    isEmpty pol (IvOp.run false pol R op I J) = false :=
  isEmpty_of_mem (op_encloses pol R hR op I J a b ha hb hd)

/-! ## set operations -/

theorem assign_copy_encloses (pol : Policy) (R : Rounding) (hR : R.Sound) (I : Iv) (a : Rat)
    (h : I.mem pol a) : (assign pol R pol I).mem pol a := assign_encloses hR h

/-- the join contains both operands -/
theorem join_encloses (pol : Policy) (R : Rounding) (hR : R.Sound) (I J : Iv) (a : Rat)
    (h : I.mem pol a ∨ J.mem pol a) : (joinAssign pol R I J).mem pol a := joinAssign_encloses hR h

/-- … and, with exact rounding, nothing below both lower bounds or above both upper bounds: it is
the interval hull of the union -/
theorem join_exact (pol : Policy) (I J : Iv) (a : Rat) (h : (joinAssign pol Rounding.id I J).mem pol a) :
    (lowerOk pol I.lo a ∨ lowerOk pol J.lo a) ∧ (upperOk pol I.hi a ∨ upperOk pol J.hi a) :=
  joinAssign_exact_bounds h

/-- the intersection is contained in the result -/
theorem intersect_encloses (pol : Policy) (R : Rounding) (hR : R.Sound) (I J : Iv) (a : Rat)
    (hI : I.mem pol a) (hJ : J.mem pol a) : (intersectAssign pol R I J).mem pol a :=
  intersectAssign_encloses hR hI hJ

/-- with exact rounding `intersect_assign` is exactly the intersection (openness included) -/
theorem intersect_exact (pol : Policy) (I J : Iv) (a : Rat) :
    (intersectAssign pol Rounding.id I J).mem pol a ↔ I.mem pol a ∧ J.mem pol a := intersectAssign_exact

example : (intersectAssign Policy.rational Rounding.id ⟨⟨fin 0, false⟩, ⟨fin 2, true⟩⟩
    ⟨⟨fin 1, true⟩, ⟨pinf, true⟩⟩).mem Policy.rational (3 / 2) := by
  rw [intersect_exact]
  constructor <;> simp [Iv.mem, lowerOk, upperOk, getOpen, Policy.rational] <;> norm_num

/-- the set difference is contained in the result of `difference_assign` -/
theorem difference_encloses (pol : Policy) (R : Rounding) (hR : R.Sound) (I J : Iv) (a : Rat)
    (hI : I.mem pol a) (hJ : ¬ J.mem pol a) : (differenceAssign pol R I J).mem pol a :=
  differenceAssign_encloses hR hI hJ


/-- `refine_existential(rel, J)` keeps every member of `I` that is `rel`-related to some member of `J`
(all six relation symbols) -/
theorem refine_existential_encloses (pol : Policy) (R : Rounding) (hR : R.Sound) (I J : Iv) (rel : Rel)
    (a b : Rat) (ha : I.mem pol a) (hb : J.mem pol b) (hrel : rel.holds a b) :
    (refineExistential pol R I rel J).mem pol a := refineExistential_encloses hR ha hb hrel

example : (refineExistential Policy.rational Rounding.id ⟨⟨fin 0, false⟩, ⟨fin 5, false⟩⟩ .lt
    ⟨⟨fin 1, false⟩, ⟨fin 3, false⟩⟩) = ⟨⟨fin 0, false⟩, ⟨fin 3, true⟩⟩ := by decide +kernel

/-- `contains` answering `true` is the inclusion of the sets -/
theorem contains_true (pol : Policy) (I J : Iv) (h : contains pol I J = true) (a : Rat)
    (hJ : J.mem pol a) : I.mem pol a := contains_sound h hJ

/-- `is_disjoint_from` answering `true`: no common member -/
theorem is_disjoint_true (pol : Policy) (I J : Iv) (h : isDisjointFrom pol I J = true) (a : Rat) :
    ¬ (I.mem pol a ∧ J.mem pol a) := isDisjointFrom_sound h



/-- `CC76_widening_assign` (any list of stop points) contains the interval it widens -/
theorem cc76_widening_encloses (pol : Policy) (I J : Iv) (stops : List Rat) (a : Rat) (h : I.mem pol a) :
    (cc76Widening pol I J stops).mem pol a := cc76Widening_encloses h

example : cc76Widening Policy.rational ⟨⟨fin (-3/2), false⟩, ⟨fin (1/2), true⟩⟩ ⟨⟨fin (-1), false⟩, ⟨fin 0, false⟩⟩
    [-2, -1, 0, 1, 2] = ⟨⟨fin (-2), false⟩, ⟨fin 1, true⟩⟩ := by decide +kernel

/-! ## linear forms with interval coefficients -/

/-- `operator+`, `operator-` and `operator*(C, f)` of `Linear_Form<Interval>` enclose
coefficientwise: if `c` is an instance of `F`, `d` of `G` and `n ∈ N`, then `c + d`, `c − d`,
`n·c` are instances of `F + G`, `F − G`, `N·F` (forms of any lengths; product with the
candidate's bits copied, `d3 = false`). -/
theorem lf_encloses (pol : Policy) (R : Rounding) (hR : R.Sound) (F G : List Iv) (c d : List Rat)
    (N : Iv) (n : Rat) (hF : lfMem pol F c) (hG : lfMem pol G d) (hn : N.mem pol n) :
    lfMem pol (lfAdd pol R F G) (vecAdd c d) ∧ lfMem pol (lfSub pol R F G) (vecSub c d)
      ∧ lfMem pol (lfScale false pol R N F) (c.map (fun a => a * n)) :=
  ⟨lfAdd_encloses hR hF hG, lfSub_encloses hR hF hG, lfScale_encloses hR hn hF⟩

/-- and the value of a sum of two forms on a store is the sum of the values -/
theorem lf_value_add (c d rho : List Rat) (h : c.length = d.length) :
    vecEval (vecAdd c d) rho = vecEval c rho + vecEval d rho := vecEval_add c d rho h

example : lfMem Policy.rational (lfAdd Policy.rational Rounding.id
    [⟨⟨fin 0, false⟩, ⟨fin 1, false⟩⟩, ⟨⟨fin 2, true⟩, ⟨fin 3, false⟩⟩] [⟨⟨fin 1, false⟩, ⟨fin 1, false⟩⟩])
    (vecAdd [1, 3] [1]) :=
  (lf_encloses Policy.rational Rounding.id rounding_exact_sound _ _ [1, 3] [1] ⟨⟨fin 1, false⟩, ⟨fin 1, false⟩⟩ 1
    (by simp [lfMem, Iv.mem, lowerOk, upperOk, getOpen, Policy.rational]; norm_num)
    (by simp [lfMem, Iv.mem, lowerOk, upperOk, getOpen, Policy.rational])
    (by simp [Iv.mem, lowerOk, upperOk, getOpen, Policy.rational])).1

/-! ## linear forms on a concrete store, `relative_error`, `intervalize`, `linearize`

`lfEvalMem pol F ρ v`: `v` is the value on the store `ρ` of some instance of the interval linear
form `F`.  The analysed machine is the *stated float model*: every arithmetic operation returns
`fl(exact)` with `|fl v − v| ≤ ε_f·|v| + ω_f` (`FloatModel`), `ε_f = 2^-MANTISSA_BITS`,
`ω_f = 2^(1 − EXPONENT_BIAS − MANTISSA_BITS)` of `Float_defs.hh` — satisfied by round-to-nearest,
upwards, downwards and towards zero of a binary format while no operation overflows; negation is
exact. -/


/-- The float model is met by the exact directed roundings of a binary format with `prec`
significand bits (hidden bit included: `prec - 1 = MANTISSA_BITS`) and least normal exponent
`emin = 1 - EXPONENT_BIAS`: inside the finite range, `down v` and `up v` are within
`2^-(prec-1)·|v| + 2^(emin-prec+1)` of `v`.  Round-to-nearest and round-towards-zero return one of
the two, so all four rounding modes of the analysed machine satisfy `FloatModel` on every
operation that does not overflow. -/
theorem float_model_of_directed_rounding (prec : Nat) (hprec : 1 ≤ prec) (emin emax : Int) (v d : Rat)
    (hrange : |v| ≤ Rounding.maxFinite prec emax)
    (h : (Rounding.float prec emin emax).down v = fin d ∨ (Rounding.float prec emin emax).up v = fin d) :
    |d - v| ≤ Rounding.pow2 (-((prec : Int) - 1)) * |v| + Rounding.pow2 (emin - (prec : Int) + 1) :=
  float_model_directed prec hprec emin emax v d hrange h

example : (Rounding.float 24 (-126) 127).down (1 / 10) = fin (13421772 / 134217728) := by decide +kernel

/-- `f1 += f2`, `f1 -= f2`, `f *= n`, `f /= n` (divisor member non-zero), `f += n`, `negate()`
on the values of the forms on a store -/
theorem lf_compound_encloses (pol : Policy) (R : Rounding) (hR : R.Sound) (rho : Nat → Rat)
    (F G : List Iv) (N : Iv) (a b n : Rat)
    (hF : lfEvalMem pol F rho a) (hG : lfEvalMem pol G rho b) (hn : N.mem pol n) :
    lfEvalMem pol (lfAddAssign pol R F G) rho (a + b) ∧ lfEvalMem pol (lfSubAssign pol R F G) rho (a - b)
      ∧ lfEvalMem pol (lfMulAssign false pol R F N) rho (a * n)
      ∧ (n ≠ 0 → lfEvalMem pol (lfDivAssign pol R F N) rho (a / n))
      ∧ (F ≠ [] → lfEvalMem pol (lfAddConst pol R F N) rho (a + n))
      ∧ lfEvalMem pol (lfNegate pol R F) rho (-a) :=
  ⟨lfEvalMem_add hR hF hG, lfEvalMem_sub hR hF hG, lfEvalMem_mul hR hF hn,
   fun h0 => lfEvalMem_div hR hF hn h0, fun hne => lfEvalMem_addConst hR hne hF hn, lfEvalMem_neg hR hF⟩

/-- `intervalize`: the interval contains every value of the form on every store inside the box -/
theorem intervalize_encloses (pol : Policy) (R : Rounding) (hR : R.Sound) (rho : Nat → Rat) (store : List Iv)
    (hstore : ∀ (k : Nat) (S : Iv), store[k]? = some S → S.mem pol (rho k))
    (F : List Iv) (v : Rat) (I : Iv) (hv : lfEvalMem pol F rho v)
    (h : intervalize false pol R store F = some I) : I.mem pol v :=
  intervalize_sound hR hstore hv h

/-- `relative_error`: for a form without unbounded coefficients, every value `a` of the form on the
store and every rounding error `t = fl(a) − a` with `|t| ≤ ε_f·|a|`: `t` is a value of the
relative-error form on the store (the coefficients are scaled with the LARGEST magnitude of each
interval coefficient, which is what makes this true). -/
theorem relative_error_encloses (pol : Policy) (R : Rounding) (hR : R.Sound) (eps : Rat) (heps : 0 ≤ eps)
    (rho : Nat → Rat) (F : List Iv) (a t : Rat) (hb : lfOverflows pol F = false)
    (ha : lfEvalMem pol F rho a) (ht : |t| ≤ eps * |a|) :
    lfEvalMem pol (relativeError false pol R eps F) rho t :=
  relativeError_encloses hR heps hb ha ht

example : relativeError false Policy.floating Rounding.double (1 / 4) [⟨⟨fin (-3), false⟩, ⟨fin 1, false⟩⟩, Iv.point 2]
    = [Iv.sym (3 / 4), Iv.sym (1 / 2)] := by decide +kernel

/-- **soundness of `linearize`** (constants, variables with or without an entry in the linear-form
abstract store, unary minus, `+`, `−`, `×`, `÷`; structural induction): if `linearize` answers `true`
with the form `F`, then for every concrete store `ρ` inside the abstract store and every machine
satisfying the float model — in particular each of the four rounding modes — the value the machine
computes for the expression is a value of `F` on `ρ`.  A `false` answer (division by an interval
that may contain zero, unbounded coefficients, unbounded operands of a product) claims nothing. -/
theorem linearize_sound (pol : Policy) (R : Rounding) (fm : FFormat) (store : List Iv)
    (lfStore : Nat → Option (List Iv)) (rho : Nat → Rat) (fl : Rat → Rat)
    (H : LinHyps pol R fm store lfStore rho) (hfl : FloatModel fm fl)
    (e : FExpr) (F : List Iv) (hw : e.WF pol) (h : linearize false pol R fm store lfStore e = some F) :
    lfEvalMem pol F rho (e.ceval fl rho) :=
  PPLV.Interval.linearize_sound H hfl e F hw h

/-- the hypothesis `neg_bounded` of `LinHyps` holds for exact rounding -/
theorem neg_bounded_exact (pol : Policy) (x : Iv) (h : isBounded pol x = true) :
    isBounded pol (negAssign pol Rounding.id x) = true := by
  obtain ⟨⟨v1, o1⟩, ⟨v2, o2⟩⟩ := x
  obtain ⟨ss, so, mci, ci, mbe⟩ := pol
  cases v1 <;> cases v2 <;> cases ss <;> cases so <;> cases mci <;> cases mbe <;> cases o1 <;> cases o2 <;>
    simp_all [isBounded, isBoundaryInfinity, getSpecial, normalIsBoundaryInfinity, negAssign, checkEmptyArg, isEmpty,
      Iv.empty, bNeg, adjust_id, ExtRat.neg, setBoundaryInfinity, infOf] <;>
    split_ifs <;> simp_all [normalIsBoundaryInfinity]

/-- non-vacuity: `x / 2` over `x ∈ [1,3]` linearizes, `1 / x` over `x ∈ [-1,1]` is refused -/
example : (linearize false Policy.floating Rounding.double ⟨1 / 8388608, 1 / 4⟩ [Iv.closed 1 3] (fun _ => none)
    (.div (.var 0) (.const (Iv.point 2) 2))).isSome = true := by decide +kernel
example : linearize false Policy.floating Rounding.double ⟨1 / 8388608, 1 / 4⟩ [Iv.closed (-1) 1] (fun _ => none)
    (.div (.const (Iv.point 1) 1) (.var 0)) = none := by decide +kernel

/-! ## `difference_assign` and the repaired `refine_universal(NOT_EQUAL, ·)` (commit 17f6149) -/

/-- enclosure, every policy and sound rounding: every member of `I` that differs from all members
of `J` (i.e. is not in `J`) stays -/
theorem refine_universal_ne_encloses (pol : Policy) (R : Rounding) (hR : R.Sound) (I J : Iv) (a : Rat)
    (ha : I.mem pol a) (hJ : ¬ J.mem pol a) : (refineUniversal pol R I .ne J).mem pol a :=
  refineUniversal_ne_encloses hR ha hJ

/-- **`refine_universal(NOT_EQUAL, J)` returns the smallest interval containing `I ∖ J`**: with exact
rounding and a policy that stores OPEN bits (otherwise the complement bound cannot be represented),
for intervals as `OK()` admits them (bounds on their own sides, infinite bounds open), a value is in
the result iff it lies between two members of the difference.  Empty `I` or `J` included. -/
theorem refine_universal_ne_spec (pol : Policy) (hso : pol.storeOpen = true) (I J : Iv)
    (hI : I.OKReal) (hJ : J.OKReal) (c : Rat) :
    (refineUniversal pol Rounding.id I .ne J).mem pol c ↔
      ∃ s1 s2, (I.mem pol s1 ∧ ¬ J.mem pol s1) ∧ (I.mem pol s2 ∧ ¬ J.mem pol s2) ∧ s1 ≤ c ∧ c ≤ s2 :=
  refineUniversal_ne_hull hso hI hJ c

/-- the same for `difference_assign` itself; the `⊇` half holds for every policy and sound rounding -/
theorem difference_spec (pol : Policy) (hso : pol.storeOpen = true) (I J : Iv)
    (hI : I.OKReal) (hJ : J.OKReal) (c : Rat) :
    (differenceAssign pol Rounding.id I J).mem pol c ↔
      ∃ s1 s2, (I.mem pol s1 ∧ ¬ J.mem pol s1) ∧ (I.mem pol s2 ∧ ¬ J.mem pol s2) ∧ s1 ≤ c ∧ c ≤ s2 :=
  ⟨fun h => differenceAssign_subset_hull hso hI hJ h,
   fun ⟨s1, s2, h1, h2, hc1, hc2⟩ => differenceAssign_hull_subset Rounding.id_sound h1 h2 hc1 hc2⟩

example : refineUniversal Policy.rational Rounding.id (Iv.closed 0 2) .ne (Iv.closed 0 (1 / 2))
    = ⟨⟨fin (1 / 2), true⟩, ⟨fin 2, false⟩⟩ := by decide +kernel

/-- Before the repair (KF-C12-5) only coinciding end points were opened: `[0,2]` refined by
"≠ all of `[0,1/2]`" stayed `(0,2]`, which is not the smallest interval containing `(1/2,2]`:
`1/4` is in it but below every member of the difference. -/
theorem refine_universal_ne_before_fix_fails :
    ¬ (∀ (I J : Iv) (c : Rat), (refineUniversalNeBeforeFix Policy.rational I J).mem Policy.rational c →
        ∃ s1 s2, (I.mem Policy.rational s1 ∧ ¬ J.mem Policy.rational s1)
          ∧ (I.mem Policy.rational s2 ∧ ¬ J.mem Policy.rational s2) ∧ s1 ≤ c ∧ c ≤ s2) := by
  intro h
  have hv : refineUniversalNeBeforeFix Policy.rational (Iv.closed 0 2) (Iv.closed 0 (1 / 2))
      = ⟨⟨fin 0, true⟩, ⟨fin 2, false⟩⟩ := by decide +kernel
  obtain ⟨s1, s2, ⟨h1, h1'⟩, _, hc1, _⟩ := h (Iv.closed 0 2) (Iv.closed 0 (1 / 2)) (1 / 4)
    (by rw [hv]; simp [Iv.mem, lowerOk, upperOk, getOpen, Policy.rational]; norm_num)
  simp only [Iv.closed, Iv.mem, lowerOk, upperOk, getOpen, Policy.rational, Bool.and_false,
    lowerOkV_fin_closed, upperOkV_fin_closed, not_and, not_le] at h1 h1'
  have := h1' h1.1
  linarith

/-! ## wrapping (defect 12) -/

/-- `[0,256]` wrapped to unsigned 8 bits inside the quadrant `[0,255]` is computed as `{0}` by the
code as written: `5 ∈ [0,256]` wraps to `5 ∈ [0,255]`, which is lost. -/
theorem wrap_encloses_fails :
    ¬ (∀ (I ref : Iv) (a : Int), I.mem Policy.rational (a : Rat) →
        ref.mem Policy.rational (umod2exp (a : Rat) 8) →
        (wrapAssign true Policy.rational Rounding.id I 8 .unsigned ref).mem Policy.rational (umod2exp (a : Rat) 8)) := by
  intro h
  have hv : wrapAssign true Policy.rational Rounding.id ⟨⟨fin 0, false⟩, ⟨fin 256, false⟩⟩ 8 .unsigned
      ⟨⟨fin 0, false⟩, ⟨fin 255, false⟩⟩ = ⟨⟨fin 0, false⟩, ⟨fin 0, false⟩⟩ := by decide +kernel
  have hm : umod2exp ((5 : Int) : Rat) 8 = 5 := by decide +kernel
  have := h ⟨⟨fin 0, false⟩, ⟨fin 256, false⟩⟩ ⟨⟨fin 0, false⟩, ⟨fin 255, false⟩⟩ 5
    (by simp [Iv.mem, lowerOk, upperOk, getOpen, Policy.rational] <;> norm_num)
    (by rw [hm]; simp [Iv.mem, lowerOk, upperOk, getOpen, Policy.rational] <;> norm_num)
  rw [hv, hm] at this
  simp [Iv.mem, lowerOk, upperOk, getOpen, Policy.rational] at this
  norm_num at this

/-- with the test repaired (`u ≥ lower`) the same input gives the whole quadrant -/
example : wrapAssign false Policy.rational Rounding.id ⟨⟨fin 0, false⟩, ⟨fin 256, false⟩⟩ 8 .unsigned
    ⟨⟨fin 0, false⟩, ⟨fin 255, false⟩⟩ = ⟨⟨fin 0, false⟩, ⟨fin 255, false⟩⟩ := by decide +kernel

/-- The code as written, exact rounding, every policy, both representations: if the width of the
interval is not exactly `2^w`, the residue of every (rational) member that lies in the refinement
is in the result.  (`_partial`: the missing case is exactly width `= 2^w`, where
`wrap_encloses_fails` shows the clause is false; with the test repaired (`d12 = false`) the
side condition is not needed: `wrap_encloses_repaired`.) -/
theorem wrap_encloses_partial (pol : Policy) (I ref : Iv) (w : Nat) (r : Repn) (a : Rat)
    (hne : ∀ l h, I.lo.value = fin l → I.hi.value = fin h → h - l ≠ (2 : Rat) ^ w)
    (ha : I.mem pol a) (hr : ref.mem pol (wrapVal r w a)) :
    (wrapAssign true pol Rounding.id I w r ref).mem pol (wrapVal r w a) :=
  wrapAssign_encloses_asWritten hne ha hr

theorem wrap_encloses_repaired (pol : Policy) (I ref : Iv) (w : Nat) (r : Repn) (a : Rat)
    (ha : I.mem pol a) (hr : ref.mem pol (wrapVal r w a)) :
    (wrapAssign false pol Rounding.id I w r ref).mem pol (wrapVal r w a) :=
  wrapAssign_encloses ha hr

/-- non-vacuity: `[250,260]` wrapped to unsigned 8 bits is `[0,4] ∪ [250,255]`, hull `[0,255]` -/
example : wrapAssign true Policy.rational Rounding.id ⟨⟨fin 250, false⟩, ⟨fin 260, false⟩⟩ 8 .unsigned
    ⟨⟨fin 0, false⟩, ⟨fin 255, false⟩⟩ = ⟨⟨fin 0, false⟩, ⟨fin 255, false⟩⟩ := by decide +kernel

end C12
