import PPLV.Interval.Model
namespace C12
open PPLV.Interval
open PPLV.Interval.ExtRat (ninf fin pinf)

/-- defect 3 witness: `(−1,2]·[−3,1)` as written is `(−6,3)` -/
theorem mul_witness_value :
    mulAssign true Policy.rational Rounding.id ⟨⟨fin (-1), true⟩, ⟨fin 2, false⟩⟩ ⟨⟨fin (-3), false⟩, ⟨fin 1, true⟩⟩
      = ⟨⟨fin (-6), true⟩, ⟨fin 3, true⟩⟩ := by decide +kernel
end C12
