import PPLV.Widen.ImplShapeProofsContains2
import PPLV.Widen.ImplShapeProofsRank
import PPLV.Widen.ImplShapeProofsFinite
import PPLV.Widen.ImplShapeProofsLimEx
/-!
# C08 stage 2 — the widenings of the weakly-relational domains AS CODED (property theorems only)

Model: `PPLV/Widen/ImplShape.lean` (code-shaped transliteration of `BD_Shape_templates.hh:3086-3380`,
`Octagonal_Shape_templates.hh:3842-4160`, `Box_templates.hh:4186-4310`), tied to the real library by
`harness/c08_impl_shape.cc` + `Driver/WidenImplShape.lean` (identical matrices, flags, tokens, limiting shapes).
An object is its raw matrix plus status flags (`BDS`, `OCS`, `BoxS`); `BDS.γ`, `OCS.γ`, `BoxS.γ` are the points it
denotes; `up` is the rounding of the bound type (`upId`: `mpq_class`, `upCeil`: `mpz_class`), `hup : ∀ q, fin q ≤ up q`.

Sections: (1) the result contains the larger argument (CC76, BHMZ05, tokens); (2) stabilisation at the matrix level
(CC76: rank; BHMZ05: finite-cell count, chaining under the Larsen-minimality hypothesis that the driver checks on every
real step); (3) limited extrapolations: between the larger argument and the plain widening, which supplied constraints
are kept, and the clauses the code as written does not guarantee (`…_fails`).
-/
namespace C08
open PPLV.Widen PPLV.WR PPLV.WR.ExtRat

/-! ### p1 — the shape widenings return an object that contains the receiver (whole modelled functions)

Proofs: `PPLV/Widen/ImplShapeProofsClose.lean` (the flag-guarded closures), `ImplShapeProofsContains.lean` (CC76),
`ImplShapeProofsContains2.lean` (BHMZ05, the concrete instances `ContainsEx.*`). -/

/-- `BD_Shape<T>::CC76_extrapolation_assign(y, first, last, tp)` (`/repo/src/BD_Shape_templates.hh:3086`), the whole
function as modelled by `bdCC76` (closure of `*this` and of `y`, the emptiness exits, the token branch, the two
loops `:3133-3153`): every point of the receiver is a point of the returned receiver, for every rounding `up` with
`fin q ≤ up q`, every list of stop points, every token state, and any `y` whatsoever (no invariant on `y`, no
`y ⊆ x` needed). -/
theorem bd_cc76_contains_x {up : Rat → ExtRat} (hup : ∀ q, fin q ≤ up q) (n : Nat) (stops : List Rat)
    (X Y : BDS) (tp : Option Nat) (hX : BDS.WF n X) :
    ∀ p, BDS.γ n X p → BDS.γ n (bdCC76 up n stops X Y tp).1 p :=
  PPLV.Widen.bd_cc76_contains_x hup n stops X Y tp hX

example : BDS.γ 1 (bdCC76 upId 1 defaultStops ContainsEx.bdX ContainsEx.bdY none).1 ContainsEx.pt :=
  C08.bd_cc76_contains_x upId_sound 1 defaultStops _ _ none ContainsEx.bdX_WF _ ContainsEx.bdX_γ
/-- on this instance the widening does move a bound: `x₀ ≤ 3/2` becomes `x₀ ≤ 2` (the next stop point) -/
example : (bdCC76 upId 1 defaultStops ContainsEx.bdX ContainsEx.bdY none).1.dbm 0 1 = fin 2 := by decide +kernel

/-- the entrywise form on what the two loops (`BD_Shape_templates.hh:3133-3153`) see: no cell decreases -/
theorem bd_cc76_contains_x_entrywise {up : Rat → ExtRat} (hup : ∀ q, fin q ≤ up q) (n : Nat) (stops : List Rat) :
    ∀ x y : Mat, bdLE n x (bdCC76Loops up stops n x y) :=
  fun x y => PPLV.Widen.bdCC76Loops_ge hup stops n x y

example : bdLE 1 ContainsEx.bdX.dbm (bdCC76Loops upId defaultStops 1 ContainsEx.bdX.dbm ContainsEx.bdY.dbm) :=
  C08.bd_cc76_contains_x_entrywise upId_sound 1 defaultStops _ _

/-- hence, under the precondition `y ⊆ x` of the widening (`:3086`), the result contains `y` -/
theorem bd_cc76_contains_y {up : Rat → ExtRat} (hup : ∀ q, fin q ≤ up q) (n : Nat) (stops : List Rat)
    (X Y : BDS) (tp : Option Nat) (hX : BDS.WF n X) (hyx : ∀ p, BDS.γ n Y p → BDS.γ n X p) :
    ∀ p, BDS.γ n Y p → BDS.γ n (bdCC76 up n stops X Y tp).1 p :=
  PPLV.Widen.bd_cc76_contains_y hup n stops X Y tp hX hyx

example : BDS.γ 1 (bdCC76 upId 1 defaultStops ContainsEx.bdX ContainsEx.bdY none).1 ContainsEx.pt :=
  C08.bd_cc76_contains_y upId_sound 1 defaultStops _ _ none ContainsEx.bdX_WF ContainsEx.bdY_sub_bdX _
    ContainsEx.bdY_γ

/-- the `const` argument `y` that `CC76_extrapolation_assign` closes through `const_cast` (`:3105`) keeps exactly
its points -/
theorem bd_cc76_y_unchanged {up : Rat → ExtRat} (hup : ∀ q, fin q ≤ up q) (n : Nat) (stops : List Rat)
    (X Y : BDS) (tp : Option Nat) (hY : BDS.WF n Y) :
    ∀ p, BDS.γ n (bdCC76 up n stops X Y tp).2.1 p ↔ BDS.γ n Y p :=
  PPLV.Widen.bd_cc76_y_γ hup n stops X Y tp hY

example : BDS.γ 1 (bdCC76 upId 1 defaultStops ContainsEx.bdX ContainsEx.bdY none).2.1 ContainsEx.pt :=
  (C08.bd_cc76_y_unchanged upId_sound 1 defaultStops _ _ none ContainsEx.bdY_WF _).2 ContainsEx.bdY_γ

/-- the token protocol of `BD_Shape::CC76_extrapolation_assign` (`BD_Shape_templates.hh:3113-3122`): with a positive
token count the receiver is only closed, and the count stays or drops by one; with `nullptr` or `0` the count is
untouched -/
theorem bd_cc76_token (up : Rat → ExtRat) (n : Nat) (stops : List Rat) (X Y : BDS) :
    (∀ t, 0 < t →
      (bdCC76 up n stops X Y (some t)).1 = bdClosureAssign up n X
      ∧ ((bdCC76 up n stops X Y (some t)).2.2 = some t ∨ (bdCC76 up n stops X Y (some t)).2.2 = some (t - 1)))
    ∧ (∀ tp, tp = none ∨ tp = some 0 → (bdCC76 up n stops X Y tp).2.2 = tp) :=
  ⟨fun t ht => PPLV.Widen.bd_cc76_token up n stops X Y t ht,
   fun tp h => PPLV.Widen.bd_cc76_no_token up n stops X Y tp h⟩

/-- the widening above is not precise: the one token is used -/
example : (bdCC76 upId 1 defaultStops ContainsEx.bdX ContainsEx.bdY (some 1)).2.2 = some 0 := by decide +kernel

/-- `Octagonal_Shape<T>::CC76_extrapolation_assign(y, first, last, tp)`
(`/repo/src/Octagonal_Shape_templates.hh:3842`), the whole function as modelled by `octCC76` (strong closures, the
emptiness exits, the token branch, the element loop `:3890-3909`): every point of the receiver is a point of the
returned receiver -/
theorem oct_cc76_contains_x {up : Rat → ExtRat} (hup : ∀ q, fin q ≤ up q) (n : Nat) (stops : List Rat)
    (X Y : OCS) (tp : Option Nat) (hX : OCS.WF n X) :
    ∀ p, OCS.γ n X p → OCS.γ n (octCC76 up n stops X Y tp).1 p :=
  PPLV.Widen.oct_cc76_contains_x hup n stops X Y tp hX

example : OCS.γ 1 (octCC76 upId 1 defaultStops ContainsEx.octX ContainsEx.octY none).1 ContainsEx.pt :=
  C08.oct_cc76_contains_x upId_sound 1 defaultStops _ _ none ContainsEx.octX_WF _ ContainsEx.octX_γ
/-- on this instance `2x₀ ≤ 3` is lost altogether (`3` is beyond the last stop point `2`) -/
example : (octCC76 upId 1 defaultStops ContainsEx.octX ContainsEx.octY none).1.mat 1 0 = pinf := by decide +kernel

/-- the entrywise form on what the element loop (`Octagonal_Shape_templates.hh:3890-3909`) sees -/
theorem oct_cc76_contains_x_entrywise {up : Rat → ExtRat} (hup : ∀ q, fin q ≤ up q) (n : Nat) (stops : List Rat) :
    ∀ x y : Mat, octLE n x (octCC76Loops up stops n x y) :=
  fun x y => PPLV.Widen.octCC76Loops_ge hup stops n x y

example : octLE 1 ContainsEx.octX.mat (octCC76Loops upId defaultStops 1 ContainsEx.octX.mat ContainsEx.octY.mat) :=
  C08.oct_cc76_contains_x_entrywise upId_sound 1 defaultStops _ _

/-- hence, under the precondition `y ⊆ x`, the result contains `y` -/
theorem oct_cc76_contains_y {up : Rat → ExtRat} (hup : ∀ q, fin q ≤ up q) (n : Nat) (stops : List Rat)
    (X Y : OCS) (tp : Option Nat) (hX : OCS.WF n X) (hyx : ∀ p, OCS.γ n Y p → OCS.γ n X p) :
    ∀ p, OCS.γ n Y p → OCS.γ n (octCC76 up n stops X Y tp).1 p :=
  PPLV.Widen.oct_cc76_contains_y hup n stops X Y tp hX hyx

example : OCS.γ 1 (octCC76 upId 1 defaultStops ContainsEx.octX ContainsEx.octY none).1 ContainsEx.pt :=
  C08.oct_cc76_contains_y upId_sound 1 defaultStops _ _ none ContainsEx.octX_WF ContainsEx.octY_sub_octX _
    ContainsEx.octY_γ

/-- the strongly closed `y` (`const_cast`, `:3862`) keeps exactly its points -/
theorem oct_cc76_y_unchanged {up : Rat → ExtRat} (hup : ∀ q, fin q ≤ up q) (n : Nat) (stops : List Rat)
    (X Y : OCS) (tp : Option Nat) (hY : OCS.WF n Y) :
    ∀ p, OCS.γ n (octCC76 up n stops X Y tp).2.1 p ↔ OCS.γ n Y p :=
  PPLV.Widen.oct_cc76_y_γ hup n stops X Y tp hY

example : OCS.γ 1 (octCC76 upId 1 defaultStops ContainsEx.octX ContainsEx.octY none).2.1 ContainsEx.pt :=
  (C08.oct_cc76_y_unchanged upId_sound 1 defaultStops _ _ none ContainsEx.octY_WF _).2 ContainsEx.octY_γ

/-- the token protocol of `Octagonal_Shape::CC76_extrapolation_assign` (`Octagonal_Shape_templates.hh:3870-3879`) -/
theorem oct_cc76_token (up : Rat → ExtRat) (n : Nat) (stops : List Rat) (X Y : OCS) :
    (∀ t, 0 < t →
      (octCC76 up n stops X Y (some t)).1 = octClosureAssign up n X
      ∧ ((octCC76 up n stops X Y (some t)).2.2 = some t ∨ (octCC76 up n stops X Y (some t)).2.2 = some (t - 1)))
    ∧ (∀ tp, tp = none ∨ tp = some 0 → (octCC76 up n stops X Y tp).2.2 = tp) :=
  ⟨fun t ht => PPLV.Widen.oct_cc76_token up n stops X Y t ht,
   fun tp h => PPLV.Widen.oct_cc76_no_token up n stops X Y tp h⟩

example : (octCC76 upId 1 defaultStops ContainsEx.octX ContainsEx.octY (some 2)).2.2 = some 1 := by decide +kernel

/-- `Box<ITV>::CC76_widening_assign(y, tp)` (`/repo/src/Box_templates.hh:4207`) and
`CC76_widening_assign(y, first, last)` (`:4186`) for rational boundaries: every point of the receiver is a point of
the result (componentwise `cc76_sup`); no hypothesis on `y` -/
theorem box_cc76_contains_x (stops : List Rat) (x y : BoxS) (tp : Option Nat) :
    ∀ p, BoxS.γ x p → BoxS.γ (boxCC76 x y tp).1 p ∧ BoxS.γ (boxCC76Stops stops x y) p :=
  fun p hp => ⟨PPLV.Widen.box_cc76_contains_x x y tp p hp, PPLV.Widen.box_cc76_stops_contains_x stops x y p hp⟩

example : BoxS.γ (boxCC76 ContainsEx.boxX ContainsEx.boxY none).1 ContainsEx.pt :=
  (C08.box_cc76_contains_x defaultStops _ _ none _ ContainsEx.boxX_γ).1
/-- on this instance the upper boundary `3/2` moves to the stop point `2` -/
example : (boxCC76 ContainsEx.boxX ContainsEx.boxY none).1.seq = [⟨some 0, false, some 2, false⟩] := by
  decide +kernel

/-- the space dimension is kept (`x.space_dimension() == y.space_dimension()` is checked at `:4217`) -/
theorem box_cc76_dimension (stops : List Rat) (x y : BoxS) (h : x.seq.length = y.seq.length) :
    (boxCC76Stops stops x y).seq.length = x.seq.length :=
  PPLV.Widen.boxCC76Stops_length stops x y h

example : (boxCC76Stops defaultStops ContainsEx.boxX ContainsEx.boxY).seq.length = 1 :=
  C08.box_cc76_dimension defaultStops _ _ rfl

/-- hence, under the precondition `y ⊆ x`, the result contains `y` -/
theorem box_cc76_contains_y (stops : List Rat) (x y : BoxS) (tp : Option Nat)
    (hyx : ∀ p, BoxS.γ y p → BoxS.γ x p) :
    ∀ p, BoxS.γ y p → BoxS.γ (boxCC76 x y tp).1 p ∧ BoxS.γ (boxCC76Stops stops x y) p :=
  fun p hp => C08.box_cc76_contains_x stops x y tp p (hyx p hp)

example : BoxS.γ (boxCC76 ContainsEx.boxX ContainsEx.boxY none).1 ContainsEx.pt :=
  (C08.box_cc76_contains_y defaultStops _ _ none ContainsEx.boxY_sub_boxX _ ContainsEx.boxY_γ).1

/-- the token protocol of `Box::CC76_widening_assign(y, tp)` (`Box_templates.hh:4221-4230`) -/
theorem box_cc76_token (x y : BoxS) :
    (∀ t, 0 < t → (boxCC76 x y (some t)).1 = x
      ∧ ((boxCC76 x y (some t)).2 = some t ∨ (boxCC76 x y (some t)).2 = some (t - 1)))
    ∧ (∀ tp, tp = none ∨ tp = some 0 → (boxCC76 x y tp).2 = tp) :=
  ⟨fun t ht => PPLV.Widen.box_cc76_token x y t ht, fun tp h => PPLV.Widen.box_cc76_no_token x y tp h⟩

example : (boxCC76 ContainsEx.boxX ContainsEx.boxY (some 1)).2 = some 0 := by decide +kernel

/-- `BD_Shape<T>::BHMZ05_widening_assign(y, tp)` (`/repo/src/BD_Shape_templates.hh:3272`), the whole function as
modelled by `bdBHMZ05` (the two `affine_dimension()` calls with their closures, the exits, the reduction of `y`,
the token branch, the loops `:3312-3326`): whenever the function returns (`none` = a predecessor walk of the
reduction ran out of fuel), every point of the receiver is a point of the returned receiver -/
theorem bd_bhmz05_contains_x {up : Rat → ExtRat} (hup : ∀ q, fin q ≤ up q) (n : Nat) (X Y : BDS) (tp : Option Nat)
    {X' Y' : BDS} {tp' : Option Nat} (h : bdBHMZ05 up n X Y tp = some (X', Y', tp')) (hX : BDS.WF n X) :
    ∀ p, BDS.γ n X p → BDS.γ n X' p :=
  PPLV.Widen.bd_bhmz05_contains_x hup n X Y tp h hX

example : ∃ r, bdBHMZ05 upId 1 ContainsEx.bdX ContainsEx.bdY none = some r ∧ BDS.γ 1 r.1 ContainsEx.pt := by
  have hs : (bdBHMZ05 upId 1 ContainsEx.bdX ContainsEx.bdY none).isSome = true := by decide +kernel
  obtain ⟨⟨X', Y', tp'⟩, h⟩ := Option.isSome_iff_exists.1 hs
  exact ⟨_, h, C08.bd_bhmz05_contains_x upId_sound 1 _ _ none h ContainsEx.bdX_WF _ ContainsEx.bdX_γ⟩
/-- on this instance the loops are reached and `x₀ ≤ 3/2` is dropped -/
example : ((bdBHMZ05 upId 1 ContainsEx.bdX ContainsEx.bdY none).map fun r => r.1.dbm 0 1) = some pinf := by
  decide +kernel

/-- the entrywise form on what the loops (`BD_Shape_templates.hh:3312-3326`) see: a cell is kept or set to `+∞` -/
theorem bd_bhmz05_contains_x_entrywise (n : Nat) :
    ∀ (x y : Mat) (y_redundancy : BMat), bdLE n x (bdBHMZ05Loops n x y y_redundancy) :=
  fun x y r => PPLV.Widen.bdBHMZ05Loops_ge n x y r

example : bdLE 1 ContainsEx.bdX.dbm (bdBHMZ05Loops 1 ContainsEx.bdX.dbm ContainsEx.bdY.dbm (BMat.const false)) :=
  C08.bd_bhmz05_contains_x_entrywise 1 _ _ _

/-- hence, under the precondition `y ⊆ x`, the result contains `y` -/
theorem bd_bhmz05_contains_y {up : Rat → ExtRat} (hup : ∀ q, fin q ≤ up q) (n : Nat) (X Y : BDS) (tp : Option Nat)
    {X' Y' : BDS} {tp' : Option Nat} (h : bdBHMZ05 up n X Y tp = some (X', Y', tp')) (hX : BDS.WF n X)
    (hyx : ∀ p, BDS.γ n Y p → BDS.γ n X p) :
    ∀ p, BDS.γ n Y p → BDS.γ n X' p :=
  PPLV.Widen.bd_bhmz05_contains_y hup n X Y tp h hX hyx

example : ∃ r, bdBHMZ05 upId 1 ContainsEx.bdX ContainsEx.bdY none = some r ∧ BDS.γ 1 r.1 ContainsEx.pt := by
  have hs : (bdBHMZ05 upId 1 ContainsEx.bdX ContainsEx.bdY none).isSome = true := by decide +kernel
  obtain ⟨⟨X', Y', tp'⟩, h⟩ := Option.isSome_iff_exists.1 hs
  exact ⟨_, h, C08.bd_bhmz05_contains_y upId_sound 1 _ _ none h ContainsEx.bdX_WF ContainsEx.bdY_sub_bdX _
    ContainsEx.bdY_γ⟩

/-- the `const` argument `y` that `BHMZ05_widening_assign` closes and reduces (`:3279`, `:3309`) keeps exactly its
points -/
theorem bd_bhmz05_y_unchanged {up : Rat → ExtRat} (hup : ∀ q, fin q ≤ up q) (n : Nat) (X Y : BDS) (tp : Option Nat)
    {X' Y' : BDS} {tp' : Option Nat} (h : bdBHMZ05 up n X Y tp = some (X', Y', tp')) (hY : BDS.WF n Y) :
    ∀ p, BDS.γ n Y' p ↔ BDS.γ n Y p :=
  PPLV.Widen.bd_bhmz05_y_γ hup n X Y tp h hY

example : ∃ r, bdBHMZ05 upId 1 ContainsEx.bdX ContainsEx.bdY none = some r ∧ BDS.γ 1 r.2.1 ContainsEx.pt := by
  have hs : (bdBHMZ05 upId 1 ContainsEx.bdX ContainsEx.bdY none).isSome = true := by decide +kernel
  obtain ⟨⟨X', Y', tp'⟩, h⟩ := Option.isSome_iff_exists.1 hs
  exact ⟨_, h, (C08.bd_bhmz05_y_unchanged upId_sound 1 _ _ none h ContainsEx.bdY_WF _).2 ContainsEx.bdY_γ⟩

/-- the token protocol of `BD_Shape::BHMZ05_widening_assign` (`BD_Shape_templates.hh:3297-3306`): with a positive
count the receiver is untouched or only closed, the count stays or drops by one; with `nullptr` or `0` the count
is untouched -/
theorem bd_bhmz05_token (up : Rat → ExtRat) (n : Nat) (X Y : BDS) (tp : Option Nat)
    {X' Y' : BDS} {tp' : Option Nat} (h : bdBHMZ05 up n X Y tp = some (X', Y', tp')) :
    (∀ t, 0 < t → tp = some t →
      (X' = X ∨ X' = bdClosureAssign up n X) ∧ (tp' = some t ∨ tp' = some (t - 1)))
    ∧ (tp = none ∨ tp = some 0 → tp' = tp) :=
  ⟨fun t ht e => by subst e; exact PPLV.Widen.bd_bhmz05_token up n X Y t ht h,
   fun e => PPLV.Widen.bd_bhmz05_no_token up n X Y tp e h⟩

example : ((bdBHMZ05 upId 1 ContainsEx.bdX ContainsEx.bdY (some 1)).map fun r => r.2.2) = some (some 0) := by
  decide +kernel

/-- `Octagonal_Shape<T>::BHMZ05_widening_assign(y, tp)` (`/repo/src/Octagonal_Shape_templates.hh:4055`), the whole
function as modelled by `octBHMZ05`: whenever the function returns, every point of the receiver is a point of the
returned receiver -/
theorem oct_bhmz05_contains_x {up : Rat → ExtRat} (hup : ∀ q, fin q ≤ up q) (n : Nat) (X Y : OCS) (tp : Option Nat)
    {X' Y' : OCS} {tp' : Option Nat} (h : octBHMZ05 up n X Y tp = some (X', Y', tp')) (hX : OCS.WF n X) :
    ∀ p, OCS.γ n X p → OCS.γ n X' p :=
  PPLV.Widen.oct_bhmz05_contains_x hup n X Y tp h hX

example : ∃ r, octBHMZ05 upId 1 ContainsEx.octX ContainsEx.octY none = some r ∧ OCS.γ 1 r.1 ContainsEx.pt := by
  have hs : (octBHMZ05 upId 1 ContainsEx.octX ContainsEx.octY none).isSome = true := by decide +kernel
  obtain ⟨⟨X', Y', tp'⟩, h⟩ := Option.isSome_iff_exists.1 hs
  exact ⟨_, h, C08.oct_bhmz05_contains_x upId_sound 1 _ _ none h ContainsEx.octX_WF _ ContainsEx.octX_γ⟩
/-- on this instance the loop is reached and `2x₀ ≤ 3` is dropped -/
example : ((octBHMZ05 upId 1 ContainsEx.octX ContainsEx.octY none).map fun r => r.1.mat 1 0) = some pinf := by
  decide +kernel

/-- the entrywise form on what the element loop (`Octagonal_Shape_templates.hh:4092-4104`) sees -/
theorem oct_bhmz05_contains_x_entrywise (n : Nat) : ∀ x y : Mat, octLE n x (octBHMZ05Loops n x y) :=
  fun x y => PPLV.Widen.octBHMZ05Loops_ge n x y

example : octLE 1 ContainsEx.octX.mat (octBHMZ05Loops 1 ContainsEx.octX.mat ContainsEx.octY.mat) :=
  C08.oct_bhmz05_contains_x_entrywise 1 _ _

/-- hence, under the precondition `y ⊆ x`, the result contains `y` -/
theorem oct_bhmz05_contains_y {up : Rat → ExtRat} (hup : ∀ q, fin q ≤ up q) (n : Nat) (X Y : OCS) (tp : Option Nat)
    {X' Y' : OCS} {tp' : Option Nat} (h : octBHMZ05 up n X Y tp = some (X', Y', tp')) (hX : OCS.WF n X)
    (hyx : ∀ p, OCS.γ n Y p → OCS.γ n X p) :
    ∀ p, OCS.γ n Y p → OCS.γ n X' p :=
  PPLV.Widen.oct_bhmz05_contains_y hup n X Y tp h hX hyx

example : ∃ r, octBHMZ05 upId 1 ContainsEx.octX ContainsEx.octY none = some r ∧ OCS.γ 1 r.1 ContainsEx.pt := by
  have hs : (octBHMZ05 upId 1 ContainsEx.octX ContainsEx.octY none).isSome = true := by decide +kernel
  obtain ⟨⟨X', Y', tp'⟩, h⟩ := Option.isSome_iff_exists.1 hs
  exact ⟨_, h, C08.oct_bhmz05_contains_y upId_sound 1 _ _ none h ContainsEx.octX_WF ContainsEx.octY_sub_octX _
    ContainsEx.octY_γ⟩

/-- the token protocol of `Octagonal_Shape::BHMZ05_widening_assign` (`Octagonal_Shape_templates.hh:4081-4090`) -/
theorem oct_bhmz05_token (up : Rat → ExtRat) (n : Nat) (X Y : OCS) (tp : Option Nat)
    {X' Y' : OCS} {tp' : Option Nat} (h : octBHMZ05 up n X Y tp = some (X', Y', tp')) :
    (∀ t, 0 < t → tp = some t →
      (X' = X ∨ X' = octClosureAssign up n X) ∧ (tp' = some t ∨ tp' = some (t - 1)))
    ∧ (tp = none ∨ tp = some 0 → tp' = tp) :=
  ⟨fun t ht e => by subst e; exact PPLV.Widen.oct_bhmz05_token up n X Y t ht h,
   fun e => PPLV.Widen.oct_bhmz05_no_token up n X Y tp e h⟩

example : ((octBHMZ05 upId 1 ContainsEx.octX ContainsEx.octY (some 1)).map fun r => r.2.2) = some (some 0) := by
  decide +kernel

/-! ### C08 stage 2 (p2) — stabilisation of the shape widenings at the matrix level -/

/-- **CC76 loops of `BD_Shape` stabilise (matrix level).**  For every list of stop points (sorted or not — the
model's `lower_bound` is `takeWhile`), every start matrix `y0` and every adversary `z` whose larger argument is
cellwise at least the previous iterate, the sequence `Y 0 = y0`, `Y (k+1) = bdCC76Loops up stops n (z k (Y k)) (Y k)`
is eventually stationary on the cells `i, j ≤ n`.  Measure: `bdRank` = sum over the cells of `cellRank` (`0` at `+∞`,
else one plus the number of stop points strictly above the cell); a cell that extrapolates strictly loses rank
(`cc76Cell_rank_step`).  HONEST SCOPE: this is the matrix-level operator; the real
`BD_Shape::CC76_extrapolation_assign` re-closes both arguments (`shortest_path_closure_assign`) before the loops,
so the iterates of the real function are `cc76(closure(x_k), closure(y_k))` and closure can lower cells again
(`bd_cc76_closure_undoes_progress`) — which is why PPL calls CC76 on shapes an *extrapolation*. -/
theorem bd_cc76_chain_stabilises {up : Rat → ExtRat} (hup : ∀ q, fin q ≤ up q) (stops : List Rat) (n : Nat)
    (y0 : Mat) (z : Nat → Mat → Mat) (hz : ∀ k m, bdLE n m (z k m)) :
    ∃ N, ∀ k, k ≥ N → ∀ i j, i ≤ n → j ≤ n →
      advSeq (fun x y => bdCC76Loops up stops n x y) y0 z (k + 1) i j
        = advSeq (fun x y => bdCC76Loops up stops n x y) y0 z k i j :=
  PPLV.Widen.bd_cc76_chain_stabilises hup stops n y0 z hz

-- non-vacuity: an adversary that forces an extrapolation at every step (every finite cell grows by one) …
example : ∃ N, ∀ k, k ≥ N → ∀ i j, i ≤ 1 → j ≤ 1 →
    advSeq (fun x y => bdCC76Loops upId defaultStops 1 x y) exY1 (fun _ m => matBump m) (k + 1) i j
      = advSeq (fun x y => bdCC76Loops upId defaultStops 1 x y) exY1 (fun _ m => matBump m) k i j :=
  bd_cc76_chain_stabilises upId_sound defaultStops 1 exY1 (fun _ m => matBump m) (fun _ m => bdLE_matBump 1 m)
-- … the constant adversary is admissible too, and a real step strictly decreases the rank (`x₀ ≤ 1/2` becomes `x₀ ≤ 1`)
example : ∀ (k : Nat) (m : Mat), bdLE 1 m ((fun (_ : Nat) (m : Mat) => m) k m) := fun _ m i j _ _ => le_rfl' (m i j)
example : bdRank defaultStops 1 (bdCC76Loops upId defaultStops 1 exX1 exY1) < bdRank defaultStops 1 exY1
    ∧ bdCC76Loops upId defaultStops 1 exX1 exY1 0 1 = fin 1 := by decide +kernel

/-- **CC76 element loop of `Octagonal_Shape` stabilises (matrix level, stored cells `i < 2n`, `j < row_size(i)`).**
Same statement and measure (`octRank`) as for `BD_Shape`; same scope: the real function applies
`strong_closure_assign` to both arguments before the loop. -/
theorem oct_cc76_chain_stabilises {up : Rat → ExtRat} (hup : ∀ q, fin q ≤ up q) (stops : List Rat) (n : Nat)
    (y0 : Mat) (z : Nat → Mat → Mat) (hz : ∀ k m, octLE n m (z k m)) :
    ∃ N, ∀ k, k ≥ N → ∀ i j, i < 2 * n → j < rowSize i →
      advSeq (fun x y => octCC76Loops up stops n x y) y0 z (k + 1) i j
        = advSeq (fun x y => octCC76Loops up stops n x y) y0 z k i j :=
  PPLV.Widen.oct_cc76_chain_stabilises hup stops n y0 z hz

example : ∃ N, ∀ k, k ≥ N → ∀ i j, i < 2 * 1 → j < rowSize i →
    advSeq (fun x y => octCC76Loops upId defaultStops 1 x y) exY1 (fun _ m => matBump m) (k + 1) i j
      = advSeq (fun x y => octCC76Loops upId defaultStops 1 x y) exY1 (fun _ m => matBump m) k i j :=
  oct_cc76_chain_stabilises upId_sound defaultStops 1 exY1 (fun _ m => matBump m) (fun _ m => octLE_matBump 1 m)
example : octRank defaultStops 1 (octCC76Loops upId defaultStops 1 exX1 exY1) < octRank defaultStops 1 exY1
    ∧ octCC76Loops upId defaultStops 1 exX1 exY1 0 1 = fin 1 := by decide +kernel

/-- **`Box::CC76_widening_assign(y, first, last)` stabilises** — the product of the interval result
(`cc76_rank_step`, measure `boxRank` = sum of `Itv.rank`): against every adversary supplying a larger argument that
contains the previous iterate on the boundaries (`List.Forall₂ Itv.LE`: same length, componentwise the method's
precondition `contains(y)`), the iterated `zipWith (Itv.cc76 stops)` eventually returns the boundaries of the
previous iterate (`Itv.Same`, hence the same points: `forall₂_same_mem_iff`).  No closure is involved for boxes:
this IS the function (minus the `y.is_empty()` guard of `BoxM.cc76`). -/
theorem box_cc76_chain_stabilises (stops : List Rat) (b0 : BoxM) (z : Nat → BoxM → BoxM)
    (hz : ∀ k b, List.Forall₂ Itv.LE b (z k b)) :
    ∃ N, ∀ k, k ≥ N →
      List.Forall₂ Itv.Same (advSeq (fun x y => List.zipWith (Itv.cc76 stops) x y) b0 z (k + 1))
        (advSeq (fun x y => List.zipWith (Itv.cc76 stops) x y) b0 z k) :=
  PPLV.Widen.box_cc76_chain_stabilises stops b0 z hz

-- non-vacuity: the adversary that moves every finite upper boundary up by one, on `[0, 0] × [0, 1/2)`
example : ∃ N, ∀ k, k ≥ N →
    List.Forall₂ Itv.Same
      (advSeq (fun x y => List.zipWith (Itv.cc76 defaultStops) x y)
        [⟨some 0, false, some 0, false⟩, ⟨some 0, false, some (1/2), true⟩] (fun _ b => boxBump b) (k + 1))
      (advSeq (fun x y => List.zipWith (Itv.cc76 defaultStops) x y)
        [⟨some 0, false, some 0, false⟩, ⟨some 0, false, some (1/2), true⟩] (fun _ b => boxBump b) k) :=
  box_cc76_chain_stabilises defaultStops _ (fun _ b => boxBump b) (fun _ b => forall₂_LE_boxBump b)
example : boxRank defaultStops (List.zipWith (Itv.cc76 defaultStops) (boxBump [⟨some 0, false, some 0, false⟩])
    [⟨some 0, false, some 0, false⟩]) < boxRank defaultStops [⟨some 0, false, some 0, false⟩] := by decide +kernel

/-- **Closure undoes the progress of a CC76 step** (dimension 2, exact arithmetic, the static stop points
`-2 … 2`): `exX2`, `exY2` are closed and `exY2 ≤ exX2`; the loops raise the cell `x₁ ≤ 1/2` to the stop point `1`
(cell rank `3 → 2`); `shortest_path_closure_assign` of the result brings it back to `1/2` (rank `3` again, yet the
cell is not the one of `exY2`).  The measure of `bd_cc76_chain_stabilises` does not survive the closure that the
real function performs between two steps. -/
theorem bd_cc76_closure_undoes_progress :
    ((List.range 3).all fun i => (List.range 3).all fun j =>
        decide ((bdClosureAssign upId 2 { dbm := exX2 }).dbm i j = exX2 i j) &&
        decide ((bdClosureAssign upId 2 { dbm := exY2 }).dbm i j = exY2 i j) &&
        decide (exY2 i j ≤ exX2 i j)) = true ∧
    exY2 0 2 = fin 0 ∧ exX2 0 2 = fin (1/2) ∧ exW2 0 2 = fin 1 ∧ exC2 0 2 = fin (1/2) ∧
    cellRank defaultStops (exW2 0 2) < cellRank defaultStops (exY2 0 2) ∧
    cellRank defaultStops (exC2 0 2) = cellRank defaultStops (exY2 0 2) ∧ exC2 0 2 ≠ exY2 0 2 :=
  PPLV.Widen.bd_cc76_closure_undoes_progress

-- the definitions behind the witness are the model's own functions
example : exW2 = bdCC76Loops upId defaultStops 2 exX2 exY2 ∧ exC2 = (bdClosureAssign upId 2 { dbm := exW2 }).dbm :=
  ⟨rfl, rfl⟩

/-- **The loops of `BD_Shape::BHMZ05_widening_assign`: finite entries only disappear.**  With
`R = bdBHMZ05Loops n x y red` and `bdsReducedMat y red` the reduced `y` (redundant cells replaced by `+∞`):
(1) a finite cell of `R` is a non-redundant cell of `y` equal to the cell of `x`; (2) every cell of `R` is `+∞` or
the cell of the reduced `y`; (3) `R` has at most as many finite cells (`bdFinCount`) as the reduced `y`, and strictly
fewer as soon as it differs from it on one cell. -/
theorem bd_bhmz05_finite_entries_decrease (n : Nat) (x y : Mat) (red : BMat) :
    (∀ i j, i ≤ n → j ≤ n → bdBHMZ05Loops n x y red i j ≠ pinf →
        red i j = false ∧ y i j = x i j ∧ bdBHMZ05Loops n x y red i j = y i j) ∧
    (∀ i j, i ≤ n → j ≤ n →
        bdBHMZ05Loops n x y red i j = pinf ∨ bdBHMZ05Loops n x y red i j = bdsReducedMat y red i j) ∧
    bdFinCount n (bdBHMZ05Loops n x y red) ≤ bdFinCount n (bdsReducedMat y red) ∧
    ((∃ i j, i ≤ n ∧ j ≤ n ∧ bdBHMZ05Loops n x y red i j ≠ bdsReducedMat y red i j) →
        bdFinCount n (bdBHMZ05Loops n x y red) < bdFinCount n (bdsReducedMat y red)) :=
  PPLV.Widen.bd_bhmz05_finite_entries_decrease n x y red

-- non-vacuity: `x₀ ≤ 0` against `x₀ ≤ 1/2` loses the upper bound, the lower bound `-x₀ ≤ 0` survives: 2 finite cells → 1
example : bdFinCount 1 (bdBHMZ05Loops 1 exX1 exY1 (BMat.const false)) = 1
    ∧ bdFinCount 1 (bdsReducedMat exY1 (BMat.const false)) = 2
    ∧ bdBHMZ05Loops 1 exX1 exY1 (BMat.const false) 0 1 ≠ bdsReducedMat exY1 (BMat.const false) 0 1
    ∧ bdBHMZ05Loops 1 exX1 exY1 (BMat.const false) 1 0 = fin 0 := by decide +kernel

/-- **The loop of `Octagonal_Shape::BHMZ05_widening_assign`: finite entries only disappear.**  Here `y` is already
the strongly reduced matrix (`octReducedMat`: its redundant cells hold `+∞`, no bits): a finite stored cell of the
result is the cell of `y` and of `x`; every stored cell of the result is `+∞` or the cell of `y`; the number of finite
stored cells (`octFinCount`) does not increase and strictly decreases as soon as the result differs from `y`. -/
theorem oct_bhmz05_finite_entries_decrease (n : Nat) (x y : Mat) :
    (∀ i j, i < 2 * n → j < rowSize i → octBHMZ05Loops n x y i j ≠ pinf →
        y i j = x i j ∧ octBHMZ05Loops n x y i j = y i j) ∧
    (∀ i j, i < 2 * n → j < rowSize i → octBHMZ05Loops n x y i j = pinf ∨ octBHMZ05Loops n x y i j = y i j) ∧
    octFinCount n (octBHMZ05Loops n x y) ≤ octFinCount n y ∧
    ((∃ i j, i < 2 * n ∧ j < rowSize i ∧ octBHMZ05Loops n x y i j ≠ y i j) →
        octFinCount n (octBHMZ05Loops n x y) < octFinCount n y) :=
  PPLV.Widen.oct_bhmz05_finite_entries_decrease n x y

example : octFinCount 1 (octBHMZ05Loops 1 exX1 exY1) = 1 ∧ octFinCount 1 exY1 = 2
    ∧ octBHMZ05Loops 1 exX1 exY1 0 1 ≠ exY1 0 1 ∧ octBHMZ05Loops 1 exX1 exY1 1 0 = fin 0 := by decide +kernel

/-- **The BHMZ05 iteration on `BD_Shape` is eventually stationary — PARTIAL.**  `Y k` is the closed previous iterate
of step `k`, `Red k` its redundancy bits, `X k` the (arbitrary) larger argument, `R k` the result of the loops; the
real iteration obtains `Y (k+1)`, `Red (k+1)` from `R k` by `shortest_path_closure_assign` +
`shortest_path_reduction_assign`.  EXTRA HYPOTHESIS `hLarsen`, NOT proved (minimality of the shortest-path reduction:
closing and reducing a matrix with `c` finite cells leaves at most `c` finite non-redundant cells); the native driver
checks this inequality on every real step.  Conclusion: from some step on the loops return the reduced previous
iterate on every cell — the iteration is stationary as sets. -/
theorem bd_bhmz05_chain_stabilises_partial (n : Nat) (X Y : Nat → Mat) (Red : Nat → BMat) (R : Nat → Mat)
    (hR : ∀ k, R k = bdBHMZ05Loops n (X k) (Y k) (Red k))
    (hLarsen : ∀ k, bdFinCount n (bdsReducedMat (Y (k + 1)) (Red (k + 1))) ≤ bdFinCount n (R k)) :
    ∃ N, ∀ k, k ≥ N → ∀ i j, i ≤ n → j ≤ n → R k i j = bdsReducedMat (Y k) (Red k) i j :=
  PPLV.Widen.bd_bhmz05_chain_stabilises_partial n X Y Red R hR hLarsen

-- non-vacuity: first step `x₀ ≤ 0 ∇ x₀ ≤ 1/2` (drops the upper bound), then the result against itself for ever
example : ∃ N, ∀ k, k ≥ N → ∀ i j, i ≤ 1 → j ≤ 1 →
    bdBHMZ05Loops 1 (exXs k) (exYs k) (BMat.const false) i j = bdsReducedMat (exYs k) (BMat.const false) i j :=
  bd_bhmz05_chain_stabilises_partial 1 exXs exYs (fun _ => BMat.const false)
    (fun k => bdBHMZ05Loops 1 (exXs k) (exYs k) (BMat.const false)) (fun _ => rfl) exR1_larsen
example : exXs 0 = exX1 ∧ exYs 0 = exY1 ∧ exXs 1 = exR1 ∧ exYs 1 = exR1 := ⟨rfl, rfl, rfl, rfl⟩

/-- **The BHMZ05 iteration on `Octagonal_Shape` is eventually stationary — PARTIAL.**  `Y k` is the strongly reduced
previous iterate, `X k` arbitrary, `R k = octBHMZ05Loops n (X k) (Y k)`; `Y (k+1)` comes from `R k` by
`strong_closure_assign` + `strong_reduction_assign`.  EXTRA HYPOTHESIS `hLarsen`, NOT proved (minimality of the strong
reduction), checked by the native driver on every real step: `Y (k+1)` has at most as many finite stored cells as
`R k`. -/
theorem oct_bhmz05_chain_stabilises_partial (n : Nat) (X Y : Nat → Mat) (R : Nat → Mat)
    (hR : ∀ k, R k = octBHMZ05Loops n (X k) (Y k))
    (hLarsen : ∀ k, octFinCount n (Y (k + 1)) ≤ octFinCount n (R k)) :
    ∃ N, ∀ k, k ≥ N → ∀ i j, i < 2 * n → j < rowSize i → R k i j = Y k i j :=
  PPLV.Widen.oct_bhmz05_chain_stabilises_partial n X Y R hR hLarsen

example : ∃ N, ∀ k, k ≥ N → ∀ i j, i < 2 * 1 → j < rowSize i →
    octBHMZ05Loops 1 (exXs k) (exYs k) i j = exYs k i j :=
  oct_bhmz05_chain_stabilises_partial 1 exXs exYs (fun k => octBHMZ05Loops 1 (exXs k) (exYs k)) (fun _ => rfl)
    exR1_larsen_oct

/-! ## the limited extrapolations (`limited_CC76_extrapolation_assign`, `limited_BHMZ05_extrapolation_assign`) -/

/-- **`BD_Shape::limited_CC76_extrapolation_assign(y, cs, tp)`** (`BD_Shape_templates.hh:3225`; model
`bdLimitedCC76`): on the path that does any work (`space_dim ≠ 0`, neither argument marked empty) every point of
the receiver is a point of the result, and every point of the result is a point of the plain
`CC76_extrapolation_assign(y, tp)` (`BD_Shape_inlines.hh:832`, the static stop points).  Holds for every rounding
`up` that rounds upwards and every token count.  (On the other paths the receiver is returned untouched:
`PPLV.Widen.bdLimitedCC76_early`.) -/
theorem bd_limited_cc76_between {up : Rat → ExtRat} (hup : ∀ q, fin q ≤ up q) (n csd : Nat)
    (cs : List LimCon) (X Y : BDS) (tp : Option Nat) (hWF : BDS.WF n X)
    (hn : n ≠ 0) (hx : X.empty = false) (hy : Y.empty = false) (p : Nat → Rat) :
    (BDS.γ n X p → BDS.γ n (bdLimitedCC76 up n csd cs X Y tp).1 p) ∧
    (BDS.γ n (bdLimitedCC76 up n csd cs X Y tp).1 p → BDS.γ n (bdCC76 up n defaultStops X Y tp).1 p) :=
  PPLV.Widen.bd_limited_cc76_between hup n csd cs X Y tp hWF hn hx hy p

example : BDS.γ 1 limExX (fun _ => 0) ∧
    BDS.γ 1 (bdLimitedCC76 upCeil 1 1 [limExC] limExX limExY none).1 (fun _ => 0) :=
  ⟨limExX_γ0, (bd_limited_cc76_between upCeil_sound 1 1 [limExC] limExX limExY none limExX_WF (by decide) rfl rfl
    _).1 limExX_γ0⟩

/-- the same, cell by cell and without the class invariant: with `Xc` the receiver as
`shortest_path_closure_assign()` at the head of `get_limiting_shape` (`:3164`) leaves it, `Xc ≤ result ≤ plain
widening` entrywise (all cells), and the three carry the same emptiness flag -/
theorem bd_limited_cc76_between_cells {up : Rat → ExtRat} (hup : ∀ q, fin q ≤ up q) (n csd : Nat)
    (cs : List LimCon) (X Y : BDS) (tp : Option Nat) (hn : n ≠ 0) (hx : X.empty = false) (hy : Y.empty = false) :
    let Xc := bdClosureAssign up n X
    let P := (bdCC76 up n defaultStops X Y tp).1
    let R := (bdLimitedCC76 up n csd cs X Y tp).1
    R.empty = Xc.empty ∧ P.empty = Xc.empty ∧ (∀ a b, Xc.dbm a b ≤ R.dbm a b) ∧ (∀ a b, R.dbm a b ≤ P.dbm a b) :=
  PPLV.Widen.bd_limited_cc76_between_cells hup n csd cs X Y tp hn hx hy

example : (bdLimitedCC76 upCeil 1 1 [limExC] limExX limExY none).1.dbm 0 1
    ≤ (bdCC76 upCeil 1 defaultStops limExX limExY none).1.dbm 0 1 :=
  (bd_limited_cc76_between_cells upCeil_sound 1 1 [limExC] limExX limExY none (by decide) rfl rfl).2.2.2 0 1

/-- **kept constraints, `BD_Shape`, CC76** (`get_limiting_shape`, `:3157-3221`).  PARTIAL in two respects, both
forced by the code as written: (1) only INEQUALITIES (`c.isEq = false`) — for equalities see
`bd_limiting_equality_half_dropped_fails`; (2) what is kept is the ROUNDED constraint `v_col - v_row ≤ d`,
`d = div_round_up(inhomo, |coeff|)` (`:3195`) — with an inexact `div_round_up` the supplied constraint itself is
not kept, see `bd_limited_keeps_rounded_fails`.  Hypotheses: `c` is one of the supplied rows, a bounded difference
with a variable (`bdLimSel`, `:3178-3181`), the constraint system has at most the space dimension of the receiver (checked at
`:3237`), and the closed receiver passes the test `x <= d` of `:3197`. -/
theorem bd_limited_cc76_keeps_partial {up : Rat → ExtRat} (hup : ∀ q, fin q ≤ up q) (n csd : Nat)
    (cs : List LimCon) (X Y : BDS) (tp : Option Nat) (hn : n ≠ 0) (hx : X.empty = false) (hy : Y.empty = false)
    (c : LimCon) (hc : c ∈ cs) (hsel : bdLimSel csd c = true) (hineq : c.isEq = false)
    (hcsd : csd ≤ n)
    (hsat : (bdClosureAssign up n X).dbm (bdLimCell csd c).1 (bdLimCell csd c).2 ≤ bdLimBound up csd c) :
    ((bdClosureAssign up n X).empty = false →
      (bdLimitedCC76 up n csd cs X Y tp).1.dbm (bdLimCell csd c).1 (bdLimCell csd c).2 ≤ bdLimBound up csd c) ∧
    ∀ p, BDS.γ n (bdLimitedCC76 up n csd cs X Y tp).1 p →
      fin (DBM.val p (bdLimCell csd c).2 - DBM.val p (bdLimCell csd c).1) ≤ bdLimBound up csd c :=
  PPLV.Widen.bd_limited_cc76_keeps hup n csd cs X Y tp hn hx hy c hc hsel hineq
    (le_trans (bdLimCell_range csd c hsel).1 hcsd) (le_trans (bdLimCell_range csd c hsel).2.1 hcsd) hsat

example : (bdLimitedCC76 upCeil 1 1 [limExC] limExX limExY none).1.dbm (bdLimCell 1 limExC).1 (bdLimCell 1 limExC).2
    ≤ bdLimBound upCeil 1 limExC :=
  (bd_limited_cc76_keeps_partial upCeil_sound 1 1 [limExC] limExX limExY none (by decide) rfl rfl limExC
    (List.mem_singleton.2 rfl) limExC_sel.1 limExC_sel.2.1 (le_refl _) limExC_sel.2.2.2.2).1 rfl

/-- **`BD_Shape::limited_BHMZ05_extrapolation_assign(y, cs, tp)`** (`BD_Shape_templates.hh:3338`; model
`bdLimitedBHMZ05`, `none` only if a predecessor walk of the reduction runs out of fuel): whenever the call returns,
the plain `BHMZ05_widening_assign(y, tp)` (`:3272`) of the closed receiver returns too, every point of the receiver
is a point of the result, and every point of the result is a point of that plain widening. -/
theorem bd_limited_bhmz05_between {up : Rat → ExtRat} (hup : ∀ q, fin q ≤ up q) (n csd : Nat)
    (cs : List LimCon) (X Y : BDS) (tp : Option Nat) (hWF : BDS.WF n X)
    (hn : n ≠ 0) (hx : X.empty = false) (hy : Y.empty = false)
    (r : BDS × BDS × Option Nat × Mat) (hr : bdLimitedBHMZ05 up n csd cs X Y tp = some r) :
    ∃ P, bdBHMZ05 up n (bdClosureAssign up n X) Y tp = some P ∧
      ∀ p, (BDS.γ n X p → BDS.γ n r.1 p) ∧ (BDS.γ n r.1 p → BDS.γ n P.1 p) :=
  PPLV.Widen.bd_limited_bhmz05_between hup n csd cs X Y tp hWF hn hx hy r hr

example : ∃ r, bdLimitedBHMZ05 upCeil 1 1 [limExC] limExX limExY none = some r ∧ BDS.γ 1 r.1 (fun _ => 0) := by
  cases hr : bdLimitedBHMZ05 upCeil 1 1 [limExC] limExX limExY none with
  | none => have := limEx_bhmz05_some; rw [hr] at this; cases this
  | some r =>
    obtain ⟨P, _, h⟩ := bd_limited_bhmz05_between upCeil_sound 1 1 [limExC] limExX limExY none limExX_WF
      (by decide) rfl rfl r hr
    exact ⟨r, rfl, (h _).1 limExX_γ0⟩

/-- **kept constraints, `BD_Shape`, BHMZ05**: as `bd_limited_cc76_keeps_partial` (inequalities only, rounded
bound); no hypothesis on `up` is needed here (the BHMZ05 loops do not round) -/
theorem bd_limited_bhmz05_keeps_partial (up : Rat → ExtRat) (n csd : Nat)
    (cs : List LimCon) (X Y : BDS) (tp : Option Nat) (hn : n ≠ 0) (hx : X.empty = false) (hy : Y.empty = false)
    (r : BDS × BDS × Option Nat × Mat) (hr : bdLimitedBHMZ05 up n csd cs X Y tp = some r)
    (c : LimCon) (hc : c ∈ cs) (hsel : bdLimSel csd c = true) (hineq : c.isEq = false)
    (hcsd : csd ≤ n)
    (hsat : (bdClosureAssign up n X).dbm (bdLimCell csd c).1 (bdLimCell csd c).2 ≤ bdLimBound up csd c) :
    ((bdClosureAssign up n X).empty = false →
      r.1.dbm (bdLimCell csd c).1 (bdLimCell csd c).2 ≤ bdLimBound up csd c) ∧
    ∀ p, BDS.γ n r.1 p →
      fin (DBM.val p (bdLimCell csd c).2 - DBM.val p (bdLimCell csd c).1) ≤ bdLimBound up csd c :=
  PPLV.Widen.bd_limited_bhmz05_keeps up n csd cs X Y tp hn hx hy r hr c hc hsel hineq
    (le_trans (bdLimCell_range csd c hsel).1 hcsd) (le_trans (bdLimCell_range csd c hsel).2.1 hcsd) hsat

example : ∃ r, bdLimitedBHMZ05 upCeil 1 1 [limExC] limExX limExY none = some r ∧
    r.1.dbm (bdLimCell 1 limExC).1 (bdLimCell 1 limExC).2 ≤ bdLimBound upCeil 1 limExC := by
  cases hr : bdLimitedBHMZ05 upCeil 1 1 [limExC] limExX limExY none with
  | none => have := limEx_bhmz05_some; rw [hr] at this; cases this
  | some r =>
    exact ⟨r, rfl, (bd_limited_bhmz05_keeps_partial upCeil 1 1 [limExC] limExX limExY none (by decide) rfl rfl r hr
      limExC (List.mem_singleton.2 rfl) limExC_sel.1 limExC_sel.2.1 (le_refl _) limExC_sel.2.2.2.2).1 rfl⟩

/-- **kept constraints with an exact `div_round_up`** (e.g. rational coefficients, `upId`): when the quotient
`inhomo / |coeff|` of a supplied inequality is computed exactly, the supplied constraint ITSELF,
`cf·v + inhomo ≥ 0`, holds at every point of the result of `limited_CC76_extrapolation_assign`
(`BD_Shape_templates.hh:3225`). -/
theorem bd_limited_cc76_keeps_exact {up : Rat → ExtRat} (hup : ∀ q, fin q ≤ up q) (n csd : Nat)
    (cs : List LimCon) (X Y : BDS) (tp : Option Nat) (hn : n ≠ 0) (hx : X.empty = false) (hy : Y.empty = false)
    (hcsd : csd ≤ n) (c : LimCon) (hc : c ∈ cs) (hsel : bdLimSel csd c = true) (hineq : c.isEq = false)
    (hex : bdLimBound up csd c = fin ((c.inhomo : Rat) / (bdLimCoeff csd c : Rat)))
    (hsat : (bdClosureAssign up n X).dbm (bdLimCell csd c).1 (bdLimCell csd c).2 ≤ bdLimBound up csd c)
    (p : Nat → Rat) (hp : BDS.γ n (bdLimitedCC76 up n csd cs X Y tp).1 p) :
    0 ≤ linEval c.coeff p csd + c.inhomo :=
  PPLV.Widen.bd_limited_cc76_keeps_exact hup n csd cs X Y tp hn hx hy hcsd c hc hsel hineq hex hsat p hp

example : 0 ≤ linEval limExC.coeff (fun _ => 0) 1 + limExC.inhomo :=
  bd_limited_cc76_keeps_exact upId_sound 1 1 [limExC] limExX limExY none (by decide) rfl rfl (le_refl _) limExC
    (List.mem_singleton.2 rfl) limExC_sel.1 rfl (bdLimBound_upId 1 limExC).1 limExC_sat_upId _
    ((bd_limited_cc76_between upId_sound 1 1 [limExC] limExX limExY none limExX_WF (by decide) rfl rfl _).1 limExX_γ0)

/-- the same for `limited_BHMZ05_extrapolation_assign` (`:3338`) -/
theorem bd_limited_bhmz05_keeps_exact (up : Rat → ExtRat) (n csd : Nat)
    (cs : List LimCon) (X Y : BDS) (tp : Option Nat) (hn : n ≠ 0) (hx : X.empty = false) (hy : Y.empty = false)
    (r : BDS × BDS × Option Nat × Mat) (hr : bdLimitedBHMZ05 up n csd cs X Y tp = some r)
    (hcsd : csd ≤ n) (c : LimCon) (hc : c ∈ cs) (hsel : bdLimSel csd c = true) (hineq : c.isEq = false)
    (hex : bdLimBound up csd c = fin ((c.inhomo : Rat) / (bdLimCoeff csd c : Rat)))
    (hsat : (bdClosureAssign up n X).dbm (bdLimCell csd c).1 (bdLimCell csd c).2 ≤ bdLimBound up csd c)
    (p : Nat → Rat) (hp : BDS.γ n r.1 p) :
    0 ≤ linEval c.coeff p csd + c.inhomo :=
  PPLV.Widen.bd_limited_bhmz05_keeps_exact up n csd cs X Y tp hn hx hy r hr hcsd c hc hsel hineq hex hsat p hp

example : bdLimSel 1 limExC = true ∧ bdLimBound upId 1 limExC = fin ((limExC.inhomo : Rat) / (bdLimCoeff 1 limExC : Rat))
    ∧ (bdClosureAssign upId 1 limExX).dbm (bdLimCell 1 limExC).1 (bdLimCell 1 limExC).2 ≤ bdLimBound upId 1 limExC :=
  ⟨limExC_sel.1, (bdLimBound_upId 1 limExC).1, limExC_sat_upId⟩

/-- **supplied EQUALITIES, `BD_Shape`** (`:3204-3216`): what is true.  If the receiver has a point, both quotients
`inhomo / |coeff|`, `-inhomo / |coeff|` are computed exactly and the closed receiver passes both tests `x <= d`,
`y <= d1`, then the equality holds at every point of the result.  (Then the receiver's two cells are exactly `d`
and `d1`, the limiting cells are still at or above them when the equality is reached, and the guard of `:3209`
cannot drop a half.)  Without exactness a half can be dropped: `bd_limiting_equality_half_dropped_fails`. -/
theorem bd_limited_cc76_keeps_eq_exact {up : Rat → ExtRat} (hup : ∀ q, fin q ≤ up q) (n csd : Nat)
    (cs : List LimCon) (X Y : BDS) (tp : Option Nat) (hWF : BDS.WF n X)
    (hn : n ≠ 0) (hx : X.empty = false) (hy : Y.empty = false)
    (hcsd : csd ≤ n) (c : LimCon) (hc : c ∈ cs) (hsel : bdLimSel csd c = true) (heq : c.isEq = true)
    (hex : bdLimBound up csd c = fin ((c.inhomo : Rat) / (bdLimCoeff csd c : Rat)))
    (hex1 : bdLimBound1 up csd c = fin (((- c.inhomo : Int) : Rat) / (bdLimCoeff csd c : Rat)))
    (hsat : (bdClosureAssign up n X).dbm (bdLimCell csd c).1 (bdLimCell csd c).2 ≤ bdLimBound up csd c)
    (hsat1 : (bdClosureAssign up n X).dbm (bdLimCell csd c).2 (bdLimCell csd c).1 ≤ bdLimBound1 up csd c)
    (p0 : Nat → Rat) (hp0 : BDS.γ n X p0)
    (p : Nat → Rat) (hp : BDS.γ n (bdLimitedCC76 up n csd cs X Y tp).1 p) :
    linEval c.coeff p csd + c.inhomo = 0 :=
  PPLV.Widen.bd_limited_cc76_keeps_eq_exact hup n csd cs X Y tp hWF hn hx hy hcsd c hc hsel heq hex hex1 hsat hsat1
    p0 hp0 p hp

example : linEval limExEqC.coeff (fun _ => 1) 1 + limExEqC.inhomo = 0 :=
  bd_limited_cc76_keeps_eq_exact upId_sound 1 1 [limExEqC] limExEqX limExEqX none limExEqX_WF (by decide) rfl rfl
    (le_refl _) limExEqC (List.mem_singleton.2 rfl) limExEqC_sel.1 rfl (bdLimBound_upId 1 limExEqC).1
    (bdLimBound_upId 1 limExEqC).2 limExEqC_sel.2.2.1 limExEqC_sel.2.2.2 _ limExEqX_γ1 _
    ((bd_limited_cc76_between upId_sound 1 1 [limExEqC] limExEqX limExEqX none limExEqX_WF (by decide) rfl rfl _).1
      limExEqX_γ1)

/-- the same for `limited_BHMZ05_extrapolation_assign` -/
theorem bd_limited_bhmz05_keeps_eq_exact {up : Rat → ExtRat} (hup : ∀ q, fin q ≤ up q) (n csd : Nat)
    (cs : List LimCon) (X Y : BDS) (tp : Option Nat) (hWF : BDS.WF n X)
    (hn : n ≠ 0) (hx : X.empty = false) (hy : Y.empty = false)
    (r : BDS × BDS × Option Nat × Mat) (hr : bdLimitedBHMZ05 up n csd cs X Y tp = some r)
    (hcsd : csd ≤ n) (c : LimCon) (hc : c ∈ cs) (hsel : bdLimSel csd c = true) (heq : c.isEq = true)
    (hex : bdLimBound up csd c = fin ((c.inhomo : Rat) / (bdLimCoeff csd c : Rat)))
    (hex1 : bdLimBound1 up csd c = fin (((- c.inhomo : Int) : Rat) / (bdLimCoeff csd c : Rat)))
    (hsat : (bdClosureAssign up n X).dbm (bdLimCell csd c).1 (bdLimCell csd c).2 ≤ bdLimBound up csd c)
    (hsat1 : (bdClosureAssign up n X).dbm (bdLimCell csd c).2 (bdLimCell csd c).1 ≤ bdLimBound1 up csd c)
    (p0 : Nat → Rat) (hp0 : BDS.γ n X p0) (p : Nat → Rat) (hp : BDS.γ n r.1 p) :
    linEval c.coeff p csd + c.inhomo = 0 :=
  PPLV.Widen.bd_limited_bhmz05_keeps_eq_exact hup n csd cs X Y tp hWF hn hx hy r hr hcsd c hc hsel heq hex hex1
    hsat hsat1 p0 hp0 p hp

example : ∃ r, bdLimitedBHMZ05 upId 1 1 [limExEqC] limExEqX limExEqX none = some r ∧
    ∀ p, BDS.γ 1 r.1 p → linEval limExEqC.coeff p 1 + limExEqC.inhomo = 0 := by
  cases hr : bdLimitedBHMZ05 upId 1 1 [limExEqC] limExEqX limExEqX none with
  | none => have := limExEq_bhmz05_some; rw [hr] at this; cases this
  | some r =>
    exact ⟨r, rfl, fun p hp => bd_limited_bhmz05_keeps_eq_exact upId_sound 1 1 [limExEqC] limExEqX limExEqX none
      limExEqX_WF (by decide) rfl rfl r hr (le_refl _) limExEqC (List.mem_singleton.2 rfl) limExEqC_sel.1 rfl
      (bdLimBound_upId 1 limExEqC).1 (bdLimBound_upId 1 limExEqC).2 limExEqC_sel.2.2.1 limExEqC_sel.2.2.2 _
      limExEqX_γ1 p hp⟩

/-- **rounding** (`BD_Shape_templates.hh:3195`, `div_round_up`): over an integer coefficient type every point of
the receiver `A ≤ 2` satisfies the supplied `2A ≤ 5`, `y` is `A ≤ 1`, yet the result of
`limited_BHMZ05_extrapolation_assign` is `A ≤ 3` and contains `A = 3`: the clause "a supplied constraint that
every point of the receiver satisfies is satisfied by every point of the result" is false as written. -/
theorem bd_limited_keeps_rounded_fails :
    ¬ ∀ (n csd : Nat) (cs : List LimCon) (X Y : BDS) (r : BDS × BDS × Option Nat × Mat),
        bdLimitedBHMZ05 upCeil n csd cs X Y none = some r →
        ∀ c ∈ cs, c.isEq = false → (∀ p, BDS.γ n X p → c.holds csd p) → ∀ p, BDS.γ n r.1 p → c.holds csd p :=
  PPLV.Widen.bd_limited_keeps_rounded_fails

example : (bdGetLimitingShape upCeil 1 1 [limExC] limExX BDS.univ).2.dbm 0 1 = fin 3 :=
  PPLV.Widen.bd_limiting_rounded_cell

/-- **equalities in `get_limiting_shape`** (`BD_Shape_templates.hh:3204-3216`): both halves of a supplied
equality are written only when `(ls_x >= d && ls_y > d1) || (ls_x > d && ls_y >= d1)`.  Over an integer
coefficient type the closed receiver `A = 1` passes both tests `x <= d`, `y <= d1` for `2A = 1` (`d = 0`,
`d1 = 1`), but the earlier `A ≥ 1` has already put `-1 < d` into the limiting cell: neither disjunct holds and the
half `A ≤ 1` is silently dropped.  So "both cells of an equality end up at most `d`, `d1` whenever the receiver's
cells are" is false.  (What is true: `PPLV.Widen.bdLimitStep_keeps_eq` — both are written when the limiting cells
are still at or above the bounds.) -/
theorem bd_limiting_equality_half_dropped_fails :
    ¬ ∀ (up : Rat → ExtRat) (csd : Nat) (dbm : Mat) (cs : List LimCon) (c : LimCon),
        c ∈ cs → bdLimSel csd c = true → c.isEq = true →
        dbm (bdLimCell csd c).1 (bdLimCell csd c).2 ≤ bdLimBound up csd c →
        dbm (bdLimCell csd c).2 (bdLimCell csd c).1 ≤ bdLimBound1 up csd c →
        (cs.foldl (bdLimitStep up csd dbm) (BDS.univ.dbm, false)).1 (bdLimCell csd c).1 (bdLimCell csd c).2
            ≤ bdLimBound up csd c ∧
        (cs.foldl (bdLimitStep up csd dbm) (BDS.univ.dbm, false)).1 (bdLimCell csd c).2 (bdLimCell csd c).1
            ≤ bdLimBound1 up csd c :=
  PPLV.Widen.bd_limiting_equality_half_dropped_fails

/-- **`Octagonal_Shape::limited_CC76_extrapolation_assign(y, cs, tp)`** (`Octagonal_Shape_templates.hh:4007`;
model `octLimitedCC76`): receiver ⊆ result ⊆ plain `CC76_extrapolation_assign(y, tp)`, for every upward rounding
and every token count, on the path that does any work (otherwise `PPLV.Widen.octLimitedCC76_early`). -/
theorem oct_limited_cc76_between {up : Rat → ExtRat} (hup : ∀ q, fin q ≤ up q) (n csd : Nat)
    (cs : List LimCon) (X Y : OCS) (tp : Option Nat) (hWF : OCS.WF n X)
    (hn : n ≠ 0) (hx : X.empty = false) (hy : Y.empty = false) (p : Nat → Rat) :
    (OCS.γ n X p → OCS.γ n (octLimitedCC76 up n csd cs X Y tp).1 p) ∧
    (OCS.γ n (octLimitedCC76 up n csd cs X Y tp).1 p → OCS.γ n (octCC76 up n defaultStops X Y tp).1 p) :=
  PPLV.Widen.oct_limited_cc76_between hup n csd cs X Y tp hWF hn hx hy p

example : OCS.γ 1 limExOX (fun _ => 0) ∧
    OCS.γ 1 (octLimitedCC76 upId 1 1 [limExOC] limExOX limExOY none).1 (fun _ => 0) :=
  ⟨limExOX_γ0, (oct_limited_cc76_between upId_sound 1 1 [limExOC] limExOX limExOY none limExOX_WF (by decide) rfl rfl
    _).1 limExOX_γ0⟩

/-- **kept constraints, `Octagonal_Shape`, CC76** (`get_limiting_octagon`, `:3916-3996`).  PARTIAL: only
INEQUALITIES — an equality contributes nothing at all (`oct_limiting_drops_equality_fails`) — and only the rounded
bound `d = div_round_up(term, |coeff|)` (`:3956`).  After the loop the cell of every supplied inequality that the
closed receiver satisfies (`m_i_j <= d`, `:3957`) is at most `d`: either it was written (`:3961`) or the `else`
ran, which means it was at most `d` already. -/
theorem oct_limited_cc76_keeps_partial {up : Rat → ExtRat} (hup : ∀ q, fin q ≤ up q) (n csd : Nat)
    (cs : List LimCon) (X Y : OCS) (tp : Option Nat) (hn : n ≠ 0) (hx : X.empty = false) (hy : Y.empty = false)
    (c : LimCon) (hc : c ∈ cs) (hsel : octLimSel csd c = true) (hineq : c.isEq = false)
    (hcsd : csd ≤ n)
    (hsat : (octClosureAssign up n X).mat (octLimCell csd c).1 (octLimCell csd c).2 ≤ octLimBound up csd c) :
    ((octClosureAssign up n X).empty = false →
      (octLimitedCC76 up n csd cs X Y tp).1.mat (octLimCell csd c).1 (octLimCell csd c).2 ≤ octLimBound up csd c) ∧
    ∀ p, OCS.γ n (octLimitedCC76 up n csd cs X Y tp).1 p →
      fin (OctM.oval p (octLimCell csd c).2 - OctM.oval p (octLimCell csd c).1) ≤ octLimBound up csd c :=
  PPLV.Widen.oct_limited_cc76_keeps hup n csd cs X Y tp hn hx hy c hc hsel hineq
    (lt_of_lt_of_le (octLimCell_range csd c hsel).1 (Nat.mul_le_mul_left 2 hcsd)) (octLimCell_range csd c hsel).2 hsat

example : (octLimitedCC76 upId 1 1 [limExOC] limExOX limExOY none).1.mat (octLimCell 1 limExOC).1
    (octLimCell 1 limExOC).2 ≤ octLimBound upId 1 limExOC :=
  (oct_limited_cc76_keeps_partial upId_sound 1 1 [limExOC] limExOX limExOY none (by decide) rfl rfl limExOC
    (List.mem_singleton.2 rfl) limExOC_sel.1 limExOC_sel.2.1 (le_refl _) limExOC_sel.2.2.2.2).1 rfl

/-- **`Octagonal_Shape::limited_BHMZ05_extrapolation_assign(y, cs, tp)`** (`Octagonal_Shape_templates.hh:4118`;
model `octLimitedBHMZ05`): whenever the call returns, receiver ⊆ result ⊆ plain `BHMZ05_widening_assign(y, tp)`
(`:4055`) of the closed receiver. -/
theorem oct_limited_bhmz05_between {up : Rat → ExtRat} (hup : ∀ q, fin q ≤ up q) (n csd : Nat)
    (cs : List LimCon) (X Y : OCS) (tp : Option Nat) (hWF : OCS.WF n X)
    (hn : n ≠ 0) (hx : X.empty = false) (hy : Y.empty = false)
    (r : OCS × OCS × Option Nat × Mat) (hr : octLimitedBHMZ05 up n csd cs X Y tp = some r) :
    ∃ P, octBHMZ05 up n (octClosureAssign up n X) Y tp = some P ∧
      ∀ p, (OCS.γ n X p → OCS.γ n r.1 p) ∧ (OCS.γ n r.1 p → OCS.γ n P.1 p) :=
  PPLV.Widen.oct_limited_bhmz05_between hup n csd cs X Y tp hWF hn hx hy r hr

example : ∃ r, octLimitedBHMZ05 upId 1 1 [limExOC] limExOX limExOY none = some r ∧ OCS.γ 1 r.1 (fun _ => 0) := by
  cases hr : octLimitedBHMZ05 upId 1 1 [limExOC] limExOX limExOY none with
  | none => have := limExO_bhmz05_some; rw [hr] at this; cases this
  | some r =>
    obtain ⟨P, _, h⟩ := oct_limited_bhmz05_between upId_sound 1 1 [limExOC] limExOX limExOY none limExOX_WF
      (by decide) rfl rfl r hr
    exact ⟨r, rfl, (h _).1 limExOX_γ0⟩

/-- **kept constraints, `Octagonal_Shape`, BHMZ05**: as `oct_limited_cc76_keeps_partial` -/
theorem oct_limited_bhmz05_keeps_partial (up : Rat → ExtRat) (n csd : Nat)
    (cs : List LimCon) (X Y : OCS) (tp : Option Nat) (hn : n ≠ 0) (hx : X.empty = false) (hy : Y.empty = false)
    (r : OCS × OCS × Option Nat × Mat) (hr : octLimitedBHMZ05 up n csd cs X Y tp = some r)
    (c : LimCon) (hc : c ∈ cs) (hsel : octLimSel csd c = true) (hineq : c.isEq = false)
    (hcsd : csd ≤ n)
    (hsat : (octClosureAssign up n X).mat (octLimCell csd c).1 (octLimCell csd c).2 ≤ octLimBound up csd c) :
    ((octClosureAssign up n X).empty = false →
      r.1.mat (octLimCell csd c).1 (octLimCell csd c).2 ≤ octLimBound up csd c) ∧
    ∀ p, OCS.γ n r.1 p →
      fin (OctM.oval p (octLimCell csd c).2 - OctM.oval p (octLimCell csd c).1) ≤ octLimBound up csd c :=
  PPLV.Widen.oct_limited_bhmz05_keeps up n csd cs X Y tp hn hx hy r hr c hc hsel hineq
    (lt_of_lt_of_le (octLimCell_range csd c hsel).1 (Nat.mul_le_mul_left 2 hcsd)) (octLimCell_range csd c hsel).2 hsat

example : ∃ r, octLimitedBHMZ05 upId 1 1 [limExOC] limExOX limExOY none = some r ∧
    r.1.mat (octLimCell 1 limExOC).1 (octLimCell 1 limExOC).2 ≤ octLimBound upId 1 limExOC := by
  cases hr : octLimitedBHMZ05 upId 1 1 [limExOC] limExOX limExOY none with
  | none => have := limExO_bhmz05_some; rw [hr] at this; cases this
  | some r =>
    exact ⟨r, rfl, (oct_limited_bhmz05_keeps_partial upId 1 1 [limExOC] limExOX limExOY none (by decide) rfl rfl r hr
      limExOC (List.mem_singleton.2 rfl) limExOC_sel.1 limExOC_sel.2.1 (le_refl _) limExOC_sel.2.2.2.2).1 rfl⟩

/-- **kept inequalities with an exact `div_round_up`, `Octagonal_Shape`**: when the quotient `term / |coeff|` is
computed exactly (e.g. `upId`), the supplied inequality ITSELF holds at every point of the result of
`limited_CC76_extrapolation_assign` (`Octagonal_Shape_templates.hh:4007`). -/
theorem oct_limited_cc76_keeps_exact {up : Rat → ExtRat} (hup : ∀ q, fin q ≤ up q) (n csd : Nat)
    (cs : List LimCon) (X Y : OCS) (tp : Option Nat) (hn : n ≠ 0) (hx : X.empty = false) (hy : Y.empty = false)
    (hcsd : csd ≤ n) (c : LimCon) (hc : c ∈ cs) (hsel : octLimSel csd c = true) (hineq : c.isEq = false)
    (hex : octLimBound up csd c
      = fin (((extractOctagonalDifference csd c.coeff c.inhomo).term : Rat) / (octLimCoeff csd c : Rat)))
    (hsat : (octClosureAssign up n X).mat (octLimCell csd c).1 (octLimCell csd c).2 ≤ octLimBound up csd c)
    (p : Nat → Rat) (hp : OCS.γ n (octLimitedCC76 up n csd cs X Y tp).1 p) :
    0 ≤ linEval c.coeff p csd + c.inhomo :=
  PPLV.Widen.oct_limited_cc76_keeps_exact hup n csd cs X Y tp hn hx hy hcsd c hc hsel hineq hex hsat p hp

example : 0 ≤ linEval limExOC.coeff (fun _ => 0) 1 + limExOC.inhomo :=
  oct_limited_cc76_keeps_exact upId_sound 1 1 [limExOC] limExOX limExOY none (by decide) rfl rfl (le_refl _) limExOC
    (List.mem_singleton.2 rfl) limExOC_sel.1 rfl (octLimBound_upId 1 limExOC) limExOC_sel.2.2.2.2 _
    ((oct_limited_cc76_between upId_sound 1 1 [limExOC] limExOX limExOY none limExOX_WF (by decide) rfl rfl _).1
      limExOX_γ0)

/-- the same for `limited_BHMZ05_extrapolation_assign` (`:4118`) -/
theorem oct_limited_bhmz05_keeps_exact (up : Rat → ExtRat) (n csd : Nat)
    (cs : List LimCon) (X Y : OCS) (tp : Option Nat) (hn : n ≠ 0) (hx : X.empty = false) (hy : Y.empty = false)
    (r : OCS × OCS × Option Nat × Mat) (hr : octLimitedBHMZ05 up n csd cs X Y tp = some r)
    (hcsd : csd ≤ n) (c : LimCon) (hc : c ∈ cs) (hsel : octLimSel csd c = true) (hineq : c.isEq = false)
    (hex : octLimBound up csd c
      = fin (((extractOctagonalDifference csd c.coeff c.inhomo).term : Rat) / (octLimCoeff csd c : Rat)))
    (hsat : (octClosureAssign up n X).mat (octLimCell csd c).1 (octLimCell csd c).2 ≤ octLimBound up csd c)
    (p : Nat → Rat) (hp : OCS.γ n r.1 p) :
    0 ≤ linEval c.coeff p csd + c.inhomo :=
  PPLV.Widen.oct_limited_bhmz05_keeps_exact up n csd cs X Y tp hn hx hy r hr hcsd c hc hsel hineq hex hsat p hp

example : ∃ r, octLimitedBHMZ05 upId 1 1 [limExOC] limExOX limExOY none = some r ∧
    ∀ p, OCS.γ 1 r.1 p → 0 ≤ linEval limExOC.coeff p 1 + limExOC.inhomo := by
  cases hr : octLimitedBHMZ05 upId 1 1 [limExOC] limExOX limExOY none with
  | none => have := limExO_bhmz05_some; rw [hr] at this; cases this
  | some r =>
    exact ⟨r, rfl, fun p hp => oct_limited_bhmz05_keeps_exact upId 1 1 [limExOC] limExOX limExOY none (by decide)
      rfl rfl r hr (le_refl _) limExOC (List.mem_singleton.2 rfl) limExOC_sel.1 rfl (octLimBound_upId 1 limExOC)
      limExOC_sel.2.2.2.2 p hp⟩

/-- **equalities in `get_limiting_octagon`** (`Octagonal_Shape_templates.hh:3958-3993`): the whole body of the
loop, the "other half" included, sits inside `if (c.is_inequality())` — the "other half" is the `else` of
`if (lo_m_i_j > d)` — so a supplied equality leaves the limiting octagon untouched although the closed receiver
(`A = 1`) satisfies both halves (`A = 1` supplied, exact coefficients).  (`PPLV.Widen.octLimitFold_equalities`: a
system of equalities never changes the limiting octagon.) -/
theorem oct_limiting_drops_equality_fails :
    ¬ ∀ (up : Rat → ExtRat) (csd : Nat) (m : Mat) (cs : List LimCon) (c : LimCon),
        c ∈ cs → octLimSel csd c = true → c.isEq = true →
        m (octLimCell csd c).1 (octLimCell csd c).2 ≤ octLimBound up csd c →
        m (octLimCell2 csd c).1 (octLimCell2 csd c).2 ≤ octLimBound2 up csd c →
        (cs.foldl (octLimitStep up csd m) (OCS.univ.mat, false)).1 (octLimCell csd c).1 (octLimCell csd c).2
            ≤ octLimBound up csd c ∧
        (cs.foldl (octLimitStep up csd m) (OCS.univ.mat, false)).1 (octLimCell2 csd c).1 (octLimCell2 csd c).2
            ≤ octLimBound2 up csd c :=
  PPLV.Widen.oct_limiting_drops_equality_fails

/-- the misplaced `else` (`:3966`) at work: supplying the inequality `A ≥ 1` twice on the receiver `A = 1` adds
`A ≤ 1` to the limiting octagon, which nobody supplied; it is guarded by `m_ci_cj <= d` (`:3981`), so the limiting
octagon still contains the receiver (`PPLV.Widen.octGetLimitingOctagon_dom`) -/
theorem oct_limiting_misplaced_else_witness :
    (([⟨false, [1], -1, false⟩] : List LimCon).foldl (octLimitStep upId 1 limExOctM) (OCS.univ.mat, false)).1 1 0
      = pinf ∧
    (([⟨false, [1], -1, false⟩, ⟨false, [1], -1, false⟩] : List LimCon).foldl
      (octLimitStep upId 1 limExOctM) (OCS.univ.mat, false)).1 1 0 = fin 2 :=
  PPLV.Widen.oct_limiting_misplaced_else_witness

/-- **`Box::limited_CC76_extrapolation_assign(y, cs, tp)`** (`Box_templates.hh:4270`; model `boxLimitedCC76`,
rational boundaries): receiver ⊆ result ⊆ plain `CC76_widening_assign(y, tp)` (`:4207`), for every token count,
on the path that does any work (space dimension `≠ 0`, neither box marked empty; otherwise
`PPLV.Widen.boxLimitedCC76_early`). -/
theorem box_limited_cc76_between (sd : Nat) (cs : List LimCon) (x y : BoxS) (tp : Option Nat)
    (hl : x.seq.length ≠ 0) (hx : x.markedEmpty = false) (hy : y.markedEmpty = false) (p : Nat → Rat) :
    (BoxS.γ x p → BoxS.γ (boxLimitedCC76 sd cs x y tp).1 p) ∧
    (BoxS.γ (boxLimitedCC76 sd cs x y tp).1 p → BoxS.γ (boxCC76 x y tp).1 p) :=
  PPLV.Widen.box_limited_cc76_between sd cs x y tp hl hx hy p

example : BoxS.γ limExBX (fun _ => 0) ∧ BoxS.γ (boxLimitedCC76 1 [limExBC] limExBX limExBY none).1 (fun _ => 0) :=
  ⟨limExBX_γ0, (box_limited_cc76_between 1 [limExBC] limExBX limExBY none (by decide) rfl rfl _).1 limExBX_γ0⟩

/-- **kept constraints, `Box`** (`get_limiting_box`, `:4239-4267`).  PARTIAL: restricted to the constraints the
loop SELECTS (`boxLimSel`: an interval constraint on a variable `ov` with
`interval_relation(seq[ov], …) == Poly_Con_Relation::is_included()`, `:4258`); these hold exactly (no rounding) at
every point of the result.  NOT selected although the receiver satisfies them: every equality
(`PPLV.Widen.intervalRelationIsIncluded_eq_false`) and every inequality that a singleton component saturates
(`box_limiting_drops_saturated_singleton_fails`): `interval_relation` then answers
`is_included() && saturates()`, which `==` does not match.  (Under the precondition `y ⊆ x`, `y` non-empty, the
component of `y` is then the same singleton and the plain widening leaves it alone — not proved here.) -/
theorem box_limited_cc76_keeps_partial (sd : Nat) (cs : List LimCon) (x y : BoxS) (tp : Option Nat)
    (hl : x.seq.length ≠ 0) (hx : x.markedEmpty = false) (hy : y.markedEmpty = false)
    (c : LimCon) (hc : c ∈ cs) (ov : Nat) (hsel : boxLimSel sd x.seq c ov)
    (hov : ov < (boxCC76 x y tp).1.seq.length) (p : Nat → Rat)
    (hp : BoxS.γ (boxLimitedCC76 sd cs x y tp).1 p) : conHolds1 c c.inhomo (c.coeff ov) (p ov) :=
  PPLV.Widen.box_limited_cc76_keeps sd cs x y tp hl hx hy c hc ov hsel hov p hp

example : conHolds1 limExBC limExBC.inhomo (limExBC.coeff 0) 0 :=
  box_limited_cc76_keeps_partial 1 [limExBC] limExBX limExBY none (by decide) rfl rfl limExBC
    (List.mem_singleton.2 rfl) 0 limExBC_sel (by decide +kernel) (fun _ => 0)
    ((box_limited_cc76_between 1 [limExBC] limExBX limExBY none (by decide) rfl rfl _).1 limExBX_γ0)

example : (boxLimitedCC76 1 [limExBC] limExBX limExBY none).1 = { seq := [⟨none, false, some (7 / 2), false⟩] } :=
  limExB_result

/-- (B1)/(B2) the two interval primitives of `get_limiting_box`: `interval_relation(…) == is_included()` is sound
(the interval lies in the half-line), and `refine_interval_no_check` is exactly the intersection with it -/
theorem box_limiting_primitives (I J : Itv) (c : LimCon) (numer denom : Int) (hd : denom ≠ 0) (q : Rat) :
    (intervalRelationIsIncluded I c numer denom = true → I.mem q → conHolds1 c numer denom q) ∧
    ((refineIntervalNoCheck J c numer denom).mem q ↔ J.mem q ∧ conHolds1 c numer denom q) ∧
    ((Itv.intersect I J).mem q ↔ I.mem q ∧ J.mem q) :=
  ⟨fun h hq => intervalRelationIsIncluded_sound I c numer denom hd h q hq,
   refineIntervalNoCheck_mem J c numer denom hd q, Itv.intersect_mem I J q⟩

example : intervalRelationIsIncluded ⟨none, false, some 3, false⟩ limExBC 7 (-2) = true := by decide +kernel

/-- **a saturated singleton is not selected** (`Box_templates.hh:4258`, `==` against
`Poly_Con_Relation::is_included()`): `I = [3, 3]` and `A ≥ 3`: every point of `I` satisfies the constraint, yet
the comparison fails because `interval_relation` answers `is_included() && saturates()`. -/
theorem box_limiting_drops_saturated_singleton_fails :
    ¬ ∀ (I : Itv) (c : LimCon) (numer denom : Int), denom ≠ 0 → c.isEq = false →
        ¬ (I.lo.isNone = true ∧ I.hi.isNone = true) → (∀ q, I.mem q → conHolds1 c numer denom q) →
        intervalRelationIsIncluded I c numer denom = true :=
  PPLV.Widen.box_limiting_drops_saturated_singleton_fails

/-- **the unselected constraints are harmless under the precondition `y ⊆ x`**: if the receiver's `k`-th component
is a singleton and the `k`-th component of `y` shares a point with it (as it must when `y ⊆ x` and `y` is not
empty), the plain widening leaves that component alone, so every point of the result of
`limited_CC76_extrapolation_assign` has its `k`-th coordinate in the receiver's component: whatever equality or
saturated inequality on variable `k` the receiver satisfies is satisfied by the result although
`get_limiting_box` did not select it. -/
theorem box_limited_cc76_singleton_harmless (sd : Nat) (cs : List LimCon) (x y : BoxS) (tp : Option Nat)
    (hl : x.seq.length ≠ 0) (hxe : x.markedEmpty = false) (hye : y.markedEmpty = false)
    (k : Nat) (hkx : k < x.seq.length) (hky : k < y.seq.length) (hs : (x.seq[k]).isSingleton = true) (q : Rat)
    (hy : (y.seq[k]).mem q) (hx : (x.seq[k]).mem q) (hk : k < (boxCC76 x y tp).1.seq.length)
    (p : Nat → Rat) (hp : BoxS.γ (boxLimitedCC76 sd cs x y tp).1 p) : (x.seq[k]).mem (p k) :=
  PPLV.Widen.box_limited_cc76_singleton_harmless sd cs x y tp hl hxe hye k hkx hky hs q hy hx hk p hp

example : (limExBS.seq[0]'(by decide)).mem ((fun _ : Nat => (3 : Rat)) 0) :=
  box_limited_cc76_singleton_harmless 1 [⟨false, [1], -3, false⟩] limExBS limExBS none (by decide) rfl rfl 0
    (by decide) (by decide) (by decide +kernel) 3 limExBS_mem3 limExBS_mem3 (by decide +kernel) _
    ((box_limited_cc76_between 1 [⟨false, [1], -3, false⟩] limExBS limExBS none (by decide) rfl rfl _).1 limExBS_γ3)

end C08
