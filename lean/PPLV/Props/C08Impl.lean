import PPLV.Widen.ImplPolySem
import PPLV.Widen.ImplH79ProofsDriver
import PPLV.Widen.ImplH79ProofsMain
import PPLV.Widen.ImplH79ProofsEx
import PPLV.Widen.ImplH79ProofsGen
import PPLV.Widen.ImplBHRZ03Proofs
import PPLV.Widen.ImplBHRZ03ProofsNNC
import PPLV.Widen.ProofsConv
import PPLV.Widen.ImplH79ProofsEngine
import PPLV.Widen.ImplH79ProofsEngineBridge4
import PPLV.Widen.ImplH79ProofsEngineMinEx
import PPLV.Widen.ImplH79ProofsEngineFacetPoints
import PPLV.Widen.ImplH79ProofsEngineChain

/-!
# C08 stage 2 — the polyhedra widenings as coded: `H79_widening_assign`, `BHRZ03_widening_assign`

Theorems about the code-shaped models `PPLV/Widen/ImplH79.lean`, `PPLV/Widen/ImplBHRZ03.lean`
(semantics and the contract of the conversions: `PPLV/Widen/ImplPolySem.lean`; helper lemmas:
`PPLV/Widen/ImplH79Proofs*.lean`, `PPLV/Widen/ImplBHRZ03Proofs.lean`).
The weakly-relational widenings are in `PPLV/Props/C08ImplShape.lean`, the grid widenings in
`PPLV/Props/C08ImplGrid.lean`.

The running example of the non-vacuity checks (`PPLV/Widen/ImplH79ProofsEx.lean`): `y = [0, 1]`,
`x = [0, 2]` in dimension 1, with `MinimalDD 1 yEx` PROVED (`yEx_minimal`); the selection keeps `p ≥ 0`.
-/
namespace C08
open PPLV.Widen PPLV.Widen.Impl

/-- what `H79_widening_assign` leaves in `*this`, as a point set -/
def resDen (x : Poly) (γx γy : Set Pt) : Res → Set Pt
  | .unchanged => γx
  | .assignY => γy
  | .fresh cs => den x.nnc x.n cs

/-! ### data of the examples -/

/-- `x = [0, 2]` with up-to-date constraints -/
def exPoly : Poly :=
  { nnc := false, n := 1, markedEmpty := false, pendingGens := false, consUpToDate := true,
    conSys := xEx.conSys, genSys := xEx.genSys }

/-- the same `x` given by generators only (the [CousotH78] shortcut is taken) -/
def exPolyGens : Poly := { exPoly with consUpToDate := false }

def exOracle : Oracle :=
  { yMin := some yEx, xConsUpdated := xEx.conSys, ySel := yEx, xContains := fun _ => false }

/-! ## `select_H79_constraints` -/

/-- **only constraints of `x` are kept**: `cs_selected` and `cs_not_selected` partition `x.con_sys`
    in order. -/
theorem h79_selected_sublist (nnc : Bool) (xCs yCs : List CRow) (yGens : List GRow) (satG : List BitRow) :
    (selectH79Constraints nnc xCs yCs yGens satG).1.Sublist xCs ∧
    (selectH79Constraints nnc xCs yCs yGens satG).2.Sublist xCs ∧
    ∀ c ∈ xCs, c ∈ (selectH79Constraints nnc xCs yCs yGens satG).1 ∨
               c ∈ (selectH79Constraints nnc xCs yCs yGens satG).2 := by
  rw [selectH79_fst, selectH79_snd]
  refine ⟨List.filter_sublist, List.filter_sublist, fun c hc => ?_⟩
  by_cases h : sortedContains (tmpSatG nnc yCs satG) (satRow c yGens) = true
  · exact Or.inl (List.mem_filter.mpr ⟨hc, h⟩)
  · exact Or.inr (List.mem_filter.mpr ⟨hc, by simpa using h⟩)

example : selectH79Constraints false xEx.conSys yEx.conSys yEx.genSys yEx.satG =
    ([⟨[0, 1], false⟩], [⟨[2, -1], false⟩]) := by decide

/-- **what the selection guarantees**: a selected constraint of `x` is positive on exactly the generators
    of `y` on which some row `cj` of `y`'s minimal system is positive (it saturates the same generators). -/
theorem h79_selected_are_ys (nnc : Bool) (xCs yCs : List CRow) (yGens : List GRow) (satG : List BitRow)
    (hs : satG = yCs.map fun c => satRow c yGens)
    (ci : CRow) (hci : ci ∈ (selectH79Constraints nnc xCs yCs yGens satG).1) :
    ∃ cj ∈ yCs, ∀ g ∈ yGens, (0 < sp ci.e g.e ↔ 0 < sp cj.e g.e) := by
  obtain ⟨_, b, hb, hbe⟩ := mem_selectH79_fst hci
  have hl : satG.length = yCs.length := by rw [hs]; simp
  have hb' := mem_tmpSatG hl hb
  rw [hs, List.mem_map] at hb'
  obtain ⟨cj, hcj, hcjb⟩ := hb'
  refine ⟨cj, hcj, fun g hg => ?_⟩
  have he : satRow ci yGens = satRow cj yGens := by rw [← hbe, hcjb]
  unfold satRow at he
  have := List.map_inj_left.mp he g hg
  simpa using this

example : (⟨[0, 1], false⟩ : CRow) ∈ (selectH79Constraints false xEx.conSys yEx.conSys yEx.genSys yEx.satG).1 ∧
    yEx.satG = yEx.conSys.map fun c => satRow c yEx.genSys := by decide

/-- … and with at most one tautology in `y.con_sys` (every minimised closed polyhedron) the matched row is
    not a tautology: the swap-with-last loop removes exactly the tautological rows. -/
theorem h79_selected_are_ys_nontaut (nnc : Bool) (xCs yCs : List CRow) (yGens : List GRow) (satG : List BitRow)
    (hs : satG = yCs.map fun c => satRow c yGens)
    (h1 : (yCs.filter (·.isTautological nnc)).length ≤ 1)
    (ci : CRow) (hci : ci ∈ (selectH79Constraints nnc xCs yCs yGens satG).1) :
    ∃ cj ∈ yCs, cj.isTautological nnc = false ∧ satRow ci yGens = satRow cj yGens := by
  obtain ⟨_, b, hb, hbe⟩ := mem_selectH79_fst hci
  have hl : satG.length = yCs.length := by rw [hs]; simp
  obtain ⟨j, hj, hnt, hsj⟩ := mem_tmpSatG_nontaut hl h1 hb
  refine ⟨yCs.getD j default, ?_, hnt, ?_⟩
  · rw [List.getD_eq_getElem _ _ hj]; exact List.getElem_mem hj
  · rw [← hbe, ← hsj]
    have hj' : j < satG.length := by omega
    rw [List.getD_eq_getElem _ _ hj', List.getD_eq_getElem _ _ hj]
    simp [hs]

/-- a system with the positivity constraint (a tautology) in the middle: the loop swaps it out -/
example : (([⟨[0, 1], false⟩, ⟨[1, 0], false⟩, ⟨[1, -1], false⟩] : List CRow).filter
      (·.isTautological false)).length ≤ 1 ∧
    tmpSatG false [⟨[0, 1], false⟩, ⟨[1, 0], false⟩, ⟨[1, -1], false⟩]
      [[false, true], [true, true], [true, false]] = [[false, true], [true, false]] := by decide

/-- the hypothesis `h1` cannot be dropped: with two tautologies (first and last row) the loop swaps the last
    row to the front and never examines it — the row of a tautology stays in `tmp_sat_g` (the quirk of the
    swap-with-last loop; for closed minimised systems there is at most one tautology) -/
example : tmpSatG false [⟨[1, 0], false⟩, ⟨[0, 1], false⟩, ⟨[2, 0], false⟩]
      [[true, true], [false, true], [true, false]] = [[true, false], [false, true]] ∧
    (⟨[2, 0], false⟩ : CRow).isTautological false = true := by decide

/-! ## `H79_widening_assign` -/

/-- **`result ⊇ x`** (closed polyhedra, every path of the function): the constraint path keeps a sublist of
    `x.con_sys`; the [CousotH78] shortcut keeps the constraints of `y` that all generators of `x` satisfy;
    `x = y` is taken only when all of them do. -/
theorem h79_contains_x (x : Poly) (hc : x.nnc = false) (yEmpty : Bool) (o : Oracle) (tp : Option Nat)
    (γx γy : Set Pt)
    (hx : γx ⊆ den false x.n o.xConsUpdated)
    (hgen : ∀ c : CRow, satisfiedByAllGenerators false x.genSys c = true → ∀ p ∈ γx, c.holds (hom x.n p 0))
    (hy : ∀ y, o.yMin = some y → den false x.n y.conSys ⊆ γy) :
    γx ⊆ resDen x γx γy (h79WideningAssign x yEmpty o tp).1 := by
  have hch : ∀ ycs : List CRow, γx ⊆ den false x.n (selectCH78Constraints false x.genSys ycs) := by
    intro ycs p hp c hcm
    exact hgen c (List.mem_filter.mp hcm).2 p hp
  rcases h79_cases x yEmpty o tp with h | ⟨y, hym, _, hlen, h⟩ | ⟨y, _, _, h⟩ | h
  · rw [h]; exact subset_rfl
  · rw [h]
    rw [hc] at hlen
    unfold selectCH78Constraints at hlen
    rw [List.length_filter_eq_length_iff] at hlen
    intro p hp
    exact hy y hym fun c hcm => hgen c (hlen c hcm) p hp
  · rw [h]
    simp only [resDen, hc]
    exact hch _
  · rw [h]
    simp only [resDen, hc]
    exact hx.trans (den_mono_sublist false x.n (h79_selected_sublist _ _ _ _ _).1)

/-- constraint path: `[0, 2] ∇ [0, 1] = [0, +∞)` -/
example : den false 1 xEx.conSys ⊆ den false 1 [⟨[0, 1], false⟩] := by
  have h := h79_contains_x exPoly rfl false exOracle none (den false 1 xEx.conSys) (den false 1 yEx.conSys)
    subset_rfl xEx_hgen (fun y hy => by cases hy; exact subset_rfl)
  have e : (h79WideningAssign exPoly false exOracle none).1 = .fresh [⟨[0, 1], false⟩] := by rfl
  rw [e] at h
  exact h

/-- generator path ([CousotH78] shortcut): the same result -/
example : (h79WideningAssign exPolyGens false exOracle none).1 = .fresh [⟨[0, 1], false⟩] ∧
    den false 1 xEx.conSys ⊆ resDen exPolyGens (den false 1 xEx.conSys) (den false 1 yEx.conSys)
      (h79WideningAssign exPolyGens false exOracle none).1 :=
  ⟨by rfl, h79_contains_x exPolyGens rfl false exOracle none _ _ subset_rfl xEx_hgen
    (fun y hy => by cases hy; exact subset_rfl)⟩

/-- **`Generator_System::satisfied_by_all_generators` is sound** (closed polyhedra): a constraint of at most
    `n + 1` columns that every generator satisfies holds at every point generated by them (`GenComb`:
    non-negative combination of points and rays, free combination of lines, divisors summing to `1`). -/
theorem h79_satisfied_by_all_generators_sound (n : Nat) (gs : List GRow) (c : CRow) (hlen : c.e.length ≤ n + 1)
    (h : satisfiedByAllGenerators false gs c = true) (p : Pt) (hp : GenComb n gs p) :
    c.holds (hom n p 0) :=
  satisfiedByAllGenerators_sound hlen h hp

/-- **`result ⊇ x`** with the double-description contract in place of the soundness hypothesis `hgen`:
    `x` is generated by `x.gen_sys` and the rows of `y` have `n + 1` columns. -/
theorem h79_contains_x_gens (x : Poly) (hc : x.nnc = false) (yEmpty : Bool) (o : Oracle) (tp : Option Nat)
    (γx γy : Set Pt)
    (hx : γx ⊆ den false x.n o.xConsUpdated)
    (hxg : ∀ p ∈ γx, GenComb x.n x.genSys p)
    (hywf : ∀ y, o.yMin = some y → WFRows x.n y.conSys)
    (hy : ∀ y, o.yMin = some y → den false x.n y.conSys ⊆ γy) :
    γx ⊆ resDen x γx γy (h79WideningAssign x yEmpty o tp).1 := by
  have hch : ∀ y, o.yMin = some y → ∀ c ∈ y.conSys, satisfiedByAllGenerators false x.genSys c = true →
      ∀ p ∈ γx, c.holds (hom x.n p 0) := fun y hym c hcm hs p hp =>
    satisfiedByAllGenerators_sound (le_of_eq (hywf y hym c hcm)) hs (hxg p hp)
  rcases h79_cases x yEmpty o tp with h | ⟨y, hym, _, hlen, h⟩ | ⟨y, hym, _, h⟩ | h
  · rw [h]; exact subset_rfl
  · rw [h]
    rw [hc] at hlen
    unfold selectCH78Constraints at hlen
    rw [List.length_filter_eq_length_iff] at hlen
    intro p hp
    exact hy y hym fun c hcm => hch y hym c hcm (hlen c hcm) p hp
  · rw [h]
    simp only [resDen, hc]
    intro p hp c hcm
    obtain ⟨hcy, hs⟩ := List.mem_filter.mp hcm
    exact hch y hym c hcy hs p hp
  · rw [h]
    simp only [resDen, hc]
    exact hx.trans (den_mono_sublist false x.n (h79_selected_sublist _ _ _ _ _).1)

example : den false 1 xEx.conSys ⊆ resDen exPolyGens (den false 1 xEx.conSys) (den false 1 yEx.conSys)
    (h79WideningAssign exPolyGens false exOracle none).1 :=
  h79_contains_x_gens exPolyGens rfl false exOracle none _ _ subset_rfl exPoly_gens
    (fun y hy => by cases hy; exact yEx_wf) (fun y hy => by cases hy; exact subset_rfl)

/-- the same for NNC polyhedra on the constraint path.  `_partial`: the [CousotH78] shortcut of an NNC `x`
    given by generators only is not covered (the eps-representation semantics of
    `satisfied_by_all_generators` is not formalised). -/
theorem h79_contains_x_nnc_partial (x : Poly) (yEmpty : Bool) (o : Oracle) (tp : Option Nat)
    (hpath : x.pendingGens = false ∧ x.consUpToDate = true)
    (γx γy : Set Pt) (hx : γx ⊆ den x.nnc x.n o.xConsUpdated) :
    γx ⊆ resDen x γx γy (h79WideningAssign x yEmpty o tp).1 := by
  rcases h79_cases_conspath x yEmpty o tp hpath with h | h
  · rw [h]; exact subset_rfl
  · rw [h]
    exact hx.trans (den_mono_sublist x.nnc x.n (h79_selected_sublist _ _ _ _ _).1)

/-- an NNC instance: `x = {0 ≤ p < 3}`, `y = [0, 1]`, rows with the epsilon column -/
example : (h79WideningAssign
    { nnc := true, n := 1, markedEmpty := false, pendingGens := false, consUpToDate := true,
      conSys := [⟨[0, 1, 0], false⟩, ⟨[3, -1, -1], false⟩], genSys := [] } false
    { yMin := some ⟨[⟨[0, 1, 0], false⟩, ⟨[1, -1, 0], false⟩], [⟨[1, 0, 1], false⟩, ⟨[1, 1, 1], false⟩],
        [[false, true], [true, false]]⟩,
      xConsUpdated := [⟨[0, 1, 0], false⟩, ⟨[3, -1, -1], false⟩],
      ySel := ⟨[⟨[0, 1, 0], false⟩, ⟨[1, -1, 0], false⟩], [⟨[1, 0, 1], false⟩, ⟨[1, 1, 1], false⟩],
        [[false, true], [true, false]]⟩,
      xContains := fun _ => false } none).1 = .fresh [⟨[0, 1, 0], false⟩] := by rfl

/-- **token protocol of `H79_widening_assign`** -/
theorem h79_token_spec (x : Poly) (yEmpty : Bool) (o : Oracle) (t : Nat) (ht : 0 < t) :
    (h79WideningAssign x yEmpty o (some t)).1 = .unchanged ∨ (h79WideningAssign x yEmpty o (some t)).1 = .assignY :=
  h79_token x yEmpty o t ht

/-- with a token: `x` untouched, the token consumed because `x` does not contain the widened polyhedron -/
example : h79WideningAssign exPoly false exOracle (some 2) = (.unchanged, some 1) := by rfl

/-- **the result is described by a sub-system of `y`'s minimal system** when the affine hull did not grow -/
theorem h79_constraints_subset_of_y (n : Nat) (x y : YMin) (hy : MinimalDD n y) (hxwf : WFRows n x.conSys)
    (hyx : den false n y.conSys ⊆ den false n x.conSys)
    (hdim : annih n (den false n (h79Rows x y)) = annih n (den false n y.conSys)) :
    ∃ sub : List CRow, sub.Sublist (y.conSys.filter (!·.isTautological false)) ∧
      den false n sub = den false n (h79Rows x y) :=
  ⟨h79Sub x y, h79Sub_sublist x y, h79Sub_den n x y hy hxwf hyx hdim⟩

/-- the sub-system of the running example -/
example : h79Sub xEx yEx = [⟨[0, 1], false⟩] ∧ MinimalDD 1 yEx ∧ WFRows 1 xEx.conSys ∧
    den false 1 yEx.conSys ⊆ den false 1 xEx.conSys :=
  ⟨by decide, yEx_minimal, xEx_wf, yEx_sub_xEx⟩

/-- **non-stationary ⇒ the H79 certificate strictly decreases**.  `_partial`: the contract `MinimalDD` of the
    minimised `y` (`hymin`, `hfacet`) is a hypothesis here.  It is DISCHARGED for every `y` produced by the engine
    model `PPLV.Conv.minimize` (`h79_minimalDD_engine`): see `h79_certificate_decreases_engine` (no hypothesis
    about minimal systems left).  For an NNC `y` (strong minimisation) it remains an assumption. -/
theorem h79_certificate_decreases_partial (n : Nat) (x y : YMin) (hy : MinimalDD n y) (hxwf : WFRows n x.conSys)
    (hyx : den false n y.conSys ⊆ den false n x.conSys)
    (hne : den false n (h79Rows x y) ≠ den false n y.conSys) :
    certLess (setCert n (den false n (h79Rows x y))) (setCert n (den false n y.conSys)) :=
  h79_certificate_decreases n x y hy hxwf hyx hne

/-- all hypotheses hold for `x = [0, 2]`, `y = [0, 1]` (the contract `MinimalDD` is proved for this `y`) -/
example : certLess (setCert 1 (den false 1 (h79Rows xEx yEx))) (setCert 1 (den false 1 yEx.conSys)) :=
  h79_certificate_decreases_partial 1 xEx yEx yEx_minimal xEx_wf yEx_sub_xEx h79Rows_ex_ne

/-- **the same decrease in the order of `H79_Certificate::compare(ph)`** (`H79Cert.LessPh`, well-founded by
    `h79_comparePh_wf`), for a non-empty `y` (then at most `n` independent equalities hold on it, proved:
    `eqRank_le`).  `_partial` for the same reason as above. -/
theorem h79_certificate_decreases_lessPh_partial (n : Nat) (x y : YMin) (hy : MinimalDD n y)
    (hxwf : WFRows n x.conSys)
    (hyx : den false n y.conSys ⊆ den false n x.conSys)
    (hyne : (den false n y.conSys).Nonempty)
    (hne : den false n (h79Rows x y) ≠ den false n y.conSys) :
    H79Cert.LessPh n (setH79Cert n (den false n (h79Rows x y))) (setH79Cert n (den false n y.conSys)) :=
  h79_certificate_decreases_lessPh n x y hy hxwf hyx hyne hne

example : H79Cert.LessPh 1 (setH79Cert 1 (den false 1 (h79Rows xEx yEx)))
    (setH79Cert 1 (den false 1 yEx.conSys)) :=
  h79_certificate_decreases_lessPh_partial 1 xEx yEx yEx_minimal xEx_wf yEx_sub_xEx
    ⟨fun _ => 0, by rw [mem_yEx]; norm_num⟩ h79Rows_ex_ne

/-- **the [CousotH78] shortcut (and `x = y`) decrease the certificate too**: a result described by a
    sub-system of `y`'s rows either denotes `y` or has a strictly smaller certificate.  `_partial`: rests on
    `MinimalDD.hymin` (not on `hfacet`); discharged for engine outputs by `h79_minimalDD_engine`. -/
theorem h79_ch78_certificate_decreases_partial (n : Nat) (y : YMin) (hy : MinimalDD n y) (xGens : List GRow)
    (hne : den false n (selectCH78Constraints false xGens y.conSys) ≠ den false n y.conSys) :
    certLess (setCert n (den false n (selectCH78Constraints false xGens y.conSys)))
      (setCert n (den false n y.conSys)) :=
  subsystem_certLess n y hy _ (selectCH78_sublist false xGens y.conSys) hne

example : selectCH78Constraints false xEx.genSys yEx.conSys = [⟨[0, 1], false⟩] ∧
    certLess (setCert 1 (den false 1 (selectCH78Constraints false xEx.genSys yEx.conSys)))
      (setCert 1 (den false 1 yEx.conSys)) := by
  have e : selectCH78Constraints false xEx.genSys yEx.conSys = [⟨[0, 1], false⟩] := by decide
  refine ⟨e, h79_ch78_certificate_decreases_partial 1 yEx yEx_minimal xEx.genSys ?_⟩
  rw [e]
  have := h79Rows_ex_ne
  rw [h79Rows_ex] at this
  exact this

/-- **the driver as a whole** (closed polyhedra, non-trivial call, no tokens): whatever way out
    `H79_widening_assign` takes — all constraints selected, `x = y`, the [CousotH78] shortcut, the selection —
    what it leaves in `*this` either denotes `y` or has a strictly smaller certificate than `y`.
    `_partial`: the contract `MinimalDD` of `y.minimize()` is a hypothesis; discharged when the oracle's `y` is the
    output of the engine model: `h79_driver_certificate_decreases_engine`. -/
theorem h79_driver_certificate_decreases_partial (x : Poly) (hc : x.nnc = false) (yEmpty : Bool) (o : Oracle)
    (y : YMin) (h1 : (x.n == 0 || x.markedEmpty || yEmpty) = false) (hym : o.yMin = some y) (hsel : o.ySel = y)
    (hy : MinimalDD x.n y) (hxwf : WFRows x.n o.xConsUpdated)
    (hyx : den false x.n y.conSys ⊆ den false x.n o.xConsUpdated)
    (hne : resDen x (den false x.n o.xConsUpdated) (den false x.n y.conSys)
      (h79WideningAssign x yEmpty o none).1 ≠ den false x.n y.conSys) :
    certLess (setCert x.n (resDen x (den false x.n o.xConsUpdated) (den false x.n y.conSys)
        (h79WideningAssign x yEmpty o none).1))
      (setCert x.n (den false x.n y.conSys)) := by
  have hrows : h79Rows ⟨o.xConsUpdated, [], []⟩ y =
      (selectH79Constraints x.nnc o.xConsUpdated o.ySel.conSys o.ySel.genSys o.ySel.satG).1 := by
    rw [h79Rows_eq, hc, hsel]
  have main : ∀ hne' : den false x.n (h79Rows ⟨o.xConsUpdated, [], []⟩ y) ≠ den false x.n y.conSys,
      certLess (setCert x.n (den false x.n (h79Rows ⟨o.xConsUpdated, [], []⟩ y)))
        (setCert x.n (den false x.n y.conSys)) :=
    h79_certificate_decreases x.n ⟨o.xConsUpdated, [], []⟩ y hy hxwf hyx
  rcases h79_cases_notoken x yEmpty o y h1 hym with ⟨h, hemp⟩ | h | h | h
  · rw [h] at hne ⊢
    have e : h79Rows ⟨o.xConsUpdated, [], []⟩ y = o.xConsUpdated := by
      rw [hrows]; exact selectH79_fst_of_snd_empty _ _ _ _ _ hemp
    simp only [resDen] at hne ⊢
    rw [e] at main
    exact main hne
  · rw [h] at hne
    exact absurd rfl hne
  · rw [h] at hne ⊢
    simp only [resDen, hc] at hne ⊢
    exact subsystem_certLess x.n y hy _ (selectCH78_sublist false x.genSys y.conSys) hne
  · rw [h] at hne ⊢
    simp only [resDen, hc] at hne ⊢
    rw [hc] at hrows
    rw [← hrows] at hne ⊢
    exact main hne

example : certLess (setCert 1 (den false 1 [⟨[0, 1], false⟩])) (setCert 1 (den false 1 yEx.conSys)) := by
  have hne : den false 1 [⟨[0, 1], false⟩] ≠ den false 1 yEx.conSys := by
    have := h79Rows_ex_ne
    rw [h79Rows_ex] at this
    exact this
  exact h79_driver_certificate_decreases_partial exPoly rfl false exOracle yEx rfl rfl rfl yEx_minimal
    xEx_wf yEx_sub_xEx hne

/-! ### every ascending chain stabilises -/

/-! ### the contract `MinimalDD` derived from the conversion engine (closed polyhedra)

`MinimalDD.hfacet` and `MinimalDD.hymin` are no longer bare assumptions: they follow from `EngineDD`
(`PPLV/Widen/ImplH79ProofsEngine0.lean`), which is PROVED of the output of the engine model `PPLV.Conv.minimize`
from `C01.conversion_dd_pair`, `C01.minimize_same_set`, `C01.minimize_minimal_form` and the echelon form of
`gauss`, plus `GPos` (proved when the positivity constraint is a row of the system given to `minimize`) and
`FacetPoints` (every non-tautological inequality is saturated by a point of the generator system).
`FacetPoints` is derived from the engine model too (`facetPoints_of_minimize`, from the back-substituted normal
form of the inequalities and the independence rule); it cannot be dropped: without it the minimum-cardinality
clause is false (`h79_engine_contract_needs_facetPoints`). -/

/-- **`MinimalDD` from the engine's guarantees** -/
theorem h79_minimalDD_of_engine (n : Nat) (y : YMin) (hy : EngineDD n y) (hgp : GPos y) (hfp : FacetPoints y) :
    MinimalDD n y := minimalDD_of_engine n y hy hgp hfp

example : MinimalDD 1 yGood :=
  h79_minimalDD_of_engine 1 yGood engine_yGood (by intro g hg; revert g hg; decide) facetPoints_yGood

/-- **the output of the engine model satisfies `EngineDD` and `GPos`**: `minimize(true, cs, gs, sat)` on a
    closed constraint system of dimension `n` that carries its positivity row and is not reported empty. -/
theorem h79_engine_contract (n : Nat) (source : List PPLV.Conv.LRow) (sat0 : List PPLV.Conv.BRow)
    (hsz : n + 1 < 2 ^ 64) (hsrc : source.length < 2 ^ 64) (hlen : ∀ s ∈ source, s.v.length = n + 1)
    (hne : (PPLV.Conv.minimize true false (n + 1) source sat0).empty = false)
    (hpos : (⟨false, 1 :: List.replicate n 0⟩ : PPLV.Conv.LRow) ∈ source) :
    EngineDD n (ofEngine (PPLV.Conv.minimize true false (n + 1) source sat0)) ∧
    GPos (ofEngine (PPLV.Conv.minimize true false (n + 1) source sat0)) :=
  ⟨engineDD_of_minimize n source sat0 hsz hsrc hlen hne, gpos_of_minimize n source sat0 hsz hsrc hlen hne hpos⟩

example : EngineDD 1 (ofEngine (PPLV.Conv.minimize true false 2 [⟨false, [0, 1]⟩, ⟨false, [3, -1]⟩, ⟨false, [1, 0]⟩] [])) ∧
    GPos (ofEngine (PPLV.Conv.minimize true false 2 [⟨false, [0, 1]⟩, ⟨false, [3, -1]⟩, ⟨false, [1, 0]⟩] [])) :=
  h79_engine_contract 1 _ [] (by norm_num) (by simp) (by decide) (by decide) (by simp)

/-- `EngineDD` alone does not give the minimum-cardinality clause: `{x = 0, 1 + x ≥ 0}` (the positivity
    constraint in disguise, which the real `simplify` turns into a tautology by back-substitution) has every
    field of `EngineDD`, two non-tautological rows, and is denoted by one row. -/
theorem h79_engine_contract_needs_facetPoints :
    EngineDD 1 yBad ∧
      (yBad.conSys.filter (!·.isTautological false)).length ≠ minCons 1 (den false 1 yBad.conSys) :=
  hymin_fails_without_facetPoints

/-- **non-stationary ⇒ the H79 certificate strictly decreases, for a `y` minimised by the engine model.**
    `_partial`: `FacetPoints` is still a hypothesis in this intermediate form; it is now proved of the engine
    output (`facetPoints_of_minimize`), which gives `h79_certificate_decreases_engine` below. -/
theorem h79_certificate_decreases_engine_partial (n : Nat) (x : YMin) (source : List PPLV.Conv.LRow)
    (sat0 : List PPLV.Conv.BRow)
    (hsz : n + 1 < 2 ^ 64) (hsrc : source.length < 2 ^ 64) (hlen : ∀ s ∈ source, s.v.length = n + 1)
    (hne : (PPLV.Conv.minimize true false (n + 1) source sat0).empty = false)
    (hpos : (⟨false, 1 :: List.replicate n 0⟩ : PPLV.Conv.LRow) ∈ source)
    (hfp : FacetPoints (ofEngine (PPLV.Conv.minimize true false (n + 1) source sat0)))
    (hxwf : WFRows n x.conSys)
    (hyx : den false n (ofEngine (PPLV.Conv.minimize true false (n + 1) source sat0)).conSys ⊆ den false n x.conSys)
    (hne' : den false n (h79Rows x (ofEngine (PPLV.Conv.minimize true false (n + 1) source sat0))) ≠
            den false n (ofEngine (PPLV.Conv.minimize true false (n + 1) source sat0)).conSys) :
    certLess (setCert n (den false n (h79Rows x (ofEngine (PPLV.Conv.minimize true false (n + 1) source sat0)))))
      (setCert n (den false n (ofEngine (PPLV.Conv.minimize true false (n + 1) source sat0)).conSys)) := by
  obtain ⟨hE, hG⟩ := h79_engine_contract n source sat0 hsz hsrc hlen hne hpos
  exact h79_certificate_decreases_partial n x _ (minimalDD_of_engine n _ hE hG hfp) hxwf hyx hne'

/-- the same from the abstract guarantees (any `y` with `EngineDD`, `GPos`, `FacetPoints`) -/
theorem h79_certificate_decreases_of_engineDD (n : Nat) (x y : YMin) (hy : EngineDD n y) (hgp : GPos y)
    (hfp : FacetPoints y) (hxwf : WFRows n x.conSys)
    (hyx : den false n y.conSys ⊆ den false n x.conSys)
    (hne : den false n (h79Rows x y) ≠ den false n y.conSys) :
    certLess (setCert n (den false n (h79Rows x y))) (setCert n (den false n y.conSys)) :=
  h79_certificate_decreases_partial n x y (minimalDD_of_engine n y hy hgp hfp) hxwf hyx hne


/-! ### closed polyhedra whose smaller argument is minimised by the engine model: no assumption left

`facetPoints_of_minimize` / `minimalDD_of_minimize` (`PPLV/Widen/ImplH79ProofsEngineFacetPoints.lean`) prove the
whole contract `MinimalDD` of the output of `PPLV.Conv.minimize` on a closed constraint system that carries its
positivity row and is not reported empty.  The `_partial` theorems above therefore hold without any hypothesis
about minimal systems when `y` is such an output. -/

/-- the minimised description the engine model returns for the constraint system `source` (dimension `n`) -/
abbrev engineY (n : Nat) (source : List PPLV.Conv.LRow) (sat0 : List PPLV.Conv.BRow) : YMin :=
  ofEngine (PPLV.Conv.minimize true false (n + 1) source sat0)

/-- **the engine output satisfies the whole contract `MinimalDD`** -/
theorem h79_minimalDD_engine (n : Nat) (source : List PPLV.Conv.LRow) (sat0 : List PPLV.Conv.BRow)
    (hsz : n + 1 < 2 ^ 64) (hsrc : source.length < 2 ^ 64) (hlen : ∀ s ∈ source, s.v.length = n + 1)
    (hne : (PPLV.Conv.minimize true false (n + 1) source sat0).empty = false)
    (hpos : (⟨false, 1 :: List.replicate n 0⟩ : PPLV.Conv.LRow) ∈ source) :
    MinimalDD n (engineY n source sat0) :=
  minimalDD_of_minimize n source sat0 hsz hsrc hlen hne hpos

example : MinimalDD 1 (engineY 1 [⟨false, [0, 1]⟩, ⟨false, [3, -1]⟩, ⟨false, [1, 0]⟩] []) :=
  h79_minimalDD_engine 1 _ [] (by norm_num) (by simp) (by decide) (by decide) (by simp)

/-- **non-stationary ⇒ the H79 certificate strictly decreases** (closed polyhedra, `y` minimised by the engine
    model): full strength, nothing assumed about minimal systems. -/
theorem h79_certificate_decreases_engine (n : Nat) (x : YMin) (source : List PPLV.Conv.LRow)
    (sat0 : List PPLV.Conv.BRow)
    (hsz : n + 1 < 2 ^ 64) (hsrc : source.length < 2 ^ 64) (hlen : ∀ s ∈ source, s.v.length = n + 1)
    (hne : (PPLV.Conv.minimize true false (n + 1) source sat0).empty = false)
    (hpos : (⟨false, 1 :: List.replicate n 0⟩ : PPLV.Conv.LRow) ∈ source)
    (hxwf : WFRows n x.conSys)
    (hyx : den false n (engineY n source sat0).conSys ⊆ den false n x.conSys)
    (hne' : den false n (h79Rows x (engineY n source sat0)) ≠ den false n (engineY n source sat0).conSys) :
    certLess (setCert n (den false n (h79Rows x (engineY n source sat0))))
      (setCert n (den false n (engineY n source sat0).conSys)) :=
  h79_certificate_decreases_partial n x _ (minimalDD_of_minimize n source sat0 hsz hsrc hlen hne hpos) hxwf hyx hne'

/-- the same in the order of `H79_Certificate::compare(ph)` (`H79Cert.LessPh`) -/
theorem h79_certificate_decreases_lessPh_engine (n : Nat) (x : YMin) (source : List PPLV.Conv.LRow)
    (sat0 : List PPLV.Conv.BRow)
    (hsz : n + 1 < 2 ^ 64) (hsrc : source.length < 2 ^ 64) (hlen : ∀ s ∈ source, s.v.length = n + 1)
    (hne : (PPLV.Conv.minimize true false (n + 1) source sat0).empty = false)
    (hpos : (⟨false, 1 :: List.replicate n 0⟩ : PPLV.Conv.LRow) ∈ source)
    (hxwf : WFRows n x.conSys)
    (hyx : den false n (engineY n source sat0).conSys ⊆ den false n x.conSys)
    (hyne : (den false n (engineY n source sat0).conSys).Nonempty)
    (hne' : den false n (h79Rows x (engineY n source sat0)) ≠ den false n (engineY n source sat0).conSys) :
    H79Cert.LessPh n (setH79Cert n (den false n (h79Rows x (engineY n source sat0))))
      (setH79Cert n (den false n (engineY n source sat0).conSys)) :=
  h79_certificate_decreases_lessPh_partial n x _ (minimalDD_of_minimize n source sat0 hsz hsrc hlen hne hpos)
    hxwf hyx hyne hne'

/-- **the driver `H79_widening_assign` as a whole** (closed, non-trivial call, no tokens), when the oracle's
    minimised `y` is the engine output: what it leaves in `*this` denotes `y` or has a strictly smaller
    certificate — full strength. -/
theorem h79_driver_certificate_decreases_engine (x : Poly) (hc : x.nnc = false) (yEmpty : Bool) (o : Oracle)
    (source : List PPLV.Conv.LRow) (sat0 : List PPLV.Conv.BRow)
    (hsz : x.n + 1 < 2 ^ 64) (hsrc : source.length < 2 ^ 64) (hlen : ∀ s ∈ source, s.v.length = x.n + 1)
    (hne : (PPLV.Conv.minimize true false (x.n + 1) source sat0).empty = false)
    (hpos : (⟨false, 1 :: List.replicate x.n 0⟩ : PPLV.Conv.LRow) ∈ source)
    (h1 : (x.n == 0 || x.markedEmpty || yEmpty) = false)
    (hym : o.yMin = some (engineY x.n source sat0)) (hsel : o.ySel = engineY x.n source sat0)
    (hxwf : WFRows x.n o.xConsUpdated)
    (hyx : den false x.n (engineY x.n source sat0).conSys ⊆ den false x.n o.xConsUpdated)
    (hne' : resDen x (den false x.n o.xConsUpdated) (den false x.n (engineY x.n source sat0).conSys)
      (h79WideningAssign x yEmpty o none).1 ≠ den false x.n (engineY x.n source sat0).conSys) :
    certLess (setCert x.n (resDen x (den false x.n o.xConsUpdated) (den false x.n (engineY x.n source sat0).conSys)
        (h79WideningAssign x yEmpty o none).1))
      (setCert x.n (den false x.n (engineY x.n source sat0).conSys)) :=
  h79_driver_certificate_decreases_partial x hc yEmpty o _ h1 hym hsel
    (minimalDD_of_minimize x.n source sat0 hsz hsrc hlen hne hpos) hxwf hyx hne'


/-- minimised closed polyhedra -/
abbrev MinPoly (n : Nat) := {y : YMin // MinimalDD n y}

/-- the model's H79 widening followed by `minimize()` (an oracle with the contract `hmini`) -/
def h79Min (n : Nat) (mini : List CRow → YMin)
    (hmini : ∀ cs, WFRows n cs → MinimalDD n (mini cs) ∧ den false n (mini cs).conSys = den false n cs)
    (x y : MinPoly n) : MinPoly n :=
  ⟨mini (h79Rows x.1 y.1), (hmini _ (wfRows_sublist (h79Rows_sublist x.1 y.1) x.2.wf)).1⟩

/-- **every ascending chain stabilises** (H79, closed polyhedra): whatever larger minimised arguments
    `z k y ⊇ y` the environment supplies, the iteration `y_{k+1} = minimize (H79 (z k y_k) y_k)` is eventually
    stationary as a sequence of point sets.  `_partial` only because `minimize()` is an oracle with
    the contract `hmini` (`MinimalDD` + same point set); the engine model `PPLV.Conv.minimize` satisfies `MinimalDD`
    on every non-empty closed system carrying its positivity row (`h79_minimalDD_engine`). -/
theorem h79_chain_stabilises_partial (n : Nat) (mini : List CRow → YMin)
    (hmini : ∀ cs, WFRows n cs → MinimalDD n (mini cs) ∧ den false n (mini cs).conSys = den false n cs)
    (x0 : MinPoly n) (z : Nat → MinPoly n → MinPoly n)
    (hz : ∀ k (y : MinPoly n), den false n y.1.conSys ⊆ den false n (z k y).1.conSys) :
    ∃ N, ∀ i ≥ N,
      den false n (advSeq (h79Min n mini hmini) x0 z (i + 1)).1.conSys =
      den false n (advSeq (h79Min n mini hmini) x0 z i).1.conSys := by
  have hw : ∀ x y : MinPoly n, den false n (h79Min n mini hmini x y).1.conSys =
      den false n (h79Rows x.1 y.1) := fun x y =>
    (hmini _ (wfRows_sublist (h79Rows_sublist x.1 y.1) x.2.wf)).2
  exact PPLV.Widen.converges_adversary (fun y : MinPoly n => den false n y.1.conSys)
    (h79Min n mini hmini) (fun y => setCert n (den false n y.1.conSys)) certLess certLess_wf
    (fun a b h => by simp only [h])
    (fun x y hyx hne => by
      simp only [hw] at hne ⊢
      exact h79_certificate_decreases n x.1 y.1 y.2 x.2.wf hyx hne)
    x0 z hz

/-- the step of the iteration on the running example (a total `mini` is a minimiser, which this model does
    not contain; `hmini` is the contract of `Polyhedron::minimize()`, cf. C01) -/
example : (⟨yEx, yEx_minimal⟩ : MinPoly 1).1.conSys = yEx.conSys := rfl

/-- **the same for every way out of the driver**: any operator on minimised closed polyhedra whose result
    denotes the selected rows of `x` or a sub-system of the rows of `y` (all rows selected / `x = y` / the
    [CousotH78] shortcut / the selection, cf. `h79_driver_certificate_decreases_partial`) converges against
    every adversary.  `_partial`: the contract `MinimalDD` of the states (discharged for engine outputs,
    `h79_minimalDD_engine`). -/
theorem h79_chain_stabilises_every_path_partial (n : Nat) (w : MinPoly n → MinPoly n → MinPoly n)
    (hw : ∀ x y : MinPoly n, den false n y.1.conSys ⊆ den false n x.1.conSys →
      den false n (w x y).1.conSys = den false n (h79Rows x.1 y.1) ∨
      ∃ sub : List CRow, sub.Sublist y.1.conSys ∧ den false n (w x y).1.conSys = den false n sub)
    (x0 : MinPoly n) (z : Nat → MinPoly n → MinPoly n)
    (hz : ∀ k (y : MinPoly n), den false n y.1.conSys ⊆ den false n (z k y).1.conSys) :
    ∃ N, ∀ i ≥ N,
      den false n (advSeq w x0 z (i + 1)).1.conSys = den false n (advSeq w x0 z i).1.conSys := by
  refine PPLV.Widen.converges_adversary (fun y : MinPoly n => den false n y.1.conSys)
    w (fun y => setCert n (den false n y.1.conSys)) certLess certLess_wf
    (fun a b h => by simp only [h]) ?_ x0 z hz
  intro x y hyx hne
  rcases hw x y hyx with h | ⟨sub, hsub, h⟩
  · simp only [h] at hne ⊢
    exact h79_certificate_decreases n x.1 y.1 y.2 x.2.wf hyx hne
  · simp only [h] at hne ⊢
    exact subsystem_certLess n y.1 y.2 sub hsub hne

/-- the operator "return `y`" (`x = y`, l. 225) satisfies `hw` -/
example (n : Nat) (y : MinPoly n) :
    ∃ sub : List CRow, sub.Sublist y.1.conSys ∧ den false n y.1.conSys = den false n sub :=
  ⟨y.1.conSys, List.Sublist.refl _, rfl⟩

/-! ### `limited_H79_extrapolation_assign` -/

/-! ### the chain theorem with the engine model as the minimiser -/

/-- the model's H79 step with `minimize()` := the engine model: `y_{k+1} = engine-minimise (selected rows of x)`,
    applied whenever the call is within the engine's preconditions (`y ⊆ x`, `y` not empty, sizes below `2^64`);
    outside them the step returns `y`. -/
noncomputable def h79Engine (n : Nat) (x y : MinPoly n) : MinPoly n :=
  open Classical in
  if h : den false n y.1.conSys ⊆ den false n x.1.conSys ∧ (den false n y.1.conSys).Nonempty ∧
      n + 1 < 2 ^ 64 ∧ x.1.conSys.length + 1 < 2 ^ 64
  then ⟨engineMini n (h79Rows x.1 y.1), (engineMini_step n x.1 y.1 x.2.wf h.1 h.2.1 h.2.2.1 h.2.2.2).1⟩
  else y

/-- within the preconditions the step denotes exactly the selected rows of `x` (the H79 widening) -/
theorem h79Engine_den (n : Nat) (x y : MinPoly n)
    (h : den false n y.1.conSys ⊆ den false n x.1.conSys ∧ (den false n y.1.conSys).Nonempty ∧
      n + 1 < 2 ^ 64 ∧ x.1.conSys.length + 1 < 2 ^ 64) :
    den false n (h79Engine n x y).1.conSys = den false n (h79Rows x.1 y.1) := by
  unfold h79Engine
  rw [dif_pos h]
  exact (engineMini_step n x.1 y.1 x.2.wf h.1 h.2.1 h.2.2.1 h.2.2.2).2

/-- **every ascending chain stabilises** (H79, closed polyhedra, `minimize()` = the engine model
    `PPLV.Conv.minimize`): against every adversary supplying larger minimised arguments, the iteration
    `y_{k+1} = minimize (H79 (z k y_k) y_k)` is eventually stationary as a sequence of point sets.  Nothing is
    assumed about minimal systems: the states carry `MinimalDD`, which the engine step re-establishes
    (`engineMini_step`, from `minimalDD_of_minimize`). -/
theorem h79_chain_stabilises_engine (n : Nat) (x0 : MinPoly n) (z : Nat → MinPoly n → MinPoly n)
    (hz : ∀ k (y : MinPoly n), den false n y.1.conSys ⊆ den false n (z k y).1.conSys) :
    ∃ N, ∀ i ≥ N,
      den false n (advSeq (h79Engine n) x0 z (i + 1)).1.conSys =
      den false n (advSeq (h79Engine n) x0 z i).1.conSys := by
  refine h79_chain_stabilises_every_path_partial n (h79Engine n) ?_ x0 z hz
  intro x y _
  by_cases h : den false n y.1.conSys ⊆ den false n x.1.conSys ∧ (den false n y.1.conSys).Nonempty ∧
      n + 1 < 2 ^ 64 ∧ x.1.conSys.length + 1 < 2 ^ 64
  · exact Or.inl (h79Engine_den n x y h)
  · refine Or.inr ⟨y.1.conSys, List.Sublist.refl _, ?_⟩
    unfold h79Engine
    rw [dif_neg h]

/-- non-vacuity: the engine output for `0 ≤ x ≤ 3` is a state, and one engine step from it against itself
    denotes its selected rows -/
example : ∃ y : MinPoly 1, den false 1 (h79Engine 1 y y).1.conSys = den false 1 (h79Rows y.1 y.1) ∨
    ¬ (den false 1 y.1.conSys).Nonempty :=
  ⟨⟨engineY 1 [⟨false, [0, 1]⟩, ⟨false, [3, -1]⟩, ⟨false, [1, 0]⟩] [],
     h79_minimalDD_engine 1 _ [] (by norm_num) (by simp) (by decide) (by decide) (by simp)⟩,
   by
     by_cases hne : (den false 1 (engineY 1 [⟨false, [0, 1]⟩, ⟨false, [3, -1]⟩, ⟨false, [1, 0]⟩] []).conSys).Nonempty
     · left
       refine h79Engine_den 1 _ _ ⟨subset_rfl, hne, by norm_num, ?_⟩
       have : (engineY 1 [⟨false, [0, 1]⟩, ⟨false, [3, -1]⟩, ⟨false, [1, 0]⟩] []).conSys.length = 2 := by decide
       show (engineY 1 _ []).conSys.length + 1 < 2 ^ 64
       rw [this]; norm_num
     · right; exact hne⟩


/-- **limited extrapolation**: the added constraints are a sublist of the supplied ones, each satisfied by
    all generators of `x`; as sets (closed polyhedra) `x ⊆ result ∩ den newCs ⊆ result`. -/
theorem h79_limited_between (x : Poly) (hc : x.nnc = false) (yEmpty : Bool) (o : Oracle) (xGens : List GRow)
    (cs : List CRow) (tp : Option Nat) (γx γy : Set Pt)
    (hx : γx ⊆ den false x.n o.xConsUpdated)
    (hgen : ∀ c : CRow, satisfiedByAllGenerators false x.genSys c = true → ∀ p ∈ γx, c.holds (hom x.n p 0))
    (hgen' : ∀ c : CRow, satisfiedByAllGenerators false xGens c = true → ∀ p ∈ γx, c.holds (hom x.n p 0))
    (hy : ∀ y, o.yMin = some y → den false x.n y.conSys ⊆ γy) :
    (limitedH79 x yEmpty o xGens cs tp).2.1.Sublist cs ∧
    (∀ c ∈ (limitedH79 x yEmpty o xGens cs tp).2.1, satisfiedByAllGenerators x.nnc xGens c = true) ∧
    γx ⊆ resDen x γx γy (limitedH79 x yEmpty o xGens cs tp).1 ∩
          den false x.n (limitedH79 x yEmpty o xGens cs tp).2.1 ∧
    resDen x γx γy (limitedH79 x yEmpty o xGens cs tp).1 ∩
          den false x.n (limitedH79 x yEmpty o xGens cs tp).2.1 ⊆
      resDen x γx γy (h79WideningAssign x yEmpty o tp).1 := by
  unfold limitedH79
  refine ⟨List.filter_sublist, fun c hcm => (List.mem_filter.mp hcm).2, ?_, Set.inter_subset_left⟩
  intro p hp
  refine ⟨h79_contains_x x hc yEmpty o tp γx γy hx hgen hy hp, ?_⟩
  intro c hcm
  have := (List.mem_filter.mp hcm).2
  rw [hc] at this
  exact hgen' c this p hp

/-- `p ≤ 5` is kept (both generators of `x = [0, 2]` satisfy it), `p ≤ 1` is dropped -/
example : (limitedH79 exPoly false exOracle xEx.genSys [⟨[5, -1], false⟩, ⟨[1, -1], false⟩] none).2.1 =
    [⟨[5, -1], false⟩] := by decide

/-! ## `BHRZ03_widening_assign` -/

/-- the certificate of what the driver leaves in `*this` (all taken from the oracle: certificates need the
    minimised generator systems) -/
def resCert (o : BOracle) (r : BRes) : BHRZ03Cert :=
  match r.branch with
  | .combining => o.cert1 (r.cs.getD [])
  | .points => o.cand2.cert
  | .rays => (o.cand3.getD default).cert
  | .h79 => o.h79.cert
  | _ => o.xCert

/-- the point set the driver leaves in `*this` (`cs = none`: `x` itself) -/
def bresDen (x : Poly) (γx : Set Pt) (r : BRes) : Set Pt :=
  match r.cs with
  | none => γx
  | some cs => den x.nnc x.n cs

/-- **the result passed the acceptance test of its technique**, by construction: a result of one of the
    three techniques is stabilizing w.r.t. `y_cert` and does not contain `H79`; the other ways out are the
    precheck, the token and the fallback `H79`. -/
theorem bhrz03_result_accepted (x : Poly) (yEmpty : Bool) (o : BOracle) (tp : Option Nat) :
    ((bhrz03WideningAssign x yEmpty o tp).branch = .combining ∨
     (bhrz03WideningAssign x yEmpty o tp).branch = .points ∨
     (bhrz03WideningAssign x yEmpty o tp).branch = .rays →
      ∃ c : Cand, (bhrz03WideningAssign x yEmpty o tp).cs = some c.cs ∧
        c.cert = resCert o (bhrz03WideningAssign x yEmpty o tp) ∧ accept o c = true ∧
        o.yCert.isStabilizing c.cert = true ∧ o.containsH79 c.cs = false ∧
        ((bhrz03WideningAssign x yEmpty o tp).branch = .combining →
          c.cs = o.h79.cs ++ combiningNewCs x.nnc x.n o.ySel.genSys o.h79.cs
            (selectH79Constraints x.nnc o.xCons o.ySel.conSys o.ySel.genSys o.ySel.satG).2) ∧
        ((bhrz03WideningAssign x yEmpty o tp).branch = .points → c = o.cand2) ∧
        ((bhrz03WideningAssign x yEmpty o tp).branch = .rays → o.cand3 = some c)) ∧
    ((bhrz03WideningAssign x yEmpty o tp).branch = .stabilizing →
      (o.yCert.isStabilizing o.xCert = true ∨ o.yContainsX = true) ∧
      (bhrz03WideningAssign x yEmpty o tp).cs = none) ∧
    ((bhrz03WideningAssign x yEmpty o tp).branch = .token →
      ∃ t, tp = some (t + 1) ∧ (bhrz03WideningAssign x yEmpty o tp).tp = some t ∧
        (bhrz03WideningAssign x yEmpty o tp).cs = none) ∧
    ((bhrz03WideningAssign x yEmpty o tp).branch = .h79 →
      (bhrz03WideningAssign x yEmpty o tp).cs = some o.h79.cs) := by
  have hacc : ∀ c : Cand, accept o c = true →
      o.yCert.isStabilizing c.cert = true ∧ o.containsH79 c.cs = false := by
    intro c h
    unfold accept at h
    simpa using h
  rcases bhrz03_cases x yEmpty o tp with h | h | ⟨hs, h⟩ | ⟨t, ht, h⟩ | h
  · rw [h]; simp
  · rw [h]; simp
  · rw [h]; simp [hs]
  · rw [h]; simp [ht]
  · rw [h]
    rcases bhrz03Tail_cases x o tp with ⟨c, hc, h'⟩ | ⟨ha, h'⟩ | ⟨c3, hc3, ha, h'⟩ | h'
    · rw [h']
      obtain ⟨ha, hcs, hcert⟩ := combining_some hc
      exact ⟨fun _ => ⟨c, rfl, by simp [resCert, hcert], ha, (hacc c ha).1, (hacc c ha).2,
        fun _ => hcs, fun hb => (by cases hb), fun hb => (by cases hb)⟩,
        fun hb => (by cases hb), fun hb => (by cases hb), fun hb => (by cases hb)⟩
    · rw [h']
      exact ⟨fun _ => ⟨o.cand2, rfl, by simp [resCert], ha, (hacc _ ha).1, (hacc _ ha).2,
        fun hb => (by cases hb), fun _ => rfl, fun hb => (by cases hb)⟩,
        fun hb => (by cases hb), fun hb => (by cases hb), fun hb => (by cases hb)⟩
    · rw [h']
      exact ⟨fun _ => ⟨c3, rfl, by simp [resCert, hc3], ha, (hacc _ ha).1, (hacc _ ha).2,
        fun hb => (by cases hb), fun hb => (by cases hb), fun _ => hc3⟩,
        fun hb => (by cases hb), fun hb => (by cases hb), fun hb => (by cases hb)⟩
    · rw [h']
      exact ⟨fun hb => (by rcases hb with hb | hb | hb <;> cases hb),
        fun hb => (by cases hb), fun hb => (by cases hb), fun _ => rfl⟩

/-- data of the BHRZ03 examples: `x = [0, 2]`, `y = [0, 1]`; `H79 = [0, +∞)`; the first technique does not
    apply (`x_minus_H79_cs` has one row), the second one offers `[0, 3]`, which is accepted -/
def exBOracle : BOracle :=
  { yMin := some yEx, xCons := xEx.conSys
    yCert := ⟨1, 0, 2, 2, [0]⟩, xCert := ⟨1, 0, 2, 2, [0]⟩, yContainsX := false, ySel := yEx
    h79 := ⟨[⟨[0, 1], false⟩], ⟨1, 0, 1, 1, [1]⟩⟩
    strictlyIntersects := fun _ => true, containsH79 := fun _ => false
    cert1 := fun _ => ⟨1, 0, 2, 2, [0]⟩
    cand2 := ⟨[⟨[0, 1], false⟩], ⟨1, 0, 1, 1, [1]⟩⟩
    cand3 := none }

example : (bhrz03WideningAssign exPoly false exBOracle none).branch = .points ∧
    accept exBOracle exBOracle.cand2 = true := by decide

example : (bhrz03WideningAssign exPoly false exBOracle (some 1)).branch = .token := by decide

/-- **H79 decrease ⇒ BHRZ03-stabilizing**, with NO further condition (the two extra hypotheses
    `cy.affineDim ≤ cr.affineDim`, `cy.linSpaceDim ≤ cr.linSpaceDim` of the plan are not needed:
    `BHRZ03_Certificate::compare(ph)` answers `1` as soon as the affine dimension grew, or the lineality
    grew, or — neither — the number of constraints shrank). -/
theorem h79_decrease_implies_bhrz03_stabilizing (cy cr : BHRZ03Cert)
    (h : (⟨cy.affineDim, cy.numConstraints⟩ : H79Cert).comparePh ⟨cr.affineDim, cr.numConstraints⟩ = .gt) :
    cy.isStabilizing cr = true :=
  PPLV.Widen.Impl.h79_decrease_implies_bhrz03_stabilizing cy cr h

example : (⟨1, 2⟩ : H79Cert).comparePh ⟨1, 1⟩ = .gt ∧
    (⟨1, 0, 2, 2, [0]⟩ : BHRZ03Cert).isStabilizing ⟨1, 0, 1, 1, [1]⟩ = true := by decide

/-- **the certificate of the result is stabilizing** on every way out that changes `x` (and on the precheck,
    unless `y ⊇ x`).  `_partial`: for the fallback the code only ASSERTS that H79 is stabilizing
    (`PPL_ASSERT(y_cert.is_stabilizing(x))`, l. 851, "The H79 widening is always stabilizing"); this is the
    hypothesis `hfallback` (it follows from `h79_certificate_decreases_partial` and
    `h79_decrease_implies_bhrz03_stabilizing` when the certificate data are those of the sets; for a `y`
    minimised by the engine model without any assumption: `bhrz03_fallback_stabilizing_engine`). -/
theorem bhrz03_certificate_decreases_partial (x : Poly) (yEmpty : Bool) (o : BOracle) (tp : Option Nat)
    (hfallback : o.yCert.isStabilizing o.h79.cert = true)
    (hb : (bhrz03WideningAssign x yEmpty o tp).branch ≠ .trivial ∧
          (bhrz03WideningAssign x yEmpty o tp).branch ≠ .yEmpty ∧
          (bhrz03WideningAssign x yEmpty o tp).branch ≠ .token) :
    o.yCert.isStabilizing (resCert o (bhrz03WideningAssign x yEmpty o tp)) = true ∨
    ((bhrz03WideningAssign x yEmpty o tp).branch = .stabilizing ∧ o.yContainsX = true) := by
  obtain ⟨h1, h2, h3, h4⟩ := bhrz03_result_accepted x yEmpty o tp
  cases hbr : (bhrz03WideningAssign x yEmpty o tp).branch with
  | trivial => exact absurd hbr hb.1
  | yEmpty => exact absurd hbr hb.2.1
  | token => exact absurd hbr hb.2.2
  | stabilizing =>
    rcases (h2 hbr).1 with h | h
    · left; simp only [resCert, hbr]; exact h
    · right; exact ⟨rfl, h⟩
  | combining =>
    obtain ⟨c, _, hc, _, hs, _⟩ := h1 (Or.inl hbr)
    left; rw [← hc]; exact hs
  | points =>
    obtain ⟨c, _, hc, _, hs, _⟩ := h1 (Or.inr (Or.inl hbr))
    left; rw [← hc]; exact hs
  | rays =>
    obtain ⟨c, _, hc, _, hs, _⟩ := h1 (Or.inr (Or.inr hbr))
    left; rw [← hc]; exact hs
  | h79 =>
    left; simp only [resCert, hbr]; exact hfallback

example : exBOracle.yCert.isStabilizing exBOracle.h79.cert = true ∧
    exBOracle.yCert.isStabilizing (resCert exBOracle (bhrz03WideningAssign exPoly false exBOracle none)) = true := by
  decide

/-- **the assertion of l. 851 holds for the model**: when the certificates carry the H79 data of the point
    sets (`affine_dim = n - eqRank`, `num_constraints = minCons`), the H79 result is BHRZ03-stabilizing
    w.r.t. `y` unless it denotes `y`.  `_partial`: the contract `MinimalDD`; discharged for engine outputs:
    `bhrz03_fallback_stabilizing_engine`. -/
theorem bhrz03_fallback_stabilizing_partial (n : Nat) (x y : YMin) (hy : MinimalDD n y)
    (hxwf : WFRows n x.conSys)
    (hyx : den false n y.conSys ⊆ den false n x.conSys)
    (hyne : (den false n y.conSys).Nonempty)
    (hne : den false n (h79Rows x y) ≠ den false n y.conSys)
    (cy cr : BHRZ03Cert)
    (hcy : cy.affineDim = n - eqRank n (den false n y.conSys) ∧
           cy.numConstraints = minCons n (den false n y.conSys))
    (hcr : cr.affineDim = n - eqRank n (den false n (h79Rows x y)) ∧
           cr.numConstraints = minCons n (den false n (h79Rows x y))) :
    cy.isStabilizing cr = true := by
  apply PPLV.Widen.Impl.h79_decrease_implies_bhrz03_stabilizing
  have h := (h79_certificate_decreases_lessPh n x y hy hxwf hyx hyne hne).1
  unfold setH79Cert at h
  rw [hcy.1, hcy.2, hcr.1, hcr.2]
  exact h

example : (⟨1 - eqRank 1 (den false 1 yEx.conSys), 0, minCons 1 (den false 1 yEx.conSys), 2, [0]⟩ :
      BHRZ03Cert).isStabilizing
    ⟨1 - eqRank 1 (den false 1 (h79Rows xEx yEx)), 0, minCons 1 (den false 1 (h79Rows xEx yEx)), 1, [1]⟩ = true :=
  bhrz03_fallback_stabilizing_partial 1 xEx yEx yEx_minimal xEx_wf yEx_sub_xEx
    ⟨fun _ => 0, by rw [mem_yEx]; norm_num⟩ h79Rows_ex_ne _ _ ⟨rfl, rfl⟩ ⟨rfl, rfl⟩

/-- **the H79 fallback of `BHRZ03_widening_assign` is stabilizing** (the assertion of l. 851), closed polyhedra,
    `y` minimised by the engine model: full strength. -/
theorem bhrz03_fallback_stabilizing_engine (n : Nat) (x : YMin) (source : List PPLV.Conv.LRow)
    (sat0 : List PPLV.Conv.BRow)
    (hsz : n + 1 < 2 ^ 64) (hsrc : source.length < 2 ^ 64) (hlen : ∀ s ∈ source, s.v.length = n + 1)
    (hne : (PPLV.Conv.minimize true false (n + 1) source sat0).empty = false)
    (hpos : (⟨false, 1 :: List.replicate n 0⟩ : PPLV.Conv.LRow) ∈ source)
    (hxwf : WFRows n x.conSys)
    (hyx : den false n (engineY n source sat0).conSys ⊆ den false n x.conSys)
    (hyne : (den false n (engineY n source sat0).conSys).Nonempty)
    (hne' : den false n (h79Rows x (engineY n source sat0)) ≠ den false n (engineY n source sat0).conSys)
    (cy cr : BHRZ03Cert)
    (hcy : cy.affineDim = n - eqRank n (den false n (engineY n source sat0).conSys) ∧
           cy.numConstraints = minCons n (den false n (engineY n source sat0).conSys))
    (hcr : cr.affineDim = n - eqRank n (den false n (h79Rows x (engineY n source sat0))) ∧
           cr.numConstraints = minCons n (den false n (h79Rows x (engineY n source sat0)))) :
    cy.isStabilizing cr = true :=
  bhrz03_fallback_stabilizing_partial n x _ (minimalDD_of_minimize n source sat0 hsz hsrc hlen hne hpos)
    hxwf hyx hyne hne' cy cr hcy hcr

/-- **`result ⊇ x`** (closed polyhedra): the precheck / token leave `x`; the combining candidate
    `H79 + new_cs` contains `x` because every new constraint is a row of `x_minus_H79_cs` or the SUM of such
    rows; the generator-side candidates and `H79` contain `x` by the contract of their constructions
    (`(x + rays) ∩ H79`; `minimize()` keeps the set). -/
theorem bhrz03_contains_x (x : Poly) (hc : x.nnc = false) (yEmpty : Bool) (o : BOracle) (tp : Option Nat)
    (hh79 : den false x.n o.h79.cs =
      den false x.n (selectH79Constraints false o.xCons o.ySel.conSys o.ySel.genSys o.ySel.satG).1)
    (h2 : den false x.n o.xCons ⊆ den false x.n o.cand2.cs)
    (h3 : ∀ c, o.cand3 = some c → den false x.n o.xCons ⊆ den false x.n c.cs) :
    den false x.n o.xCons ⊆ bresDen x (den false x.n o.xCons) (bhrz03WideningAssign x yEmpty o tp) := by
  have hH : den false x.n o.xCons ⊆ den false x.n o.h79.cs := by
    rw [hh79]
    exact den_mono_sublist false x.n (h79_selected_sublist _ _ _ _ _).1
  rcases bhrz03_cases x yEmpty o tp with h | h | ⟨_, h⟩ | ⟨t, _, h⟩ | h
  · rw [h]; exact subset_rfl
  · rw [h]; exact subset_rfl
  · rw [h]; exact subset_rfl
  · rw [h]; exact subset_rfl
  · rw [h]
    rcases bhrz03Tail_cases x o tp with ⟨c, hcc, h'⟩ | ⟨_, h'⟩ | ⟨c3, hc3, _, h'⟩ | h'
    · rw [h']
      obtain ⟨_, hcs, _⟩ := combining_some hcc
      simp only [bresDen, hc, hcs]
      intro p hp
      rw [mem_den_false, satRows_append]
      refine ⟨hH hp, ?_⟩
      apply combiningNewCs_holds
      intro c' hc'
      exact hp c' ((h79_selected_sublist _ _ _ _ _).2.1.subset hc')
    · rw [h']; simp only [bresDen, hc]; exact h2
    · rw [h']; simp only [bresDen, hc]; exact h3 c3 hc3
    · rw [h']; simp only [bresDen, hc]; exact hH

example : den false 1 xEx.conSys ⊆
    bresDen exPoly (den false 1 xEx.conSys) (bhrz03WideningAssign exPoly false exBOracle none) :=
  bhrz03_contains_x exPoly rfl false exBOracle none rfl
    (den_mono_sublist false 1 (a := [⟨[0, 1], false⟩]) (b := xEx.conSys) (by decide)) (fun c h => by cases h)

/-- a 2-dimensional instance of the first technique: `x_minus_H79_cs = {x ≥ 0, y ≥ 0}`, the point `(0,0)` of
    `y` saturates both and does not lie on the boundary of `H79 = {x + y ≤ 4}`: the averaged constraint
    `x + y ≥ 0` is added -/
example : combiningNewCs false 2 [⟨[1, 0, 0], false⟩] [⟨[4, -1, -1], false⟩]
    [⟨[0, 1, 0], false⟩, ⟨[0, 0, 1], false⟩] = [⟨[0, 1, 1], false⟩] := by decide

/-- **on NNC polyhedra `BHRZ03_combining_constraints` never produces a constraint**: `H79.con_sys` holds the
    row `ε ≥ 0` (`epsGeZero n`, raw row `[0, 0 … 0, 1]`), every closure point of `y` has `ε = 0` and so
    saturates it, hence `lies_on_the_boundary_of_H79` (l. 459–470) is true for every generator the loop
    considers and `new_cs` stays empty. -/
theorem bhrz03_combining_dead_for_nnc (n : Nat) (yGens : List GRow) (h79Cs xMinusH79 : List CRow)
    (hlen : ∀ g ∈ yGens, g.e.length = n + 2) (hmem : epsGeZero n ∈ h79Cs) :
    combiningNewCs true n yGens h79Cs xMinusH79 = [] :=
  combiningNewCs_nnc_nil n yGens h79Cs xMinusH79 hlen hmem

/-- … so the first technique returns `false` (`improves_upon_H79` is never set) and on NNC polyhedra the
    driver always falls through to `BHRZ03_evolving_points`. -/
theorem bhrz03_combining_none_for_nnc (n : Nat) (o : BOracle) (yGens : List GRow) (xMinusH79 : List CRow)
    (hlen : ∀ g ∈ yGens, g.e.length = n + 2) (hmem : epsGeZero n ∈ o.h79.cs) :
    bhrz03CombiningConstraints true n o yGens xMinusH79 = none :=
  bhrz03CombiningConstraints_nnc_none n o yGens xMinusH79 hlen hmem

/-- the driver never takes the `combining` branch on such data -/
theorem bhrz03_never_combining_for_nnc (x : Poly) (hn : x.nnc = true) (yEmpty : Bool) (o : BOracle)
    (tp : Option Nat) (hlen : ∀ g ∈ o.ySel.genSys, g.e.length = x.n + 2) (hmem : epsGeZero x.n ∈ o.h79.cs) :
    (bhrz03WideningAssign x yEmpty o tp).branch ≠ .combining := by
  intro hb
  rcases bhrz03_cases x yEmpty o tp with h | h | ⟨_, h⟩ | ⟨t, _, h⟩ | h
  · rw [h] at hb; cases hb
  · rw [h] at hb; cases hb
  · rw [h] at hb; cases hb
  · rw [h] at hb; cases hb
  · rw [h] at hb
    rcases bhrz03Tail_cases x o tp with ⟨c, hc, _⟩ | ⟨_, h'⟩ | ⟨c3, _, _, h'⟩ | h'
    · rw [hn, bhrz03CombiningConstraints_nnc_none x.n o _ _ hlen hmem] at hc
      cases hc
    · rw [h'] at hb; cases hb
    · rw [h'] at hb; cases hb
    · rw [h'] at hb; cases hb

/-- a 1-dimensional NNC instance: the closure point `p = 0` of `y` saturates both rows of `x_minus_H79_cs`
    and not `5 - p ≥ 0`; with the row `ε ≥ 0` in `H79` nothing is produced … -/
example : combiningNewCs true 1 [⟨[1, 0, 0], false⟩, ⟨[1, 1, 1], false⟩]
    [⟨[5, -1, 0], false⟩, epsGeZero 1] [⟨[0, 1, 0], false⟩, ⟨[0, 2, 0], false⟩] = [] :=
  bhrz03_combining_dead_for_nnc 1 _ _ _ (by decide) (by decide)

/-- … whereas without that row (a system no NNC `H79` has) the averaged constraint `3p ≥ 0` would be added:
    the hypothesis `hmem` is what kills the technique -/
example : combiningNewCs true 1 [⟨[1, 0, 0], false⟩, ⟨[1, 1, 1], false⟩]
    [⟨[5, -1, 0], false⟩] [⟨[0, 1, 0], false⟩, ⟨[0, 2, 0], false⟩] = [⟨[0, 3, 0], false⟩] := by decide

/-- **every ascending chain stabilises** (BHRZ03, abstract): for every domain whose certificate is a function
    of the point set, monotone in affine dimension and lineality, and a widening that contains its larger
    argument and whose result either denotes `y` again or is BHRZ03-stabilizing w.r.t. `y`'s certificate
    (which is what `bhrz03_certificate_decreases_partial` gives for the model), every adversary sequence is
    eventually stationary.  `_partial`: the hypotheses on `certOf` are facts about the true certificates of
    point sets that are assumed, not proved of a model of `BHRZ03_Certificate(ph)` (it needs the minimised
    generator system). -/
theorem bhrz03_chain_stabilises_partial {D : Type} (n : Nat) (γ : D → Set Pt) (certOf : D → BHRZ03Cert)
    (hval : ∀ a b, γ a = γ b → certOf a = certOf b)
    (hmonoA : ∀ a b, γ a ⊆ γ b → (certOf a).affineDim ≤ (certOf b).affineDim)
    (hmonoL : ∀ a b, γ a ⊆ γ b → (certOf a).linSpaceDim ≤ (certOf b).linSpaceDim)
    (hok : ∀ a, (certOf a).affineDim ≤ n ∧ (certOf a).linSpaceDim ≤ n ∧ (certOf a).numRaysNullCoord.length = n)
    (w : D → D → D)
    (hsup : ∀ x y, γ y ⊆ γ x → γ x ⊆ γ (w x y))
    (hdec : ∀ x y, γ y ⊆ γ x → γ (w x y) = γ y ∨ (certOf y).isStabilizing (certOf (w x y)) = true)
    (x0 : D) (z : Nat → D → D) (hz : ∀ i x, γ x ⊆ γ (z i x)) :
    ∃ N, ∀ i ≥ N, γ (advSeq w x0 z (i + 1)) = γ (advSeq w x0 z i) := by
  refine PPLV.Widen.converges_adversary γ w certOf (BHRZ03Cert.LessPh n) (bhrz03_comparePh_wf n) hval ?_ x0 z hz
  intro x y hyx hne
  have hyw : γ y ⊆ γ (w x y) := hyx.trans (hsup x y hyx)
  rcases hdec x y hyx with h | h
  · exact absurd h hne
  · unfold BHRZ03Cert.isStabilizing at h
    exact ⟨by simpa using h, hmonoA _ _ hyw, (hok _).1, hmonoL _ _ hyw, (hok _).2.1, (hok _).2.2, (hok _).2.2⟩

/-- a two-element instance: the point `{p₀ = 0}` and the whole line, `w x y = x` -/
example : ∃ N, ∀ i ≥ N,
    (fun b : Bool => {p : Pt | b = true ∨ p 0 = 0}) (advSeq (fun x _ => x) false (fun _ _ => true) (i + 1)) =
    (fun b : Bool => {p : Pt | b = true ∨ p 0 = 0}) (advSeq (fun x _ => x) false (fun _ _ => true) i) := by
  have hne : ({p : Pt | true = true ∨ p 0 = 0} : Set Pt) ≠ {p : Pt | false = true ∨ p 0 = 0} := by
    intro h
    have : (fun _ => (1 : ℚ)) ∈ ({p : Pt | true = true ∨ p 0 = 0} : Set Pt) := Or.inl rfl
    rw [h] at this
    simp at this
  have hsub : ¬ ({p : Pt | true = true ∨ p 0 = 0} : Set Pt) ⊆ {p : Pt | false = true ∨ p 0 = 0} := by
    intro h
    have := h (show (fun _ => (1 : ℚ)) ∈ ({p : Pt | true = true ∨ p 0 = 0} : Set Pt) from Or.inl rfl)
    simp at this
  refine bhrz03_chain_stabilises_partial 1 (fun b : Bool => {p : Pt | b = true ∨ p 0 = 0})
    (fun b => if b then ⟨1, 1, 0, 1, [0]⟩ else ⟨0, 0, 1, 1, [0]⟩) ?_ ?_ ?_ ?_ (fun x _ => x) ?_ ?_
    false (fun _ _ => true) ?_
  · intro a b h
    cases a <;> cases b <;> first | rfl | exact absurd h hne | exact absurd h.symm hne
  · intro a b h
    cases a <;> cases b <;> first | exact absurd h hsub | simp
  · intro a b h
    cases a <;> cases b <;> first | exact absurd h hsub | simp
  · intro a; cases a <;> simp
  · intro x y _; exact subset_rfl
  · intro x y h
    cases x <;> cases y <;> first | exact Or.inl rfl | exact absurd h hsub | (right; decide)
  · intro i x p hp; exact Or.inl rfl

end C08
