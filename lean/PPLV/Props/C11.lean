import PPLV.Checked.ProofsExt2
import PPLV.Checked.ProofsBounded
import PPLV.Checked.ProofsPre
import PPLV.Checked.ProofsSpec
import PPLV.Checked.ProofsExt3
import PPLV.Checked.ProofsConv
import PPLV.Checked.ModelAsWritten
import PPLV.Checked.ProofsFloatMpz
import PPLV.Checked.ProofsSqrt
import PPLV.Checked.ProofsGcd
import PPLV.Checked.ProofsConvMp
/-!
# C11 — checked arithmetic reports true rounding relations; bounded builds never lie

The theorems are about the code-shaped model `PPLV/Checked/Model.lean` of
`checked_int_inlines.hh` + `checked_ext_inlines.hh` (what `assign_r`, `add_assign_r`, … run on
`Checked_Number<T, Policy>` for a native integer `T`), for **every** width (`t.bits` is a
variable), signedness, policy, rounding direction and operand bit pattern.

`OKQ t π dir (stored, code) exact` bundles the clauses of the property:
`holds` (the code's relation between the exact result and the stored value is true — K4),
`directed` (never below the exact result when rounding up, never above when rounding down),
`overflow` (an overflow claim is true), `no_wrap` (the stored value is a bit pattern of the type),
`nan_stored` (undefined results are stored as NaN when the policy has one).

Standing assumptions (`C11.Cfg`): at least one bit, three when the policy reserves special bit
patterns; `check_overflow` on (true of every policy the library instantiates — without it
`CHECK_P` makes representability a precondition of the call); the `int_fast` type of `Larger<T>` at
least twice as wide; a signed type has two bits (`add_2exp` shifts by `bits - 2`).
The contract of a call is `IntOp.pre` (operands are bit patterns of the type; conditions that a
`check_*` flag set to false leaves to the caller hold) — the same Boolean the driver evaluates.

Four defects found by this property (KF-C11-1 … KF-C11-4: `div_signed_int`, `sub_mul_int`,
`umod_2exp_signed_int`, `isqrt_rem`) are repaired in /repo (commits 5157d9d, 295149f, f54ddd9,
1ff2aae); `Model.lean` is the repaired code and `div_holds`, `subMul_holds`, `umod2exp_holds` are
full-strength.  What was wrong is kept as historical witnesses `…_before_fix_fails` about the
as-written variants of `ModelAsWritten.lean` (the driver compares the library with those variants
when the harness measures that a repair is absent, so a regression is reported through the violated
clause and its witness).  `lcm` returned the result code of an intermediate `abs` without
storing anything (KF-C11-5) — repaired by /repo 5d13b40, `lcm_spec` is full-strength, the old behaviour is
`lcm_spec_before_fix_fails`.
`sqrt_holds` (over `ℝ`: the exact result is irrational), `gcd_spec` are full-strength.  Conversions
into `mpz_class` / `mpq_class`: `assign_mpz_mpq_holds`, `assign_mpz_float_holds`, `assign_mpz_int_exact`.
-/
namespace C11
open PPLV.Checked PPLV.Checked.Result

/-- standing assumptions on a (type, policy) pair -/
structure Cfg (t : IntTy) (π : Policy) : Prop where
  wf : t.WF π
  larger : t.LargerOK
  checkOverflow : π.checkOverflow = true
  signed_two_bits : t.signed = true → 2 ≤ t.bits

/-- all instantiations the library makes satisfy the standing assumptions -/
example : Cfg .i8 .extended := ⟨⟨by decide, fun _ => by decide⟩, ⟨fun _ => ⟨by decide, by decide⟩⟩, rfl, fun _ => by decide⟩
example : Cfg .i64 .checkOverflowOnly := ⟨⟨by decide, fun _ => by decide⟩, ⟨fun h => by simp [IntTy.i64] at h⟩, rfl, fun _ => by decide⟩
example : Cfg .u64 .debugExtended := ⟨⟨by decide, fun _ => by decide⟩, ⟨fun h => by simp [IntTy.u64] at h⟩, rfl, fun _ => by decide⟩

/-! ## the operations that hold at full strength -/

/-- conversion `assign_r(to : T/π, x : F/πf)` -/
theorem assign_holds {t f : IntTy} {π πf : Policy} (c : Cfg t π) (wf : f.WF πf) (hg : t.GapOK f) (dir : Dir)
    (a : Operands) (hpre : IntOp.pre t π (.assign f πf) a = true) :
    OKQ t π dir (IntOp.run t π (.assign f πf) dir a) (IntOp.exact t π (.assign f πf) a).toQ := by
  simp only [IntOp.pre, Bool.and_eq_true, decide_eq_true_eq] at hpre
  obtain ⟨⟨x1, x2⟩, z1, z2⟩ := hpre
  simp only [IntOp.run, IntOp.exact, Exact.toQ_ofExt]
  exact ok_toQ (assignExt_ok c.wf wf c.checkOverflow hg dir ⟨z1, z2⟩ ⟨x1, x2⟩)

example : IntOp.run .i8 .extended (.assign .i32 .checkOverflowOnly) .down { x := 1000 } = (126, V_GT_SUP) := by decide

theorem neg_holds {t : IntTy} {π : Policy} (c : Cfg t π) (dir : Dir) (a : Operands)
    (hpre : IntOp.pre t π .neg a = true) :
    OKQ t π dir (IntOp.run t π .neg dir a) (IntOp.exact t π .neg a).toQ := by
  simp only [IntOp.pre, Bool.and_eq_true, decide_eq_true_eq] at hpre
  obtain ⟨⟨x1, x2⟩, z1, z2⟩ := hpre
  simp only [IntOp.run, IntOp.exact, Exact.toQ_ofExt]
  exact ok_toQ (negExt_ok c.wf c.larger c.checkOverflow dir ⟨z1, z2⟩ ⟨x1, x2⟩)

example : IntOp.run .i8 .checkOverflowOnly .neg .up { to0 := 5, x := -128 } = (5, V_LT_PLUS_INFINITY.orUnrep) := by decide

theorem abs_holds {t : IntTy} {π : Policy} (c : Cfg t π) (dir : Dir) (a : Operands)
    (hpre : IntOp.pre t π .abs a = true) :
    OKQ t π dir (IntOp.run t π .abs dir a) (IntOp.exact t π .abs a).toQ := by
  simp only [IntOp.pre, Bool.and_eq_true, decide_eq_true_eq] at hpre
  obtain ⟨⟨x1, x2⟩, z1, z2⟩ := hpre
  simp only [IntOp.run, IntOp.exact, Exact.toQ_ofExt]
  exact ok_toQ (absExt_ok c.wf c.larger c.checkOverflow dir ⟨z1, z2⟩ ⟨x1, x2⟩)

example : IntOp.run .i8 .extended .abs .up { x := -128 } = (127, V_EQ_PLUS_INFINITY) := by decide

theorem add_holds {t : IntTy} {π : Policy} (c : Cfg t π) (dir : Dir) (a : Operands)
    (hpre : IntOp.pre t π .add a = true) :
    OKQ t π dir (IntOp.run t π .add dir a) (IntOp.exact t π .add a).toQ := by
  simp only [IntOp.pre, Bool.and_eq_true, decide_eq_true_eq, Bool.or_eq_true, Bool.not_eq_true'] at hpre
  obtain ⟨⟨⟨⟨x1, x2⟩, y1, y2⟩, z1, z2⟩, hp⟩ := hpre
  rw [opposite_iff] at hp
  simp only [IntOp.run, IntOp.exact, Exact.toQ_ofExt]
  exact ok_toQ (addExt_ok c.wf c.larger c.checkOverflow dir ⟨z1, z2⟩ ⟨x1, x2⟩ ⟨y1, y2⟩ hp)

example : IntOp.run .i8 .checkOverflowOnly .add .down { x := 100, y := 100 } = (127, V_GT_SUP) := by decide
example : IntOp.run .i8 .extended .add .up { x := 100, y := 100 } = (127, V_LT_PLUS_INFINITY) := by decide
example : IntOp.run .i8 .extended .add .up { x := -128, y := 100 } = (-128, V_EQ_MINUS_INFINITY) := by decide

theorem sub_holds {t : IntTy} {π : Policy} (c : Cfg t π) (dir : Dir) (a : Operands)
    (hpre : IntOp.pre t π .sub a = true) :
    OKQ t π dir (IntOp.run t π .sub dir a) (IntOp.exact t π .sub a).toQ := by
  simp only [IntOp.pre, Bool.and_eq_true, decide_eq_true_eq, Bool.or_eq_true, Bool.not_eq_true'] at hpre
  obtain ⟨⟨⟨⟨x1, x2⟩, y1, y2⟩, z1, z2⟩, hp⟩ := hpre
  rw [same_iff] at hp
  simp only [IntOp.run, IntOp.exact, Exact.toQ_ofExt]
  exact ok_toQ (subExt_ok c.wf c.larger c.checkOverflow dir ⟨z1, z2⟩ ⟨x1, x2⟩ ⟨y1, y2⟩ hp)

example : IntOp.run .u8 .checkOverflowOnly .sub .up { x := 3, y := 5 } = (0, V_LT_INF) := by decide

theorem mul_holds {t : IntTy} {π : Policy} (c : Cfg t π) (dir : Dir) (a : Operands)
    (hpre : IntOp.pre t π .mul a = true) :
    OKQ t π dir (IntOp.run t π .mul dir a) (IntOp.exact t π .mul a).toQ := by
  simp only [IntOp.pre, Bool.and_eq_true, decide_eq_true_eq] at hpre
  obtain ⟨⟨⟨x1, x2⟩, y1, y2⟩, z1, z2⟩ := hpre
  simp only [IntOp.run, IntOp.exact, Exact.toQ_ofExt]
  exact ok_toQ (mulExt_ok c.wf c.larger c.checkOverflow dir ⟨z1, z2⟩ ⟨x1, x2⟩ ⟨y1, y2⟩)

example : IntOp.run .i64 .checkOverflowOnly .mul .down { x := 3037000500, y := 3037000500 } =
    (9223372036854775807, V_GT_SUP) := by decide
example : IntOp.run .i8 .extended .mul .up { x := 127, y := 0 } = (-127, V_INF_MUL_ZERO) := by decide

theorem addMul_holds {t : IntTy} {π : Policy} (c : Cfg t π) (dir : Dir) (a : Operands)
    (hpre : IntOp.pre t π .addMul a = true) :
    OKQ t π dir (IntOp.run t π .addMul dir a) (IntOp.exact t π .addMul a).toQ := by
  simp only [IntOp.pre, Bool.and_eq_true, decide_eq_true_eq, Bool.or_eq_true, Bool.not_eq_true'] at hpre
  obtain ⟨⟨⟨⟨x1, x2⟩, y1, y2⟩, z1, z2⟩, hp⟩ := hpre
  rw [opposite_iff] at hp
  simp only [IntOp.run, IntOp.exact, Exact.toQ_ofExt]
  exact ok_toQ (addMulExt_ok c.wf c.larger c.checkOverflow dir ⟨z1, z2⟩ ⟨x1, x2⟩ ⟨y1, y2⟩ hp)

example : IntOp.run .i8 .checkOverflowOnly .addMul .up { to0 := -100, x := 16, y := 16 } =
    (-100, V_UNKNOWN_POS_OVERFLOW) := by decide
example : IntOp.run .i8 .checkOverflowOnly .addMul .down { to0 := -100, x := 16, y := 16 } = (27, V_GT) := by decide
example : IntOp.run .i8 .checkOverflowOnly .addMul .up { to0 := 100, x := -16, y := 16 } = (-28, V_LT) := by decide

theorem idiv_holds {t : IntTy} {π : Policy} (c : Cfg t π) (dir : Dir) (a : Operands)
    (hpre : IntOp.pre t π .idiv a = true) :
    OKQ t π dir (IntOp.run t π .idiv dir a) (IntOp.exact t π .idiv a).toQ := by
  simp only [IntOp.pre, Bool.and_eq_true, decide_eq_true_eq, Bool.or_eq_true, Bool.not_eq_true'] at hpre
  obtain ⟨⟨⟨⟨⟨x1, x2⟩, y1, y2⟩, z1, z2⟩, hp2⟩, hp1⟩ := hpre
  rw [finZero_iff] at hp2
  rw [bothInf_iff] at hp1
  simp only [IntOp.run, IntOp.exact]
  exact idivExt_ok c.wf c.larger c.checkOverflow dir ⟨z1, z2⟩ ⟨x1, x2⟩ ⟨y1, y2⟩ hp1 hp2

example : IntOp.run .i8 .checkOverflowOnly .idiv .down { x := -128, y := -1 } = (127, V_GT_SUP) := by decide

theorem rem_holds {t : IntTy} {π : Policy} (c : Cfg t π) (dir : Dir) (a : Operands)
    (hpre : IntOp.pre t π .rem a = true) :
    OKQ t π dir (IntOp.run t π .rem dir a) (IntOp.exact t π .rem a).toQ := by
  simp only [IntOp.pre, Bool.and_eq_true, decide_eq_true_eq, Bool.or_eq_true, Bool.not_eq_true'] at hpre
  obtain ⟨⟨⟨⟨⟨x1, x2⟩, y1, y2⟩, z1, z2⟩, hp2⟩, hp1⟩ := hpre
  rw [finZero_iff] at hp2
  simp only [IntOp.run, IntOp.exact]
  exact remExt_ok c.wf dir ⟨z1, z2⟩ ⟨x1, x2⟩ ⟨y1, y2⟩ hp1 hp2

example : IntOp.run .i8 .debugExtended .rem .down { x := 7, y := 0 } = (-127, V_MOD_ZERO) := by decide

theorem add2exp_holds {t : IntTy} {π : Policy} (c : Cfg t π) (dir : Dir) (a : Operands)
    (hpre : IntOp.pre t π .add2exp a = true) :
    OKQ t π dir (IntOp.run t π .add2exp dir a) (IntOp.exact t π .add2exp a).toQ := by
  simp only [IntOp.pre, Bool.and_eq_true, decide_eq_true_eq] at hpre
  obtain ⟨⟨⟨x1, x2⟩, z1, z2⟩, _⟩ := hpre
  simp only [IntOp.run, IntOp.exact, Exact.toQ_ofExt]
  exact ok_toQ (add2expExt_ok c.wf c.larger c.signed_two_bits c.checkOverflow dir a.e ⟨z1, z2⟩ ⟨x1, x2⟩)

theorem sub2exp_holds {t : IntTy} {π : Policy} (c : Cfg t π) (dir : Dir) (a : Operands)
    (hpre : IntOp.pre t π .sub2exp a = true) :
    OKQ t π dir (IntOp.run t π .sub2exp dir a) (IntOp.exact t π .sub2exp a).toQ := by
  simp only [IntOp.pre, Bool.and_eq_true, decide_eq_true_eq] at hpre
  obtain ⟨⟨⟨x1, x2⟩, z1, z2⟩, _⟩ := hpre
  simp only [IntOp.run, IntOp.exact, Exact.toQ_ofExt]
  exact ok_toQ (sub2expExt_ok c.wf c.larger c.signed_two_bits c.checkOverflow dir a.e ⟨z1, z2⟩ ⟨x1, x2⟩)

theorem mul2exp_holds {t : IntTy} {π : Policy} (c : Cfg t π) (dir : Dir) (a : Operands)
    (hpre : IntOp.pre t π .mul2exp a = true) :
    OKQ t π dir (IntOp.run t π .mul2exp dir a) (IntOp.exact t π .mul2exp a).toQ := by
  simp only [IntOp.pre, Bool.and_eq_true, decide_eq_true_eq] at hpre
  obtain ⟨⟨⟨x1, x2⟩, z1, z2⟩, _⟩ := hpre
  simp only [IntOp.run, IntOp.exact, Exact.toQ_ofExt]
  exact ok_toQ (mul2expExt_ok c.wf c.checkOverflow dir a.e ⟨z1, z2⟩ ⟨x1, x2⟩)

example : IntOp.run .i8 .checkOverflowOnly .mul2exp .up { x := -1, e := 7 } = (-128, V_EQ) := by decide
example : IntOp.run .i8 .extended .mul2exp .up { x := -1, e := 7 } = (-126, V_LT_INF) := by decide

theorem div2exp_holds {t : IntTy} {π : Policy} (c : Cfg t π) (dir : Dir) (a : Operands)
    (hpre : IntOp.pre t π .div2exp a = true) :
    OKQ t π dir (IntOp.run t π .div2exp dir a) (IntOp.exact t π .div2exp a).toQ := by
  simp only [IntOp.pre, Bool.and_eq_true, decide_eq_true_eq] at hpre
  obtain ⟨⟨⟨x1, x2⟩, z1, z2⟩, _⟩ := hpre
  simp only [IntOp.run, IntOp.exact]
  exact div2expExt_okq c.wf dir a.e ⟨z1, z2⟩ ⟨x1, x2⟩

example : IntOp.run .i8 .checkOverflowOnly .div2exp .down { x := -7, e := 1 } = (-4, V_GT) := by decide

theorem smod2exp_holds {t : IntTy} {π : Policy} (c : Cfg t π) (dir : Dir) (a : Operands)
    (hpre : IntOp.pre t π .smod2exp a = true) :
    OKQ t π dir (IntOp.run t π .smod2exp dir a) (IntOp.exact t π .smod2exp a).toQ := by
  simp only [IntOp.pre, Bool.and_eq_true, decide_eq_true_eq, Bool.or_eq_true, Bool.not_eq_true'] at hpre
  obtain ⟨⟨⟨⟨x1, x2⟩, z1, z2⟩, he⟩, hp⟩ := hpre
  simp only [IntOp.run, IntOp.exact]
  have := ok_toQ (smod2expExt_ok c.wf c.signed_two_bits dir a.e he ⟨z1, z2⟩ ⟨x1, x2⟩ hp)
  have e : (exactSmod (t.denote π a.x) a.e).toQ =
      Ext.map Int.cast (match t.denote π a.x with | .fin v => Ext.fin (smodInt v a.e) | _ => Ext.nan) := by
    cases t.denote π a.x <;> simp [exactSmod, Exact.ofInt, Exact.toQ, Ext.map]
  rw [e]
  exact this

example : IntOp.run .i8 .checkOverflowOnly .smod2exp .down { x := 100, e := 7 } = (-28, V_EQ) := by decide
example : IntOp.run .u8 .checkOverflowOnly .smod2exp .up { x := 200, e := 8 } = (0, V_LT_INF) := by decide

/-! ## the rounding steps and the conversions from GMP numbers -/

/-- `round_lt_int`: the stored integer `s` is above the exact result `q` and within one unit of it -/
theorem round_lt_int_holds {t : IntTy} {π : Policy} (c : Cfg t π) (dir : Dir) {s : Int} (hf : t.finite π s) {q : Rat}
    (hlt : q < (s : Rat)) (hgt : ((s - 1 : Int) : Rat) < q) : OKQ t π dir (roundLt t π s dir) (.fin q) :=
  roundLt_okq c.wf dir hf hlt hgt

/-- `round_gt_int`: the stored integer `s` is below the exact result `q` and within one unit of it -/
theorem round_gt_int_holds {t : IntTy} {π : Policy} (c : Cfg t π) (dir : Dir) {s : Int} (hf : t.finite π s) {q : Rat}
    (hgt : (s : Rat) < q) (hlt : q < ((s + 1 : Int) : Rat)) : OKQ t π dir (roundGt t π s dir) (.fin q) :=
  roundGt_okq c.wf dir hf hgt hlt

example : roundLt .i8 .extended (-126) .down = (-128, V_GT_MINUS_INFINITY) := by decide
example : roundGt .u8 .checkOverflowOnly 255 .up = (255, V_LT_PLUS_INFINITY.orUnrep) := by decide

/-- `assign_r(to, mpz_class)` (by its effect: a range test on the value) -/
theorem assign_mpz_holds {t : IntTy} {π : Policy} (c : Cfg t π) (dir : Dir) {to0 : Int} (h0 : t.inRange to0) (v : Int) :
    OKQ t π dir (assignMpz t π to0 v dir) (.fin (v : Rat)) :=
  ok_toQ (e := .fin v) (tri_ok c.wf h0 (assignMpz_tri c.checkOverflow dir to0 v))

/-- `assign_r(to, mpq_class)`: truncating division, range test, `round_lt_int` / `round_gt_int` -/
theorem assign_mpq_holds {t : IntTy} {π : Policy} (c : Cfg t π) (dir : Dir) {to0 n d : Int} (h0 : t.inRange to0)
    (hd : 0 < d) : OKQ t π dir (assignMpq t π to0 n d dir) (.fin ((n : Rat) / (d : Rat))) :=
  assignMpq_okq c.wf c.checkOverflow dir h0 hd

example : assignMpq .i8 .extended 0 (-253) 2 .down = (-128, V_GT_MINUS_INFINITY) := by decide
example : assignMpq .i8 .checkOverflowOnly 0 255 2 .up = (127, V_LT_PLUS_INFINITY.orUnrep) := by decide

/-! ## division -/

/-- `div_assign_r`: every divisor, every direction (as repaired by /repo 5157d9d) -/
theorem div_holds {t : IntTy} {π : Policy} (c : Cfg t π) (dir : Dir) (a : Operands)
    (hpre : IntOp.pre t π .div a = true) :
    OKQ t π dir (IntOp.run t π .div dir a) (IntOp.exact t π .div a).toQ := by
  simp only [IntOp.pre, Bool.and_eq_true, decide_eq_true_eq, Bool.or_eq_true, Bool.not_eq_true'] at hpre
  obtain ⟨⟨⟨⟨⟨x1, x2⟩, y1, y2⟩, z1, z2⟩, hp2⟩, hp1⟩ := hpre
  rw [finZero_iff] at hp2
  rw [bothInf_iff] at hp1
  simp only [IntOp.run, IntOp.exact]
  exact divExt_okq c.wf c.larger c.checkOverflow dir ⟨z1, z2⟩ ⟨x1, x2⟩ ⟨y1, y2⟩ hp1 hp2

example : IntOp.run .i8 .checkOverflowOnly .div .down { x := 7, y := -2 } = (-4, V_GT) := by decide
example : IntOp.run .i8 .checkOverflowOnly .div .up { x := -7, y := -2 } = (4, V_LT) := by decide
example : IntOp.run .i8 .checkOverflowOnly .div .down { x := -7, y := 2 } = (-4, V_GT) := by decide

/-! ## fused multiply-subtract -/

/-- `sub_mul_assign_r` (as repaired by /repo 295149f) -/
theorem subMul_holds {t : IntTy} {π : Policy} (c : Cfg t π) (dir : Dir) (a : Operands)
    (hpre : IntOp.pre t π .subMul a = true) :
    OKQ t π dir (IntOp.run t π .subMul dir a) (IntOp.exact t π .subMul a).toQ := by
  simp only [IntOp.pre, Bool.and_eq_true, decide_eq_true_eq, Bool.or_eq_true, Bool.not_eq_true'] at hpre
  obtain ⟨⟨⟨⟨x1, x2⟩, y1, y2⟩, z1, z2⟩, hp⟩ := hpre
  rw [same_iff] at hp
  simp only [IntOp.run, IntOp.exact, Exact.toQ_ofExt]
  exact ok_toQ (subMulExt_ok c.wf c.larger c.checkOverflow dir ⟨z1, z2⟩ ⟨x1, x2⟩ ⟨y1, y2⟩ hp)

example : IntOp.run .i8 .checkOverflowOnly .subMul .up { to0 := 0, x := 2, y := 64 } = (-127, V_LT) := by decide
example : IntOp.run .i8 .checkOverflowOnly .subMul .down { to0 := 0, x := 2, y := 64 } = (0, V_UNKNOWN_POS_OVERFLOW) := by decide
example : IntOp.run .i8 .checkOverflowOnly .subMul .down { to0 := -5, x := -2, y := 100 } = (123, V_GT) := by decide
example : IntOp.run .u8 .checkOverflowOnly .subMul .up { to0 := 5, x := 20, y := 20 } = (5, V_UNKNOWN_POS_OVERFLOW) := by decide
example : IntOp.run .i8 .extended .subMul .up { to0 := 0, x := 2, y := 64 } = (-126, V_LT_INF) := by decide
example : IntOp.run .i8 .checkOverflowOnly .subMul .up { to0 := -1, x := 2, y := 64 } = (-128, V_LT_INF) := by decide

/-! ## umod_2exp -/

/-- `umod_2exp_assign_r` (as repaired by /repo f54ddd9) -/
theorem umod2exp_holds {t : IntTy} {π : Policy} (c : Cfg t π) (dir : Dir) (a : Operands)
    (hpre : IntOp.pre t π .umod2exp a = true) :
    OKQ t π dir (IntOp.run t π .umod2exp dir a) (IntOp.exact t π .umod2exp a).toQ := by
  simp only [IntOp.pre, Bool.and_eq_true, decide_eq_true_eq, Bool.or_eq_true, Bool.not_eq_true'] at hpre
  obtain ⟨⟨⟨x1, x2⟩, z1, z2⟩, hp⟩ := hpre
  simp only [IntOp.run, IntOp.exact]
  have := ok_toQ (umod2expExt_ok c.wf dir a.e ⟨z1, z2⟩ ⟨x1, x2⟩ hp)
  have e : (exactUmod (t.denote π a.x) a.e).toQ =
      Ext.map Int.cast (match t.denote π a.x with | .fin v => Ext.fin (v % pow2 a.e) | _ => Ext.nan) := by
    cases t.denote π a.x <;> simp [exactUmod, Exact.ofInt, Exact.toQ, Ext.map]
  rw [e]
  exact this

example : IntOp.run .i8 .extended .umod2exp .down { x := -1, e := 7 } = (126, V_GT_SUP) := by decide
example : IntOp.run .i8 .checkOverflowOnly .umod2exp .down { x := -1, e := 7 } = (127, V_EQ) := by decide


/-! ## square root, gcd, lcm -/

/-- **`sqrt_assign_r`** (`isqrt_rem` + `sqrt_unsigned_int` / `sqrt_signed_int` + `sqrt_ext`): for every even
width (the bitwise algorithm steps through the powers of four), signedness, policy, direction and operand
within the contract — the relation between `√x` (a real number) and the stored integer is true, the
direction is honoured (the stored value is `⌊√x⌋`, or `⌊√x⌋ + 1` when rounding up an inexact root), no
intermediate value leaves the type, a negative operand yields NaN / `V_SQRT_NEG`. -/
theorem sqrt_holds {t : IntTy} {π : Policy} (c : Cfg t π) (hev : 2 ∣ t.bits) (dir : Dir) (a : Operands)
    (hpre : IntOp.pre t π .sqrt a = true) :
    OKR t π dir (IntOp.run t π .sqrt dir a) (IntOp.exact t π .sqrt a).toR := by
  simp only [IntOp.pre, Bool.and_eq_true, decide_eq_true_eq, Bool.or_eq_true, Bool.not_eq_true'] at hpre
  obtain ⟨⟨⟨x1, x2⟩, z1, z2⟩, hp⟩ := hpre
  simp only [IntOp.run, IntOp.exact]
  rw [exactSqrt_toR]
  refine sqrtExt_okr c.wf hev dir ⟨z1, z2⟩ ⟨x1, x2⟩ ?_
  rcases hp with h | h
  · exact Or.inl h
  · refine Or.inr fun v hv => ?_
    rw [hv] at h
    simpa using h

/-- the checker's verdict on a real `sqrt` output (comparison through squares) is the comparison with `√n` -/
theorem sqrt_checker_sound {n : Int} (hn : 0 ≤ n) (s : Int) :
    (Exact.sqrt n 1).cmpInt s = some (compare (Real.sqrt n) (s : ℝ)) := cmpInt_sqrt_sound hn s

example : IntOp.run .i8 .checkOverflowOnly .sqrt .up { x := 127 } = (12, V_LT) := by decide
example : IntOp.run .i8 .checkOverflowOnly .sqrt .down { x := 127 } = (11, V_GT) := by decide
example : IntOp.run .u8 .checkOverflowOnly .sqrt .ignore { x := 255 } = (15, V_GE) := by decide
example : IntOp.run .i8 .debugExtended .sqrt .up { x := -4 } = (-127, V_SQRT_NEG) := by decide

/-- **`gcd_assign_r`** (`gcd_exact_no_abs` — Euclid's loop on the signed values — then `abs`; `gcd_ext` for
special operands): the exact result is the non-negative gcd; it is stored exactly, or an overflow is
reported when it is not a value of the type (`gcd(min, min)`, `gcd(min, 0)`).  The loop terminates within
the `2·bits + 2` iterations of the model and no remainder leaves the type. -/
theorem gcd_spec {t : IntTy} {π : Policy} (c : Cfg t π) (dir : Dir) (a : Operands)
    (hpre : IntOp.pre t π .gcd a = true) :
    OKQ t π dir (IntOp.run t π .gcd dir a) (IntOp.exact t π .gcd a).toQ := by
  simp only [IntOp.pre, Bool.and_eq_true, decide_eq_true_eq] at hpre
  obtain ⟨⟨⟨x1, x2⟩, y1, y2⟩, z1, z2⟩ := hpre
  simp only [IntOp.run, IntOp.exact]
  rw [exactGcd_eq, Exact.toQ_ofExt]
  exact ok_toQ (gcdExt_ok c.wf c.larger c.checkOverflow dir ⟨z1, z2⟩ ⟨x1, x2⟩ ⟨y1, y2⟩)

/-- in plain terms: for finite operands whose gcd is a value of the type, `to = gcd(x, y) ≥ 0` and `V_EQ` -/
theorem gcd_value {t : IntTy} {π : Policy} (c : Cfg t π) (dir : Dir) {to0 x y : Int}
    (hx : t.finite π x) (hy : t.finite π y) (hg : (Int.gcd x y : Int) ≤ t.emax π) :
    PPLV.Checked.gcd t π to0 x y dir = ((Int.gcd x y : Int), V_EQ) := by
  have hmin := (IntTy.emin_le_emax c.wf).1
  rcases gcd_tri c.wf c.larger c.checkOverflow dir (to0 := to0) hx hy with ⟨h, _⟩ | ⟨h, _⟩ | ⟨h, _⟩
  · exact h
  · exact absurd h (by omega)
  · exact absurd h (by omega)

example : IntOp.run .i8 .checkOverflowOnly .gcd .up { x := -128, y := 96 } = (32, V_EQ) := by decide
example : IntOp.run .i8 .checkOverflowOnly .gcd .down { x := -128, y := 0 } = (127, V_GT_SUP) := by decide
example : IntOp.run .i8 .extended .gcd .up { x := 127, y := -12 } = (12, V_EQ) := by decide

/-- **`lcm_assign_r`** (`lcm_gcd_exact` as repaired by /repo 5d13b40, `lcm_ext` for special operands):
`lcm(x, y)` is stored exactly or a true overflow is reported — also when `|x|` or `|y|` is not a value of
the type (then the lcm is not one either and `to` receives the outcome of that `abs`). -/
theorem lcm_spec {t : IntTy} {π : Policy} (c : Cfg t π) (dir : Dir) (a : Operands)
    (hpre : IntOp.pre t π .lcm a = true) :
    OKQ t π dir (IntOp.run t π .lcm dir a) (IntOp.exact t π .lcm a).toQ := by
  simp only [IntOp.pre, Bool.and_eq_true, decide_eq_true_eq] at hpre
  obtain ⟨⟨⟨x1, x2⟩, y1, y2⟩, z1, z2⟩ := hpre
  simp only [IntOp.run, IntOp.exact]
  rw [exactLcm_eq, Exact.toQ_ofExt]
  exact ok_toQ (lcmExt_ok c.wf c.larger c.checkOverflow dir ⟨z1, z2⟩ ⟨x1, x2⟩ ⟨y1, y2⟩)

example : IntOp.run .i8 .checkOverflowOnly .lcm .up { x := -12, y := 10 } = (60, V_EQ) := by decide
example : IntOp.run .i8 .checkOverflowOnly .lcm .down { x := 12, y := 11 } = (127, V_GT_SUP) := by decide
example : IntOp.run .i8 .checkOverflowOnly .lcm .down { to0 := 85, x := 1, y := -128 } = (127, V_GT_SUP) := by decide
example : IntOp.run .i8 .checkOverflowOnly .lcm .up { to0 := 85, x := 1, y := -128 } = (85, V_LT_PLUS_INFINITY.orUnrep) := by decide

/-! ## conversions into `mpz_class` / `mpq_class` -/

/-- **`assign_r(mpz_class, mpq_class)`**: floor / ceiling / truncation as the direction asks; the relation is
true and the direction honoured, also with `ROUND_STRICT_RELATION` -/
theorem assign_mpz_mpq_holds (n : Int) {d : Int} (hd : 0 < d) (dir : Dir) (strict : Bool) :
    K4.holds (Mp.assignMpzMpq n d dir strict).2 (.fin ((Mp.assignMpzMpq n d dir strict).1 : Rat)) (.fin ((n : Rat) / d)) ∧
    K4.directed dir (Mp.assignMpzMpq n d dir strict).2 (.fin ((Mp.assignMpzMpq n d dir strict).1 : Rat)) (.fin ((n : Rat) / d)) :=
  assignMpzMpq_ok n hd dir strict

example : Mp.assignMpzMpq (-7) 2 .down true = (-4, V_GT) := by decide
example : Mp.assignMpzMpq (-7) 2 .up false = (-3, V_LE) := by decide
example : Mp.assignMpzMpq (-7) 2 .ignore false = (-3, V_LGE) := by decide

/-- **`assign_r(mpz_class, float | double)`** on a finite operand `n / d`, the FPU rounding upward (the
library's invariant; the kernel's `round_direct(ROUND_UP)` test is a constant) -/
theorem assign_mpz_float_holds (π : Policy) (to0 : QV) (n : Int) {d : Int} (hd : 0 < d) (dir : Dir) :
    K4.holds (Mp.assignMpzFloat π to0 .up (.fin n d) dir).2 (Mp.assignMpzFloat π to0 .up (.fin n d) dir).1.toExtQ (.fin ((n : Rat) / d)) ∧
    K4.directed dir (Mp.assignMpzFloat π to0 .up (.fin n d) dir).2 (Mp.assignMpzFloat π to0 .up (.fin n d) dir).1.toExtQ (.fin ((n : Rat) / d)) :=
  assignMpzFloat_ok π to0 n hd dir

example : Mp.assignMpzFloat .extended .nan .up (.fin (-5) 2) .down = (.fin (-3) 1, V_GT) := by decide
example : Mp.assignMpzFloat .extended .nan .up (.fin (-5) 2) .up = (.fin (-2) 1, V_LT) := by decide

/-- `assign_r(mpz_class | mpq_class, native integer)` is exact, also for the minimum of `long long` -/
theorem assign_mpz_int_exact (f : IntTy) {v : Int} (h : f.inRange v) : Mp.assignMpzInt f v = (v, V_EQ) :=
  assignMpzInt_exact f h

/-! ## all proved operations at once -/

/-- operations for which theorems exist -/
def proved : IntOp → Bool
  | .sqrt => false
  | _ => true

/-- **C11.op_holds**, partial: for every width, signedness, policy, direction and operand bit
patterns within the contract — relation, direction, overflow claim, no wrap, NaN stored.
Not in this aggregate: `sqrt` only (`sqrt_holds`: the same clauses stated over `ℝ`, the exact result being
irrational). -/
theorem op_holds_partial {t : IntTy} {π : Policy} (c : Cfg t π) (op : IntOp) (hop : proved op = true)
    (hasg : ∀ f πf, op = .assign f πf → f.WF πf ∧ t.GapOK f)
    (dir : Dir) (a : Operands) (hpre : IntOp.pre t π op a = true) :
    OKQ t π dir (IntOp.run t π op dir a) (IntOp.exact t π op a).toQ := by
  cases op with
  | assign f πf => exact assign_holds c (hasg f πf rfl).1 (hasg f πf rfl).2 dir a hpre
  | neg => exact neg_holds c dir a hpre
  | abs => exact abs_holds c dir a hpre
  | add => exact add_holds c dir a hpre
  | sub => exact sub_holds c dir a hpre
  | mul => exact mul_holds c dir a hpre
  | div => exact div_holds c dir a hpre
  | idiv => exact idiv_holds c dir a hpre
  | rem => exact rem_holds c dir a hpre
  | addMul => exact addMul_holds c dir a hpre
  | subMul => exact subMul_holds c dir a hpre
  | add2exp => exact add2exp_holds c dir a hpre
  | sub2exp => exact sub2exp_holds c dir a hpre
  | mul2exp => exact mul2exp_holds c dir a hpre
  | div2exp => exact div2exp_holds c dir a hpre
  | umod2exp => exact umod2exp_holds c dir a hpre
  | smod2exp => exact smod2exp_holds c dir a hpre
  | sqrt => cases hop
  | gcd => exact gcd_spec c dir a hpre
  | lcm => exact lcm_spec c dir a hpre

/-! ## bounded builds never lie -/

/-- **A straight-line coefficient computation in a bounded configuration** (every operator hands
its result code to `Bounded_Integer_Coefficient_Policy::handle_result`, which throws on every
overflow class and on NaN) **either throws or ends with exactly the registers of the unbounded
(`mpz_class`) computation** — for every width and signedness, every program over `neg, abs, +, -, *,
add_mul, sub_mul, /, %`, every initial register file of representable values.
(`gcd`, `lcm`, `sqrt` are not among the instructions; division by zero is a trap in both
configurations.) -/
theorem bounded_never_lies {t : IntTy} {π : Policy} (c : Cfg t π)
    (hn : π.hasNan = false) (hi : π.hasInfinity = false) (dir : Dir) (hdir : dir.notRequested = true)
    (prog : List BInstr) (r : Regs) (hr : ∀ j, t.inRange (r j)) (r' : Regs)
    (h : runB t π dir prog r = some r') : runU prog r = some r' :=
  runB_some c.wf c.larger c.checkOverflow hn hi dir hdir prog r hr r' h

/-- non-vacuity: a computation that stays in range, and one that throws where wrapping would
have produced a different answer (100 + 100 on `int8_t`) -/
example : (runB .i8 .checkOverflowOnly .ignore [.mul 2 0 1, .addMul 2 0 0, .div 3 2 1] (fun i => if i = 0 then 7 else 3)).map
    (fun r => (r 2, r 3)) = some (70, 23) := by decide
example : runB .i8 .checkOverflowOnly .ignore [.add 2 0 0] (fun _ => 100) = none := by decide

/-! ## historical witnesses: what the four primitives did before they were repaired

About the as-written variants of `ModelAsWritten.lean` (the code of /repo before 5157d9d, 295149f,
f54ddd9, 1ff2aae).  `IntOp.runM fx` is what the driver compares the library with: `IntOp.run`, except
that an operation whose repair the harness measured absent runs its as-written primitive. -/

theorem runM_repaired (t : IntTy) (π : Policy) (op : IntOp) (dir : Dir) (a : Operands) :
    IntOp.runM {} t π op dir a = IntOp.run t π op dir a := IntOp.runM_repaired t π op dir a

/-- **KF-C11-1 (fixed).  `7 / -2`, ROUND_DOWN on `int8_t` stored −3 and returned `V_GT`** ("the exact
result is greater than −3"; it is −3.5): relation and direction both violated. -/
theorem div_holds_before_fix_fails :
    divAsWritten .i8 .checkOverflowOnly 0 7 (-2) .down = (-3, V_GT) ∧
    ¬ K4.holds V_GT (Ext.fin ((-3 : Int) : Rat)) (Ext.fin ((7 : Rat) / (-2 : Rat))) ∧
    ¬ K4.directed .down V_GT (Ext.fin ((-3 : Int) : Rat)) (Ext.fin ((7 : Rat) / (-2 : Rat))) := by
  refine ⟨by decide, ?_, ?_⟩
  · simp only [K4.holds, V_GT, K4.relHolds, Rel.GT, Rel.EMPTY, Ext.lt, Ext.eqv]
    norm_num
  · simp only [K4.directed, V_GT, Ext.le, Ext.lt, Ext.eqv]
    intro h
    have := (h trivial (by decide)).2 trivial
    norm_num at this

/-- **KF-C11-2 (fixed).  `0 − 2·64` on `int8_t`, ROUND_UP stored −128 and returned `V_LT_INF`**
("negative overflow, the exact result is below −128"); the exact result is −128. -/
theorem subMul_holds_before_fix_fails :
    subMulAsWritten .i8 .checkOverflowOnly 0 2 64 .up = (-128, V_LT_INF) ∧
    ¬ K4.holds V_LT_INF (Ext.fin (-128 : Int)) (Ext.fin ((0 : Int) - 2 * 64)) := by
  refine ⟨by decide, ?_⟩
  simp [K4.holds, V_LT_INF, K4.relHolds, Rel.LT, Rel.EMPTY, Ext.lt, Ext.eqv]

/-- **KF-C11-3 (fixed).  `-1 umod 2^7` on `int8_t` under `Extended_Number_Policy` stored 127 with
`V_EQ`** — 127 is the bit pattern of `+∞` under that policy. -/
theorem umod2exp_holds_before_fix_fails :
    umod2expAsWritten .i8 .extended 0 (-1) 7 .down = (127, V_EQ) ∧
    ¬ K4.holds V_EQ (IntTy.i8.denote .extended 127) (Ext.fin (127 : Int)) := by
  refine ⟨by decide, ?_⟩
  have e2 : IntTy.i8.denote .extended 127 = .pinf := by decide
  simp only [e2, K4.holds, V_EQ]
  intro ⟨_, ⟨s, hs⟩, _⟩
  cases hs

/-- **KF-C11-4 (fixed).  `sqrt(64)` on `int8_t`, ROUND_UP stored 0 and returned `V_LT`** ("the exact
result is below 0"; it is 8): the accumulator `q = s + t` of `isqrt_rem` exceeded the signed type.
(Judged through squares by the checker: `0² < 64` refutes `√64 < 0`.) -/
theorem sqrt_before_fix_fails :
    sqrtAsWritten .i8 .checkOverflowOnly 0 64 .up = (0, V_LT) ∧
    K4.holdsB V_LT (.fin 0) (IntOp.exact .i8 .checkOverflowOnly .sqrt { x := 64 }) = false ∧
    IntOp.run .i8 .checkOverflowOnly .sqrt .up { x := 64 } = (8, V_EQ) := by decide

/-- the "infinities only" layout of `Extended_Int` (not a policy the library instantiates) -/
def infOnly : Policy := { Policy.debugExtended with hasNan := false }

/-- **KF-C11-5 (fixed by /repo 5d13b40).  `lcm(1, -127)` on `int8_t` with infinities only, ROUND_UP returned
`V_LT_PLUS_INFINITY`** (class `+∞`, representable: "`+∞` was stored") while `to` still held its old value 85:
the code of the `abs` of a temporary.  The repaired code stores `+∞`. -/
theorem lcm_spec_before_fix_fails :
    lcmAsWritten .i8 infOnly 85 1 (-127) .up = (85, V_LT_PLUS_INFINITY) ∧
    K4.holdsB V_LT_PLUS_INFINITY (IntTy.i8.denote infOnly 85) (IntOp.exact .i8 infOnly .lcm { to0 := 85, x := 1, y := -127 })
      = false ∧
    IntOp.run .i8 infOnly .lcm .up { to0 := 85, x := 1, y := -127 } = (127, V_LT_PLUS_INFINITY) := by decide

/-- a tree measured without the div repair is compared with the as-written division -/
example : IntOp.runM { div := false } .i8 .checkOverflowOnly .div .down { x := 7, y := -2 } = (-3, V_GT) := by decide

/-! ## the checker that judges the real library's output decides the property clauses -/

/-- **The driver's verdict on a real output is the property clause itself.**  `pplv_c11` evaluates
`K4.holdsB`, `K4.directedB`, `K4.overflowHoldsB` on the (stored value, result code) printed by the
library and the exact result `IntOp.exact`; for every operation except `sqrt` (whose exact result
is irrational and is compared through squares) these Booleans are equivalent to `K4.holds`,
`K4.directed`, `K4.overflowHolds` over `ℚ`. -/
theorem checker_decides (t : IntTy) (π : Policy) (op : IntOp) (hop : op ≠ .sqrt) (dir : Dir) (a : Operands)
    (r : Result) (stored : Int) :
    let exact := IntOp.exact t π op a
    let st := t.denote π stored
    (K4.holdsB r st exact = true ↔ K4.holds r (st.map (Int.cast : Int → Rat)) exact.toQ) ∧
    (K4.directedB dir r st exact = true ↔ K4.directed dir r (st.map (Int.cast : Int → Rat)) exact.toQ) ∧
    (K4.overflowHoldsB r (t.emin π) (t.emax π) exact = true ↔
      K4.overflowHolds r ((t.emin π : Int) : Rat) ((t.emax π : Int) : Rat) exact.toQ) := by
  have he := exact_rational t π op a hop
  exact ⟨holdsB_iff he r _, directedB_iff he dir r _, overflowHoldsB_iff he r _ _⟩

/-- non-vacuity: the checker rejects the library's answer to `7 / -2` and accepts `-7 / 2` -/
example : K4.holdsB V_GT (.fin (-3)) (IntOp.exact .i8 .checkOverflowOnly .div { x := 7, y := -2 }) = false := by decide
example : K4.holdsB V_GT (.fin (-4)) (IntOp.exact .i8 .checkOverflowOnly .div { x := -7, y := 2 }) = true := by decide

/-! ## floating point: judged on the real output; one conversion modelled and proved -/

/-- **The float judge decides the property clauses.**  For every float operation whose exact result is an
extended rational (everything except `sqrt`, which is compared through squares) `pplv_c11` brings the
stored value `sn / sd` and the exact result `n / d` to the denominator of the stored value and evaluates
`K4.holdsFB` / `K4.directedB`; these Booleans are equivalent to `K4.holdsF` / `K4.directed` about the two
rationals (`holdsF`: as `holds`, but a normal-class code may accompany a stored infinity of the format). -/
theorem float_judge_sound (stored ex : QV) (hs : stored.WF) (he : ex.WF) (r : Result) (dir : Dir) :
    (K4.holdsFB r stored.split.1 ((QX.val ex).scaled stored.split.2) = true ↔ K4.holdsF r stored.toQ ex.toQ) ∧
    (K4.directedB dir r stored.split.1 ((QX.val ex).scaled stored.split.2) = true ↔
      K4.directed dir r stored.toQ ex.toQ) :=
  PPLV.Checked.float_judge_sound stored ex hs he r dir

/-- non-vacuity: 1/3 stored as 0.375 = 3/8 with `V_LT` is accepted, with `V_GT` rejected -/
example : K4.holdsFB V_LT (QV.fin 3 8).split.1 ((QX.val (.fin 1 3)).scaled (QV.fin 3 8).split.2) = true := by decide
example : K4.holdsFB V_GT (QV.fin 3 8).split.1 ((QX.val (.fin 1 3)).scaled (QV.fin 3 8).split.2) = false := by decide

/-- **`assign_float_mpz` for every binary format** (`MANTISSA_BITS = f.mbits`, `EXPONENT_MAX = f.emax`), every
integer and direction: relation, direction and overflow claim are true; in particular the
meaningful-bits test `exponent - zeroes > MANTISSA_BITS` is exactly "more than `mbits + 1` significant
bits".  `e`, `z` are the values of `mpz_sizeinbase(from, 2) - 1` and `mpn_scan1(from, 0)`. -/
theorem assign_float_mpz_holds (f : FloatFormat) (hf : f.mbits ≤ f.emax) (v : Int) (e z : Nat) (dir : Dir)
    (he : v ≠ 0 → pow2 e ≤ (if v < 0 then -v else v) ∧ (if v < 0 then -v else v) < pow2 (e + 1))
    (hz : v ≠ 0 → pow2 z ∣ (if v < 0 then -v else v) ∧ ¬ pow2 (z + 1) ∣ (if v < 0 then -v else v)) :
    K4.holdsF (f.assignMpz v e z dir).2 (f.assignMpz v e z dir).1 (.fin v) ∧
    K4.directed dir (f.assignMpz v e z dir).2 (f.assignMpz v e z dir).1 (.fin v) ∧
    K4.overflowHolds (f.assignMpz v e z dir).2 (-(f.maxF)) f.maxF (.fin v) :=
  assignFloatMpz_ok f hf v e z dir he hz

/-- 2^24 + 1 has 25 significant bits: inexact in binary32; 2^24 + 2 = (2^23 + 1)·2 has 24: exact -/
example : FloatFormat.binary32.assignMpz 16777217 24 0 .up = (.fin 16777218, V_LT) := by decide
example : FloatFormat.binary32.assignMpz 16777217 24 0 .down = (.fin 16777216, V_GT) := by decide
example : FloatFormat.binary32.assignMpz 16777218 24 1 .up = (.fin 16777218, V_EQ) := by decide
example : FloatFormat.binary32.assignMpz (-(pow2 128)) 128 128 .up = (.fin (-(FloatFormat.binary32.maxF)), V_LT_INF) := by decide

end C11
