import PPLV.Props.C11
import PPLV.Checked.T2Run
import PPLV.Checked.T2Check8
/-!
# C11 / T2 — the theorems of C11 are about what `src/checked_int_inlines.hh` says now

`PPLV/Gen/CheckedT2.lean` is regenerated from the clang AST of the C++ function templates by
`gen/c11_t2.py` at every run of `bin/check C11`, before this file is built.

* `t2_<function>_eq` — for every translated C++ function: the regenerated definition **is** the
  function of the hand-written model `PPLV/Checked/Model.lean` the C11 theorems are about, for
  every width, signedness, policy, direction and operand.  A change of one token of the C++
  (`>` to `>=` in an overflow test, `V_LT` for `V_GT`, a dropped test, swapped operands) changes
  the generated text and the corresponding equality no longer checks.
  (`t2_div_2exp_signed_int_eq`, `t2_mul_2exp_signed_int_eq`: for a signed type and an operand that
  is a value of the type — the generated text works modulo `2^bits` on an unsigned copy, the model
  states the arithmetic meaning.)
* `runT2_eq` and `t2_<op>_holds` — `IntOp.runT2` (the extended layer over the regenerated kernel)
  computes what `IntOp.run` computes, so every `C11.<op>_holds` is a theorem about the regenerated
  definitions.

The arithmetic vocabulary the translator uses for the bit operations (`PPLV/Checked/T2Base.lean`) is
checked against `BitVec 8` on every bit pattern in `PPLV/Checked/T2Check8.lean`.

Not translated (a loop; reported in the evidence): `isqrt_rem`, hence `sqrt_unsigned_int`,
`sqrt_signed_int`; `gcd_exact`, `lcm_gcd_exact`.
-/
namespace C11
open PPLV.Checked PPLV.Checked.Result PPLV.Gen.T2

/-! ## every regenerated definition is the model's -/

/-- `Extended_Int<Policy, Type>`: the special-value layout regenerated from the source is the model's -/
theorem t2_Extended_Int_plus_infinity_eq (t : IntTy) (π : Policy) : t2_Extended_Int_plus_infinity π t = t.plusInf :=
  T2Agree.Extended_Int_plus_infinity_eq t π
theorem t2_Extended_Int_minus_infinity_eq (t : IntTy) (π : Policy) : t2_Extended_Int_minus_infinity π t = t.minusInf :=
  T2Agree.Extended_Int_minus_infinity_eq t π
theorem t2_Extended_Int_not_a_number_eq (t : IntTy) (π : Policy) : t2_Extended_Int_not_a_number π t = t.nanV π :=
  T2Agree.Extended_Int_not_a_number_eq t π
theorem t2_Extended_Int_min_eq (t : IntTy) (π : Policy) : t2_Extended_Int_min π t = t.emin π :=
  T2Agree.Extended_Int_min_eq t π
theorem t2_Extended_Int_max_eq (t : IntTy) (π : Policy) : t2_Extended_Int_max π t = t.emax π :=
  T2Agree.Extended_Int_max_eq t π

theorem t2_set_neg_overflow_int_eq (t : IntTy) (π : Policy) (to0 : Int) (dir : Dir) :
    t2_set_neg_overflow_int π t to0 dir = setNegOverflow t π to0 dir :=
  T2Agree.set_neg_overflow_int_eq t π to0 dir

theorem t2_set_pos_overflow_int_eq (t : IntTy) (π : Policy) (to0 : Int) (dir : Dir) :
    t2_set_pos_overflow_int π t to0 dir = setPosOverflow t π to0 dir :=
  T2Agree.set_pos_overflow_int_eq t π to0 dir

theorem t2_round_lt_int_no_overflow_eq (t : IntTy) (π : Policy) (to0 : Int) (dir : Dir) :
    t2_round_lt_int_no_overflow π t to0 dir = roundLtNoOverflow to0 dir :=
  T2Agree.round_lt_int_no_overflow_eq t π to0 dir

theorem t2_round_gt_int_no_overflow_eq (t : IntTy) (π : Policy) (to0 : Int) (dir : Dir) :
    t2_round_gt_int_no_overflow π t to0 dir = roundGtNoOverflow to0 dir :=
  T2Agree.round_gt_int_no_overflow_eq t π to0 dir

theorem t2_round_lt_int_eq (t : IntTy) (π : Policy) (to0 : Int) (dir : Dir) :
    t2_round_lt_int π t to0 dir = roundLt t π to0 dir :=
  T2Agree.round_lt_int_eq t π to0 dir

theorem t2_round_gt_int_eq (t : IntTy) (π : Policy) (to0 : Int) (dir : Dir) :
    t2_round_gt_int π t to0 dir = roundGt t π to0 dir :=
  T2Agree.round_gt_int_eq t π to0 dir

theorem t2_assign_special_int_eq (t : IntTy) (π : Policy) (v : Int) (c : Cls) (dir : Dir) :
    t2_assign_special_int π t v c dir = assignSpecial t π v c dir :=
  T2Agree.assign_special_int_eq t π v c dir

theorem t2_assign_nan_eq (t : IntTy) (π : Policy) (to0 : Int) (r : Result) :
    t2_assign_nan π t to0 r = assignNan t π to0 r :=
  T2Agree.assign_nan_eq t π to0 r

theorem t2_classify_int_eq (t : IntTy) (π : Policy) (v : Int) (nan inf sign : Bool) :
    t2_classify_int π t v nan inf sign = classify t π v nan inf sign :=
  T2Agree.classify_int_eq t π v nan inf sign

theorem t2_is_nan_int_eq (t : IntTy) (π : Policy) (v : Int) :
    t2_is_nan_int π t v = t.isNan π v :=
  T2Agree.is_nan_int_eq t π v

theorem t2_is_minf_int_eq (t : IntTy) (π : Policy) (v : Int) :
    t2_is_minf_int π t v = t.isMinf π v :=
  T2Agree.is_minf_int_eq t π v

theorem t2_is_pinf_int_eq (t : IntTy) (π : Policy) (v : Int) :
    t2_is_pinf_int π t v = t.isPinf π v :=
  T2Agree.is_pinf_int_eq t π v

theorem t2_assign_signed_int_signed_int_eq (t : IntTy) (πt : Policy) (f : IntTy) (πf : Policy) (to0 frm : Int) (dir : Dir) :
    t2_assign_signed_int_signed_int πt πf t f to0 frm dir = assignSignedSigned t πt f πf to0 frm dir :=
  T2Agree.assign_signed_int_signed_int_eq t πt f πf to0 frm dir

theorem t2_assign_signed_int_unsigned_int_eq (t : IntTy) (πt : Policy) (f : IntTy) (πf : Policy) (to0 frm : Int) (dir : Dir) :
    t2_assign_signed_int_unsigned_int πt πf t f to0 frm dir = assignSignedUnsigned t πt f πf to0 frm dir :=
  T2Agree.assign_signed_int_unsigned_int_eq t πt f πf to0 frm dir

theorem t2_assign_unsigned_int_signed_int_eq (t : IntTy) (πt : Policy) (f : IntTy) (πf : Policy) (to0 frm : Int) (dir : Dir) :
    t2_assign_unsigned_int_signed_int πt πf t f to0 frm dir = assignUnsignedSigned t πt f πf to0 frm dir :=
  T2Agree.assign_unsigned_int_signed_int_eq t πt f πf to0 frm dir

theorem t2_assign_unsigned_int_unsigned_int_eq (t : IntTy) (πt : Policy) (f : IntTy) (πf : Policy) (to0 frm : Int) (dir : Dir) :
    t2_assign_unsigned_int_unsigned_int πt πf t f to0 frm dir = assignUnsignedUnsigned t πt f πf to0 frm dir :=
  T2Agree.assign_unsigned_int_unsigned_int_eq t πt f πf to0 frm dir

theorem t2_assign_eq (t : IntTy) (πt : Policy) (f : IntTy) (πf : Policy) (to0 frm : Int) (dir : Dir) :
    t2_assign πt πf t f to0 frm dir = assignInt t πt f πf to0 frm dir :=
  T2Agree.assign_eq t πt f πf to0 frm dir

theorem t2_neg_int_larger_eq (t : IntTy) (π π' : Policy) (to0 x : Int) (dir : Dir) :
    t2_neg_int_larger π π' t to0 x dir = negLarger t π to0 x dir :=
  T2Agree.neg_int_larger_eq t π π' to0 x dir

theorem t2_add_int_larger_eq (t : IntTy) (π π1 π2 : Policy) (to0 x y : Int) (dir : Dir) :
    t2_add_int_larger π π1 π2 t to0 x y dir = addLarger t π to0 x y dir :=
  T2Agree.add_int_larger_eq t π π1 π2 to0 x y dir

theorem t2_sub_int_larger_eq (t : IntTy) (π π1 π2 : Policy) (to0 x y : Int) (dir : Dir) :
    t2_sub_int_larger π π1 π2 t to0 x y dir = subLarger t π to0 x y dir :=
  T2Agree.sub_int_larger_eq t π π1 π2 to0 x y dir

theorem t2_mul_int_larger_eq (t : IntTy) (π π1 π2 : Policy) (to0 x y : Int) (dir : Dir) :
    t2_mul_int_larger π π1 π2 t to0 x y dir = mulLarger t π to0 x y dir :=
  T2Agree.mul_int_larger_eq t π π1 π2 to0 x y dir

theorem t2_neg_signed_int_eq (t : IntTy) (π π' : Policy) (to0 x : Int) (dir : Dir) :
    t2_neg_signed_int π π' t to0 x dir = negSigned t π to0 x dir :=
  T2Agree.neg_signed_int_eq t π π' to0 x dir

theorem t2_neg_unsigned_int_eq (t : IntTy) (π π' : Policy) (to0 x : Int) (dir : Dir) :
    t2_neg_unsigned_int π π' t to0 x dir = negUnsigned t π to0 x dir :=
  T2Agree.neg_unsigned_int_eq t π π' to0 x dir

theorem t2_add_signed_int_eq (t : IntTy) (π π1 π2 : Policy) (to0 x y : Int) (dir : Dir) :
    t2_add_signed_int π π1 π2 t to0 x y dir = addSigned t π to0 x y dir :=
  T2Agree.add_signed_int_eq t π π1 π2 to0 x y dir

theorem t2_add_unsigned_int_eq (t : IntTy) (π π1 π2 : Policy) (to0 x y : Int) (dir : Dir) :
    t2_add_unsigned_int π π1 π2 t to0 x y dir = addUnsigned t π to0 x y dir :=
  T2Agree.add_unsigned_int_eq t π π1 π2 to0 x y dir

theorem t2_add_eq (t : IntTy) (π π1 π2 : Policy) (to0 x y : Int) (dir : Dir) :
    t2_add π π1 π2 t to0 x y dir = add t π to0 x y dir :=
  T2Agree.add_eq t π π1 π2 to0 x y dir

theorem t2_sub_signed_int_eq (t : IntTy) (π π1 π2 : Policy) (to0 x y : Int) (dir : Dir) :
    t2_sub_signed_int π π1 π2 t to0 x y dir = subSigned t π to0 x y dir :=
  T2Agree.sub_signed_int_eq t π π1 π2 to0 x y dir

theorem t2_sub_unsigned_int_eq (t : IntTy) (π π1 π2 : Policy) (to0 x y : Int) (dir : Dir) :
    t2_sub_unsigned_int π π1 π2 t to0 x y dir = subUnsigned t π to0 x y dir :=
  T2Agree.sub_unsigned_int_eq t π π1 π2 to0 x y dir

theorem t2_sub_eq (t : IntTy) (π π1 π2 : Policy) (to0 x y : Int) (dir : Dir) :
    t2_sub π π1 π2 t to0 x y dir = sub t π to0 x y dir :=
  T2Agree.sub_eq t π π1 π2 to0 x y dir

theorem t2_neg_eq (t : IntTy) (π π' : Policy) (to0 x : Int) (dir : Dir) :
    t2_neg π π' t to0 x dir = neg t π to0 x dir :=
  T2Agree.neg_eq t π π' to0 x dir

theorem t2_mul_signed_int_eq (t : IntTy) (π π1 π2 : Policy) (to0 x y : Int) (dir : Dir) :
    t2_mul_signed_int π π1 π2 t to0 x y dir = mulSigned t π to0 x y dir :=
  T2Agree.mul_signed_int_eq t π π1 π2 to0 x y dir

theorem t2_mul_unsigned_int_eq (t : IntTy) (π π1 π2 : Policy) (to0 x y : Int) (dir : Dir) :
    t2_mul_unsigned_int π π1 π2 t to0 x y dir = mulUnsigned t π to0 x y dir :=
  T2Agree.mul_unsigned_int_eq t π π1 π2 to0 x y dir

theorem t2_mul_eq (t : IntTy) (π π1 π2 : Policy) (to0 x y : Int) (dir : Dir) :
    t2_mul π π1 π2 t to0 x y dir = mul t π to0 x y dir :=
  T2Agree.mul_eq t π π1 π2 to0 x y dir

theorem t2_div_signed_int_eq (t : IntTy) (π π1 π2 : Policy) (to0 x y : Int) (dir : Dir) :
    t2_div_signed_int π π1 π2 t to0 x y dir = divSigned t π to0 x y dir :=
  T2Agree.div_signed_int_eq t π π1 π2 to0 x y dir

theorem t2_div_unsigned_int_eq (t : IntTy) (π π1 π2 : Policy) (to0 x y : Int) (dir : Dir) :
    t2_div_unsigned_int π π1 π2 t to0 x y dir = divUnsigned t π to0 x y dir :=
  T2Agree.div_unsigned_int_eq t π π1 π2 to0 x y dir

theorem t2_idiv_signed_int_eq (t : IntTy) (π π1 π2 : Policy) (to0 x y : Int) (dir : Dir) :
    t2_idiv_signed_int π π1 π2 t to0 x y dir = idivSigned t π to0 x y dir :=
  T2Agree.idiv_signed_int_eq t π π1 π2 to0 x y dir

theorem t2_idiv_unsigned_int_eq (t : IntTy) (π π1 π2 : Policy) (to0 x y : Int) (dir : Dir) :
    t2_idiv_unsigned_int π π1 π2 t to0 x y dir = idivUnsigned t π to0 x y dir :=
  T2Agree.idiv_unsigned_int_eq t π π1 π2 to0 x y dir

theorem t2_rem_signed_int_eq (t : IntTy) (π π1 π2 : Policy) (to0 x y : Int) (dir : Dir) :
    t2_rem_signed_int π π1 π2 t to0 x y dir = remSigned t π to0 x y dir :=
  T2Agree.rem_signed_int_eq t π π1 π2 to0 x y dir

theorem t2_rem_unsigned_int_eq (t : IntTy) (π π1 π2 : Policy) (to0 x y : Int) (dir : Dir) :
    t2_rem_unsigned_int π π1 π2 t to0 x y dir = remUnsigned t π to0 x y dir :=
  T2Agree.rem_unsigned_int_eq t π π1 π2 to0 x y dir

theorem t2_div_2exp_unsigned_int_eq (t : IntTy) (π π' : Policy) (to0 x : Int) (e : Nat) (dir : Dir) :
    t2_div_2exp_unsigned_int π π' t to0 x e dir = div2expUnsigned t π to0 x e dir :=
  T2Agree.div_2exp_unsigned_int_eq t π π' to0 x e dir

theorem t2_add_2exp_unsigned_int_eq (t : IntTy) (π π' : Policy) (to0 x : Int) (e : Nat) (dir : Dir) :
    t2_add_2exp_unsigned_int π π' t to0 x e dir = add2expUnsigned t π to0 x e dir :=
  T2Agree.add_2exp_unsigned_int_eq t π π' to0 x e dir

theorem t2_add_2exp_signed_int_eq (t : IntTy) (π π' : Policy) (to0 x : Int) (e : Nat) (dir : Dir) :
    t2_add_2exp_signed_int π π' t to0 x e dir = add2expSigned t π to0 x e dir :=
  T2Agree.add_2exp_signed_int_eq t π π' to0 x e dir

theorem t2_sub_2exp_unsigned_int_eq (t : IntTy) (π π' : Policy) (to0 x : Int) (e : Nat) (dir : Dir) :
    t2_sub_2exp_unsigned_int π π' t to0 x e dir = sub2expUnsigned t π to0 x e dir :=
  T2Agree.sub_2exp_unsigned_int_eq t π π' to0 x e dir

theorem t2_sub_2exp_signed_int_eq (t : IntTy) (π π' : Policy) (to0 x : Int) (e : Nat) (dir : Dir) :
    t2_sub_2exp_signed_int π π' t to0 x e dir = sub2expSigned t π to0 x e dir :=
  T2Agree.sub_2exp_signed_int_eq t π π' to0 x e dir

theorem t2_mul_2exp_unsigned_int_eq (t : IntTy) (π π' : Policy) (to0 x : Int) (e : Nat) (dir : Dir) :
    t2_mul_2exp_unsigned_int π π' t to0 x e dir = mul2expUnsigned t π to0 x e dir :=
  T2Agree.mul_2exp_unsigned_int_eq t π π' to0 x e dir

theorem t2_smod_2exp_unsigned_int_eq (t : IntTy) (π π' : Policy) (to0 x : Int) (e : Nat) (dir : Dir) :
    t2_smod_2exp_unsigned_int π π' t to0 x e dir = smod2expUnsigned t π to0 x e dir :=
  T2Agree.smod_2exp_unsigned_int_eq t π π' to0 x e dir

theorem t2_smod_2exp_signed_int_eq (t : IntTy) (π π' : Policy) (to0 x : Int) (e : Nat) (dir : Dir) :
    t2_smod_2exp_signed_int π π' t to0 x e dir = smod2expSigned t π to0 x e dir :=
  T2Agree.smod_2exp_signed_int_eq t π π' to0 x e dir

theorem t2_umod_2exp_unsigned_int_eq (t : IntTy) (π π' : Policy) (to0 x : Int) (e : Nat) (dir : Dir) :
    t2_umod_2exp_unsigned_int π π' t to0 x e dir = umod2expUnsigned t π to0 x e dir :=
  T2Agree.umod_2exp_unsigned_int_eq t π π' to0 x e dir

theorem t2_umod_2exp_signed_int_eq (t : IntTy) (π π' : Policy) (to0 x : Int) (e : Nat) (dir : Dir) :
    t2_umod_2exp_signed_int π π' t to0 x e dir = umod2expSigned t π to0 x e dir :=
  T2Agree.umod_2exp_signed_int_eq t π π' to0 x e dir

theorem t2_sgn_generic_eq (t : IntTy) (π : Policy) (x : Int) :
    t2_sgn_generic π t x = sgnNative x :=
  T2Agree.sgn_generic_eq t π x

theorem t2_cmp_generic_eq (t1 t2 : IntTy) (π1 π2 : Policy) (x y : Int) :
    t2_cmp_generic π1 π2 t1 t2 x y = cmpNative x y :=
  T2Agree.cmp_generic_eq t1 t2 π1 π2 x y

theorem t2_abs_generic_eq (t : IntTy) (π : Policy) (to0 x : Int) (dir : Dir) (hs : t.signed = true) :
    t2_abs_generic π π t t to0 x dir = abs t π to0 x dir :=
  T2Agree.abs_generic_eq t π to0 x dir hs

theorem t2_abs_eq (t : IntTy) (π : Policy) (to0 x : Int) (dir : Dir) :
    t2_abs π π t to0 x dir = abs t π to0 x dir :=
  T2Agree.abs_eq t π to0 x dir

theorem t2_add_mul_int_eq (t : IntTy) (π π1 π2 : Policy) (to0 x y : Int) (dir : Dir) :
    t2_add_mul_int π π1 π2 t to0 x y dir = addMul t π to0 x y dir :=
  T2Agree.add_mul_int_eq t π π1 π2 to0 x y dir

theorem t2_sub_mul_int_eq (t : IntTy) (π π1 π2 : Policy) (to0 x y : Int) (dir : Dir) :
    t2_sub_mul_int π π1 π2 t to0 x y dir = subMul t π to0 x y dir :=
  T2Agree.sub_mul_int_eq t π π1 π2 to0 x y dir

theorem t2_div_eq (t : IntTy) (π π1 π2 : Policy) (to0 x y : Int) (dir : Dir) :
    t2_div π π1 π2 t to0 x y dir = div t π to0 x y dir :=
  T2Agree.div_eq t π π1 π2 to0 x y dir

theorem t2_idiv_eq (t : IntTy) (π π1 π2 : Policy) (to0 x y : Int) (dir : Dir) :
    t2_idiv π π1 π2 t to0 x y dir = idiv t π to0 x y dir :=
  T2Agree.idiv_eq t π π1 π2 to0 x y dir

theorem t2_rem_eq (t : IntTy) (π π1 π2 : Policy) (to0 x y : Int) (dir : Dir) :
    t2_rem π π1 π2 t to0 x y dir = rem t π to0 x y dir :=
  T2Agree.rem_eq t π π1 π2 to0 x y dir

theorem t2_add_2exp_eq (t : IntTy) (π π' : Policy) (to0 x : Int) (e : Nat) (dir : Dir) :
    t2_add_2exp π π' t to0 x e dir = add2exp t π to0 x e dir :=
  T2Agree.add_2exp_eq t π π' to0 x e dir

theorem t2_sub_2exp_eq (t : IntTy) (π π' : Policy) (to0 x : Int) (e : Nat) (dir : Dir) :
    t2_sub_2exp π π' t to0 x e dir = sub2exp t π to0 x e dir :=
  T2Agree.sub_2exp_eq t π π' to0 x e dir

theorem t2_smod_2exp_eq (t : IntTy) (π π' : Policy) (to0 x : Int) (e : Nat) (dir : Dir) :
    t2_smod_2exp π π' t to0 x e dir = smod2exp t π to0 x e dir :=
  T2Agree.smod_2exp_eq t π π' to0 x e dir

theorem t2_umod_2exp_eq (t : IntTy) (π π' : Policy) (to0 x : Int) (e : Nat) (dir : Dir) :
    t2_umod_2exp π π' t to0 x e dir = umod2exp t π to0 x e dir :=
  T2Agree.umod_2exp_eq t π π' to0 x e dir

theorem t2_div_2exp_signed_int_eq (t : IntTy) (π π' : Policy) (to0 x : Int) (e : Nat) (dir : Dir) (hs : t.signed = true) (hx : t.inRange x) :
    t2_div_2exp_signed_int π π' t to0 x e dir = div2expSigned t π to0 x e dir :=
  T2Agree.div_2exp_signed_int_eq t π π' to0 x e dir hs hx

theorem t2_mul_2exp_signed_int_eq (t : IntTy) (π π' : Policy) (to0 x : Int) (e : Nat) (dir : Dir) (hs : t.signed = true) (hx : t.inRange x) :
    t2_mul_2exp_signed_int π π' t to0 x e dir = mul2expSigned t π to0 x e dir :=
  T2Agree.mul_2exp_signed_int_eq t π π' to0 x e dir hs hx

theorem t2_div_2exp_eq (t : IntTy) (π π' : Policy) (to0 x : Int) (e : Nat) (dir : Dir) (hx : t.inRange x) :
    t2_div_2exp π π' t to0 x e dir = div2exp t π to0 x e dir :=
  T2Agree.div_2exp_eq t π π' to0 x e dir hx

theorem t2_mul_2exp_eq (t : IntTy) (π π' : Policy) (to0 x : Int) (e : Nat) (dir : Dir) (hx : t.inRange x) :
    t2_mul_2exp π π' t to0 x e dir = mul2exp t π to0 x e dir :=
  T2Agree.mul_2exp_eq t π π' to0 x e dir hx

/-! ## the C11 theorems, about the regenerated kernel -/

/-- **The regenerated kernel computes what the model computes**: `IntOp.runT2` is `IntOp.run` with every
native-integer primitive replaced by its definition regenerated from the C++ source. -/
theorem runT2_eq (t : IntTy) (π : Policy) (op : IntOp) (dir : Dir) (a : Operands)
    (hx : op = .mul2exp ∨ op = .div2exp → t.inRange a.x) :
    IntOp.runT2 t π op dir a = IntOp.run t π op dir a := IntOp.runT2_eq t π op dir a hx

/-- non-vacuity: the regenerated kernel, evaluated -/
example : IntOp.runT2 .i8 .checkOverflowOnly .add .down { x := 100, y := 100 } = (127, V_GT_SUP) := by decide
example : IntOp.runT2 .i64 .checkOverflowOnly .add .down { x := 9223372036854775807, y := 0 } = (9223372036854775807, V_EQ) := by decide
example : IntOp.runT2 .i8 .checkOverflowOnly .div .down { x := 7, y := -2 } = (-4, V_GT) := by decide
example : IntOp.runT2 .i8 .extended .mul2exp .up { x := -1, e := 7 } = (-126, V_LT_INF) := by decide
example : IntOp.runT2 .i8 .checkOverflowOnly .div2exp .down { x := -7, e := 1 } = (-4, V_GT) := by decide
example : IntOp.runT2 .i8 .checkOverflowOnly .rem .down { x := -7, y := 2 } = (-1, V_EQ) := by decide

theorem t2_assign_holds {t f : IntTy} {π πf : Policy} (c : Cfg t π) (wf : f.WF πf) (hg : t.GapOK f) (dir : Dir)
    (a : Operands) (hpre : IntOp.pre t π (.assign f πf) a = true) :
    OKQ t π dir (IntOp.runT2 t π (.assign f πf) dir a) (IntOp.exact t π (.assign f πf) a).toQ := by
  rw [IntOp.runT2_eq t π _ dir a (by intro h; rcases h with h | h <;> cases h)]
  exact assign_holds c wf hg dir a hpre

theorem t2_neg_holds {t : IntTy} {π : Policy} (c : Cfg t π) (dir : Dir) (a : Operands)
    (hpre : IntOp.pre t π .neg a = true) :
    OKQ t π dir (IntOp.runT2 t π .neg dir a) (IntOp.exact t π .neg a).toQ := by
  rw [IntOp.runT2_eq t π .neg dir a (fun _ => IntOp.pre_inRange hpre (by intro f πf h; cases h))]
  exact neg_holds c dir a hpre

theorem t2_abs_holds {t : IntTy} {π : Policy} (c : Cfg t π) (dir : Dir) (a : Operands)
    (hpre : IntOp.pre t π .abs a = true) :
    OKQ t π dir (IntOp.runT2 t π .abs dir a) (IntOp.exact t π .abs a).toQ := by
  rw [IntOp.runT2_eq t π .abs dir a (fun _ => IntOp.pre_inRange hpre (by intro f πf h; cases h))]
  exact abs_holds c dir a hpre

theorem t2_add_holds {t : IntTy} {π : Policy} (c : Cfg t π) (dir : Dir) (a : Operands)
    (hpre : IntOp.pre t π .add a = true) :
    OKQ t π dir (IntOp.runT2 t π .add dir a) (IntOp.exact t π .add a).toQ := by
  rw [IntOp.runT2_eq t π .add dir a (fun _ => IntOp.pre_inRange hpre (by intro f πf h; cases h))]
  exact add_holds c dir a hpre

theorem t2_sub_holds {t : IntTy} {π : Policy} (c : Cfg t π) (dir : Dir) (a : Operands)
    (hpre : IntOp.pre t π .sub a = true) :
    OKQ t π dir (IntOp.runT2 t π .sub dir a) (IntOp.exact t π .sub a).toQ := by
  rw [IntOp.runT2_eq t π .sub dir a (fun _ => IntOp.pre_inRange hpre (by intro f πf h; cases h))]
  exact sub_holds c dir a hpre

theorem t2_mul_holds {t : IntTy} {π : Policy} (c : Cfg t π) (dir : Dir) (a : Operands)
    (hpre : IntOp.pre t π .mul a = true) :
    OKQ t π dir (IntOp.runT2 t π .mul dir a) (IntOp.exact t π .mul a).toQ := by
  rw [IntOp.runT2_eq t π .mul dir a (fun _ => IntOp.pre_inRange hpre (by intro f πf h; cases h))]
  exact mul_holds c dir a hpre

theorem t2_div_holds {t : IntTy} {π : Policy} (c : Cfg t π) (dir : Dir) (a : Operands)
    (hpre : IntOp.pre t π .div a = true) :
    OKQ t π dir (IntOp.runT2 t π .div dir a) (IntOp.exact t π .div a).toQ := by
  rw [IntOp.runT2_eq t π .div dir a (fun _ => IntOp.pre_inRange hpre (by intro f πf h; cases h))]
  exact div_holds c dir a hpre

theorem t2_idiv_holds {t : IntTy} {π : Policy} (c : Cfg t π) (dir : Dir) (a : Operands)
    (hpre : IntOp.pre t π .idiv a = true) :
    OKQ t π dir (IntOp.runT2 t π .idiv dir a) (IntOp.exact t π .idiv a).toQ := by
  rw [IntOp.runT2_eq t π .idiv dir a (fun _ => IntOp.pre_inRange hpre (by intro f πf h; cases h))]
  exact idiv_holds c dir a hpre

theorem t2_rem_holds {t : IntTy} {π : Policy} (c : Cfg t π) (dir : Dir) (a : Operands)
    (hpre : IntOp.pre t π .rem a = true) :
    OKQ t π dir (IntOp.runT2 t π .rem dir a) (IntOp.exact t π .rem a).toQ := by
  rw [IntOp.runT2_eq t π .rem dir a (fun _ => IntOp.pre_inRange hpre (by intro f πf h; cases h))]
  exact rem_holds c dir a hpre

theorem t2_addMul_holds {t : IntTy} {π : Policy} (c : Cfg t π) (dir : Dir) (a : Operands)
    (hpre : IntOp.pre t π .addMul a = true) :
    OKQ t π dir (IntOp.runT2 t π .addMul dir a) (IntOp.exact t π .addMul a).toQ := by
  rw [IntOp.runT2_eq t π .addMul dir a (fun _ => IntOp.pre_inRange hpre (by intro f πf h; cases h))]
  exact addMul_holds c dir a hpre

theorem t2_subMul_holds {t : IntTy} {π : Policy} (c : Cfg t π) (dir : Dir) (a : Operands)
    (hpre : IntOp.pre t π .subMul a = true) :
    OKQ t π dir (IntOp.runT2 t π .subMul dir a) (IntOp.exact t π .subMul a).toQ := by
  rw [IntOp.runT2_eq t π .subMul dir a (fun _ => IntOp.pre_inRange hpre (by intro f πf h; cases h))]
  exact subMul_holds c dir a hpre

theorem t2_add2exp_holds {t : IntTy} {π : Policy} (c : Cfg t π) (dir : Dir) (a : Operands)
    (hpre : IntOp.pre t π .add2exp a = true) :
    OKQ t π dir (IntOp.runT2 t π .add2exp dir a) (IntOp.exact t π .add2exp a).toQ := by
  rw [IntOp.runT2_eq t π .add2exp dir a (fun _ => IntOp.pre_inRange hpre (by intro f πf h; cases h))]
  exact add2exp_holds c dir a hpre

theorem t2_sub2exp_holds {t : IntTy} {π : Policy} (c : Cfg t π) (dir : Dir) (a : Operands)
    (hpre : IntOp.pre t π .sub2exp a = true) :
    OKQ t π dir (IntOp.runT2 t π .sub2exp dir a) (IntOp.exact t π .sub2exp a).toQ := by
  rw [IntOp.runT2_eq t π .sub2exp dir a (fun _ => IntOp.pre_inRange hpre (by intro f πf h; cases h))]
  exact sub2exp_holds c dir a hpre

theorem t2_mul2exp_holds {t : IntTy} {π : Policy} (c : Cfg t π) (dir : Dir) (a : Operands)
    (hpre : IntOp.pre t π .mul2exp a = true) :
    OKQ t π dir (IntOp.runT2 t π .mul2exp dir a) (IntOp.exact t π .mul2exp a).toQ := by
  rw [IntOp.runT2_eq t π .mul2exp dir a (fun _ => IntOp.pre_inRange hpre (by intro f πf h; cases h))]
  exact mul2exp_holds c dir a hpre

theorem t2_div2exp_holds {t : IntTy} {π : Policy} (c : Cfg t π) (dir : Dir) (a : Operands)
    (hpre : IntOp.pre t π .div2exp a = true) :
    OKQ t π dir (IntOp.runT2 t π .div2exp dir a) (IntOp.exact t π .div2exp a).toQ := by
  rw [IntOp.runT2_eq t π .div2exp dir a (fun _ => IntOp.pre_inRange hpre (by intro f πf h; cases h))]
  exact div2exp_holds c dir a hpre

theorem t2_smod2exp_holds {t : IntTy} {π : Policy} (c : Cfg t π) (dir : Dir) (a : Operands)
    (hpre : IntOp.pre t π .smod2exp a = true) :
    OKQ t π dir (IntOp.runT2 t π .smod2exp dir a) (IntOp.exact t π .smod2exp a).toQ := by
  rw [IntOp.runT2_eq t π .smod2exp dir a (fun _ => IntOp.pre_inRange hpre (by intro f πf h; cases h))]
  exact smod2exp_holds c dir a hpre

theorem t2_umod2exp_holds {t : IntTy} {π : Policy} (c : Cfg t π) (dir : Dir) (a : Operands)
    (hpre : IntOp.pre t π .umod2exp a = true) :
    OKQ t π dir (IntOp.runT2 t π .umod2exp dir a) (IntOp.exact t π .umod2exp a).toQ := by
  rw [IntOp.runT2_eq t π .umod2exp dir a (fun _ => IntOp.pre_inRange hpre (by intro f πf h; cases h))]
  exact umod2exp_holds c dir a hpre

/-- **C11.op_holds over the regenerated kernel**, partial exactly as `op_holds_partial`
(`sqrt`, `gcd`, `lcm` have no theorem and are not translated) -/
theorem t2_op_holds_partial {t : IntTy} {π : Policy} (c : Cfg t π) (op : IntOp) (hop : proved op = true)
    (hasg : ∀ f πf, op = .assign f πf → f.WF πf ∧ t.GapOK f)
    (dir : Dir) (a : Operands) (hpre : IntOp.pre t π op a = true) :
    OKQ t π dir (IntOp.runT2 t π op dir a) (IntOp.exact t π op a).toQ := by
  have hx : op = .mul2exp ∨ op = .div2exp → t.inRange a.x := by
    intro h
    exact IntOp.pre_inRange hpre (by intro f πf h'; rcases h with h | h <;> rw [h] at h' <;> cases h')
  rw [IntOp.runT2_eq t π op dir a hx]
  exact op_holds_partial c op hop hasg dir a hpre

end C11
